import ZvbiModel.Xds.Spec
import ZvbiModel.Hamm.Lemmas
/-!
# Lemmas for C09, part 1: lists, slots, the sender spec, and `vbi_xds_demux_feed`
-/
namespace Zvbi.Xds
open Zvbi.Hamm Zvbi.Gen.Xds

/-! ## lists -/

theorem take_set_set {α} (l : List α) (k : Nat) (a b : α) (h : k + 1 < l.length) :
    ((l.set k a).set (k + 1) b).take (k + 1) = l.take k ++ [a] ∧
    ((l.set k a).set (k + 1) b).take (k + 2) = l.take k ++ [a, b] := by
  have h1 : ((l.set k a).set (k + 1) b).take (k + 1) = l.take k ++ [a] := by
    rw [List.take_set_of_le (Nat.le_refl _), List.take_add_one, List.take_set_of_le (Nat.le_refl _),
      List.getElem?_set_self (by omega)]
    rfl
  refine ⟨h1, ?_⟩
  rw [show k + 2 = (k + 1) + 1 from rfl, List.take_add_one, h1,
    List.getElem?_set_self (by simp [List.length_set]; omega)]
  simp

/-! ## slots -/

theorem Slot.store_buf_length (sl : Slot) (c1 c2 : Nat) : (sl.store c1 c2).buf.length = sl.buf.length := by
  simp [Slot.store]

/-- characters a payload pair contributes -/
def pairBytes (q : Pair) : List Nat := if q.2 = 0 then [q.1] else [q.1, q.2]

theorem Slot.store_view (sl : Slot) (c1 c2 : Nat) (h2 : 2 ≤ sl.count) (hn : sl.count ≤ sl.buf.length) :
    (sl.store c1 c2).count = sl.count + (pairBytes (c1, c2)).length ∧
    (sl.store c1 c2).cksum = sl.cksum + c1 + c2 ∧
    (sl.store c1 c2).buf.take ((sl.store c1 c2).count - 2) = sl.buf.take (sl.count - 2) ++ pairBytes (c1, c2) := by
  obtain ⟨k, hk⟩ : ∃ k, sl.count = k + 2 := ⟨sl.count - 2, by omega⟩
  have hlen : k + 1 < sl.buf.length := by omega
  have := take_set_set sl.buf k c1 c2 hlen
  by_cases hc : c2 = 0
  · simp [Slot.store, pairBytes, hc, hk] at *
    have := take_set_set sl.buf k c1 0 hlen
    simpa using this.1
  · simp [Slot.store, pairBytes, hc, hk] at *
    exact this.2


/-! ## slot array -/

theorem resetAt_some {slots : List Slot} {i : Nat} {sl : Slot} (h : slots[i]? = some sl) :
    resetAt slots (some i) = slots.set i sl.reset := by simp [resetAt, h]

theorem getElem?_lt {slots : List Slot} {i : Nat} (h : i < slots.length) : ∃ sl, slots[i]? = some sl :=
  ⟨slots[i], List.getElem?_eq_getElem h⟩

theorem lt_of_getElem? {slots : List Slot} {i : Nat} {sl : Slot} (h : slots[i]? = some sl) : i < slots.length := by
  rcases Nat.lt_or_ge i slots.length with h' | h'
  · exact h'
  · rw [List.getElem?_eq_none h'] at h; cases h

theorem all_set {P : Slot → Prop} {l : List Slot} {i : Nat} {x : Slot}
    (h : ∀ (j : Nat) (sl : Slot), l[j]? = some sl → P sl) (hx : P x) :
    ∀ (j : Nat) (sl : Slot), (l.set i x)[j]? = some sl → P sl := by
  intro j sl hj
  rw [List.getElem?_set] at hj
  split at hj
  · split at hj
    · cases hj; exact hx
    · cases hj
  · exact h j sl hj

theorem resetAt_ne (slots : List Slot) (sp : Option Nat) (i : Nat) (h : sp ≠ some i) :
    (resetAt slots sp)[i]? = slots[i]? := by
  cases sp with
  | none => rfl
  | some j =>
    simp only [resetAt]
    split
    · exact List.getElem?_set_ne (by intro e; exact h (by rw [e])) 
    · rfl

/-! ## sender spec -/

/-- characters carried by a list of payload pairs -/
def bytesOf (qs : List Pair) : List Nat := qs.flatMap pairBytes
/-- sum of all bytes of a list of pairs -/
def sumOf (qs : List Pair) : Nat := (qs.map fun q => q.1 + q.2).sum

theorem bytesOf_append (a b : List Pair) : bytesOf (a ++ b) = bytesOf a ++ bytesOf b := by
  simp [bytesOf]
theorem sumOf_append (a b : List Pair) : sumOf (a ++ b) = sumOf a + sumOf b := by
  simp [sumOf]

/-- payload pair: first byte an informational character, second any 7-bit value -/
def IsContent (q : Pair) : Prop := 0x20 ≤ q.1 ∧ q.1 ≤ 0x7F ∧ q.2 < 128

/-- every pair of the list is stored: the byte count before each pair is within the guard -/
def Fits : Nat → List Pair → Prop
  | _, [] => True
  | n, q :: r => n ≤ 30 ∧ Fits (n + (pairBytes q).length) r

theorem fits_append : ∀ (a b : List Pair) (n : Nat), Fits n (a ++ b) ↔ Fits n a ∧ Fits (n + (bytesOf a).length) b
  | [], b, n => by simp [Fits, bytesOf]
  | q :: a, b, n => by
    simp only [List.cons_append, Fits, fits_append a b, bytesOf, List.flatMap_cons, List.length_append]
    rw [Nat.add_assoc]
    exact and_assoc.symm

theorem pairsOf_spec : ∀ (p : List Nat), (∀ c ∈ p, isChar c) →
    bytesOf (pairsOf p) = p ∧ sumOf (pairsOf p) = p.sum ∧ (∀ q ∈ pairsOf p, IsContent q) ∧
    ∀ n, n % 2 = 0 → n + p.length ≤ 32 → Fits n (pairsOf p)
  | [], _ => by simp [pairsOf, bytesOf, sumOf, Fits]
  | [a], h => by
    have ha := h a (by simp)
    simp only [isChar] at ha
    refine ⟨by simp [pairsOf, bytesOf, pairBytes], by simp [pairsOf, sumOf], ?_, ?_⟩
    · intro q hq; simp only [pairsOf, List.mem_singleton] at hq; subst hq; simp only [IsContent]; omega
    · intro n hn hl; simp only [List.length_singleton] at hl; simp only [pairsOf, Fits]; exact ⟨by omega, trivial⟩
  | a :: b :: r, h => by
    have ha := h a (by simp)
    have hb := h b (by simp)
    simp only [isChar] at ha hb
    obtain ⟨h1, h2, h3, h4⟩ := pairsOf_spec r (fun c hc => h c (by simp [hc]))
    have hb0 : b ≠ 0 := by omega
    refine ⟨?_, ?_, ?_, ?_⟩
    · simp only [pairsOf, bytesOf, List.flatMap_cons, pairBytes, hb0, if_false]
      simp only [bytesOf] at h1; rw [h1]; rfl
    · simp only [pairsOf, sumOf, List.map_cons, List.sum_cons]
      simp only [sumOf] at h2; rw [h2]; omega
    · intro q hq
      simp only [pairsOf, List.mem_cons] at hq
      rcases hq with rfl | hq
      · simp only [IsContent]; omega
      · exact h3 q hq
    · intro n hn hl
      simp only [List.length_cons] at hl
      simp only [pairsOf, Fits, pairBytes, hb0, if_false, List.length_cons, List.length_nil]
      exact ⟨by omega, h4 (n + 2) (by omega) (by omega)⟩

/-! ## xds_demux.c: invariant of every reachable state -/
namespace Demux

/-- a buffer is either idle (count 0) or holds a start pair plus at most 32 characters -/
def SlotOk (sl : Slot) : Prop :=
  sl.buf.length = demuxBufExtent ∧ (sl.count = 0 ∨ 2 ≤ sl.count) ∧ sl.count ≤ demuxStoreGuard + 2

structure Inv (s : State) : Prop where
  len : s.slots.length = demuxClasses * demuxSubclasses
  ok : ∀ (j : Nat) (sl : Slot), s.slots[j]? = some sl → SlotOk sl
  cur : ∀ i : Nat, s.curr = some i → (∃ sl, s.slots[i]? = some sl ∧ 2 ≤ sl.count) ∧
    accepted s.curCls s.curSub ∧ i = slotOf s.curCls s.curSub

/-- what a step may hand to the client -/
def PktOk (p : Pkt) : Prop := 1 ≤ p.data.length ∧ p.data.length ≤ demuxBufExtent ∧ accepted p.cls p.sub

def OutOk (o : Out) : Prop := o.err = none ∧ ∀ p, o.pkt = some p → PktOk p

theorem outOk_empty : OutOk {} := ⟨rfl, by intro p h; cases h⟩

theorem inv_init : Inv init := by
  refine ⟨by simp [init], ?_, by intro i h; cases h⟩
  intro j sl h
  simp only [init, List.getElem?_replicate] at h
  split at h
  · cases h; simp [SlotOk, Slot.zero, demuxBufExtent, demuxStoreGuard]
  · cases h

theorem slotOk_reset {sl : Slot} (h : SlotOk sl) : SlotOk sl.reset := by
  simp only [SlotOk, Slot.reset] at *
  exact ⟨h.1, Or.inl trivial, Nat.zero_le _⟩

theorem inv_discard {s : State} (hlen : s.slots.length = demuxClasses * demuxSubclasses)
    (hok : ∀ (j : Nat) (sl : Slot), s.slots[j]? = some sl → SlotOk sl) (sp : Option Nat) : Inv (discard s sp) := by
  cases sp with
  | none => exact ⟨hlen, hok, by intro i hi; cases hi⟩
  | some i =>
    refine ⟨?_, ?_, by intro i hi; cases hi⟩
    · simp only [discard, resetAt]; split <;> simp [hlen]
    · simp only [discard, resetAt]
      split
      · rename_i sl hsl
        exact all_set hok (slotOk_reset (hok i sl hsl))
      · exact hok

theorem inv_clear {s : State} (h : Inv s) : Inv { s with curr := none } :=
  ⟨h.len, h.ok, by intro i hi; cases hi⟩

theorem cls_le (c1 : Nat) (h : c1 ≤ 14) : (c1 - 1) >>> 1 ≤ 6 := by
  rw [Nat.shiftRight_eq_div_pow]; omega

theorem inv_header (rk : Bool) {s : State} (h : Inv s) (c1 c2 : Nat) :
    Inv (header rk s c1 c2).1 ∧ OutOk (header rk s c1 c2).2 := by
  unfold header
  simp only []
  split
  · split
    · exact ⟨inv_clear h, outOk_empty⟩
    · exact ⟨inv_discard h.len h.ok _, outOk_empty⟩
  · rename_i hacc
    have hacc' : (c1 - 1) >>> 1 ≤ demuxMaxClass ∧ remap c2 < demuxSubclasses := by
      constructor
      · apply Nat.le_of_not_gt; intro hc; exact hacc (Or.inl hc)
      · apply Nat.lt_of_not_ge; intro hc; exact hacc (Or.inr hc)
    have hidx : (c1 - 1) >>> 1 * demuxSubclasses + remap c2 < s.slots.length := by
      rw [h.len]; have := hacc'.1; have := hacc'.2
      simp only [demuxMaxClass, demuxSubclasses, demuxClasses] at *
      omega
    obtain ⟨sl, hsl⟩ := getElem?_lt hidx
    simp only [hsl]
    have hok := h.ok _ _ hsl
    split
    · -- start
      refine ⟨⟨by simp [h.len], ?_, ?_⟩, outOk_empty⟩
      · exact all_set h.ok (by
          simp only [SlotOk, Slot.start, demuxStoreGuard] at *
          exact ⟨hok.1, Or.inr (Nat.le_refl _), by omega⟩)
      · intro i hi
        simp only [Option.some.injEq] at hi
        subst hi
        exact ⟨⟨_, List.getElem?_set_self hidx, by simp [Slot.start]⟩, hacc', rfl⟩
    · split
      · exact ⟨inv_discard (s := { s with curr := some _, curCls := _, curSub := _ }) h.len h.ok _, outOk_empty⟩
      · rename_i hc0
        refine ⟨⟨h.len, h.ok, ?_⟩, outOk_empty⟩
        intro i hi
        simp only [Option.some.injEq] at hi
        subst hi
        have := hok.2.1
        exact ⟨⟨sl, hsl, by omega⟩, hacc', rfl⟩


theorem inv_terminator {s : State} (h : Inv s) (c1 c2 : Nat) :
    Inv (terminator s c1 c2).1 ∧ OutOk (terminator s c1 c2).2 := by
  unfold terminator
  split
  · exact ⟨h, outOk_empty⟩
  · rename_i i hi
    obtain ⟨⟨sl, hsl, h2⟩, hacc, _⟩ := h.cur i hi
    simp only [hsl]
    have hok := h.ok _ _ hsl
    have hd := inv_discard h.len h.ok (some i)
    simp only [SlotOk, demuxBufExtent, demuxStoreGuard] at hok
    split
    · exact ⟨hd, outOk_empty⟩
    · split
      · exact ⟨hd, outOk_empty⟩
      · split
        · rename_i hbad; simp only [demuxPktExtent] at hbad; omega
        · split
          · rename_i hbad; simp only [demuxBufExtent] at hbad; omega
          · refine ⟨hd, rfl, ?_⟩
            intro p hp
            simp only [Option.some.injEq] at hp
            subst hp
            simp only [PktOk, List.length_take, demuxBufExtent]
            exact ⟨by omega, by omega, hacc⟩

theorem inv_content {s : State} (h : Inv s) (c1 c2 : Nat) :
    Inv (content s c1 c2).1 ∧ OutOk (content s c1 c2).2 := by
  unfold content
  split
  · exact ⟨h, outOk_empty⟩
  · rename_i i hi
    obtain ⟨⟨sl, hsl, h2⟩, hacc, hidx⟩ := h.cur i hi
    simp only [hsl]
    have hok := h.ok _ _ hsl
    simp only [SlotOk, demuxBufExtent, demuxStoreGuard] at hok
    split
    · exact ⟨inv_discard h.len h.ok _, outOk_empty⟩
    · rename_i hg
      simp only [demuxStoreGuard] at hg
      split
      · omega
      · split
        · rename_i hbad; simp only [demuxBufExtent] at hbad; omega
        · refine ⟨⟨by simp [h.len], ?_, ?_⟩, outOk_empty⟩
          · apply all_set h.ok
            simp only [SlotOk, demuxBufExtent, demuxStoreGuard, Slot.store_buf_length]
            refine ⟨hok.1, Or.inr ?_, ?_⟩ <;> (simp only [Slot.store]; split <;> omega)
          · intro j hj
            rw [hi] at hj
            simp only [Option.some.injEq] at hj
            subst hj
            refine ⟨⟨_, List.getElem?_set_self (lt_of_getElem? hsl), ?_⟩, hacc, hidx⟩
            simp only [Slot.store]; omega

theorem inv_step7 (rk : Bool) {s : State} (h : Inv s) (c1 c2 : Nat) :
    Inv (step7 rk s c1 c2).1 ∧ OutOk (step7 rk s c1 c2).2 := by
  unfold step7
  split
  · exact ⟨h, outOk_empty⟩
  · split
    · exact inv_header rk h c1 c2
    · split
      · exact inv_terminator h c1 c2
      · split
        · exact ⟨inv_clear h, outOk_empty⟩
        · exact inv_content h c1 c2

theorem inv_step (rk : Bool) {s : State} (h : Inv s) (b : Nat × Nat) :
    Inv (step rk s b).1 ∧ OutOk (step rk s b).2 := by
  unfold step
  split
  · exact inv_step7 rk h _ _
  · exact ⟨inv_discard h.len h.ok _, rfl, by intro p hp; cases hp⟩

theorem inv_run (rk : Bool) : ∀ (bs : List (Nat × Nat)) {s : State}, Inv s →
    Inv (run rk s bs).1 ∧ ∀ o ∈ (run rk s bs).2, OutOk o
  | [], s, h => ⟨h, by intro o ho; cases ho⟩
  | b :: bs, s, h => by
    have h1 := inv_step rk h b
    have h2 := inv_run rk bs h1.1
    simp only [run]
    refine ⟨h2.1, ?_⟩
    intro o ho
    rcases List.mem_cons.mp ho with rfl | ho
    · exact h1.2
    · exact h2.2 o ho


/-! ## xds_demux.c: reassembly of one packet -/

/-- `step7` over a list of parity-checked pairs -/
def run7 (rk : Bool) : State → List Pair → State × List Out
  | s, [] => (s, [])
  | s, q :: qs =>
    let r := step7 rk s q.1 q.2
    let r2 := run7 rk r.1 qs
    (r2.1, r.2 :: r2.2)

theorem step_parPair (rk : Bool) (s : State) (q : Pair) (h : q.1 < 128 ∧ q.2 < 128) :
    step rk s (parPair q) = step7 rk s q.1 q.2 := by
  simp [step, parPair, unpar8_par8 _ h.1, unpar8_par8 _ h.2]

theorem run_map_parPair (rk : Bool) : ∀ (qs : List Pair) (s : State), (∀ q ∈ qs, q.1 < 128 ∧ q.2 < 128) →
    run rk s (qs.map parPair) = run7 rk s qs
  | [], s, _ => rfl
  | q :: qs, s, h => by
    simp only [List.map_cons, run, run7, step_parPair rk s q (h q (by simp))]
    rw [run_map_parPair rk qs _ (fun q' hq' => h q' (by simp [hq']))]

theorem run7_append (rk : Bool) : ∀ (a b : List Pair) (s : State),
    run7 rk s (a ++ b) = ((run7 rk (run7 rk s a).1 b).1, (run7 rk s a).2 ++ (run7 rk (run7 rk s a).1 b).2)
  | [], b, s => by simp [run7]
  | q :: a, b, s => by simp [run7, run7_append rk a b]

/-- what buffer `sl` holds after the start pair of (cls, sub) and the payload pairs `done` -/
def Holds (cls sub : Nat) (done : List Pair) (sl : Slot) : Prop :=
  sl.count = 2 + (bytesOf done).length ∧ sl.cksum = (2 * cls + 1) + sub + sumOf done ∧
  sl.buf.take (bytesOf done).length = bytesOf done

/-- packet (cls, sub) is the current one, `done` are the payload pairs stored so far -/
structure OpenAt (cls sub : Nat) (done : List Pair) (s : State) : Prop where
  inv : Inv s
  cur : s.curr = some (slotOf cls sub)
  lab : s.curCls = cls ∧ s.curSub = sub
  slot : ∃ sl, s.slots[slotOf cls sub]? = some sl ∧ Holds cls sub done sl

/-- packet (cls, sub) is interrupted: its buffer keeps `done`, something else (or nothing) is current -/
structure Parked (cls sub : Nat) (done : List Pair) (s : State) : Prop where
  inv : Inv s
  cur : s.curr ≠ some (slotOf cls sub)
  slot : ∃ sl, s.slots[slotOf cls sub]? = some sl ∧ Holds cls sub done sl

theorem shift_cls (cls : Nat) : (2 * cls + 1 - 1) >>> 1 = cls ∧ (2 * cls + 2 - 1) >>> 1 = cls := by
  rw [Nat.shiftRight_eq_div_pow, Nat.shiftRight_eq_div_pow]; omega

theorem slot_lt {s : State} (h : Inv s) {cls sub : Nat} (hacc : accepted cls sub) :
    ∃ sl, s.slots[slotOf cls sub]? = some sl := by
  apply getElem?_lt
  rw [h.len]
  simp only [accepted, slotOf, demuxMaxClass, demuxSubclasses, demuxClasses] at *
  omega

theorem open_start (rk : Bool) {s : State} (h : Inv s) {cls sub : Nat} (hacc : accepted cls sub) :
    OpenAt cls sub [] (step7 rk s (2 * cls + 1) sub).1 ∧ (step7 rk s (2 * cls + 1) sub).2.pkt = none := by
  obtain ⟨sl, hsl⟩ := slot_lt h hacc
  have hc : cls ≤ 3 := hacc.1
  have hrej : ¬(cls > demuxMaxClass ∨ remap sub ≥ demuxSubclasses) := by
    intro hh; rcases hh with hh | hh
    · exact absurd hacc.1 (by omega)
    · exact absurd hacc.2 (by omega)
  have hslot : cls * demuxSubclasses + remap sub = slotOf cls sub := rfl
  have e : step7 rk s (2 * cls + 1) sub =
      ({ slots := s.slots.set (slotOf cls sub) (sl.start (2 * cls + 1) sub), curr := some (slotOf cls sub),
         curCls := cls, curSub := sub }, {}) := by
    have h1 : ¬(2 * cls + 1 = 0) := by omega
    have h2 : 2 * cls + 1 ≤ 14 := by omega
    have h3 : (2 * cls + 1) % 2 = 1 := by omega
    simp only [step7, h1, h2, if_true, if_false, header, (shift_cls cls).1, hrej, hslot, hsl, h3]
  have hinv := (inv_step7 rk h (2 * cls + 1) sub).1
  rw [e] at hinv ⊢
  refine ⟨⟨hinv, rfl, ⟨rfl, rfl⟩, _, List.getElem?_set_self (lt_of_getElem? hsl), ?_⟩, rfl⟩
  simp [Holds, Slot.start, bytesOf, sumOf]

theorem open_content (rk : Bool) {s : State} {cls sub : Nat} {done : List Pair} (h : OpenAt cls sub done s)
    (q : Pair) (hq : IsContent q) (hfit : (bytesOf done).length ≤ 30) :
    OpenAt cls sub (done ++ [q]) (step7 rk s q.1 q.2).1 ∧ (step7 rk s q.1 q.2).2.pkt = none := by
  obtain ⟨sl, hsl, hc, hk, ht⟩ := h.slot
  have hok := h.inv.ok _ _ hsl
  simp only [SlotOk, demuxBufExtent, demuxStoreGuard] at hok
  obtain ⟨hq1, hq2, hq3⟩ := hq
  have e : step7 rk s q.1 q.2 = ({ s with slots := s.slots.set (slotOf cls sub) (sl.store q.1 q.2) }, {}) := by
    have h1 : ¬(q.1 = 0) := by omega
    have h2 : ¬(q.1 ≤ 14) := by omega
    have h3 : ¬(q.1 = 15) := by omega
    have h4 : ¬(q.1 ≤ 31) := by omega
    have h5 : ¬(sl.count > demuxStoreGuard) := by simp only [demuxStoreGuard]; omega
    have h6 : ¬(sl.count < 2) := by omega
    have h7 : ¬(sl.count - 1 ≥ demuxBufExtent) := by simp only [demuxBufExtent]; omega
    simp only [step7, h1, h2, h3, h4, if_false, content, h.cur, hsl, h5, h6, h7]
  have hinv := (inv_step7 rk h.inv q.1 q.2).1
  rw [e] at hinv ⊢
  refine ⟨⟨hinv, h.cur, h.lab, _, List.getElem?_set_self (lt_of_getElem? hsl), ?_⟩, rfl⟩
  obtain ⟨v1, v2, v3⟩ := Slot.store_view sl q.1 q.2 (by omega) (by omega)
  have hcnt : sl.count - 2 = (bytesOf done).length := by omega
  simp only [Holds, bytesOf_append, sumOf_append, List.length_append]
  refine ⟨?_, ?_, ?_⟩
  · rw [v1, hc]; simp [bytesOf, Nat.add_assoc]
  · rw [v2, hk]; simp [sumOf]; omega
  · have : (bytesOf [q]) = pairBytes (q.1, q.2) := by simp [bytesOf]
    rw [this]
    have hc' : (sl.store q.1 q.2).count - 2 = (bytesOf done).length + (pairBytes (q.1, q.2)).length := by omega
    rw [← hc', v3, hcnt, ht]


theorem no_pkts_cons {o : Out} {os : List Out} (h1 : o.pkt = none) (h2 : deliveries os = []) :
    deliveries (o :: os) = [] := by
  simp [deliveries, List.filterMap_cons, h1] at *; exact h2

theorem open_content_run (rk : Bool) {cls sub : Nat} : ∀ (qs : List Pair) {s : State} {done : List Pair},
    OpenAt cls sub done s → (∀ q ∈ qs, IsContent q) → Fits (bytesOf done).length qs →
    OpenAt cls sub (done ++ qs) (run7 rk s qs).1 ∧ deliveries (run7 rk s qs).2 = []
  | [], s, done, h, _, _ => by simpa [run7, deliveries] using h
  | q :: qs, s, done, h, hq, hf => by
    obtain ⟨hf1, hf2⟩ := hf
    obtain ⟨h1, h2⟩ := open_content rk h q (hq q (by simp)) hf1
    have hf2' : Fits (bytesOf (done ++ [q])).length qs := by
      simpa [bytesOf_append, bytesOf] using hf2
    obtain ⟨h3, h4⟩ := open_content_run rk qs h1 (fun q' hq' => hq q' (by simp [hq'])) hf2'
    simp only [run7]
    refine ⟨by simpa using h3, no_pkts_cons h2 h4⟩

/-- the end pair: delivered iff the sum is 0 mod 128 and at least one character arrived -/
theorem open_term (rk : Bool) {s : State} {cls sub : Nat} {done : List Pair} (h : OpenAt cls sub done s) (ck : Nat) :
    (step7 rk s 0x0F ck).2.pkt =
      (if ((2 * cls + 1) + sub + sumOf done + 0x0F + ck) % 128 = 0 ∧ bytesOf done ≠ []
       then some ⟨cls, sub, bytesOf done⟩ else none) ∧
    (step7 rk s 0x0F ck).1.curr = none ∧
    (∃ sl, (step7 rk s 0x0F ck).1.slots[slotOf cls sub]? = some sl ∧ sl.count = 0) := by
  obtain ⟨sl, hsl, hc, hk, ht⟩ := h.slot
  have hok := h.inv.ok _ _ hsl
  simp only [SlotOk, demuxBufExtent, demuxStoreGuard] at hok
  have hlen : (bytesOf done).length ≤ 32 := by omega
  have hne : bytesOf done ≠ [] ↔ ¬ (sl.count ≤ 2) := by
    rw [hc]; cases bytesOf done <;> simp
  simp only [step7, show ¬((15:Nat) = 0) by omega, show ¬((15:Nat) ≤ 14) by omega, if_true, if_false,
    terminator, h.cur, hsl]
  have hcnt : sl.count - 2 = (bytesOf done).length := by omega
  refine ⟨?_, ?_, ?_⟩
  · rw [hk]
    by_cases hsum : ((2 * cls + 1) + sub + sumOf done + 15 + ck) % 128 = 0
    · by_cases hemp : sl.count ≤ 2
      · have : ¬ (bytesOf done ≠ []) := by rw [hne]; exact fun h => h hemp
        simp [hsum, hemp, this]
      · have hx : bytesOf done ≠ [] := hne.mpr hemp
        have h8 : ¬((bytesOf done).length ≥ demuxPktExtent) := by simp only [demuxPktExtent]; omega
        have h9 : ¬((bytesOf done).length > demuxBufExtent) := by simp only [demuxBufExtent]; omega
        simp only [hsum, hemp, h8, h9, hx, h.lab.1, h.lab.2, hcnt, ht, not_true_eq_false, if_false, and_self, if_true,
          ne_eq, not_false_eq_true]
    · simp [hsum]
  · split <;> (try split) <;> (try split) <;> (try split) <;> rfl
  · refine ⟨sl.reset, ?_, rfl⟩
    have : ∀ (o : Out), ((discard s (some (slotOf cls sub)), o).1).slots[slotOf cls sub]? = some sl.reset := by
      intro o
      simp only [discard, resetAt_some hsl]
      exact List.getElem?_set_self (lt_of_getElem? hsl)
    split <;> (try split) <;> (try split) <;> (try split) <;> exact this _


theorem deliveries_append (a b : List Out) : deliveries (a ++ b) = deliveries a ++ deliveries b := by
  simp [deliveries]

theorem deliveries_cons (o : Out) (os : List Out) : deliveries (o :: os) = o.pkt.toList ++ deliveries os := by
  cases h : o.pkt <;> simp [deliveries, List.filterMap_cons, h]

/-- one complete, uninterrupted packet -/
theorem deliver_wire7 (rk : Bool) {s : State} (h : Inv s) (p : Packet) (hv : p.Valid)
    (hacc : accepted p.cls p.sub) (ck : Nat) :
    deliveries (run7 rk s (wire7 p ck)).2 = (if (bodySum p + ck) % 128 = 0 then [p.toPkt] else []) ∧
    (run7 rk s (wire7 p ck)).1.curr = none := by
  obtain ⟨hb, hs, hcont, hfit⟩ := pairsOf_spec p.payload hv.chars
  obtain ⟨h1, h1'⟩ := open_start rk h hacc
  obtain ⟨h2, h2'⟩ := open_content_run rk (pairsOf p.payload) h1 hcont
    (by simpa [bytesOf] using hfit 0 rfl (by have := hv.len_le; omega))
  obtain ⟨h3, h3', _⟩ := open_term rk h2 ck
  simp only [List.nil_append, hb, hs] at h3
  have hne : p.payload ≠ [] := by
    intro e; have := hv.len_pos; rw [e] at this; simp at this
  simp only [wire7, startPair, run7, run7_append, deliveries_cons, deliveries_append, h1', h2', h3, h3',
    Option.toList, List.nil_append, List.append_nil, hne, ne_eq, not_false_eq_true, and_true, bodySum]
  split <;> simp_all [Packet.toPkt, deliveries]


/-! ## xds_demux.c: pairs that do not belong to the packet in buffer `i` -/

/-- header pair (start or continue) that addresses buffer `i` -/
def Opens (i : Nat) (q : Pair) : Prop :=
  1 ≤ q.1 ∧ q.1 ≤ 14 ∧ accepted ((q.1 - 1) >>> 1) q.2 ∧ slotOf ((q.1 - 1) >>> 1) q.2 = i

theorem some_ne {a b : Nat} (h : a ≠ b) : (some a : Option Nat) ≠ some b := by
  intro e; cases e; exact h rfl

/-- while buffer `i` is not the current one, a pair that is not a header for it leaves it alone -/
theorem frame_step7 (rk : Bool) {s : State} (h : Inv s) (i : Nat) (hcur : s.curr ≠ some i) (c1 c2 : Nat)
    (hno : ¬ Opens i (c1, c2)) :
    (step7 rk s c1 c2).1.slots[i]? = s.slots[i]? ∧ (step7 rk s c1 c2).1.curr ≠ some i ∧
    ∀ p, (step7 rk s c1 c2).2.pkt = some p → slotOf p.cls p.sub ≠ i := by
  have triv : ∀ (o : Out), o.pkt = none → ∀ p, o.pkt = some p → slotOf p.cls p.sub ≠ i := by
    intro o ho p hp; rw [ho] at hp; cases hp
  unfold step7
  split
  · exact ⟨rfl, hcur, triv _ rfl⟩
  rename_i hc0
  split
  · -- header
    rename_i hc14
    unfold header
    simp only []
    split
    · split
      · exact ⟨rfl, by simp, triv _ rfl⟩
      · exact ⟨resetAt_ne _ _ _ hcur, by simp [discard], triv _ rfl⟩
    · rename_i hrej
      have hacc : accepted ((c1 - 1) >>> 1) c2 := by
        constructor
        · apply Nat.le_of_not_gt; intro hc; exact hrej (Or.inl hc)
        · apply Nat.lt_of_not_ge; intro hc; exact hrej (Or.inr hc)
      have hidx : (c1 - 1) >>> 1 * demuxSubclasses + remap c2 ≠ i := by
        intro e; exact hno ⟨by omega, hc14, hacc, e⟩
      split
      · exact ⟨rfl, hcur, triv _ rfl⟩
      · split
        · exact ⟨List.getElem?_set_ne hidx, some_ne hidx, triv _ rfl⟩
        · split
          · exact ⟨resetAt_ne _ _ _ (some_ne hidx), by simp [discard], triv _ rfl⟩
          · exact ⟨rfl, some_ne hidx, triv _ rfl⟩
  split
  · -- terminator
    unfold terminator
    split
    · exact ⟨rfl, hcur, triv _ rfl⟩
    · rename_i j hj
      have hji : j ≠ i := by intro e; rw [e] at hj; exact hcur hj
      split
      · exact ⟨rfl, hcur, triv _ rfl⟩
      · have hd : (discard s (some j)).slots[i]? = s.slots[i]? := resetAt_ne _ _ _ (some_ne hji)
        have hlab := (h.cur j hj).2.2
        simp only []
        split
        · exact ⟨hd, by simp [discard], triv _ rfl⟩
        · split
          · exact ⟨hd, by simp [discard], triv _ rfl⟩
          · split
            · exact ⟨hd, by simp [discard], triv _ rfl⟩
            · split
              · exact ⟨hd, by simp [discard], triv _ rfl⟩
              · refine ⟨hd, by simp [discard], ?_⟩
                intro p hp
                simp only [Option.some.injEq] at hp
                subst hp
                simp only []
                rw [← hlab]; exact hji
  split
  · exact ⟨rfl, by simp, triv _ rfl⟩
  · -- content
    unfold content
    split
    · exact ⟨rfl, hcur, triv _ rfl⟩
    · rename_i j hj
      have hji : j ≠ i := by intro e; rw [e] at hj; exact hcur hj
      split
      · exact ⟨rfl, hcur, triv _ rfl⟩
      · split
        · exact ⟨resetAt_ne _ _ _ (some_ne hji), by simp [discard], triv _ rfl⟩
        · split
          · exact ⟨rfl, hcur, triv _ rfl⟩
          · split
            · exact ⟨rfl, hcur, triv _ rfl⟩
            · exact ⟨List.getElem?_set_ne hji, hcur, triv _ rfl⟩


/-- readable pair that takes the demultiplexer away from the current packet in buffer `i`: a caption
    control code, or a header for another buffer (a header the demultiplexer refuses only counts when
    the refusal leaves the interrupted packet alone, `rk`) -/
def Leaves (rk : Bool) (i : Nat) (q : Pair) : Prop :=
  (0x10 ≤ q.1 ∧ q.1 ≤ 0x1F) ∨
  (1 ≤ q.1 ∧ q.1 ≤ 14 ∧ ¬ Opens i q ∧ (accepted ((q.1 - 1) >>> 1) q.2 ∨ rk = true))

theorem leave_step7 (rk : Bool) {s : State} (h : Inv s) (i : Nat) (hcur : s.curr = some i) (q : Pair)
    (hl : Leaves rk i q) :
    (step7 rk s q.1 q.2).1.slots[i]? = s.slots[i]? ∧ (step7 rk s q.1 q.2).1.curr ≠ some i ∧
    (step7 rk s q.1 q.2).2.pkt = none := by
  rcases hl with ⟨h1, h2⟩ | ⟨h1, h2, hno, hacc⟩
  · have a1 : ¬(q.1 = 0) := by omega
    have a2 : ¬(q.1 ≤ 14) := by omega
    have a3 : ¬(q.1 = 15) := by omega
    simp [step7, a1, a2, a3, h2]
  · have a1 : ¬(q.1 = 0) := by omega
    simp only [step7, a1, h2, if_true, if_false, header]
    split
    · rename_i hrej
      have : rk = true := by
        rcases hacc with hacc | hrk
        · exfalso; rcases hrej with hr | hr
          · exact absurd hacc.1 (by omega)
          · exact absurd hacc.2 (by omega)
        · exact hrk
      simp [this]
    · rename_i hrej
      have hacc' : accepted ((q.1 - 1) >>> 1) q.2 := by
        constructor
        · apply Nat.le_of_not_gt; intro hc; exact hrej (Or.inl hc)
        · apply Nat.lt_of_not_ge; intro hc; exact hrej (Or.inr hc)
      have hidx : (q.1 - 1) >>> 1 * demuxSubclasses + remap q.2 ≠ i := by
        intro e; exact hno ⟨h1, h2, hacc', e⟩
      split
      · rename_i hnone
        obtain ⟨sl, hsl⟩ := slot_lt h hacc'
        simp only [slotOf] at hsl
        rw [hsl] at hnone; cases hnone
      · split
        · exact ⟨List.getElem?_set_ne hidx, some_ne hidx, rfl⟩
        · split
          · exact ⟨resetAt_ne _ _ _ (some_ne hidx), by simp [discard], rfl⟩
          · exact ⟨rfl, some_ne hidx, rfl⟩


/-- no delivery of the list is labelled with a (class, type) that uses buffer `i` -/
def Quiet (i : Nat) (os : List Out) : Prop := ∀ d ∈ deliveries os, slotOf d.cls d.sub ≠ i

theorem quiet_nil (i : Nat) : Quiet i [] := by intro d hd; simp [deliveries] at hd

theorem quiet_cons {i : Nat} {o : Out} {os : List Out} (h1 : ∀ p, o.pkt = some p → slotOf p.cls p.sub ≠ i)
    (h2 : Quiet i os) : Quiet i (o :: os) := by
  intro d hd
  rw [deliveries_cons] at hd
  rcases List.mem_append.mp hd with hd | hd
  · cases ho : o.pkt with
    | none => simp [ho] at hd
    | some p => simp [ho] at hd; subst hd; exact h1 _ ho
  · exact h2 d hd

theorem quiet_append {i : Nat} {a b : List Out} (h1 : Quiet i a) (h2 : Quiet i b) : Quiet i (a ++ b) := by
  intro d hd
  rw [deliveries_append] at hd
  rcases List.mem_append.mp hd with hd | hd
  · exact h1 d hd
  · exact h2 d hd

theorem quiet_of_none {i : Nat} {os : List Out} (h : deliveries os = []) : Quiet i os := by
  intro d hd; rw [h] at hd; cases hd

theorem parked_run (rk : Bool) {cls sub : Nat} {done : List Pair} : ∀ (qs : List Pair) {s : State},
    Parked cls sub done s → (∀ q ∈ qs, ¬ Opens (slotOf cls sub) q) →
    Parked cls sub done (run7 rk s qs).1 ∧ Quiet (slotOf cls sub) (run7 rk s qs).2
  | [], s, h, _ => ⟨h, quiet_nil _⟩
  | q :: qs, s, h, hq => by
    obtain ⟨f1, f2, f3⟩ := frame_step7 rk h.inv (slotOf cls sub) h.cur q.1 q.2 (hq q (by simp))
    have hp : Parked cls sub done (step7 rk s q.1 q.2).1 :=
      ⟨(inv_step7 rk h.inv q.1 q.2).1, f2, by rw [f1]; exact h.slot⟩
    obtain ⟨g1, g2⟩ := parked_run rk qs hp (fun q' hq' => hq q' (by simp [hq']))
    exact ⟨g1, quiet_cons f3 g2⟩

theorem parked_cont (rk : Bool) {s : State} {cls sub : Nat} {done : List Pair} (h : Parked cls sub done s)
    (hacc : accepted cls sub) :
    OpenAt cls sub done (step7 rk s (2 * cls + 2) sub).1 ∧ (step7 rk s (2 * cls + 2) sub).2.pkt = none := by
  obtain ⟨sl, hsl, hh⟩ := h.slot
  have hc : cls ≤ 3 := hacc.1
  have hrej : ¬(cls > demuxMaxClass ∨ remap sub ≥ demuxSubclasses) := by
    intro hx; rcases hx with hx | hx
    · exact absurd hacc.1 (by omega)
    · exact absurd hacc.2 (by omega)
  have hslot : cls * demuxSubclasses + remap sub = slotOf cls sub := rfl
  have e : step7 rk s (2 * cls + 2) sub =
      ({ s with curr := some (slotOf cls sub), curCls := cls, curSub := sub }, {}) := by
    have h1 : ¬(2 * cls + 2 = 0) := by omega
    have h2 : 2 * cls + 2 ≤ 14 := by omega
    have h3 : ¬((2 * cls + 2) % 2 = 1) := by omega
    have h4 : ¬(sl.count = 0) := by rw [hh.1]; omega
    simp only [step7, h1, h2, if_true, if_false, header, (shift_cls cls).2, hrej, hslot, hsl, h3, h4]
  have hinv := (inv_step7 rk h.inv (2 * cls + 2) sub).1
  rw [e] at hinv ⊢
  exact ⟨⟨hinv, rfl, ⟨rfl, rfl⟩, sl, hsl, hh⟩, rfl⟩

theorem open_leave (rk : Bool) {s : State} {cls sub : Nat} {done : List Pair} (h : OpenAt cls sub done s)
    (q : Pair) (hl : Leaves rk (slotOf cls sub) q) :
    Parked cls sub done (step7 rk s q.1 q.2).1 ∧ (step7 rk s q.1 q.2).2.pkt = none := by
  obtain ⟨f1, f2, f3⟩ := leave_step7 rk h.inv (slotOf cls sub) h.cur q hl
  exact ⟨⟨(inv_step7 rk h.inv q.1 q.2).1, f2, by rw [f1]; exact h.slot⟩, f3⟩

/-- a block of foreign pairs: the first one leaves the packet, none re-opens its buffer -/
def ForeignBlock (rk : Bool) (i : Nat) (blk : List Pair) : Prop :=
  ∃ q r, blk = q :: r ∧ Leaves rk i q ∧ ∀ q' ∈ r, ¬ Opens i q'

/-- one interruption: foreign block, continue pair, next chunk of payload pairs -/
theorem open_segment (rk : Bool) {s : State} {cls sub : Nat} {done : List Pair} (h : OpenAt cls sub done s)
    (hacc : accepted cls sub) (blk chunk : List Pair) (hb : ForeignBlock rk (slotOf cls sub) blk)
    (hc : ∀ q ∈ chunk, IsContent q) (hf : Fits (bytesOf done).length chunk) :
    OpenAt cls sub (done ++ chunk) (run7 rk s (blk ++ (2 * cls + 2, sub) :: chunk)).1 ∧
    Quiet (slotOf cls sub) (run7 rk s (blk ++ (2 * cls + 2, sub) :: chunk)).2 := by
  obtain ⟨q, r, rfl, hl, hr⟩ := hb
  obtain ⟨a1, a2⟩ := open_leave rk h q hl
  obtain ⟨b1, b2⟩ := parked_run rk r a1 hr
  obtain ⟨c1, c2⟩ := parked_cont rk b1 hacc
  obtain ⟨d1, d2⟩ := open_content_run rk chunk c1 hc hf
  simp only [List.cons_append, run7, run7_append]
  refine ⟨d1, ?_⟩
  apply quiet_cons (by intro p hp; rw [a2] at hp; cases hp)
  apply quiet_append b2
  exact quiet_cons (by intro p hp; rw [c2] at hp; cases hp) (quiet_of_none d2)

theorem open_segments (rk : Bool) {cls sub : Nat} (hacc : accepted cls sub) :
    ∀ (segs : List (List Pair × List Pair)) {s : State} {done : List Pair}, OpenAt cls sub done s →
    (∀ sg ∈ segs, ForeignBlock rk (slotOf cls sub) sg.1) →
    (∀ q ∈ segs.flatMap (·.2), IsContent q) → Fits (bytesOf done).length (segs.flatMap (·.2)) →
    OpenAt cls sub (done ++ segs.flatMap (·.2))
      (run7 rk s (segs.flatMap fun sg => sg.1 ++ (2 * cls + 2, sub) :: sg.2)).1 ∧
    Quiet (slotOf cls sub) (run7 rk s (segs.flatMap fun sg => sg.1 ++ (2 * cls + 2, sub) :: sg.2)).2
  | [], s, done, h, _, _, _ => by simpa [run7] using ⟨h, quiet_nil _⟩
  | sg :: segs, s, done, h, hb, hc, hf => by
    simp only [List.flatMap_cons] at hc hf ⊢
    rw [fits_append] at hf
    obtain ⟨a1, a2⟩ := open_segment rk h hacc sg.1 sg.2 (hb sg (by simp))
      (fun q hq => hc q (List.mem_append_left _ hq)) hf.1
    obtain ⟨b1, b2⟩ := open_segments rk hacc segs a1 (fun sg' h' => hb sg' (by simp [h']))
      (fun q hq => hc q (List.mem_append_right _ hq)) (by simpa [bytesOf_append] using hf.2)
    rw [run7_append]
    exact ⟨by simpa [List.append_assoc] using b1, quiet_append a2 b2⟩


/-- deliveries labelled with a (class, type) that uses buffer `i` -/
def forSlot (i : Nat) (os : List Out) : List Pkt := (deliveries os).filter fun d => slotOf d.cls d.sub == i

theorem forSlot_quiet {i : Nat} {os : List Out} (h : Quiet i os) : forSlot i os = [] := by
  simp only [forSlot, List.filter_eq_nil_iff]
  intro d hd; simpa using h d hd

theorem forSlot_append (i : Nat) (a b : List Out) : forSlot i (a ++ b) = forSlot i a ++ forSlot i b := by
  simp [forSlot, deliveries_append]

theorem forSlot_cons_none (i : Nat) {o : Out} (os : List Out) (h : o.pkt = none) :
    forSlot i (o :: os) = forSlot i os := by
  simp [forSlot, deliveries_cons, h]

/-- a packet interrupted any number of times by foreign blocks and re-opened by its continue pair -/
theorem deliver_interleaved7 (rk : Bool) {s : State} (h : Inv s) (p : Packet) (hv : p.Valid)
    (hacc : accepted p.cls p.sub) (ck : Nat) (chunk0 : List Pair) (segs : List (List Pair × List Pair))
    (hch : chunksOf chunk0 segs = pairsOf p.payload)
    (hb : ∀ sg ∈ segs, ForeignBlock rk (slotOf p.cls p.sub) sg.1) :
    forSlot (slotOf p.cls p.sub) (run7 rk s (interleaved7 p ck chunk0 segs)).2 =
      if (bodySum p + ck) % 128 = 0 then [p.toPkt] else [] := by
  obtain ⟨hbytes, hsum, hcont, hfit⟩ := pairsOf_spec p.payload hv.chars
  have hfit0 : Fits 0 (chunk0 ++ segs.flatMap (·.2)) := by
    have := hfit 0 rfl (by have := hv.len_le; omega)
    rw [← hch] at this; exact this
  rw [fits_append] at hfit0
  have hcont' : ∀ q ∈ chunk0 ++ segs.flatMap (·.2), IsContent q := by
    intro q hq; apply hcont; rw [← hch]; exact hq
  obtain ⟨a1, a2⟩ := open_start rk h hacc
  obtain ⟨b1, b2⟩ := open_content_run rk chunk0 a1 (fun q hq => hcont' q (List.mem_append_left _ hq))
    (by simpa [bytesOf] using hfit0.1)
  obtain ⟨c1, c2⟩ := open_segments rk hacc segs b1 hb (fun q hq => hcont' q (List.mem_append_right _ hq))
    (by simpa [bytesOf] using hfit0.2)
  obtain ⟨d1, _, _⟩ := open_term rk c1 ck
  have hdone : ([] ++ chunk0) ++ segs.flatMap (·.2) = pairsOf p.payload := by simpa [chunksOf] using hch
  rw [hdone, hbytes, hsum] at d1
  have hne : p.payload ≠ [] := by
    intro e; have := hv.len_pos; rw [e] at this; simp at this
  simp only [interleaved7, startPair, contPair, List.append_assoc, run7, run7_append, List.cons_append]
  rw [forSlot_cons_none _ _ a2, forSlot_append, forSlot_quiet (quiet_of_none b2), forSlot_append,
    forSlot_quiet c2]
  simp only [List.nil_append, forSlot, deliveries_cons, d1, hne, ne_eq, not_false_eq_true, and_true, bodySum]
  simp only [deliveries, List.filterMap_nil, List.append_nil]
  split <;> simp_all [Packet.toPkt]

/-! ## xds_demux.c: unreadable pairs -/

/-- with no current packet, pairs that are not headers change nothing and deliver nothing -/
theorem idle_run (rk : Bool) : ∀ (qs : List Pair) {s : State}, s.curr = none →
    (∀ q ∈ qs, ¬(1 ≤ q.1 ∧ q.1 ≤ 14)) → (run7 rk s qs).1 = s ∧ deliveries (run7 rk s qs).2 = []
  | [], s, _, _ => ⟨rfl, rfl⟩
  | q :: qs, s, hc, hq => by
    have hq1 := hq q (by simp)
    have e : step7 rk s q.1 q.2 = (s, {}) := by
      unfold step7
      split
      · rfl
      · split
        · exfalso; apply hq1; omega
        · split
          · simp [terminator, hc]
          · split
            · cases s; simp_all
            · simp [content, hc]
    obtain ⟨g1, g2⟩ := idle_run rk qs hc (fun q' hq' => hq q' (by simp [hq']))
    simp only [run7, e, g1]
    exact ⟨trivial, no_pkts_cons rfl g2⟩


theorem run_append (rk : Bool) : ∀ (a b : List (Nat × Nat)) (s : State),
    run rk s (a ++ b) = ((run rk (run rk s a).1 b).1, (run rk s a).2 ++ (run rk (run rk s a).1 b).2)
  | [], b, s => by simp [run]
  | q :: a, b, s => by simp [run, run_append rk a b]

theorem wire7_eq (p : Packet) (ck : Nat) :
    wire7 p ck = startPair p :: (pairsOf p.payload ++ [(0x0F, ck)]) := by simp [wire7]

theorem wire7_lt (p : Packet) (hv : p.Valid) (ck : Nat) (hck : ck < 128) :
    ∀ q ∈ wire7 p ck, q.1 < 128 ∧ q.2 < 128 := by
  obtain ⟨_, _, hcont, _⟩ := pairsOf_spec p.payload hv.chars
  intro q hq
  simp only [wire7_eq, List.mem_cons, List.mem_append, List.not_mem_nil, or_false] at hq
  rcases hq with rfl | hq | rfl
  · have := hv.cls_lt; have := hv.sub_lt; simp only [startPair]; omega
  · have := hcont q hq; simp only [IsContent] at this; omega
  · simp; omega

/-- the `n`-th pair of a transmitted packet made unreadable: nothing is delivered -/
theorem fault_wire (rk : Bool) {s : State} (h : Inv s) (p : Packet) (hv : p.Valid)
    (hacc : accepted p.cls p.sub) (ck : Nat) (hck : ck < 128) (n : Nat) (hn : n < (wire7 p ck).length)
    (bad : Nat × Nat) (hbad : unpar8 bad.1 = none ∨ unpar8 bad.2 = none) :
    deliveries (run rk s ((wire p ck).set n bad)).2 = [] := by
  obtain ⟨hbytes, hsum, hcont, hfit⟩ := pairsOf_spec p.payload hv.chars
  have hlt := wire7_lt p hv ck hck
  have hlen : n < (wire p ck).length := by simpa [wire] using hn
  rw [List.set_eq_take_append_cons_drop, if_pos hlen]
  simp only [wire, ← List.map_take, ← List.map_drop]
  rw [run_append]
  simp only [run]
  rw [run_map_parPair rk _ _ (fun q hq => hlt q (List.mem_of_mem_take hq)),
    run_map_parPair rk _ _ (fun q hq => hlt q (List.mem_of_mem_drop hq))]
  -- the unreadable pair
  have ebad : ∀ t : State, step rk t bad = (discard t t.curr, { r := false }) := by
    intro t
    rcases hbad with hb | hb
    · simp [step, hb]
    · simp only [step, hb]; split <;> simp_all
  rw [ebad]
  -- after it: no header follows
  have hpost : ∀ q ∈ (wire7 p ck).drop (n + 1), ¬(1 ≤ q.1 ∧ q.1 ≤ 14) := by
    intro q hq
    simp only [wire7_eq, List.drop_succ_cons] at hq
    have hq := List.mem_of_mem_drop hq
    rcases List.mem_append.mp hq with hq | hq
    · have := hcont q hq; simp only [IsContent] at this; omega
    · simp only [List.mem_singleton] at hq; subst hq; simp
  obtain ⟨_, g2⟩ := idle_run rk ((wire7 p ck).drop (n + 1))
    (s := discard (run7 rk s ((wire7 p ck).take n)).1 (run7 rk s ((wire7 p ck).take n)).1.curr) rfl hpost
  -- before it: a proper prefix of the packet
  have hpre : deliveries (run7 rk s ((wire7 p ck).take n)).2 = [] := by
    cases n with
    | zero => simp [run7, deliveries]
    | succ m =>
      have hm : m ≤ (pairsOf p.payload).length := by
        simp only [wire7_eq, List.length_cons, List.length_append, List.length_nil] at hn; omega
      simp only [wire7_eq, List.take_succ_cons, List.take_append_of_le_length hm, run7, startPair]
      obtain ⟨a1, a2⟩ := open_start rk h hacc
      have hsplit : pairsOf p.payload = (pairsOf p.payload).take m ++ (pairsOf p.payload).drop m :=
        (List.take_append_drop m _).symm
      have hf := hfit 0 rfl (by have := hv.len_le; omega)
      rw [hsplit, fits_append] at hf
      obtain ⟨_, b2⟩ := open_content_run rk ((pairsOf p.payload).take m) a1
        (fun q hq => hcont q (List.mem_of_mem_take hq)) (by simpa [bytesOf] using hf.1)
      exact no_pkts_cons a2 b2
  simp only [deliveries_append, deliveries_cons, hpre, g2, Option.toList, List.append_nil]

end Demux
end Zvbi.Xds
