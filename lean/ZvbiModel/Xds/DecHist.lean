import ZvbiModel.Xds.DecLemmas2
/-!
# `Dec` over packet histories: field groups, their decoding, the flushes, and the one-call law
# "own packet -> its decoding; flush -> unknown; anything else -> unchanged" (property C09, round 5)

Definitions used by `Props/C09Hist.lean` (the specification side: `Grp`, `view`, `decode`, `unknown`,
`Field`, `fview`, `fdecode`, `ferased`, `Undisturbed`) and the lemmas behind the theorems there.
`decode` is written from the packet layouts of EIA-608 / libzvbi.h (`vbi_program_info`); for the three
table-driven types it uses the same pure byte functions as the model (`ratingDecode`, `audioModeTab`,
`lang`, `capStep`), which the `q` correspondence ops compare with the C code for every byte value.
-/
namespace Zvbi.Xds
namespace Dec
open Zvbi.Gen.Xds

/-! ## the field groups of one `vbi_program_info` -/

/-- one group per packet type of the classes current / future -/
inductive Grp where
  | pid | len | title | ptype | rating | audio | capsvc | cgms | aspect
  | desc (line : Fin 8)
deriving DecidableEq, Repr

/-- the packet type carrying the group -/
def Grp.typ : Grp → Nat
  | .pid => 1 | .len => 2 | .title => 3 | .ptype => 4 | .rating => 5 | .audio => 6 | .capsvc => 7
  | .cgms => 8 | .aspect => 9 | .desc l => 0x10 + l.val

def ofNats (l : List Nat) : List Int := l.map Int.ofNat

/-- what an application reads of the group in a `vbi_program_info` (strings as C strings; the rating
    id / dlsv only when an authority is set, the type list only when `type_classf` is set - libzvbi.h) -/
def view : Grp → PI → List Int
  | .pid, p => [p.month, p.day, p.hour, p.min, if p.tapeDelayed then 1 else 0]
  | .len, p => [p.lengthHour, p.lengthMin, p.elapsedHour, p.elapsedMin, p.elapsedSec]
  | .title, p => ofNats (cstr p.title)
  | .ptype, p => if p.typeEia then 1 :: ofNats (cstr p.typeId) else [0]
  | .rating, p => if p.ratingAuth = 0 then [0] else [(p.ratingAuth : Int), (p.ratingId : Int), (p.ratingDlsv : Int)]
  | .audio, p => ofNats [p.audioMode.getD 0 9, p.audioMode.getD 1 9, p.audioLang.getD 0 0, p.audioLang.getD 1 0]
  | .capsvc, p => p.capServices :: ofNats p.capLang
  | .cgms, p => [p.cgms]
  | .aspect, p => [p.aspect.first, p.aspect.last, (p.aspect.ratio : Int)]
  | .desc l, p => ofNats (cstr (p.description.getD l.val []))

/-- the group after `vbi_reset_prog_info` -/
def unknown : Grp → List Int
  | .pid => [-1, -1, -1, -1, 0]
  | .len => [-1, -1, -1, -1, -1]
  | .title => []
  | .ptype => [0]
  | .rating => [0]
  | .audio => [9, 9, 0, 0]
  | .capsvc => [-1, 0, 0, 0, 0, 0, 0, 0, 0]
  | .cgms => [-1]
  | .aspect => [-1, -1, 0]
  | .desc _ => []

/-- a programme id packet with an impossible date or time (it is ignored) -/
def pidBad (d : List Nat) (nx : Nat) : Prop :=
  byteAt d nx 3 &&& 15 = 0 ∨ byteAt d nx 3 &&& 15 > 12 ∨ byteAt d nx 2 &&& 31 = 0 ∨ byteAt d nx 2 &&& 31 > 31 ∨
    byteAt d nx 1 &&& 31 > 23 ∨ byteAt d nx 0 &&& 63 > 59
instance (d : List Nat) (nx : Nat) : Decidable (pidBad d nx) := by unfold pidBad; infer_instance

/-- programme id: month, day, hour, minute + tape-delay flag; `none` = the packet is ignored -/
def decodePid (d : List Nat) (nx : Nat) : Option (List Int) :=
  let b := byteAt d nx
  if d.length ≠ 4 then none
  else if pidBad d nx then none
  else some [((b 3 &&& 15 : Nat) : Int) - 1, ((b 2 &&& 31 : Nat) : Int) - 1, ((b 1 &&& 31 : Nat) : Int),
             ((b 0 &&& 63 : Nat) : Int), if b 3 &&& 0x10 != 0 then 1 else 0]

/-- length (2 bytes), elapsed time (4), elapsed seconds (6) -/
def decodeLen (d : List Nat) (nx : Nat) : Option (List Int) :=
  let b := byteAt d nx
  let n := d.length
  let lhour : Int := ((b 1 &&& 63 : Nat) : Int)
  let lmin : Int := ((b 0 &&& 63 : Nat) : Int)
  let ehour : Int := if n ≥ 3 then ((b 3 &&& 63 : Nat) : Int) else -1
  let emin : Int := if n ≥ 3 then ((b 2 &&& 63 : Nat) : Int) else -1
  let esec : Int := if n ≥ 5 then ((b 4 &&& 63 : Nat) : Int) else 0
  if n < 2 ∨ n > 6 then none
  else if lmin > 59 ∨ emin > 59 ∨ esec > 59 then none
  else some [lhour, lmin, ehour, emin, esec]

/-- the decoding of a packet of the group's type with payload `d` (`nx` = the byte behind the payload,
    0 for the standard NUL-padded form); `none` = `xds_decoder` ignores the packet -/
def decode (g : Grp) (d : List Nat) (nx : Nat) : Option (List Int) :=
  let b := byteAt d nx
  let n := d.length
  match g with
  | .pid => decodePid d nx
  | .len => decodeLen d nx
  | .title => if n < 2 then none else some (ofNats (text d))
  | .ptype => some (1 :: ofNats (cstr d))
  | .rating =>
    if n ≠ 2 then none else
    match ratingDecode (b 0) (b 1) with
    | none => none
    | some (a, r, dl, _) => some [(a : Int), (r : Int), (dl : Int)]
  | .audio =>
    if n ≠ 2 then none else
    some (ofNats [audioModeTab 0 (b 0 &&& 7), audioModeTab 1 (b 1 &&& 7), lang ((b 0 >>> 3) &&& 7), lang ((b 1 >>> 3) &&& 7)])
  | .capsvc =>
    if n > 8 then none else
    let r := d.foldl (capStep false) (List.replicate 8 0, 0, false, [])
    some ((r.2.1 : Int) :: ofNats r.1)
  | .cgms => if n ≠ 1 then none else some [((b 0 &&& 63 : Nat) : Int)]
  | .aspect =>
    if n > 3 then none else
    some [((b 0 &&& 63 : Nat) : Int) + 22, 262 - ((b 1 &&& 63 : Nat) : Int), if n ≥ 3 ∧ b 2 &&& 1 != 0 then 2 else 1]
  | .desc _ => some (ofNats (text d))

/-! ## the documented flushes, as conditions on the state before the call -/

/-- month / day / hour / minute of the packet differ from the stored programme id -/
def pidNeq (v : Info) (cls : Nat) (d : List Nat) (nx : Nat) : Bool :=
  (v.pi cls).month != ((byteAt d nx 3 &&& 15 : Nat) : Int) - 1 || (v.pi cls).day != ((byteAt d nx 2 &&& 31 : Nat) : Int) - 1 ||
    (v.pi cls).hour != ((byteAt d nx 1 &&& 31 : Nat) : Int) || (v.pi cls).min != ((byteAt d nx 0 &&& 63 : Nat) : Int)

/-- a programme id packet that is valid and differs from the stored programme id: a new programme -/
def pidFlush (v : Info) (cls : Nat) (d : List Nat) (nx : Nat) : Bool :=
  decide (d.length = 4) && !decide (pidBad d nx) && pidNeq v cls d nx

/-- a programme name packet that repeats the stored name while the name is pending and no programme id
    is: "second occurrence without PIN" -/
def titleFlush (v : Info) (cls : Nat) (d : List Nat) : Bool :=
  decide (2 ≤ d.length) && !(strfuArr (v.pi cls).title d).neq && (v.cyc cls).contains 3 && !(v.cyc cls).contains 1

/-- does the call `xds_decoder (p)` in state `v` erase the programme information of class `cls`
    (`flush_prog_info` of that class, or `vbi_chsw_reset` after a changed network name)? -/
def flushes (v : Info) (p : Pkt) (nx : Nat) (cls : Nat) : Bool :=
  if p.data.length = 0 ∨ p.data.length > 32 then false
  else if p.cls = cls then (p.sub == 1 && pidFlush v cls p.data nx) || (p.sub == 3 && titleFlush v cls p.data)
  else if p.cls = 2 then (netFeed v p.sub p.data nx).2.chsw
  else false

/-! ## audio arrays keep their two elements -/

structure AWf (v : Info) : Prop where
  m0 : v.pi0.audioMode.length = 2
  l0 : v.pi0.audioLang.length = 2
  m1 : v.pi1.audioMode.length = 2
  l1 : v.pi1.audioLang.length = 2

theorem awf_init : AWf init := ⟨rfl, rfl, rfl, rfl⟩

theorem awf_pi {v : Info} (h : AWf v) (cls : Nat) : (v.pi cls).audioMode.length = 2 ∧ (v.pi cls).audioLang.length = 2 := by
  unfold Info.pi; split
  · exact ⟨h.m0, h.l0⟩
  · exact ⟨h.m1, h.l1⟩

/-! ## `view` of a reset programme -/

theorem cstr_set_zero (l : List Nat) (h : 0 < l.length) : cstr (l.set 0 0) = [] := by
  cases l with
  | nil => simp at h
  | cons a t => simp [cstr, List.takeWhile]

theorem view_reset (g : Grp) {p : PI} (h : PIWf p) : view g p.reset = unknown g := by
  cases g with
  | title => simp [view, unknown, PI.reset, ofNats, cstr_set_zero p.title (by rw [h.title]; decide)]
  | desc l =>
    have hl : l.val < p.description.length := by rw [h.descN]; exact l.isLt
    have hlen : (p.description[l.val]).length = descExt := h.desc _ (List.getElem_mem hl)
    simp [view, unknown, PI.reset, ofNats, List.getD_eq_getElem?_getD, List.getElem?_map,
      List.getElem?_eq_getElem hl, cstr_set_zero (p.description[l.val]) (by rw [hlen]; decide)]
  | pid => simp [view, unknown, PI.reset]
  | len => simp [view, unknown, PI.reset]
  | ptype => simp [view, unknown, PI.reset]
  | rating => simp [view, unknown, PI.reset]
  | audio => simp [view, unknown, PI.reset, ofNats]
  | capsvc => simp [view, unknown, PI.reset, ofNats, List.replicate]
  | cgms => simp [view, unknown, PI.reset]
  | aspect => simp [view, unknown, PI.reset]

theorem view_init (g : Grp) (cls : Nat) : view g (init.pi cls) = unknown g := by
  have e : init.pi cls = ({} : PI) := by unfold Info.pi init; split <;> rfl
  rw [e]
  have : ({} : PI) = ({} : PI).reset := by decide
  rw [this]; exact view_reset g piwf_init

/-! ## what a packet leaves alone -/

/-- `b` has the fields of `a` in every group other than the one of packet type `typ` -/
structure Keep (typ : Nat) (a b : PI) : Prop where
  pid : typ ≠ 1 → b.month = a.month ∧ b.day = a.day ∧ b.hour = a.hour ∧ b.min = a.min ∧ b.tapeDelayed = a.tapeDelayed
  len : typ ≠ 2 → b.lengthHour = a.lengthHour ∧ b.lengthMin = a.lengthMin ∧ b.elapsedHour = a.elapsedHour ∧
      b.elapsedMin = a.elapsedMin ∧ b.elapsedSec = a.elapsedSec
  title : typ ≠ 3 → b.title = a.title
  ptype : typ ≠ 4 → b.typeEia = a.typeEia ∧ b.typeId = a.typeId
  rating : typ ≠ 5 → b.ratingAuth = a.ratingAuth ∧ b.ratingId = a.ratingId ∧ b.ratingDlsv = a.ratingDlsv
  audio : typ ≠ 6 → b.audioMode = a.audioMode ∧ b.audioLang = a.audioLang
  capsvc : typ ≠ 7 → b.capServices = a.capServices ∧ b.capLang = a.capLang
  cgms : typ ≠ 8 → b.cgms = a.cgms
  aspect : typ ≠ 9 → b.aspect = a.aspect
  desc : ∀ l : Fin 8, typ ≠ 0x10 + l.val → b.description.getD l.val [] = a.description.getD l.val []

theorem feed_pid_keep (v : Info) (cls : Nat) (d : List Nat) (nx : Nat) :
    Keep 1 (if pidFlush v cls d nx then (v.pi cls).reset else v.pi cls) ((feed v cls 1 d nx).1.pi cls) := by
  unfold pidFlush
  by_cases h4 : d.length ≠ 4
  · have e : feed v cls 1 d nx = (v, {}) := by unfold feed; simp [h4]
    rw [e]; simp [h4]
    constructor <;> first | (intro h; exact absurd rfl h) | (intros; simp)
  · by_cases hb : pidBad d nx
    · have e : feed v cls 1 d nx = (v, {}) := by unfold feed; unfold pidBad at hb; simp only [h4, hb, if_true, if_false]
      rw [e]; simp [hb]
      constructor <;> first | (intro h; exact absurd rfl h) | (intros; simp)
    · by_cases hn : pidNeq v cls d nx = true
      · have h4' : d.length = 4 := by omega
        simp only [h4', hb, hn, decide_true, decide_false, Bool.not_false, Bool.and_self, if_true]
        unfold pidBad at hb; unfold pidNeq at hn
        unfold feed; simp only [h4, hb, hn, if_true, if_false]
        constructor <;> first | (intro h; exact absurd rfl h) | (intros; simp [flush, PI.reset])
      · have h4' : d.length = 4 := by omega
        simp only [h4', hb, hn, decide_true, decide_false, Bool.not_false, Bool.and_self, Bool.and_false, Bool.false_eq_true, if_false]
        unfold pidBad at hb; unfold pidNeq at hn
        unfold feed; simp only [h4, hb, hn, if_true, if_false]
        constructor <;> first | (intro h; exact absurd rfl h) | (intros; simp)

theorem feed_title_keep (v : Info) (cls : Nat) (d : List Nat) (nx : Nat) :
    Keep 3 (if titleFlush v cls d then (v.pi cls).reset else v.pi cls) ((feed v cls 3 d nx).1.pi cls) := by
  unfold titleFlush
  by_cases h2 : d.length < 2
  · have e : feed v cls 3 d nx = (v, {}) := by unfold feed; simp [h2]
    rw [e]; simp [show ¬ (2 ≤ d.length) by omega]
    constructor <;> first | (intro h; exact absurd rfl h) | (intros; simp)
  · have h2' : 2 ≤ d.length := by omega
    simp only [h2', decide_true, Bool.true_and]
    by_cases hq : (strfuArr (v.pi cls).title d).neq = true
    · unfold feed; simp only [h2, hq, if_true, if_false]
      simp
      constructor <;> first | (intro h; exact absurd rfl h) | (intros; simp)
    · by_cases c3 : (v.cyc cls).contains 3 = true
      · by_cases c1 : (v.cyc cls).contains 1 = true
        · unfold feed; simp only [h2, hq, if_true, if_false, cyc_setPi, c3, c1]
          simp
          constructor <;> first | (intro h; exact absurd rfl h) | (intros; simp)
        · unfold feed; simp only [h2, hq, if_true, if_false, cyc_setPi, c3, c1]
          simp
          constructor <;> first | (intro h; exact absurd rfl h) | (intros; simp [flush, PI.reset])
      · unfold feed; simp only [h2, hq, if_true, if_false, cyc_setPi, c3]
        simp
        constructor <;> first | (intro h; exact absurd rfl h) | (intros; simp)

theorem feed_desc_other (v : Info) (cls typ : Nat) (d : List Nat) (nx : Nat) (l : Fin 8) (h : typ ≠ 0x10 + l.val)
    (ht : 0x10 ≤ typ ∧ typ ≤ 0x17) :
    ((feed v cls typ d nx).1.pi cls).description.getD l.val [] = (v.pi cls).description.getD l.val [] := by
  have hc : typ = 16 ∨ typ = 17 ∨ typ = 18 ∨ typ = 19 ∨ typ = 20 ∨ typ = 21 ∨ typ = 22 ∨ typ = 23 := by omega
  rcases hc with rfl | rfl | rfl | rfl | rfl | rfl | rfl | rfl
  all_goals
    unfold feed
    simp only [ht, and_self, if_true, pi_fin, pi_setPi, List.getD_eq_getElem?_getD]
    rw [List.getElem?_set_ne (by simp; omega)]

/-! ## own fields -/

theorem own_pid (v : Info) (cls : Nat) (d : List Nat) (nx : Nat) :
    view .pid ((feed v cls 1 d nx).1.pi cls) =
      match decodePid d nx with | some val => val | none => view .pid (v.pi cls) := by
  unfold decodePid
  by_cases h4 : d.length ≠ 4
  · have e : feed v cls 1 d nx = (v, {}) := by unfold feed; simp [h4]
    rw [e]; simp [h4]
  · by_cases hb : pidBad d nx
    · have e : feed v cls 1 d nx = (v, {}) := by unfold feed; unfold pidBad at hb; simp only [h4, hb, if_true, if_false]
      rw [e]; simp [h4, hb]
    · simp only [h4, hb, if_false]
      by_cases hn : pidNeq v cls d nx = true
      · unfold pidBad at hb; unfold pidNeq at hn
        unfold feed; simp only [h4, hb, hn, if_true, if_false]
        simp [view]
      · unfold pidBad at hb; unfold pidNeq at hn
        unfold feed; simp only [h4, hb, hn, if_false]
        simp [view] at hn ⊢
        simp [hn]

theorem own_len (v : Info) (cls : Nat) (d : List Nat) (nx : Nat) :
    view .len ((feed v cls 2 d nx).1.pi cls) =
      match decodeLen d nx with | some val => val | none => view .len (v.pi cls) := by
  unfold decodeLen
  by_cases hn : d.length < 2 ∨ d.length > 6
  · have e : feed v cls 2 d nx = (v, {}) := by unfold feed; simp only [hn, if_true]
    rw [e]; simp only [hn, if_true]
  · simp only [hn, if_false]
    unfold feed; simp only [hn, if_false]
    repeat' split
    all_goals simp_all [view]

theorem own_cgms (v : Info) (cls : Nat) (d : List Nat) (nx : Nat) :
    view .cgms ((feed v cls 8 d nx).1.pi cls) =
      match decode .cgms d nx with | some val => val | none => view .cgms (v.pi cls) := by
  unfold decode feed
  simp only []
  split
  · simp
  · simp [view]

theorem own_rating (v : Info) (cls : Nat) (d : List Nat) (nx : Nat) :
    view .rating ((feed v cls 5 d nx).1.pi cls) =
      match decode .rating d nx with | some val => val | none => view .rating (v.pi cls) := by
  unfold decode
  by_cases hn : d.length ≠ 2
  · have e : feed v cls 5 d nx = (v, {}) := by unfold feed; simp only []; rw [if_pos hn]
    rw [e]; simp only []; rw [if_pos hn]
  · simp only []; rw [if_neg hn]
    unfold feed; simp only []; rw [if_neg hn]
    cases hr : ratingDecode (byteAt d nx 0) (byteAt d nx 1) with
    | none => simp
    | some q =>
      obtain ⟨a, r, dl, z⟩ := q
      have ha : a ≠ 0 := by
        unfold ratingDecode at hr
        simp only [] at hr
        repeat' split at hr
        all_goals simp_all
        all_goals omega
      simp only [pi_fin, pi_setPi]
      cases z <;> simp [view, ha] <;> (repeat' split) <;> simp_all

theorem len2 (l : List Nat) (h : l.length = 2) : ∃ a b, l = [a, b] := by
  match l, h with
  | [a, b], _ => exact ⟨a, b, rfl⟩

theorem own_audio {v : Info} (ha : AWf v) (cls : Nat) (d : List Nat) (nx : Nat) :
    view .audio ((feed v cls 6 d nx).1.pi cls) =
      match decode .audio d nx with | some val => val | none => view .audio (v.pi cls) := by
  obtain ⟨hm, hl⟩ := awf_pi ha cls
  obtain ⟨m0, m1, em⟩ := len2 _ hm
  obtain ⟨l0, l1, el⟩ := len2 _ hl
  unfold decode
  by_cases hn : d.length ≠ 2
  · have e : feed v cls 6 d nx = (v, {}) := by unfold feed; simp only []; rw [if_pos hn]
    rw [e]; simp only []; rw [if_pos hn]
  · simp only []; rw [if_neg hn]
    unfold feed; simp only []; rw [if_neg hn]
    simp only [pi_fin, pi_setPi, view, audioStep, em, el]
    simp [ofNats]
    (repeat' split) <;> simp_all

@[simp] theorem pi_withAspSrc (v : Info) (a c : Nat) : Info.pi { v with aspSrc := a } c = v.pi c := rfl

theorem own_aspect (v : Info) (cls : Nat) (d : List Nat) (nx : Nat) (hf : aspectAlwaysCurrent = false) :
    view .aspect ((feed v cls 9 d nx).1.pi cls) =
      match decode .aspect d nx with | some val => val | none => view .aspect (v.pi cls) := by
  unfold decode
  by_cases hn : d.length > 3
  · have e : feed v cls 9 d nx = (v, {}) := by unfold feed; simp only []; rw [if_pos hn]
    rw [e]; simp only []; rw [if_pos hn]
  · simp only []; rw [if_neg hn]
    unfold feed; simp only [hf]; rw [if_neg hn]
    simp only [Bool.false_eq_true, if_false]
    repeat' split
    all_goals first
      | (simp [view]; done)
      | (rename_i h; simp at h; simp only [pi_fin, view, ← h]; done)
      | (rw [pi_fin]; show view Grp.aspect ((Info.setPi v cls _).pi cls) = _; simp [view]; done)
      | skip
    all_goals
      rename_i h
      simp only [bne_iff_ne, ne_eq, Decidable.not_not] at h
      rw [pi_fin]; simp only [view, ← h]
      simp

theorem cstr_append_zero' (t rest : List Nat) : cstr (t ++ 0 :: rest) = cstr t := by
  induction t with
  | nil => simp [cstr]
  | cons a t ih =>
    simp only [cstr, List.cons_append, List.takeWhile_cons] at ih ⊢
    split
    · rw [ih]
    · rfl

theorem own_ptype {v : Info} (hv : Wf v) (cls : Nat) (d : List Nat) (nx : Nat) (h32 : d.length ≤ 32) :
    view .ptype ((feed v cls 4 d nx).1.pi cls) =
      match decode .ptype d nx with | some val => val | none => view .ptype (v.pi cls) := by
  have hp := (wf_pi hv cls).typeId
  obtain ⟨_, _, _, a4⟩ := foldl_putc (d ++ [0]) { arr := (v.pi cls).typeId, neq := !(v.pi cls).typeEia }
    (by simp [hp, typeExt]; omega)
  unfold decode feed
  simp only [pi_fin, pi_setPi, view, if_true, a4]
  simp [cstr_append_zero']

theorem capFold_indep (c c' : Bool) : ∀ (d : List Nat) (st st' : List Nat × Nat × Bool × List Nat),
    st.1 = st'.1 → st.2.1 = st'.2.1 →
    (d.foldl (capStep c) st).1 = (d.foldl (capStep c') st').1 ∧ (d.foldl (capStep c) st).2.1 = (d.foldl (capStep c') st').2.1
  | [], _, _, h1, h2 => ⟨h1, h2⟩
  | b :: d, st, st', h1, h2 => by
    simp only [List.foldl_cons]
    apply capFold_indep c c' d
    · simp [capStep, h1]
    · simp [capStep, h2]

theorem own_capsvc (v : Info) (cls : Nat) (d : List Nat) (nx : Nat) :
    view .capsvc ((feed v cls 7 d nx).1.pi cls) =
      match decode .capsvc d nx with | some val => val | none => view .capsvc (v.pi cls) := by
  unfold decode
  by_cases hn : d.length > 8
  · have e : feed v cls 7 d nx = (v, {}) := by unfold feed; simp only []; rw [if_pos hn]
    rw [e]; simp only []; rw [if_pos hn]
  · simp only []; rw [if_neg hn]
    unfold feed; simp only []; rw [if_neg hn]
    obtain ⟨e1, e2⟩ := capFold_indep (cls == 0) false d (List.replicate 8 0, 0, false, v.chLang) (List.replicate 8 0, 0, false, []) rfl rfl
    rw [pi_fin]
    show view Grp.capsvc ((Info.setPi _ cls _).pi cls) = _
    rw [pi_setPi]
    simp only [view, e1, e2]

theorem own_title {v : Info} (hv : Wf v) (cls : Nat) (d : List Nat) (nx : Nat) (h32 : d.length ≤ 32) :
    view .title ((feed v cls 3 d nx).1.pi cls) =
      match decode .title d nx with | some val => val | none => view .title (v.pi cls) := by
  unfold decode
  by_cases hn : d.length < 2
  · have e : feed v cls 3 d nx = (v, {}) := by unfold feed; simp only []; rw [if_pos hn]
    rw [e]; simp only []; rw [if_pos hn]
  · simp only []; rw [if_neg hn]
    simp only [view, feed_title hv cls d nx (by omega) h32]

theorem own_desc {v : Info} (hv : Wf v) (cls : Nat) (l : Fin 8) (d : List Nat) (nx : Nat) (h32 : d.length ≤ 32) :
    view (.desc l) ((feed v cls (0x10 + l.val) d nx).1.pi cls) =
      match decode (.desc l) d nx with | some val => val | none => view (.desc l) (v.pi cls) := by
  have h7 : ∀ k : Fin 8, (0x10 + k.val) &&& 7 = k.val := by decide
  have := feed_description hv cls (0x10 + l.val) d nx (by omega) h32
  rw [h7 l] at this
  simp only [decode, view, this]

theorem keep_refl (typ : Nat) (a : PI) : Keep typ a a := by
  constructor <;> intros <;> simp

/-- every packet type other than programme id and programme name leaves all other groups alone -/
theorem feed_keep_other (v : Info) (cls typ : Nat) (d : List Nat) (nx : Nat) (h1 : typ ≠ 1) (h3 : typ ≠ 3) :
    Keep typ (v.pi cls) ((feed v cls typ d nx).1.pi cls) := by
  obtain ⟨a1, a2, a3, a4, a5, a6, a7, a8, a9, a10, a11, a12, a13, a14⟩ := feed_same_class v cls typ d nx h1 h3
  refine ⟨fun _ => ⟨a1, a2, a3, a4, a5⟩, a7, fun _ => a6, a8, a9, a10, a11, a12, a13, ?_⟩
  intro l hl
  by_cases ht : 0x10 ≤ typ ∧ typ ≤ 0x17
  · exact feed_desc_other v cls typ d nx l hl ht
  · rw [a14 ht]

/-- one call on a packet of class `cls`: the programme information of that class keeps every group other
    than the packet's own, unless the call is one of the two flushes, which reset them -/
theorem feed_keep (v : Info) (cls typ : Nat) (d : List Nat) (nx : Nat) :
    Keep typ (if (typ == 1 && pidFlush v cls d nx) || (typ == 3 && titleFlush v cls d) then (v.pi cls).reset else v.pi cls)
      ((feed v cls typ d nx).1.pi cls) := by
  by_cases h1 : typ = 1
  · subst h1; simpa using feed_pid_keep v cls d nx
  · by_cases h3 : typ = 3
    · subst h3; simpa using feed_title_keep v cls d nx
    · simpa [h1, h3] using feed_keep_other v cls typ d nx h1 h3

theorem view_of_keep {typ : Nat} {a b : PI} (h : Keep typ a b) (g : Grp) (hg : g.typ ≠ typ) : view g b = view g a := by
  cases g with
  | pid => obtain ⟨e1, e2, e3, e4, e5⟩ := h.pid (Ne.symm hg); simp [view, *]
  | len => obtain ⟨e1, e2, e3, e4, e5⟩ := h.len (Ne.symm hg); simp [view, *]
  | title => simp [view, h.title (Ne.symm hg)]
  | ptype => obtain ⟨e1, e2⟩ := h.ptype (Ne.symm hg); simp [view, *]
  | rating => obtain ⟨e1, e2, e3⟩ := h.rating (Ne.symm hg); simp [view, *]
  | audio => obtain ⟨e1, e2⟩ := h.audio (Ne.symm hg); simp [view, *]
  | capsvc => obtain ⟨e1, e2⟩ := h.capsvc (Ne.symm hg); simp [view, *]
  | cgms => simp [view, h.cgms (Ne.symm hg)]
  | aspect => simp [view, h.aspect (Ne.symm hg)]
  | desc l => simp only [view, h.desc l (Ne.symm hg)]

/-- an aspect ratio packet and the programme information of the *other* class -/
theorem feed9_other (v : Info) (cls : Nat) (d : List Nat) (nx : Nat) (hc : cls ≤ 1) :
    Keep 9 (v.pi (1 - cls)) ((feed v cls 9 d nx).1.pi (1 - cls)) ∧
    (aspectAlwaysCurrent = false → (feed v cls 9 d nx).1.pi (1 - cls) = v.pi (1 - cls)) := by
  have hcls : cls = 0 ∨ cls = 1 := by omega
  rcases hcls with rfl | rfl
  all_goals
    unfold feed
    simp only []
    refine ⟨?_, ?_⟩
    · repeat' split
      all_goals (constructor <;> first | (intro h; exact absurd rfl h) | (intros; simp [fin, epilogue, Info.pi, Info.setPi, Info.setCyc, Info.cyc]; try ((repeat' split) <;> simp)))
    · intro hf
      simp only [hf, Bool.false_eq_true, if_false]
      repeat' split
      all_goals (simp [fin, epilogue, Info.pi, Info.setPi, Info.setCyc, Info.cyc]; try ((repeat' split) <;> simp))

/-! ## one call, one group -/

/-- the decoding of packet `p` for group `g` of class `cls`: `none` unless it is a packet of that class
    and type with 1..32 bytes that `xds_decoder` accepts -/
def progDecode (cls : Nat) (g : Grp) (p : Pkt) (nx : Nat) : Option (List Int) :=
  if p.data.length = 0 ∨ p.data.length > 32 then none
  else if p.cls = cls ∧ p.sub = g.typ then decode g p.data nx else none

theorem decodePid_none_noflush (v : Info) (cls : Nat) (d : List Nat) (nx : Nat) (h : decodePid d nx = none) :
    pidFlush v cls d nx = false := by
  unfold decodePid at h
  unfold pidFlush
  by_cases h4 : d.length ≠ 4
  · simp [h4]
  · by_cases hb : pidBad d nx
    · simp [hb]
    · simp only [] at h; rw [if_neg h4, if_neg hb] at h; cases h

/-- own packet: the group then holds the packet's decoding (an ignored packet changes nothing) -/
theorem feed_own {v : Info} (hv : Wf v) (ha : AWf v) (cls : Nat) (g : Grp) (d : List Nat) (nx : Nat) (h32 : d.length ≤ 32)
    (hflag : g = .aspect → aspectAlwaysCurrent = false) :
    view g ((feed v cls g.typ d nx).1.pi cls) =
      match decode g d nx with | some val => val | none => view g (v.pi cls) := by
  cases g with
  | pid => exact own_pid v cls d nx
  | len => exact own_len v cls d nx
  | title => exact own_title hv cls d nx h32
  | ptype => exact own_ptype hv cls d nx h32
  | rating => exact own_rating v cls d nx
  | audio => exact own_audio ha cls d nx
  | capsvc => exact own_capsvc v cls d nx
  | cgms => exact own_cgms v cls d nx
  | aspect => exact own_aspect v cls d nx (hflag rfl)
  | desc l => exact own_desc hv cls l d nx h32

theorem chsw_resets (v : Info) (typ : Nat) (d : List Nat) (nx : Nat) :
    (netFeed v typ d nx).2.chsw = true →
    (netFeed v typ d nx).1.pi0 = v.pi0.reset ∧ (netFeed v typ d nx).1.pi1 = v.pi1.reset := by
  unfold netFeed
  simp only []
  repeat' split
  all_goals simp_all [chswReset]

theorem pi_eq (v : Info) (c : Nat) (hc : c ≤ 1) : v.pi c = if c = 0 then v.pi0 else v.pi1 := rfl

/-- one call of `xds_decoder` and one group of one class: own accepted packet -> its decoding;
    a flush of that class -> unknown; anything else -> unchanged -/
theorem step_view {v : Info} (hv : Wf v) (ha : AWf v) (cls : Nat) (hc : cls ≤ 1) (g : Grp)
    (hflag : g = .aspect → aspectAlwaysCurrent = false) (p : Pkt) (nx : Nat) :
    view g ((step v p nx).1.pi cls) =
      match progDecode cls g p nx with
      | some val => val
      | none => if flushes v p nx cls then unknown g else view g (v.pi cls) := by
  unfold progDecode flushes
  by_cases hl : p.data.length = 0 ∨ p.data.length > 32
  · rw [step_assert v p nx hl, if_pos hl, if_pos hl]; simp
  · have h32 : p.data.length ≤ 32 := by omega
    simp only [hl, if_false]
    unfold step
    simp only [hl, if_false]
    by_cases hp : p.cls ≤ 1
    · simp only [hp, if_true]
      by_cases hcc : p.cls = cls
      · subst hcc
        simp only [true_and, if_true]
        by_cases ht : p.sub = g.typ
        · simp only [ht, if_true]
          rw [feed_own hv ha p.cls g p.data nx h32 hflag]
          cases hd : decode g p.data nx with
          | some val => rfl
          | none =>
            simp only []
            have : ((g.typ == 1 && pidFlush v p.cls p.data nx) || (g.typ == 3 && titleFlush v p.cls p.data)) = false := by
              cases g <;> simp [Grp.typ] at hd ⊢
              · exact decodePid_none_noflush v p.cls p.data nx (by simpa [decode] using hd)
              · simp [decode] at hd; simp [titleFlush]; omega
              · omega
            simp [this]
        · simp only [ht, if_false]
          have hk := feed_keep v p.cls p.sub p.data nx
          rw [view_of_keep hk g (Ne.symm ht)]
          split
          · rw [view_reset g (wf_pi hv p.cls)]
          · rfl
      · simp only [hcc, false_and, if_false]
        have h2 : ¬ p.cls = 2 := by omega
        simp only [h2, if_false, Bool.false_eq_true]
        have e : cls = 1 - p.cls := by omega
        subst e
        by_cases h9 : p.sub = 9
        · rw [h9]
          obtain ⟨k, kf⟩ := feed9_other v p.cls p.data nx hp
          by_cases hg : g = .aspect
          · rw [kf (hflag hg)]
          · exact view_of_keep k g (by cases g <;> simp_all [Grp.typ] <;> omega)
        · rw [(feed_other_class v p.cls p.sub p.data nx hp h9).1]
    · simp only [hp, if_false]
      have hcc : ¬ p.cls = cls := by omega
      simp only [hcc, false_and, if_false]
      by_cases h2 : p.cls = 2
      · simp only [h2, if_true]
        cases hw : (netFeed v p.sub p.data nx).2.chsw with
        | true =>
          obtain ⟨e0, e1⟩ := chsw_resets v p.sub p.data nx hw
          simp only [if_true]
          rw [← view_reset g (wf_pi hv cls)]
          unfold Info.pi; split <;> simp [e0, e1]
        | false =>
          obtain ⟨e0, e1, _⟩ := (netFeed_frame v p.sub p.data nx).2.1 hw
          simp only [Bool.false_eq_true, if_false]
          unfold Info.pi; split <;> simp [e0, e1]
      · simp [h2]

/-! ## the audio arrays keep their extent over every call -/

theorem audioStep_len (pi : PI) (neq : Bool) (i b : Nat) :
    (audioStep pi neq i b).1.audioMode.length = pi.audioMode.length ∧
    (audioStep pi neq i b).1.audioLang.length = pi.audioLang.length := by
  unfold audioStep; simp only []
  constructor <;> split <;> simp

theorem feed_audio_len {v : Info} (ha : AWf v) (cls typ c : Nat) (hc : cls ≤ 1) (hcc : c ≤ 1) (d : List Nat) (nx : Nat) :
    ((feed v cls typ d nx).1.pi c).audioMode.length = 2 ∧ ((feed v cls typ d nx).1.pi c).audioLang.length = 2 := by
  by_cases e : c = cls
  · subst e
    by_cases h6 : typ = 6
    · subst h6
      obtain ⟨hm, hl⟩ := awf_pi ha c
      unfold feed; simp only []
      split
      · exact ⟨hm, hl⟩
      · simp only [pi_fin, pi_setPi]
        obtain ⟨a1, a2⟩ := audioStep_len (v.pi c) false 0 (byteAt d nx 0)
        obtain ⟨b1, b2⟩ := audioStep_len (audioStep (v.pi c) false 0 (byteAt d nx 0)).1
          (audioStep (v.pi c) false 0 (byteAt d nx 0)).2 1 (byteAt d nx 1)
        exact ⟨by rw [b1, a1, hm], by rw [b2, a2, hl]⟩
    · obtain ⟨e1, e2⟩ := (feed_keep v c typ d nx).audio h6
      rw [e1, e2]
      split
      · exact ⟨rfl, rfl⟩
      · exact awf_pi ha c
  · have e' : c = 1 - cls := by omega
    subst e'
    by_cases h9 : typ = 9
    · subst h9
      obtain ⟨e1, e2⟩ := (feed9_other v cls d nx hc).1.audio (by decide)
      rw [e1, e2]; exact awf_pi ha _
    · rw [(feed_other_class v cls typ d nx hc h9).1]; exact awf_pi ha _

theorem step_awf {v : Info} (ha : AWf v) (p : Pkt) (nx : Nat) : AWf (step v p nx).1 := by
  have key : ∀ c, c ≤ 1 → ((step v p nx).1.pi c).audioMode.length = 2 ∧ ((step v p nx).1.pi c).audioLang.length = 2 := by
    intro c hc
    unfold step
    split
    · exact awf_pi ha c
    · split
      · rename_i hp; exact feed_audio_len ha p.cls p.sub c hp hc p.data nx
      · split
        · cases hw : (netFeed v p.sub p.data nx).2.chsw with
          | true =>
            obtain ⟨e0, e1⟩ := chsw_resets v p.sub p.data nx hw
            unfold Info.pi; split <;> simp [e0, e1, PI.reset]
          | false =>
            obtain ⟨e0, e1, _⟩ := (netFeed_frame v p.sub p.data nx).2.1 hw
            have := awf_pi ha c
            unfold Info.pi at this ⊢; split <;> simp_all
        · exact awf_pi ha c
  exact ⟨(key 0 (by omega)).1, (key 0 (by omega)).2, (key 1 (by omega)).1, (key 1 (by omega)).2⟩

theorem step_wf' {v : Info} (h : Wf v) (p : Pkt) (nx : Nat) : Wf (step v p nx).1 := by
  by_cases hl : p.data.length = 0 ∨ p.data.length > 32
  · rw [step_assert v p nx hl]; exact h
  · exact (step_wf h p nx (by omega) (by omega)).1

end Dec
end Zvbi.Xds
