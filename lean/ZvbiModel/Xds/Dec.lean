import ZvbiModel.Xds.Model
import ZvbiModel.Generated.XdsDecFlags
/-!
# `Dec`: complete model of the service decoder `xds_decoder` (src/caption.c 146-589), property C09,
# clause "programme / network information equals the decoded content of the delivered packets"

`Dec.step : Info → Pkt → Nat → Info × Out` is one call `xds_decoder (vbi, class, type, buffer, length)`:
`Info` is everything the function reads or writes (`vbi->prog_info[2]`, `cc.info_cycle[2]`,
`vbi->network.ev.network`, `vbi->aspect_source`, `cc.channel[0..7].language`), `Out` the events it
sends, whether `vbi_chsw_reset` ran, and an error site if an array index left its array.

Compared with `Svc` (Service.lean, round 2) this model
* covers every packet type the function handles: classes current / future types 1 programme id,
  2 length / elapsed, 3 name, 4 type, 5 rating, 6 audio services, 7 caption services, 8 CGMS-A,
  9 aspect ratio (with the ASPECT event and `aspect_source`), 0x10..0x17 description; class channel
  types 1 name, 2 call letters, 3 tape delay; `flush_prog_info` with its ASPECT event;
  `vbi_chsw_reset` as far as it touches `Info` (both programme infos reset, ASPECT event when
  `aspect_source > 0`);
* keeps the character arrays (`title[64]`, `description[8][33]`, `type_id[33]`, `name[64]`,
  `call[40]`) as arrays of their C extent, stale tail included, written element by element through
  `putc`, which reports an index outside the array instead of writing (the extents are cross-checked
  against `sizeof` by the harness op `extents2`);
* takes the byte *behind* the payload as third argument `nx` (`buffer[length]`): `case 2` reads
  `buffer[3]` of a 3-byte packet and `case 9` reads `buffer[1]` of a 1-byte packet.  For the standard
  NUL-padded wire form `nx = 0`.

Conventions as in `Svc`: `info_cycle[class]` is the list of set bit positions; pointers into
`language[8]` are the index `l` (0 = NULL: `(1 << l) & 0xC1` maps 0, 6, 7 to NULL); `double ratio` is
0 (0.0, unknown), 1 (1.0), 2 (16/9); enums are their integer values; `-1` = unknown.
A handler for PROG_INFO / ASPECT is assumed registered (as in the harness), so the
`event_mask` test at the top of the current/future branch passes.
-/
namespace Zvbi.Xds
namespace Dec
open Zvbi.Gen.Xds

/-! ## extents (harness op `extents2`) -/
def titleExt : Nat := 64
def descExt : Nat := 33
def typeExt : Nat := 33
def nameExt : Nat := 64
def callExt : Nat := 40

/-! ## five facts about the control flow of `xds_decoder` / `flush_prog_info`

Read from the current text of src/caption.c by `translate/gen_xdsdec.py` on every run
(`Generated/XdsDecFlags.lean`); the model is written for both values of each, so applying or reverting a
repair needs no hand edit here.  A wrong flag shows up in the per-field correspondence run. -/

/-- `case 7` sets all `pi->caption_language[]` to NULL *before* it compares them with the new values
    (so every packet naming a language counts as changed and is never announced by its repeat);
    `false` (since 4badb39): the new values are compared with the stored ones -/
def capLangClearedFirst : Bool := Gen.XdsDec.capLangClearedFirst
/-- `flush_prog_info` copies `pi->aspect` into the event *before* `vbi_reset_prog_info`, so the ASPECT
    event announces the value that was just erased; `false`: it announces the value now stored -/
def flushSendsOldAspect : Bool := Gen.XdsDec.flushSendsOldAspect
/-- `flush_prog_info` sends that ASPECT event whichever programme is flushed - also for the *future*
    programme, which is not on screen (it has an aspect ratio of its own since 201beae);
    `false`: only for the current programme (`!pi->future`; fixes/C09-flush-aspect.diff) -/
def flushAspectAnyClass : Bool := Gen.XdsDec.flushAspectAnyClass
/-- `case 9` compares with and stores into `vbi->prog_info[0].aspect` whatever the class is, so an
    aspect ratio packet of the *future* class changes the current programme (and sends ASPECT);
    `false` (since 201beae): it uses `pi->aspect`, ASPECT and `aspect_source` only for the current class -/
def aspectAlwaysCurrent : Bool := Gen.XdsDec.aspectAlwaysCurrent
/-- `case 1` counts a changed tape-delay flag as a change of the programme id packet (sets bit 1 of
    `info_cycle`, announced by the repeat; no flush - it is not a new programme);
    `false` (the tree before fixes/C09-pid-tape-delay-never-announced.diff): the flag is stored at once
    but never counted, so a packet that changes only the flag is never announced -/
def pidTapeDelayCounted : Bool := Gen.XdsDec.pidTapeDelayCounted

/-! ## character arrays -/

/-- the C string in an array: bytes before the first NUL -/
def cstr (d : List Nat) : List Nat := d.takeWhile (· != 0)

/-- what `xds_strfu` stores for the source bytes `s`: leading bytes `<= 0x20` skipped, the rest
    raised to at least 0x20 -/
def text (s : List Nat) : List Nat := (s.dropWhile (· ≤ 0x20)).map (fun c => max 0x20 c)

/-- cursor of a write loop `neq |= *d ^ c; *d++ = c;` over an array -/
structure Wr where
  arr : List Nat
  idx : Nat := 0
  neq : Bool := false
  oob : Bool := false
deriving Repr, DecidableEq

/-- `neq |= d[idx] ^ c; d[idx] = c; idx++` with the index checked against the extent -/
def putc (w : Wr) (c : Nat) : Wr :=
  if w.idx < w.arr.length then
    { w with arr := w.arr.set w.idx c, idx := w.idx + 1, neq := w.neq || (w.arr.getD w.idx 0 != c) }
  else { w with idx := w.idx + 1, oob := true }

/-- `xds_strfu (d, s, len)`: the characters, then `neq |= *d; *d = 0` (a `putc` of 0) -/
def strfuArr (d s : List Nat) : Wr := (text s ++ [0]).foldl putc { arr := d }

/-! ## state -/

structure Aspect where
  first : Int := -1
  last : Int := -1
  ratio : Nat := 0
deriving Repr, DecidableEq

/-- `vbi_program_info` without `future` -/
structure PI where
  month : Int := -1
  day : Int := -1
  hour : Int := -1
  min : Int := -1
  tapeDelayed : Bool := false
  lengthHour : Int := -1
  lengthMin : Int := -1
  elapsedHour : Int := -1
  elapsedMin : Int := -1
  elapsedSec : Int := -1
  title : List Nat := List.replicate titleExt 0
  typeEia : Bool := false
  typeId : List Nat := List.replicate typeExt 0
  ratingAuth : Nat := 0
  ratingId : Nat := 0
  ratingDlsv : Nat := 0
  audioMode : List Nat := [9, 9]
  audioLang : List Nat := [0, 0]
  capServices : Int := -1
  capLang : List Nat := List.replicate 8 0
  cgms : Int := -1
  aspect : Aspect := {}
  description : List (List Nat) := List.replicate 8 (List.replicate descExt 0)
deriving Repr, DecidableEq

/-- `vbi_reset_prog_info`: `rating_id`, `rating_dlsv`, `type_id[]` are not touched; of the strings
    only the first byte is cleared -/
def PI.reset (p : PI) : PI :=
  { ratingId := p.ratingId, ratingDlsv := p.ratingDlsv, typeId := p.typeId,
    title := p.title.set 0 0, description := p.description.map (fun l => l.set 0 0) }

/-- `vbi_network` as far as `xds_decoder` uses it -/
structure Net where
  name : List Nat := List.replicate nameExt 0
  call : List Nat := List.replicate callExt 0
  cycle : Nat := 0
  nuid : Nat := 0
  tapeDelay : Nat := 0
deriving Repr, DecidableEq

inductive Ev where
  | progInfo (cls : Nat) (pi : PI)
  | aspect (a : Aspect)
  | network (name call : List Nat) (nuid tapeDelay : Nat)
  | networkId
deriving Repr, DecidableEq

structure Info where
  pi0 : PI := {}
  pi1 : PI := {}
  cyc0 : List Nat := []
  cyc1 : List Nat := []
  net : Net := {}
  aspSrc : Nat := 0
  chLang : List Nat := List.replicate 8 0
deriving Repr, DecidableEq

structure Out where
  evs : List Ev := []
  chsw : Bool := false
  err : Option String := none
deriving Repr, DecidableEq

def init : Info := {}

def Info.pi (v : Info) (cls : Nat) : PI := if cls = 0 then v.pi0 else v.pi1
def Info.cyc (v : Info) (cls : Nat) : List Nat := if cls = 0 then v.cyc0 else v.cyc1
def Info.setPi (v : Info) (cls : Nat) (p : PI) : Info := if cls = 0 then { v with pi0 := p } else { v with pi1 := p }
def Info.setCyc (v : Info) (cls : Nat) (c : List Nat) : Info :=
  if cls = 0 then { v with cyc0 := c } else { v with cyc1 := c }

def errIf (b : Bool) (site : String) : Option String := if b then some site else none

/-- `flush_prog_info` (`pi->future` is the class): reset, ASPECT event if the reset changed the aspect
    ratio - for which programme and with which value is what `flushAspectAnyClass` /
    `flushSendsOldAspect` say - and `info_cycle[pi->future] = 0` -/
def flush (v : Info) (cls : Nat) : Info × List Ev :=
  let pi := v.pi cls
  ((v.setPi cls pi.reset).setCyc cls [],
   if pi.aspect != {} ∧ (flushAspectAnyClass ∨ cls = 0) then
     [Ev.aspect (if flushSendsOldAspect then pi.aspect else {})] else [])

/-- epilogue of the current/future branch -/
def epilogue (v : Info) (cls typ : Nat) (neq : Bool) : Info × List Ev :=
  if neq then (v.setCyc cls (typ :: v.cyc cls), [])
  else if (v.cyc cls).contains typ then (v.setCyc cls [], [Ev.progInfo cls (v.pi cls)])
  else (v, [])

/-- run the epilogue after the events `pre` -/
def fin (v : Info) (cls typ : Nat) (neq : Bool) (pre : List Ev) (err : Option String) : Info × Out :=
  let r := epilogue v cls typ neq
  (r.1, { evs := pre ++ r.2, err := err })

/-- `buffer[i]` for `i <= length` -/
def byteAt (d : List Nat) (nx i : Nat) : Nat := if i < d.length then d.getD i 0 else if i = d.length then nx else 0

/-- `((1 << l) & 0xC1) ? NULL : language[l]` -/
def lang (l : Nat) : Nat := if (1 <<< l) &&& 0xC1 != 0 then 0 else l

/-- `mode[i][k]` of `case 6` (values of `vbi_audio_mode`) -/
def audioModeTab (i k : Nat) : Nat :=
  (if i = 0 then [9, 1, 4, 2, 3, 8, 9, 0] else [9, 1, 5, 6, 7, 8, 9, 0]).getD k 9

/-- `case 5`: (auth, id, dlsv, the branch assigned `pi->rating_dlsv = 0` first) or the `return`s -/
def ratingDecode (b0 b1 : Nat) : Option (Nat × Nat × Nat × Bool) :=
  let r := b0 &&& 7
  let g := b1 &&& 7
  let dlsv := (if b0 &&& 0x20 != 0 then 8 else 0) ||| (if b1 &&& 0x08 != 0 then 4 else 0)
    ||| (if b1 &&& 0x10 != 0 then 2 else 0) ||| (if b1 &&& 0x20 != 0 then 1 else 0)
  if b0 &&& 0x08 = 0 then (if r = 0 then none else some (1, r, 0, true))
  else if b0 &&& 0x10 = 0 then some (2, g, dlsv, false)
  else if b1 &&& 0x08 = 0 then
    (if b0 &&& 0x20 = 0 then (if g > 6 then none else some (3, g, 0, true))
     else (if g > 5 then none else some (4, g, 0, true)))
  else none

/-- `case 6`, one iteration -/
def audioStep (pi : PI) (neq : Bool) (i b : Nat) : PI × Bool :=
  let l := (b >>> 3) &&& 7
  let m := audioModeTab i (b &&& 7)
  let s := lang l
  let n1 := pi.audioMode.getD i 9 != m
  let n2 := pi.audioLang.getD i 0 != s
  ({ pi with audioMode := if n1 then pi.audioMode.set i m else pi.audioMode,
             audioLang := if n2 then pi.audioLang.set i s else pi.audioLang }, neq || n1 || n2)

/-- `case 7`, one iteration: (caption_language[], services, neq, channel languages) -/
def capStep (cur : Bool) (st : List Nat × Nat × Bool × List Nat) (b : Nat) : List Nat × Nat × Bool × List Nat :=
  let c := b &&& 7
  let l := (b >>> 3) &&& 7
  let ch := (c &&& 1) * 4 + (c >>> 1)
  let s := lang l
  let n := st.1.getD ch 0 != s
  let cl := if n then st.1.set ch s else st.1
  (cl, st.2.1 ||| (1 <<< ch), st.2.2.1 || n, if cur then st.2.2.2.set ch (cl.getD ch 0) else st.2.2.2)

/-- `case XDS_CURRENT / XDS_FUTURE` -/
def feed (v : Info) (cls typ : Nat) (d : List Nat) (nx : Nat) : Info × Out :=
  let n := d.length
  let pi := v.pi cls
  let b := byteAt d nx
  match typ with
  | 1 =>
    if n ≠ 4 then (v, {}) else
    let month := b 3 &&& 15
    let day := b 2 &&& 31
    let hour := b 1 &&& 31
    let mi := b 0 &&& 63
    if month = 0 ∨ month > 12 ∨ day = 0 ∨ day > 31 ∨ hour > 23 ∨ mi > 59 then (v, {}) else
    let td := b 3 &&& 0x10 != 0
    let neq := pi.month != ((month : Int) - 1) || pi.day != ((day : Int) - 1) || pi.hour != (hour : Int) || pi.min != (mi : Int)
    let v1 := v.setPi cls { pi with tapeDelayed := td }
    if neq then
      let f := flush v1 cls
      let v3 := f.1.setPi cls { f.1.pi cls with month := (month : Int) - 1, day := (day : Int) - 1, hour := hour, min := mi,
                                                 tapeDelayed := td }
      fin v3 cls 1 true f.2 none
    else fin v1 cls 1 (pidTapeDelayCounted && pi.tapeDelayed != td) [] none
  | 2 =>
    if n < 2 ∨ n > 6 then (v, {}) else
    let lhour : Int := ((b 1 &&& 63 : Nat) : Int)
    let lmin : Int := ((b 0 &&& 63 : Nat) : Int)
    let ehour : Int := if n ≥ 3 then ((b 3 &&& 63 : Nat) : Int) else -1
    let emin : Int := if n ≥ 3 then ((b 2 &&& 63 : Nat) : Int) else -1
    let esec : Int := if n ≥ 5 then ((b 4 &&& 63 : Nat) : Int) else 0
    if lmin > 59 ∨ emin > 59 ∨ esec > 59 then (v, {}) else
    let neq := pi.lengthHour != lhour || pi.lengthMin != lmin || pi.elapsedHour != ehour || pi.elapsedMin != emin
      || pi.elapsedSec != esec
    fin (v.setPi cls { pi with lengthHour := lhour, lengthMin := lmin, elapsedHour := ehour, elapsedMin := emin,
                                 elapsedSec := esec }) cls 2 neq [] none
  | 3 =>
    if n < 2 then (v, {}) else
    let w := strfuArr pi.title d
    let v1 := v.setPi cls { pi with title := w.arr }
    if w.neq then fin v1 cls 3 true [] (errIf w.oob "dec.title.index")
    else if !(v1.cyc cls).contains 3 then fin v1 cls 3 false [] (errIf w.oob "dec.title.index")
    else if !(v1.cyc cls).contains 1 then
      -- second occurrence without PIN: everything else is forgotten
      let f := flush v1 cls
      let w2 := strfuArr (f.1.pi cls).title d
      let v3 := (f.1.setPi cls { f.1.pi cls with title := w2.arr }).setCyc cls [3]
      fin v3 cls 3 false f.2 (errIf (w.oob || w2.oob) "dec.title.index")
    else fin v1 cls 3 false [] (errIf w.oob "dec.title.index")
  | 4 =>
    let w := (d ++ [0]).foldl putc { arr := pi.typeId, neq := !pi.typeEia }
    fin (v.setPi cls { pi with typeEia := true, typeId := w.arr }) cls 4 w.neq [] (errIf w.oob "dec.type.index")
  | 5 =>
    if n ≠ 2 then (v, {}) else
    match ratingDecode (b 0) (b 1) with
    | none => (v, {})
    | some (auth, r, dlsv, zero) =>
      let pi1 := if zero then { pi with ratingDlsv := 0 } else pi
      let neq := pi1.ratingAuth != auth || pi1.ratingId != r || pi1.ratingDlsv != dlsv
      let pi2 := if neq then { pi1 with ratingAuth := auth, ratingId := r, ratingDlsv := dlsv } else pi1
      fin (v.setPi cls pi2) cls 5 neq [] none
  | 6 =>
    if n ≠ 2 then (v, {}) else
    let r0 := audioStep pi false 0 (b 0)
    let r1 := audioStep r0.1 r0.2 1 (b 1)
    fin (v.setPi cls r1.1) cls 6 r1.2 [] none
  | 7 =>
    if n > 8 then (v, {}) else
    let r := d.foldl (capStep (cls == 0)) (List.replicate 8 0, 0, false, v.chLang)
    let sv : Int := (r.2.1 : Int)
    let v1 := { v with chLang := r.2.2.2 }
    let neqLang := if capLangClearedFirst then r.2.2.1 else r.1 != pi.capLang
    fin (v1.setPi cls { pi with capLang := r.1, capServices := sv }) cls 7 (neqLang || pi.capServices != sv) [] none
  | 8 =>
    if n ≠ 1 then (v, {}) else
    let c : Int := ((b 0 &&& 63 : Nat) : Int)
    fin (v.setPi cls { pi with cgms := c }) cls 8 (pi.cgms != c) [] none
  | 9 =>
    if n > 3 then (v, {}) else
    let r : Aspect := { first := ((b 0 &&& 63 : Nat) : Int) + 22, last := 262 - ((b 1 &&& 63 : Nat) : Int),
                        ratio := if n ≥ 3 ∧ b 2 &&& 1 != 0 then 2 else 1 }
    -- the comparison and the store use prog_info[0] whatever the class is (`aspectAlwaysCurrent`)
    let tc := if aspectAlwaysCurrent then 0 else cls
    if r != (v.pi tc).aspect then
      let v1 := v.setPi tc { v.pi tc with aspect := r }
      if tc = 0 then fin { v1 with aspSrc := 3 } cls 9 true [Ev.aspect r] none
      else fin v1 cls 9 true [] none
    else fin v cls 9 false [] none
  | t =>
    if 0x10 ≤ t ∧ t ≤ 0x17 then
      let line := t &&& 7
      let w := strfuArr (pi.description.getD line []) d
      fin (v.setPi cls { pi with description := pi.description.set line w.arr }) cls t w.neq []
        (errIf (w.oob || decide (pi.description.length ≤ line)) "dec.description.index")
    else (v, {})

/-- `vbi_chsw_reset` on `Info` (the separator side - `cc->xds`, `sub_packet` - is `Sep.terminator`) -/
def chswReset (v : Info) : Info × List Ev :=
  ({ v with pi0 := v.pi0.reset, pi1 := v.pi1.reset, cyc0 := [], cyc1 := [], aspSrc := 0 },
   if v.aspSrc > 0 then [Ev.aspect { first := if v.aspSrc = 1 then 23 else 22, last := if v.aspSrc = 1 then 310 else 262,
                                     ratio := 1 }] else [])

/-- `case XDS_CHANNEL` -/
def netFeed (v : Info) (typ : Nat) (d : List Nat) (nx : Nat) : Info × Out :=
  let n := v.net
  match typ with
  | 1 =>
    let w := strfuArr n.name d
    let n1 := { n with name := w.arr }
    let err := errIf w.oob "dec.name.index"
    if w.neq then ({ v with net := { n1 with cycle := 1 } }, { err := err })
    else if n.cycle = 1 then
      let s := if n1.call.getD 0 0 != 0 then cstr n1.call else cstr n1.name
      let sum := Sep.nuidOf s
      if sepNuidCompared && sum == n.nuid then
        ({ v with net := { n1 with cycle := 3 } }, { evs := [Ev.networkId], err := err })
      else
        let doReset := n.nuid != 0
        let r := if doReset then chswReset v else (v, [])
        let n2 := { n1 with nuid := sum }
        ({ r.1 with net := { n2 with cycle := 3 } },
         { evs := r.2 ++ [Ev.network (cstr n2.name) (cstr n2.call) sum n2.tapeDelay, Ev.networkId], chsw := doReset,
           err := err })
    else ({ v with net := n1 }, { err := err })
  | 2 =>
    let w := strfuArr n.call d
    let n1 := { n with call := w.arr }
    let err := errIf w.oob "dec.call.index"
    if w.neq && n.cycle != 1 then ({ v with net := { n1 with name := n1.name.set 0 0, cycle := 0 } }, { err := err })
    else ({ v with net := n1 }, { err := err })
  | 3 =>
    if d.length ≠ 2 then (v, {}) else
    ({ v with net := { n with tapeDelay := (byteAt d nx 1 &&& 31) * 60 + (byteAt d nx 0 &&& 63) } }, {})
  | _ => (v, {})

/-- one call of `xds_decoder`; `nx` = `buffer[length]` -/
def step (v : Info) (p : Pkt) (nx : Nat) : Info × Out :=
  if p.data.length = 0 ∨ p.data.length > 32 then (v, { err := some "dec.assert.length" })
  else if p.cls ≤ 1 then feed v p.cls p.sub p.data nx
  else if p.cls = 2 then netFeed v p.sub p.data nx
  else (v, {})

/-- a history of calls -/
def run : Info → List (Pkt × Nat) → Info × List Out
  | v, [] => (v, [])
  | v, c :: cs =>
    let r := step v c.1 c.2
    let r2 := run r.1 cs
    (r2.1, r.2 :: r2.2)

/-! ## behind the separator -/

/-- `buffer[length]` of the packet an end pair would deliver: the byte behind the payload in the
    buffer `curr_sp` points to -/
def nxOf (s : Sep.State) : Nat :=
  match s.curr with
  | some i => (match s.slots[i]? with
    | some sl => sl.buf.getD (sl.count - 2) 0
    | none => 0)
  | none => 0

/-- line 284 of `vbi_decode_caption` with `xds_decoder` behind the separator -/
def sysStep (ec : Bool) (s : Sep.State × Info) (b : Nat × Nat) : (Sep.State × Info) × Sep.Out × Out :=
  let r := Sep.step ec s.1 b
  match r.2.dec with
  | none => ((r.1, s.2), r.2, {})
  | some p =>
    let d := step s.2 p (nxOf s.1)
    ((r.1, d.1), r.2, d.2)

def sysRun (ec : Bool) : (Sep.State × Info) → List (Nat × Nat) → (Sep.State × Info) × List (Sep.Out × Out)
  | s, [] => (s, [])
  | s, b :: bs =>
    let r := sysStep ec s b
    let r2 := sysRun ec r.1 bs
    (r2.1, r.2 :: r2.2)

end Dec
end Zvbi.Xds
