import ZvbiModel.Xds.LemmasSep
/-!
# Lemmas for C09, part 3: oversize packets, caption.c interleavings and parity faults
-/
namespace Zvbi.Xds
open Zvbi.Hamm Zvbi.Gen.Xds

theorem pairsOf_append_even : ∀ (a b : List Nat), a.length % 2 = 0 → pairsOf (a ++ b) = pairsOf a ++ pairsOf b
  | [], b, _ => by simp [pairsOf]
  | [x], b, h => by simp at h
  | x :: y :: a, b, h => by
    simp only [List.cons_append, pairsOf]
    rw [pairsOf_append_even a b (by simp only [List.length_cons] at h; omega)]

theorem pairsOf_cons (x : Nat) (b : List Nat) : ∃ q r, pairsOf (x :: b) = q :: r := by
  cases b with
  | nil => exact ⟨_, _, rfl⟩
  | cons y b => exact ⟨_, _, rfl⟩

/-- bytes of a (possibly oversize) packet on the wire are 7-bit values -/
theorem wire7_lt' (p : Packet) (hcls : p.cls < 7) (hsub : p.sub < 128) (hc : ∀ c ∈ p.payload, isChar c)
    (ck : Nat) (hck : ck < 128) : ∀ q ∈ wire7 p ck, q.1 < 128 ∧ q.2 < 128 := by
  obtain ⟨_, _, hcont, _⟩ := pairsOf_spec p.payload hc
  intro q hq
  simp only [Demux.wire7_eq, List.mem_cons, List.mem_append, List.not_mem_nil, or_false] at hq
  rcases hq with rfl | hq | rfl
  · simp only [startPair]; omega
  · have := hcont q hq; simp only [IsContent] at this; omega
  · simp; omega

/-- an oversize payload: 16 full pairs, one more payload pair, and a rest without headers -/
theorem oversize_split (payload : List Nat) (hc : ∀ c ∈ payload, isChar c) (hlen : 32 < payload.length) (ck : Nat) :
    ∃ (a : List Nat) (q : Pair) (rest : List Pair),
      pairsOf payload ++ [(0x0F, ck)] = pairsOf a ++ q :: rest ∧ a.length = 32 ∧ (∀ c ∈ a, isChar c) ∧
      IsContent q ∧ ∀ q' ∈ rest, ¬(1 ≤ q'.1 ∧ q'.1 ≤ 14) := by
  obtain ⟨_, _, hcont, _⟩ := pairsOf_spec payload hc
  have hsplit : payload = payload.take 32 ++ payload.drop 32 := (List.take_append_drop 32 _).symm
  have hla : (payload.take 32).length = 32 := by simp [List.length_take]; omega
  have hb : payload.drop 32 ≠ [] := by
    intro e; have := congrArg List.length e; simp [List.length_drop] at this; omega
  obtain ⟨x, b, hxb⟩ : ∃ x b, payload.drop 32 = x :: b := by
    cases h : payload.drop 32 with
    | nil => exact absurd h hb
    | cons x b => exact ⟨x, b, rfl⟩
  obtain ⟨q, r, hq⟩ := pairsOf_cons x b
  have hp : pairsOf payload = pairsOf (payload.take 32) ++ q :: r := by
    conv => lhs; rw [hsplit]
    rw [pairsOf_append_even _ _ (by rw [hla]), hxb, hq]
  refine ⟨payload.take 32, q, r ++ [(0x0F, ck)], by rw [hp]; simp, hla,
    fun c h => hc c (List.mem_of_mem_take h), hcont q (by rw [hp]; simp), ?_⟩
  intro q' hq'
  rcases List.mem_append.mp hq' with h | h
  · have := hcont q' (by rw [hp]; simp [h]); simp only [IsContent] at this; omega
  · simp only [List.mem_singleton] at h; subst h; simp

namespace Demux

/-- a payload pair arriving when 31 or 32 characters are stored: the packet is discarded -/
theorem open_overflow (rk : Bool) {s : State} {cls sub : Nat} {done : List Pair} (h : OpenAt cls sub done s)
    (q : Pair) (hq : IsContent q) (hfull : 31 ≤ (bytesOf done).length) :
    (step7 rk s q.1 q.2).1.curr = none ∧ (step7 rk s q.1 q.2).2.pkt = none := by
  obtain ⟨sl, hsl, hc, _, _⟩ := h.slot
  obtain ⟨hq1, hq2, hq3⟩ := hq
  have h1 : ¬(q.1 = 0) := by omega
  have h2 : ¬(q.1 ≤ 14) := by omega
  have h3 : ¬(q.1 = 15) := by omega
  have h4 : ¬(q.1 ≤ 31) := by omega
  have h5 : sl.count > demuxStoreGuard := by simp only [demuxStoreGuard]; omega
  simp only [step7, h1, h2, h3, h4, if_false, content, h.cur, hsl, h5, if_true, discard, and_self]

/-- oversize_not_delivered (xds_demux.c): start pair, more than 32 characters, end pair - nothing
    is delivered, not even a truncated packet -/
theorem oversize7 (rk : Bool) {s : State} (h : Inv s) (p : Packet) (hc : ∀ c ∈ p.payload, isChar c)
    (hlen : 32 < p.payload.length) (hacc : accepted p.cls p.sub) (ck : Nat) :
    deliveries (run7 rk s (wire7 p ck)).2 = [] := by
  obtain ⟨a, q, rest, hw, hla, hca, hq, hrest⟩ := oversize_split p.payload hc hlen ck
  obtain ⟨hb, _, hcont, hfit⟩ := pairsOf_spec a hca
  obtain ⟨a1, a2⟩ := open_start rk h hacc
  obtain ⟨b1, b2⟩ := open_content_run rk (pairsOf a) a1 hcont (by simpa [bytesOf] using hfit 0 rfl (by omega))
  obtain ⟨c1, c2⟩ := open_overflow rk b1 q hq (by simp [hb, hla])
  obtain ⟨_, d2⟩ := idle_run rk rest c1 hrest
  rw [wire7_eq, hw]
  simp only [run7, run7_append, startPair, deliveries_cons, deliveries_append, a2, b2, c2, d2, Option.toList,
    List.append_nil]

end Demux

namespace Sep

/-- with no current packet, pairs that are not headers deliver nothing and keep `curr = none` -/
theorem idle_run : ∀ (qs : List Pair) {s : State}, s.curr = none →
    (∀ q ∈ qs, ¬(1 ≤ q.1 ∧ q.1 ≤ 14)) → (run7 s qs).1.curr = none ∧ deliveries (run7 s qs).2 = []
  | [], s, h, _ => ⟨h, rfl⟩
  | q :: qs, s, hc, hq => by
    have hq1 := hq q (by simp)
    have e : (step7 s q.1 q.2).1.curr = none ∧ (step7 s q.1 q.2).2.dec = none := by
      unfold step7
      split
      · exact ⟨hc, rfl⟩
      · split
        · exfalso; apply hq1; omega
        · split
          · simp [terminator, hc]
          · split
            · exact ⟨hc, rfl⟩
            · split
              · simp [content, hc]
              · exact ⟨hc, rfl⟩
    obtain ⟨g1, g2⟩ := idle_run qs e.1 (fun q' hq' => hq q' (by simp [hq']))
    simp only [run7]
    exact ⟨g1, by rw [deliveries_cons, e.2, g2]; rfl⟩

theorem open_overflow (ec : Bool) {s : State} {cls sub : Nat} {done : List Pair} (h : OpenAt ec cls sub done s)
    (q : Pair) (hq : IsContent q) (hfull : 31 ≤ (bytesOf done).length) :
    (step7 s q.1 q.2).1.curr = none ∧ (step7 s q.1 q.2).2.dec = none := by
  obtain ⟨sl, hsl, hc, _, _⟩ := h.slot
  obtain ⟨hq1, hq2, hq3⟩ := hq
  have h1 : ¬(q.1 = 0) := by omega
  have h2 : ¬(q.1 ≤ 14) := by omega
  have h3 : ¬(q.1 = 15) := by omega
  have h4 : ¬(q.1 ≤ 31) := by omega
  have h5 : sl.count > sepStoreGuard := by simp only [sepStoreGuard]; omega
  simp only [step7, h1, h2, h3, h4, if_false, h.xds, content, h.cur, hsl, h5, if_true, and_self]

/-- oversize_not_delivered (caption.c) -/
theorem oversize7 (ec : Bool) {s : State} (h : Inv ec s) (p : Packet) (hc : ∀ c ∈ p.payload, isChar c)
    (hlen : 32 < p.payload.length) (hacc : accepted p.cls p.sub) (ck : Nat) :
    deliveries (run7 s (wire7 p ck)).2 = [] := by
  obtain ⟨a, q, rest, hw, hla, hca, hq, hrest⟩ := oversize_split p.payload hc hlen ck
  obtain ⟨hb, _, hcont, hfit⟩ := pairsOf_spec a hca
  obtain ⟨a1, a2⟩ := open_start ec h hacc
  obtain ⟨b1, b2⟩ := open_content_run ec (pairsOf a) a1 hcont (by simpa [bytesOf] using hfit 0 rfl (by omega))
  obtain ⟨c1, c2⟩ := open_overflow ec b1 q hq (by simp [hb, hla])
  obtain ⟨_, d2⟩ := idle_run rest c1 hrest
  rw [Demux.wire7_eq, hw]
  simp only [run7, run7_append, startPair, deliveries_cons, deliveries_append, a2, b2, c2, d2, Option.toList,
    List.append_nil]


/-! ## caption.c: pairs that do not belong to the packet in buffer `i` -/

/-- buffer of the network-name packet 2/1, whose announcement may flush every buffer -/
def slotNet : Nat := slotOf 2 1

theorem netDecode_chsw {n : Net} {p : Pkt} (h : (netDecode n p).2 = true) : p.cls = 2 ∧ p.sub = 1 := by
  unfold netDecode at h
  split at h
  · assumption
  · split at h
    · simp only [] at h
      split at h <;> cases h
    · split at h
      · split at h <;> cases h
      · cases h

theorem header_frame (ec : Bool) {s : State} (h : Inv ec s) (i c1 c2 : Nat)
    (hno : ¬(accepted ((c1 - 1) >>> 1) c2 ∧ slotOf ((c1 - 1) >>> 1) c2 = i))
    (hnet : ¬((c1 - 1) >>> 1 = 2 ∧ c2 = 1)) :
    (header s c1 c2).1.slots[i]? = s.slots[i]? ∧ (header s c1 c2).1.curr ≠ some i ∧
    (∀ j, (header s c1 c2).1.curr = some j → j ≠ slotNet) ∧ (header s c1 c2).2.dec = none := by
  unfold header
  simp only []
  split
  · exact ⟨rfl, (by simp), (by intro j hj; cases hj), rfl⟩
  · rename_i hrej
    have hacc : accepted ((c1 - 1) >>> 1) c2 := by
      constructor
      · apply Nat.lt_of_not_ge; intro hc; exact hrej (Or.inl hc)
      · apply Nat.lt_of_not_ge; intro hc; exact hrej (Or.inr hc)
    have hidx : (c1 - 1) >>> 1 * sepSubclasses + c2 ≠ i := fun e => hno ⟨hacc, e⟩
    have hidn : ∀ j, (some ((c1 - 1) >>> 1 * sepSubclasses + c2) : Option Nat) = some j → j ≠ slotNet := by
      intro j hj
      simp only [Option.some.injEq] at hj
      subst hj
      have := hacc.2
      simp only [slotNet, slotOf, sepSubclasses] at *
      intro e; apply hnet; omega
    split
    · rename_i hnone
      exfalso
      obtain ⟨sl, hsl⟩ := slot_lt h hacc
      simp only [slotOf] at hsl
      rw [hsl] at hnone; cases hnone
    · split
      · exact ⟨List.getElem?_set_ne hidx, Demux.some_ne hidx, hidn, rfl⟩
      · split
        · exact ⟨rfl, (by simp), (by intro j hj; cases hj), rfl⟩
        · exact ⟨rfl, Demux.some_ne hidx, hidn, rfl⟩

theorem terminator_frame (ec : Bool) {s : State} (h : Inv ec s) (i c1 c2 : Nat) (hcur : s.curr ≠ some i)
    (hnet : ∀ j, s.curr = some j → j ≠ slotNet) :
    (terminator s c1 c2).1.slots[i]? = s.slots[i]? ∧ (terminator s c1 c2).1.curr = none ∧
    ∀ p, (terminator s c1 c2).2.dec = some p → slotOf p.cls p.sub ≠ i := by
  have triv : ∀ (o : Out), o.dec = none → ∀ p, o.dec = some p → slotOf p.cls p.sub ≠ i := by
    intro o ho p hp; rw [ho] at hp; cases hp
  unfold terminator
  split
  · rename_i hc; exact ⟨rfl, hc, triv _ rfl⟩
  · rename_i j hj
    have hji : j ≠ i := by intro e; rw [e] at hj; exact hcur hj
    have hj96 := h.cur j hj
    have hjn := hnet j hj
    split
    · rename_i hnone
      obtain ⟨sl, hsl⟩ := getElem?_lt (by rw [h.len]; exact hj96 : j < s.slots.length)
      rw [hsl] at hnone; cases hnone
    · simp only []
      split
      · exact ⟨List.getElem?_set_ne hji, rfl, triv _ rfl⟩
      · split
        · exact ⟨List.getElem?_set_ne hji, rfl, triv _ rfl⟩
        · split
          · exact ⟨List.getElem?_set_ne hji, rfl, triv _ rfl⟩
          · rename_i sl _ _ _ _
            have hlab : slotOf (j / sepSubclasses) (j % sepSubclasses) ≠ i := by
              simp only [slotOf, sepSubclasses]; omega
            have hch : (netDecode s.net ⟨j / sepSubclasses, j % sepSubclasses, sl.buf.take (sl.count - 2)⟩).2 = false := by
              cases hh : (netDecode s.net ⟨j / sepSubclasses, j % sepSubclasses, sl.buf.take (sl.count - 2)⟩).2 with
              | false => rfl
              | true =>
                have := netDecode_chsw hh
                simp only [] at this
                exfalso; apply hjn
                simp only [slotNet, slotOf, sepSubclasses, sepClasses] at *
                omega
            cases hnd : netDecode s.net ⟨j / sepSubclasses, j % sepSubclasses, sl.buf.take (sl.count - 2)⟩ with
            | mk n' chsw =>
              rw [hnd] at hch
              simp only [] at hch
              subst hch
              simp only [Bool.false_eq_true, if_false]
              refine ⟨List.getElem?_set_ne hji, trivial, ?_⟩
              intro p hp
              simp only [Option.some.injEq] at hp
              subst hp
              exact hlab

theorem content_frame {s : State} (i c1 c2 : Nat) (hcur : s.curr ≠ some i) :
    (content s c1 c2).1.slots[i]? = s.slots[i]? ∧
    ((content s c1 c2).1.curr = s.curr ∨ (content s c1 c2).1.curr = none) ∧ (content s c1 c2).2.dec = none := by
  unfold content
  split
  · exact ⟨rfl, Or.inl rfl, rfl⟩
  · rename_i j hj
    have hji : j ≠ i := by intro e; rw [e] at hj; exact hcur hj
    split
    · exact ⟨rfl, Or.inl rfl, rfl⟩
    · split
      · exact ⟨List.getElem?_set_ne hji, Or.inr rfl, rfl⟩
      · split
        · exact ⟨List.getElem?_set_ne hji, Or.inl rfl, rfl⟩
        · split
          · exact ⟨rfl, Or.inl rfl, rfl⟩
          · exact ⟨List.getElem?_set_ne hji, Or.inl rfl, rfl⟩


/-- packet (cls, sub) is interrupted: its buffer keeps `done`; either something else (or nothing) is
    current, or the pointer still rests on it but caption mode is on (`m = false`: no XDS header since
    the last caption control code) -/
structure Parked (ec : Bool) (cls sub : Nat) (done : List Pair) (m : Bool) (s : State) : Prop where
  inv : Inv ec s
  slot : ∃ sl, s.slots[slotOf cls sub]? = some sl ∧ Demux.Holds cls sub done sl
  stale : s.curr = some (slotOf cls sub) → m = false ∧ s.xds = false
  nonet : ∀ j, s.curr = some j → j ≠ slotOf cls sub → j ≠ slotNet

/-- no delivery of the list is labelled with the (class, type) of buffer `i` -/
def Quiet (i : Nat) (os : List Out) : Prop := ∀ d ∈ deliveries os, slotOf d.cls d.sub ≠ i

theorem quiet_nil (i : Nat) : Quiet i [] := by intro d hd; simp [deliveries] at hd

theorem quiet_cons {i : Nat} {o : Out} {os : List Out} (h1 : ∀ p, o.dec = some p → slotOf p.cls p.sub ≠ i)
    (h2 : Quiet i os) : Quiet i (o :: os) := by
  intro d hd
  rw [deliveries_cons] at hd
  rcases List.mem_append.mp hd with hd | hd
  · cases ho : o.dec with
    | none => simp [ho] at hd
    | some p => simp [ho] at hd; subst hd; exact h1 _ ho
  · exact h2 d hd

theorem quiet_append {i : Nat} {a b : List Out} (h1 : Quiet i a) (h2 : Quiet i b) : Quiet i (a ++ b) := by
  intro d hd
  rw [deliveries_append] at hd
  rcases List.mem_append.mp hd with hd | hd
  · exact h1 d hd
  · exact h2 d hd

theorem quiet_of_none {i : Nat} {os : List Out} (h : deliveries os = []) : Quiet i os := by
  intro d hd; rw [h] at hd; cases hd

theorem none_dec {i : Nat} {o : Out} (h : o.dec = none) : ∀ p, o.dec = some p → slotOf p.cls p.sub ≠ i := by
  intro p hp; rw [h] at hp; cases hp

/-- one readable foreign pair while the packet is parked -/
theorem parked_step (ec : Bool) {s : State} {cls sub : Nat} {done : List Pair} {m : Bool}
    (h : Parked ec cls sub done m s) (q : Pair) (hq : q.1 < 128 ∧ q.2 < 128) (r : List Pair)
    (hb : blockOk (slotOf cls sub) m (q :: r) = true) :
    ∃ m', Parked ec cls sub done m' (step7 s q.1 q.2).1 ∧ blockOk (slotOf cls sub) m' r = true ∧
      ∀ p, (step7 s q.1 q.2).2.dec = some p → slotOf p.cls p.sub ≠ slotOf cls sub := by
  have hinv := inv_step7 ec h.inv q hq
  unfold blockOk at hb
  unfold step7 at hinv ⊢
  split
  · -- NUL pair
    rename_i h0
    simp only [h0, if_true] at hb hinv
    exact ⟨m, ⟨hinv, h.slot, h.stale, h.nonet⟩, hb, none_dec rfl⟩
  rename_i h0
  simp only [h0, if_false] at hb hinv
  split
  · -- header
    rename_i h14
    simp only [h14, if_true, Bool.and_eq_true, Bool.not_eq_true', Bool.and_eq_false_iff, decide_eq_false_iff_not,
      beq_eq_false_iff_ne, beq_iff_eq, ne_eq] at hb hinv
    obtain ⟨⟨hno, hnet⟩, hr⟩ := hb
    have hno' : ¬(accepted ((q.1 - 1) >>> 1) q.2 ∧ slotOf ((q.1 - 1) >>> 1) q.2 = slotOf cls sub) := by
      intro ⟨a, b⟩; rcases hno with hno | hno
      · exact hno a
      · exact hno b
    have hnet' : ¬((q.1 - 1) >>> 1 = 2 ∧ q.2 = 1) := by
      intro ⟨a, b⟩; rcases hnet with hnet | hnet
      · exact hnet a
      · exact hnet b
    obtain ⟨f1, f2, f3, f4⟩ := header_frame ec h.inv (slotOf cls sub) q.1 q.2 hno' hnet'
    refine ⟨true, ⟨hinv, by simpa [f1] using h.slot, ?_, ?_⟩, hr, none_dec f4⟩
    · intro hc; exact absurd hc f2
    · intro j hj _; exact f3 j hj
  rename_i h14
  simp only [h14, if_false] at hb hinv
  split
  · -- end pair: only with an XDS packet open (m = true), so the pointer is not on our buffer
    rename_i h15
    simp only [h15, if_true, Bool.and_eq_true] at hb hinv
    obtain ⟨hm, hr⟩ := hb
    have hcur : s.curr ≠ some (slotOf cls sub) := by
      intro hc; have := (h.stale hc).1; rw [hm] at this; cases this
    obtain ⟨f1, f2, f3⟩ := terminator_frame ec h.inv (slotOf cls sub) 15 q.2 hcur
      (fun j hj => h.nonet j hj (by intro e; rw [e] at hj; exact hcur hj))
    simp only [h15] at hinv ⊢
    refine ⟨false, ⟨hinv, by simpa [f1] using h.slot, ?_, ?_⟩, hr, ?_⟩
    · intro hc; simp only [f2] at hc; cases hc
    · intro j hj; simp only [f2] at hj; cases hj
    · exact f3
  rename_i h15
  simp only [h15, if_false] at hb hinv
  split
  · -- caption control code
    rename_i h31
    simp only [h31, if_true] at hb hinv
    refine ⟨false, ⟨hinv, h.slot, ?_, h.nonet⟩, hb, none_dec rfl⟩
    intro _; exact ⟨rfl, rfl⟩
  · -- text / payload pair
    rename_i h31
    simp only [h31, if_false] at hb hinv
    split
    · rename_i hx
      simp only [hx, if_true] at hinv
      have hcur : s.curr ≠ some (slotOf cls sub) := by
        intro hc; have := (h.stale hc).2; rw [hx] at this; cases this
      obtain ⟨f1, f2, f3⟩ := content_frame (s := s) (slotOf cls sub) q.1 q.2 hcur
      refine ⟨m, ⟨hinv, by simpa [f1] using h.slot, ?_, ?_⟩, hb, none_dec f3⟩
      · intro hc; rcases f2 with f2 | f2
        · rw [f2] at hc; exact absurd hc hcur
        · rw [f2] at hc; cases hc
      · intro j hj hji; rcases f2 with f2 | f2
        · rw [f2] at hj; exact h.nonet j hj hji
        · rw [f2] at hj; cases hj
    · rename_i hx
      simp only [hx] at hinv
      exact ⟨m, ⟨h.inv, h.slot, h.stale, h.nonet⟩, hb, none_dec rfl⟩

theorem parked_run (ec : Bool) {cls sub : Nat} {done : List Pair} : ∀ (qs : List Pair) {s : State} {m : Bool},
    Parked ec cls sub done m s → (∀ q ∈ qs, q.1 < 128 ∧ q.2 < 128) → blockOk (slotOf cls sub) m qs = true →
    (∃ m', Parked ec cls sub done m' (run7 s qs).1) ∧ Quiet (slotOf cls sub) (run7 s qs).2
  | [], s, m, h, _, _ => ⟨⟨m, h⟩, quiet_nil _⟩
  | q :: qs, s, m, h, hq, hb => by
    obtain ⟨m', p1, p2, p3⟩ := parked_step ec h q (hq q (by simp)) qs hb
    obtain ⟨g1, g2⟩ := parked_run ec qs p1 (fun q' hq' => hq q' (by simp [hq'])) p2
    exact ⟨g1, quiet_cons p3 g2⟩


/-- first pair of a foreign block, arriving while the packet is the current one -/
theorem open_leave (ec : Bool) {s : State} {cls sub : Nat} {done : List Pair} (h : OpenAt ec cls sub done s)
    (q : Pair) (hq : q.1 < 128 ∧ q.2 < 128) (r : List Pair) (h1 : 1 ≤ q.1) (h31 : q.1 ≤ 0x1F) (h15 : q.1 ≠ 15)
    (hb : blockOk (slotOf cls sub) false (q :: r) = true) :
    ∃ m', Parked ec cls sub done m' (step7 s q.1 q.2).1 ∧ blockOk (slotOf cls sub) m' r = true ∧
      (step7 s q.1 q.2).2.dec = none := by
  have hinv := inv_step7 ec h.inv q hq
  have h0 : ¬(q.1 = 0) := by omega
  unfold blockOk at hb
  unfold step7 at hinv ⊢
  simp only [h0, if_false] at hb hinv ⊢
  by_cases h14 : q.1 ≤ 14
  · simp only [h14, if_true, Bool.and_eq_true, Bool.not_eq_true', Bool.and_eq_false_iff, decide_eq_false_iff_not,
      beq_eq_false_iff_ne, beq_iff_eq, ne_eq] at hb hinv ⊢
    obtain ⟨⟨hno, hnet⟩, hr⟩ := hb
    have hno' : ¬(accepted ((q.1 - 1) >>> 1) q.2 ∧ slotOf ((q.1 - 1) >>> 1) q.2 = slotOf cls sub) := by
      intro ⟨a, b⟩; rcases hno with hno | hno
      · exact hno a
      · exact hno b
    have hnet' : ¬((q.1 - 1) >>> 1 = 2 ∧ q.2 = 1) := by
      intro ⟨a, b⟩; rcases hnet with hnet | hnet
      · exact hnet a
      · exact hnet b
    obtain ⟨f1, f2, f3, f4⟩ := header_frame ec h.inv (slotOf cls sub) q.1 q.2 hno' hnet'
    refine ⟨true, ⟨hinv, by simpa [f1] using h.slot, ?_, ?_⟩, hr, f4⟩
    · intro hc; exact absurd hc f2
    · intro j hj _; exact f3 j hj
  · have h31' : q.1 ≤ 31 := h31
    simp only [h14, h15, h31', if_false, if_true] at hb hinv ⊢
    refine ⟨false, ⟨hinv, h.slot, ?_, ?_⟩, hb, trivial⟩
    · intro _; exact ⟨rfl, rfl⟩
    · intro j hj hji; rw [h.cur] at hj; cases hj; exact absurd rfl hji

theorem parked_cont (ec : Bool) {s : State} {cls sub : Nat} {done : List Pair} {m : Bool}
    (h : Parked ec cls sub done m s) (hacc : accepted cls sub) :
    OpenAt ec cls sub done (step7 s (2 * cls + 2) sub).1 ∧ (step7 s (2 * cls + 2) sub).2.dec = none := by
  obtain ⟨sl, hsl, hh⟩ := h.slot
  have hc : cls < 4 := hacc.1
  have hs : sub < 24 := hacc.2
  have hrej : ¬(cls ≥ sepClasses ∨ sub ≥ sepSubclasses) := by
    simp only [sepClasses, sepSubclasses]; omega
  have hslot : cls * sepSubclasses + sub = slotOf cls sub := rfl
  have e : step7 s (2 * cls + 2) sub = ({ s with curr := some (slotOf cls sub), xds := true }, {}) := by
    have h1 : ¬(2 * cls + 2 = 0) := by omega
    have h2 : 2 * cls + 2 ≤ 14 := by omega
    have h3 : ¬((2 * cls + 2) % 2 = 1) := by omega
    have h4 : ¬(sl.count = 0) := by rw [hh.1]; omega
    simp only [step7, h1, h2, if_true, if_false, header, (Demux.shift_cls cls).2, hrej, hslot, hsl, h3, h4]
  have hinv := inv_step7 ec h.inv (2 * cls + 2, sub) (by simp only []; omega)
  simp only [] at hinv
  rw [e] at hinv ⊢
  exact ⟨⟨hinv, rfl, rfl, sl, hsl, hh⟩, rfl⟩

/-- one interruption: foreign block, continue pair, next chunk of payload pairs -/
theorem open_segment (ec : Bool) {s : State} {cls sub : Nat} {done : List Pair} (h : OpenAt ec cls sub done s)
    (hacc : accepted cls sub) (blk chunk : List Pair) (hb : ForeignBlock (slotOf cls sub) blk)
    (hc : ∀ q ∈ chunk, IsContent q) (hf : Fits (bytesOf done).length chunk) :
    OpenAt ec cls sub (done ++ chunk) (run7 s (blk ++ (2 * cls + 2, sub) :: chunk)).1 ∧
    Quiet (slotOf cls sub) (run7 s (blk ++ (2 * cls + 2, sub) :: chunk)).2 := by
  obtain ⟨⟨q, r, rfl, h1, h31, h15⟩, hok, hlt⟩ := hb
  obtain ⟨m1, a1, a2, a3⟩ := open_leave ec h q (hlt q (by simp)) r h1 h31 h15 hok
  obtain ⟨⟨m2, b1⟩, b2⟩ := parked_run ec r a1 (fun q' hq' => hlt q' (by simp [hq'])) a2
  obtain ⟨c1, c2⟩ := parked_cont ec b1 hacc
  obtain ⟨d1, d2⟩ := open_content_run ec chunk c1 hc hf
  simp only [List.cons_append, run7, run7_append]
  refine ⟨d1, ?_⟩
  apply quiet_cons (none_dec a3)
  apply quiet_append b2
  exact quiet_cons (none_dec c2) (quiet_of_none d2)

theorem open_segments (ec : Bool) {cls sub : Nat} (hacc : accepted cls sub) :
    ∀ (segs : List (List Pair × List Pair)) {s : State} {done : List Pair}, OpenAt ec cls sub done s →
    (∀ sg ∈ segs, ForeignBlock (slotOf cls sub) sg.1) →
    (∀ q ∈ segs.flatMap (·.2), IsContent q) → Fits (bytesOf done).length (segs.flatMap (·.2)) →
    OpenAt ec cls sub (done ++ segs.flatMap (·.2))
      (run7 s (segs.flatMap fun sg => sg.1 ++ (2 * cls + 2, sub) :: sg.2)).1 ∧
    Quiet (slotOf cls sub) (run7 s (segs.flatMap fun sg => sg.1 ++ (2 * cls + 2, sub) :: sg.2)).2
  | [], s, done, h, _, _, _ => by simpa [run7] using ⟨h, quiet_nil _⟩
  | sg :: segs, s, done, h, hb, hc, hf => by
    simp only [List.flatMap_cons] at hc hf ⊢
    rw [fits_append] at hf
    obtain ⟨a1, a2⟩ := open_segment ec h hacc sg.1 sg.2 (hb sg (by simp))
      (fun q hq => hc q (List.mem_append_left _ hq)) hf.1
    obtain ⟨b1, b2⟩ := open_segments ec hacc segs a1 (fun sg' h' => hb sg' (by simp [h']))
      (fun q hq => hc q (List.mem_append_right _ hq)) (by simpa [bytesOf_append] using hf.2)
    rw [run7_append]
    exact ⟨by simpa [List.append_assoc] using b1, quiet_append a2 b2⟩

theorem forSlot_quiet {i : Nat} {os : List Out} (h : Quiet i os) : forSlot i os = [] := by
  simp only [forSlot, List.filter_eq_nil_iff]
  intro d hd; simpa using h d hd

theorem forSlot_append (i : Nat) (a b : List Out) : forSlot i (a ++ b) = forSlot i a ++ forSlot i b := by
  simp [forSlot, deliveries_append]

theorem forSlot_cons_none (i : Nat) {o : Out} (os : List Out) (h : o.dec = none) :
    forSlot i (o :: os) = forSlot i os := by
  simp [forSlot, deliveries_cons, h]

/-- a packet interrupted any number of times by foreign blocks and re-opened by its continue pair -/
theorem deliver_interleaved7 (ec : Bool) {s : State} (h : Inv ec s) (p : Packet) (hv : p.Valid)
    (hacc : accepted p.cls p.sub) (ck : Nat) (chunk0 : List Pair) (segs : List (List Pair × List Pair))
    (hch : chunksOf chunk0 segs = pairsOf p.payload)
    (hb : ∀ sg ∈ segs, ForeignBlock (slotOf p.cls p.sub) sg.1) :
    forSlot (slotOf p.cls p.sub) (run7 s (interleaved7 p ck chunk0 segs)).2 =
      if (bodySum p + ck) % 128 = 0 then [p.toPkt] else [] := by
  obtain ⟨hbytes, hsum, hcont, hfit⟩ := pairsOf_spec p.payload hv.chars
  have hfit0 : Fits 0 (chunk0 ++ segs.flatMap (·.2)) := by
    have := hfit 0 rfl (by have := hv.len_le; omega)
    rw [← hch] at this; exact this
  rw [fits_append] at hfit0
  have hcont' : ∀ q ∈ chunk0 ++ segs.flatMap (·.2), IsContent q := by
    intro q hq; apply hcont; rw [← hch]; exact hq
  obtain ⟨a1, a2⟩ := open_start ec h hacc
  obtain ⟨b1, b2⟩ := open_content_run ec chunk0 a1 (fun q hq => hcont' q (List.mem_append_left _ hq))
    (by simpa [bytesOf] using hfit0.1)
  obtain ⟨c1, c2⟩ := open_segments ec hacc segs b1 hb (fun q hq => hcont' q (List.mem_append_right _ hq))
    (by simpa [bytesOf] using hfit0.2)
  obtain ⟨d1, _, _⟩ := open_term ec c1 hacc ck
  have hdone : ([] ++ chunk0) ++ segs.flatMap (·.2) = pairsOf p.payload := by simpa [chunksOf] using hch
  rw [hdone, hbytes, hsum] at d1
  have hne : p.payload ≠ [] := by
    intro e; have := hv.len_pos; rw [e] at this; simp at this
  simp only [interleaved7, startPair, contPair, List.append_assoc, run7, run7_append, List.cons_append]
  rw [forSlot_cons_none _ _ a2, forSlot_append, forSlot_quiet (quiet_of_none b2), forSlot_append,
    forSlot_quiet c2]
  simp only [List.nil_append, forSlot, deliveries_cons, d1, hne, ne_eq, not_false_eq_true, and_true, bodySum]
  simp only [deliveries, List.filterMap_nil, List.append_nil]
  have hlab : slotOf p.cls p.sub = slotOf p.cls p.sub := rfl
  split <;> simp_all [Packet.toPkt]


/-! ## caption.c: unreadable pairs (with the parity-error branch clearing `cc->curr_sp`) -/

theorem run_append (ec : Bool) : ∀ (a b : List (Nat × Nat)) (s : State),
    run ec s (a ++ b) = ((run ec (run ec s a).1 b).1, (run ec s a).2 ++ (run ec (run ec s a).1 b).2)
  | [], b, s => by simp [run]
  | q :: a, b, s => by simp [run, run_append ec a b]

/-- a pair that reaches the parity-error branch of `xds_separator`: first byte unreadable, or first
    byte a readable XDS control code / character and second byte unreadable -/
def Damaged (bad : Nat × Nat) : Prop :=
  unpar8 bad.1 = none ∨
  ∃ c1, unpar8 bad.1 = some c1 ∧ ((1 ≤ c1 ∧ c1 ≤ 15) ∨ 32 ≤ c1) ∧ unpar8 bad.2 = none

theorem bad_step {s : State} (bad : Nat × Nat) (hbad : Damaged bad) (hs : s.curr = none ∨ s.xds = true) :
    (step true s bad).1.curr = none ∧ (step true s bad).2.dec = none := by
  have sep : (separator true s bad).1.curr = none ∧ (separator true s bad).2.dec = none := by
    rcases hbad with hb | ⟨c1, h1, _, h2⟩
    · simp [separator, hb]
    · simp [separator, h1, h2]
  unfold step
  rcases hbad with hb | ⟨c1, h1, hr, h2⟩
  · simp only [hb]
    split
    · exact sep
    · rename_i hx
      rcases hs with hs | hs
      · exact ⟨hs, rfl⟩
      · exact absurd hs hx
  · simp only [h1]
    have h0 : ¬(c1 = 0) := by omega
    simp only [h0, if_false]
    split
    · exact ⟨sep.1, sep.2⟩
    · rename_i h15
      have h31 : ¬(c1 ≤ 31) := by omega
      simp only [h31, if_false]
      split
      · exact sep
      · rename_i hx
        rcases hs with hs | hs
        · exact ⟨hs, rfl⟩
        · exact absurd hs hx

/-- the `n`-th pair of a transmitted packet damaged: nothing is delivered -/
theorem fault_wire {s : State} (h : Inv true s) (p : Packet) (hv : p.Valid)
    (hacc : accepted p.cls p.sub) (ck : Nat) (hck : ck < 128) (n : Nat) (hn : n < (wire7 p ck).length)
    (hidle : n = 0 → s.curr = none) (bad : Nat × Nat) (hbad : Damaged bad) :
    deliveries (run true s ((wire p ck).set n bad)).2 = [] := by
  obtain ⟨hbytes, hsum, hcont, hfit⟩ := pairsOf_spec p.payload hv.chars
  have hlt := Demux.wire7_lt p hv ck hck
  have hlen : n < (wire p ck).length := by simpa [wire] using hn
  rw [List.set_eq_take_append_cons_drop, if_pos hlen]
  simp only [wire, ← List.map_take, ← List.map_drop]
  rw [run_append]
  simp only [run]
  rw [run_map_parPair true _ _ (fun q hq => hlt q (List.mem_of_mem_take hq)),
    run_map_parPair true _ _ (fun q hq => hlt q (List.mem_of_mem_drop hq))]
  have hpost : ∀ q ∈ (wire7 p ck).drop (n + 1), ¬(1 ≤ q.1 ∧ q.1 ≤ 14) := by
    intro q hq
    simp only [Demux.wire7_eq, List.drop_succ_cons] at hq
    have hq := List.mem_of_mem_drop hq
    rcases List.mem_append.mp hq with hq | hq
    · have := hcont q hq; simp only [IsContent] at this; omega
    · simp only [List.mem_singleton] at hq; subst hq; simp
  -- before the damaged pair: a proper prefix of the packet
  have hpre : deliveries (run7 s ((wire7 p ck).take n)).2 = [] ∧
      ((run7 s ((wire7 p ck).take n)).1.curr = none ∨ (run7 s ((wire7 p ck).take n)).1.xds = true) := by
    cases n with
    | zero => simp only [List.take_zero, run7]; exact ⟨rfl, Or.inl (hidle rfl)⟩
    | succ m =>
      have hm : m ≤ (pairsOf p.payload).length := by
        simp only [Demux.wire7_eq, List.length_cons, List.length_append, List.length_nil] at hn; omega
      simp only [Demux.wire7_eq, List.take_succ_cons, List.take_append_of_le_length hm, run7, startPair]
      obtain ⟨a1, a2⟩ := open_start true h hacc
      have hsplit : pairsOf p.payload = (pairsOf p.payload).take m ++ (pairsOf p.payload).drop m :=
        (List.take_append_drop m _).symm
      have hf := hfit 0 rfl (by have := hv.len_le; omega)
      rw [hsplit, fits_append] at hf
      obtain ⟨b1, b2⟩ := open_content_run true ((pairsOf p.payload).take m) a1
        (fun q hq => hcont q (List.mem_of_mem_take hq)) (by simpa [bytesOf] using hf.1)
      exact ⟨by rw [deliveries_cons, a2, b2]; rfl, Or.inr b1.xds⟩
  obtain ⟨g1, g2⟩ := bad_step (s := (run7 s ((wire7 p ck).take n)).1) bad hbad hpre.2
  obtain ⟨_, k2⟩ := idle_run ((wire7 p ck).drop (n + 1)) g1 hpost
  simp only [deliveries_append, deliveries_cons, hpre.1, g2, k2, Option.toList, List.append_nil]

/-- bit 7 of either byte of a transmitted pair flipped: the pair is `Damaged` -/
theorem flip_unreadable : ∀ c < 128, unpar8 (par8 c ^^^ 0x80) = none ∧ unpar8 (par8 c) = some c := by
  decide +kernel


/-- first byte of every pair of a transmitted packet: XDS control code 1..15 or a character -/
theorem wire7_c1 (p : Packet) (hv : p.Valid) (ck : Nat) : ∀ q ∈ wire7 p ck, (1 ≤ q.1 ∧ q.1 ≤ 15) ∨ 32 ≤ q.1 := by
  obtain ⟨_, _, hcont, _⟩ := pairsOf_spec p.payload hv.chars
  intro q hq
  simp only [Demux.wire7_eq, List.mem_cons, List.mem_append, List.not_mem_nil, or_false] at hq
  rcases hq with rfl | hq | rfl
  · have := hv.cls_lt; simp only [startPair]; omega
  · have := hcont q hq; simp only [IsContent] at this; omega
  · simp

/-- one byte of a transmitted pair received with its parity bit flipped: the pair is `Damaged` -/
theorem flip_damaged (p : Packet) (hv : p.Valid) (ck : Nat) (hck : ck < 128) (n : Nat) (q : Nat × Nat)
    (hq : (wire p ck)[n]? = some q) (bad : Nat × Nat)
    (hbad : bad = (q.1 ^^^ 0x80, q.2) ∨ bad = (q.1, q.2 ^^^ 0x80)) : Damaged bad := by
  simp only [wire, List.getElem?_map, Option.map_eq_some_iff] at hq
  obtain ⟨q7, hq7, rfl⟩ := hq
  have hmem : q7 ∈ wire7 p ck := List.mem_of_getElem? hq7
  have hlt := Demux.wire7_lt p hv ck hck q7 hmem
  rcases hbad with rfl | rfl
  · exact Or.inl (flip_unreadable _ hlt.1).1
  · exact Or.inr ⟨q7.1, (flip_unreadable _ hlt.1).2, wire7_c1 p hv ck q7 hmem, (flip_unreadable _ hlt.2).1⟩

end Sep
end Zvbi.Xds
