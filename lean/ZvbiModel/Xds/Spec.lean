import ZvbiModel.Xds.Model
/-!
# Sender side of XDS (EIA-608 / 47 CFR 15.119 section 9, as libzvbi reads it) - spec for C09

A packet is (class, type, payload of 1..32 informational characters 0x20..0x7F).  On the wire
(field 2, one byte pair per frame, each byte with odd parity in bit 7):

    start pair     (2*class + 1, type)
    payload pairs  two characters per pair, an odd payload is padded with one NUL
    end pair       (0x0F, checksum)   with  sum of all 7-bit bytes of the packet = 0 mod 128

A packet may be interrupted after any pair by caption data or by other packets and is then
re-opened by its continue pair (2*class + 2, type).
-/
namespace Zvbi.Xds
open Zvbi.Hamm

abbrev Pair := Nat × Nat

structure Packet where
  cls : Nat
  sub : Nat
  payload : List Nat
deriving Repr, DecidableEq

/-- informational characters -/
def isChar (c : Nat) : Prop := 0x20 ≤ c ∧ c ≤ 0x7F
instance (c : Nat) : Decidable (isChar c) := by unfold isChar; infer_instance

/-- a packet a conforming encoder can send -/
structure Packet.Valid (p : Packet) : Prop where
  cls_lt : p.cls < 7
  sub_lt : p.sub < 128
  len_pos : 1 ≤ p.payload.length
  len_le : p.payload.length ≤ 32
  chars : ∀ c ∈ p.payload, isChar c

/-- two characters per pair, odd tail padded with NUL -/
def pairsOf : List Nat → List Pair
  | [] => []
  | [a] => [(a, 0)]
  | a :: b :: r => (a, b) :: pairsOf r

def startPair (p : Packet) : Pair := (2 * p.cls + 1, p.sub)
def contPair (p : Packet) : Pair := (2 * p.cls + 2, p.sub)

/-- sum of the 7-bit bytes of start pair, payload and the 0x0F of the end pair -/
def bodySum (p : Packet) : Nat := (2 * p.cls + 1) + p.sub + p.payload.sum + 0x0F

/-- the checksum byte a conforming encoder sends -/
def checksum (p : Packet) : Nat := (128 - bodySum p % 128) % 128

/-- 7-bit wire form with an arbitrary final byte `ck` -/
def wire7 (p : Packet) (ck : Nat) : List Pair :=
  startPair p :: pairsOf p.payload ++ [(0x0F, ck)]

/-- add the odd-parity bit to both bytes -/
def parPair (q : Pair) : Pair := (par8 q.1, par8 q.2)

/-- what is transmitted -/
def wire (p : Packet) (ck : Nat) : List Pair := (wire7 p ck).map parPair

/-- A transmission of `p` that is interrupted: after the start pair and the first chunk of payload
    pairs come segments (foreign pairs, then the continue pair, then the next chunk); the chunks
    concatenate to `pairsOf p.payload`; the end pair is last. -/
def interleaved7 (p : Packet) (ck : Nat) (chunk0 : List Pair) (segs : List (List Pair × List Pair)) : List Pair :=
  startPair p :: chunk0 ++ (segs.flatMap fun sg => sg.1 ++ contPair p :: sg.2) ++ [(0x0F, ck)]

/-- the payload pairs carried by an interleaving -/
def chunksOf (chunk0 : List Pair) (segs : List (List Pair × List Pair)) : List Pair :=
  chunk0 ++ segs.flatMap (·.2)

/-- what the client received -/
def Demux.deliveries (os : List Demux.Out) : List Pkt := os.filterMap (·.pkt)
def Sep.deliveries (os : List Sep.Out) : List Pkt := os.filterMap (·.dec)

/-- error sites reported by a run -/
def Demux.errors (os : List Demux.Out) : List String := os.filterMap (·.err)
def Sep.errors (os : List Sep.Out) : List String := os.filterMap (·.err)

/-- the packet as the client should see it -/
def Packet.toPkt (p : Packet) : Pkt := ⟨p.cls, p.sub, p.payload⟩

/-- (class, type) pairs `vbi_xds_demux_feed` has a buffer for -/
def Demux.accepted (cls sub : Nat) : Prop :=
  cls ≤ Gen.Xds.demuxMaxClass ∧ Demux.remap sub < Gen.Xds.demuxSubclasses
instance (a b : Nat) : Decidable (Demux.accepted a b) := by unfold Demux.accepted; infer_instance

/-- buffer index `vbi_xds_demux_feed` uses for (class, type) -/
def Demux.slotOf (cls sub : Nat) : Nat := cls * Gen.Xds.demuxSubclasses + Demux.remap sub

/-- (class, type) pairs caption.c has a buffer for -/
def Sep.accepted (cls sub : Nat) : Prop := cls < Gen.Xds.sepClasses ∧ sub < Gen.Xds.sepSubclasses
instance (a b : Nat) : Decidable (Sep.accepted a b) := by unfold Sep.accepted; infer_instance

def Sep.slotOf (cls sub : Nat) : Nat := cls * Gen.Xds.sepSubclasses + sub

end Zvbi.Xds
