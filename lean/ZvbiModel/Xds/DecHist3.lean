import ZvbiModel.Xds.DecHist2
/-!
# `Dec`, events: which calls raise PROG_INFO and what the event carries (lemmas for `Props/C09Hist.lean`)
-/
namespace Zvbi.Xds
namespace Dec
open Zvbi.Gen.Xds

/-! ## events -/

def Ev.isProgInfo : Ev → Bool
  | .progInfo _ _ => true
  | _ => false

theorem fin_proginfo (X : Info) (cls typ : Nat) (neq : Bool) (pre : List Ev) (err : Option String)
    (hpre : ∀ x ∈ pre, x.isProgInfo = false) (x : Ev) (hx : x ∈ (fin X cls typ neq pre err).2.evs) (hi : x.isProgInfo = true) :
    x = Ev.progInfo cls ((fin X cls typ neq pre err).1.pi cls) ∧ neq = false ∧ (X.cyc cls).contains typ = true := by
  rw [fin_events] at hx
  rw [pi_fin]
  simp only [List.mem_append] at hx
  rcases hx with hx | hx
  · rw [hpre x hx] at hi; cases hi
  · split at hx
    · rename_i hc
      simp only [List.mem_singleton] at hx
      exact ⟨hx, hc.1, hc.2⟩
    · cases hx

theorem flush_no_proginfo (v : Info) (cls : Nat) : ∀ x ∈ (flush v cls).2, x.isProgInfo = false := by
  intro x hx
  simp only [flush] at hx
  split at hx
  · simp only [List.mem_singleton] at hx; subst hx; rfl
  · cases hx

/-- a PROG_INFO event of a current / future class packet: it is for the packet's class and carries the
    programme information as stored when the call returns -/
theorem feed_proginfo_payload (v : Info) (cls typ : Nat) (d : List Nat) (nx : Nat) (x : Ev)
    (hx : x ∈ (feed v cls typ d nx).2.evs) (hi : x.isProgInfo = true) :
    x = Ev.progInfo cls ((feed v cls typ d nx).1.pi cls) := by
  have hnil : ∀ y ∈ ([] : List Ev), y.isProgInfo = false := by intro y hy; cases hy
  have hasp : ∀ r, ∀ y ∈ [Ev.aspect r], y.isProgInfo = false := by
    intro r y hy; simp only [List.mem_singleton] at hy; subst hy; rfl
  have key : ∀ r, r = feed v cls typ d nx → x ∈ r.2.evs → x = Ev.progInfo cls (r.1.pi cls) := by
    intro r hr hx
    unfold feed at hr
    simp only [] at hr
    repeat' split at hr
    all_goals subst hr
    all_goals first
      | (simp only [List.not_mem_nil] at hx; done)
      | exact (fin_proginfo _ _ _ _ _ _ hnil x hx hi).1
      | exact (fin_proginfo _ _ _ _ _ _ (flush_no_proginfo _ _) x hx hi).1
      | exact (fin_proginfo _ _ _ _ _ _ (hasp _) x hx hi).1
  exact key _ rfl hx

theorem netFeed_no_proginfo (v : Info) (typ : Nat) (d : List Nat) (nx : Nat) :
    ∀ x ∈ (netFeed v typ d nx).2.evs, x.isProgInfo = false := by
  have key : ∀ r, r = netFeed v typ d nx → ∀ x ∈ r.2.evs, x.isProgInfo = false := by
    intro r hr x hx
    unfold netFeed at hr
    simp only [] at hr
    repeat' split at hr
    all_goals subst hr
    all_goals first
      | (simp only [List.not_mem_nil] at hx; done)
      | (simp only [chswReset, List.mem_append, List.mem_cons, List.not_mem_nil, or_false] at hx
         rcases hx with hx | hx | hx
         · split at hx
           · simp only [List.mem_singleton] at hx; subst hx; rfl
           · cases hx
         · subst hx; rfl
         · subst hx; rfl)
      | (simp only [List.mem_cons, List.not_mem_nil, or_false, List.nil_append] at hx
         rcases hx with hx | hx <;> (subst hx; rfl))
      | (simp only [List.mem_singleton] at hx; subst hx; rfl)
  exact key _ rfl

/-- one call of `xds_decoder`: a PROG_INFO event is raised only by packets of class current / future, it
    names the packet's class and carries the programme information of that class as stored on return -/
theorem step_proginfo_payload (v : Info) (p : Pkt) (nx : Nat) (x : Ev) (hx : x ∈ (step v p nx).2.evs)
    (hi : x.isProgInfo = true) : p.cls ≤ 1 ∧ x = Ev.progInfo p.cls ((step v p nx).1.pi p.cls) := by
  unfold step at hx ⊢
  split at hx
  · cases hx
  · rename_i hl
    rw [if_neg hl]
    split at hx
    · rename_i hp
      rw [if_pos hp]
      exact ⟨hp, feed_proginfo_payload v p.cls p.sub p.data nx x hx hi⟩
    · split at hx
      · rw [netFeed_no_proginfo v p.sub p.data nx x hx] at hi; cases hi
      · cases hx

/-! ## announcement on the repeat, generically -/

/-- normal form of a call on an accepted packet of a group whose change flag is exactly "the group's view
    differs from the packet's decoding" and that raises nothing before the epilogue -/
def PlainGroup (g : Grp) : Prop :=
  ∀ (v : Info) (cls : Nat) (d : List Nat) (nx : Nat) (val : List Int), AWf v → decode g d nx = some val →
    ∃ X : Info, feed v cls g.typ d nx = fin X cls g.typ (view g (v.pi cls) != val) [] none ∧
      X.cyc cls = v.cyc cls ∧ view g (X.pi cls) = val ∧ AWf X

theorem awf_fin {X : Info} (h : AWf X) (cls typ : Nat) (neq : Bool) (pre : List Ev) (err : Option String) :
    AWf (fin X cls typ neq pre err).1 := by
  have e0 := pi_fin X cls typ 0 neq pre err
  have e1 := pi_fin X cls typ 1 neq pre err
  have a0 := awf_pi h 0
  have a1 := awf_pi h 1
  rw [← e0] at a0; rw [← e1] at a1
  exact ⟨a0.1, a0.2, a1.1, a1.2⟩

/-- announced after the documented repeat, for every plain group: a packet whose decoding differs from
    what is stored raises nothing the first time; its immediate repeat raises exactly one PROG_INFO, for
    its class, carrying the decoding; a third occurrence raises nothing -/
theorem announce_on_repeat_of_plain {g : Grp} (hg : PlainGroup g) (v : Info) (ha : AWf v) (cls : Nat) (d : List Nat) (nx : Nat)
    (val : List Int) (hdec : decode g d nx = some val) (hchg : view g (v.pi cls) ≠ val) :
    let r1 := feed v cls g.typ d nx
    let r2 := feed r1.1 cls g.typ d nx
    let r3 := feed r2.1 cls g.typ d nx
    r1.2.evs = [] ∧ (∃ e, r2.2.evs = [Ev.progInfo cls e] ∧ view g e = val) ∧ r3.2.evs = [] ∧ view g (r3.1.pi cls) = val := by
  intro r1 r2 r3
  obtain ⟨X1, f1, c1, w1, a1⟩ := hg v cls d nx val ha hdec
  have n1 : (view g (v.pi cls) != val) = true := by simpa using hchg
  have hr1 : r1 = fin X1 cls g.typ true [] none := by simp only [r1, f1, n1]
  have v1 : view g (r1.1.pi cls) = val := by rw [hr1, pi_fin]; exact w1
  have y1 : r1.1.cyc cls = g.typ :: v.cyc cls := by rw [hr1, fin_cyc, c1]; rfl
  have aw1 : AWf r1.1 := by rw [hr1]; exact awf_fin a1 _ _ _ _ _
  obtain ⟨X2, f2, c2, w2, a2⟩ := hg r1.1 cls d nx val aw1 hdec
  have n2 : (view g (r1.1.pi cls) != val) = false := by simp [v1]
  have hr2 : r2 = fin X2 cls g.typ false [] none := by simp only [r2, f2, n2]
  have v2 : view g (r2.1.pi cls) = val := by rw [hr2, pi_fin]; exact w2
  have y2 : r2.1.cyc cls = [] := by rw [hr2, fin_cyc, c2, y1]; simp
  have aw2 : AWf r2.1 := by rw [hr2]; exact awf_fin a2 _ _ _ _ _
  obtain ⟨X3, f3, c3, w3, _⟩ := hg r2.1 cls d nx val aw2 hdec
  have n3 : (view g (r2.1.pi cls) != val) = false := by simp [v2]
  have hr3 : r3 = fin X3 cls g.typ false [] none := by simp only [r3, f3, n3]
  refine ⟨?_, ⟨X2.pi cls, ?_, w2⟩, ?_, ?_⟩
  · rw [hr1, fin_events]; simp
  · rw [hr2, fin_events, c2, y1]; simp
  · rw [hr3, fin_events, c3, y2]; simp
  · rw [hr3, pi_fin]; exact w3

theorem bne_list1 (a b : Int) : ([a] != [b]) = (a != b) := by
  cases h : a == b <;> simp_all [bne]

theorem bne_list5 (a b c d e a' b' c' d' e' : Int) :
    ([a, b, c, d, e] != [a', b', c', d', e']) = (a != a' || b != b' || c != c' || d != d' || e != e') := by
  rw [Bool.eq_iff_iff]
  simp only [bne_iff_ne, ne_eq, List.cons.injEq, and_true, Bool.or_eq_true]
  omega

theorem awf_setPi {v : Info} (ha : AWf v) (cls : Nat) (p : PI) (hm : p.audioMode.length = 2) (hl : p.audioLang.length = 2) :
    AWf (v.setPi cls p) := by
  unfold Info.setPi; split
  · exact ⟨hm, hl, ha.m1, ha.l1⟩
  · exact ⟨ha.m0, ha.l0, hm, hl⟩

theorem plain_cgms : PlainGroup .cgms := by
  intro v cls d nx val ha hdec
  simp only [decode] at hdec
  split at hdec
  · cases hdec
  · rename_i h1
    injection hdec with hdec
    subst hdec
    refine ⟨v.setPi cls { v.pi cls with cgms := ((byteAt d nx 0 &&& 63 : Nat) : Int) }, ?_, by simp, by simp [view],
      awf_setPi ha cls _ (awf_pi ha cls).1 (awf_pi ha cls).2⟩
    unfold feed; simp only [Grp.typ]; rw [if_neg h1]; simp only [view, bne_list1]

theorem plain_len : PlainGroup .len := by
  intro v cls d nx val ha hdec
  simp only [decode, decodeLen] at hdec
  by_cases h1 : d.length < 2 ∨ d.length > 6
  · rw [if_pos h1] at hdec; cases hdec
  · rw [if_neg h1] at hdec
    by_cases hb : (((byteAt d nx 0 &&& 63 : Nat) : Int) > 59 ∨
        (if d.length ≥ 3 then ((byteAt d nx 2 &&& 63 : Nat) : Int) else -1) > 59 ∨
        (if d.length ≥ 5 then ((byteAt d nx 4 &&& 63 : Nat) : Int) else 0) > 59)
    · rw [if_pos hb] at hdec; cases hdec
    · rw [if_neg hb] at hdec
      injection hdec with hdec; subst hdec
      refine ⟨v.setPi cls { v.pi cls with
          lengthHour := ((byteAt d nx 1 &&& 63 : Nat) : Int), lengthMin := ((byteAt d nx 0 &&& 63 : Nat) : Int),
          elapsedHour := if d.length ≥ 3 then ((byteAt d nx 3 &&& 63 : Nat) : Int) else -1,
          elapsedMin := if d.length ≥ 3 then ((byteAt d nx 2 &&& 63 : Nat) : Int) else -1,
          elapsedSec := if d.length ≥ 5 then ((byteAt d nx 4 &&& 63 : Nat) : Int) else 0 }, ?_, by simp, by simp [view],
        awf_setPi ha cls _ (awf_pi ha cls).1 (awf_pi ha cls).2⟩
      unfold feed; simp only [Grp.typ]; rw [if_neg h1, if_neg hb]
      simp only [view, bne_list5]

/-! ## behind the separator: the calls a byte-pair history makes -/

/-- the calls `xds_decoder (packet, buffer[length])` that the byte pairs `bs` on line 284 cause, in order,
    starting from separator state `s` -/
def sysCalls (ec : Bool) : Sep.State → List (Nat × Nat) → List (Pkt × Nat)
  | _, [] => []
  | s, b :: bs =>
    match (Sep.step ec s b).2.dec with
    | none => sysCalls ec (Sep.step ec s b).1 bs
    | some p => (p, nxOf s) :: sysCalls ec (Sep.step ec s b).1 bs

/-- the service decoder's state after a byte-pair history is its state after exactly those calls -/
theorem sysRun_info (ec : Bool) : ∀ (bs : List (Nat × Nat)) (s : Sep.State) (v : Info),
    (sysRun ec (s, v) bs).1.2 = (run v (sysCalls ec s bs)).1
  | [], _, _ => rfl
  | b :: bs, s, v => by
    simp only [sysRun, sysStep, sysCalls]
    cases h : (Sep.step ec s b).2.dec with
    | none => simp only [h]; exact sysRun_info ec bs _ _
    | some p => simp only [h, run_cons]; exact sysRun_info ec bs _ _

end Dec
end Zvbi.Xds
