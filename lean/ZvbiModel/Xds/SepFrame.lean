import ZvbiModel.Xds.Model
/-!
# Field separation of a frame: `vbi_xds_demux_feed_frame` (src/xds_demux.c 1027-1058), property C09

A frame is an array of `vbi_sliced` lines (`id`, `line`, two data bytes).  The function feeds a line to
`vbi_xds_demux_feed` iff its `id` is *exactly* `VBI_SLICED_CAPTION_525` or `VBI_SLICED_CAPTION_525_F2`
(a `switch`, not a mask test) and its line number is 284 or 0 (unknown); everything else - field-1
caption (`VBI_SLICED_CAPTION_525_F1`), other services, sets of ids, other line numbers - is skipped.
It returns FALSE at the first fed line that `vbi_xds_demux_feed` refuses (parity error) *without
looking at the rest of the frame*, TRUE otherwise.

The id values are cross-checked against sliced.h by the harness op `extents2`.
-/
namespace Zvbi.Xds
namespace Frame

def idF1 : Nat := 0x20
def idF2 : Nat := 0x40
def id525 : Nat := 0x60

/-- one `vbi_sliced`: id, line number, the first two data bytes -/
structure Sliced where
  id : Nat
  line : Nat
  data : Nat × Nat
deriving Repr, DecidableEq

/-- the `switch (sliced->id)` and the line filter -/
def selected (sl : Sliced) : Bool := (sl.id == id525 || sl.id == idF2) && (sl.line == 284 || sl.line == 0)

/-- `vbi_xds_demux_feed_frame`: state, return value, outputs of the lines that were fed -/
def feedFrame (rk : Bool) : Demux.State → List Sliced → Demux.State × Bool × List Demux.Out
  | s, [] => (s, true, [])
  | s, sl :: rest =>
    if selected sl then
      let r := Demux.step rk s sl.data
      if r.2.r then
        let r2 := feedFrame rk r.1 rest
        (r2.1, r2.2.1, r.2 :: r2.2.2)
      else (r.1, false, [r.2])
    else feedFrame rk s rest

/-- `vbi_xds_demux_feed` over a list of byte pairs, stopping after the first refused pair -/
def feedUntilRefused (rk : Bool) : Demux.State → List (Nat × Nat) → Demux.State × Bool × List Demux.Out
  | s, [] => (s, true, [])
  | s, b :: bs =>
    let r := Demux.step rk s b
    if r.2.r then
      let r2 := feedUntilRefused rk r.1 bs
      (r2.1, r2.2.1, r.2 :: r2.2.2)
    else (r.1, false, [r.2])

/-- the field-2 caption lines of a frame, in order -/
def field2 (fr : List Sliced) : List (Nat × Nat) := (fr.filter selected).map (·.data)

end Frame
end Zvbi.Xds
