import ZvbiModel.Ev.LemmasTerm
import ZvbiModel.Evl.LemmasKeep
/-!
# C11 - event handlers run exactly once, in order, and may re-register from callbacks

Property theorems only; the model is `ZvbiModel/Ev/Model.lean` (vbi.c:143-381), the vocabulary
(`Inv`, `Reach`, `callIds`, `NoCallAfterFree`, `UndisturbedBefore`, `disables`) is
`ZvbiModel/Ev/Spec.lean`, helper lemmas are `ZvbiModel/Ev/Lemmas*.lean`.

All theorems quantify over every history of top-level operations (`Reach`: register / unregister /
add / remove with any handler, user pointer, 32-bit mask and allocation outcome, events of any
type, Teletext pages) and over every *behaviour* `beh` of the callbacks: an arbitrary function
from everything that happened so far to the list of API calls the callback issues - removing
or re-registering itself, any other handler, changing masks, adding new handlers, to any depth.
Record ids are allocation numbers: the handler list is always ordered by id (`Inv.sorted`) and a
new record gets the next id, so "increasing id" *is* "registration order".
-/
namespace Zvbi.Props.C11
open Zvbi.Ev Zvbi.Gen.Ev

/-- two handlers; the first one's callback unregisters the second and registers a third (test data) -/
def demoBeh : Behav := fun _ fn _ _ =>
  if fn = 1 then [{ kind := .reg, fn := 2, user := 8, mask := 0 }, { kind := .reg, fn := 3, user := 9, mask := 2 }] else []
def demoOps : List Op :=
  [.call { kind := .reg, fn := 1, user := 7, mask := 2 }, .call { kind := .reg, fn := 2, user := 8, mask := 6 },
   .call { kind := .reg, fn := 4, user := 0, mask := 2 }]

/-- Every reachable state satisfies the invariant (list ordered by allocation, cursor NULL or
live, `event_mask` = union, freed records unlinked for good, ...) and has `next_handler == NULL`. -/
theorem inv_reachable (beh : Behav) (fuel : Nat) (s : State) (hr : Reach beh fuel s) :
    Inv s ∧ s.cursor = none := by
  obtain ⟨ops, hops⟩ := hr
  obtain ⟨h, hc, _⟩ := run_ok beh fuel ops init s inv_init rfl hops
  exact ⟨h, hc⟩

example : Reach demoBeh 10 (apiCall { kind := .reg, fn := 1, user := 7, mask := 2 } init) :=
  ⟨[.call { kind := .reg, fn := 1, user := 7, mask := 2 }], rfl⟩

/-- `no_dead_deref`: in no history, with no behaviour of the callbacks, does `vbi_send_event`
dereference a freed handler record - the `next_handler` fix-up at vbi.c:206/297 always leaves the
cursor on a linked record or NULL. (The only ways a history can stop are running out of loop fuel
and the self-deadlock after a failed allocation, see `no_deadlock_without_oom`.) -/
theorem no_dead_deref (beh : Behav) (fuel : Nat) (ops : List Op) (c : Nat) :
    run beh fuel init ops ≠ .error (.deadDeref c) := by
  intro h
  rcases run_error beh fuel ops init _ inv_init rfl h with h1 | h1 <;> cases h1

/-- ... and also mid-delivery: whatever calls a callback has issued so far, the cursor the loop
will dereference next is NULL or a linked record. -/
theorem cursor_live_in_callbacks (s : State) (h : Inv s) (cs : List Call) :
    ∀ c, (runScript s cs).cursor = some c → c ∈ ids (runScript s cs).handlers :=
  (runScript_inv_ext cs s h).1.cursorLive

example : (run demoBeh 10 init (demoOps ++ [.send 2])).toOption.map (fun s => (ids s.handlers, s.cursor))
    = some ([0, 2, 3], none) := by decide

/-- `delivery_exactly_once_in_order`: in a delivery of event `ev` from any reachable state
* the invoked records have strictly increasing ids: nobody is called twice, and calls happen in
  registration order;
* every invocation passes the event type raised and the handler function and user pointer of the
  record it is made for;
* every handler registered before the event whose mask wants `ev` is invoked, unless a callback
  that ran before its turn removed it or took `ev` out of its mask (`UndisturbedBefore`). -/
theorem delivery_exactly_once_in_order (beh : Behav) (fuel ev : Nat) (s s' : State)
    (hr : Reach beh fuel s) (hs : send beh fuel ev s = .ok s') :
    ∃ X, s'.trace = s.trace ++ X ∧
      (callIds X).Pairwise (· < ·) ∧
      (∀ id f u e, Entry.call id f u e ∈ X →
        e = ev ∧ ∀ r ∈ s.handlers, r.id = id → r.fn = f ∧ r.user = u) ∧
      (∀ r ∈ s.handlers, r.mask &&& ev ≠ 0 →
        UndisturbedBefore beh ev r s.trace.length s'.trace → r.id ∈ callIds X) := by
  obtain ⟨h, hc⟩ := inv_reachable beh fuel s hr
  obtain ⟨h', _, _, _, _, _, X, hX, hpw, hev⟩ := send_ok beh fuel ev s s' h hc hs
  refine ⟨X, hX, hpw, ?_, ?_⟩
  · intro id f u e hin
    refine ⟨hev id f u e hin, ?_⟩
    intro r hrm hid
    obtain ⟨m, hm⟩ := h'.calledAllocd id f u e (by rw [hX]; exact List.mem_append_right _ hin)
    obtain ⟨m', hm'⟩ := h.allocd r hrm
    have := h'.allocUniq id f u m r.fn r.user m' hm (by rw [hX, ← hid]; exact List.mem_append_left _ hm')
    exact ⟨this.1.symm, this.2.symm⟩
  · intro r hrm hmask hU
    obtain ⟨X', hX', hin⟩ := send_complete beh fuel ev s s' h hs r hrm hmask hU
    have : X' = X := List.append_cancel_left (hX'.symm.trans hX)
    rw [← this]; exact hin

/-- the demo: record 0 is called, removes record 1 (the cursor!) and adds record 3; records 2 and 3
are then called once each, record 1 is not -/
example : (run demoBeh 10 init (demoOps ++ [.send 2])).toOption.map (fun s => callIds s.trace)
    = some [0, 2, 3] := by decide

/-- In every history every invocation is made with the handler function and the user pointer the
record was allocated with (also for records created inside callbacks). -/
theorem called_with_own_user (beh : Behav) (fuel : Nat) (s : State) (hr : Reach beh fuel s)
    (id f u e : Nat) (hc : Entry.call id f u e ∈ s.trace) :
    (∃ m, Entry.alloc id f u m ∈ s.trace) ∧
    ∀ f' u' m', Entry.alloc id f' u' m' ∈ s.trace → f' = f ∧ u' = u := by
  obtain ⟨h, _⟩ := inv_reachable beh fuel s hr
  obtain ⟨m, hm⟩ := h.calledAllocd id f u e hc
  exact ⟨⟨m, hm⟩, fun f' u' m' h' => h.allocUniq id f' u' m' f u m h' hm⟩

example : (run demoBeh 10 init (demoOps ++ [.send 2])).toOption.map
    (fun s => s.trace.filter (fun e => e matches .call ..))
    = some [.call 0 1 7 2, .call 2 4 0 2, .call 3 3 9 2] := by decide

/-- `added_during_delivery_at_most_once`: no record - in particular none created by a callback
during this delivery (`s.nextId ≤ id`) - is invoked more than once for one event. -/
theorem added_during_delivery_at_most_once (beh : Behav) (fuel ev : Nat) (s s' : State)
    (hr : Reach beh fuel s) (hs : send beh fuel ev s = .ok s') (id : Nat) :
    (callIds (s'.trace.drop s.trace.length)).count id ≤ 1 := by
  obtain ⟨X, hX, hpw, _⟩ := delivery_exactly_once_in_order beh fuel ev s s' hr hs
  rw [hX, List.drop_left]
  exact count_le_one_of_pairwise_lt _ hpw id

/-- a handler added by the *last* handler of the list is not called for the running event (0 ≤ 1) -/
example : (run (fun _ fn _ _ => if fn = 1 then [{ kind := .reg, fn := 3, user := 9, mask := 2 }] else []) 10 init
    [.call { kind := .reg, fn := 1, user := 7, mask := 2 }, .send 2]).toOption.map (fun s => (callIds s.trace, ids s.handlers))
    = some ([0], [0, 1]) := by decide

/-- `removed_never_called`: in the complete trace of any history (everything that happened inside
all deliveries included) no record is invoked at any point after it was freed, and a freed record
is never linked again. -/
theorem removed_never_called (beh : Behav) (fuel : Nat) (s : State) (hr : Reach beh fuel s) :
    NoCallAfterFree s.trace ∧ ∀ x, Entry.free x ∈ s.trace → x ∉ ids s.handlers := by
  obtain ⟨h, _⟩ := inv_reachable beh fuel s hr
  exact ⟨h.ncaf, fun x hx => (h.freedDead x hx).1⟩

example : (run demoBeh 10 init (demoOps ++ [.send 2, .send 4])).toOption.map
    (fun s => (s.trace.contains (.free 1), (callIds s.trace).contains 1)) = some (true, false) := by decide

/-- `mask_union`: after every operation `vbi->event_mask` is the union of the masks of the
registered handlers; bit `b` is requested iff some registered handler requests it. -/
theorem mask_union (beh : Behav) (fuel : Nat) (s : State) (hr : Reach beh fuel s) :
    s.eventMask = orMasks s.handlers ∧
    ∀ b, (s.eventMask &&& b ≠ 0 ↔ ∃ r ∈ s.handlers, r.mask &&& b ≠ 0) := by
  obtain ⟨h, _⟩ := inv_reachable beh fuel s hr
  refine ⟨h.maskUnion, fun b => ?_⟩
  rw [h.maskUnion]; exact orMasks_and_ne_zero s.handlers b

/-- ... and the same after every single API call issued from inside a callback. -/
theorem mask_union_in_callbacks (s : State) (h : Inv s) (cs : List Call) :
    (runScript s cs).eventMask = orMasks (runScript s cs).handlers :=
  (runScript_inv_ext cs s h).1.maskUnion

example : (run demoBeh 10 init demoOps).toOption.map (·.eventMask) = some 6 := by decide
example : (run demoBeh 10 init (demoOps ++ [.send 2])).toOption.map (·.eventMask) = some 2 := by decide

/-- `ttx_acquired_iff_handler` (model side): the gate of `vbi_decode_teletext`
(`event_mask & TTX_EVENTS`, packet.c:2209) is open exactly while at least one registered handler
requests `VBI_EVENT_TTX_PAGE`; and a complete page fed through the decoder ends up in the cache
iff it was there before or such a handler is registered. That the real decoder ignores the
packets when the gate is closed is checked on the C code by the `ttx` op (oracle), not proved. -/
theorem ttx_acquired_iff_handler (beh : Behav) (fuel : Nat) (s : State) (hr : Reach beh fuel s) :
    (ttxAcquiring s = true ↔ ∃ r ∈ s.handlers, r.mask &&& VBI_EVENT_TTX_PAGE ≠ 0) ∧
    ∀ p s', ttxPage beh fuel p s = .ok s' →
      (p ∈ s'.cached ↔ p ∈ s.cached ∨ ∃ r ∈ s.handlers, r.mask &&& VBI_EVENT_TTX_PAGE ≠ 0) := by
  obtain ⟨h, hc⟩ := inv_reachable beh fuel s hr
  have hacq : ttxAcquiring s = true ↔ ∃ r ∈ s.handlers, r.mask &&& VBI_EVENT_TTX_PAGE ≠ 0 := by
    rw [← (mask_union beh fuel s hr).2 VBI_EVENT_TTX_PAGE]
    unfold ttxAcquiring
    simp only [TTX_EVENTS, VBI_EVENT_TTX_PAGE]
    exact decide_eq_true_iff
  refine ⟨hacq, ?_⟩
  intro p s' hs
  unfold ttxPage at hs
  by_cases ha : ttxAcquiring s = true
  · simp only [ha, if_true] at hs
    have h0 : Inv { s with cached := if s.cached.contains p = true then s.cached else p :: s.cached } :=
      inv_congr h rfl rfl rfl rfl rfl
    obtain ⟨_, _, _, _, _, hca, _⟩ := send_ok beh fuel _ _ s' h0 hc hs
    rw [hca]
    simp only
    constructor
    · intro _; exact Or.inr (hacq.mp ha)
    · intro _
      by_cases hp : s.cached.contains p = true
      · simp only [hp, if_true]; simpa using hp
      · have hp' : p ∉ s.cached := by simpa using hp
        simp [hp']
  · simp only [ha, if_false, Except.ok.injEq, Bool.false_eq_true] at hs
    subst hs
    constructor
    · intro hp; exact Or.inl hp
    · rintro (hp | hp)
      · exact hp
      · exact absurd (hacq.mpr hp) ha

example : (run (fun _ _ _ _ => []) 10 init [.ttx 0x100, .call { kind := .reg, fn := 1, user := 7, mask := 2 }, .ttx 0x101,
    .call { kind := .reg, fn := 1, user := 7, mask := 0 }, .ttx 0x102]).toOption.map (·.cached) = some [0x101] := by decide

/-- OUTSIDE THE PROPERTY (C11 does not quantify over allocation failure; kept because the models follow
the code on that path too).  The event mutex: as long as no *top-level* registration fails for lack of memory - or if the
allocation-failure path releases the mutex (`oomUnlocks`, read off vbi.c by the translator; true
once fixes/ev-oom-unlock.diff is applied) - the mutex is free between operations and no event
ever blocks. -/
theorem no_deadlock_without_oom (beh : Behav) (fuel : Nat) (ops : List Op)
    (hno : oomUnlocks = true ∨ NoTopOom ops) :
    run beh fuel init ops ≠ .error .deadlock ∧ ∀ s, run beh fuel init ops = .ok s → s.locked = false :=
  let h := run_unlocked beh fuel ops init inv_init rfl rfl hno
  ⟨h.2, h.1⟩

example : NoTopOom demoOps := by
  intro c hc
  simp only [demoOps, List.mem_cons, Op.call.injEq, List.not_mem_nil, or_false] at hc
  rcases hc with rfl | rfl | rfl <;> rfl

/-- OUTSIDE THE PROPERTY - observation C11-F1 (NOTES/C11.md; input corpus/C11/oom-lock-leak.ops), not
judged by the check: on the code as it is
(`oomUnlocks = false`) the statement without the hypothesis is false. When `calloc` fails,
`vbi_event_handler_register` returns FALSE without unlocking (vbi.c:312-313, same in `_add`
221-222): the mutex stays locked and the next event blocks forever. -/
theorem oom_leaks_mutex_counterexample (hflag : oomUnlocks = false) :
    ¬ (∀ (ops : List Op), run (fun _ _ _ _ => []) 10 init ops ≠ .error .deadlock) := by
  intro h
  apply h [.call { kind := .reg, fn := 1, user := 1, mask := 2 },
           .call { kind := .reg, fn := 2, user := 2, mask := 2, oom := true }, .send 2]
  have hH : (apiCall { kind := .reg, fn := 1, user := 1, mask := 2 } init).handlers = [⟨0, 1, 1, 2⟩] := rfl
  have hl : (apiCall { kind := .reg, fn := 2, user := 2, mask := 2, oom := true }
      (apiCall { kind := .reg, fn := 1, user := 1, mask := 2 } init)).locked = true := by
    rcases apiCall_spec { kind := .reg, fn := 2, user := 2, mask := 2, oom := true }
        (apiCall { kind := .reg, fn := 1, user := 1, mask := 2 } init) with
      ⟨_, _, _, _, _, _, _, hL, _⟩ | ⟨_, _, ho, _⟩ | ⟨_, ⟨r, hr, hhit⟩, _⟩ | ⟨hz, _⟩
    · rw [hL, hflag]; rfl
    · cases ho
    · rw [hH] at hr
      simp only [List.mem_singleton] at hr
      subst hr
      cases hhit
    · cases hz
  simp only [run, step, send, hl, if_true]

/-- `send_terminates`: a delivery ends (the loop fuel `|handlers| + K*L + 1` suffices) whenever the
callbacks issue at most `L` calls each and stop issuing calls after `K` invocations within the
delivery. (Without such a bound a delivery need not end: two handlers that each unregister and
re-register themselves keep appending each other behind the cursor - see the example below.) -/
theorem send_terminates (beh : Behav) (ev K L : Nat) (s : State) (fuel : Nat) (hr : Reach beh fuel s)
    (hb : BoundedBeh beh s.trace.length K L) (fuel' : Nat)
    (hf : s.handlers.length + K * L + 1 ≤ fuel') :
    send beh fuel' ev s ≠ .error .fuel := by
  obtain ⟨h, hc⟩ := inv_reachable beh fuel s hr
  exact send_no_fuel beh ev K L s fuel' h hb hf

/-- two handlers that re-register themselves: the delivery exhausts any fuel -/
example : run (fun _ fn user _ => [{ kind := .reg, fn := fn, user := user, mask := 0 }, { kind := .reg, fn := fn, user := user, mask := 2 }])
    50 init [.call { kind := .reg, fn := 1, user := 1, mask := 2 }, .call { kind := .reg, fn := 2, user := 2, mask := 2 }, .send 2]
    = .error .fuel := by rfl


/-! ## The second implementation of the same contract: `src/event.c` (cache.c, cc608_decoder.c)

Model `ZvbiModel/Evl/Model.lean`.  Removal during a delivery is deferred (`remove` mark, `ref_count`);
deliveries may nest: a behaviour may issue `send` calls, to any depth.  `rv` says whether `_add`
clears the `remove` mark of a record it finds again; the real value is read off event.c by the
translator (`readdRevives`, false in the original code).  All theorems hold for both values unless
the hypothesis says otherwise. -/

/-- handler (0,1) removes handler (1,2) and registers it again; handler (1,2) sends a nested event 4 -/
def demoBehL : Evl.Behav := fun _ fn _ ev =>
  if fn = 0 then [.add 1 2 0 false, .add 1 2 2 false]
  else if fn = 1 ∧ ev = 2 then [.send 4] else []
def demoCallsL : List Evl.Call := [.add 0 1 2 false, .add 1 2 6 false, .add 2 7 6 false]

/-- Every state a history of calls on the second list can reach satisfies `Evl.Inv` (list ordered
by allocation, no freed record linked, per-delivery call order, ...) and is outside any delivery. -/
theorem evl_inv_reachable (rv : Bool) (beh : Evl.Behav) (fuel : Nat) (s : Evl.State)
    (hr : Evl.Reach rv beh fuel s) : Evl.Inv rv s ∧ s.refCount = 0 := by
  obtain ⟨cs, hcs⟩ := hr
  exact Evl.run_ok rv beh fuel cs Evl.init s (Evl.inv_init rv) hcs

example : Evl.Reach false demoBehL 20 Evl.init := ⟨[], rfl⟩

/-- `no_dead_deref` for event.c: no history - nested deliveries and arbitrary callbacks included -
makes `__vbi_event_handler_list_send` touch a record that was freed; a run can only stop for lack
of fuel. -/
theorem evl_no_dead_deref (rv : Bool) (beh : Evl.Behav) (fuel : Nat) (cs : List Evl.Call) (c : Nat) :
    Evl.run rv beh fuel Evl.init cs ≠ .error (.deadDeref c) := by
  intro h
  cases Evl.run_error rv beh fuel cs Evl.init _ (Evl.inv_init rv) h

example : (Evl.run false demoBehL 40 Evl.init (demoCallsL ++ [.send 2])).toOption.map
    (fun s => (Evl.ids s.list, s.refCount)) = some ([0, 2], 0) := by decide

/-- `delivery_at_most_once_in_order` for event.c: every delivery (numbered `d`; nested ones have
their own numbers) invokes records in strictly increasing id order - nobody twice, registration
order - whatever the callbacks do, including sending nested events. -/
theorem evl_delivery_at_most_once_in_order (rv : Bool) (beh : Evl.Behav) (fuel : Nat) (s : Evl.State)
    (hr : Evl.Reach rv beh fuel s) (d : Nat) : (Evl.callsOf d s.trace).Pairwise (· < ·) :=
  (evl_inv_reachable rv beh fuel s hr).1.ordered d

/-- delivery 0 (event 2) calls records 0 and 2 - record 1 was removed by record 0's callback and
its re-registration is lost (F50, original code) - and never the removed record -/
example : (Evl.run false demoBehL 40 Evl.init (demoCallsL ++ [.send 2])).toOption.map
    (fun s => (Evl.callsOf 0 s.trace, Evl.callsOf 1 s.trace)) = some ([0, 2], []) := by decide
/-- with the repair (`rv = true`) record 1 is called, and its callback's nested delivery 1 (event 4)
calls record 2 -/
example : (Evl.run true demoBehL 40 Evl.init (demoCallsL ++ [.send 2])).toOption.map
    (fun s => (Evl.callsOf 0 s.trace, Evl.callsOf 1 s.trace)) = some ([0, 1, 2], [2]) := by decide +kernel

/-- `delivery_exactly_once` for event.c, the at-least-once half, full strength: a top-level delivery of
`ev` invokes every registered handler that wants `ev` - with its own callback and user pointer and
the event type raised - unless an API call executed *before its turn* (`Evl.beforeTurn`: before the
first invocation, by this delivery, of a record with the same or a larger id; calls made by any
callback at any nesting depth count) disturbs it (`Evl.disturbs`: removes it, gives it a mask
without `ev`, or is a remove_by_event). -/
theorem evl_delivery_complete_full (rv : Bool) (beh : Evl.Behav) (fuel ev : Nat) (s s' : Evl.State)
    (hr : Evl.Reach rv beh fuel s) (hs : Evl.exec rv beh fuel s (.send ev) = .ok s')
    (r : Evl.Rec) (hrm : r ∈ s.list) (hmask : r.mask &&& ev ≠ 0)
    (hq : Evl.Quiet ev r (Evl.beforeTurn s.nextDid r.id (Evl.newPart s s'))) :
    Evl.Entry.call s.nextDid r.id r.fn r.user ev ∈ Evl.newPart s s' := by
  obtain ⟨h, hrc⟩ := evl_inv_reachable rv beh fuel s hr
  exact Evl.send_complete_full rv beh fuel ev s s' h hrc hs r hrm hmask hq

/-- corollary: a handler that no API call disturbs during the whole delivery is invoked -/
theorem evl_delivery_complete_untouched (rv : Bool) (beh : Evl.Behav) (fuel ev : Nat) (s s' : Evl.State)
    (hr : Evl.Reach rv beh fuel s) (hs : Evl.exec rv beh fuel s (.send ev) = .ok s')
    (r : Evl.Rec) (hrm : r ∈ s.list) (hmask : r.mask &&& ev ≠ 0)
    (hq : Evl.Quiet ev r (Evl.newPart s s')) :
    Evl.Entry.call s.nextDid r.id r.fn r.user ev ∈ Evl.newPart s s' := by
  obtain ⟨h, hrc⟩ := evl_inv_reachable rv beh fuel s hr
  exact Evl.send_complete rv beh fuel ev s s' h hrc hs r hrm hmask hq

/-- record 2 is touched by nobody during the demo delivery and is called -/
example : (Evl.run false demoBehL 40 Evl.init (demoCallsL ++ [.send 2])).toOption.map
    (fun s => s.trace.contains (.call 0 2 2 7 2)) = some true := by decide

/-- `removed_never_called` for event.c: no record is invoked after it was freed, freed records are
never linked again, and - original code - no record is invoked after an API call removed it
(this is what the `!eh->remove` test of the delivery loop is for). -/
theorem evl_removed_never_called (rv : Bool) (beh : Evl.Behav) (fuel : Nat) (s : Evl.State)
    (hr : Evl.Reach rv beh fuel s) :
    Evl.NoCallAfterFree s.trace ∧ (∀ x, Evl.Entry.free x ∈ s.trace → x ∉ Evl.ids s.list) ∧
    (rv = false → Evl.NoCallAfterUnreg s.trace) := by
  obtain ⟨h, _⟩ := evl_inv_reachable rv beh fuel s hr
  exact ⟨h.ncaf, fun x hx => (h.freedDead x hx).1, h.ncau⟩

example : (Evl.run false demoBehL 40 Evl.init (demoCallsL ++ [.send 2])).toOption.map
    (fun s => (s.trace.contains (.unreg 1), s.trace.contains (.free 1))) = some (true, true) := by decide

/-- deferred removal completes: between top-level calls no record is marked for removal. -/
theorem evl_idle_clean (rv : Bool) (beh : Evl.Behav) (fuel : Nat) (s : Evl.State)
    (hr : Evl.Reach rv beh fuel s) : ∀ r ∈ s.list, r.remove = false :=
  let h := evl_inv_reachable rv beh fuel s hr
  h.1.idleClean h.2

/-- `mask_union` for event.c, the direction that matters: every bit a registered handler asks for
is in `el->event_mask`, so the early return of `send` never drops an event somebody wants. -/
theorem evl_mask_superset (rv : Bool) (beh : Evl.Behav) (fuel : Nat) (s : Evl.State)
    (hr : Evl.Reach rv beh fuel s) :
    ∀ r ∈ s.list, ∀ b, r.mask &&& b ≠ 0 → s.eventMask &&& b ≠ 0 := by
  obtain ⟨h, hrc⟩ := evl_inv_reachable rv beh fuel s hr
  intro r hr b hb
  exact h.maskSup r hr (h.idleClean hrc r hr) b hb

/-- ... but not the other direction: `event_mask` can keep bits of handlers that are gone (a call
made during a delivery counts the masks of records already marked, and the sweep does not
recompute). Harmless (only the early return uses it); recorded as a witness, for both `rv`. -/
theorem evl_mask_union_counterexample (rv : Bool) :
    ∃ beh cs s, Evl.run rv beh 20 Evl.init cs = .ok s ∧
      s.eventMask ≠ s.list.foldr (fun r a => r.mask ||| a) 0 := by
  refine ⟨fun _ fn _ _ => if fn = 0 then [.add 1 1 0 false, .add 2 2 8 false] else [],
    [.add 0 0 2 false, .add 1 1 4 false, .send 2], ?_⟩
  have h : Evl.okAnd (Evl.run rv (fun _ fn _ _ => if fn = 0 then [.add 1 1 0 false, .add 2 2 8 false] else [])
      20 Evl.init [.add 0 0 2 false, .add 1 1 4 false, .send 2])
      (fun s => decide (s.eventMask ≠ s.list.foldr (fun r a => r.mask ||| a) 0)) = true := by
    cases rv <;> decide
  obtain ⟨s, hs, hp⟩ := Evl.okAnd_spec h
  exact ⟨s, hs, of_decide_eq_true hp⟩

/-- F50 (was C11-F2; fixed in /repo by commit ff327ee, replay corpus/C11/evl-readd-lost.ops): with the
original `_add` (`rv = false` only) a handler that a callback removes and registers again during a
delivery is lost: `_add` finds the record already marked `remove`, updates its mask, returns it as
success - and the sweep at the end of the delivery frees it.  After the delivery handler (1,2) is
not registered although the last call made for it was a successful `_add`. -/
theorem readd_in_delivery_lost_counterexample :
    ∃ s, Evl.run false demoBehL 40 Evl.init (demoCallsL ++ [.send 2]) = .ok s ∧
      (Evl.Entry.api (.add 1 2 2 false)) ∈ s.trace ∧ ∀ r ∈ s.list, ¬ (r.fn = 1 ∧ r.user = 2) := by
  have h : Evl.okAnd (Evl.run false demoBehL 40 Evl.init (demoCallsL ++ [.send 2]))
      (fun s => decide ((Evl.Entry.api (.add 1 2 2 false)) ∈ s.trace ∧ ∀ r ∈ s.list, ¬ (r.fn = 1 ∧ r.user = 2))) = true := by
    decide
  obtain ⟨s, hs, hp⟩ := Evl.okAnd_spec h
  exact ⟨s, hs, of_decide_eq_true hp⟩

/-- `evl_readd_in_delivery_kept` - the positive statement for the code as it is now (`readdRevives`,
read off event.c by the translator, is `true`; the proof's `rfl` fails, and the check reports it,
should the repair ever be lost): in any state - idle or in the middle of a (nested) delivery, the
handler unknown, registered, or already marked for removal - removing a handler and registering it
again leaves it linked, *not* marked for removal, with the new mask. -/
theorem evl_readd_in_delivery_kept (s : Evl.State) (fn user m : Nat) (hm : m ≠ 0) :
    ∃ r ∈ (Evl.apiAdd readdRevives fn user m false (Evl.apiAdd readdRevives fn user 0 false s)).list,
      r.fn = fn ∧ r.user = user ∧ r.mask = m ∧ r.remove = false := by
  have hflag : readdRevives = true := rfl
  rw [hflag]
  exact Evl.apiAdd_registers fn user m hm _

/-- ... and it stays registered: whatever is executed afterwards (further calls of the callbacks,
nested deliveries, the end of the delivery with its sweep of marked records), a linked unmarked
handler that wants `ev` remains one as long as no executed API call disturbs it. -/
theorem evl_kept_while_undisturbed (rv : Bool) (beh : Evl.Behav) (fuel ev : Nat) (r : Evl.Rec)
    (s s' : Evl.State) (c : Evl.Call) (h : Evl.Inv rv s) (hk : Evl.Kept ev r s)
    (hs : Evl.exec rv beh fuel s c = .ok s') (hq : Evl.Quiet ev r (Evl.newPart s s')) : Evl.Kept ev r s' :=
  (Evl.kexec_kloop rv beh ev r fuel).1 s c s' h hk hs hq

/-- the demo history on the current model: handler (1,2) is still registered after the delivery -/
example : (Evl.run true demoBehL 40 Evl.init (demoCallsL ++ [.send 2])).toOption.map
    (fun s => s.list.filter (fun r => r.fn = 1 ∧ r.user = 2)) = some [⟨1, 1, 2, 2, false⟩] := by decide +kernel

end Zvbi.Props.C11
