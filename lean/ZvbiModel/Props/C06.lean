import ZvbiModel.Mux.LemmasStream
/-!
# C06 - DVB VBI multiplexer output is standard-conformant and demultiplexes to its input

Property theorems only.  Model: `Mux/Model.lean` (src/dvb_mux.c); reader written from the
standards: `Mux/Spec.lean` (`EnParse`); helper lemmas: `Mux/Lemmas*.lean`.

Scope of the theorems: sliced services (Teletext B, VPS, WSS 625, Caption 625) through
`vbi_dvb_multiplex_sliced`'s core and `vbi_dvb_mux_feed`, PES and TS mode, every
configuration reachable through the API, every history of accepted and rejected frames.
Frames are `vbi_sliced` arrays (`Sliced.WF`: 32-bit id/line, 56 data bytes) without raw
line requests (`VBI_SLICED_VBI_625`; `raw == NULL`).  Later rounds: the coroutine `vbi_dvb_mux_cor`
and the round trip through the library's own demultiplexer are in `Props/C06Join.lean`, frames with
raw lines (and the statements below without the `NoRaw` hypothesis) in `Props/C06Raw.lean`.
-/
namespace Zvbi.Props.C06
open Zvbi.Mux Zvbi.Mux.EnParse

/-- `encode_stuffing` always completes the packet: for every region of data units `us`, every
    `p_left` and both formats (under the documented preconditions: a multiple of 46 in the
    fixed-length format; a preceding data unit of at most 256 bytes when one single byte is left)
    it succeeds, writes exactly `p_left` bytes, and the region then reads as the old units - the
    last one extended by one stuffing byte in the 1-byte case - followed by legal stuffing units
    (this covers the 257 k + 1 case `FF FE .. | FF 00`). -/
theorem stuffing_completes (us : List DataUnit) (pLeft : Nat) (fixed : Bool)
    (hfix : fixed = true → pLeft % 46 = 0)
    (hone : fixed = false → pLeft = 1 → us ≠ [] ∧ lastSize us ≤ 256) :
    ∃ out us₁ st, encodeStuffing (encUnits us) pLeft (lastSize us) fixed = .ok out
      ∧ out.length = (encUnits us).length + pLeft
      ∧ parseUnits out = some (us₁ ++ st)
      ∧ (us₁ = us ∨ (pLeft = 1 ∧ us₁ = padLast us))
      ∧ ∀ u ∈ st, IsStuffing fixed u := by
  obtain ⟨us₁, st, h1, h2, h3, h4⟩ := encodeStuffing_spec us pLeft fixed hfix hone
  exact ⟨_, us₁, st, h1, h2, parseUnits_encUnits _, h3, h4⟩

example : (encodeStuffing [0xC4, 3, 0xF7, 1, 3] 1 5 false).toOption = some [0xC4, 4, 0xF7, 1, 3, 0xFF] := by decide
example : (encodeStuffing [] 258 0 false).toOption.map (fun b => (b.take 3, b.drop 255)) =
    some ([0xFF, 254, 0xFF], [0xFF, 0xFF, 0]) := by decide +kernel

/-- Every configuration reachable through the API keeps the packet size bounds multiples of 184
    within 184..65504 and a legal data_identifier. -/
theorem config_invariant (ops : List Op) (m : Mux) (h : CfgOK m.cfg) : CfgOK (run m ops).1.cfg := by
  induction ops generalizing m with
  | nil => exact h
  | cons op ops ih => exact ih _ (step_cfg m op h).1

/-- An accepted frame (PES mode) is handed to the callback as exactly one packet which the
    independent reader accepts: start code, stream_id, length field = size - 6, 45-byte header with
    PTS, data_identifier, data units that fill the packet exactly, legal stuffing; the total size is
    a multiple of 184 within the configured bounds. -/
theorem mux_wellformed (m : Mux) (hc : CfgOK m.cfg) (hp : m.cfg.pid = 0) (lines : List Sliced) (mask pts : Nat)
    (hwf : ∀ s ∈ lines, Sliced.WF s) (hnr : NoRaw lines) (hok : (feed m lines mask pts 0).2.ok = true) :
    ∃ pes p, (feed m lines mask pts 0).2.calls = [some pes] ∧ parsePes pes = some p
      ∧ p.size = pes.length ∧ pes.length % 184 = 0 ∧ m.cfg.minSize ≤ pes.length ∧ pes.length ≤ m.cfg.maxSize := by
  obtain ⟨pes, hg, hpes, _⟩ := feed_accepted m lines mask pts hok
  obtain ⟨h1, h2, h3, h4, _⟩ := generatePes_ok m.cfg hc lines mask pts hwf hnr pes hg
  exact ⟨pes, _, (hpes hp).1, h1, rfl, h2, h3, h4⟩

/-- The packet of an accepted frame carries exactly the lines selected by the service mask, in
    order, with their line numbers, services and payload bits (Teletext, WSS and Caption bytes
    bit-reversed into transmission order and back, VPS as is), the PTS modulo 2^33 and the
    configured data_identifier; and every selected line was a permitted service/line combination. -/
theorem mux_carries_input (m : Mux) (hc : CfgOK m.cfg) (lines : List Sliced) (mask pts : Nat)
    (hwf : ∀ s ∈ lines, Sliced.WF s) (hnr : NoRaw lines) (hok : (feed m lines mask pts 0).2.ok = true) :
    ∃ pes p, generatePes m.cfg lines mask pts = .ok (pes, []) ∧ parsePes pes = some p
      ∧ p.lines = sent mask lines ∧ p.pts = pts % 2 ^ 33 ∧ p.dataId = m.cfg.dataId
      ∧ (∀ s ∈ lines, s.id &&& mask ≠ 0 → Permitted s)
      ∧ (m.cfg.pid = 0 → FeedOut.allBytes (feed m lines mask pts 0).2 = pes)
      ∧ (m.cfg.pid ≠ 0 → FeedOut.allBytes (feed m lines mask pts 0).2 = (tsPackets m.cfg.pid m.cc pes).flatten) := by
  obtain ⟨pes, hg, hpes, hts⟩ := feed_accepted m lines mask pts hok
  obtain ⟨h1, _, _, _, h5⟩ := generatePes_ok m.cfg hc lines mask pts hwf hnr pes hg
  refine ⟨pes, _, hg, h1, rfl, rfl, rfl, h5, ?_, ?_⟩
  · intro hp; simp [FeedOut.allBytes, (hpes hp).1]
  · intro hp; simp only [FeedOut.allBytes, (hts hp).1, filterMap_id_map_some]

/-- A frame the multiplexer rejects (line order, service, line number, size) causes no callback
    and no output, and the multiplexer answers every later frame exactly as if the rejected frame
    had never been fed. -/
theorem mux_rejects_atomically (m : Mux) (lines : List Sliced) (mask pts : Nat)
    (hrej : (feed m lines mask pts 0).2.ok = false) :
    (feed m lines mask pts 0).2.calls = [] ∧ FeedOut.allBytes (feed m lines mask pts 0).2 = []
      ∧ ∀ lines' mask' pts' k, feed (feed m lines mask pts 0).1 lines' mask' pts' k = feed m lines' mask' pts' k := by
  obtain ⟨h1, h2⟩ := feed_rejected m lines mask pts hrej
  refine ⟨h1, by simp [FeedOut.allBytes, h1], ?_⟩
  intro lines' mask' pts' k
  rw [h2, feed_dropPending]

/-- The TS packets of one PES packet: 188 bytes each, sync byte, the PID, payload_unit_start on the
    first packet only, payload only, continuity counters consecutive modulo 16 starting at the
    multiplexer's counter; their payloads are the PES packet. -/
theorem ts_packets_of_pes (pid : Nat) (hpid : pid < 0x2000) (n cc c : Nat) (pes rest : Bytes)
    (hl : pes.length = 184 * n) (hc : c % 16 = cc % 16) :
    tsGroup pid n true c ((tsLoop pid n true cc pes).flatten ++ rest) = some (pes, rest) :=
  tsGroup_tsLoop pid hpid n true cc c pes rest hl hc

/-- TS mode, every history of frames (accepted or rejected) and configuration changes from
    `vbi_dvb_ts_mux_new (pid)`: the concatenated output is a TS stream of that PID whose continuity
    counter runs consecutively from 0 through the whole history and ends at the multiplexer's
    counter, with payload_unit_start exactly where a PES packet begins; it carries one well-formed
    PES packet per accepted frame, in order, with that frame's PTS, data_identifier and lines. -/
theorem ts_continuity (pid : Nat) (m : Mux) (hnew : newTs pid = some m) (ops : List Op) (hops : ∀ op ∈ ops, Op.OK op) :
    ∃ ps, tsStream pid 0 (run m ops).2.1 = some (ps, (run m ops).1.cc % 16)
      ∧ ps.map Pes.content = (run m ops).2.2 := by
  have hcfg := cfgOK_newTs pid m hnew
  unfold newTs at hnew
  split at hnew
  · cases hnew
  · rename_i hr
    injection hnew with hm
    subst hm
    exact ts_history ops hops _ hcfg (by show pid ≠ 0; omega) (by show pid < 0x2000; omega) 0 rfl

/-- Round trip against the independent reader, PES mode, every history from
    `vbi_dvb_pes_mux_new ()`: reading the concatenated output yields exactly the accepted frames,
    in order, each as one packet with its PTS (mod 2^33), data_identifier and selected lines;
    rejected frames leave no trace. -/
theorem mux_demux_roundtrip (ops : List Op) (hops : ∀ op ∈ ops, Op.OK op) :
    ∃ ps, pesStream (run newPes ops).2.1 = some ps ∧ ps.map Pes.content = (run newPes ops).2.2 :=
  pes_history ops hops newPes cfgOK_default rfl

/-- the same for a multiplexer in any reachable configuration (after any earlier history) -/
theorem mux_demux_roundtrip_from (m : Mux) (hc : CfgOK m.cfg) (hp : m.cfg.pid = 0) (ops : List Op)
    (hops : ∀ op ∈ ops, Op.OK op) :
    ∃ ps, pesStream (run m ops).2.1 = some ps ∧ ps.map Pes.content = (run m ops).2.2 :=
  pes_history ops hops m hc hp

/-! non-vacuity: frames are accepted and rejected, and the statements above speak about real bytes -/
def exLine (id line : Nat) : Sliced := ⟨id, line, List.replicate 56 0x15⟩
example : (feed newPes [exLine 3 7, exLine 4 16, exLine 0x400 23] 0xFFFFFFFF 5 0).2.ok = true := by decide +kernel
example : (feed newPes [exLine 3 8, exLine 3 7] 0xFFFFFFFF 5 0).2.ok = false := by decide +kernel
example : (feed newPes [exLine 4 17] 0xFFFFFFFF 5 0).2.ok = false := by decide +kernel
example : ((run newPes [.frame [exLine 3 7] 0xFFFFFFFF (2 ^ 33 + 9), .frame [exLine 3 6] 3 1, .dataId 0x99,
    .frame [exLine 0x18 21] 0xFFFFFFFF 2]).2.2.map (fun s => (s.pts, s.dataId, s.lines.length)))
    = [(9, 0x10, 1), (2, 0x99, 1)] := by decide +kernel
example : ((newTs 0x123).map fun m => (run m [.frame [exLine 3 7] 0xFFFFFFFF 1, .frame [exLine 3 7] 0xFFFFFFFF 2]).1.cc)
    = some 2 := by decide +kernel
example : Op.OK (.frame [exLine 3 7] 0xFFFFFFFF 1) := by
  refine ⟨?_, ?_⟩ <;> intro s hs <;> simp only [List.mem_singleton] at hs <;> subst hs
  · exact ⟨by decide, by decide, by decide, by decide⟩
  · decide

end Zvbi.Props.C06
