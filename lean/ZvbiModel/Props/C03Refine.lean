import ZvbiModel.Ttx.CacheJoin5
/-!
# C03 x C10, part 6 - whole-history refinement of the decoder's page list by the cache.c model (partial)

`Props/C03Join.lean` states the unconditional theorem (`C03Join.ttx_refined_by_cache_full`, an unproved `def`): run next
to the decoder (C03, `Zvbi.Ttx`) a cache.c state (C10, `Zvbi.Cache`) on which every operation of the decoder's trace of
cache operations is mirrored by the calls the decoder makes (`C03Join.mirrorOp`: look-up + release; page type write +
store + release; `vbi_chsw_reset`); then the retrievable entries of the decoder's network are the decoder's page list
(`C10Ttx.Sim`) after every history.

Proved here, by induction along the mirrored trace (`Ttx/CacheJoin1.lean` .. `CacheJoin5.lean`), with the joint invariant
"the cache.c state satisfies the C10 invariant (`Cache.Good`), the decoder's network is on the cache's list and held by the
decoder (`Cache.Held`), and `Sim`".  The C10 theorems `sim_get` / `sim_put` are stated for states reachable from `init` by
`Op`s; they only use `Good`, which every `mirrorOp` keeps, so their proofs are repeated for `Good` states
(`CacheJoin.sim_get'`, `sim_put'`) instead of exhibiting an `Op` list for the mirrored states.

* `lookup_release_and_switch_simulated`: look-up + `cache_page_unref` and `vbi_chsw_reset` keep the joint invariant
  UNCONDITIONALLY.  References: the release right after a look-up changes no retrievable entry - the network is held, so
  the zombie-network check deletes nothing, and the memory the page gives back is what its reference had taken, so
  `delete_surplus_pages` is not entered.  Network found: `Held` is carried along; the network handed out by
  `_vbi_cache_add_network` is held.
* `store_simulated`: page type write + store + release keep it when the page type is a `uint8_t`, the page number is in
  0x100..0x8FF and there is room for the page.  Page type agreement is local (`Op.ptype` just before the store); with room
  the call does not fail (the death row holds at most the replaced version, no struct is reused), keeps every network, and
  hands out the newly inserted non-zombie page (`Cache.putPageF_after`), whose release then changes nothing.
* `ttx_refined_by_cache_partial`: the conclusion of the full statement for EVERY history; the page number range of every
  store is discharged from the decoder side (`C03.no_foreign_page_number`: the number is `mag8 * 256 + page` of an accepted
  header); two residual hypotheses remain, both about the trace `ops` the theorem provides.
* `mirror_is_op_run`, `mirrored_versions_bounded` (toward residual hypothesis 1): under the same hypotheses the mirrored
  state is a history of the C10 line protocol from `vbi_cache_new` (explicit `Op`s: `.get` + `.unref`; `.ptype` + `.put` +
  `.unref`; `.chsw`), so every C10 theorem about reachable states applies to it - e.g. at most 256 cached versions per
  page number (`C10Evict.version_bound_repaired`, current = repaired source shape).
* `memory_never_short_while_few_pages` (toward residual hypothesis 1): every `mirrorOp` keeps the C10 invariant and the
  1 GiB limit of `vbi_cache_new`, unconditionally; so `MemNeverShort` holds for every trace along which the mirrored
  cache holds at most 0x800 x 80 pages at each store (`CacheJoin.PagesFew`) - residual hypothesis 1 is reduced to counting
  pages.

## What remains open

1. `CacheJoin.MemNeverShort enc Cache.init.addNetwork ops` - at every store of the mirrored trace
   `memory_used + cache_page_size (p) <= memory_limit` (2^30 in C).  GENUINELY open.  When memory is short cache.c evicts
   pages of its choice, which the decoder's list (it never evicts) does not follow, so without a bound on what the decoder
   can have stored the full statement may even be false for exotic histories.  On the source shape as found with finding
   F17 it IS unbounded (`C10.page_bound_counterexample`: one more copy per pair of stores); the current source has the
   repaired shape (`putReplacesAllVersions = true`), for which `C10Evict.version_bound_repaired` gives at most 256 versions
   per page number - too coarse: 0x800 x 256 x 4504 bytes exceed 2^30; the bound cache.c asserts (80 per page number,
   `Cache.mem_room_0_2`) needs an invariant on the sub-page numbers the key rule stores, plus "all pages belong to the one
   network" across `vbi_chsw_reset` (`n_networks_limit` = 1: the old network is recycled).  Not done.
2. every page type the decoder passes to a store is below 256 (`uint8_t page_type` in C; `mirrorOp` writes it through
   `Op.ptype`, which truncates like the C member).  A property of the decoder model alone (`Net.stat` is written by the
   MIP / BTT / MPT parsers and `store_lop`); the trace of `Ttx/CacheTrace.lean` (`run_reach`) does not carry it.  Needs a
   statistics invariant over `Ttx.step`, no new idea.

Property theorems only (models `ZvbiModel/Ttx/Model.lean`, `ZvbiModel/Cache/Model.lean`).
-/
namespace Zvbi.Props.C03Refine
open Zvbi.Ttx Zvbi.Ttx.Spec Zvbi.Gen Zvbi.Gen.Cache
open Zvbi.Props.C03Join (mirrorOp mirror)
open Zvbi.CacheJoin (MemNeverShort)

/-- Let a cache.c state `acc.1` satisfy the C10 invariant, let the decoder's network `acc.2` be on its list and held, and
    let its retrievable entries of that network be the decoder's page list `c`.  Then all this holds again after the
    decoder's look-up (`_vbi_cache_get_page` with ANY arguments, followed by `cache_page_unref` of the page found: the
    release changes no retrievable entry) and after `vbi_chsw_reset` (the decoder continues on the network handed out,
    whose set of retrievable entries is empty like the decoder's list) - without any side condition. -/
theorem lookup_release_and_switch_simulated (enc : Page → Nat) (acc : Zvbi.Cache.State × Nat) (c : List Page)
    (hg : Zvbi.Cache.Good acc.1) (hh : Zvbi.Cache.Held acc.1 acc.2) (hs : C10Ttx.Sim acc.2 enc c acc.1) :
    (∀ pgno subno mask : Nat,
      Zvbi.Cache.Good (mirrorOp enc acc (.get pgno subno mask)).1
      ∧ Zvbi.Cache.Held (mirrorOp enc acc (.get pgno subno mask)).1 (mirrorOp enc acc (.get pgno subno mask)).2
      ∧ C10Ttx.Sim (mirrorOp enc acc (.get pgno subno mask)).2 enc (applyOp c (.get pgno subno mask))
          (mirrorOp enc acc (.get pgno subno mask)).1)
    ∧ (Zvbi.Cache.Good (mirrorOp enc acc .clear).1
      ∧ Zvbi.Cache.Held (mirrorOp enc acc .clear).1 (mirrorOp enc acc .clear).2
      ∧ C10Ttx.Sim (mirrorOp enc acc .clear).2 enc (applyOp c .clear) (mirrorOp enc acc .clear).1) := by
  have j : Zvbi.CacheJoin.J enc acc c := ⟨hg, hh, hs⟩
  refine ⟨fun pgno subno mask => ?_, ?_⟩
  · have := Zvbi.CacheJoin.step_get enc j pgno subno mask
    exact ⟨this.good, this.held, this.sim⟩
  · have := Zvbi.CacheJoin.step_clear enc j
    exact ⟨this.good, this.held, this.sim⟩

/-- non-vacuity: the start of every mirrored trace (`vbi_cache_new`, the decoder's first network) meets the three
    hypotheses with the empty list; and a look-up that finds a page is followed by a release that really happens: after
    store + release + look-up + release of page 123 the page is cached, unreferenced, and the memory it occupies is
    accounted for again. -/
example :
    Zvbi.Cache.Good Zvbi.Cache.init.addNetwork.1
    ∧ Zvbi.Cache.Held Zvbi.Cache.init.addNetwork.1 Zvbi.Cache.init.addNetwork.2
    ∧ C10Ttx.Sim Zvbi.Cache.init.addNetwork.2 (fun _ => 0) [] Zvbi.Cache.init.addNetwork.1
    ∧ ((mirror (fun _ => 0) [.put 1 { Page.zero with pgno := 0x123 }, .get 0x123 0 0]).1.pages.map
        fun q => (q.pgno, q.ref)) = [(0x123, 0)]
    ∧ (mirror (fun _ => 0) [.put 1 { Page.zero with pgno := 0x123 }, .get 0x123 0 0]).1.memUsed
        = Zvbi.Cache.pageSize 0 0 0 := by
  have j := Zvbi.CacheJoin.J_init (fun _ => 0)
  refine ⟨j.good, j.held, j.sim, ?_, ?_⟩ <;> decide +kernel

/-- Same three hypotheses; the decoder stores page `p` with page type `pt` (`mirrorOp`: the type is written to the
    statistics of the network, `_vbi_cache_put_page`, `cache_page_unref` of the page stored).  If the page type is below
    256 (`uint8_t`), the page number in 0x100..0x8FF and memory not short (`memory_used + cache_page_size (p) <=
    memory_limit`), then the store call returns, and the three hold again afterwards for the decoder's list after ITS store
    (replacement of the version(s) under the same key rule on both sides; a page number `xFF` is refused by both). -/
theorem store_simulated (enc : Page → Nat) (acc : Zvbi.Cache.State × Nat) (c : List Page)
    (hg : Zvbi.Cache.Good acc.1) (hh : Zvbi.Cache.Held acc.1 acc.2) (hs : C10Ttx.Sim acc.2 enc c acc.1)
    (pt : Nat) (p : Page) (hpt : pt < 256) (hrange : 0x100 ≤ p.pgno ∧ p.pgno ≤ 0x8FF)
    (hroom : acc.1.memUsed + Zvbi.Cache.pageSize p.function p.x26 p.x28 ≤ acc.1.memLimit) :
    (∀ e, (Zvbi.Cache.stepCur acc.1 (.ptype acc.2 p.pgno pt)).1.putPageF putReplacesAllVersions acc.2
        ⟨p.pgno, p.subno, p.function, p.x26, p.x28, enc (Zvbi.Cache.tstored pt p)⟩ ≠ .error e)
    ∧ Zvbi.Cache.Good (mirrorOp enc acc (.put pt p)).1
    ∧ Zvbi.Cache.Held (mirrorOp enc acc (.put pt p)).1 (mirrorOp enc acc (.put pt p)).2
    ∧ C10Ttx.Sim (mirrorOp enc acc (.put pt p)).2 enc (applyOp c (.put pt p)) (mirrorOp enc acc (.put pt p)).1 := by
  have j : Zvbi.CacheJoin.J enc acc c := ⟨hg, hh, hs⟩
  have hok := Zvbi.CacheJoin.storeOk_of_room enc j pt p hpt hrange hroom
  have := Zvbi.CacheJoin.step_put enc j pt p hok
  refine ⟨fun e he => ?_, this.good, this.held, this.sim⟩
  have h4 := hok.2.2.2
  rw [he] at h4
  exact h4

/-- non-vacuity: the first store into the new cache has room (the other hypotheses: example above), and so has a second
    store of the same page (replacement of the cached version); both sides then hold one version -/
example :
    Zvbi.Cache.init.addNetwork.1.memUsed + Zvbi.Cache.pageSize 0 0 0 ≤ Zvbi.Cache.init.addNetwork.1.memLimit
    ∧ (mirror (fun _ => 0) [.put 1 { Page.zero with pgno := 0x123, subno := 0x2359 }]).1.memUsed
        + Zvbi.Cache.pageSize 0 0 0 ≤ (mirror (fun _ => 0) [.put 1 { Page.zero with pgno := 0x123, subno := 0x2359 }]).1.memLimit
    ∧ (mirror (fun _ => 0) [.put 1 { Page.zero with pgno := 0x123, subno := 0x2359 },
        .put 1 { Page.zero with pgno := 0x123, subno := 0x2359 }]).1.pages.length = 1
    ∧ ([CacheOp.put 1 { Page.zero with pgno := 0x123, subno := 0x2359 },
        .put 1 { Page.zero with pgno := 0x123, subno := 0x2359 }].foldl applyOp []).length = 1 := by
  decide +kernel

/-- PARTIAL form of `C03Join.ttx_refined_by_cache_full`: over every history of packets (any bytes, handler on or off, any
    abstraction `enc` of the page content) the decoder's page list has a trace `ops` of cache operations (as in
    `C03Join.cache_evolves_by_cache_operations`: the list is the empty list with `ops` applied, every store in `ops` is
    announced by an `Event.put` of the history), every store of which is of a page number in 0x100..0x8FF, such that: IF
    every page type passed to a store is below 256 and memory is never short along the trace mirrored on the cache.c model
    (`MemNeverShort`; the two residual hypotheses, see the file header), THEN the cache.c model driven by the calls the
    decoder makes ends in a state that satisfies the C10 invariant, still has the decoder's network on its list, held, and
    whose retrievable entries of that network are exactly the decoder's page list. -/
theorem ttx_refined_by_cache_partial (on : Bool) (ps : List Packet) (enc : Page → Nat) :
    ∃ ops : List CacheOp,
      (run (init.enable on) ps).1.net.cache = ops.foldl applyOp [] ∧
      (∀ pt p, CacheOp.put pt p ∈ ops → Event.put p ∈ (run (init.enable on) ps).2 ∧ 0x100 ≤ p.pgno ∧ p.pgno ≤ 0x8FF) ∧
      ((∀ pt p, CacheOp.put pt p ∈ ops → pt < 256) →
        MemNeverShort enc Zvbi.Cache.init.addNetwork ops →
        Zvbi.Cache.Good (mirror enc ops).1 ∧ Zvbi.Cache.Held (mirror enc ops).1 (mirror enc ops).2 ∧
        C10Ttx.Sim (mirror enc ops).2 enc (run (init.enable on) ps).1.net.cache (mirror enc ops).1) := by
  obtain ⟨ops, h1, h2⟩ := C03Join.cache_evolves_by_cache_operations on ps
  have hr : ∀ pt p, CacheOp.put pt p ∈ ops → 0x100 ≤ p.pgno ∧ p.pgno ≤ 0x8FF := by
    intro pt p hp
    obtain ⟨_, pk, _, m, hk⟩ := h2 pt p hp
    exact Zvbi.CacheJoin.hdrKey_range hk
  refine ⟨ops, h1, fun pt p hp => ⟨(h2 pt p hp).1, hr pt p hp⟩, fun hty hmem => ?_⟩
  have := Zvbi.CacheJoin.J_trace_room enc ops _ _ (Zvbi.CacheJoin.J_init enc)
    (fun pt p hp => ⟨hty pt p hp, hr pt p hp⟩) hmem
  rw [h1]
  exact ⟨this.good, this.held, this.sim⟩

/-- non-vacuity: both residual hypotheses hold on the two-header history of `C03Join` (header of page 123 / 2359, then
    a header of page 120 of the same magazine), whose trace is: look-up, store of page 123 with page type 1, look-up; the
    mirrored state then holds exactly the entry 123 / 0. -/
example :
    let r := run (init.enable true) [C03.f21Tx, C03.f21Tx.set 2 21]
    let p := (r.2.filterMap fun e => match e with | Event.put q => some q | _ => none).getD 0 Page.zero
    let ops := [CacheOp.get 0x123 0x2359 0xFFFFFFFF, .put 1 p, .get 0x120 0x2359 0xFFFFFFFF]
    r.1.net.cache = ops.foldl applyOp []
    ∧ MemNeverShort (fun _ => 0) Zvbi.Cache.init.addNetwork ops
    ∧ ((mirror (fun _ => 0) ops).1.abs.map fun e => (e.net, e.pgno, e.subno)) = [(0, 0x123, 0)] := by
  decide +kernel

/-- ... and the page type hypothesis on that trace -/
example (p : Page) : ∀ pt q, CacheOp.put pt q ∈ [CacheOp.get 0x123 0x2359 0xFFFFFFFF, .put 1 p, .get 0x120 0x2359 0xFFFFFFFF]
    → pt < 256 := by
  intro pt q h
  simp at h
  omega

/-- Toward residual hypothesis 1.  For a trace `ops` whose stores have page types below 256 and page numbers in
    0x100..0x8FF and along which memory is never short, the mirrored cache.c state is a HISTORY of the cache.c model: the
    state after an explicit list of API calls (`Op`: `.addNet`, then per decoder operation `.get` + `.unref`, `.ptype` +
    `.put` + `.unref`, `.chsw`) from `vbi_cache_new`.  Hence every C10 theorem about reachable states holds of it. -/
theorem mirror_is_op_run (enc : Page → Nat) (ops : List CacheOp)
    (hty : ∀ pt p, CacheOp.put pt p ∈ ops → pt < 256 ∧ 0x100 ≤ p.pgno ∧ p.pgno ≤ 0x8FF)
    (hmem : MemNeverShort enc Zvbi.Cache.init.addNetwork ops) :
    ∃ l : List Zvbi.Cache.Op, (mirror enc ops).1 = Zvbi.Cache.runF putReplacesAllVersions Zvbi.Cache.init l :=
  Zvbi.CacheJoin.J_trace_run enc ops _ _ (Zvbi.CacheJoin.J_init enc) Zvbi.CacheJoin.opRun_init hty hmem

/-- non-vacuity: the list of API calls for one store -/
example :
    (mirror (fun _ => 0) [.put 1 { Page.zero with pgno := 0x123, subno := 0x2359 }]).1
      = Zvbi.Cache.runF putReplacesAllVersions Zvbi.Cache.init
          [.addNet, .ptype 0 0x123 1, .put 0 ⟨0x123, 0x2359, 0, 0, 0, 0⟩, .unref 0] := by
  decide +kernel

/-- ... in particular (current source: the repaired shape of `_vbi_cache_put_page`) the mirrored state holds at most 256
    cached versions of any one page number of any one network - the per-page-number half of a bound on what the decoder
    can have stored (the bound cache.c asserts, 80, and "all pages belong to the decoder's network" are still missing for
    `MemNeverShort`: 0x800 x 256 pages of `fullSize` bytes exceed 2^30). -/
theorem mirrored_versions_bounded (enc : Page → Nat) (ops : List CacheOp)
    (hty : ∀ pt p, CacheOp.put pt p ∈ ops → pt < 256 ∧ 0x100 ≤ p.pgno ∧ p.pgno ≤ 0x8FF)
    (hmem : MemNeverShort enc Zvbi.Cache.init.addNetwork ops) (nid pg : Nat) :
    (mirror enc ops).1.pages.countP (fun p => p.net = nid ∧ p.pgno = pg ∧ p.pri ≠ .zombie) ≤ 256 := by
  obtain ⟨l, e⟩ := mirror_is_op_run enc ops hty hmem
  rw [e]
  exact C10Evict.version_bound_repaired l nid pg

/-- non-vacuity: hypotheses as for `ttx_refined_by_cache_partial` (examples above); two stores of page 123 with sub-codes
    1 and 2 leave two cached versions of that page number -/
example :
    (mirror (fun _ => 0) [.put 1 { Page.zero with pgno := 0x123, subno := 1 },
        .put 1 { Page.zero with pgno := 0x123, subno := 2 }]).1.pages.countP
      (fun p => p.net = 0 ∧ p.pgno = 0x123 ∧ p.pri ≠ .zombie) = 2
    ∧ MemNeverShort (fun _ => 0) Zvbi.Cache.init.addNetwork [.put 1 { Page.zero with pgno := 0x123, subno := 1 },
        .put 1 { Page.zero with pgno := 0x123, subno := 2 }] := by
  decide +kernel

/-- Toward residual hypothesis 1: it is a matter of COUNTING pages.  For every trace of cache operations (no hypothesis on
    page types, page numbers, results of calls): if at each store the mirrored cache.c state holds at most 0x800 x 80
    pages (the bound cache.c asserts under CACHE_CONSISTENCY; every page takes at most `fullSize` = 4504 bytes), memory is
    never short along the mirrored trace.  (Every `mirrorOp` keeps the C10 invariant and the 1 GiB limit of
    `vbi_cache_new`.) -/
theorem memory_never_short_while_few_pages (enc : Page → Nat) (ops : List CacheOp)
    (hfew : Zvbi.CacheJoin.PagesFew enc Zvbi.Cache.init.addNetwork ops) :
    MemNeverShort enc Zvbi.Cache.init.addNetwork ops :=
  Zvbi.CacheJoin.memNeverShort_of_few enc ops _ Zvbi.CacheJoin.G_init hfew

/-- non-vacuity: the trace of the two-header history of `C03Join` holds few pages -/
example :
    let r := run (init.enable true) [C03.f21Tx, C03.f21Tx.set 2 21]
    let p := (r.2.filterMap fun e => match e with | Event.put q => some q | _ => none).getD 0 Page.zero
    Zvbi.CacheJoin.PagesFew (fun _ => 0) Zvbi.Cache.init.addNetwork
      [CacheOp.get 0x123 0x2359 0xFFFFFFFF, .put 1 p, .get 0x120 0x2359 0xFFFFFFFF] := by
  decide +kernel

end Zvbi.Props.C03Refine
