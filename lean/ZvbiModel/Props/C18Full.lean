import ZvbiModel.ProxyQ.Model
import ZvbiModel.ProxyQ.Spec
import ZvbiModel.ProxyQ.LemmasQueue
import ZvbiModel.ProxyQ.LemmasSpec
import ZvbiModel.ProxyQ.LiftBasic
import ZvbiModel.ProxyQ.LiftQueue
import ZvbiModel.ProxyQ.LiftCapture
import ZvbiModel.ProxyQ.LiftService
import ZvbiModel.ProxyQ.LiftLoop
/-!
# C18 at full strength: statements about the FULL daemon model, for all devices and all histories

`run cfg init ops` is the model of the whole daemon (`Model.lean`: sockets, CONNECT/SERVICE/CLOSE messages, service
negotiation, device open/close, the select loop, capture, overflow, flush) driven by an arbitrary history `ops` of
connect / service request / close request / socket close / socket credit / capture / flush / main-loop iteration,
for an arbitrary capture device `cfg` (what it supports at each strictness level, how many lines it delivers).
It is the model the correspondence check runs against the real daemon on every audit line.

All theorems below rest on `inv_reachable` (`ProxyQ/LiftLoop.lean`): every step of the daemon model decomposes
into the queue operations of `LemmasQueue.lean` (release, release loop, append, flush, join, leave) whose side
conditions hold, and the service invariants are re-established by every `vbi_proxyd_update_services`.

Two facts read from the C source by the translator enter the proofs (`LiftCapture.lean`): force_free compares
with the head saved before its loop (commit 5eee39a) and forward_data asserts `line_count <= max_lines` (commit
fd02c6e).  Reverting either changes `Generated/ProxyQLayout.lean` and the proofs stop checking.
-/
namespace Zvbi.Props.C18
open Zvbi.ProxyQ Zvbi.Gen.ProxyQ

/-! ## refcount_exact -/

/-- In every state the daemon model reaches - any device, any history of connects, service requests, captures,
socket credit, disconnects, flushes and main-loop iterations: the reference count of every queued buffer is the
number of client cursors at or before it, every cursor points into the queue or is NULL, the head buffer is held
by somebody (so a buffer is recycled exactly when its count reaches zero, from the head only), and
free + queued = allocated buffers. -/
theorem refcount_exact_full (cfg : Cfg) (ops : List Op) (s : State) (h : run cfg init ops = .ok s) :
    QInv s.dev.q (s.clients.map (·.backlog)) ∧ s.dev.free + s.dev.q.length = s.dev.allocated := by
  obtain ⟨hc, _⟩ := reach h
  refine ⟨?_, hc.alloc⟩
  rw [← views_backlog]; exact hc.q

def demoCfgF : Cfg := { scanning := 625, supp := fun _ => 0xFFFF, count := fun _ => 3 }

/-- two clients, client 0 stalled right after the handshake, twelve captured frames: the queue overflows -/
def overflowHistory : List Op :=
  [.conn 1 1 0, .credit 0 1040, .conn 1 1 0, .credit 1 1128, .iter, .iter, .iter, .iter, .iter, .iter] ++
  (List.range 12).flatMap (fun i => [Op.cap (1000 * (i + 1)) [⟨1, 7, i⟩] false, Op.iter])

/-- non-vacuity: that history reaches a state with two clients and a full queue (no free buffer), in which client 0
has lost frames to overflows -/
example : (match run demoCfgF init overflowHistory with
    | .ok s => s.clients.length == 2 && s.dev.q.length == 10 && s.dev.free == 0 &&
        s.clients.any (fun c => c.done.any (fun x => match x.2 with | .overflow _ => true | _ => false))
    | .error _ => false) = true := by decide

/-! ## release_assert_unreachable -/

/-- No history of the daemon model ends in an error: neither `assert (p_proxy_dev->p_sliced == p_buf)` in
`vbi_proxy_queue_release_sliced` nor `assert (p_buf->line_count <= p_buf->max_lines)` in
`vbi_proxyd_forward_data` can fire, no cursor is ever dangling (used after its buffer was recycled or freed by
`vbi_proxy_stop_acquisition`), no NULL cursor is released - for every device, including one that returns frames
filling all lines of the capture window (no hypothesis on the device is left: the off-by-one assertion D1 is
repaired, the proof uses the generated fact `assertLineCountStrict = false`). -/
theorem release_assert_unreachable_full (cfg : Cfg) (ops : List Op) (e : Err) : run cfg init ops ≠ .error e := by
  obtain ⟨s', hr, _, _⟩ := inv_reachable cfg ops
  rw [hr]; intro h; cases h

/-- non-vacuity: the error values are reachable by `run` from states that violate the invariant (a cursor beyond
the queue) - the theorem is about reachable states, not about a `run` that cannot fail -/
example : (match run demoCfgF { clients := [{ id := 0, state := .forward, allServices := 1, backlog := 1, credit := 100000 }] } [.iter] with
    | .error .dangling => true
    | _ => false) = true := by decide

/-- non-vacuity for the other assertion: a full frame is accepted -/
example : (match run demoCfgF init ([.conn 1 1 0, .credit 0 100000, .iter, .iter, .iter, .iter] ++
      [.cap 1000 [⟨1, 7, 1⟩, ⟨1, 8, 2⟩, ⟨1, 9, 3⟩] true, .iter, .iter]) with
    | .ok s => s.clients.any (fun c => c.done.any (fun x => x.1.lines.length == 3))
    | .error _ => false) = true := by decide

/-! ## each_frame_once_in_order -/

/-- what may become of a frame that was captured for a client -/
def FateAllowed : Fate → Prop
  | .sent => True            -- copied into the client's write buffer (SLICED_IND with this frame)
  | .svcChange => True       -- dropped by the client's own SERVICE_REQ
  | .closed => True          -- the client disconnected (or its socket failed)
  | .flushed => True         -- channel-change flush of the whole queue
  | .grantLost => True       -- (repaired update_services only) the device grants the client nothing any more
  | .overflow n => defaultBufferCount ≤ n   -- overflow: only with at least DEFAULT_BUFFER_COUNT frames queued and unsent

theorem fateOk_allowed {f : Fate} (h : fateOk f) : FateAllowed f := by
  cases f <;> first | trivial | exact h

/-- For every client of every reachable state: the frames captured while it was subscribed (`expected`, the ghost
log written by `vbi_proxyd_forward_data`: sequence number, capture timestamp and lines as read from the device, in
capture order) are EXACTLY the frames still queued for it (from its cursor to the tail) followed by the frames already
taken from the queue for it - same frames, same order, none missing, none twice.  Every frame taken from the queue
was either sent, or dropped for a recorded reason that is the client's own (its service change, its disconnect), a
flush of the whole queue, or an overflow - and an overflow can only take a frame from a client that at that moment
had at least `DEFAULT_BUFFER_COUNT` (8) frames queued and unsent.  So a client that never lags by the queue depth and
does not itself change services or leave receives every frame captured between its subscribe and its unsubscribe,
once each, in capture order, with the capture timestamp. -/
theorem each_frame_once_in_order_full (cfg : Cfg) (ops : List Op) (s : State) (h : run cfg init ops = .ok s) :
    ∀ c ∈ s.clients,
      c.expected = pendingOf s.dev.q c.backlog ++ c.done.map (·.1) ∧
      c.backlog ≤ s.dev.q.length ∧
      (0 < c.backlog → c.subscribed = true) ∧
      ∀ x ∈ c.done, FateAllowed x.2 := by
  obtain ⟨hc, _⟩ := reach h
  intro c hcm
  have hv : c.view ∈ views s := List.mem_map.mpr ⟨c, hcm, rfl⟩
  have pc := hc.pc _ hv
  refine ⟨pc.gh, ?_, pc.sub, fun x hx => fateOk_allowed (pc.ov x hx)⟩
  exact hc.q.bound _ (List.mem_map.mpr ⟨c.view, hv, rfl⟩)

/-- the SLICED_IND the daemon model builds for the frame at a client's cursor: the frame's own sequence number and
capture timestamp, and (repaired filter, generated fact `filterBoundsInput = false`) exactly the captured lines of
the client's granted services whenever those fit the client's line count -/
theorem sent_message_exact (c : Client) (e : QElem)
    (hfit : (specLines c.allServices e.frame.lines).length ≤ c.maxLines) :
    OutMsg.sliced e.frame.seq e.frame.ts (filterLines c.maxLines c.allServices e.frame.lines) =
      OutMsg.sliced e.frame.seq e.frame.ts (specLines c.allServices e.frame.lines) := by
  congr 1
  unfold filterLines
  have : filterBoundsInput = false := rfl
  rw [this]
  simp only [filterLinesWith, Bool.false_eq_true, if_false, specLines] at *
  exact List.take_of_length_le hfit

/-- non-vacuity: after the overflow history all twelve frames were captured for both clients; client 1 has lost
nothing (two frames sent, ten still queued), client 0 - at that moment ten frames behind, its cursor on the oldest
buffer of the full queue - has lost exactly frame 1 to the overflow -/
example : (match run demoCfgF init overflowHistory with
    | .ok s => s.clients.any (fun c => c.id == 1 && c.expected.map (·.seq) == (List.range 12).reverse &&
                  c.done.all (fun x => x.2 == Fate.sent) && c.backlog == 10) &&
               s.clients.any (fun c => c.id == 0 &&
                  (c.done.filter (fun x => match x.2 with | .overflow 10 => true | _ => false)).map (·.1.seq) == [1])
    | .error _ => false) = true := by decide

/-! ## service_union -/

/-- In every reachable state: the device is open iff some client is subscribed (state FORWARD with a non-empty
grant) - so it is opened for the first subscriber and closed when the last one leaves or drops its services;
while open its `all_services` is the union of the grants of the FORWARD clients; and every FORWARD client's grant
is the union over the strictness levels of (stored request & what the device delivers at that level). -/
theorem service_union_full (cfg : Cfg) (ops : List Op) (s : State) (h : run cfg init ops = .ok s) :
    (s.dev.opened = s.clients.any (·.subscribed)) ∧
    (s.dev.opened = true → s.dev.allServices =
      s.clients.foldl (fun acc c => if c.state == .forward then acc ||| c.allServices else acc) 0) ∧
    (∀ c ∈ s.clients, c.state = .forward → c.allServices = allOf cfg c.services) := by
  obtain ⟨hc, hs⟩ := reach h
  refine ⟨?_, ?_, ?_⟩
  · cases ho : s.dev.opened with
    | true =>
      have hne := hs.os ho
      have : ¬ ∀ v ∈ views s, v.subscribed = false := fun hall => hne (unionV_eq_zero.mpr hall)
      symm
      rw [List.any_eq_true]
      apply Classical.byContradiction
      intro hno
      apply this
      intro v hv
      obtain ⟨c, hcm, rfl⟩ := List.mem_map.mp hv
      cases hsb : c.view.subscribed with
      | false => rfl
      | true => exact absurd ⟨c, hcm, hsb⟩ hno
    | false =>
      symm
      rw [List.any_eq_false]
      intro c hcm hsub
      have := (hc.pc _ (List.mem_map.mpr ⟨c, hcm, rfl⟩)).so hsub
      rw [ho] at this; cases this
  · intro ho
    rw [devUnion_eq]; exact hs.un ho
  · intro c hcm hf
    exact hs.gs _ (List.mem_map.mpr ⟨c, hcm, rfl⟩) hf

/-- corollary: with no client connected the device is closed and the queue is empty -/
theorem device_closed_when_last_leaves (cfg : Cfg) (ops : List Op) (s : State) (h : run cfg init ops = .ok s)
    (hnone : s.clients = []) : s.dev.opened = false ∧ s.dev.q = [] := by
  obtain ⟨h1, _, _⟩ := service_union_full cfg ops s h
  have ho : s.dev.opened = false := by rw [h1, hnone]; rfl
  obtain ⟨hc, _⟩ := reach h
  exact ⟨ho, (hc.closed_empty ho).2⟩

/-- non-vacuity: two clients at different strictness, device opened for the union 7, closed when both have left -/
example :
    (match run demoCfgF init [.conn 1 1 0, .credit 0 100000, .conn 6 2 0, .credit 1 100000, .iter, .iter, .iter, .iter] with
     | .ok s => s.dev.opened && s.dev.allServices == 7 && s.clients.length == 2
     | .error _ => false) = true ∧
    (match run demoCfgF init [.conn 1 1 0, .credit 0 100000, .conn 6 2 0, .credit 1 100000, .iter, .iter, .iter, .iter,
        .close 0, .iter, .close 1, .iter, .iter] with
     | .ok s => !s.dev.opened && s.clients.isEmpty
     | .error _ => false) = true := by
  decide

/-! ## stalled_client_isolated -/

/-- One-run form, all histories: whatever the OTHER clients do (stall, fill the queue, change services, disconnect),
a frame captured for client `c` leaves `c`'s part of the queue only by being sent to `c`, by `c`'s own service change
or disconnect, by a flush of the whole queue (or, repaired code only, because the device no longer grants `c` anything), or by an overflow that finds `c` ITSELF at least `DEFAULT_BUFFER_COUNT`
frames behind (its cursor on the oldest buffer of a full queue); and what is still queued for `c` is exactly the rest,
in order.  (With the code before 5eee39a this is false: `stalled_client_isolated_counterexample`.) -/
theorem stalled_client_isolated_full (cfg : Cfg) (ops : List Op) (s : State) (h : run cfg init ops = .ok s) :
    ∀ c ∈ s.clients,
      c.expected = pendingOf s.dev.q c.backlog ++ c.done.map (·.1) ∧
      ∀ fr fate, (fr, fate) ∈ c.done →
        fate = .sent ∨ fate = .svcChange ∨ fate = .closed ∨ fate = .flushed ∨ fate = .grantLost ∨
        ∃ n, fate = .overflow n ∧ defaultBufferCount ≤ n := by
  intro c hcm
  obtain ⟨h1, _, _, h4⟩ := each_frame_once_in_order_full cfg ops s h c hcm
  refine ⟨h1, ?_⟩
  intro fr fate hm
  have := h4 (fr, fate) hm
  cases fate with
  | sent => exact Or.inl rfl
  | svcChange => exact Or.inr (Or.inl rfl)
  | closed => exact Or.inr (Or.inr (Or.inl rfl))
  | flushed => exact Or.inr (Or.inr (Or.inr (Or.inl rfl)))
  | grantLost => exact Or.inr (Or.inr (Or.inr (Or.inr (Or.inl rfl))))
  | overflow n => exact Or.inr (Or.inr (Or.inr (Or.inr (Or.inr ⟨n, rfl, this⟩))))

/-- Two-run form: take ANY two histories (any devices, any behaviour of the other clients - stalled or not) and a
client in each for which the same frames were captured while it was subscribed; if neither lost a frame (every frame
taken from the queue for it was sent), the sequences sent to the two are the same up to how far each has got: one is
the older part of the other. -/
theorem stalled_client_isolated_two_runs (cfg cfg' : Cfg) (ops ops' : List Op) (s s' : State)
    (h : run cfg init ops = .ok s) (h' : run cfg' init ops' = .ok s')
    (c c' : Client) (hc : c ∈ s.clients) (hc' : c' ∈ s'.clients) (hexp : c.expected = c'.expected) :
    c.done.map (·.1) <:+ c'.done.map (·.1) ∨ c'.done.map (·.1) <:+ c.done.map (·.1) := by
  obtain ⟨h1, _⟩ := each_frame_once_in_order_full cfg ops s h c hc
  obtain ⟨h1', _⟩ := each_frame_once_in_order_full cfg' ops' s' h' c' hc'
  have hs1 : c.done.map (·.1) <:+ c.expected := ⟨_, h1.symm⟩
  have hs2 : c'.done.map (·.1) <:+ c.expected := ⟨_, by rw [hexp]; exact h1'.symm⟩
  by_cases hl : (c.done.map (·.1)).length ≤ (c'.done.map (·.1)).length
  · exact Or.inl (List.suffix_of_suffix_length_le hs1 hs2 hl)
  · exact Or.inr (List.suffix_of_suffix_length_le hs2 hs1 (by omega))

/-! ### the literal two-run formulation is FALSE in this model (a modelling artefact, not a defect) -/

/-- the literal reading "the same history, with client `a` given socket credit or not, delivers the same frames to
every other client `b` that is not itself overflowed" -/
def stalled_client_isolated_naive : Prop :=
  ∀ (cfg : Cfg) (ops ops' : List Op) (a : Nat) (s s' : State),
    (ops.filter (fun o => match o with | .credit k _ => k != a | _ => true)) =
      (ops'.filter (fun o => match o with | .credit k _ => k != a | _ => true)) →
    run cfg init ops = .ok s → run cfg init ops' = .ok s' →
    ∀ b, b ≠ a → ∀ c ∈ s.clients, c.id = b → (∀ x ∈ c.done, ∀ n, x.2 ≠ Fate.overflow n) →
      ∀ c' ∈ s'.clients, c'.id = b → (∀ x ∈ c'.done, ∀ n, x.2 ≠ Fate.overflow n) →
      ((c.done.map (·.1.seq)).isSuffixOf (c'.done.map (·.1.seq)) ||
       (c'.done.map (·.1.seq)).isSuffixOf (c.done.map (·.1.seq))) = true

/-- client 0 connects and says CLOSE_REQ; two frames are captured; client 1 connects; a third frame is captured.
With socket credit client 0 is gone before the frames arrive, the device is closed, the scripted device keeps the
two frames until client 1 opens it again: client 1 gets frames 0, 1, 2.  Without credit client 0's CONNECT_CNF is
never written, its CLOSE_REQ is never read, it stays subscribed, the two frames are read for it alone: client 1
gets frame 2 only. -/
def twoRunHistory (withCredit : Bool) : List Op :=
  [.conn 1 1 0] ++ (if withCredit then [.credit 0 100000] else []) ++
  [.iter, .iter, .iter, .iter, .bye 0, .iter, .iter,
   .cap 1000 [⟨1, 7, 0⟩] false, .cap 2000 [⟨1, 7, 1⟩] false,
   .conn 1 1 0, .credit 1 100000, .iter, .iter, .iter, .iter, .iter, .iter,
   .cap 3000 [⟨1, 7, 2⟩] false, .iter, .iter, .iter]

def noOverflow (c : Client) : Bool := c.done.all (fun x => match x.2 with | .overflow _ => false | _ => true)

theorem noOverflow_spec {c : Client} (h : noOverflow c = true) : ∀ x ∈ c.done, ∀ n, x.2 ≠ Fate.overflow n := by
  intro x hx n hn
  have := List.all_eq_true.mp h x hx
  rw [hn] at this; cases this

theorem twoRun_witness :
    (match run demoCfgF init (twoRunHistory true), run demoCfgF init (twoRunHistory false) with
     | .ok s, .ok s' =>
       s.clients.any (fun c => c.id == 1 && noOverflow c &&
         s'.clients.any (fun c' => c'.id == 1 && noOverflow c' &&
           !((c.done.map (·.1.seq)).isSuffixOf (c'.done.map (·.1.seq)) ||
             (c'.done.map (·.1.seq)).isSuffixOf (c.done.map (·.1.seq)))))
     | _, _ => false) = true := by decide

/-- COUNTEREXAMPLE to the literal two-run formulation.  Why it fails: whether client `a`'s CLOSE_REQ / SERVICE_REQ
is read depends on whether its pending reply could be written, so `a`'s socket decides WHEN the device is closed or
re-programmed; in this model (as in the harness) the scripted device keeps frames nobody read, so the set of frames
captured while `b` is subscribed depends on `a`.  With a real-time device those frames would be lost for everybody.
The daemon is not at fault: for the frames that WERE captured for `b`, `stalled_client_isolated_full` and
`stalled_client_isolated_two_runs` hold. -/
theorem stalled_client_isolated_naive_false : ¬ stalled_client_isolated_naive := by
  intro hn
  have hw := twoRun_witness
  obtain ⟨s, hs, _, _⟩ := inv_reachable demoCfgF (twoRunHistory true)
  obtain ⟨s', hs', _, _⟩ := inv_reachable demoCfgF (twoRunHistory false)
  rw [hs, hs'] at hw
  simp only at hw
  obtain ⟨c, hc, hcond⟩ := List.any_eq_true.mp hw
  simp only [Bool.and_eq_true] at hcond
  obtain ⟨⟨hid, hno⟩, hin⟩ := hcond
  obtain ⟨c', hc', hcond'⟩ := List.any_eq_true.mp hin
  simp only [Bool.and_eq_true] at hcond'
  obtain ⟨⟨hid', hno'⟩, hneg⟩ := hcond'
  have := hn demoCfgF (twoRunHistory true) (twoRunHistory false) 0 s s' (by decide) hs hs' 1 (by decide)
    c hc (by simpa using hid) (noOverflow_spec hno) c' hc' (by simpa using hid') (noOverflow_spec hno')
  rw [this] at hneg
  cases hneg

end Zvbi.Props.C18
