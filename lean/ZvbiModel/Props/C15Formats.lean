import ZvbiModel.Idl.Formats
/-!
# C15, IDL formats other than A: refused without any effect

`vbi_idl_demux_feed` dispatches on `dx->format`.  Only format A is implemented; format B, Datavideo,
Audetel and LBRA end in `/* TODO */` stubs.  The theorems say what the current code does with such
a demultiplexer for every state, every buffer and every history.
-/
namespace Zvbi.Props.C15
open Zvbi.Hamm Zvbi.Idl

/-- A demultiplexer of format B, Datavideo, Audetel or LBRA, in ANY state and fed ANY buffer:
    `vbi_idl_demux_feed` returns normally (no assertion), leaves the whole struct unchanged and
    never calls the callback.  The return value is FALSE exactly when
    (1) the channel or the designation nibble (bytes 0, 1) is undecodable, or
    (2) the packet is a packet 30/31 (designation 15) of our channel and
        - format B: the format type nibble (byte 2) is undecodable or `ft & 3 == 1`
          (the only packets handed to the stub `idl_b_demux_feed`),
        - Datavideo / Audetel / LBRA: always (every such packet goes to a stub);
    it is TRUE in every other case (foreign channel, not packet 30/31, format B with another ft). -/
theorem idl_unsupported_format_refused (s : StF) (buf : List Nat) (h : UnsupportedFmt s.fmt) :
    ∃ ret, feedF s buf = .done s ret none ∧
      (ret = false ↔
        (unham8 (rd buf 0) = none ∨ unham8 (rd buf 1) = none) ∨
        (unham8 (rd buf 0) = some s.st.channel ∧ unham8 (rd buf 1) = some 15 ∧
          (s.fmt = 2 → unham8 (rd buf 2) = none ∨
            ∃ ft, unham8 (rd buf 2) = some ft ∧ ft &&& 3 = 1))) := by
  obtain ⟨fmt, st⟩ := s
  simp only [UnsupportedFmt] at h
  unfold feedF
  cases h0 : unham8 (rd buf 0) with
  | none => exact ⟨false, rfl, by simp⟩
  | some channel =>
    cases h1 : unham8 (rd buf 1) with
    | none => exact ⟨false, rfl, by simp⟩
    | some designation =>
      by_cases hd : designation ≠ 15 ∨ channel ≠ st.channel
      · refine ⟨true, by simp only [hd, if_true], ?_⟩
        simp only [Bool.true_eq_false, false_iff, reduceCtorEq, or_self, false_or, Option.some.injEq]
        rintro ⟨hc, hdd, _⟩
        rcases hd with hd | hd
        · exact hd hdd
        · exact hd hc
      · simp only [hd, if_false]
        have hd' : designation = 15 ∧ channel = st.channel := by
          constructor
          · exact Decidable.byContradiction fun hn => hd (Or.inl hn)
          · exact Decidable.byContradiction fun hn => hd (Or.inr hn)
        obtain ⟨rfl, rfl⟩ := hd'
        rcases h with h | h | h | h <;> subst h
        · -- format B
          simp only [fmtA, fmtB, show ¬ (2 : Nat) = 1 by decide, if_false, if_true]
          cases h2 : unham8 (rd buf 2) with
          | none => exact ⟨false, rfl, by simp⟩
          | some ft =>
            by_cases hf : ft &&& 3 = 1
            · exact ⟨false, by simp only [hf, if_true, doneOf, feedB], by simp [hf]⟩
            · exact ⟨true, by simp only [hf, if_false], by simp [hf]⟩
        · exact ⟨false, by simp [fmtA, fmtB, fmtDatavideo, doneOf, feedDatavideo], by simp⟩
        · exact ⟨false, by simp [fmtA, fmtB, fmtDatavideo, fmtAudetel, doneOf, feedAudetel], by simp⟩
        · exact ⟨false, by simp [fmtA, fmtB, fmtDatavideo, fmtAudetel, fmtLbra, doneOf, feedLbra],
            by simp⟩

/-- a Datavideo demultiplexer on channel 3 refuses a (format A style) packet 30/31 of channel 3 with FALSE,
    ignores a packet of channel 2 with TRUE; a format B demultiplexer refuses ft = 5 and ignores ft = 3 -/
example :
    feedF ⟨4, ⟨3, 0, some 7, some 9, 5⟩⟩ [ham8 3, ham8 15, ham8 0]
      = .done ⟨4, ⟨3, 0, some 7, some 9, 5⟩⟩ false none
    ∧ feedF ⟨4, ⟨3, 0, none, none, 0⟩⟩ [ham8 2, ham8 15, ham8 0] = .done ⟨4, ⟨3, 0, none, none, 0⟩⟩ true none
    ∧ feedF ⟨2, ⟨3, 0, none, none, 0⟩⟩ [ham8 3, ham8 15, ham8 5] = .done ⟨2, ⟨3, 0, none, none, 0⟩⟩ false none
    ∧ feedF ⟨2, ⟨3, 0, none, none, 0⟩⟩ [ham8 3, ham8 15, ham8 3] = .done ⟨2, ⟨3, 0, none, none, 0⟩⟩ true none
    ∧ UnsupportedFmt 4 ∧ UnsupportedFmt 2 := by decide

/-- Whatever is fed to (and however often `vbi_idl_demux_reset` is called on) a demultiplexer that
    `_vbi_idl_demux_init` built for format B, Datavideo, Audetel or LBRA: no assertion fails, the
    callback is never called and the struct is still exactly as initialised.  (Induction over the
    history; also holds from any state with `ci = ri = -1`.) -/
theorem idl_unsupported_format_silent_history (fmt channel address fill : Nat) (s0 : StF)
    (h : UnsupportedFmt fmt) (hinit : initF fmt channel address fill = .ok s0) (ops : List OpF) :
    runF s0 ops = some (s0, []) := by
  have hs : UnsupportedFmt s0.fmt ∧ resetF s0 = s0 := by
    unfold initF at hinit
    by_cases hc : channel ≥ 16
    · simp [hc] at hinit
    · simp only [hc, if_false] at hinit
      have hA : ¬ fmt = fmtA := by
        unfold UnsupportedFmt at h; unfold fmtA; omega
      simp only [hA, if_false] at hinit
      split at hinit
      · injection hinit with hinit
        subst hinit
        exact ⟨h, rfl⟩
      · cases hinit
  obtain ⟨hf, hr⟩ := hs
  induction ops with
  | nil => rfl
  | cons op r ih =>
    cases op with
    | reset => simp only [runF, hr, ih]
    | feed b =>
      obtain ⟨ret, hfeed, _⟩ := idl_unsupported_format_refused s0 b hf
      simp only [runF, hfeed, ih, Option.toList, List.append_nil]

/-- an LBRA demultiplexer is built (address 2^24 is accepted), then fed a packet of its channel, reset,
    fed garbage and a foreign packet: nothing delivered, state as initialised -/
example :
    initF 16 5 (2 ^ 24) 0xAA = .ok (initFields 16 5 (2 ^ 24) 0xAA)
    ∧ runF (initFields 16 5 (2 ^ 24) 0xAA)
        [.feed [ham8 5, ham8 15, ham8 0, ham8 0], .reset, .feed [1, 1, 1], .feed [ham8 4, ham8 15]]
      = some (initFields 16 5 (2 ^ 24) 0xAA, []) := by
  constructor
  · decide
  · rfl

/-- For `dx->format == _VBI_IDL_FORMAT_A` the general `vbi_idl_demux_feed` model is the format A model
    `Zvbi.Idl.feed` of the other C15 theorems: same new state, same return value, same callback, and the
    format field stays 1.  Every format A theorem therefore speaks about `feedF` too. -/
theorem idl_format_a_is_feed (st : St) (buf : List Nat) :
    feedF ⟨1, st⟩ buf = .done ⟨1, (feed st buf).1⟩ (feed st buf).2.1 (feed st buf).2.2 :=
  feedF_fmtA st buf

/-- a foreign-channel packet through both functions -/
example :
    feedF ⟨1, ⟨3, 0, none, none, 0⟩⟩ [ham8 2, ham8 15, ham8 0] = .done ⟨1, ⟨3, 0, none, none, 0⟩⟩ true none
    ∧ feed ⟨3, 0, none, none, 0⟩ [ham8 2, ham8 15, ham8 0] = (⟨3, 0, none, none, 0⟩, true, none) := by
  decide

/-- What `_vbi_idl_demux_init` accepts, as the code is:
    * FALSE exactly when `channel >= 16`, or format A with `address >= 2^24`;
    * `assert (0)` exactly when `channel < 16` and the format is none of 1, 2, 4, 8, 16
      (the channel test comes first, so a bad format with a bad channel returns FALSE);
    * format A with channel < 16 and address < 2^24: the state of `vbi_idl_a_demux_new`;
    * format B, Datavideo, Audetel, LBRA with channel < 16: accepted with ANY address - the 24 bit
      test of format A is not made - and the address is stored as given. -/
theorem idl_init_accepts (fmt channel address fill : Nat) :
    (initF fmt channel address fill = .null ↔ channel ≥ 16 ∨ (fmt = 1 ∧ address ≥ 2 ^ 24)) ∧
    (initF fmt channel address fill = .assertFail ↔
       channel < 16 ∧ fmt ≠ 1 ∧ ¬ UnsupportedFmt fmt) ∧
    (initF 1 channel address fill =
       match new channel address fill with
       | some s => .ok ⟨1, s⟩
       | none => .null) ∧
    (UnsupportedFmt fmt → channel < 16 →
       initF fmt channel address fill = .ok (initFields fmt channel address fill) ∧
       (initFields fmt channel address fill).st.address = address ∧
       (initFields fmt channel address fill).st.channel = channel ∧
       (initFields fmt channel address fill).st.ci = none ∧
       (initFields fmt channel address fill).st.ri = none) := by
  refine ⟨?_, ?_, initF_fmtA channel address fill, ?_⟩
  · unfold initF fmtA fmtB fmtDatavideo fmtAudetel fmtLbra
    by_cases hc : channel ≥ 16
    · simp [hc]
    · by_cases hA : fmt = 1
      · by_cases ha : address ≥ 2 ^ 24 <;> simp [hc, hA, ha]
      · by_cases hu : fmt = 4 ∨ fmt = 2 ∨ fmt = 8 ∨ fmt = 16 <;> simp [hc, hA, hu]
  · unfold initF UnsupportedFmt fmtA fmtB fmtDatavideo fmtAudetel fmtLbra
    by_cases hc : channel ≥ 16
    · simp only [hc, if_true, reduceCtorEq, false_iff]
      omega
    · by_cases hA : fmt = 1
      · by_cases ha : address ≥ 2 ^ 24 <;> simp [hc, hA, ha]
      · by_cases hu : fmt = 4 ∨ fmt = 2 ∨ fmt = 8 ∨ fmt = 16
        · simp only [hc, hA, hu, if_true, if_false, reduceCtorEq, false_iff]
          omega
        · simp only [hc, hA, hu, if_false, true_iff]
          omega
  · intro hu hc
    refine ⟨?_, rfl, rfl, rfl, rfl⟩
    unfold initF fmtA fmtB fmtDatavideo fmtAudetel fmtLbra
    unfold UnsupportedFmt at hu
    have h1 : ¬ channel ≥ 16 := by omega
    have h2 : ¬ fmt = 1 := by omega
    have h3 : fmt = 4 ∨ fmt = 2 ∨ fmt = 8 ∨ fmt = 16 := by omega
    simp only [h1, h2, h3, if_true, if_false]

/-- format B takes an address of 2^24 (format A does not), channel 16 is refused for every format,
    format value 3 fails the assertion -/
example :
    initF 2 15 (2 ^ 24) 0 = .ok (initFields 2 15 (2 ^ 24) 0)
    ∧ initF 1 15 (2 ^ 24) 0 = .null
    ∧ initF 1 15 (2 ^ 24 - 1) 0 = .ok (initFields 1 15 (2 ^ 24 - 1) 0)
    ∧ initF 8 16 0 0 = .null
    ∧ initF 3 16 0 0 = .null
    ∧ initF 3 15 0 0 = .assertFail
    ∧ initF 0 0 0 0 = .assertFail := by decide

/-- No history of calls on a demultiplexer that `_vbi_idl_demux_init` accepted (any of the five formats)
    reaches the `default: assert (0)` of `vbi_idl_demux_feed`: the format field is never written after
    construction. -/
theorem idl_feed_never_asserts (fmt channel address fill : Nat) (s0 : StF)
    (hinit : initF fmt channel address fill = .ok s0) (ops : List OpF) :
    (runF s0 ops).isSome = true := by
  have hfmt : s0.fmt = 1 ∨ UnsupportedFmt s0.fmt := by
    unfold initF fmtA fmtB fmtDatavideo fmtAudetel fmtLbra at hinit
    unfold UnsupportedFmt
    by_cases hc : channel ≥ 16
    · simp [hc] at hinit
    · simp only [hc, if_false] at hinit
      by_cases hA : fmt = 1
      · simp only [hA, if_true] at hinit
        split at hinit
        · cases hinit
        · injection hinit with hinit; subst hinit; exact Or.inl rfl
      · simp only [hA, if_false] at hinit
        split at hinit
        · injection hinit with hinit; subst hinit
          simp only [initFields]; omega
        · cases hinit
  clear hinit
  induction ops generalizing s0 with
  | nil => rfl
  | cons op r ih =>
    cases op with
    | reset => exact ih (resetF s0) hfmt
    | feed b =>
      rcases hfmt with h1 | hu
      · obtain ⟨f, st⟩ := s0
        simp only at h1
        subst h1
        have := ih ⟨1, (feed st b).1⟩ (Or.inl rfl)
        simp only [runF, idl_format_a_is_feed]
        cases hr : runF ⟨1, (feed st b).1⟩ r with
        | none => rw [hr] at this; cases this
        | some p => rfl
      · obtain ⟨ret, hfeed, _⟩ := idl_unsupported_format_refused s0 b hu
        have := ih s0 (Or.inr hu)
        simp only [runF, hfeed]
        cases hr : runF s0 r with
        | none => rw [hr] at this; cases this
        | some p => rfl

/-- a format A and a format B demultiplexer both survive a garbage packet and a reset -/
example :
    (runF (initFields 1 5 0 0) [.feed [1, 2, 3], .reset]).isSome = true
    ∧ (runF (initFields 2 5 0 0) [.feed [ham8 5, ham8 15, ham8 1], .reset]).isSome = true
    ∧ feedF ⟨3, ⟨5, 0, none, none, 0⟩⟩ [ham8 5, ham8 15] = .assertFail := by decide

end Zvbi.Props.C15
