import ZvbiModel.Ure.LemmasPlain
import ZvbiModel.Ure.Witness
import ZvbiModel.Search.Matcher
/-!
# C17, regular expression engine src/ure.c: the matcher parameter of the search model gets an instance

Model: ZvbiModel/Ure/{Syntax,Exec,Nfa,Dfa}.lean (`exec` = `ure_exec`, `compile` = `ure_compile`), tied to /repo by
translate/gen_ure.py (tables, constants, source shapes) and by the correspondence of lib/ure_stage.py (canonical DFA
dump and match interval of model and real code compared on every generated pattern / text).
`sh : Shape` = source shape (current /repo: `Shape.unrepaired` = findings C17-U1..U4, U7 open), `ct : CType` = the C
library's character classification (parameter).
-/
namespace Zvbi.Props.C17Ure
open Zvbi.Ure

/-- `ure_exec` never reads outside the text, the state table, a transition list or the symbol table: for EVERY DFA whose
    stored indices are inside their tables (`Dfa.wf`), every text, every flag word and both source shapes.
    (`compile_wf`: every DFA `compile` returns is such a DFA.) -/
theorem exec_never_oob (sh : Shape) (ct : CType) (d : Dfa) (flags : Nat) (text : List Nat) (hwf : d.wf = true)
    (site : String) : exec sh ct d flags text ≠ .oob site :=
  exec_not_oob sh ct d flags text hwf site

example : dAbcB.wf = true := by decide

/-- `ure_exec` returns (within `execFuel` = (len + 2)(len + states + 4) passes of its loop) for every DFA, text and
    flag word, PROVIDED the zero-width `^` transition at the start of the text is bounded (repaired shape `bolGuard`),
    switched off (URE_NOTBOL) or absent (no `^` in the DFA).  Without the proviso the statement is false:
    `exec_hang_counterexample`. -/
theorem exec_terminates (sh : Shape) (ct : CType) (d : Dfa) (flags : Nat) (text : List Nat)
    (hz : sh.bolGuard = true ∨ notBol flags = true ∨ Sym.bol ∉ d.syms) :
    exec sh ct d flags text ≠ .hang :=
  exec_not_hang sh ct d flags text hz

/-- non-vacuity: the repaired source returns on `^+` / "x" (empty match at 0), and so does the current one with URE_NOTBOL -/
example : exec Shape.repaired CType.probed dBolPlus 0 [0x78] = .found 0 0 ∧
    exec Shape.unrepaired CType.probed dBolPlus 4 [0x78] = .none := by decide +kernel

/-- FINDING C17-U2 (current source): the DFA of `^+` (as `ure_compile` builds it) on the text "x" with flags 0: the
    loop of `ure_exec` comes back to the same state for ever - with ANY amount of fuel the model answers `.hang`.
    Replayed on the C code: corpus/C17/ure-bol-loop.ops (`ok hang`); repair fixes/C17-ure-bol-loop.diff. -/
theorem exec_hang_counterexample :
    compile Shape.unrepaired CType.probed 0 false [0x5e, 0x2b] = .dfa dBolPlus ∧
    ∀ fuel, run Shape.unrepaired CType.probed dBolPlus 0 [0x78] fuel ESt.init = .hang :=
  ⟨compile_bolplus, run_init_loop⟩

/-- For a DFA without anchors: what `ure_exec` reports is accepted - the DFA, read from its start state over
    text[ms .. me), ends in an accepting state; the stretch is non-empty and inside the text. -/
theorem exec_sound (sh : Shape) (ct : CType) (d : Dfa) (flags : Nat) (text : List Nat)
    (hwf : d.wf = true) (hpl : d.plain = true) (hbl : d.blankline = false) (ms me : Nat)
    (h : exec sh ct d flags text = .found ms me) :
    ms < me ∧ me ≤ text.length ∧ Acc sh ct d flags text ms (me - ms) := by
  have := exec_good sh ct d flags text hwf hpl hbl
  rw [h] at this
  exact ⟨this.1, this.2.1, this.2.2.1⟩

/-- ... no accepted non-empty stretch starts before `ms` (restart rule of 8b7ac93: every start position is tried) -/
theorem exec_leftmost (sh : Shape) (ct : CType) (d : Dfa) (flags : Nat) (text : List Nat)
    (hwf : d.wf = true) (hpl : d.plain = true) (hbl : d.blankline = false) (ms me : Nat)
    (h : exec sh ct d flags text = .found ms me) :
    ∀ p, p < ms → ∀ n, 1 ≤ n → ¬ Acc sh ct d flags text p n := by
  have := exec_good sh ct d flags text hwf hpl hbl
  rw [h] at this
  exact this.2.2.2.2

/-- ... and `me` is the LONGEST accepted extension from `ms` (bookkeeping of 9ff427f: `acc_me`) -/
theorem exec_longest_from_ms (sh : Shape) (ct : CType) (d : Dfa) (flags : Nat) (text : List Nat)
    (hwf : d.wf = true) (hpl : d.plain = true) (hbl : d.blankline = false) (ms me : Nat)
    (h : exec sh ct d flags text = .found ms me) :
    ∀ n, me - ms < n → ¬ Acc sh ct d flags text ms n := by
  have := exec_good sh ct d flags text hwf hpl hbl
  rw [h] at this
  exact this.2.2.2.1

/-- non-vacuity: `(ab)+`-like bookkeeping on the literal DFA and on `abc|b` -/
example : exec Shape.unrepaired CType.probed dLitAb 0 [0x61, 0x61, 0x62] = .found 1 3 ∧
    exec Shape.unrepaired CType.probed dAbcB 0 [0x78, 0x61, 0x62, 0x78] = .found 2 3 ∧
    dAbcB.plain = true ∧ dAbcB.blankline = false := by decide +kernel

/-- FINDING C17-U7 (current source): completeness fails at the end of the text.  `abc|b` on "ab": the attempt from 0 reads
    "ab", the text ends in a non-accepting state and the search ends - although "b" at [1, 2) is accepted.  The repaired
    shape (restart at ms + 1) finds it.  corpus/C17/ure-eot-restart.ops; fixes/C17-ure-eot-restart.diff. -/
theorem exec_complete_eot_counterexample :
    compile Shape.unrepaired CType.probed 0 false [0x61, 0x62, 0x63, 0x7c, 0x62] = .dfa dAbcB ∧
    exec Shape.unrepaired CType.probed dAbcB 0 [0x61, 0x62] = .none ∧
    Acc Shape.unrepaired CType.probed dAbcB 0 [0x61, 0x62] 1 1 ∧
    exec Shape.repaired CType.probed dAbcB 0 [0x61, 0x62] = .found 1 2 :=
  ⟨compile_abcb, by decide +kernel, ⟨2, by decide +kernel, by decide +kernel⟩, by decide +kernel⟩

/-- FINDING C17-U6 (both shapes, not repaired): a DFA whose start state accepts (pattern matches the empty string) gives
    up at the first character without transition: `a*` finds nothing in "ba" although "a" at [1, 2) is accepted. -/
theorem exec_complete_nullable_counterexample :
    compile Shape.unrepaired CType.probed 0 false [0x61, 0x2a] = .dfa dAStar ∧
    exec Shape.unrepaired CType.probed dAStar 0 [0x62, 0x61] = .none ∧
    exec Shape.repaired CType.probed dAStar 0 [0x62, 0x61] = .none ∧
    Acc Shape.unrepaired CType.probed dAStar 0 [0x62, 0x61] 1 1 :=
  ⟨compile_astar, by decide +kernel, by decide +kernel, ⟨0, by decide +kernel, by decide +kernel⟩⟩

/-- FINDING C17-U5 (both shapes, not repaired): the DFA is built over SYMBOLS as if they were disjoint letters and
    `ure_exec` takes the first transition whose symbol matches: in the DFA of `f.*o` state 1 tries `.` before `o`, the
    accepting state is unreachable - nothing is found in "fxo" (nor anywhere else). -/
theorem overlap_counterexample :
    compile Shape.unrepaired CType.probed 0 false [0x66, 0x2e, 0x2a, 0x6f] = .dfa dFDotO ∧
    exec Shape.unrepaired CType.probed dFDotO 0 [0x66, 0x78, 0x6f] = .none ∧
    exec Shape.repaired CType.probed dFDotO 0 [0x66, 0x78, 0x6f] = .none ∧
    DfaLang dFDotO [0, 1, 2] :=
  ⟨compile_fdoto, by decide +kernel, by decide +kernel, ⟨2, by decide +kernel, by decide +kernel⟩⟩

/-- Every DFA `compile` hands out is well formed (checked predicate: the model's `compile` ends with the test
    `Dfa.wf` and reports `oob "dfa"` otherwise, which the correspondence would show as a disagreement - the C code has
    no such test): so `exec_never_oob` applies to everything `ure_compile` produces. -/
theorem compile_wf (sh : Shape) (ct : CType) (e : Int) (cf : Bool) (pat : List Nat) (d : Dfa)
    (h : compile sh ct e cf pat = .dfa d) : d.wf = true := by
  unfold compile at h
  split at h
  · simp at h
  · split at h
    · simp at h
    · simp only [] at h
      split at h
      · rename_i x hx
        subst h
        -- the last two steps of the `do` block: the `wf` test and `pure`
        simp only [bind, Except.bind, pure, Except.pure] at hx
        repeat' split at hx
        all_goals first
          | (injection hx with hx; injection hx with hx; subst hx; simp_all)
          | simp at hx
      · simp at h

/-- FINDING C17-U4 / C17-U3 (current source): `compile_never_oob` is FALSE: a pattern that ends inside a class makes
    `_ure_cclass` read the element behind the pattern ("[": `*sp == '^'` with `sp == ep`), and `[:drcs:]` makes
    `_ure_posix_ccl` read `cclass_trie[88]` (the table has 88 elements).  With the repairs both patterns are
    rejected / compiled without leaving a table.  corpus/C17/ure-pattern-overread.ops, ure-posix-drcs.ops
    (AddressSanitizer: heap-buffer-overflow / global-buffer-overflow). -/
theorem compile_oob_counterexample :
    compile Shape.unrepaired CType.probed 0 false [0x5b] = .err (.oob "pattern") ∧
    compile Shape.unrepaired CType.probed 0 false [0x5b, 0x3a, 0x64, 0x72, 0x63, 0x73, 0x3a, 0x5d] = .err (.oob "cclass_trie") ∧
    compile Shape.repaired CType.probed 0 false [0x5b] = .null (-2) ∧
    compile Shape.repaired CType.probed 0 false [0x5b, 0x3a, 0x64, 0x72, 0x63, 0x73, 0x3a, 0x5d] =
      .dfa ⟨false, false, [Sym.ccl false 0x20000 []], [⟨false, [(0, 1)]⟩, ⟨true, []⟩]⟩ := by
  decide +kernel

/-- the malformed patterns of F47 / F48 (operator without operand, property number past `cclass_flags[]`) are rejected
    with an error code, no table is left (both shapes) -/
theorem compile_malformed_rejected :
    compile Shape.unrepaired CType.probed 0 false [0x7c, 0x61] = .null (-1) ∧
    compile Shape.unrepaired CType.probed 0 false [0x28, 0x2a, 0x29] = .null (-3) ∧
    compile Shape.unrepaired CType.probed 0 false [0x5c, 0x70, 0x39, 0x39] = .null (-4) ∧
    compile Shape.unrepaired CType.probed 0 false [0x61, 0x29] = .null (-3) := by
  decide +kernel

/-- the matcher of the search model (`Search.exactLit`: leftmost occurrence, proved in Props/C17.lean `matcher_exact`)
    agrees with `ure_exec` on the DFA `ure_compile` builds from the escaped literal pattern: instances (kernel evaluated;
    the statement for all patterns and texts is `ure_literal_is_exactLit_full`, compared by the correspondence on every
    generated `lit` case): "ab" in "aab" (the D1 witness), in "ab", "xxab", and not in "aXb", "" -/
theorem ure_literal_is_exactLit_partial :
    compile Shape.unrepaired CType.probed 0 false (escapeLit [0x61, 0x62]) = .dfa dLitAb ∧
    ∀ text ∈ [[0x61, 0x61, 0x62], [0x61, 0x62], [0x78, 0x78, 0x61, 0x62], [0x61, 0x58, 0x62], [], [0x61], [0x62, 0x61]],
      (match exec Shape.unrepaired CType.probed dLitAb 0 text with
       | .found ms me => some (ms, me)
       | _ => none) = Zvbi.Search.exactLit false [0x61, 0x62] {} text := by
  refine ⟨compile_litab, ?_⟩
  decide +kernel

end Zvbi.Props.C17Ure
