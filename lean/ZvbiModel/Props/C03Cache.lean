import ZvbiModel.Props.C03
import ZvbiModel.Props.C10Ttx
import ZvbiModel.Ttx.CacheSent
/-!
# C03, part 4 - "no page is stored under a page number other than one that was transmitted", as a statement
about what the cache HOLDS

`Props/C03.lean` has `no_foreign_page_number`: every call of `_vbi_cache_put_page` (`Event.put q`) of every
history carries the (pgno, subno) the decoder computed from an accepted header of that history.  That is a
statement about the list of events.  The theorems below are about the other end:

1. the pages IN the cache (`Net.cache`, the most recently used list the decoder model keeps) of every reachable
   decoder state,
2. the entries of every state of the cache.c model (C10, `Zvbi.Cache.State`) which is in simulation with the
   decoder's list (`Zvbi.Props.C10Ttx.Sim`; `sim_get` / `sim_put` there keep the simulation through look-ups and
   stores),
3. a packet with uncorrectable address, a header with uncorrectable page number: no cache operation at all, the
   same cache.c state is still in simulation.

The stored sub-code is the one of the header or 0: `_vbi_cache_put_page` files the page under sub-code 0 for
some key classes (`putKey`: sub-code 0, clock pages and sub-codes that are no BCD time, sub-codes above 0x79).

Property theorems only (model `ZvbiModel/Ttx/Model.lean`, `ZvbiModel/Cache/Model.lean`; helper lemmas
`ZvbiModel/Ttx/CacheSent.lean`: invariant `CacheOk` over all reachable states, next to `AsmOk` of Lemmas7).
-/
namespace Zvbi.Props.C03Cache
open Zvbi.Ttx Zvbi.Ttx.Spec Zvbi.Hamm Zvbi.Gen

/-! ## 1. the decoder's cache -/

/-- Over every history of packets (any bytes whatever, decoder with or without a Teletext handler): every page
    that IS in the cache afterwards - Level one pages stored by `store_lop`, and the TOP (BTT / AIT / MPT), POP,
    DRCS and unknown-function pages stored when a header terminates them (`default:` and DRCS branches of the
    header code) - sits under a page number which the decoder computed (`hdrKey`: Hamming 8/4 decode of address
    and page number, header accepted) from some header packet of that history, and under the sub-code of that
    very header or under sub-code 0.  Look-ups (move to front), the table parsers, the statistics, channel
    switch resets (which empty the cache) and refused packets add nothing.
    Proved by an invariant over all reachable states (`CacheOk` with `AsmOk`). -/
theorem cached_page_numbers_transmitted (on : Bool) (ps : List Packet) (x : Page)
    (hx : x ∈ (run (init.enable on) ps).1.net.cache) :
    ∃ p ∈ ps, ∃ m sub, hdrKey p = some (m, x.pgno, sub) ∧ (x.subno = sub ∨ x.subno = 0) := by
  have := run_cacheOk (init.enable on) [] ps (init_ok on) (init_cacheOk on) x hx
  simpa [SentKey] using this

/-- non-vacuity: a header of page 123 sub-code 2359 followed by a second header of the same magazine: the cache
    then holds exactly one page, under number 0x123 - and under sub-code 0, not 0x2359 (`putKey`: 0x2359 is above
    0x2300, no clock time), which is why the sub-code clause reads "of that header or 0". -/
example : ((run (init.enable true) [C03.f21Tx, C03.f21Tx.set 2 21]).1.net.cache.map fun x => (x.pgno, x.subno))
      = [(0x123, 0)]
    ∧ hdrKey C03.f21Tx = some (1, 0x123, 0x2359) := by
  decide +kernel

/-! ## 2. the cache.c model -/

/-- The same about the state of the cache.c model (property C10).  Let `cs` be ANY state of that model in which
    the retrievable entries of network `nid` are the decoder's page list after history `ps`
    (`C10Ttx.Sim`; `enc` abstracts the page content; `C10Ttx.sim_get` / `sim_put` show that look-ups and stores
    performed on both sides keep this relation).  Then every entry of network `nid` in `cs` - everything
    `_vbi_cache_get_page (ca, cn, ..)` can ever return for that network - is filed under a page number the decoder
    computed from an accepted header of `ps`, and under that header's sub-code or 0. -/
theorem c10_state_holds_only_transmitted_numbers (on : Bool) (ps : List Packet) (nid : Nat) (enc : Page → Nat)
    (cs : Zvbi.Cache.State) (hsim : Zvbi.Props.C10Ttx.Sim nid enc (run (init.enable on) ps).1.net.cache cs)
    (e : Zvbi.Cache.Entry) (he : e ∈ cs.abs) (hn : e.net = nid) :
    ∃ p ∈ ps, ∃ m sub, hdrKey p = some (m, e.pgno, sub) ∧ (e.subno = sub ∨ e.subno = 0) := by
  have h1 : e ∈ cs.abs.filter (fun e => decide (e.net = nid)) := List.mem_filter.mpr ⟨he, by simpa using hn⟩
  unfold Zvbi.Props.C10Ttx.Sim at hsim
  rw [hsim] at h1
  unfold Zvbi.Cache.tstore at h1
  obtain ⟨x, hx, rfl⟩ := List.mem_map.mp h1
  exact cached_page_numbers_transmitted on ps x hx

/-- non-vacuity: the cache.c model after `cache_network` creation and one `_vbi_cache_put_page` of page 123 /
    2359 (a Level one page) is in simulation with the decoder after the two-header history above, and it holds an
    entry of that network. -/
example : Zvbi.Props.C10Ttx.Sim 0 (fun _ => 0) (run (init.enable true) [C03.f21Tx, C03.f21Tx.set 2 21]).1.net.cache
      (Zvbi.Cache.runF true Zvbi.Cache.init [.addNet, .put 0 ⟨0x123, 0x2359, 0, 0, 0, 0⟩])
    ∧ ((Zvbi.Cache.runF true Zvbi.Cache.init [.addNet, .put 0 ⟨0x123, 0x2359, 0, 0, 0, 0⟩]).abs.map
        fun e => (e.net, e.pgno, e.subno)) = [(0, 0x123, 0)] := by
  unfold Zvbi.Props.C10Ttx.Sim
  decide +kernel

/-! ## 3. refused packets -/

/-- A packet whose address bytes are uncorrectable, and a header whose page number is uncorrectable, perform no
    cache operation at all (no event, in particular no `put` and no look-up), and ANY cache.c state that was in
    simulation with the decoder's page list before the packet is in simulation with it afterwards: the cache
    stays exactly as it was - nothing is stored, replaced, moved or deleted on account of such a packet. -/
theorem rejected_packet_leaves_c10_state (s : St) (p : Packet) (nid : Nat) (enc : Page → Nat)
    (cs : Zvbi.Cache.State) (hsim : Zvbi.Props.C10Ttx.Sim nid enc s.net.cache cs) :
    (a16 p 0 = none →
      (decodeTeletext s p).ev = [] ∧ Zvbi.Props.C10Ttx.Sim nid enc (decodeTeletext s p).st.net.cache cs) ∧
    (∀ pmag, a16 p 0 = some pmag → pmag >>> 3 = 0 → s.mask = true → a16 p 2 = none →
      (decodeTeletext s p).ev = [] ∧ Zvbi.Props.C10Ttx.Sim nid enc (decodeTeletext s p).st.net.cache cs) := by
  constructor
  · intro h
    rw [C03.bad_address_no_effect s p h]
    exact ⟨rfl, hsim⟩
  · intro pmag ha h0 hm hpg
    obtain ⟨h1, h2⟩ := C03.bad_header_page_number s p pmag ha h0 hm hpg
    rw [h1]
    refine ⟨rfl, ?_⟩
    show Zvbi.Props.C10Ttx.Sim nid enc (desync s).net.cache cs
    rw [h2]; exact hsim

/-- non-vacuity: both kinds of packet exist (bad address; header of magazine 1 with a bad page number), and the
    state after the two-header history above has a handler registered - with the one-page cache.c state of the
    example in section 2 (which proves the `Sim`) it is an instance of the hypotheses. -/
example : a16 [0x01, 0x15] 0 = none
    ∧ (a16 ((C03.f21Tx.set 2 0x01).set 3 0x15) 0 = some 1 ∧ a16 ((C03.f21Tx.set 2 0x01).set 3 0x15) 2 = none)
    ∧ (run (init.enable true) [C03.f21Tx, C03.f21Tx.set 2 21]).1.mask = true := by
  decide +kernel

end Zvbi.Props.C03Cache
