import ZvbiModel.Rawdec.PermitParts
/-!
# C04, round 5 - `_vbi_sampling_par_from_services_log`: do the computed sampling parameters cover the returned services?

Model: `Rawdec/FromSvc.lean` (the per-row `double` results and the shape of the scan line range update are regenerated
from src/sampling_par.c by `translate/gen_rawdecfromsvc.py`).  The function documents its return value as the "subset of
services covered by the calculated sampling parameters".

* FALSE for the released range update (`from_services_counterexample`, F80: WSS 625 + Caption 625 -> line 23 is not in
  the returned range; confirmed on the C code, `corpus/C04/F80-from-services-range.ops`).
* With the repaired update (`fixes/sampling-par-from-services-range.diff`): for EVERY request and video standard argument
  every table row that contributed to the result has the video standard of the returned parameters, is part of the
  returned set, and both of its line ranges lie inside the returned ranges - `permit_service`'s line test accepts it for
  every strictness (`from_services_covers_every_returned_service`).
* The length test of `permit_service` at strict >= 1 is a different matter: `samples` is truncated where the test needs
  it rounded up (`from_services_strict_length_counterexample`, F81: Teletext D 625).
-/
namespace Zvbi.Props.C04FromSvc
open Zvbi.Rawdec Zvbi.Generated.ServiceTable Zvbi.Generated.RawdecFromSvc

/-- **from_services_source_known.** Every statement of /repo's `_vbi_sampling_par_from_services_log` the model depends on
    was found in a known form (either shape of the range update); stops compiling otherwise. -/
theorem from_services_source_known : fsKnown = true := by decide

/-- **from_services_counterexample** (F80).  Released range update, 625 line standards, WSS 625 | Caption 625 field 1:
    both services are returned, `start[0] = 22`, `count[0] = 1` - line 23 is outside, and `permit_service` (strict 1)
    refuses the WSS row on the very parameters that were computed for it.  With the repaired update: count 2, accepted. -/
theorem from_services_counterexample :
    (fromServices false 1 0x408).1 = 0x408 ∧
    ((fromServices false 1 0x408).2.1.start0, (fromServices false 1 0x408).2.1.count0) = (22, 1) ∧
    (serviceTable[7]?.map (fun r => (r.id, permitService (fromServices false 1 0x408).2.1 r 1))) = some (0x400, false) ∧
    ((fromServices true 1 0x408).2.1.start0, (fromServices true 1 0x408).2.1.count0) = (22, 2) ∧
    (serviceTable[7]?.map (fun r => permitService (fromServices true 1 0x408).2.1 r 1)) = some true := by
  decide +kernel

/-- **from_services_covers_every_returned_service.** Repaired range update, EVERY request `services` and video standard
    argument (`fam`: none / 625 / 525 / both): every table row that contributed to the result
    * is part of the returned service set,
    * belongs to the video standard the returned `scanning` stands for,
    * has, in each field it uses, its lines `first .. last` inside the returned non-empty range with a known start line,
    * hence passes the scan line test of `_vbi_sampling_par_permit_service` for every strictness. -/
theorem from_services_covers_every_returned_service (fam services : Nat) (strict : Int) :
    ∀ r ∈ (fromServices true fam services).2.2.2,
      r.id &&& (fromServices true fam services).1 = r.id ∧
      r.videostd &&& videostdOfScanning (fromServices true fam services).2.1.scanning ≠ 0 ∧
      (∀ f, r.first f > 0 → r.last f > 0 →
        (fromServices true fam services).2.1.count f > 0 ∧ 0 < (fromServices true fam services).2.1.start f ∧
        (fromServices true fam services).2.1.start f ≤ r.first f ∧
        r.last f + 1 ≤ (fromServices true fam services).2.1.start f + (fromServices true fam services).2.1.count f) ∧
      (∀ f, permitField (fromServices true fam services).2.1 r strict f = true) := by
  intro r hr
  unfold fromServices at hr ⊢
  by_cases h3 : fam ≥ 3
  · simp only [h3, if_true] at hr; cases hr
  simp only [h3, if_false] at hr ⊢
  have hg0 : GoodAcc fam (fsInit fam) := ⟨by unfold fsInit; simp only []; omega, by show 0 < fsStart0; decide, by show 0 < fsStart0; decide, fun _ => rfl⟩
  obtain ⟨_, _, hk⟩ := trace_keep fam services (serviceTable.zip fsConsts) (fsInit fam)
    (fun x hx => (List.of_mem_zip hx).1) hg0
  generalize fsTrace true fam services (serviceTable.zip fsConsts) (fsInit fam) = res at hr hk ⊢
  by_cases hz : res.1.rsv = 0
  · simp only [hz, if_true] at hr; cases hr
  simp only [hz, if_false] at hr ⊢
  obtain ⟨k1, k2, k3, k4, k5⟩ := hk r hr
  have hcov : ∀ f, r.first f > 0 → r.last f > 0 →
      (fsFinal res.1).count f > 0 ∧ 0 < (fsFinal res.1).start f ∧ (fsFinal res.1).start f ≤ r.first f ∧
      r.last f + 1 ≤ (fsFinal res.1).start f + (fsFinal res.1).count f := by
    intro f f1 f2
    by_cases hf : f = 0
    · subst hf
      obtain ⟨c1, c2, c3, c4⟩ := k3 f1 f2
      simp only [FsAcc.start, FsAcc.count, if_true] at c1 c2 c3 c4
      have hc : ¬ res.1.count0 = 0 := by omega
      simp only [fsFinal, SPar.count, SPar.start, if_true, hc, if_false]
      exact ⟨c1, c2, c3, c4⟩
    · have hr1 : r.first f = r.first 1 := by simp [Row.first, hf]
      have hr2 : r.last f = r.last 1 := by simp [Row.last, hf]
      rw [hr1] at f1; rw [hr2] at f2
      obtain ⟨c1, c2, c3, c4⟩ := k4 f1 f2
      simp only [FsAcc.start, FsAcc.count, show ((1 : Nat) = 0) = False from by simp, if_false] at c1 c2 c3 c4
      have hc : ¬ res.1.count1 = 0 := by omega
      rw [hr1, hr2]
      simp only [fsFinal, SPar.count, SPar.start, hf, if_false, hc]
      exact ⟨c1, c2, c3, c4⟩
  refine ⟨k5, ?_, hcov, ?_⟩
  · simp only [fsFinal]
    rcases k2 with k | k
    · have : res.1.vstd = 1 := by rw [k1, k]
      rw [this, k]; decide
    · have : res.1.vstd = 2 := by rw [k1, k]
      rw [this, k]; decide
  · intro f
    unfold permitField
    by_cases h0 : r.first f = 0 ∨ r.last f = 0
    · simp only [h0, if_true]
    · simp only [h0, if_false]
      obtain ⟨c1, c2, c3, c4⟩ := hcov f (by omega) (by omega)
      have : ¬ (fsFinal res.1).count f = 0 := by omega
      simp only [this, if_false]
      split
      · rfl
      split
      · rfl
      · simp only [Bool.not_eq_true', Bool.or_eq_false_iff, decide_eq_false_iff_not]
        omega

/-- **from_services_permits_every_returned_service.** Repaired range update, EVERY request, video standard argument and
    strictness: every table row that contributed to the result passes the WHOLE of `_vbi_sampling_par_permit_service` on
    the returned parameters (video standard, known start lines, rate 27 MHz >= 1.5 x the bit rate, line length, field
    flags, scan lines) - with one exception, stated: when the strictness margin of 1 us applies (`(unsigned) strict > 0`)
    the row must not be Teletext D 625 (F81, `from_services_strict_length_counterexample`) or one of the two VBI pseudo
    services (which `add_services` masks out anyway). -/
theorem from_services_permits_every_returned_service (fam services : Nat) (strict : Int) :
    ∀ r ∈ (fromServices true fam services).2.2.2,
      (strictU strict = 0 ∨ (r.id ≠ 0x8000 ∧ r.id &&& (slicedVbi525 ||| slicedVbi625) = 0)) →
      permitService (fromServices true fam services).2.1 r strict = true := by
  intro r hr hs
  obtain ⟨_, h1, hcov, hpf⟩ := from_services_covers_every_returned_service fam services strict r hr
  obtain ⟨hmem, hfmt, hrate, hbpl, hsy⟩ := fromServices_sp_facts true fam services r hr
  obtain ⟨t1, t2, t3, t4, t5⟩ := T_rate r hmem
  apply permitService_of_parts _ r strict h1 _ (by rw [hrate]; exact t1) _
    (permitLen_1440 _ r hmem strict hfmt hrate hbpl hs) hsy (hpf 0) (hpf 1)
  · intro ⟨_, h⟩
    rcases h with ⟨hf, hz⟩ | ⟨hf, hz⟩
    · have := (hcov 0 (by simpa [Row.first] using hf) (by simpa [Row.last] using t4 hf)).2.1
      simp only [SPar.start, if_true] at this
      omega
    · have := (hcov 1 (by simpa [Row.first] using hf) (by simpa [Row.last] using t5 hf)).2.1
      simp only [SPar.start, show ((1 : Nat) = 0) = False from by simp, if_false] at this
      omega
  · rw [hrate]
    intro h
    rcases h with h | h | h
    · exact t2 h
    · exact t3 h
    · revert h; decide

/-- non-vacuity: Teletext B + VPS + WSS + Caption 625, video standard from the services, strict 2: all six rows permitted -/
example : (fromServices true 0 0x41f).2.2.2.map (fun r => permitService (fromServices true 0 0x41f).2.1 r 2)
    = [true, true, true, true, true, true] := by decide +kernel

/-- non-vacuity: all 625 line services (the Teletext B row pair included): lines 6-23 and 318-335 -/
example : (fromServices true 0 0xf41f).1 = 0xf41f ∧ (fromServices true 0 0xf41f).2.2.2.length = 10 ∧
    ((fromServices true 0 0xf41f).2.1.start0, (fromServices true 0 0xf41f).2.1.count0,
     (fromServices true 0 0xf41f).2.1.start1, (fromServices true 0 0xf41f).2.1.count1) = (6, 18, 318, 18) := by decide +kernel

/-- **from_services_strict_length_counterexample** (F81).  Teletext D 625 alone: `samples = (int)((signal + 1e-6) * rate)`
    = 1443 is the truncated value, `bytes_per_line = 1443`; `permit_service` with strict >= 1 demands
    `1443 / 27 MHz - 1 us >= signal` = 52.456 us, i.e. 1443.3 samples: the row is refused on the parameters computed for it
    (both shapes of the range update; strict 0 accepts). -/
theorem from_services_strict_length_counterexample :
    (fromServices true 1 0x8000).1 = 0x8000 ∧ (fromServices true 1 0x8000).2.1.bpl = 1443 ∧
    (serviceTable[4]?.map (fun r => (r.id, permitService (fromServices true 1 0x8000).2.1 r 1,
      permitService (fromServices false 1 0x8000).2.1 r 1, permitService (fromServices true 1 0x8000).2.1 r 0)))
      = some (0x8000, false, false, true) := by
  decide +kernel

end Zvbi.Props.C04FromSvc
