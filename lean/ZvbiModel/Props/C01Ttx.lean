import ZvbiModel.Ttx.LemmasF7
/-!
# C01 obligations of the Teletext packet decoder: no array index leaves its array, no `assert` fails

The model `Ttx.Model` marks every indexed write / read whose index is outside the array extent
(extents regenerated from the C headers into `Generated/TtxLayout.lean` on every run) and every
failing `assert` as `Aux.fault site`.  This file shows that no such mark is reachable, for every
packet history.  Reverting one of the repairs (F18 btt_link, F22 convert_drcs, F23 pop pointer) or
shrinking an array in the headers changes a generated constant and breaks these proofs.
Per-site lemmas first, then the induction over histories.  Helper lemmas: `Ttx/LemmasF1..F7.lean`.
-/
namespace Zvbi.Props.C01Ttx
open Zvbi.Ttx Zvbi.Ttx.Spec Zvbi.Hamm Zvbi.Gen

/-! ## per-site lemmas -/

/-- `parse_mot`: every index into `pop_lut[256]` / `drcs_lut[256]` is in range, for every packet
    number (the index sequence does not depend on the data) -/
theorem mot_indices_in_range (packet : Nat) : ∀ it, it ∈ motItems packet → it.2 < ttxLutSize :=
  Zvbi.Ttx.mot_indices_in_range packet

/-- `parse_mot` as a whole (look-up tables, `pop_link[2][8]`, `drcs_link[2][8]`): no index fault -/
theorem mot_no_fault (m : Magazine) (v : View) (packet : Nat) : NoFault (parseMot m v packet).2 :=
  parseMot_nofault m v packet

/-- BTT packets 21..23 index `btt_link[(packet - 21) * 5 + i]` inside the array -/
theorem btt_link_index_in_range (packet i : Nat) (hp : packet ≤ 23) (hi : i < 5) :
    (packet - 21) * 5 + i < BTT_LINKS := Zvbi.Ttx.btt_link_index_in_range packet i hp hi

/-- POP packets 1..4: `pointer[(packet - 1) * stride + 2 i + 1]`, i = 1..12, inside `pointer[]` -/
theorem pop_pointer_index_in_range (packet i : Nat) (hp : 1 ≤ packet ∧ packet ≤ 4) (hi : 1 ≤ i ∧ i ≤ 12) :
    (packet - 1) * (if ttxFixF23 then 24 else 26) + 2 * i + 1 < POP_POINTER_SIZE :=
  Zvbi.Ttx.pop_pointer_index_in_range packet i hp hi

/-- POP packets 3..25 and 26/0..15: `triplet[(packet - 3) * 13 + i]` inside `triplet[39 * 13 + 1]` -/
theorem pop_triplet_index_in_range (packet i : Nat) (hp : packet ≤ 41) (hi : i < 13) :
    (packet - 3) * 13 + i < POP_TRIPLET_SIZE := Zvbi.Ttx.pop_triplet_index_in_range packet i hp hi

/-- an accepted X/26 packet (fill level `13 d < 16 * 13`) stores its 13 triplets inside `enh[209]` -/
theorem x26_enh_index_in_range (v : View) (enh : List Triplet) (nt : Nat) (h : nt < 16 * 13) (d : Nat)
    (hd : nt = d * 13) : NoFault (x26Triplets v enh nt).2.2 :=
  Zvbi.Ttx.x26_enh_index_in_range v enh nt h d hd

/-- `convert_drcs`: for EVERY sequence of 48 PTU modes the write pointer stays inside
    `drcs.chars[48][60]` and the read pointer inside `raw[1..25]` - given repair F22 (checked from
    the generated flag) and the "last PTU" repair -/
theorem drcs_offsets_in_range (hfix : ttxFixDrcsLastPtu = true) (modes : List Nat) :
    convertDrcsBounds modes = [] := Zvbi.Ttx.drcs_offsets_in_range hfix modes

/-- ... which is needed: without it a 12x10x4 character in the last PTU reads 20 bytes behind
    `raw[]` (witness; replayed on the C code by fixes/drcs-last-ptu-overread.ttx.ops) -/
theorem drcs_offsets_counterexample (hf : ttxFixDrcsLastPtu = false) :
    convertDrcsBounds (List.replicate 47 0 ++ [2]) = [Aux.fault "drcs:chars"] :=
  drcs_last_ptu_counterexample hf

/-- page numbers handed to `cache_network_page_stat`: (a) every page number the decoder gives a
    slot is `mag8 * 256 + page`, 0x100..0x8FF -/
theorem page_stat_pgno_in_range (mag0 page : Nat) (hm : mag0 < 8) (hp : page < 256) :
    PgnoOk ((if mag0 == 0 then 8 else mag0) * 256 + page) := Zvbi.Ttx.page_stat_pgno_in_range mag0 page hm hp

/-- (b) MPT rows: the page number sequence of every packet -/
theorem page_stat_pgno_in_range_mpt (packet : Nat) : ∀ it, it ∈ mptItems packet → PgnoOk it.2 :=
  mpt_pgnos_in_range packet

/-- (c) BTT rows 1..20: wherever uncorrectable bytes made the loop `break`, every group of ten
    starts at an index with room for ten page numbers below 0x900 -/
theorem page_stat_pgno_in_range_btt : ∀ packet < 21, ∀ g < 4,
    ∀ i ∈ bttReach (dec2bcdp.getD (packet - 1) 0) g, i + 9 < 0x800 := btt_reach_in_range

/-- (d) MIP: magazine base + entry offset (this is where the guard `if (packet == 14) break;`
    matters: without it `mipOffsets` would contain 0x10A.. and the bound fails) -/
theorem page_stat_pgno_in_range_mip : (∀ it ∈ mipOffsets, it.2.2 ≤ 0xFF) ∧
    (∀ pgno < 0x900, 0x100 ≤ pgno → 0x100 ≤ pgno &&& 0xF00 ∧ (pgno &&& 0xF00) + 0xFF ≤ 0x8FF) :=
  ⟨mip_offsets_in_range, mip_base_in_range⟩

/-- (e) TOP links (BTT 21..23, MPT-EX, AIT) are range checked by `unham_top_page_link` -/
theorem page_stat_pgno_in_range_top (v : View) (i : Nat) (l : Link) (h : unhamTopPageLink v i = some l) :
    PgnoOk l.pgno.toNat := unhamTopPageLink_range v i l h

/-- `get_bits` in `parse_28_29` never asks for more than the 13 triplets of the packet, on every
    path (designation 0, 1, 3, 4; X/28 and M/29) -/
theorem x28_bits_within_13_triplets (s : St) (mag0 mag8 packet : Nat) (v : View) (hu : v.u24.length = 13) :
    NoFault (parse2829 s mag0 mag8 packet v).2.1 := Zvbi.Ttx.x28_bits_within_13_triplets s mag0 mag8 packet v hu

/-! ## all histories -/

/-- For EVERY packet history (any bytes, any interleaving, with or without a Teletext handler)
    from the initial state, the only fault mark `run` can emit is the DRCS one, and only as long
    as the "last PTU" repair is missing from packet.c.  (Invariant over reachable states:
    `AsmOk` - every live slot carries the page number of an accepted header, hence 0x100..0x8FF.) -/
theorem only_drcs_fault_reachable (on : Bool) (ps : List Packet) (site : String)
    (h : Event.aux (Aux.fault site) ∈ (run (init.enable on) ps).2) :
    site = "drcs:chars" ∧ ttxFixDrcsLastPtu = false :=
  run_only (init.enable on) [] ps (init_ok on) site h

/-- **no_fault_reachable**: with the "last PTU" repair in place (then `hfix` is `rfl`), no packet
    history makes the decoder index outside an array or fail an assertion. -/
theorem no_fault_reachable (hfix : ttxFixDrcsLastPtu = true) (on : Bool) (ps : List Packet) (site : String) :
    Event.aux (Aux.fault site) ∉ (run (init.enable on) ps).2 := by
  intro h
  have := (only_drcs_fault_reachable on ps site h).2
  rw [hfix] at this
  cases this

/-- FULL STATEMENT for the current tree (false until the repair is applied, see
    `drcs_offsets_counterexample`) -/
def no_fault_reachable_full : Prop :=
  ∀ (on : Bool) (ps : List Packet) (site : String), Event.aux (Aux.fault site) ∉ (run (init.enable on) ps).2

/-- non-vacuity: a header packet (page 123.2359) runs through the decoder without a mark -/
example : ((run (init.enable true) [[2, 21, 94, 73, 199, 115, 94, 73, 21, 21] ++ List.replicate 32 32]).2.all
    fun e => match e with | Event.aux (Aux.fault _) => false | _ => true) = true ∧
    (run (init.enable true) [[2, 21, 94, 73, 199, 115, 94, 73, 21, 21] ++ List.replicate 32 32]).2 ≠ [] := by
  decide +kernel

end Zvbi.Props.C01Ttx
