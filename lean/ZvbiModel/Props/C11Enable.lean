import ZvbiModel.Ev.Enable
import ZvbiModel.Ev.Model
/-!
# C11, side effects of `vbi_event_enable`: enabling an event class resets exactly the state of that
class and nothing else

The program of `vbi_event_enable` is regenerated from src/vbi.c on every run
(`Generated/EvEnable.lean`); the statements below are about that program, so an edit of the function
(another `prog_info` index, a dropped or an added assignment, another event set in a condition) makes
this file fail to check.
-/
namespace Zvbi.Props.C11Enable
open Zvbi.Ev.Enable Zvbi.Gen.Ev

/-- the bits of the event class `cls` that are requested now and were not requested before:
`mask & ~vbi->event_mask & cls` (32 bit) -/
def gained (cls old new : Nat) : Nat := (new &&& (M32 ^^^ old)) &&& cls

/-- network identification: VBI_EVENT_NETWORK and VBI_EVENT_NETWORK_ID -/
def NET : Nat := VBI_EVENT_NETWORK ||| VBI_EVENT_NETWORK_ID
/-- program information: VBI_EVENT_ASPECT and VBI_EVENT_PROG_INFO -/
def PROG : Nat := VBI_EVENT_ASPECT ||| VBI_EVENT_PROG_INFO

/-- The specification: which locations `vbi_event_enable (vbi, new)` resets when `vbi->event_mask = old`.
A single-event service is reset when its event becomes requested; the network state when NETWORK or
NETWORK_ID becomes requested (also when the other one already was); the program information only when
neither ASPECT nor PROG_INFO was requested before (a second consumer must not erase what the first one is
being told about); everything else never. -/
def resets (old new : Nat) : Loc → Bool
  | .ttx => gained VBI_EVENT_TTX_PAGE old new != 0
  | .caption => gained VBI_EVENT_CAPTION old new != 0
  | .network | .cniCycle | .cniAnnounced => gained NET old new != 0
  | .triggers => gained VBI_EVENT_TRIGGER old new != 0
  | .progInfo0 | .progInfo1 | .future0 | .future1 | .aspectSource =>
      gained PROG old new != 0 && old &&& PROG == 0
  | .vpsPid => gained VBI_EVENT_PROG_ID old new != 0
  | .rest => false

/-- the value a location has after its reset: `prog_info[1]` describes the *next* programme
(`future = TRUE`), everything else is cleared -/
def resetVal : Loc → Nat
  | .future1 => 1
  | _ => 0

/-- **Enabling resets exactly the documented state.**  For every decoder state, every old and new event mask
and every location: after `vbi_event_enable` the location holds its reset value if the specification says
its class became requested, and otherwise exactly what it held before. -/
theorem enable_resets_exactly (d : Dec) (old new : Nat) (l : Loc) :
    (enable d old new).1 l = if resets old new l then resetVal l else d l := by
  have put_apply : ∀ (d : Dec) (a : Loc) (v : Nat) (b : Loc), put d a v b = if b = a then v else d b :=
    fun _ _ _ _ => rfl
  have run_apply : ∀ (act : Nat) (d : Dec) (b : Zvbi.Gen.EvEnable.Branch) (x : Loc),
      runBranch old act d b x
        = if act &&& b.act ≠ 0 ∧ old &&& b.guard = 0 then (b.body.foldl exec1 d) x else d x := by
    intro act d b x; unfold runBranch; split <;> rfl
  cases l <;>
    simp [enable, Zvbi.Gen.EvEnable.program, List.foldl, run_apply, exec1, put_apply, resets, gained, resetVal,
      NET, PROG, VBI_EVENT_TTX_PAGE, VBI_EVENT_CAPTION, VBI_EVENT_NETWORK, VBI_EVENT_NETWORK_ID,
      VBI_EVENT_TRIGGER, VBI_EVENT_ASPECT, VBI_EVENT_PROG_INFO, VBI_EVENT_PROG_ID]

example : (enable planted 0 0x40).1 .progInfo1 = 0 ∧ (enable planted 0 0x40).1 .future1 = 1
    ∧ (enable planted 0 0x40).1 .future0 = 0 ∧ (enable planted 0 0x40).1 .vpsPid = 7 := by decide
example : (enable planted 0x80 0xc0).1 .progInfo1 = 7 := by decide

/-- the new event mask is the argument -/
theorem enable_stores_mask (d : Dec) (old new : Nat) : (enable d old new).2 = new := rfl

/-- **... and nothing else.**  A location whose value differs after the call is one the specification
resets; in particular the rest of the decoder (`Loc.rest`) is never written. -/
theorem enable_touches_nothing_else (d : Dec) (old new : Nat) (l : Loc)
    (h : (enable d old new).1 l ≠ d l) : resets old new l = true := by
  rw [enable_resets_exactly] at h
  cases hr : resets old new l
  · simp [hr] at h
  · rfl

theorem enable_rest_untouched (d : Dec) (old new : Nat) : (enable d old new).1 .rest = d .rest := by
  rw [enable_resets_exactly]; simp [resets]

example : ∃ d old new l, (enable d old new).1 l ≠ d l := ⟨planted, 0, 2, .ttx, by decide⟩

/-- The reset flags logged with every registration call in the histories of `Props/C11` (`Entry.enable mask
flags`, model `Zvbi.Ev.enableFlags`, compared with the sentinels of the harness on every API call) are a
summary of this specification: bit k is set iff the k-th service is reset. -/
theorem enableFlags_summarises (old new : Nat) :
    Zvbi.Ev.enableFlags old new
      = (if resets old new .ttx then 1 else 0) + (if resets old new .caption then 2 else 0)
        + (if resets old new .network then 4 else 0) + (if resets old new .triggers then 8 else 0)
        + (if resets old new .progInfo1 then 16 else 0) + (if resets old new .vpsPid then 32 else 0) := by
  simp [Zvbi.Ev.enableFlags, Zvbi.Ev.M32, M32, resets, gained, NET, PROG, actTtx, actCaption, actNetwork,
    actTrigger, actProgInfo, actProgId, progInfoGuard,
    VBI_EVENT_TTX_PAGE, VBI_EVENT_CAPTION, VBI_EVENT_NETWORK, VBI_EVENT_NETWORK_ID,
    VBI_EVENT_TRIGGER, VBI_EVENT_ASPECT, VBI_EVENT_PROG_INFO, VBI_EVENT_PROG_ID]
  by_cases h1 : new &&& (4294967295 ^^^ old) &&& 2 = 0 <;>
  by_cases h2 : new &&& (4294967295 ^^^ old) &&& 4 = 0 <;>
  by_cases h3 : new &&& (4294967295 ^^^ old) &&& 264 = 0 <;>
  by_cases h4 : new &&& (4294967295 ^^^ old) &&& 16 = 0 <;>
  by_cases h6 : new &&& (4294967295 ^^^ old) &&& 2048 = 0 <;>
  by_cases h5 : new &&& (4294967295 ^^^ old) &&& 192 = 0 <;>
  by_cases h7 : old &&& 192 = 0 <;>
  simp [h1, h2, h3, h4, h5, h6, h7]

example : Zvbi.Ev.enableFlags 0 0xc2 = 17 := by decide

theorem testBit_M32 (i : Nat) : M32.testBit i = decide (i < 32) := by
  have h : M32 = 2 ^ 32 - 1 := by decide
  rw [h, Nat.testBit_two_pow_sub_one]

/-- What `gained` means bit by bit: some event of the class is requested now and was not before. -/
theorem gained_iff (cls old new : Nat) (hc : cls < 2 ^ 32) :
    gained cls old new ≠ 0 ↔ ∃ i, cls.testBit i = true ∧ new.testBit i = true ∧ old.testBit i = false := by
  constructor
  · intro h
    obtain ⟨i, hi⟩ := Nat.exists_testBit_of_ne_zero h
    refine ⟨i, ?_⟩
    simp only [gained, Nat.testBit_and, Nat.testBit_xor, testBit_M32, Bool.and_eq_true] at hi
    obtain ⟨⟨hn, ho⟩, hcl⟩ := hi
    refine ⟨hcl, hn, ?_⟩
    cases hob : old.testBit i
    · rfl
    · have hlt : i < 32 := by
        rcases Nat.lt_or_ge i 32 with h32 | h32
        · exact h32
        · have : cls.testBit i = false :=
            Nat.testBit_lt_two_pow (Nat.lt_of_lt_of_le hc (Nat.pow_le_pow_right (by decide) h32))
          simp [this] at hcl
      simp [hob, hlt] at ho
  · rintro ⟨i, hcl, hn, ho⟩ h0
    have hlt : i < 32 := by
      rcases Nat.lt_or_ge i 32 with h32 | h32
      · exact h32
      · have : cls.testBit i = false :=
          Nat.testBit_lt_two_pow (Nat.lt_of_lt_of_le hc (Nat.pow_le_pow_right (by decide) h32))
        simp [this] at hcl
    have : (gained cls old new).testBit i = true := by
      simp only [gained, Nat.testBit_and, Nat.testBit_xor, testBit_M32, hcl, hn, ho, hlt]; decide
    simp [h0] at this

/-- Registering without a change of the union resets nothing: `vbi_event_enable (vbi, vbi->event_mask)`
leaves every location as it was (masks are C `int`s: 32 bit). -/
theorem enable_same_mask_resets_nothing (d : Dec) (m : Nat) (hm : m < 2 ^ 32) (l : Loc) :
    (enable d m m).1 l = d l := by
  have hz : ∀ cls, gained cls m m = 0 := by
    intro cls
    apply Nat.eq_of_testBit_eq
    intro i
    simp only [gained, Nat.testBit_and, Nat.testBit_xor, testBit_M32, Nat.zero_testBit]
    by_cases h32 : i < 32
    · simp [h32]
    · have : m.testBit i = false :=
        Nat.testBit_lt_two_pow (Nat.lt_of_lt_of_le hm (Nat.pow_le_pow_right (by decide) (Nat.le_of_not_lt h32)))
      simp [this]
  rw [enable_resets_exactly]
  cases l <;> simp [resets, hz]

end Zvbi.Props.C11Enable
