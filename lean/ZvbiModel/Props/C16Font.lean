import ZvbiModel.Export.Font
import ZvbiModel.Export.LemmasFont
/-!
# C16, glyph lookup of the Teletext renderer stays inside the font image

`draw_char` reads the font image at `glyph * 12` bits of each of the 10 scan lines of 1536 glyphs; a glyph number
>= 1536 reads the next scan line and, on the last one, past the end of `wstfont2_bits`.
-/
namespace Zvbi.Props.C16Font
open Zvbi.Export

/-- With the G1 repair: for every character code and both styles the glyph number is inside the font image. -/
theorem glyph_in_font_repaired (c : Nat) (italic : Bool) : unicodeWstfont2 true c italic < fontGlyphs :=
  unicodeWstfont2_lt c italic

example : unicodeWstfont2 true 0x44F true = 559 ∧ unicodeWstfont2 true 0x41 true = 33 + 31 * 32 := by decide

/-- Upright characters are inside the font image in the unrepaired code too: only the italic attribute is affected. -/
theorem glyph_in_font_upright (clamp : Bool) (c : Nat) : unicodeWstfont2 clamp c false < fontGlyphs := by
  have h : unicodeWstfont2 clamp c false = unicodeWstfont2 true c false := by
    unfold unicodeWstfont2 glyphTail; simp
  rw [h]; exact unicodeWstfont2_lt c false

example : unicodeWstfont2 false 0x44F false = 559 := by decide

/-- G1 witness (unrepaired code): every italic U+0440 .. U+045F gets a glyph number 1536 .. 1567, outside the image
(row 17 + 31 = row 48 of 48). -/
theorem glyph_outside_font_counterexample :
    unicodeWstfont2 false 0x44F true = 1551 ∧ ¬ (unicodeWstfont2 false 0x44F true < fontGlyphs) ∧
    (∀ c, 0x440 ≤ c → c ≤ 0x45F → fontGlyphs ≤ unicodeWstfont2 false c true) := by
  refine ⟨by decide, by decide, ?_⟩
  intro c h1 h2
  have e : unicodeWstfont2 false c true = c - 0x400 + 15 * 32 + 31 * 32 := by
    unfold unicodeWstfont2 glyphTail
    rw [if_neg (by omega), if_pos (by omega), if_pos (by omega), if_neg (by omega), if_neg (by omega)]
    simp
  rw [e]; unfold fontGlyphs; omega

/-- The tree under test (flag measured on the compiled code): when the repair is present every glyph is inside the font image. -/
theorem glyph_in_font (h : currentFontClamp = true) (c : Nat) (italic : Bool) : unicodeWstfont2 currentFontClamp c italic < fontGlyphs := by
  rw [h]; exact unicodeWstfont2_lt c italic

end Zvbi.Props.C16Font
