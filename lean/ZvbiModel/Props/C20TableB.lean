import ZvbiModel.Locks.Lemmas
import ZvbiModel.Locks.Instance
/-!
# C20 - table theorems, part B: pairwise lock discipline (`decide +kernel` over the COMPLETE table that
`translate/gen_locks.py` extracts from the current source; split over three files so that they
build in parallel)
-/
namespace Zvbi.Props.C20
open Zvbi.Locks Zvbi.Locks.Instance Zvbi.Generated.Locks

/-- **Lock discipline, no exception.**  For the documented roles (decode | fetch_cc_page |
channel_switched | raw decode | add/remove/check services): every conflicting pair of accesses to
the listed shared fields by two roles that may run concurrently is bracketed by a common mutex. -/
theorem table_discipline : tableDRF noKnown roles = true := by decide +kernel

/-- corollary: the statement of the first delivery, which had to excuse the pairs of K1 -/
theorem table_discipline_modulo_known : tableDRF knownRace roles = true :=
  tableDRF_mono (fun _ _ h => by simp [noKnown] at h) table_discipline

end Zvbi.Props.C20
