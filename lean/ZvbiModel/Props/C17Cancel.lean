import ZvbiModel.Search.Cancel
import ZvbiModel.Search.Spec
/-!
# C17, the cancel path of the progress callback (seeded bug C17-g; round 6)

`Search/Cancel.lean` models `search_page_fwd` / `search_page_rev` with a progress callback that returns FALSE at every k-th
invocation (`pageP`, `searchNextP`; compared with the real code on every run: op `progress <k>` of the harness, generator
`gen_cancel_case`, and the oracle compares the interrupted pass with the uninterrupted one).  Proved here: what the cancel
block does to the search context - the guard `if (_this != start)` the seeded bug drops.
OPEN (`def cancel_resume_equals_uninterrupted : Prop`, not proved): the reports of an interrupted and resumed pass are
the reports of the uninterrupted pass.
-/
namespace Zvbi.Props.C17Cancel
open Zvbi.Search

/-- **cancel_keeps_cursor.** When the callback cancels while the page returned last is being re-examined (the page is
the start position), the search context stays as it is - start position, cursor `row[] / col[]` behind the occurrence
delivered last - so the resumed call continues behind that occurrence. -/
theorem cancel_keeps_cursor (s : SearchSt) (pgno : Nat) (e : Entry)
    (h : key pgno e.subno = key s.startPgno s.startSubno) : cancelAt s pgno e = s := by
  unfold cancelAt; rw [if_neg (by simpa using h)]

example : cancelAt { startPgno := 0x100, startSubno := 0, row0 := 3, col0 := 7 } 0x100 ⟨0, FUNC_LOP, [], 0⟩ =
    { startPgno := 0x100, startSubno := 0, row0 := 3, col0 := 7 } := cancel_keeps_cursor _ _ _ (by decide)

/-- **cancel_moves_start.** When the callback cancels at any other page, that page becomes the start position and the
cursor is put at the top of the page (rows FIRST_ROW .. LAST_ROW, column 0); stop positions and direction stay. -/
theorem cancel_moves_start (s : SearchSt) (pgno : Nat) (e : Entry)
    (h : key pgno e.subno ≠ key s.startPgno s.startSubno) :
    (cancelAt s pgno e).startPgno = pgno ∧ (cancelAt s pgno e).startSubno = e.subno ∧
    (cancelAt s pgno e).row0 = FIRST_ROW ∧ (cancelAt s pgno e).row1 = LAST_ROW + 1 ∧
    (cancelAt s pgno e).col0 = 0 ∧ (cancelAt s pgno e).col1 = 0 ∧
    (cancelAt s pgno e).dir = s.dir ∧ (cancelAt s pgno e).stopPgno0 = s.stopPgno0 ∧ (cancelAt s pgno e).stopSubno0 = s.stopSubno0 ∧
    (cancelAt s pgno e).stopPgno1 = s.stopPgno1 ∧ (cancelAt s pgno e).stopSubno1 = s.stopSubno1 := by
  unfold cancelAt; rw [if_pos h]; exact ⟨rfl, rfl, rfl, rfl, rfl, rfl, rfl, rfl, rfl, rfl, rfl⟩

example : (cancelAt { startPgno := 0x100, startSubno := 0, row0 := 3, col0 := 7 } 0x101 ⟨0, FUNC_LOP, [], 0⟩).row0 = 1 :=
  (cancel_moves_start _ _ _ (by decide)).2.2.1

/-- **cancel_callback_counts.** The callback is invoked (and can cancel) only for level one pages that pass the stop
test; a page that stops the pass or is not a level one page is handled as without callback and the counter stays. -/
theorem cancel_callback_counts (k : Nat) (sh : Shape) (exec : Exec) (d : Int) (ps : PSt) (pgno : Nat) (e : Entry) (w : Bool)
    (h : ((if d > 0 then stopFwd ps.s pgno e w else stopRev ps.s pgno e w) || decide (e.func ≠ FUNC_LOP)) = true) :
    pageP k sh exec d ps pgno e w =
      ((callbackOf sh exec d ps.s pgno e w).1, { ps with s := (callbackOf sh exec d ps.s pgno e w).2 }) := by
  unfold pageP; simp only [h, if_true]

example : (pageP 1 Shape.repaired (fun _ _ => none) 1 ⟨{}, 0⟩ 0x100 ⟨0, 1, [], 0⟩ false).2.n = 0 := by decide

/-- OPEN, not proved: over a whole pass, the SUCCESS reports of `searchNextP k` calls (cancelled calls resumed) are the
SUCCESS reports of `searchNext` calls.  Judged on the real code by `cancel_oracle` (checks/C17.py) on every run. -/
def cancel_resume_equals_uninterrupted : Prop :=
  ∀ (k : Nat) (sh : Shape) (exec : Exec) (c : Cache) (s0 : SearchSt) (d : Int) (n : Nat), 2 ≤ k →
    ∃ m, (((runNexts sh exec c s0 (List.replicate n d)).takeWhile (fun r => r.1 = .ret SEARCH_SUCCESS)).map (fun r => r.2)) <+:
      ((List.range m).foldl (fun (acc : List (Nat × Nat) × Cache × PSt) _ =>
          let o := searchNextP k sh exec walkFuel acc.2.1 acc.2.2 d
          (if o.1.res = .ret SEARCH_SUCCESS then acc.1 ++ [(o.1.st.pgPgno, o.1.st.pgSubno)] else acc.1, o.1.cache, ⟨o.1.st, o.2⟩))
        ([], c, ⟨s0, 0⟩)).1

end Zvbi.Props.C17Cancel
