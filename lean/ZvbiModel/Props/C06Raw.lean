import ZvbiModel.Mux.RawFeed
import ZvbiModel.Mux.AcceptLemmas
import ZvbiModel.Mux.RawAbort
import ZvbiModel.Mux.AcceptRaw
import ZvbiModel.Mux.RawLink
import ZvbiModel.Mux.LemmasStream
/-!
# C06, round 3 - frames with raw (monochrome samples) lines, the repaired stuffing, the converse

Property theorems only.  Model: `Mux/RawModel.lean` (`insert_raw_data_units`, `samples_pointer`,
`valid_sampling_par`, `generate_pes_packet` with `raw != NULL`, `vbi_dvb_mux_feed` with `raw` / `sp`);
independent reader of EN 301 775 4.9: `Mux/RawSpec.lean`; lemmas: `Mux/Raw{Lemmas,Pes,Gen,Feed}.lean`,
`Mux/AcceptLemmas.lean`.

`keep` is the source shape of `generate_pes_packet` (`Zvbi.Gen.muxKeepsLastDuSize`, read from
src/dvb_mux.c on every run by translate/gen_muxflags.py): `false` = the unchanged tree (finding F29),
`true` = the tree with fixes/C06-mux-raw-last-stuffing.diff.  Theorems quantified over `keep` hold
for both trees; what holds for one shape only says so.
-/
namespace Zvbi.Props.C06Raw
open Zvbi.Mux Zvbi.Mux.EnParse Zvbi.Mux.RawSpec

/-- a multiplexer between two `vbi_dvb_mux_feed` calls: API-reachable configuration, no raw line
    half sent (`raw_samples_left == 0`; kept by every call, see `raw_state_clean`) -/
structure StateOK (m : RMux) : Prop where
  cfg : CfgOK m.mux.cfg
  raw : m.raw.left = 0

/-- An accepted frame - sliced lines, raw lines, or both; any line length / sample offset the API
    admits; both data_identifier ranges; every packet size - is handed over as exactly one PES packet
    (PES mode) that the independent reader of EN 300 472 / EN 301 775 (with section 4.9) accepts: header,
    PTS, data units filling the packet exactly, legal stuffing, raw segments complete; size a multiple
    of 184 within the configured bounds; and no assertion fired.  Both source shapes. -/
theorem mux_wellformed_raw (keep : Bool) (m : RMux) (hm : StateOK m) (hp : m.mux.cfg.pid = 0) (lines : List Sliced)
    (mask : Nat) (raw : Option Bytes) (sp : Option Sp) (pts : Nat) (hwf : ∀ s ∈ lines, Sliced.WF s)
    (hok : (feedR keep m lines mask raw sp pts).2.ok = true) :
    ∃ pes p, (feedR keep m lines mask raw sp pts).2.calls = [some pes] ∧ parsePesR pes = some p
      ∧ p.size = pes.length ∧ pes.length % 184 = 0 ∧ m.mux.cfg.minSize ≤ pes.length ∧ pes.length ≤ m.mux.cfg.maxSize
      ∧ (feedR keep m lines mask raw sp pts).2.abort = none := by
  obtain ⟨hsp, pes, st', hg, hab, _, hpes, _⟩ := feedR_accepted keep m lines mask raw sp pts hok
  obtain ⟨⟨us, h1, _⟩, h2, h3, h4, _⟩ := generatePesR_ok keep m.mux.cfg hm.cfg m.raw hm.raw lines mask raw sp hsp pts hwf pes st' hg
  exact ⟨pes, _, hpes hp, h1, rfl, h2, h3, h4, hab⟩

/-- That packet carries exactly the lines selected by the service mask, in order: sliced lines as in
    round 1, and for every raw line request the reassembled samples of that line of the raw frame, on
    its line / field, first sample at `sp.offset - 132`; PTS mod 2^33; the configured data_identifier;
    every data unit but stuffing has a data_unit_length that fits its 8-bit field;
    every selected line was permitted (sliced service/line, or a raw request on lines 7..23 / 320..336
    inside the raw frame).  In TS mode the bytes are the TS packets of that PES packet. -/
theorem mux_carries_input_raw (keep : Bool) (m : RMux) (hm : StateOK m) (lines : List Sliced)
    (mask : Nat) (raw : Option Bytes) (sp : Option Sp) (pts : Nat) (hwf : ∀ s ∈ lines, Sliced.WF s)
    (hok : (feedR keep m lines mask raw sp pts).2.ok = true) :
    ∃ pes p st', generatePesR keep m.mux.cfg m.raw lines mask raw sp pts = .ok (pes, [], st') ∧ parsePesR pes = some p
      ∧ p.items = sentR mask (raw.getD []) (sp.getD dfltSp) lines ∧ p.pts = pts % 2 ^ 33 ∧ p.dataId = m.mux.cfg.dataId
      ∧ (∀ u ∈ p.units, u.id ≠ 0xFF → u.payload.length ≤ 255)
      ∧ (∀ s ∈ lines, s.id &&& mask ≠ 0 → PermittedAny raw sp s)
      ∧ (m.mux.cfg.pid = 0 → (feedR keep m lines mask raw sp pts).2.bytes = pes)
      ∧ (m.mux.cfg.pid ≠ 0 → (feedR keep m lines mask raw sp pts).2.bytes = (tsPackets m.mux.cfg.pid m.mux.cc pes).flatten) := by
  obtain ⟨hsp, pes, st', hg, _, _, hpes, hts⟩ := feedR_accepted keep m lines mask raw sp pts hok
  obtain ⟨⟨us, h1, hlen⟩, _, _, _, h5, _⟩ := generatePesR_ok keep m.mux.cfg hm.cfg m.raw hm.raw lines mask raw sp hsp pts hwf pes st' hg
  refine ⟨pes, _, st', hg, h1, rfl, rfl, rfl, hlen, h5, ?_, ?_⟩
  · intro hp; simp [FeedROut.bytes, hpes hp]
  · intro hp; simp only [FeedROut.bytes, hts hp, filterMap_id_map_some]

/-- Every raw data unit of an accepted frame parses per EN 301 775 4.9: data_unit_id 0xC6, a length
    that holds the 4 header bytes and n_pixels samples (the rest stuffing 0xFF; 0x2C in the EN 300 472
    compatible format, hence n_pixels <= 40 there; at most 255), 1 <= n_pixels <= 251,
    first_pixel_position + n_pixels <= 720,
    line_offset 7..23; and
    the segments of the packet, read in order, assemble (first / last flags consistent, each segment
    starting where the one before ended, same line, nothing in between) - that is what
    `(unitsItems p.units).bind assemble = some p.items` says - to exactly the requested lines. -/
theorem raw_units_wellformed (keep : Bool) (m : RMux) (hm : StateOK m) (lines : List Sliced)
    (mask : Nat) (raw : Option Bytes) (sp : Option Sp) (pts : Nat) (hwf : ∀ s ∈ lines, Sliced.WF s)
    (hok : (feedR keep m lines mask raw sp pts).2.ok = true) :
    ∃ pes p st', generatePesR keep m.mux.cfg m.raw lines mask raw sp pts = .ok (pes, [], st') ∧ parsePesR pes = some p
      ∧ parseUnits (pes.drop 46) = some p.units
      ∧ (unitsItems p.units).bind assemble = some (sentR mask (raw.getD []) (sp.getD dfltSp) lines)
      ∧ (m.mux.cfg.dataId ≤ 0x1F → ∀ u ∈ p.units, u.payload.length = 0x2C)
      ∧ ∀ u ∈ p.units, u.id = 0xC6 → u.payload.length ≤ 255 ∧ ∃ s, unitSeg u = some s
          ∧ 1 ≤ s.px.length ∧ s.px.length ≤ 251 ∧ s.pos + s.px.length ≤ 720
          ∧ ((7 ≤ s.line ∧ s.line ≤ 23) ∨ (320 ≤ s.line ∧ s.line ≤ 336))
          ∧ 4 + s.px.length ≤ u.payload.length := by
  obtain ⟨pes, p, st', hg, hp, hitems, _, hdid, hlen, _⟩ := mux_carries_input_raw keep m hm lines mask raw sp pts hwf hok
  obtain ⟨h1, h2, body, h3, h4⟩ := parsePesR_units pes p hp
  refine ⟨pes, p, st', hg, hp, by rw [← h4]; exact h3, by rw [← hitems]; exact h1, ?_, ?_⟩
  · intro hd u hu
    exact h2 (by rw [hdid]; exact hd) u hu
  · intro u hu hid
    cases hui : unitsItems p.units with
    | none => rw [hui] at h1; simp at h1
    | some is =>
      obtain ⟨s, hs, _⟩ := unitsItems_mem_seg p.units is hui u hu hid
      obtain ⟨a, b, c, _, e⟩ := unitSeg_some u s hs
      have hl := hlen u hu (by rw [hid]; decide)
      exact ⟨hl, s, hs, a, by omega, b, c, e⟩

/-- Round trip of the samples: the independent reader returns, for every raw line request
    (`VBI_SLICED_VBI_625` selected by the mask) of an accepted frame, exactly the `samples_per_line`
    input samples of that line (row `line - start[field]` of its field in the raw frame), on that line,
    first sample `offset - 132` samples into the active line - and nothing else but the sliced lines. -/
theorem raw_roundtrip (keep : Bool) (m : RMux) (hm : StateOK m) (lines : List Sliced)
    (mask : Nat) (rawb : Bytes) (sp : Sp) (pts : Nat) (hwf : ∀ s ∈ lines, Sliced.WF s)
    (hok : (feedR keep m lines mask (some rawb) (some sp) pts).2.ok = true) :
    ∃ pes p st', generatePesR keep m.mux.cfg m.raw lines mask (some rawb) (some sp) pts = .ok (pes, [], st')
      ∧ parsePesR pes = some p ∧ p.items = sentR mask rawb sp lines
      ∧ (∀ s ∈ lines, s.id = SL_VBI625 → s.id &&& mask ≠ 0 →
          Out.raw ⟨s.line, sp.offset - 132, (rawLineOf rawb sp s.line).px⟩ ∈ p.items ∧ PermittedRaw sp s
          ∧ (rawLineOf rawb sp s.line).px.length = sp.spl)
      ∧ (∀ r, Out.raw r ∈ p.items → ∃ s ∈ lines, s.id = SL_VBI625 ∧ s.id &&& mask ≠ 0 ∧ r = rawLineOf rawb sp s.line) := by
  obtain ⟨pes, p, st', hg, hp, hitems, _, _, _, hperm, _⟩ :=
    mux_carries_input_raw keep m hm lines mask (some rawb) (some sp) pts hwf hok
  simp only [Option.getD_some] at hitems
  refine ⟨pes, p, st', hg, hp, hitems, ?_, ?_⟩
  · intro s hs hid hm'
    rcases hperm s hs hm' with hper | ⟨rawb', sp', hr', hsp', hper, hlen⟩
    · exact absurd hid (permitted_not_raw s hper)
    · injection hr' with hr'; injection hsp' with hsp'; subst hr' hsp'
      exact ⟨by rw [hitems]; exact mem_sentR_raw mask rawb sp lines s hs hid hm', hper, hlen⟩
  · intro r hr
    rw [hitems] at hr
    exact sentR_raw_mem mask rawb sp lines r hr

/-- With `raw == NULL` and `sp == NULL` the raw-capable model of the unchanged tree answers exactly as the
    round 1 model `feed` (same return value, same callbacks, same multiplexer afterwards), for every
    frame - also frames with raw line requests, which are then refused or masked out.  So the round 1 / 2
    theorems (`mux_wellformed`, `mux_demux_roundtrip_lib`, `cor_equals_feed`, ...) and the theorems of
    this file speak about one and the same model. -/
theorem raw_model_extends_round1 (m : RMux) (hm : StateOK m) (lines : List Sliced) (mask pts : Nat) :
    (feedR false m lines mask none none pts).2.ok = (feed m.mux lines mask pts 0).2.ok
    ∧ (feedR false m lines mask none none pts).2.calls = (feed m.mux lines mask pts 0).2.calls
    ∧ (feedR false m lines mask none none pts).1.mux = (feed m.mux lines mask pts 0).1 :=
  feedR_null m hm.raw lines mask pts

/-- `raw_samples_left` is never carried from one `vbi_dvb_mux_feed` call to the next (since the
    repair of F28): whatever the outcome - accepted, rejected for content or size, invalid sampling
    parameters - the multiplexer is left with no raw line half sent and its configuration untouched. -/
theorem raw_state_clean (keep : Bool) (m : RMux) (hm : StateOK m) (lines : List Sliced)
    (mask : Nat) (raw : Option Bytes) (sp : Option Sp) (pts : Nat) (hwf : ∀ s ∈ lines, Sliced.WF s) :
    StateOK (feedR keep m lines mask raw sp pts).1 := by
  refine ⟨by rw [feedR_cfg]; exact hm.cfg, ?_⟩
  cases hok : (feedR keep m lines mask raw sp pts).2.ok with
  | true =>
    obtain ⟨hsp, pes, st', hg, _, hst, _, _⟩ := feedR_accepted keep m lines mask raw sp pts hok
    obtain ⟨_, _, _, _, _, h6⟩ := generatePesR_ok keep m.mux.cfg hm.cfg m.raw hm.raw lines mask raw sp hsp pts hwf pes st' hg
    rw [hst]; exact h6
  | false =>
    rcases (feedR_rejected keep m lines mask raw sp pts hok).2 with h | h
    · exact h
    · rw [h]; exact hm.raw

/-- A frame that is not accepted (and does not abort) causes no callback and no bytes. -/
theorem mux_rejects_atomically_raw (keep : Bool) (m : RMux) (lines : List Sliced) (mask : Nat) (raw : Option Bytes)
    (sp : Option Sp) (pts : Nat) (hrej : (feedR keep m lines mask raw sp pts).2.ok = false) :
    (feedR keep m lines mask raw sp pts).2.calls = [] ∧ (feedR keep m lines mask raw sp pts).2.bytes = [] := by
  have h := (feedR_rejected keep m lines mask raw sp pts hrej).1
  exact ⟨h, by simp [FeedROut.bytes, h]⟩

/-- Repaired shape: `encode_stuffing` always completes the packet - `stuffing_completes` without the
    side condition `hone` left to the caller.  Whenever the loop of `generate_pes_packet` has converted
    all lines of a frame (any mix of sliced and raw lines, any configuration), the packet is completed:
    the call `encode_stuffing (p, p_left, last_du_size, fixed_length)` meets its preconditions (a
    multiple of 46 in the fixed format; with one byte left the last unit is known and shorter than
    257 bytes - a 257-byte raw unit gets one more TS payload of stuffing instead), no assertion can
    fire, and the result is the well-formed packet of `mux_wellformed_raw`. -/
theorem stuffing_completes_repaired (m : RMux) (hm : StateOK m) (lines : List Sliced)
    (mask : Nat) (raw : Option Bytes) (sp : Option Sp) (hsp : ∀ sp', sp = some sp' → validSp sp' = true) (pts : Nat)
    (hwf : ∀ s ∈ lines, Sliced.WF s) (out : Bytes) (du : Nat) (st' : RawSt)
    (hloop : genLoopR true mask (fixedLengthFormat m.mux.cfg.dataId) raw sp (lines.length + 1) (m.mux.cfg.maxSize - 46) 0 0
      m.raw lines = .ok (out, du, [], st')) :
    ∃ pes p, generatePesR true m.mux.cfg m.raw lines mask raw sp pts = .ok (pes, [], st') ∧ parsePesR pes = some p
      ∧ pes.length % 184 = 0 ∧ m.mux.cfg.minSize ≤ pes.length ∧ pes.length ≤ m.mux.cfg.maxSize := by
  obtain ⟨pes, hg⟩ := generatePesR_completes m.mux.cfg hm.cfg m.raw hm.raw lines mask raw sp hsp pts hwf out du st' hloop
  obtain ⟨⟨us, h1, _⟩, h2, h3, h4, _⟩ := generatePesR_ok true m.mux.cfg hm.cfg m.raw hm.raw lines mask raw sp hsp pts hwf pes st' hg
  exact ⟨pes, _, hg, h1, h2, h3, h4⟩

/-- Repaired shape, EVERY frame - accepted, rejected for its content, or too big so that only a part of
    its lines (or of the samples of a raw line) was converted before `encode_stuffing` runs - in every
    reachable state and configuration, with `raw` / `sp` NULL or given (the raw frame holding the
    `count[0] + count[1]` lines the caller declares): `vbi_dvb_mux_feed` never aborts; every failure
    is a `FALSE` return.  No assertion of `generate_pes_packet`, `encode_stuffing`,
    `insert_sliced_data_units` can fire and no byte outside the raw frame is read. -/
theorem mux_never_aborts_repaired (m : RMux) (hm : StateOK m) (lines : List Sliced) (mask : Nat) (raw : Option Bytes)
    (sp : Option Sp) (hraw : RawHolds raw sp) (pts : Nat) (hwf : ∀ s ∈ lines, Sliced.WF s) :
    (feedR true m lines mask raw sp pts).2.abort = none :=
  feedR_noabort m hm.cfg hm.raw lines mask raw sp hraw pts hwf

/-! ### F29 on the two shapes: one raw line of 131 samples, data_identifier 0x99 (46 + 6 + 131 = 183) -/

def f29Mux : RMux := { mux := { cfg := { dataId := 0x99 } } }
def f29Sp : Sp := { offset := 132, spl := 131, start0 := 10, count0 := 1, start1 := 0, count1 := 0 }
def f29Raw : Bytes := (List.range 131).map fun k => (2 + 7 * k) % 256
def f29Frame : List Sliced := [⟨SL_VBI625, 10, List.replicate 56 0⟩]

/-- unchanged tree: the assertion in `encode_stuffing` fires (the process aborts; replay
    corpus/C06/raw-last-assert.ops on the real code) -/
theorem f29_counterexample :
    (feedR false f29Mux f29Frame 0xFFFFFFFF (some f29Raw) (some f29Sp) 1000).2.abort
      = some (.base (.assertFail "dvb_mux.c:167 last_du_size >= 2")) := by decide +kernel

/-- repaired tree: the same frame is accepted as one packet of 184 bytes whose raw unit was extended
    by one stuffing byte -/
theorem f29_repaired :
    (feedR true f29Mux f29Frame 0xFFFFFFFF (some f29Raw) (some f29Sp) 1000).2.ok = true
    ∧ (feedR true f29Mux f29Frame 0xFFFFFFFF (some f29Raw) (some f29Sp) 1000).2.abort = none
    ∧ ((feedR true f29Mux f29Frame 0xFFFFFFFF (some f29Raw) (some f29Sp) 1000).2.bytes.drop 46).take 6
        = [0xC6, 4 + 131 + 1, 0xC0 + 0x20 + 10, 0, 0, 131] := by decide +kernel

/-! ### the converse: every permitted frame that fits is accepted -/

/-- `mux_accepts_all_permitted_full` (round 1/2 open statement), proved: a frame of sliced lines
    (`raw == NULL` use; lines not selected by the mask may be anything, also raw requests) whose line
    numbers - all of them, selected or not, as the outer scan of `generate_pes_packet` checks - ascend
    strictly apart from 0, whose selected lines are permitted service / line combinations, and whose
    data units fit `max_packet_size` together with the 46 header bytes, IS accepted. -/
theorem mux_accepts_all_permitted (m : Mux) (hc : CfgOK m.cfg) (lines : List Sliced) (mask pts : Nat)
    (hwf : ∀ s ∈ lines, Sliced.WF s) (hord : Ordered 0 lines)
    (hperm : ∀ s ∈ lines, s.id &&& mask ≠ 0 → Permitted s)
    (hfit : 46 + unitsSize (fixedLengthFormat m.cfg.dataId) mask lines ≤ m.cfg.maxSize) :
    (feed m lines mask pts 0).2.ok = true :=
  feed_accepts m hc lines mask pts hwf hord hperm hfit

/-- The converse with raw lines, repaired shape: any multiplexer between two calls, a frame whose line
    numbers ascend strictly (0 skipped), whose selected lines are admitted - a permitted sliced
    service / line, or a raw line request on lines 7..23 / 320..336 lying inside the raw frame, with
    `raw` and valid sampling parameters given and the raw frame as large as declared - and whose data
    units (`frameSize`: 46 / 16 / 5 bytes per sliced line, `n + 6 ceil (n / 251)` per raw line of `n`
    samples, or 46 per unit in the EN 300 472 compatible format) fit `max_packet_size` with the 46
    header bytes, IS accepted.  The one exception is a hypothesis, documented in
    `insert_raw_data_units` ("one byte left is too small for a stuffing unit"): in the variable-length
    format the data must not end exactly one byte before `max_packet_size`. -/
theorem mux_accepts_all_permitted_raw (m : RMux) (hm : StateOK m) (lines : List Sliced) (mask : Nat)
    (raw : Option Bytes) (sp : Option Sp) (hsp : ∀ sp', sp = some sp' → validSp sp' = true) (hraw : RawHolds raw sp)
    (pts : Nat) (hwf : ∀ s ∈ lines, Sliced.WF s) (hord : Ordered 0 lines)
    (hperm : ∀ s ∈ lines, s.id &&& mask ≠ 0 → Admitted raw sp s)
    (hfit : 46 + frameSize (fixedLengthFormat m.mux.cfg.dataId) mask (sp.getD dfltSp).spl lines ≤ m.mux.cfg.maxSize)
    (hslack : fixedLengthFormat m.mux.cfg.dataId = false →
      46 + frameSize false mask (sp.getD dfltSp).spl lines + 1 ≠ m.mux.cfg.maxSize) :
    (feedR true m lines mask raw sp pts).2.ok = true :=
  feedR_accepts m hm.cfg hm.raw lines mask raw sp hsp hraw pts hwf hord hperm hfit hslack

/-! non-vacuity -/
def exSp : Sp := { offset := 140, spl := 300, start0 := 7, count0 := 3, start1 := 320, count1 := 2 }
def exRaw : Bytes := (List.range (5 * 300)).map fun k => (5 + 7 * k) % 256
def exLine (id line : Nat) : Sliced := ⟨id, line, List.replicate 56 0x15⟩
def exMux (d : Nat) : RMux := { mux := { cfg := { dataId := d } } }

example : RawHolds (some exRaw) (some exSp) := by
  intro r s hr hs; injection hr with hr; injection hs with hs; subst hr hs; decide +kernel
example : StateOK (exMux 0x99) := ⟨⟨by decide, by decide, by decide, by decide, by decide, by decide⟩, rfl⟩
-- a frame mixing sliced and raw lines is accepted in both formats and shapes, a line outside the raw frame is not
example : (feedR true (exMux 0x99) [exLine 3 7, exLine SL_VBI625 8, exLine 0x400 23, exLine SL_VBI625 321] 0xFFFFFFFF
    (some exRaw) (some exSp) 7).2.ok = true := by decide +kernel
example : (feedR false (exMux 0x10) [exLine 3 7, exLine SL_VBI625 8, exLine SL_VBI625 321] 0xFFFFFFFF
    (some exRaw) (some exSp) 7).2.ok = true := by decide +kernel
example : (feedR true (exMux 0x99) [exLine SL_VBI625 10] 0xFFFFFFFF (some exRaw) (some exSp) 7).2.ok = false := by
  decide +kernel
-- the reader returns the samples: line 8 is row 1 of the first field, 300 samples from byte 300 of the frame
example : ((feedR true (exMux 0x99) [exLine SL_VBI625 8] 0xFFFFFFFF (some exRaw) (some exSp) 7).2.calls.head?.bind id).bind
      (fun pes => (parsePesR pes).map fun p => p.items)
    = some [Out.raw ⟨8, 8, (exRaw.drop 300).take 300⟩] := by decide +kernel
example : (feed newPes [exLine 3 7, exLine 4 16, exLine SL_VBI625 17] 0x7 5 0).2.ok = true := by decide +kernel
example : frameSize false 0xFFFFFFFF 300 [exLine 3 7, exLine SL_VBI625 8, exLine 0x400 23] = 46 + (300 + 12) + 5 := by decide
example : Admitted (some exRaw) (some exSp) (exLine SL_VBI625 8) := Or.inr ⟨⟨_, rfl⟩, _, rfl, by decide⟩
example : Ordered 0 [exLine 3 7, exLine 3 0, exLine 4 16] ∧ ¬ Ordered 0 [exLine 3 8, exLine 3 7] := by decide

end Zvbi.Props.C06Raw
