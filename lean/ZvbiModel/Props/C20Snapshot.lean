import ZvbiModel.Locks.Atomic
import ZvbiModel.Locks.CcSections
import ZvbiModel.Props.C20TableA
import ZvbiModel.Props.C20TableC
/-!
# C20 - snapshot consistency: critical sections are atomic (section-level serialisability)

`Locks/Atomic.lean` proves for all programs and schedules that, under the section discipline, every
interleaving is a serial execution of whole critical sections.  Here the discipline is discharged on
the table extracted from the current source, for `cc.mutex` / `vbi->cc.channel[*]` and for
`rd->mutex` / the `vbi3_raw_decoder` state, for every data semantics of the accesses that respects the
frame condition (only accesses to the protected fields see or change them).
-/
namespace Zvbi.Props.C20
open Zvbi.Locks Zvbi.Locks.Instance Zvbi.Generated.Locks

/-- Inside a section of `cc.mutex` and inside a section of `rd->mutex` no other mutex operation
occurs (no nested lock, no trylock): the only one is the closing unlock.  Decided on the complete table. -/
theorem table_sections_flat :
    (roles.all fun R => noNestB mx_cc R.accs) = true ∧ (roles.all fun R => noNestB mx_rd R.accs) = true := by
  decide +kernel

/-- the section discipline of `cc.mutex` over `vbi->cc.channel[*]` holds for every system of role threads -/
theorem caption_section_discipline {sys : List (Nat × List Action)} (wr : WellRoled roles sys) :
    SectionDiscipline isCcChannel mx_cc (progsOf sys) :=
  sectionDiscipline_of_table roles_annOK (List.all_eq_true.1 table_protection.1)
    (List.all_eq_true.1 table_sections_flat.1) (List.all_eq_true.1 table_try_free) wr

theorem raw_decoder_section_discipline {sys : List (Nat × List Action)} (wr : WellRoled roles sys) :
    SectionDiscipline isRd3 mx_rd (progsOf sys) :=
  sectionDiscipline_of_table roles_annOK (List.all_eq_true.1 table_protection.2.1)
    (List.all_eq_true.1 table_sections_flat.2) (List.all_eq_true.1 table_try_free) wr

/-- **Snapshot consistency, caption.**  Take any system of threads running the documented roles, any
type `Sh` for the contents of `vbi->cc.channel[*]`, any thread-local state, any data semantics of the
actions in which only the accesses to `cc.channel` see or change that state.  Every state of every
interleaving in which `cc.mutex` is free is a state of the section-serial execution: the one in which
`vbi_fetch_cc_page`, each stretch of `vbi_decode_caption` between two callbacks, and the caption reset
run as uninterrupted blocks. -/
theorem caption_sections_atomic {Sh : Type} {Lo : Type} {sys : List (Nat × List Action)} (wr : WellRoled roles sys)
    {D : DataSem Sh Lo} (frame : Frame isCcChannel D) {σ0 : Sh} {ls0 : List Lo} {S : DState Sh Lo}
    (r : DReach D (progsOf sys) σ0 ls0 S) (hf : Free S.thr mx_cc) : AReach D mx_cc (progsOf sys) σ0 ls0 S :=
  atomic_sections frame (caption_section_discipline wr) r hf

/-- **Every fetched caption page is a snapshot of the sequential execution.**  While a thread `j` is
inside a `cc.mutex` section (e.g. in the middle of the `memcpy` of `vbi_fetch_cc_page`), the shared
caption state and everything `j` has copied so far (its local state) are exactly what `j` computes
running ALONE (`foldEff`) from a state `S0` of the section-serial execution in which `cc.mutex` was
free - i.e. every other thread, in particular the decoding thread, was at one of its unlock points
(before `vbi_decode_caption`, inside an event callback, after the call). -/
theorem caption_fetch_is_sequential_snapshot {Sh : Type} {Lo : Type} {sys : List (Nat × List Action)}
    (wr : WellRoled roles sys) {D : DataSem Sh Lo} (frame : Frame isCcChannel D) {σ0 : Sh} {ls0 : List Lo}
    {S : DState Sh Lo} (r : DReach D (progsOf sys) σ0 ls0 S) {j : Nat} {tj : Thread}
    (hj : S.thr[j]? = some tj) (hm : mx_cc ∈ tj.held) :
    ∃ (S0 : DState Sh Lo) (as : List Action) (l0 : Lo), AReach D mx_cc (progsOf sys) σ0 ls0 S0 ∧
      Free S0.thr mx_cc ∧ Run D j S0 as S ∧ S0.loc[j]? = some l0 ∧
      S.sh = (foldEff D j as (S0.sh, l0)).1 ∧ S.loc[j]? = some (foldEff D j as (S0.sh, l0)).2 :=
  open_section_is_serial frame (caption_section_discipline wr) r hj hm

/-- **Snapshot consistency, raw decoder.**  The same for `rd->mutex` and the `vbi3_raw_decoder` state
(services, jobs, pattern array): every interleaving is a serial execution of whole `vbi_raw_decode` /
add / remove / check-services sections. -/
theorem raw_decoder_sections_atomic {Sh : Type} {Lo : Type} {sys : List (Nat × List Action)} (wr : WellRoled roles sys)
    {D : DataSem Sh Lo} (frame : Frame isRd3 D) {σ0 : Sh} {ls0 : List Lo} {S : DState Sh Lo}
    (r : DReach D (progsOf sys) σ0 ls0 S) (hf : Free S.thr mx_rd) : AReach D mx_rd (progsOf sys) σ0 ls0 S :=
  atomic_sections frame (raw_decoder_section_discipline wr) r hf

/-- **Every raw decode uses one consistent service set.**  While a thread is inside an `rd->mutex`
section (one `vbi3_raw_decoder_decode` call), the decoder state and what the thread has decoded so far
are what it computes running alone from a state of the section-serial execution: the service set it
sees is the one left by a whole number of add/remove-services calls. -/
theorem raw_decode_uses_one_service_set {Sh : Type} {Lo : Type} {sys : List (Nat × List Action)}
    (wr : WellRoled roles sys) {D : DataSem Sh Lo} (frame : Frame isRd3 D) {σ0 : Sh} {ls0 : List Lo}
    {S : DState Sh Lo} (r : DReach D (progsOf sys) σ0 ls0 S) {j : Nat} {tj : Thread}
    (hj : S.thr[j]? = some tj) (hm : mx_rd ∈ tj.held) :
    ∃ (S0 : DState Sh Lo) (as : List Action) (l0 : Lo), AReach D mx_rd (progsOf sys) σ0 ls0 S0 ∧
      Free S0.thr mx_rd ∧ Run D j S0 as S ∧ S0.loc[j]? = some l0 ∧
      S.sh = (foldEff D j as (S0.sh, l0)).1 ∧ S.loc[j]? = some (foldEff D j as (S0.sh, l0)).2 :=
  open_section_is_serial frame (raw_decoder_section_discipline wr) r hj hm

/-! ## the caption decoder at lock granularity over the Cc model (`Locks/CcSections.lean`) -/

open Zvbi.Locks.CcSections in
/-- **Every caption page observable by a concurrent `vbi_fetch_cc_page` is a state of the sequential
execution of the decoding thread at one of its unlock points.**  Shared state = the state `Zvbi.Cc.St`
of the caption model (C08).  Thread 0 = the decoding thread, at lock granularity a sequence of `nsec`
sections `lock cc; secs k; unlock cc; callback` (the stretches of `vbi_decode_caption` /
`vbi_caption_channel_switched` between two points where `cc.mutex` is free: a `caption_send_event`
callback or the end of the call); the other threads each perform one `vbi_fetch_cc_page (n)` =
`lock cc; (Zvbi.Cc.fetchStep, Zvbi.Cc.fetchPage); unlock cc`.  For ALL section functions, numbers of
sections, request lists and schedules (interleavings of single lock / access / unlock / callback
steps): every page in the log of pages a thread has fetched is `Zvbi.Cc.fetchPage σ n` for the shared
state `σ` of a state of the section-serial execution (whole sections and whole earlier fetches, one
after the other, in an order consistent with each thread's program) in which `cc.mutex` is free. -/
theorem caption_fetched_pages_are_sequential_snapshots {secs : Nat → Zvbi.Cc.St → Zvbi.Cc.St} {nsec : Nat}
    {reqs : List Nat} {σ0 : Zvbi.Cc.St} {ls0 : List Log} (h0 : ∀ l ∈ ls0, l = [])
    {S : DState Zvbi.Cc.St Log} (r : DReach (sem secs) (progs nsec reqs) σ0 ls0 S)
    {i : Nat} {l : Log} (hl : S.loc[i]? = some l) {pg : Option Zvbi.Cc.Page} (hpg : pg ∈ l) :
    ∃ (S0 : DState Zvbi.Cc.St Log) (n : Nat), AReach (sem secs) cc (progs nsec reqs) σ0 ls0 S0 ∧
      Free S0.thr cc ∧ pg = Zvbi.Cc.fetchPage S0.sh (n : Int) :=
  fetched_pages_are_sequential_snapshots h0 r i l hl pg hpg

open Zvbi.Locks.CcSections in
/-- not vacuous: a decoding thread with two sections and two fetching threads form such a system,
and a schedule in which thread 1 fetches page 1 first reaches a state whose log holds that page -/
example : ∃ S : DState Zvbi.Cc.St Log,
    DReach (sem fun _ σ => σ) (progs 2 [1, 2]) Zvbi.Cc.init [[], [], []] S ∧
    S.loc[1]? = some [Zvbi.Cc.fetchPage Zvbi.Cc.init 1] := by
  let D := sem fun _ σ => σ
  have s1 : DStep D (dinit (progs 2 [1, 2]) Zvbi.Cc.init [[], [], []]) (1, .lock cc)
      ⟨(init (progs 2 [1, 2])).set 1 ⟨[cc], [.acc chv true 1, .unlock cc]⟩, Zvbi.Cc.init, [[], [], []]⟩ := by
    refine ⟨Step.mk (h := []) rfl ?_ rfl, [], rfl, rfl, rfl⟩
    intro t ht
    simp [dinit, init, progs] at ht
    rcases ht with rfl | rfl | rfl <;> simp
  have s2 : DStep D ⟨(init (progs 2 [1, 2])).set 1 ⟨[cc], [.acc chv true 1, .unlock cc]⟩, Zvbi.Cc.init, [[], [], []]⟩
      (1, .acc chv true 1)
      ⟨((init (progs 2 [1, 2])).set 1 ⟨[cc], [.acc chv true 1, .unlock cc]⟩).set 1 ⟨[cc], [.unlock cc]⟩,
        Zvbi.Cc.fetchStep Zvbi.Cc.init 1, [[], [Zvbi.Cc.fetchPage Zvbi.Cc.init 1], []]⟩ := by
    refine ⟨Step.mk (h := [cc]) rfl trivial rfl, [], rfl, ?_, ?_⟩ <;> simp [D, sem, X, chv]
  exact ⟨_, .step (.step .init s1) s2, rfl⟩

end Zvbi.Props.C20
