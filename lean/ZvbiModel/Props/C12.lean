import ZvbiModel.Hamm.Lemmas
import ZvbiModel.Hamm.Hamm24
import ZvbiModel.Hamm.Hamm24Enc
import ZvbiModel.Codec.Model
import ZvbiModel.Codec.Spec
import ZvbiModel.Codec.LemmasVps
import ZvbiModel.Codec.Lemmas830
/-!
# C12 - VPS, PDC and 8/30 codecs are exact inverses; bad input is rejected untouched

Property theorems only (helper lemmas live in `Hamm/` and `Codec/Lemmas*.lean`).

Conventions of the model (`Codec/Model.lean`): a buffer is a `List Nat`; `bt b i` reads byte `i`;
encoders return `(result, buffer after the call)`, decoders `Option value` (`none` = FALSE, nothing
stored).  `Bytes b` says every element is `< 256` (what `uint8_t[]` guarantees).
Every theorem quantifies over all buffers and all field values of the stated ranges.
-/
namespace Zvbi.Props.C12
open Zvbi.Hamm Zvbi.Codec Zvbi.Codec.Spec

/-! ## Hamming layer -/

/-- One correctable bit error in a Hamming 8/4 protected byte does not change the decoded value. -/
theorem hamm8_single_error_corrected : ∀ n < 16, ∀ k < 8, unham8 (ham8 n ^^^ (1 <<< k)) = some n :=
  unham8_single

example : unham8 (ham8 9 ^^^ (1 <<< 3)) = some 9 := by decide

/-- Two bit errors in a Hamming 8/4 byte are refused, never decoded as another value. -/
theorem hamm8_double_error_refused : ∀ n < 16, ∀ j < 8, ∀ k < 8, j ≠ k →
    unham8 (ham8 n ^^^ (1 <<< j) ^^^ (1 <<< k)) = none := unham8_double

example : unham8 (ham8 9 ^^^ (1 <<< 3) ^^^ (1 <<< 5)) = none := by decide

/-- A byte pair decodes iff both bytes decode (the `a | b << 4` sign trick of `vbi_unham16p`). -/
theorem unham16p_none_iff (p0 p1 : Nat) :
    unham16p p0 p1 = none ↔ (unham8 p0 = none ∨ unham8 p1 = none) := by
  unfold unham16p
  cases unham8 p0 <;> cases unham8 p1 <;> simp

example : unham16p (ham8 1) 1 = none := by decide

/-- Hamming 24/18: a triplet with zero syndrome decodes to the same 18 data bits after any single
    bit of any of its three bytes is flipped (`vbi_unham24p` corrects every single error). -/
theorem hamm24_single_error_corrected (p0 p1 p2 : Nat) (h0 : p0 < 256) (h1 : p1 < 256) (h2 : p2 < 256)
    (hv : triSyn p0 p1 p2 = 0) (k : Nat) (hk : k < 8) :
    unham24p p0 p1 p2 = some (triD p0 p1 p2) ∧
    unham24p (p0 ^^^ 1 <<< k) p1 p2 = some (triD p0 p1 p2) ∧
    unham24p p0 (p1 ^^^ 1 <<< k) p2 = some (triD p0 p1 p2) ∧
    unham24p p0 p1 (p2 ^^^ 1 <<< k) = some (triD p0 p1 p2) :=
  ⟨unham24p_valid p0 p1 p2 hv, unham24p_single0 p0 p1 p2 h0 hv k hk,
   unham24p_single1 p0 p1 p2 h0 h1 hv k hk, unham24p_single2 p0 p1 p2 h0 h2 hv k hk⟩

example : triSyn (ham24p 0x2ABCD).1 (ham24p 0x2ABCD).2.1 (ham24p 0x2ABCD).2.2 = 0 ∧
    unham24p ((ham24p 0x2ABCD).1 ^^^ 1 <<< 6) (ham24p 0x2ABCD).2.1 (ham24p 0x2ABCD).2.2 = some 0x2ABCD := by
  decide

/-- Hamming 24/18 round trip: `vbi_unham24p (vbi_ham24p c) = c` for all 2^18 values, and the three
    stored bytes are bytes with zero syndrome.  (Structural: every encoder stage is XOR-linear in
    `c`; tables linear by 256 x 8 flip facts; agreement at 0 and the 18 unit vectors.) -/
theorem hamm24_roundtrip (c : Nat) (hc : c < 2 ^ 18) :
    unham24p (ham24p c).1 (ham24p c).2.1 (ham24p c).2.2 = some c ∧
    IsTriplet (ham24p c) ∧ triSyn (ham24p c).1 (ham24p c).2.1 (ham24p c).2.2 = 0 := by
  obtain ⟨h0, h1, h2, hs, _⟩ := ham24p_valid c hc
  exact ⟨ham24p_unham24p c hc, ⟨h0, h1, h2⟩, hs⟩

example : unham24p (ham24p 0x3FFFF).1 (ham24p 0x3FFFF).2.1 (ham24p 0x3FFFF).2.2 = some 0x3FFFF := by decide

/-- For every 18-bit value and every one of the 24 transmitted bits: the triplet with that bit
    flipped still decodes to the value. -/
theorem hamm24_single_error_corrected_from_data (c : Nat) (hc : c < 2 ^ 18) (k : Nat) (hk : k < 24) :
    unham24t (flip24 (ham24p c) k) = some c := unham24_single_from_data c hc k hk

example : unham24t (flip24 (ham24p 0x15A5A) 23) = some 0x15A5A ∧
    unham24t (flip24 (ham24p 0x15A5A) 0) = some 0x15A5A := by decide

/-- Two distinct flipped bits of an encoded value are detected (`none`), never decoded as another
    value. -/
theorem hamm24_double_error_detected (c : Nat) (hc : c < 2 ^ 18) (j k : Nat) (hj : j < 24) (hk : k < 24)
    (hne : j ≠ k) : unham24t (flip24 (flip24 (ham24p c) j) k) = none :=
  unham24_double_from_data c hc j k hj hk hne

example : unham24t (flip24 (flip24 (ham24p 0x15A5A) 3) 17) = none := by decide

/-! ## VPS -/

/-- what `vbi_decode_vps_cni` reports for a line carrying the 12-bit code `cni`: the code itself,
    except the shared code 0xDC3 of TR 101 231 which is reported as ARD (0xDC1) or ZDF (0xDC2)
    according to bit 4 of byte 2 of the line (the documented exception of the property) -/
def vpsCniSeen (b : Buf) (cni : Nat) : Nat :=
  if cni = 0x0DC3 then (if bt b 2 &&& 0x10 ≠ 0 then 0x0DC1 else 0x0DC2) else cni

/-- Every CNI up to 0xFFF stored by `vbi_encode_vps_cni` into any 13-byte buffer is returned by
    `vbi_decode_vps_cni` (0xDC3 translated as documented). -/
theorem vps_cni_roundtrip (b : Buf) (hlen : b.length = 13) (cni : Nat) (h : cni ≤ 0xFFF) :
    ∃ b', encodeVpsCni b cni = (true, b') ∧ decodeVpsCni b' = vpsCniSeen b cni := by
  obtain ⟨b', he, _, h8, h10, h11, hr⟩ := encodeVpsCni_bytes b hlen cni h
  refine ⟨b', he, ?_⟩
  rw [decodeVpsCni_eq, rawVpsCni_of b' cni _ _ h h8 h10 h11, hr 2 (by decide) (by decide) (by decide)]
  rfl

example : decodeVpsCni (encodeVpsCni (List.replicate 13 0xFF) 0xDC3).2 = 0xDC1 ∧
    decodeVpsCni (encodeVpsCni (List.replicate 13 0) 0xABC).2 = 0xABC := by decide

/-- Every (CNI, PIL, PCS audio, PTY) in range - all 2^20 PILs, so service codes and unreal dates
    too - stored by `vbi_encode_vps_pdc` into any 13-byte buffer is returned exactly by
    `vbi_decode_vps_pdc`, with all other fields of the program ID cleared and `mi` set. -/
theorem vps_pdc_roundtrip (b : Buf) (hlen : b.length = 13) (p : Pid)
    (hc : p.cni ≤ 0xFFF) (hp : p.pil ≤ 0xFFFFF) (ha : p.pcsAudio ≤ 3) (ht : p.pty ≤ 0xFF) :
    ∃ b', encodeVpsPdc b p = (true, b') ∧
      decodeVpsPdc b' = { channel := VBI_PID_CHANNEL_VPS, cniType := VBI_CNI_TYPE_VPS,
                          cni := vpsCniSeen b p.cni, pil := p.pil, luf := 0, mi := 1, prf := 0,
                          pcsAudio := p.pcsAudio, pty := p.pty } := by
  obtain ⟨b', he, _, h2, h8, h9, h10, h11, h12, hr⟩ := encodeVpsPdc_bytes b hlen p hc hp ha ht
  refine ⟨b', he, ?_⟩
  have hraw : rawVpsCni b' = p.cni :=
    rawVpsCni_of b' p.cni (p.pil / 16384 % 64) (p.pil % 64) hc (by rw [h8]; omega) h10 h11
  have hbit : bt b' 2 &&& 0x10 = bt b 2 &&& 0x10 := by rw [and_10, and_10, h2]; omega
  have hcni : decodeVpsCni b' = vpsCniSeen b p.cni := by
    rw [decodeVpsCni_eq, hraw, hbit]; rfl
  have hpil : rawVpsPil b' = p.pil :=
    rawVpsPil_of b' p.pil (p.cni / 64 % 4) (p.cni / 1024) hp (by omega) h8 h9 h10
  have hpcs : bt b' 2 >>> 6 = p.pcsAudio := by rw [h2]; omega
  unfold rawVpsPil at hpil
  simp only [decodeVpsPdc, hcni, hpil, hpcs, h12]

example : decodeVpsPdc (encodeVpsPdc (List.replicate 13 0x55)
    { cni := 0xD95, pil := 0xFFFFF, pcsAudio := 2, pty := 0xA7 }).2
    = { channel := 4, cniType := 1, cni := 0xD95, pil := 0xFFFFF, mi := 1, pcsAudio := 2, pty := 0xA7 } := by
  decide

/-- Every 20-bit PIL stored by `vbi_encode_dvb_pdc_descriptor` is returned by
    `vbi_decode_dvb_pdc_descriptor`. -/
theorem dvb_pdc_roundtrip (b : Buf) (hlen : b.length = 5) (p : Pid) (hp : p.pil ≤ 0xFFFFF) :
    ∃ b', encodeDvbPdc b p = (true, b') ∧
      decodeDvbPdc b' = some { channel := VBI_PID_CHANNEL_PDC_DESCRIPTOR, pil := p.pil, mi := 1 } := by
  obtain ⟨b', he, _, h0, h1, h2, h3, h4, _⟩ := encodeDvbPdc_bytes b (by omega) p hp
  refine ⟨b', he, ?_⟩
  have hpil : ((bt b' 2 &&& 0x0F) <<< 16) + (bt b' 3 <<< 8) + bt b' 4 = p.pil := by
    rw [and_0F, h2, h3, h4]
    have : (240 + p.pil / 65536) % 16 = p.pil / 65536 := by omega
    rw [this]; omega
  simp [decodeDvbPdc, h0, h1, hpil]

example : decodeDvbPdc (encodeDvbPdc [0, 0, 0, 0, 0] { pil := 0x8ABCD }).2
    = some { channel := 5, pil := 0x8ABCD, mi := 1 } := by decide

/-- `vbi_encode_vps_cni` (accepting or refusing) keeps the length and every bit outside the CNI
    field: bytes other than 8, 10, 11 and the low six bits of byte 8 and high six of byte 10. -/
theorem vps_cni_encode_frame (b : Buf) (hlen : b.length = 13) (cni : Nat) :
    (encodeVpsCni b cni).2.length = 13 ∧
    (∀ i, i ≠ 8 → i ≠ 10 → i ≠ 11 → bt (encodeVpsCni b cni).2 i = bt b i) ∧
    bt (encodeVpsCni b cni).2 8 &&& 0x3F = bt b 8 &&& 0x3F ∧
    bt (encodeVpsCni b cni).2 10 &&& 0xFC = bt b 10 &&& 0xFC := by
  by_cases h : cni ≤ 0xFFF
  · obtain ⟨b', he, hl, h8, h10, _, hr⟩ := encodeVpsCni_bytes b hlen cni h
    rw [he]
    refine ⟨hl, hr, ?_, ?_⟩
    · show bt b' 8 &&& 0x3F = _
      rw [and_3F, and_3F, h8]; omega
    · show bt b' 10 &&& 0xFC = _
      rw [and_FC, and_FC, h10]
      generalize hy : bt b 10 / 4 % 64 = y
      generalize hc : cni / 1024 = c
      have : y < 64 := by omega
      have : c < 4 := by omega
      clear hy hc h8 hr he
      omega
  · rw [encodeVpsCni_refuse b cni (by omega)]
    exact ⟨hlen, fun _ _ _ _ => rfl, rfl, rfl⟩

example : (encodeVpsCni (List.replicate 13 0xFF) 0).2
    = [0xFF, 0xFF, 0xFF, 0xFF, 0xFF, 0xFF, 0xFF, 0xFF, 0x3F, 0xFF, 0xFC, 0, 0xFF] := by decide

/-- `vbi_encode_vps_pdc` keeps the length and every bit outside its fields: bytes other than
    2, 8..12 and the low six bits of byte 2. -/
theorem vps_pdc_encode_frame (b : Buf) (hlen : b.length = 13) (p : Pid) :
    (encodeVpsPdc b p).2.length = 13 ∧
    (∀ i, i ≠ 2 → i ≠ 8 → i ≠ 9 → i ≠ 10 → i ≠ 11 → i ≠ 12 → bt (encodeVpsPdc b p).2 i = bt b i) ∧
    bt (encodeVpsPdc b p).2 2 &&& 0x3F = bt b 2 &&& 0x3F := by
  by_cases h : p.cni ≤ 0xFFF ∧ p.pil ≤ 0xFFFFF ∧ p.pcsAudio ≤ 3 ∧ p.pty ≤ 0xFF
  · obtain ⟨hc, hp, ha, ht⟩ := h
    obtain ⟨b', he, hl, h2, _, _, _, _, _, hr⟩ := encodeVpsPdc_bytes b hlen p hc hp ha ht
    rw [he]
    refine ⟨hl, hr, ?_⟩
    show bt b' 2 &&& 0x3F = _
    rw [and_3F, and_3F, h2]; omega
  · rw [encodeVpsPdc_refuse b p (by omega)]
    exact ⟨hlen, fun _ _ _ _ _ _ _ => rfl, rfl⟩

example : (encodeVpsPdc (List.replicate 13 0xFF) {}).2
    = [0xFF, 0xFF, 0x3F, 0xFF, 0xFF, 0xFF, 0xFF, 0xFF, 0, 0, 0, 0, 0] := by decide

/-- `vbi_encode_dvb_pdc_descriptor` writes bytes 0..4 only and sets the four reserved bits. -/
theorem dvb_encode_frame (b : Buf) (hlen : 5 ≤ b.length) (p : Pid) :
    (encodeDvbPdc b p).2.length = b.length ∧ (∀ i, 5 ≤ i → bt (encodeDvbPdc b p).2 i = bt b i) ∧
    ((encodeDvbPdc b p).1 = true → bt (encodeDvbPdc b p).2 2 &&& 0xF0 = 0xF0) := by
  by_cases h : p.pil ≤ 0xFFFFF
  · obtain ⟨b', he, hl, _, _, h2, _, _, hr⟩ := encodeDvbPdc_bytes b hlen p h
    rw [he]
    refine ⟨hl, hr, fun _ => ?_⟩
    show bt b' 2 &&& 0xF0 = _
    rw [and_F0, h2]; omega
  · rw [encodeDvbPdc_refuse b p (by omega)]
    exact ⟨rfl, fun _ _ => rfl, fun h => by simp at h⟩

example : (encodeDvbPdc [1, 2, 3, 4, 5, 6] { pil := 0x12345 }).2 = [0x69, 3, 0xF1, 0x23, 0x45, 6] := by
  decide

/-- DVB descriptor: re-encoding what was decoded from any accepted descriptor `b` into any buffer
    reproduces tag, length and the 20 PIL bits of `b` (the reserved nibble is forced to 1111). -/
theorem dvb_reencode (b t : Buf) (hb : Bytes b) (ht : 5 ≤ t.length) (p : Pid) (hd : decodeDvbPdc b = some p) :
    ∃ t', encodeDvbPdc t p = (true, t') ∧ bt t' 0 = bt b 0 ∧ bt t' 1 = bt b 1 ∧
      bt t' 2 &&& 0x0F = bt b 2 &&& 0x0F ∧ bt t' 3 = bt b 3 ∧ bt t' 4 = bt b 4 := by
  unfold decodeDvbPdc at hd
  by_cases h : (bt b 0 != 0x69 || bt b 1 != 3) = true
  · rw [if_pos h] at hd; cases hd
  · rw [if_neg h] at hd
    simp only [Bool.or_eq_true, bne_iff_ne, ne_eq, not_or, Decidable.not_not] at h
    injection hd with hd
    have hpil : p.pil = ((bt b 2 &&& 0x0F) <<< 16) + (bt b 3 <<< 8) + bt b 4 := by rw [← hd]
    have b2 := hb 2; have b3 := hb 3; have b4 := hb 4
    rw [and_0F] at hpil
    obtain ⟨t', he, _, h0, h1, h2, h3, h4, _⟩ := encodeDvbPdc_bytes t ht p (by rw [hpil]; omega)
    refine ⟨t', he, by rw [h0, h.1], by rw [h1, h.2], ?_, ?_, ?_⟩
    · rw [and_0F, and_0F, h2, hpil]; omega
    · rw [h3, hpil]; omega
    · rw [h4, hpil]; omega

example : (encodeDvbPdc [0, 0, 0, 0, 0] ((decodeDvbPdc [0x69, 3, 0x0A, 0xBC, 0xDE]).getD {})).2
    = [0x69, 3, 0xFA, 0xBC, 0xDE] := by decide

/-- the values `vbi_decode_vps_pdc` returns are always accepted by the encoder -/
theorem decodeVpsPdc_range (b : Buf) (hb : Bytes b) :
    (decodeVpsPdc b).cni ≤ 0xFFF ∧ (decodeVpsPdc b).pil ≤ 0xFFFFF ∧
    (decodeVpsPdc b).pcsAudio ≤ 3 ∧ (decodeVpsPdc b).pty ≤ 0xFF := by
  have b2 := hb 2; have b8 := hb 8; have b9 := hb 9; have b10 := hb 10; have b11 := hb 11; have b12 := hb 12
  have hraw : rawVpsCni b ≤ 0xFFF := by rw [rawVpsCni_nf]; omega
  refine ⟨?_, ?_, ?_, ?_⟩
  · show decodeVpsCni b ≤ _
    rw [decodeVpsCni_eq]; split
    · split <;> decide
    · exact hraw
  · show rawVpsPil b ≤ _
    rw [rawVpsPil_nf]; omega
  · show bt b 2 >>> 6 ≤ 3
    omega
  · show bt b 12 ≤ 255
    omega

example : (decodeVpsPdc (List.replicate 13 0xFF)).pil = 0xFFFFF := by decide

/-- Re-encoding what was decoded from any received line `b` into any buffer `t` succeeds and
    reproduces the field bits of `b`: PCS audio bits, PIL, PTY and the CNI as decoded; when the
    line did not carry the shared code 0xDC3 (the one documented exception) bytes 8, 10, 11 are
    reproduced bit for bit. -/
theorem vps_reencode (b t : Buf) (hb : Bytes b) (ht : t.length = 13) :
    ∃ t', encodeVpsPdc t (decodeVpsPdc b) = (true, t') ∧
      bt t' 2 &&& 0xC0 = bt b 2 &&& 0xC0 ∧ bt t' 9 = bt b 9 ∧ bt t' 12 = bt b 12 ∧
      rawVpsPil t' = rawVpsPil b ∧ rawVpsCni t' = decodeVpsCni b ∧
      (rawVpsCni b ≠ 0x0DC3 → bt t' 8 = bt b 8 ∧ bt t' 10 = bt b 10 ∧ bt t' 11 = bt b 11) := by
  obtain ⟨rc, rp, ra, rt⟩ := decodeVpsPdc_range b hb
  obtain ⟨t', he, _, h2, h8, h9, h10, h11, h12, _⟩ := encodeVpsPdc_bytes t ht _ rc rp ra rt
  have b2 := hb 2; have b8 := hb 8; have b9 := hb 9; have b10 := hb 10; have b11 := hb 11; have b12 := hb 12
  have epil : (decodeVpsPdc b).pil = rawVpsPil b := rfl
  have ecni : (decodeVpsPdc b).cni = decodeVpsCni b := rfl
  have epcs : (decodeVpsPdc b).pcsAudio = bt b 2 >>> 6 := rfl
  have epty : (decodeVpsPdc b).pty = bt b 12 := rfl
  rw [epil, ecni] at h8 h10
  rw [ecni] at h11 rc
  rw [epil] at h9 rp
  have hpil : rawVpsPil t' = rawVpsPil b :=
    rawVpsPil_of t' _ (decodeVpsCni b / 64 % 4) (decodeVpsCni b / 1024) rp (by omega) h8 h9 h10
  have hcni : rawVpsCni t' = decodeVpsCni b :=
    rawVpsCni_of t' _ (rawVpsPil b / 16384 % 64) (rawVpsPil b % 64) rc (by rw [h8]; omega) h10 h11
  refine ⟨t', he, ?_, ?_, ?_, hpil, hcni, ?_⟩
  · rw [and_C0, and_C0, h2, epcs]; omega
  · rw [h9, rawVpsPil_nf]; omega
  · rw [h12, epty]
  · intro hne
    have hd : decodeVpsCni b = rawVpsCni b := by rw [decodeVpsCni_eq, if_neg hne]
    rw [hd] at h8 h10 h11
    obtain ⟨c1, c2, c3, c4⟩ := rawVpsCni_fields b hb
    obtain ⟨p1, _, p3⟩ := rawVpsPil_fields b hb
    refine ⟨?_, ?_, ?_⟩
    · rw [h8, c1, p1]; omega
    · rw [h10, c2, p3]; omega
    · rw [h11, c3, c4]; omega

example : (encodeVpsPdc (List.replicate 13 0)
    (decodeVpsPdc [1, 2, 0xC3, 4, 5, 6, 7, 8, 0x9A, 0xBC, 0xDE, 0xF0, 0x11])).2
    = [0, 0, 0xC0, 0, 0, 0, 0, 0, 0x9A, 0xBC, 0xDE, 0xF0, 0x11] := by decide

/-- Decoding a line (not carrying 0xDC3) and encoding the result back into the same line is the
    identity on all 104 bits. -/
theorem vps_reencode_same (b : Buf) (hb : Bytes b) (hlen : b.length = 13) (hne : rawVpsCni b ≠ 0x0DC3) :
    encodeVpsPdc b (decodeVpsPdc b) = (true, b) := by
  obtain ⟨rc, rp, ra, rt⟩ := decodeVpsPdc_range b hb
  obtain ⟨t', he, hl, h2, _, _, _, _, _, hr⟩ := encodeVpsPdc_bytes b hlen _ rc rp ra rt
  obtain ⟨t'', he', _, h9, h12, _, _, h3⟩ := vps_reencode b b hb hlen
  rw [he] at he'
  have : t'' = t' := by injection he' with _ h; exact h.symm
  subst this
  obtain ⟨h8, h10, h11⟩ := h3 hne
  rw [he]
  congr 1
  apply ext_bt _ _ (by rw [hl, hlen])
  intro i
  by_cases i2 : i = 2
  · subst i2; rw [h2]
    have : (decodeVpsPdc b).pcsAudio = bt b 2 >>> 6 := rfl
    rw [this]; have := hb 2; omega
  by_cases i8 : i = 8
  · subst i8; exact h8
  by_cases i9 : i = 9
  · subst i9; exact h9
  by_cases i10 : i = 10
  · subst i10; exact h10
  by_cases i11 : i = 11
  · subst i11; exact h11
  by_cases i12 : i = 12
  · subst i12; exact h12
  exact hr i i2 i8 i9 i10 i11 i12

/-- the exception is real: a line carrying 0xDC3 is not reproduced by decode + encode -/
theorem vps_reencode_dc3_counterexample :
    ∃ b : Buf, Bytes b ∧ b.length = 13 ∧ rawVpsCni b = 0x0DC3 ∧
      encodeVpsPdc b (decodeVpsPdc b) ≠ (true, b) := by
  refine ⟨[0, 0, 0, 0, 0, 0, 0, 0, 0xC0, 0, 3, 0x43, 0], ?_, by decide, by decide, by decide⟩
  intro i
  by_cases h : i < 13
  · have : ∀ j < 13, bt [0, 0, 0, 0, 0, 0, 0, 0, 0xC0, 0, 3, 0x43, 0] j < 256 := by decide
    exact this i h
  · have : bt [0, 0, 0, 0, 0, 0, 0, 0, 0xC0, 0, 3, 0x43, 0] i = 0 := by
      unfold bt; rw [List.getD_eq_getElem?_getD, List.getElem?_eq_none (by simpa using Nat.le_of_not_lt h)]; rfl
    omega

example : decodeVpsCni [0, 0, 0, 0, 0, 0, 0, 0, 0xC0, 0, 3, 0x43, 0] = 0xDC2 := by decide

/-- Encoders refuse out-of-range values, and then return the buffer unmodified. -/
theorem vps_encode_refuses (b : Buf) (p : Pid) :
    (p.cni > 0xFFF → encodeVpsCni b p.cni = (false, b)) ∧
    (p.cni > 0xFFF ∨ p.pil > 0xFFFFF ∨ p.pcsAudio > 3 ∨ p.pty > 0xFF → encodeVpsPdc b p = (false, b)) ∧
    (p.pil > 0xFFFFF → encodeDvbPdc b p = (false, b)) :=
  ⟨encodeVpsCni_refuse b p.cni, encodeVpsPdc_refuse b p, encodeDvbPdc_refuse b p⟩

example : encodeVpsPdc [1, 2, 3] { cni := 0x1000 } = (false, [1, 2, 3]) ∧
    encodeVpsPdc [1, 2, 3] { pcsAudio := 4 } = (false, [1, 2, 3]) := by decide

/-- ... and they refuse nothing else: every in-range value is accepted. -/
theorem vps_encode_accepts (b : Buf) (hlen : b.length = 13) (p : Pid)
    (hc : p.cni ≤ 0xFFF) (hp : p.pil ≤ 0xFFFFF) (ha : p.pcsAudio ≤ 3) (ht : p.pty ≤ 0xFF) :
    (encodeVpsCni b p.cni).1 = true ∧ (encodeVpsPdc b p).1 = true ∧ (encodeDvbPdc b p).1 = true := by
  obtain ⟨_, h1, _⟩ := encodeVpsCni_bytes b hlen p.cni hc
  obtain ⟨_, h2, _⟩ := encodeVpsPdc_bytes b hlen p hc hp ha ht
  obtain ⟨_, h3, _⟩ := encodeDvbPdc_bytes b (by omega) p hp
  rw [h1, h2, h3]; exact ⟨rfl, rfl, rfl⟩

example : (encodeVpsPdc (List.replicate 13 0) { cni := 0xFFF, pil := 0xFFFFF, pcsAudio := 3, pty := 0xFF }).1 = true := by
  decide

/-- `vbi_decode_dvb_pdc_descriptor` refuses a wrong descriptor tag or length. -/
theorem dvb_decode_refuses (b : Buf) (h : bt b 0 ≠ 0x69 ∨ bt b 1 ≠ 3) : decodeDvbPdc b = none := by
  unfold decodeDvbPdc
  rcases h with h | h <;> simp [h]

example : decodeDvbPdc [0x69, 4, 0, 0, 0] = none := by decide

/-! ## Teletext packet 8/30 format 1 -/

/-- `vbi_decode_teletext_8301_cni` returns every 16-bit CNI the sender (EN 300 706 9.8.1:
    two bit-reversed bytes) transmits. -/
theorem p8301_cni_roundtrip (fill : Nat → Nat) (cni mjd hh mm ss l : Nat) (neg : Bool) (hc : cni < 65536) :
    decode8301Cni (enc8301 fill cni mjd hh mm ss l neg) = cni := by
  unfold decode8301Cni
  rw [bt_enc8301_9, bt_enc8301_10, and_FF, and_FF,
    rev8_involutive _ (Nat.mod_lt _ (by decide)), rev8_involutive _ (Nat.mod_lt _ (by decide))]
  omega

example : decode8301Cni (enc8301 (fun _ => 0) 0x1234 0 0 0 0 0 false) = 0x1234 := by decide

/-- Complete description of `vbi_decode_teletext_8301_local_time` on every 42-byte packet: it
    accepts iff all eleven MJD/UTC nibbles are BCD+1 digits (1..10) and seconds <= 60, minutes < 60,
    hours < 24 (`Valid8301`); then it returns exactly (MJD - 40587) * 86400 + UTC seconds and the
    offset of byte 11; otherwise it returns FALSE (`none`: nothing is stored).  This contains the
    refusal clause: a zero or > 10 nibble (BCD-invalid) or an out-of-range time field -> `none`. -/
theorem p8301_decode_spec (b : Buf) (hb : Bytes b) :
    (Valid8301 b → decode8301LocalTime b
        = some (((mjdOf b : Nat) - 40587 : Int) * 86400
                + ((ssOf b + mmOf b * 60 + hhOf b * 3600 : Nat) : Int), ltoOf b)) ∧
    (¬ Valid8301 b → decode8301LocalTime b = none) :=
  decode8301_spec b (TimeBytes.of_bytes hb)

example : ¬ Valid8301 (List.replicate 42 0) ∧ decode8301LocalTime (List.replicate 42 0) = none := by
  decide

/-- For all MJD < 10^5, every time of day (leap second 60 included), every local time offset
    of -31..31 half hours and every CNI: decoding the packet of the sender specification returns
    exactly those values, time = (mjd - 40587) * 86400 + utc. -/
theorem p8301_roundtrip (fill : Nat → Nat) (cni mjd hh mm ss l : Nat) (neg : Bool)
    (hmjd : mjd < 100000) (h1 : hh < 24) (h2 : mm < 60) (h3 : ss ≤ 60) (hl : l < 32) :
    decode8301LocalTime (enc8301 fill cni mjd hh mm ss l neg)
      = some (((mjd : Nat) - 40587 : Int) * 86400 + ((ss + mm * 60 + hh * 3600 : Nat) : Int),
              if neg then -((l * 1800 : Nat) : Int) else ((l * 1800 : Nat) : Int)) := by
  obtain ⟨hv, e1, e2, e3, e4⟩ := enc8301_fields fill cni mjd hh mm ss l neg hmjd h1 h2 h3
  rw [(decode8301_spec _ (enc8301_timeBytes fill cni mjd hh mm ss l neg)).1 hv, e1, e2, e3, e4]
  congr 2
  unfold ltoOf
  rw [bt_enc8301_11, Nat.mod_eq_of_lt hl]
  obtain ⟨a, b, _⟩ := lto_byte l hl neg
  rw [a, b]
  cases neg
  · simp only [Bool.false_eq_true, if_false]; omega
  · simp only [if_true]; omega

example : decode8301LocalTime (enc8301 (fun _ => 0xFF) 0 58754 23 59 60 31 true)
    = some ((58754 - 40587) * 86400 + 86400, -55800) := by decide

/-- BCD-invalid or out-of-range input is refused (the cases of the property, spelled out):
    a transmitted nibble that is 0 or above 10 in the MJD or UTC, seconds > 60, minutes >= 60 or
    hours >= 24. -/
theorem p8301_refuses (b : Buf) (hb : Bytes b)
    (h : ¬ MjdOk b ∨ ¬ UtcOk b ∨ ssOf b > 60 ∨ mmOf b ≥ 60 ∨ hhOf b ≥ 24) :
    decode8301LocalTime b = none := by
  apply (p8301_decode_spec b hb).2
  rintro ⟨a, b', c, d, e⟩
  rcases h with h | h | h | h | h
  · exact h a
  · exact h b'
  · omega
  · omega
  · omega

example : decode8301LocalTime ((enc8301 (fun _ => 0) 0 58754 23 59 59 0 false).set 15 0x35) = none := by
  decide

/-! ## Teletext packet 8/30 format 2 -/

/-- All field combinations of packet 8/30 format 2: decoding the packet of the sender
    specification (EN 300 231: bit-reversed nibbles, Hamming 8/4) returns exactly the label
    channel, LUF, PRF, PCS audio, MI, CNI, PIL and PTY that were sent; same for the CNI decoder. -/
theorem p8302_roundtrip (fill : Nat → Nat) (f : F2) (h1 : f.lci < 4) (h2 : f.luf < 2) (h3 : f.prf < 2)
    (h4 : f.pcs < 4) (h5 : f.mi < 2) (h6 : f.cni < 65536) (h7 : f.pil < 1048576) (h8 : f.pty < 256) :
    decode8302Pdc (enc8302 fill f) = some
      { channel := f.lci, cniType := VBI_CNI_TYPE_8302, cni := f.cni, pil := f.pil, luf := f.luf,
        mi := f.mi, prf := f.prf, pcsAudio := f.pcs, pty := f.pty } ∧
    decode8302Cni (enc8302 fill f) = some f.cni := by
  have hs := enc8302_sent fill f
  have hx : ∀ j, j < 6 → (fun k => (f2Bytes f).getD (k - 6) 0) (7 + j) < 256 := by
    intro j hj
    have : j = 0 ∨ j = 1 ∨ j = 2 ∨ j = 3 ∨ j = 4 ∨ j = 5 := by omega
    rw [f2Bytes_nf]
    rcases this with rfl | rfl | rfl | rfl | rfl | rfl <;> simp <;> omega
  have h6' : (fun k => (f2Bytes f).getD (k - 6) 0) 6 < 16 := by
    rw [f2Bytes_nf]; simp; omega
  obtain ⟨c1, c2, c3⟩ := f2_x6 f.lci f.luf f.prf h1 h2 h3
  obtain ⟨d1, d2, d3⟩ := f2_x7 f.pcs f.mi f.cni h4 h5 h6
  have ec := f2_cni _ f.cni f.pil d3
  have ep := f2_pil f.cni f.pil h7
  refine ⟨?_, ?_⟩
  · rw [dec8302Pdc_sent _ _ hs h6' hx, f2Bytes_nf]
    simp only [Nat.sub_self, Nat.reduceSub, List.getD_cons_zero, List.getD_cons_succ]
    rw [c1, c2, c3, d1, d2, ec, ep, Nat.mod_eq_of_lt h8]
  · rw [dec8302Cni_sent _ _ hs hx, f2Bytes_nf]
    simp only [Nat.reduceSub, List.getD_cons_zero, List.getD_cons_succ]
    rw [ec]

example : decode8302Pdc (enc8302 (fun _ => 0)
    { lci := 2, luf := 1, prf := 0, pcs := 3, mi := 1, cni := 0xFDCB, pil := 0xABCDE, pty := 0x5A })
    = some { channel := 2, cniType := 3, cni := 0xFDCB, pil := 0xABCDE, luf := 1, mi := 1, prf := 0,
             pcsAudio := 3, pty := 0x5A } := by decide

/-- flip bit `k` of byte `i` of a packet -/
def flipBit (b : Buf) (i k : Nat) : Buf := b.set i (bt b i ^^^ (1 <<< k))

/-- One flipped bit in any Hamming-protected byte (9..21) of any packet whose protected bytes are
    valid Hamming 8/4 codewords leaves the result of both format-2 decoders unchanged. -/
theorem p8302_single_error (b : Buf) (hv : ∀ j, 9 ≤ j → j ≤ 21 → ∃ n, n < 16 ∧ bt b j = ham8 n)
    (i k : Nat) (hi1 : 9 ≤ i) (hi2 : i ≤ 21) (hk : k < 8) :
    decode8302Pdc (flipBit b i k) = decode8302Pdc b ∧ decode8302Cni (flipBit b i k) = decode8302Cni b := by
  have key : ∀ j, 9 ≤ j → j ≤ 21 → unham8 (bt (flipBit b i k) j) = unham8 (bt b j) := by
    intro j j1 j2
    unfold flipBit
    rw [bt_set]
    split
    · rename_i h
      obtain ⟨n, hn, e⟩ := hv i hi1 hi2
      rw [← h.1, e, unham8_single n hn k hk, unham8_ham8 n hn]
    · rfl
  rw [decode8302Pdc_factor, decode8302Pdc_factor, decode8302Cni_factor, decode8302Cni_factor]
  exact ⟨dec8302PdcOf_congr _ _ key, dec8302CniOf_congr _ _ key⟩

example : decode8302Pdc (flipBit (enc8302 (fun _ => 0)
    { lci := 2, luf := 1, prf := 0, pcs := 3, mi := 1, cni := 0xFDCB, pil := 0xABCDE, pty := 0x5A }) 13 6)
    = some { channel := 2, cniType := 3, cni := 0xFDCB, pil := 0xABCDE, luf := 1, mi := 1, prf := 0,
             pcsAudio := 3, pty := 0x5A } := by decide

/-- the packets of the sender specification satisfy the hypothesis of `p8302_single_error` -/
theorem enc8302_codewords (fill : Nat → Nat) (f : F2) :
    ∀ j, 9 ≤ j → j ≤ 21 → ∃ n, n < 16 ∧ bt (enc8302 fill f) j = ham8 n := by
  intro j j1 j2
  have r4 : ∀ x, rev4 x < 16 := by
    intro x; unfold rev4
    have : ∀ y < 16, rev8 y >>> 4 < 16 := by decide
    exact this _ (Nat.mod_lt _ (by decide))
  have r8 : ∀ x, rev8 x < 256 := fun x => by
    unfold rev8; exact rev8_lt _ (Nat.mod_lt _ (by decide)) |> fun h => by simpa [rev8] using h
  by_cases h9 : j = 9
  · subst h9; exact ⟨_, r4 _, bt_enc8302_9 fill f⟩
  by_cases hpar : j % 2 = 0
  · have : j = 10 + 2 * ((j - 10) / 2) := by omega
    rw [this]
    refine ⟨_, ?_, bt_enc8302_even fill f _ (by omega)⟩
    rw [and_15]; exact Nat.mod_lt _ (by decide)
  · have : j = 11 + 2 * ((j - 11) / 2) := by omega
    rw [this]
    refine ⟨_, ?_, bt_enc8302_odd fill f _ (by omega)⟩
    have := r8 ((f2Bytes f).getD ((j - 11) / 2 + 1) 0)
    omega

example : bt (enc8302 (fun _ => 0) { lci := 0, luf := 0, prf := 0, pcs := 0, mi := 0, cni := 0, pil := 0, pty := 0 }) 9
    = ham8 0 := by decide

/-- Hamming failure is refused: if `vbi_unham8` fails on any of the bytes 9..21 the PDC decoder
    returns FALSE, and the CNI decoder does so for the eight bytes it reads. -/
theorem p8302_refuses (b : Buf) (j : Nat) (hj : unham8 (bt b j) = none) :
    (9 ≤ j → j ≤ 21 → decode8302Pdc b = none) ∧
    (j = 10 ∨ j = 11 ∨ j = 12 ∨ j = 13 ∨ j = 16 ∨ j = 17 ∨ j = 18 ∨ j = 19 → decode8302Cni b = none) := by
  constructor
  · intro j1 j2
    rw [decode8302Pdc_factor]
    exact dec8302PdcOf_none _ j j1 j2 hj
  · intro h
    rw [decode8302Cni_factor]; unfold dec8302CniOf pair16
    rcases h with rfl | rfl | rfl | rfl | rfl | rfl | rfl | rfl <;>
      (simp only [hj]; repeat' split) <;> simp_all

example : decode8302Pdc (List.replicate 42 1) = none := by decide

/-- Two flipped bits in one protected byte of a valid packet are refused, never decoded as
    different values. -/
theorem p8302_double_error_refused (b : Buf) (hv : ∀ j, 9 ≤ j → j ≤ 21 → ∃ n, n < 16 ∧ bt b j = ham8 n)
    (hlen : b.length = 42) (i k k' : Nat) (hi1 : 9 ≤ i) (hi2 : i ≤ 21) (hk : k < 8) (hk' : k' < 8) (hne : k ≠ k') :
    decode8302Pdc (b.set i (bt b i ^^^ (1 <<< k) ^^^ (1 <<< k'))) = none := by
  obtain ⟨n, hn, e⟩ := hv i hi1 hi2
  refine (p8302_refuses _ i ?_).1 hi1 hi2
  rw [bt_set, if_pos ⟨rfl, by omega⟩, e]
  exact unham8_double n hn k hk k' hk' hne

example : decode8302Pdc ((enc8302 (fun _ => 0)
    { lci := 2, luf := 1, prf := 0, pcs := 3, mi := 1, cni := 0xFDCB, pil := 0xABCDE, pty := 0x5A }).set 13
      (bt (enc8302 (fun _ => 0)
    { lci := 2, luf := 1, prf := 0, pcs := 3, mi := 1, cni := 0xFDCB, pil := 0xABCDE, pty := 0x5A }) 13 ^^^ 1 ^^^ 4))
    = none := by decide

end Zvbi.Props.C12
