import ZvbiModel.Hamm.Lemmas
import ZvbiModel.Hamm.Hamm24
import ZvbiModel.Codec.Model
import ZvbiModel.Codec.Spec
/-!
# C12 - VPS, PDC and 8/30 codecs are exact inverses; bad input is rejected untouched

Property theorems only (helper lemmas live in `Hamm/` and `Codec/`).
-/
namespace Zvbi.Props.C12
open Zvbi.Hamm Zvbi.Codec

/-- One correctable bit error in a Hamming 8/4 protected byte does not change the decoded value. -/
theorem hamm8_single_error_corrected : ∀ n < 16, ∀ k < 8, unham8 (ham8 n ^^^ (1 <<< k)) = some n :=
  unham8_single

/-- Two bit errors in a Hamming 8/4 byte are refused, never decoded as another value. -/
theorem hamm8_double_error_refused : ∀ n < 16, ∀ j < 8, ∀ k < 8, j ≠ k →
    unham8 (ham8 n ^^^ (1 <<< j) ^^^ (1 <<< k)) = none := unham8_double

/-- A byte pair decodes iff both bytes decode (the `a | b << 4` sign trick of `vbi_unham16p`). -/
theorem unham16p_none_iff (p0 p1 : Nat) :
    unham16p p0 p1 = none ↔ (unham8 p0 = none ∨ unham8 p1 = none) := by
  unfold unham16p
  cases unham8 p0 <;> cases unham8 p1 <;> simp

example : unham8 (ham8 9 ^^^ (1 <<< 3)) = some 9 := by decide

end Zvbi.Props.C12
