import ZvbiModel.Mux.UndefJoin
import ZvbiModel.Mux.LemmasFeed
/-!
# C06, round 6 - the demultiplexer's half for lines with the undefined line number 0, packet level

`mux_demux_roundtrip_undef_full` (`Props/C06Join.lean`) stays OPEN as a whole.  Proved here, for ALL accepted frames
without raw line requests (Teletext lines with line number 0 anywhere but first, any mask, both formats, any packet size
range, PES or TS) and both shapes of the demultiplexer's `line_address`: `extract_data_units` of dvb_demux.c (model
`Demux.extract`), started on the data unit region of the frame's PES packet with an empty frame buffer, returns 0 and has
stored exactly the selected lines in order - service id, line number (0 for the undefined ones), payload bits - i.e. no
unit is refused with "illegal line order" and no frame boundary is seen inside the packet.  The chain:
`undef_field_parity_ascends` (round 5, multiplexer: field parities never go back) + `generatePes_defasc` (defined line
numbers ascend) => `contUnits_of_fields` => `Demux.extractLoop_stores_cont` (`line_address`' line_offset-0 branch).
What is still missing for the full statement: carrying this through `demux_pes_packet_frame` / `vbi_dvb_demux_feed` over
whole streams (frame boundary between packets by the first defined line, PTS, any partition of the input), which C07's
`Demux/Join{Frame,Packet,Stream}.lean` do for frames of defined lines (`AscFrom`) only.
-/
namespace Zvbi.Props.C06UndefDemux
open Zvbi.Mux Zvbi.Mux.EnParse
open Zvbi.Demux (SrcCfg Frame extract extractLoop ofLine XR)
open Zvbi.C06UD (ContUnits)

/-- **demux_extract_undef_packet_partial** - the demultiplexer's half of `mux_demux_roundtrip_undef_full` at packet level.
Any reachable configuration, any accepted frame without raw line requests whose first selected line has a defined line
number (lines with line number 0 anywhere else), at most 64 selected lines; any frame buffer as it is when a frame begins
(no lines, `last_frame_line` = 0, first field, no unit of the packet extracted; `last_data_unit_id` arbitrary); both
shapes of `line_address` (`cfg`): `extract_data_units` on the data unit region of the packet returns 0 with the whole
region consumed and the frame buffer holding exactly the selected lines in order (`Demux.ofLine`: libzvbi's service
id, the line number - 0 for the undefined ones -, the payload bits). -/
theorem demux_extract_undef_packet_partial (cfg : SrcCfg) (m : Mux) (hc : CfgOK m.cfg) (lines : List Sliced)
    (hwf : ∀ s ∈ lines, Sliced.WF s) (hnr : NoRaw lines) (mask pts : Nat)
    (hok : (feed m lines mask pts 0).2.ok = true)
    (hfirst : ∀ l ∈ (sent mask lines).head?, l.line ≠ 0) (hcap : (sent mask lines).length ≤ 64)
    (f : Frame) (hfl : f.lines = []) (hll : f.lastFrameLine = 0) (hlf : f.lastField = 0) (hnd : f.nDu = 0) :
    ∃ pes f', generatePes m.cfg lines mask pts = .ok (pes, [])
      ∧ (m.cfg.pid = 0 → (feed m lines mask pts 0).2.calls = [some pes])
      ∧ extract cfg f (pes.drop 46) = (f', XR.done, [])
      ∧ f'.lines = (sent mask lines).map ofLine := by
  obtain ⟨pes, hg, hpes, _⟩ := feed_accepted m lines mask pts hok
  obtain ⟨us, stf, h1, h2, h3, h4, h5⟩ := generatePes_fields m.cfg hc lines mask pts hwf hnr pes hg
  obtain ⟨_, hmod, hmin, _, _⟩ := generatePes_ok m.cfg hc lines mask pts hwf hnr pes hg
  have hasc := generatePes_defasc m.cfg lines mask pts hwf hnr pes hg
  have henc := Zvbi.Demux.parseUnits_inv _ _ h1
  have hlen : 2 ≤ (pes.drop 46).length := by
    have := hc.min184
    simp only [List.length_drop]; omega
  have hcont : ContUnits (decide (f.nDu > 0)) f.lastFrameLine f.lastField (us ++ stf) := by
    rw [hll, hlf, hnd]
    have := contUnits_of_fields us (sent mask lines) false false 0 h4 hasc h5 h3 (Or.inr hfirst)
    have h' := contUnits_append_stuffing _ us stf _ _ _ this h2
    simpa using h'
  have hul : unitsLines (us ++ stf) = some (sent mask lines) := by
    rw [unitsLines_append_stuffing _ us stf h2]; exact h4
  obtain ⟨f', he, hl⟩ := Zvbi.C06UD.extractLoop_stores_cont (cfg := cfg) (us ++ stf) (sent mask lines) f
    ((pes.drop 46).length + 1) hul hcont (by rw [hfl]; simpa using hcap) (by rw [henc]; omega)
  refine ⟨pes, f', hg, fun hp => (hpes hp).1, ?_, ?_⟩
  · rw [Zvbi.Demux.extract_eq f _ hlen]
    rw [henc] at he
    exact he
  · rw [hl, hfl]; rfl

/-- **demux_frame_undef_partial** - one level up: `demux_pes_packet_frame` (model `Demux.pesPacketFrame`, callback
installed) on the data unit region of the packet of ANY accepted frame without raw line requests whose first selected line
is defined (undefined lines anywhere behind it), any frame / PTS state `fs`, both shapes of `line_address`:
* at a frame start (`new_frame`, the state after `vbi_dvb_demux_new` / reset / a delivered frame): nothing is delivered,
  the frame buffer then holds exactly the selected lines (the undefined ones with line number 0) and the packet's PTS;
* with a frame under assembly whose last defined line is not below the packet's first line (the property's "non-increasing
  line number"): exactly that frame is delivered, with its own PTS and lines, and the buffer then holds the new frame.
In both cases the whole region is consumed without an error ("illegal line order" included). -/
theorem demux_frame_undef_partial (cfg : SrcCfg) (m : Mux) (hc : CfgOK m.cfg) (lines : List Sliced)
    (hwf : ∀ s ∈ lines, Sliced.WF s) (hnr : NoRaw lines) (mask pts : Nat)
    (hok : (feed m lines mask pts 0).2.ok = true)
    (l : Line) (ls : List Line) (hs : sent mask lines = l :: ls) (h0 : l.line ≠ 0) (hcap : (l :: ls).length ≤ 64)
    (se : Bool) (fs : Zvbi.Demux.FS) :
    ∃ pes, generatePes m.cfg lines mask pts = .ok (pes, [])
      ∧ (fs.newFrame = true →
          ∃ fs', Zvbi.Demux.pesPacketFrame cfg 3 true se fs (pes.drop 46) = (fs', [], .done, [])
            ∧ fs'.newFrame = false ∧ fs'.frame.lines = (l :: ls).map ofLine ∧ fs'.framePts = fs.packetPts
            ∧ fs'.packetPts = fs.packetPts)
      ∧ (fs.newFrame = false → fs.frame.nDu = 0 → (cfg.lateOverflow = true ∨ fs.frame.lines.length < 64) →
          l.line ≤ fs.frame.lastFrameLine →
          ∃ fs', Zvbi.Demux.pesPacketFrame cfg 3 true se fs (pes.drop 46)
              = (fs', [⟨fs.framePts, fs.frame.lines⟩], .done, [])
            ∧ fs'.newFrame = false ∧ fs'.frame.lines = (l :: ls).map ofLine ∧ fs'.framePts = fs.packetPts
            ∧ fs'.packetPts = fs.packetPts) := by
  obtain ⟨pes, hg, _, _⟩ := feed_accepted m lines mask pts hok
  obtain ⟨us, stf, h1, h2, h3, h4, h5⟩ := generatePes_fields m.cfg hc lines mask pts hwf hnr pes hg
  have hasc := generatePes_defasc m.cfg lines mask pts hwf hnr pes hg
  have henc := Zvbi.Demux.parseUnits_inv _ _ h1
  rw [hs] at h4 hasc
  have hcont : ContUnits false 0 0 (us ++ stf) := by
    have := contUnits_of_fields us (l :: ls) false false 0 h4 hasc h5 h3 (Or.inr (by intro x hx; simp at hx; subst hx; exact h0))
    have h' := contUnits_append_stuffing _ us stf _ _ _ this h2
    simpa using h'
  have hul : unitsLines (us ++ stf) = some (l :: ls) := by
    rw [unitsLines_append_stuffing _ us stf h2]; exact h4
  obtain ⟨u, us', hue, hu⟩ := head_line_unit us l ls h4 h3
  refine ⟨pes, hg, ?_, ?_⟩
  · intro hnf
    rw [← henc]
    exact Zvbi.C06UD.pesPacketFrame_first_cont se fs (us ++ stf) (l :: ls) hnf (by rw [hue]; simp) hul hcont hcap
  · intro hnf hn hfull hle
    rw [← henc]
    rw [hue, List.cons_append] at hul hcont ⊢
    exact Zvbi.C06UD.pesPacketFrame_next_cont se fs u (us' ++ stf) l (l :: ls) hnf hn hfull hu h0 hle hul hcont hcap

/-! non-vacuity: a frame with undefined lines behind lines of both fields; the demultiplexer's `extract` stores all four -/
def exLine (id line fill : Nat) : Sliced := ⟨id, line, List.replicate 56 fill⟩
def exFrame : List Sliced := [exLine 3 7 1, exLine 3 0 2, exLine 3 320 3, exLine 3 0 4]

example : (feed newPes exFrame 3 5 0).2.ok = true ∧ (∀ l ∈ (sent 3 exFrame).head?, l.line ≠ 0)
    ∧ (sent 3 exFrame).map (·.line) = [7, 0, 320, 0] := by decide +kernel

example : ((feed newPes exFrame 3 5 0).2.calls.head?.bind id).map
      (fun pes => ((extract SrcCfg.current {} (pes.drop 46)).1.lines.map fun l => (l.id, l.line, l.data.take 1),
                   (extract SrcCfg.current {} (pes.drop 46)).2.1))
    = some ([(3, 7, [1]), (3, 0, [2]), (3, 320, [3]), (3, 0, [4])], XR.done) := by decide +kernel

/-- why the first line must be defined (hypothesis `hfirst`): an undefined line on the second field... is not produced by
the multiplexer at the start of a frame (its `last_line` is 0 there: first field), so `hfirst` only excludes frames that
BEGIN with an undefined line, whose separation from the frame before is not recognisable "by a non-increasing line number" -/
example : ((feed newPes [exLine 3 0 9, exLine 3 7 1] 3 5 0).2.calls.head?.bind id).map
      (fun pes => (extract SrcCfg.current {} (pes.drop 46)).1.lines.map fun l => (l.id, l.line))
    = some [(3, 0), (3, 7)] := by decide +kernel

/-- three such frames through the whole model of `vbi_dvb_demux_feed`: the first two come back with their undefined lines
(line number 0) in place and their PTS, the third is held -/
example : ((Zvbi.Demux.frames SrcCfg.current (run newPes [.frame exFrame 3 5, .frame exFrame 3 6, .frame exFrame 3 7]).2.1).map
      fun f => (f.pts, f.lines.map (·.line))) = [(5, [7, 0, 320, 0]), (6, [7, 0, 320, 0])] := by decide +kernel

end Zvbi.Props.C06UndefDemux
