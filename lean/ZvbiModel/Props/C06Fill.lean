import ZvbiModel.Mux.RawFeed
import ZvbiModel.Mux.PesShape
/-!
# C06, round 6 - the fill-up-to-`min_packet_size` path of `generate_pes_packet` behind a raw data unit of maximum size

`generate_pes_packet` computes the stuffing `p_left` on two paths: the data is shorter than `min_packet_size` (fill up),
or it is rounded up to the next multiple of 184.  On BOTH paths one byte may be left behind a raw (monochrome samples)
data unit of 257 bytes, which `encode_stuffing` cannot extend; /repo (since b15a657) then adds one more TS payload.
`Zvbi.Gen.muxBumpBothPaths` (translate/gen_muxflags.py, regenerated on every run) says whether the test follows both
paths; `Mux.generatePesRBoth` / `Mux.generatePesRRound` are the two source shapes, `Mux.generatePesR` is the one of the
tree under test.  The general well-formedness theorems (`Props/C06Raw.lean mux_wellformed_raw`, `mux_carries_input_raw`,
`stuffing_completes_repaired`) quantify over every configuration, hence over both paths; the theorems here single the
fill path out and show that the other source shape violates the property.
-/
namespace Zvbi.Props.C06Fill
open Zvbi.Mux Zvbi.Mux.EnParse Zvbi.Mux.RawSpec

/-- The tree under test applies the test `1 == p_left && last_du_size >= 257` after both size branches: the model the
    raw-line theorems speak about (`generatePesRBoth`) is the function the correspondence driver runs (`generatePesR`).
    On a tree where the test was moved into the round-up branch this theorem (and `Mux/PesShape.lean`) stops building. -/
theorem source_applies_257_test_on_both_paths (keep : Bool) (cfg : Cfg) (st : RawSt) (lines : List Sliced) (mask : Nat)
    (raw : Option Bytes) (sp : Option Sp) (pts : Nat) :
    Zvbi.Gen.muxBumpBothPaths = true
    ∧ generatePesR keep cfg st lines mask raw sp pts = generatePesRBoth keep cfg st lines mask raw sp pts :=
  ⟨bump_both_paths, generatePesR_both keep cfg st lines mask raw sp pts⟩

/-- Fill path, every configuration and frame (repaired shape): when the loop of `generate_pes_packet` converted the whole
    frame into `out`, the data unit stored last has the maximum size 257 and header + data end exactly ONE byte before
    `min_packet_size`, the packet is `min_packet_size + 184` bytes: header, the data units UNCHANGED (the raw unit is not
    touched), and one stuffing data unit of 185 bytes (`FF B7 FF..FF`). -/
theorem fill_path_one_byte_after_full_unit (cfg : Cfg) (st st' : RawSt) (hst : st.left = 0) (lines : List Sliced) (mask : Nat)
    (raw : Option Bytes) (sp : Option Sp) (pts : Nat) (out : Bytes) (du : Nat) (hdu : du ≥ 257)
    (hgl : genLoopR true mask (fixedLengthFormat cfg.dataId) raw sp (lines.length + 1) (cfg.maxSize - 46) 0 0 st lines
      = .ok (out, du, [], st'))
    (hfix : fixedLengthFormat cfg.dataId = false) (hone : 46 + out.length + 1 = cfg.minSize) :
    generatePesR true cfg st lines mask raw sp pts
      = .ok (pesHeader (cfg.minSize + 184) pts cfg.dataId ++ out ++ stuffUnit 185, [], st') := by
  rw [generatePesR_both]
  unfold generatePesRBoth
  have hnl : ¬ st.left > 0 := by omega
  simp only [hnl, if_false, hgl]
  have h1 : 46 + out.length < cfg.minSize := by omega
  have h2 : cfg.minSize - (46 + out.length) = 1 := by omega
  have h3 : (True ∧ 1 = 1 ∧ du ≥ 257) := ⟨trivial, rfl, hdu⟩
  simp only [h1, if_true, h2, h3, hfix]
  have h5 : (if True ∧ True ∧ True then 1 + 184 else 1) = 185 := by simp
  have h4 : 46 + out.length + 185 = cfg.minSize + 184 := by omega
  rw [h5, h4]
  simp [encodeStuffing, List.append_assoc]

/-! ### the witness (replay on the real code: corpus/C06/minfill-raw257-one-byte.ops) -/

def fillSp : Sp := { offset := 132, spl := 251, start0 := 0, count0 := 0, start1 := 334, count1 := 3 }
def fillRaw : Bytes := (List.range (3 * 251)).map fun k => (3 + 7 * k) % 256
def fillLine (id line : Nat) : Sliced := ⟨id, line, List.replicate 42 0x15⟩
/-- 46 + 2 * 46 + 5 + 5 + 3 * 257 = 919 = 920 - 1 -/
def fillFrame : List Sliced :=
  [fillLine 3 7, fillLine 3 8, ⟨8, 21, [0x15, 0x15]⟩, ⟨0x400, 23, [0x15, 0x15]⟩,
   fillLine SL_VBI625 334, fillLine SL_VBI625 335, fillLine SL_VBI625 336]
def fillCfg : Cfg := { dataId := 0x99, minSize := 920, maxSize := 65504 }

/-- what is looked at: packet size, whether the independent reader of EN 301 775 accepts it, the first six bytes of the
    raw data unit stored last (id, data_unit_length, flags/line, first_pixel_position, n_pixels), the bytes from the last
    two samples of that unit on -/
def look (r : Except (RErr × List Sliced) (Bytes × List Sliced × RawSt)) : Option (Nat × Bool × Bytes × Bytes) :=
  r.toOption.map fun x => (x.1.length, (parsePesR x.1).isSome, (x.1.drop (919 - 257)).take 6, (x.1.drop 917).take 6)

/-- Source shape with the test inside the round-up branch (seeded change C06-e): the frame is accepted as a packet of
    `min_packet_size` = 920 bytes that is NOT a well-formed PES packet - `encode_stuffing (p, 1, 257)` rewrote the raw
    unit's data_unit_length to 254 (with n_pixels still 251) and the unit's last sample (147) became a data_unit_id. -/
theorem minfill_moved_counterexample :
    look (generatePesRRound true fillCfg {} fillFrame 0xFFFFFFFF (some fillRaw) (some fillSp) 1000)
      = some (920, false, [0xC6, 254, 0xC0 + 23, 0, 0, 251], [140, 147, 0]) := by decide +kernel

/-- /repo's shape: the same frame becomes a packet of 920 + 184 bytes which the reader accepts; the raw unit is untouched
    (data_unit_length 255) and followed by one stuffing unit of 185 bytes. -/
theorem minfill_both_paths :
    look (generatePesRBoth true fillCfg {} fillFrame 0xFFFFFFFF (some fillRaw) (some fillSp) 1000)
      = some (1104, true, [0xC6, 255, 0xC0 + 23, 0, 0, 251], [140, 147, 0xFF, 183, 0xFF, 0xFF])
    ∧ (feedR true { mux := { cfg := fillCfg } } fillFrame 0xFFFFFFFF (some fillRaw) (some fillSp) 1000).2.ok = true := by
  decide +kernel

/-! non-vacuity of `fill_path_one_byte_after_full_unit`: the witness meets its hypotheses -/
example : (genLoopR true 0xFFFFFFFF (fixedLengthFormat fillCfg.dataId) (some fillRaw) (some fillSp)
      (fillFrame.length + 1) (fillCfg.maxSize - 46) 0 0 {} fillFrame).toOption.map
        (fun r => (r.2.1, r.2.2.1, 46 + r.1.length + 1, fixedLengthFormat fillCfg.dataId))
    = some (257, [], fillCfg.minSize, false) := by decide +kernel

end Zvbi.Props.C06Fill
