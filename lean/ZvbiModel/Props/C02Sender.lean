import ZvbiModel.Ttx.Sender1
import ZvbiModel.Props.C02Chain
/-!
# Property C02, round 5: the sender side of `page_roundtrip_chain`

The cycle theorems speak about received packets (`IsHeader`: "the ten Hamming 8/4 bytes decode to these values",
`GoodHdr`: "the header text is consistent").  Here the packets are BUILT by the sender: `Ttx.encHeader` (packet address,
page number, sub-code / control bytes - Hamming 8/4 -, header text = the network's template with the page number digits
at columns `off..off+2` and a free clock in columns 32..39: `Ttx.senderText`) and `Ttx.encRow` (address + 40 odd-parity
bytes).  `page_roundtrip_sender`: the statement of `page_roundtrip_chain` with every receiver-side hypothesis replaced
by a condition on the sender's data (`STxOk`, `TmplOk`).
-/
namespace Zvbi.Props.C02Sender
open Zvbi.Ttx Zvbi.Hamm Zvbi.Props.C02Chain

/-- one transmission as the sender describes it -/
structure STx where
  /-- magazine (0 = 8), page tens / units, and the three bytes S1 S2+C4 | S3 S4+C5+C6 | C7..C14 -/
  t : Tx
  /-- header columns 32..39 -/
  clock : List Nat
  /-- (row number, 40 bytes): any subset of 1..25, any order, repeats allowed -/
  rows : List (Nat × List Nat)

def STx.header (tmpl : List Nat) (off : Nat) (x : STx) : Packet := encHeader x.t (senderText tmpl x.clock off x.t.pgno)
def STx.packets (tmpl : List Nat) (off : Nat) (x : STx) : List Packet :=
  x.header tmpl off :: x.rows.map (fun r => encRow x.t.m r.1 r.2)

structure STxOk (m : Nat) (x : STx) : Prop where
  mag : x.t.m = m
  page : decimalPage x.t.page
  s12 : x.t.s12 < 256
  s34 : x.t.s34 < 256
  fl : x.t.fl < 256
  /-- C11 = 0: parallel mode -/
  par : x.t.fl &&& 0x10 = 0
  rows : ∀ r ∈ x.rows, 1 ≤ r.1 ∧ r.1 ≤ 25 ∧ r.2.length = 40 ∧ GoodRow r.2

/-- **header_encode_decode**: the header packet the sender builds is read back by the decoder's `vbi_unham16p` calls as
exactly the magazine, page number, sub-code and control bytes put in, and it is a consistent header (`GoodHdr`) of the
network whose template is `tmpl`. -/
theorem header_encode_decode (tmpl : List Nat) (off m : Nat) (hm : m < 8) (ht : TmplOk tmpl off) (x : STx) (h : STxOk m x) :
    IsHeader (x.header tmpl off) m x.t.page x.t.s12 x.t.s34 x.t.fl ∧ GoodHdr tmpl off (x.header tmpl off) := by
  have hm' : x.t.m < 8 := by rw [h.mag]; exact hm
  have hp : x.t.page < 256 := by have := h.page.1; omega
  refine ⟨?_, encHeader_goodHdr tmpl x.clock off x.t hm' hp h.s12 h.s34 h.fl ht⟩
  have := encHeader_isHeader x.t (senderText tmpl x.clock off x.t.pgno) hm' hp h.s12 h.s34 h.fl
  rw [h.mag] at this
  exact this

/-- the hypotheses are satisfiable: header of page 123 of magazine 1 over an all-blank template, number at column 8 -/
example : IsHeader ((⟨⟨1, 0x23, 0, 0, 0⟩, [], []⟩ : STx).header (List.replicate 40 0x20) 8) 1 0x23 0 0 0 :=
  (header_encode_decode (List.replicate 40 0x20) 8 1 (by decide)
    ⟨by decide, by decide,
      fun k h8 h32 => (by decide +kernel : ∀ k, k < 32 → 8 ≤ k → oddPar ((List.replicate 40 0x20).getD k 0) = true) k h32 h8,
      fun k h8 hk => by omega⟩
    ⟨⟨1, 0x23, 0, 0, 0⟩, [], []⟩
    ⟨rfl, ⟨by decide, by decide⟩, by decide, by decide, by decide, by decide, fun r hr => by cases hr⟩).1

/-- **page_roundtrip_sender**.  A network with header template `tmpl` (odd parity, no magazine digit before the page
number column `off`) transmits, to a fresh decoder with a TTX_PAGE handler, a cycle of pages of magazine `m` in
parallel mode: every transmission = encoded header (decimal page number, any sub-code / control bytes with C11 = 0,
any clock) followed by its rows 1..25 (40 odd-parity bytes each; any subset, order, repeats), consecutive
transmissions carrying different page numbers, the last one terminated by a time-filling header (page FF).  Then
exactly one TTX_PAGE event per transmission is delivered, in order, with the transmitted page / sub-page number, and
every page number of the cycle is fetched (wildcard sub-page) as a Level 1 text page whose rows show, for every row
number sent in the LAST transmission of that page number, the 40 bytes of a packet of that transmission. -/
theorem page_roundtrip_sender (tmpl : List Nat) (off m : Nat) (hm : m < 8) (ht : TmplOk tmpl off)
    (txs : List STx) (hok : ∀ x ∈ txs, STxOk m x)
    (hadj : ∀ pre a b post, txs = pre ++ a :: b :: post → a.t.page ≠ b.t.page)
    (fs12 fs34 ffl : Nat) (h1 : fs12 < 256) (h2 : fs34 < 256) (h3 : ffl < 256) (finText : List Nat) :
    let fin := encHeader ⟨m, 0xFF, fs12, fs34, ffl⟩ finText
    let r := run (init.enable true) (txs.flatMap (STx.packets tmpl off) ++ [fin])
    ttxPages r.2 = txs.map (fun x => (x.t.pgno, x.t.subno))
    ∧ ∀ x ∈ txs, ∃ q, (cacheGet r.1.net.cache x.t.pgno ANY_SUBNO 0).map (·.1) = some q ∧ q.function = FN_LOP
        ∧ q.pgno = x.t.pgno
        ∧ ∃ y ∈ txs, y.t.pgno = x.t.pgno ∧ ∀ r ∈ y.rows, ∃ r' ∈ y.rows, r'.1 = r.1 ∧ q.raw.getD r.1 [] = r'.2 := by
  intro fin r
  let conv : STx → Tx × Packet × List RowPkt :=
    fun x => (x.t, x.header tmpl off, x.rows.map (fun r => (r.1, encRow x.t.m r.1 r.2)))
  have hfin := encHeader_isHeader ⟨m, 0xFF, fs12, fs34, ffl⟩ finText hm (show (255 : Nat) < 256 by decide) h1 h2 h3
  have hstream : (txs.map conv).flatMap (fun x => x.2.1 :: x.2.2.map (·.2)) = txs.flatMap (STx.packets tmpl off) := by
    rw [List.flatMap_map]
    congr 1
    funext x
    show x.header tmpl off :: (x.rows.map (fun r => (r.1, encRow x.t.m r.1 r.2))).map (·.2) = STx.packets tmpl off x
    unfold STx.packets
    rw [List.map_map]
    rfl
  have hmain := page_roundtrip_chain tmpl off m (txs.map conv) fin hm
    (by
      intro y hy
      rw [List.mem_map] at hy
      obtain ⟨x, hx, rfl⟩ := hy
      have hx' := hok x hx
      obtain ⟨hh, hg⟩ := header_encode_decode tmpl off m hm ht x hx'
      refine ⟨hx'.mag, hh, hx'.page, hx'.par, hg, ?_⟩
      intro rp hrp
      change rp ∈ x.rows.map (fun r => (r.1, encRow x.t.m r.1 r.2)) at hrp
      rw [List.mem_map] at hrp
      obtain ⟨r0, hr0, rfl⟩ := hrp
      obtain ⟨a1, a2, a3, a4⟩ := hx'.rows r0 hr0
      refine ⟨?_, a1, a2, ?_⟩
      · show IsPacket (encRow x.t.m r0.1 r0.2) m r0.1
        rw [hx'.mag]; exact encRow_isPacket m r0.1 r0.2 hm (by omega)
      · show GoodRow (payload (encRow x.t.m r0.1 r0.2))
        rw [payload_encRow _ _ _ a3]; exact a4)
    (by
      intro pre a b post e
      obtain ⟨a', b', ea, eb, hne⟩ := adj_map conv (fun a b => a.t.page ≠ b.t.page) txs hadj pre a b post e
      rw [ea, eb]; exact hne)
    hfin.addr hfin.page
  simp only [] at hmain
  rw [hstream] at hmain
  obtain ⟨hev, hfetch⟩ := hmain
  refine ⟨?_, ?_⟩
  · rw [hev, List.map_map]; rfl
  · intro x hx
    obtain ⟨q, g1, g2, g3, y, hy, g4, g5⟩ := hfetch (conv x) (List.mem_map.mpr ⟨x, hx, rfl⟩)
    rw [List.mem_map] at hy
    obtain ⟨y', hy', rfl⟩ := hy
    refine ⟨q, g1, g2, g3, y', hy', g4, ?_⟩
    intro r0 hr0
    obtain ⟨r', hr', e1, e2⟩ := g5 (r0.1, encRow y'.t.m r0.1 r0.2) (List.mem_map.mpr ⟨r0, hr0, rfl⟩)
    change r' ∈ y'.rows.map (fun r => (r.1, encRow y'.t.m r.1 r.2)) at hr'
    rw [List.mem_map] at hr'
    obtain ⟨r0', hr0', rfl⟩ := hr'
    refine ⟨r0', hr0', e1, ?_⟩
    have hl := ((hok y' hy').rows r0' hr0').2.2.1
    rw [show q.raw.getD r0.1 [] = payload (encRow y'.t.m r0'.1 r0'.2) from e2, payload_encRow _ _ _ hl]

/-! ### non-vacuity: a concrete sender -/

/-- the blank template, page number at columns 8..10 -/
def tmplBlank : List Nat := List.replicate 40 0x20

theorem tmplBlank_ok : TmplOk tmplBlank 8 := by
  refine ⟨by decide, by decide, ?_, ?_⟩
  · have : ∀ k, k < 32 → 8 ≤ k → oddPar (tmplBlank.getD k 0) = true := by decide +kernel
    exact fun k h8 h32 => this k h32 h8
  · intro k h8 hk; omega

def stx (page : Nat) (rows : List (Nat × List Nat)) : STx := ⟨⟨1, page, 0, 0, 0⟩, List.replicate 8 0x20, rows⟩

/-- pages 100, 101, 100 (the second version of 100 sends row 2 only): the theorem applies, and in particular page 100 is
    fetched at the end -/
example : ∃ q, (cacheGet (run (init.enable true) ([stx 0 [(1, List.replicate 40 0xC1)], stx 1 [(3, List.replicate 40 0xC2)],
      stx 0 [(2, List.replicate 40 0x45)]].flatMap (STx.packets tmplBlank 8) ++ [encHeader ⟨1, 0xFF, 0, 0, 0⟩ []])).1.net.cache
      0x100 ANY_SUBNO 0).map (·.1) = some q ∧ q.function = FN_LOP := by
  have hok : ∀ x ∈ [stx 0 [(1, List.replicate 40 0xC1)], stx 1 [(3, List.replicate 40 0xC2)], stx 0 [(2, List.replicate 40 0x45)]],
      STxOk 1 x := by
    intro x hx
    simp only [List.mem_cons, List.not_mem_nil, or_false] at hx
    have hrow : ∀ b, GoodRow (List.replicate 40 b) ↔ (b < 256 ∧ oddPar b = true) := by
      intro b
      constructor
      · intro h; exact h b (by simp)
      · intro h c hc; rw [List.eq_of_mem_replicate hc]; exact h
    rcases hx with rfl | rfl | rfl
    all_goals refine ⟨rfl, ⟨by decide, by decide⟩, by decide, by decide, by decide, by decide, ?_⟩
    all_goals
      intro r hr
      simp only [stx, List.mem_cons, List.not_mem_nil, or_false] at hr
      subst hr
      exact ⟨by decide, by decide, by simp, (hrow _).2 ⟨by decide, by decide +kernel⟩⟩
  have hadj : ∀ pre a b post, [stx 0 [(1, List.replicate 40 0xC1)], stx 1 [(3, List.replicate 40 0xC2)],
      stx 0 [(2, List.replicate 40 0x45)]] = pre ++ a :: b :: post → a.t.page ≠ b.t.page := by
    intro pre a b post e
    rcases pre with _ | ⟨p1, _ | ⟨p2, _ | ⟨p3, pre⟩⟩⟩
    · simp only [List.nil_append, List.cons.injEq] at e
      obtain ⟨rfl, rfl, _⟩ := e; decide
    · simp only [List.cons_append, List.nil_append, List.cons.injEq] at e
      obtain ⟨_, rfl, rfl, _⟩ := e; decide
    · simp at e
    · simp at e
  obtain ⟨_, hf⟩ := page_roundtrip_sender tmplBlank 8 1 (by decide) tmplBlank_ok _ hok hadj 0 0 0 (by decide) (by decide)
    (by decide) []
  obtain ⟨q, h1, h2, _⟩ := hf (stx 0 [(1, List.replicate 40 0xC1)]) (by simp)
  exact ⟨q, h1, h2⟩

end Zvbi.Props.C02Sender
