import ZvbiModel.Ttx.Roundtrip13
import ZvbiModel.Props.C02Interleave
/-!
# Property C02, round 4: serial mode (single page), and the open chain statement

* `page_roundtrip_serial`: last round's open statement `C02Roundtrip.page_roundtrip_serial_full` is now a theorem:
  a page sent with C11 (magazine serial) is stored by the next header of ANY magazine that carries another page
  number (commit 53b7b09 made this hold also when the page carries the erase flag).
* `page_roundtrip_serial_fetch`: ... and when that header opens a text page (any magazine), the state after it: look-ups
  of P return the stored entry, exactly one TTX_PAGE event for P.
* `stored_page_survives_put`: storing a page with another page number does not change what a look-up finds
  (the cache half of "every page of the cycle stays fetchable"); both source shapes of `_vbi_cache_put_page`.
* `single_version_put_replaces_all`: the repaired shape (fixes/C10-put-replaces-all-versions.diff) under a single-version
  key leaves one version of the page number.
* `page_roundtrip_chain_full` (def; open in round 4, proved in round 5: `C02Chain.page_roundtrip_chain`): a whole cycle of
  pages of one magazine from a fresh decoder.
-/
namespace Zvbi.Props.C02Serial
open Zvbi.Ttx Zvbi.Hamm Zvbi.Fmt Zvbi.Fmt.L1Spec Zvbi.Props.C02Roundtrip Zvbi.Props.C02Interleave

/-- **page_roundtrip_serial** (single page).  From any decoder state with 8 slots, a handler and no channel-switch
countdown: header of page P carrying C11 = 1 (magazine-serial transmission; any magazine, decimal page, any
sub-code, erase flag set or not), any rows 1..25 of it with odd-parity bytes, then a header of ANY magazine `u.m`
(all ten Hamming bytes decode) with a page number different from P's; no channel switch signalled.  Then the
"Store page terminated by new header" block of that header leaves P at the head of the cache chain: text page, P's
numbers / national option / flags, rows = `mergeRows (previous version | blanks; row 0 := header) (rows received)`. -/
theorem page_roundtrip_serial : page_roundtrip_serial_full := by
  intro s t hdr hq rp s1 ev1 u hlen hmask hcd hh hdec hsmall hser ht htext hL hrp hu hne hnosw
  have hrp' : ∀ x ∈ rp, IsPacket x.2 t.m x.1 ∧ 1 ≤ x.1 ∧ x.1 ≤ 25 := fun x hx => ⟨(hrp x hx).1, (hrp x hx).2.1, (hrp x hx).2.2.1⟩
  obtain ⟨ha, _, _, hmask1, hcd1⟩ := page_assembled s hcd hmask t hdr hh hdec s1 ev1 ht hlen htext rp hrp'
  have hrows : ∀ r ∈ rowsOf rp, 1 ≤ r.1 ∧ r.1 ≤ 25 ∧ GoodRow r.2 := by
    intro r hr
    unfold rowsOf at hr
    rw [List.mem_map] at hr
    obtain ⟨x, hx, rfl⟩ := hr
    exact ⟨(hrp x hx).2.1, (hrp x hx).2.2.1, (hrp x hx).2.2.2⟩
  rw [show hdr :: rp.map (·.2) ++ [hq] = (hdr :: rp.map (·.2)) ++ [hq] from rfl, run_append] at hnosw
  generalize hsR : (run s (hdr :: rp.map (·.2))).1 = sR at *
  simp only [run_cons, run_nil, List.append_nil] at hnosw
  have hcdR : sR.chswcd = 0 := by rw [ha.cd]; exact hcd1
  have hmaskR : sR.mask = true := by rw [ha.mask]; exact hmask1
  rw [step_eq_decode sR hq hcdR] at hnosw
  simp only [] at hnosw
  -- the events of the terminating header are those of closing P (plus table parser diagnostics)
  have h0 : u.m >>> 3 = 0 := (addr_split u.m hu.mag 0 (by omega)).2
  have h7 : u.m &&& 7 = u.m := (addr_split u.m hu.mag 0 (by omega)).1
  have hl : u.m &&& 7 < (tick sR).raw.length := by rw [h7]; show u.m < sR.raw.length; rw [ha.len]; exact hu.mag
  have hn : Event.chsw ∉ (terminatePage (tick sR) u.m u.pgno u.page).2 := by
    rcases decode_header_frame (tick sR) hq u.m hu.addr h0 hmaskR hl rfl with ⟨hnone, _⟩ | ⟨page, hpage, _, l, hev⟩
    · rw [hu.page] at hnone; cases hnone
    · rw [hu.page] at hpage; injection hpage with hpage; subst hpage
      rw [h7] at hev
      intro hx
      apply hnosw
      rw [List.mem_append]; right
      rw [hev]; exact List.mem_append_left _ hx
  -- serial mode: P's slot is the one terminated
  obtain ⟨hv, _⟩ := pgno_facts t.m t.page hh.mag hdec
  have hsp : t.subpage < 65536 := by unfold Tx.subpage; omega
  obtain ⟨c1, c2⟩ := c11_set t.fl t.subpage hsmall.2.2 hsp hser
  have hrpm : (tick sR).rp t.m = sR.rp t.m := rfl
  have hserial : ((tick sR).rp t.m).page.flags &&& C11_MAGAZINE_SERIAL ≠ 0 := by
    rw [hrpm, ha.flags]
    unfold Tx.flags
    cases t.prev s1 <;> simp only [] <;> assumption
  have hts := terminatedSlot_serial (tick sR) t.m u.m u.pgno u.page ha.cur hserial
    (by rw [hrpm, ha.pg]; exact fun h => hne h.symm) rfl
  obtain ⟨q, rest, pt, h1, h2, _, _⟩ := close_text_at (tick sR) t.m u.m u.pgno u.page
    (by show t.m < sR.raw.length; rw [ha.len]; exact hh.mag) hcdR hmaskR hts (by rw [hrpm]; exact ha.fn)
    (by rw [hrpm, ha.pg]; exact hv) (s1.rp t.m).lopRaw (rowsOf rp) (by rw [hrpm]; exact ha.lr) hL (by rw [hrpm]; exact ha.lp)
    hrows hn
  rw [hrpm] at h2
  refine ⟨q, rest, pt, h1, ⟨h2.fn, h2.pgno.trans ha.pg, ?_, h2.national.trans ha.nat, h2.flags.trans ha.flags, ?_⟩⟩
  · intro key mask hk
    apply h2.subno key mask
    rw [ha.pg, ha.sub]; exact hk
  · rw [h2.raw, ha.raw]

/-- the header hypotheses of the serial theorems are met by a concrete packet (C11 set in the control byte) -/
example : IsHeader (hdrPkt 1 0x23 0x10 blank32) 1 0x23 0 0 0x10 ∧ (0x10 : Nat) &&& 0x10 = 0x10 ∧ decimalPage 0x23 :=
  ⟨⟨by decide, by decide +kernel, by decide +kernel, by decide +kernel, by decide +kernel, by decide +kernel⟩, by decide,
    ⟨by decide, by decide⟩⟩

/-- **page_roundtrip_serial_fetch**: the serial-mode counterpart of `single_page_roundtrip` when the terminating header
opens a decimal text page of ANY magazine `u.m` (same or other; `TextPage` for it in the state after P was closed): right
after that header, look-ups of P's page number with the stored or the wildcard sub-code return the entry `q` = P as sent
(`Fetched`), and the TTX_PAGE events of the whole sequence are those of closing the earlier page followed by exactly one
`(P.pgno, P.subno)`. -/
theorem page_roundtrip_serial_fetch (s : St) (hlen : s.raw.length = 8) (hmask : s.mask = true) (hcd : s.chswcd = 0)
    (t : Tx) (hdr : Packet) (hh : IsHeader hdr t.m t.page t.s12 t.s34 t.fl) (hdec : decimalPage t.page)
    (hser : t.fl &&& 0x10 = 0x10)
    (s1 : St) (ev1 : List Event) (ht : terminatePage (tick s) t.m t.pgno t.page = (s1, ev1))
    (htext : TextPage s1.net t.pgno t.page (t.prev s1)) (hL : (s1.rp t.m).lopRaw.length = 26)
    (rp : List RowPkt) (hrp : ∀ x ∈ rp, IsPacket x.2 t.m x.1 ∧ 1 ≤ x.1 ∧ x.1 ≤ 25 ∧ GoodRow (payload x.2))
    (hq : Packet) (u : Tx) (hu : IsHeader hq u.m u.page u.s12 u.s34 u.fl) (hne : u.pgno ≠ t.pgno) (hudec : decimalPage u.page)
    (hutext : TextPage (terminatePage (tick (run s (hdr :: rp.map (·.2))).1) u.m u.pgno u.page).1.net u.pgno u.page
      (u.prev (terminatePage (tick (run s (hdr :: rp.map (·.2))).1) u.m u.pgno u.page).1))
    (hnosw : Event.chsw ∉ (run s (hdr :: rp.map (·.2) ++ [hq])).2) :
    ∃ q pt, Fetched q t s1 hdr (rowsOf rp) pt
      ∧ (∀ subno mask, subno = q.subno ∨ subno = ANY_SUBNO →
          (cacheGet (run s (hdr :: rp.map (·.2) ++ [hq])).1.net.cache t.pgno subno mask).map (·.1) = some q)
      ∧ ttxPages (run s (hdr :: rp.map (·.2) ++ [hq])).2 = ttxPages ev1 ++ [(t.pgno, t.subno)] := by
  have hrp' : ∀ x ∈ rp, IsPacket x.2 t.m x.1 ∧ 1 ≤ x.1 ∧ x.1 ≤ 25 := fun x hx => ⟨(hrp x hx).1, (hrp x hx).2.1, (hrp x hx).2.2.1⟩
  obtain ⟨ha, hev, _, hmask1, hcd1⟩ := page_assembled s hcd hmask t hdr hh hdec s1 ev1 ht hlen htext rp hrp'
  have hrows : ∀ r ∈ rowsOf rp, 1 ≤ r.1 ∧ r.1 ≤ 25 ∧ GoodRow r.2 := by
    intro r hr
    unfold rowsOf at hr
    rw [List.mem_map] at hr
    obtain ⟨x, hx, rfl⟩ := hr
    exact ⟨(hrp x hx).2.1, (hrp x hx).2.2.1, (hrp x hx).2.2.2⟩
  rw [show hdr :: rp.map (·.2) ++ [hq] = (hdr :: rp.map (·.2)) ++ [hq] from rfl, run_append] at hnosw ⊢
  generalize hsR : (run s (hdr :: rp.map (·.2))).1 = sR at *
  generalize hevR : (run s (hdr :: rp.map (·.2))).2 = evR at *
  simp only [run_cons, run_nil, List.append_nil] at hnosw ⊢
  have hn : Event.chsw ∉ (step sR hq).2 := fun h => hnosw (List.mem_append_right _ h)
  obtain ⟨um, upage, us12, us34, ufl⟩ := u
  obtain ⟨q, pt, f1, _, f3, f4⟩ := fetched_after_text_serial sR s1 t hdr (rowsOf rp) ha hmask1 hcd1 hh.mag hdec
    ⟨a16_lt hdr 4 _ hh.s12, a16_lt hdr 6 _ hh.s34, a16_lt hdr 8 _ hh.fl⟩ hser hL hrows hq um upage us12 us34 ufl hu hne hudec hutext hn
  exact ⟨q, pt, f1, f3, by rw [ttxPages_append, hev, f4]⟩

/-- non-vacuity on the model: page 123 of magazine 1 sent with C11 (rows 1, 2), terminated by the header of page 250 of
    magazine 2: stored with the rows as sent, exactly one event -/
example : (cacheGet (run (init.enable true) [hdrPkt 1 0x23 0x10 blank32, rowPkt 1 1 0xC1, rowPkt 1 2 0x43,
        hdrPkt 2 0x50 0x10 blank32]).1.net.cache 0x123 ANY_SUBNO 0).map (fun r => (r.1.function, r.1.raw.getD 1 [], r.1.raw.getD 2 []))
      = some (FN_LOP, List.replicate 40 0xC1, List.replicate 40 0x43)
    ∧ ttxPages (run (init.enable true) [hdrPkt 1 0x23 0x10 blank32, rowPkt 1 1 0xC1, rowPkt 1 2 0x43,
        hdrPkt 2 0x50 0x10 blank32]).2 = [(0x123, 0)] := by decide +kernel

/-- **stored_page_survives_put**: `_vbi_cache_put_page` of a page with ANOTHER page number (whatever it replaces or
moves in the hash chain) does not change what a look-up of `pgno` - exact key or wildcard - finds.  BOTH source shapes
of `_vbi_cache_put_page` (`cachePutF fix`: as found with finding F17, and with fixes/C10-put-replaces-all-versions.diff -
the versions that repair removes in addition all have the page number stored); `cachePut` is the shape of the current
source (`Zvbi.Gen.Cache.putReplacesAllVersions`, read from src/cache.c by translate/gen_cache.py). -/
theorem stored_page_survives_put (c c' : List Page) (pt : Nat) (p : Page) (pgno key mask : Nat) (hne : p.pgno ≠ pgno) :
    (∀ fix, cachePutF fix c pt p = some c' → c'.find? (keyMatch pgno key mask) = c.find? (keyMatch pgno key mask)) ∧
    (cachePut c pt p = some c' → c'.find? (keyMatch pgno key mask) = c.find? (keyMatch pgno key mask)) :=
  ⟨fun fix h => cachePutF_find_other fix c pt p pgno key mask hne c' h,
   fun h => cachePut_find_other c pt p pgno key mask hne c' h⟩

example (fix : Bool) : (cachePutF fix [{ Page.zero with pgno := 0x123 }] 0 { Page.zero with pgno := 0x124 }).map
    (fun c => (c.find? (keyMatch 0x123 0 0)).map (·.pgno)) = some (some 0x123) := by cases fix <;> decide +kernel

/-- **single_version_put_replaces_all** (REPAIRED shape of `_vbi_cache_put_page`,
fixes/C10-put-replaces-all-versions.diff): a store whose key class is "one version" (`putKey` chooses `subno_mask = 0`:
sub-code 0, a clock-time sub-code, an invalid one) leaves exactly ONE cached version of the page number - the page just
stored, at the head of the chain - and the pages of all other page numbers in their old order.  As found (F17) the
versions stored with a sub-page sub-code stay (second half: the witness). -/
theorem single_version_put_replaces_all (c c' : List Page) (pt : Nat) (p : Page) (key : Nat)
    (hk : putKey pt p.pgno p.subno = (key, 0)) (h : cachePutF true c pt p = some c') :
    c' = ({ p.truncate with subno := key } : Page) :: c.filter (fun q => q.pgno != p.pgno) ∧
    (∀ x ∈ c'.tail, x.pgno ≠ p.pgno) := by
  have e := cachePutF_single c pt p key hk c' h
  refine ⟨e, ?_⟩
  rw [e]
  intro x hx
  have := (List.mem_filter.1 hx).2
  simpa using this

example :
    (cachePutF true [{ Page.zero with pgno := 0x100, subno := 1 }, { Page.zero with pgno := 0x200 },
        { Page.zero with pgno := 0x100, subno := 2 }] 0 { Page.zero with pgno := 0x100, subno := 0x100 }).map
      (fun c => c.map (fun q => (q.pgno, q.subno))) = some [(0x100, 0x100), (0x200, 0)] ∧
    (cachePutF false [{ Page.zero with pgno := 0x100, subno := 1 }, { Page.zero with pgno := 0x200 },
        { Page.zero with pgno := 0x100, subno := 2 }] 0 { Page.zero with pgno := 0x100, subno := 0x100 }).map
      (fun c => c.map (fun q => (q.pgno, q.subno))) = some [(0x100, 0x100), (0x200, 0), (0x100, 2)] := by
  constructor <;> decide +kernel

/-- (Round 4: OPEN.  Round 5: PROVED - `C02Chain.page_roundtrip_chain : page_roundtrip_chain_full`, a corollary of the
parallel-mode / several-magazines theorem `C02Chain.page_roundtrip_cycle`; the text below is the round-4 description.)
`page_roundtrip_chain` - a whole cycle of pages `txs` of one magazine from a fresh decoder (each page
terminated by the next page's header, the last by `fin`): every page is fetched as the `mergeRows` of its LAST
transmission, and there is exactly one TTX_PAGE event per transmission.  What is proved towards it: the step
(`C02Interleave.single_page_roundtrip_from_init`, no shape / channel-switch hypotheses left), `reachable_shape`,
`consistent_headers_no_channel_switch`, `stored_page_survives_put`.  Missing: the invariant "only text pages were
announced" (page statistics type UNKNOWN / NORMAL and every cached page LOP, which makes the step's `TextPage`
hypothesis hold along the run) and the assembly of the per-page look-up claims over the induction. -/
def page_roundtrip_chain_full : Prop :=
  ∀ (tmpl : List Nat) (off m : Nat) (txs : List (Tx × Packet × List RowPkt)) (fin : Packet),
    m < 8 →
    (∀ x ∈ txs, x.1.m = m ∧ IsHeader x.2.1 m x.1.page x.1.s12 x.1.s34 x.1.fl ∧ decimalPage x.1.page
      ∧ x.1.fl &&& 0x10 = 0 ∧ GoodHdr tmpl off x.2.1
      ∧ ∀ r ∈ x.2.2, IsPacket r.2 m r.1 ∧ 1 ≤ r.1 ∧ r.1 ≤ 25 ∧ GoodRow (payload r.2)) →
    -- consecutive transmissions carry different page numbers
    (∀ pre a b post, txs = pre ++ a :: b :: post → a.1.page ≠ b.1.page) →
    a16 fin 0 = some m → a16 fin 2 = some 0xFF →
    let stream := txs.flatMap (fun x => x.2.1 :: x.2.2.map (·.2)) ++ [fin]
    let sF := (run (init.enable true) stream).1
    -- exactly one event per transmission, in order
    ttxPages (run (init.enable true) stream).2 = txs.map (fun x => (x.1.pgno, x.1.subno))
    -- every page number of the cycle is fetched: text page, rows of its last transmission merged in
    ∧ ∀ x ∈ txs, ∃ q, (cacheGet sF.net.cache x.1.pgno ANY_SUBNO 0).map (·.1) = some q ∧ q.function = FN_LOP
        ∧ q.pgno = x.1.pgno
        ∧ ∃ y ∈ txs, y.1.pgno = x.1.pgno ∧ ∀ r ∈ y.2.2, ∃ r' ∈ y.2.2, r'.1 = r.1 ∧ q.raw.getD r.1 [] = payload r'.2

end Zvbi.Props.C02Serial
