import ZvbiModel.Cache.LemmasFix
import ZvbiModel.Cache.LemmasWitness
/-!
# C10 - the Teletext cache is a coherent, bounded, reference-safe page store

Property theorems only; the lemma chain is in `ZvbiModel/Cache/Lemmas*.lean`.

* `Cache.Inv` (Cache/Spec.lean) is the bookkeeping part of the property: per-network and per-page
  counters equal the number of stored pages, memory accounting equals the sum of the unreferenced
  page sizes and stays within the limit, every page is on exactly the lists its state requires,
  no dangling network pointer, zombie pages / networks exist only while referenced.
* `State.abs` is the abstract store (Cache/Spec.lean): the retrievable versions, most recently stored
  or looked-up first; `alookup` / `atouch` / `aput` are the map operations with the documented key
  rule `putKey`.

Two source shapes (Cache/Model.lean, end): `stepF false` / `runF false` (= `step` / `run`) is `_vbi_cache_put_page` as it
was when finding F17 was made, `stepF true` / `runF true` is the shape after fixes/C10-put-replaces-all-versions.diff;
translate/gen_cache.py reads which one the current source has (`Gen.Cache.putReplacesAllVersions`, the driver runs
`stepCur`).  Every theorem below with a parameter `fix` holds for BOTH shapes; the witnesses of F17
(`*_counterexample`) are about the shape as found (`run`), the statements that need the repair are in Props/C10Evict.lean.

Full-strength statements that are FALSE on the shape as found are kept next to a proved witness
(`*_counterexample`); statements not proved are listed as `def ... : Prop` at the end of Props/C10Evict.lean.
-/
namespace Zvbi.Props.C10
open Zvbi.Cache Zvbi.Gen.Cache

/-! ## exact bookkeeping through any history -/

/-- A new cache satisfies the invariant. -/
theorem inv_init : Cache.Inv init := inv_iff_good.2 good_init

/-- Every operation of the cache API (put, get with masks, ref, unref, is-cached, hi-subno, page walk,
    add network, network ref / unref, channel switch, statistics reset, page-type update, purge,
    memory-limit change) keeps the invariant - including the eviction paths under memory pressure. -/
theorem inv_step (fix : Bool) (s : State) (op : Op) (h : Cache.Inv s) : Cache.Inv (stepF fix s op).1 :=
  inv_iff_good.2 (good_stepF fix (inv_iff_good.1 h) op)

/-- After any finite history of operations the bookkeeping is exact. -/
theorem inv_reachable (fix : Bool) (ops : List Op) : Cache.Inv (runF fix init ops) := by
  suffices h : ∀ s, Cache.Inv s → Cache.Inv (runF fix s ops) from h init inv_init
  induction ops with
  | nil => intro s h; exact h
  | cons op t ih => intro s h; exact ih _ (inv_step fix s op h)

example : Cache.Inv (runF true init [.addNet, .put 0 ⟨0x100, 0, 0, 0, 0, 7⟩, .unref 0, .chsw 0]) := inv_reachable _ _

/-- The per-page counter `n_subpages` is the number of cached versions of the page as long as there are
    fewer than 65536 of them (it is a `uint16_t` since 5e41e82; `Inv` states it modulo 65536). -/
theorem nsub_exact_partial (fix : Bool) (ops : List Op) (n : Net) (hn : n ∈ (runF fix init ops).nets) (pg : Nat)
    (hsmall : (runF fix init ops).pages.countP (fun p => p.net = n.id ∧ p.pgno = pg) < 65536) :
    (n.getStat pg).nSub = (runF fix init ops).pages.countP (fun p => p.net = n.id ∧ p.pgno = pg) := by
  have := (inv_reachable fix ops).nSub n hn pg
  omega

/-- The bound that would make the hypothesis above (and that of `limit_unreachable_0_2`) a theorem - at most
    80 cached versions per page number, asserted by cache.c under CACHE_CONSISTENCY - does not hold: 81
    alternations of a subpage subcode and a clock-time subcode on one BCD page leave 81 retrievable copies, all
    under one key (finding F17; the count grows by one per pair without bound, the `uint16_t` wraps at 65536).
    Replayed on the C code: corpus/C10/F17_dup_subcode_nsub_wrap.ops. -/
theorem page_bound_counterexample :
    ¬ (∀ (ops : List Op) (n : Net), n ∈ (run init ops).nets → ∀ pg,
        (run init ops).pages.countP (fun p => p.net = n.id ∧ p.pgno = pg ∧ p.subno = 0x102 ∧ p.pri ≠ .zombie) ≤ 80) := by
  intro h
  have w := page_bound_witness
  cases hnets : (run init (.addNet :: pairOps 81 0)).nets with
  | nil => rw [hnets] at w; cases w
  | cons n t =>
    rw [hnets] at w
    simp only [List.map_cons, List.cons.injEq, Prod.mk.injEq] at w
    have hn : n ∈ (run init (.addNet :: pairOps 81 0)).nets := by rw [hnets]; exact List.mem_cons_self
    have h1 := h _ n hn 0x101
    omega

/-! ## the abstract map -/

/-- Look-up refines the map: `_vbi_cache_get_page` returns a copy-equal page iff the abstract store has a
    version matching the key under the mask - the most recently stored or looked-up one (wildcard
    subpage: `VBI_ANY_SUBNO` or a partial mask) - and that version becomes the most recent. -/
theorem refines_map_get (fix : Bool) (ops : List Op) (nid pgno subno mask : Nat) (hv : validPgno pgno = true) :
    let s := runF fix init ops
    ((s.getPage nid pgno subno mask).2.map Page.entry = alookup s.abs nid pgno subno (if subno = anySubno then 0 else mask))
    ∧ (s.getPage nid pgno subno mask).1.abs = atouch s.abs nid pgno subno (if subno = anySubno then 0 else mask) :=
  getPage_abs (inv_iff_good.1 (inv_reachable fix ops)).1 nid pgno subno mask hv

/-- Store refines the map (memory not short), shape as found: `_vbi_cache_put_page` hands out a page copy-equal to its
    argument (with the subpage number of the key rule), that page is the most recent version, and exactly
    the version found under the key of `putKey` is replaced.  The repaired shape: `refines_map_put_repaired`
    (Props/C10Evict.lean). -/
theorem refines_map_put (ops : List Op) (nid : Nat) (cn : Net) (a : PutArg)
    (hf : (run init ops).findNet nid = some cn)
    (hlow : a.pgno &&& 0xFF ≠ 0xFF) (hrange : 0x100 ≤ a.pgno ∧ a.pgno ≤ 0x8FF)
    (hroom : (run init ops).memUsed + pageSize a.func a.x26 a.x28 ≤ (run init ops).memLimit)
    (s' : State) (r : Option Page) (hres : (run init ops).putPage nid a = .ok (s', r)) :
    s'.abs = aput (run init ops).abs (putEntry nid a (putKey (cn.getStat a.pgno).ptype a.pgno a.subno).1)
        (putKey (cn.getStat a.pgno).ptype a.pgno a.subno).2
    ∧ r.map Page.entry = some (putEntry nid a (putKey (cn.getStat a.pgno).ptype a.pgno a.subno).1) :=
  putPage_abs (inv_iff_good.1 (by rw [← runF_false]; exact inv_reachable false ops)).1 hf a hlow hrange hroom hres

/-- `vbi_is_cached` answers 1 iff the abstract store has the page (exact subpage, or any for `VBI_ANY_SUBNO`). -/
theorem is_cached_agrees (fix : Bool) (ops : List Op) (nid pgno subno : Nat) (cn : Net)
    (hf : (runF fix init ops).findNet nid = some cn) (hv : validPgno pgno = true) :
    (stepF fix (runF fix init ops) (.isCached nid pgno subno)).2 =
      .num (if (alookup (runF fix init ops).abs nid pgno subno (if subno = anySubno then 0 else 0xFFFFFFFF)).isSome then 1 else 0) := by
  have := (refines_map_get fix ops nid pgno subno 0xFFFFFFFF hv).1
  show (step (runF fix init ops) (.isCached nid pgno subno)).2 = _
  unfold step; simp only [hf]
  revert this
  cases hg : State.getPage (runF fix init ops) nid pgno (↑subno) 0xFFFFFFFF with
  | mk s' o =>
    cases o with
    | none => intro h; simp only [Option.map_none] at h; rw [← h]; rfl
    | some p => intro h; simp only [Option.map_some] at h; rw [← h]; rfl

/-- The memory limit of libzvbi 0.2 (1 GiB, not changeable) is out of reach while the cache holds at most
    0x800 x 80 pages - the bound cache.c asserts under CACHE_CONSISTENCY: a put always finds room, so the
    death row stays as the look-up left it and nothing is evicted. -/
theorem limit_unreachable_0_2 (fix : Bool) (ops : List Op) (hl : (runF fix init ops).memLimit = memoryLimit0)
    (hn : (runF fix init ops).pages.length ≤ 0x800 * 80) (func : Int) (x26 x28 : Nat) :
    (runF fix init ops).memUsed + pageSize func x26 x28 ≤ (runF fix init ops).memLimit :=
  mem_room_0_2 (inv_reachable fix ops) hl hn func x26 x28

/-- ... but the page-count bound itself does not hold: the key rule admits duplicate keys, one more cached
    copy per pair of puts (finding F17).  Replayed on the C code by the same corpus file. -/
theorem unique_key_counterexample :
    ¬ (∀ (ops : List Op), ∀ p ∈ (run init ops).pages, ∀ q ∈ (run init ops).pages,
        p.pri ≠ .zombie → q.pri ≠ .zombie → p.net = q.net → p.pgno = q.pgno → p.subno = q.subno → p.id = q.id) := by
  intro h
  have w := dup_key_witness
  cases hp : (run init dupOps).pages with
  | nil => rw [hp] at w; cases w
  | cons p t =>
    cases t with
    | nil => rw [hp] at w; simp at w
    | cons q t2 =>
      rw [hp] at w
      simp only [List.map_cons, List.cons.injEq, Prod.mk.injEq] at w
      obtain ⟨⟨a1, a2, a3, a4, a5, _⟩, ⟨b1, b2, b3, b4, b5, _⟩, _⟩ := w
      have := h dupOps p (by rw [hp]; simp) q (by rw [hp]; simp) (by rw [a5]; simp) (by rw [b5]; simp)
        (by rw [a2, b2]) (by rw [a3, b3]) (by rw [a4, b4])
      omega

/-! ## reference safety, channel switch, teardown -/

/-- A page held by a caller stays intact through ANY operation: it is still in the cache with the same
    content (network, page and subpage number, function, designation sets, payload token), and its reference count
    changes only by the references the operation itself takes or releases on it - stores (also when the page is
    replaced: it becomes a zombie), look-ups, `cache_page_ref`, `vbi_is_cached`, the page walk (whose internal
    get / unref pairs are accounted for), network add / recycle / unref, channel switch, purge, eviction.
    The only way out is the release of its last reference. -/
theorem held_page_intact (fix : Bool) (ops : List Op) (op : Op) (p : Page) (hp : p ∈ (runF fix init ops).pages) (hr : 0 < p.ref) :
    (op = .unref p.id ∧ p.ref = 1) ∨
    ∃ q ∈ (stepF fix (runF fix init ops) op).1.pages, q.id = p.id ∧ q.net = p.net ∧ q.pgno = p.pgno ∧ q.subno = p.subno
      ∧ q.func = p.func ∧ q.x26 = p.x26 ∧ q.x28 = p.x28 ∧ q.tag = p.tag
      ∧ p.ref ≤ q.ref + (if op = .unref p.id then 1 else 0) := by
  rcases held_full_stepF fix (good_runF fix good_init ops) op p hp hr with h | ⟨q, hq, c, r⟩
  · exact Or.inl h
  · obtain ⟨e1, e2, e3, e4, e5, e6, e7, e8⟩ := c
    exact Or.inr ⟨q, hq, e1.symm, e2.symm, e3.symm, e4.symm, e5.symm, e6.symm, e7.symm, e8.symm, r⟩

/-- ... and through any further history that does not release a reference on it. -/
theorem held_page_intact_history (fix : Bool) (ops more : List Op) (p : Page) (hp : p ∈ (runF fix init ops).pages)
    (hr : 0 < p.ref) (hno : ∀ op ∈ more, op ≠ .unref p.id) :
    ∃ q ∈ (runF fix (runF fix init ops) more).pages, q.id = p.id ∧ q.net = p.net ∧ q.pgno = p.pgno ∧ q.subno = p.subno
      ∧ q.func = p.func ∧ q.x26 = p.x26 ∧ q.x28 = p.x28 ∧ q.tag = p.tag ∧ p.ref ≤ q.ref := by
  obtain ⟨q, hq, c, r⟩ := held_historyF fix (good_runF fix good_init ops) more p hp hr hno
  obtain ⟨e1, e2, e3, e4, e5, e6, e7, e8⟩ := c
  exact ⟨q, hq, e1.symm, e2.symm, e3.symm, e4.symm, e5.symm, e6.symm, e7.symm, e8.symm, r⟩

example : ∃ q ∈ (runF true (runF true init [.addNet, .put 0 ⟨0x100, 0, 0, 0, 0, 7⟩]) [.put 0 ⟨0x100, 0, 0, 0, 0, 8⟩, .chsw 0, .purge]).pages,
    q.tag = 7 ∧ q.ref = 1 := by decide

/-- After `vbi_chsw_reset` no page is reachable through the decoder's (new) network: it has no page at all,
    and every look-up in it fails until something is stored. -/
theorem chsw_unreachable (fix : Bool) (ops : List Op) (nid : Nat) (cn : Net) (hf : (runF fix init ops).findNet nid = some cn)
    (nid' : Nat) (hout : (stepF fix (runF fix init ops) (.chsw nid)).2 = .net nid') :
    (∀ q ∈ (stepF fix (runF fix init ops) (.chsw nid)).1.pages, q.net ≠ nid')
    ∧ ∀ pgno subno mask, ((stepF fix (runF fix init ops) (.chsw nid)).1.getPage nid' pgno subno mask).2 = none := by
  have h := chsw_empty (inv_iff_good.1 (inv_reachable fix ops)) nid cn hf nid' hout
  exact ⟨h, fun pgno subno mask => getPage_none_of_empty h pgno subno mask⟩

/-- Teardown: when the client has released every page and network reference, `vbi_cache_delete`'s purge
    leaves no page, no network and empty lists - nothing is leaked. -/
theorem teardown_frees_all (fix : Bool) (ops : List Op) (hp : ∀ p ∈ (runF fix init ops).pages, p.ref = 0)
    (hn : ∀ n ∈ (runF fix init ops).nets, n.ref = 0) :
    (stepF fix (runF fix init ops) .purge).1.pages = [] ∧ (stepF fix (runF fix init ops) .purge).1.nets = []
    ∧ (stepF fix (runF fix init ops) .purge).1.priority = [] ∧ (stepF fix (runF fix init ops) .purge).1.referenced = [] :=
  purge_frees_all (inv_iff_good.1 (inv_reachable fix ops)) hp hn

example : (step (run init [.addNet, .put 0 ⟨0x100, 0, 0, 0, 0, 7⟩, .unref 0, .netUnref 0]) .purge).1.pages = [] := by
  decide

end Zvbi.Props.C10
