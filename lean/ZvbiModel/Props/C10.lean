import ZvbiModel.Cache.LemmasStep
/-!
# C10 - the Teletext cache is a coherent, bounded, reference-safe page store

Property theorems only; the lemma chain is in `ZvbiModel/Cache/Lemmas*.lean`.
`Inv` (Cache/Spec.lean) is the bookkeeping part of the property: per-network and per-page counters
equal the number of stored pages, memory accounting equals the sum of the unreferenced page sizes
and stays within the limit, every page is on exactly the lists its state requires, no dangling
network pointer, zombie networks only while referenced.
-/
namespace Zvbi.Props.C10
open Zvbi.Cache

/-- A new cache satisfies the invariant. -/
theorem inv_init : Cache.Inv init := inv_iff_good.2 good_init

/-- Every operation of the cache API (put, get with masks, ref, unref, is-cached, hi-subno, page walk,
    add network, network ref / unref, channel switch, statistics reset, page-type update, purge,
    memory-limit change) keeps the invariant - including the eviction paths under memory pressure. -/
theorem inv_step (s : State) (op : Op) (h : Cache.Inv s) : Cache.Inv (step s op).1 :=
  inv_iff_good.2 (good_step (inv_iff_good.1 h) op)

/-- After any finite history of operations the bookkeeping is exact. -/
theorem inv_reachable (ops : List Op) : Cache.Inv (run init ops) := by
  suffices h : ∀ s, Cache.Inv s → Cache.Inv (run s ops) from h init inv_init
  induction ops with
  | nil => intro s h; exact h
  | cons op t ih => intro s h; exact ih _ (inv_step s op h)

example : Cache.Inv (run init [.addNet, .put 0 ⟨0x100, 0, 0, 0, 0, 7⟩, .unref 0, .chsw 0]) := inv_reachable _

end Zvbi.Props.C10
