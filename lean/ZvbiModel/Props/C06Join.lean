import ZvbiModel.Mux.JoinFrames
import ZvbiModel.Mux.CorHistory
/-!
# C06 (joined with C07) - the multiplexer's output demultiplexes to its input; coroutine = callback

Property theorems only.  Models: `Mux/Model.lean` (src/dvb_mux.c), `Demux/Model.lean`
(src/dvb_demux.c, PES path); helper lemmas: `Mux/Join*.lean`, `Mux/Cor*.lean`, `Demux/Join*.lean`.

Round trip through the library's own demultiplexer (`mux_demux_roundtrip_lib`): PES mode, every
history of accepted/rejected frames and configuration changes, the concatenated output cut into
feed calls in ANY way.  Frames excluded, and why (each exclusion is a hypothesis, none is hidden):

* raw line requests (`NoRaw`, part of `Op.OK`): the models cover `raw == NULL`;
* accepted frames without any selected line: the multiplexer sends a packet of stuffing only, which
  the demultiplexer cannot see as a frame (and when it is the first packet after a frame start, its
  PTS is taken for the frame that follows - `empty_first_frame_pts` below);
* lines with the undefined line number 0 (`line_offset` 0): frame boundaries then depend on the
  field parity bit, which the multiplexer derives from the previous line and which its reset after a
  masked raw line can get wrong (NOTES/C06.md); stays open as `mux_demux_roundtrip_undef_full`;
* consecutive frames the receiver cannot tell apart: a frame boundary is recognisable only "by a
  non-increasing line number" (properties.jsonl), so each frame must begin on a line not beyond the
  last line of the frame before (`Separable`); otherwise the two frames arrive as one
  (`merged_frames_example`);
* the last accepted frame is not delivered (nothing follows that would end it): it is held in the
  frame buffer with its PTS, which the theorem states.
Vocabulary (`Mux/JoinFrames.lean`): `received s` = the `FrameOut` the demultiplexer's callback is to
get for a sent frame `s` (PTS mod 2^33; per line libzvbi's service id - Teletext B 3, VPS 4, WSS
0x400, Caption 8 -, line number, payload bits: `Demux.ofLine`); `Defined s` = at least one line and
no line number 0; `Separable ss` = all `Defined`, and each frame's first line number is not beyond
the last line number of the frame before; `Holds fs pts lines` (`Demux/JoinFrame.lean`) = the frame
buffer holds exactly `lines` with `frame_pts = pts` and `new_frame` clear.
The TS path of the demultiplexer is not joined here (F30: `_vbi_dvb_ts_demux_new` drops the first
frame when its PES packet is one TS packet).
-/
namespace Zvbi.Props.C06Join
open Zvbi.Mux Zvbi.Mux.EnParse
open Zvbi.Demux (SrcCfg St FrameOut pesFeeds pesFeed frames ofLine AscFrom lastLineOf firstLine Sep SepFrom FrameLinesOK outOf Holds)

/-! a history used by the non-vacuity examples -/
def exLine (id line fill : Nat) : Sliced := ⟨id, line, List.replicate 56 fill⟩
/-- five frames: Teletext + VPS + WSS; two Teletext lines in both fields; one line; Teletext + Caption; one line after a data_identifier change -/
def exOps : List Op :=
  [.frame [exLine 3 7 0x15, exLine 4 16 0x31, exLine 0x400 23 0xF7] 0xFFFFFFFF 5,
   .frame [exLine 3 7 0x80, exLine 3 320 0x01] 0xFFFFFFFF (2 ^ 33 + 6),
   .frame [exLine 3 9 0x55] 0xFFFFFFFF 7, .frame [exLine 3 8 0, exLine 0x18 21 0x2A] 0xFFFFFFFF 8, .dataId 0x99,
   .frame [exLine 3 7 0x11] 0xFFFFFFFF 9]


/-- **output bytes < 256.** PES mode, every history: every value handed to the callback is a byte. -/
theorem mux_output_bytes (m : Mux) (hp : m.cfg.pid = 0) (ops : List Op) (hops : ∀ op ∈ ops, Op.OK op) :
    ∀ b ∈ (run m ops).2.1, b < 256 :=
  run_bytes_lt ops hops m hp

example : (run newPes exOps).2.1.length = 920 ∧ ∀ b ∈ (run newPes exOps).2.1, b < 256 :=
  ⟨by decide +kernel, mux_output_bytes newPes rfl exOps (by decide +kernel)⟩

/-- **accepted frames ascend.** Every history, any mode: the lines of an accepted frame, when all of
them have a defined line number, are strictly ascending in line number (all ≥ 1) and at most 39. -/
theorem mux_frames_ascend (m : Mux) (ops : List Op) (hops : ∀ op ∈ ops, Op.OK op) :
    ∀ s ∈ (run m ops).2.2, (∀ l ∈ s.lines, l.line ≠ 0) → AscFrom 0 s.lines ∧ s.lines.length ≤ 39 :=
  run_asc ops hops m

example : ((run newPes exOps).2.2.map fun s => s.lines.map (·.line)) = [[7, 16, 23], [7, 320], [9], [8, 21], [7]] := by
  decide +kernel

/-- **mux_demux_roundtrip through the library's demultiplexer (PES path).**  For every multiplexer
in a reachable configuration (PES mode), every history `ops` of frames (accepted or rejected;
well-formed `vbi_sliced`, no raw line requests) and configuration changes whose accepted frames are
`Separable` frames of defined lines, and EVERY partition `chunks` of the concatenated output into
`vbi_dvb_demux_feed` calls (down to single bytes, empty buffers included), for either shape of the
two repaired statements of dvb_demux.c (`cfg`):
the demultiplexer never faults and delivers exactly the accepted frames but the last, in order,
one callback per frame, each with its PTS (mod 2^33) and its lines in order with service id, line
number and payload bits; the last frame is held complete in the frame buffer with its PTS
(`new_frame` clear: the next frame will deliver it), and all input is consumed. -/
theorem mux_demux_roundtrip_lib (cfg : SrcCfg) (m : Mux) (hc : CfgOK m.cfg) (hp : m.cfg.pid = 0)
    (ops : List Op) (hops : ∀ op ∈ ops, Op.OK op) (hsep : Separable (run m ops).2.2)
    (chunks : List Bytes) (hch : chunks.flatten = (run m ops).2.1) :
    (pesFeeds cfg St.init chunks).err = none
    ∧ (pesFeeds cfg St.init chunks).frames = (run m ops).2.2.dropLast.map received
    ∧ (pesFeeds cfg St.init chunks).st.pending = []
    ∧ ∀ hne : (run m ops).2.2 ≠ [],
        Holds (pesFeeds cfg St.init chunks).st.fs ((run m ops).2.2.getLast hne).pts ((run m ops).2.2.getLast hne).lines := by
  obtain ⟨ps, hps, hcont⟩ := pes_history ops hops m hc hp
  have hbytes := run_bytes_lt ops hops m hp
  have hasc := run_asc ops hops m
  have hlines : ps.map (·.lines) = (run m ops).2.2.map (·.lines) := by
    rw [← hcont, List.map_map]; rfl
  have hS : Sep cfg (ps.map (·.lines)) := by
    rw [hlines]
    cases hss : (run m ops).2.2 with
    | nil => trivial
    | cons s ss =>
      rw [hss] at hsep hasc
      exact sepFrom_of_separable ss s hasc hsep
  obtain ⟨fsEnd, har, hend⟩ := Zvbi.Demux.frames_of_pesStream (cfg := cfg) _ ps hps hbytes hS
  obtain ⟨he, _, href⟩ := Zvbi.Demux.pesFeeds_refines (cfg := cfg) chunks St.init Zvbi.Demux.Inv_init
  have e0 : St.init.pending ++ chunks.flatten = (run m ops).2.1 := by
    rw [hch]; simp [Zvbi.Demux.St.pending, St.init, Zvbi.Demux.Wrap.pend]
  have ec : St.init.core = Zvbi.Demux.Core.init := rfl
  rw [e0, ec, har] at href
  simp only [Zvbi.Demux.ARes.mk.injEq] at href
  obtain ⟨hcore, hpend, hframes, _⟩ := href
  have hfs : (pesFeeds cfg St.init chunks).st.fs = fsEnd := by
    have := congrArg Zvbi.Demux.Core.fs hcore
    exact this.symm
  refine ⟨he, ?_, hpend.symm, ?_⟩
  · rw [← hframes, ← hcont, map_dropLast, List.map_map]; rfl
  · intro hne
    have hpne : ps ≠ [] := by
      intro h; subst h; simp at hcont; exact hne hcont
    have hl := hend hpne
    rw [hfs]
    have hlast : (Pes.content (ps.getLast hpne)) = (run m ops).2.2.getLast hne := by
      have : (ps.map Pes.content).getLast (by simpa using hpne) = (run m ops).2.2.getLast hne := by
        simp only [hcont]
      rw [← this, List.getLast_map]
    rw [← hlast]
    exact hl

/-! non-vacuity: a history that meets every hypothesis, and the theorem applied to it -/

example : ∀ op ∈ exOps, Op.OK op := by decide +kernel
example : Separable (run newPes exOps).2.2 := by decide +kernel
example : (run newPes exOps).2.2.length = 5 := by decide +kernel

/-- the theorem instantiated: the output of `exOps` cut after byte 100 and after byte 101 (a one-byte
buffer) and an empty buffer: the first four frames come back, the fifth is held -/
example : let out := (run newPes exOps).2.1
    (pesFeeds SrcCfg.current St.init [out.take 100, (out.drop 100).take 1, [], out.drop 101]).frames
      = (run newPes exOps).2.2.dropLast.map received :=
  (mux_demux_roundtrip_lib SrcCfg.current newPes cfgOK_default rfl exOps (by decide +kernel) (by decide +kernel)
    _ (by simp only [List.flatten_cons, List.flatten_nil, List.append_nil, List.nil_append]
          have e : ∀ L : Bytes, L.drop 101 = (L.drop 100).drop 1 := fun L => by rw [List.drop_drop]
          rw [e, List.take_append_drop, List.take_append_drop])).2.1

/-- ... and what comes back, evaluated: PTS (mod 2^33), service ids, line numbers -/
example : ((run newPes exOps).2.2.dropLast.map received).map (fun f => (f.pts, f.lines.map fun l => (l.id, l.line)))
    = [(5, [(3, 7), (4, 16), (0x400, 23)]), (6, [(3, 7), (3, 320)]), (7, [(3, 9)]), (8, [(3, 8), (8, 21)])] := by
  decide +kernel

/-- why `Separable` is needed: a frame that begins beyond the last line of the frame before it is
appended to that frame by the demultiplexer (one frame [7, 9] with the first PTS instead of [7], [9]) -/
theorem merged_frames_example :
    ((frames SrcCfg.repaired (run newPes [.frame [exLine 3 7 1] 3 1, .frame [exLine 3 9 2] 3 2, .frame [exLine 3 7 3] 3 3]).2.1).map
      fun f => (f.pts, f.lines.map (·.line))) = [(1, [7, 9])] := by decide +kernel

/-- why frames without lines are excluded: a packet of stuffing as the first packet after a frame
start lends its PTS to the frame that follows (frame [7] sent with PTS 2 arrives with PTS 1) -/
theorem empty_first_frame_pts :
    ((frames SrcCfg.repaired (run newPes [.frame [] 3 1, .frame [exLine 3 7 2] 3 2, .frame [exLine 3 7 3] 3 3]).2.1).map
      fun f => (f.pts, f.lines.map (·.line))) = [(1, [7])] := by decide +kernel

/-- OPEN (not proved): the round trip for frames that also carry lines with an undefined line
number (`line` 0, accepted for Teletext only) anywhere but at the start of a frame: frame boundaries
by the first (defined) line against the last defined line of the frame before; at most `frameCap cfg`
lines per frame (64 = all of `dx->sliced[64]` with fix dvb-demux-full-frame in /repo, 63 before it: finding
C07-full-frame).  `mux_demux_roundtrip_lib` is the case without such lines (there 39 lines is the maximum).
Needs the field parity the multiplexer writes for an undefined line (`lofpOf`: from the last line
number) to be related to `line_address`'s `last_field`, which `EnParse` does not record. -/
def mux_demux_roundtrip_undef_full : Prop :=
  ∀ (cfg : SrcCfg) (m : Mux), CfgOK m.cfg → m.cfg.pid = 0 → ∀ (ops : List Op), (∀ op ∈ ops, Op.OK op) →
    (∀ s ∈ (run m ops).2.2, 1 ≤ s.lines.length ∧ s.lines.length ≤ Zvbi.Demux.frameCap cfg ∧ firstLine s.lines ≠ 0) →
    (∀ i, i + 1 < (run m ops).2.2.length →
      firstLine ((run m ops).2.2.getD (i + 1) ⟨0, 0, []⟩).lines
        ≤ (((run m ops).2.2.getD i ⟨0, 0, []⟩).lines.filter (·.line ≠ 0)).foldl (fun _ l => l.line) 0) →
    ∀ (chunks : List Bytes), chunks.flatten = (run m ops).2.1 →
      (pesFeeds cfg St.init chunks).frames = (run m ops).2.2.dropLast.map received

/-! ## `vbi_dvb_mux_cor` = `vbi_dvb_mux_feed` (C06 `cor_equals_feed`)

`Idle m`: no coroutine output pending (`cor_offset >= cor_end`), the state of a new or reset
multiplexer and after every completed frame.  `cor` needs a non-empty frame: with
`*sliced_left == 0` it returns FALSE by contract (dvb_mux.c:1789), whereas `feed` sends stuffing. -/

/-- **cor_equals_feed.** Whenever `vbi_dvb_mux_feed` accepts a frame (PES or TS mode), then for EVERY
sequence of positive output buffer sizes the loop around `vbi_dvb_mux_cor` never fails and has
stored, after the calls so far, exactly the first `sizes.sum` bytes of what `feed` hands to its
callback; once the sizes reach the length of those bytes the loop has ended with
`*sliced_left = 0` and exactly `feed`'s bytes, nothing is pending, the configuration is unchanged and
the continuity counter is the one `feed` leaves. -/
theorem cor_equals_feed (m : Mux) (hi : Idle m) (hc : CfgOK m.cfg) (lines : List Sliced) (hl : lines ≠ [])
    (hwf : ∀ s ∈ lines, Sliced.WF s) (hnr : NoRaw lines) (mask pts : Nat)
    (hok : (feed m lines mask pts 0).2.ok = true) (sizes : List Nat) (hpos : ∀ s ∈ sizes, 0 < s) :
    ∃ m', m'.cfg = m.cfg
      ∧ (sizes.sum < (FeedOut.bytes (feed m lines mask pts 0).2).length →
          corSeq lines mask pts sizes m []
            = (m', true, true, (FeedOut.bytes (feed m lines mask pts 0).2).take sizes.sum))
      ∧ ((FeedOut.bytes (feed m lines mask pts 0).2).length ≤ sizes.sum →
          corSeq lines mask pts sizes m [] = (m', true, false, FeedOut.bytes (feed m lines mask pts 0).2)
          ∧ Idle m' ∧ m'.cc = (feed m lines mask pts 0).1.cc) :=
  Zvbi.Mux.cor_equals_feed m hi hc lines hl hwf hnr mask pts hok sizes hpos

example : ((newTs 0x123).map fun m => ((corSeq corExLines 0xFFFFFFFF 5 [1, 7, 188, 1000] m []).2,
      (corSeq corExLines 0xFFFFFFFF 5 [1, 7, 188, 1000] m []).1.cc))
    = (newTs 0x123).map fun m => ((true, false, FeedOut.bytes (feed m corExLines 0xFFFFFFFF 5 0).2),
      (feed m corExLines 0xFFFFFFFF 5 0).1.cc) := by decide +kernel
example : (FeedOut.bytes (feed newPes corExLines 0xFFFFFFFF 5 0).2).length = 184 ∧ Idle newPes := by decide +kernel

/-- **every single call** of that loop: after any calls `pre` that did not finish the frame, the next
call with `s > 0` bytes of space returns TRUE, stores exactly the next `min s rest` bytes, and either
finishes the frame (`*sliced_left = 0`, `*sliced` past the frame, nothing pending, counter as after
`feed`) or leaves `*sliced` / `*sliced_left` untouched with output pending. -/
theorem cor_equals_feed_call (m : Mux) (hi : Idle m) (hc : CfgOK m.cfg) (lines : List Sliced) (hl : lines ≠ [])
    (hwf : ∀ s ∈ lines, Sliced.WF s) (hnr : NoRaw lines) (mask pts : Nat)
    (hok : (feed m lines mask pts 0).2.ok = true) (pre : List Nat) (hpre : ∀ x ∈ pre, 0 < x)
    (hlt : pre.sum < (FeedOut.bytes (feed m lines mask pts 0).2).length) (s : Nat) (hs : 0 < s) :
    ∃ m2, cor (corSeq lines mask pts pre m []).1 s lines mask pts
        = (m2, { ok := true, out := ((FeedOut.bytes (feed m lines mask pts 0).2).drop pre.sum).take s,
                 slicedLeft := if (FeedOut.bytes (feed m lines mask pts 0).2).length ≤ pre.sum + s then 0 else lines.length,
                 slicedIdx := if (FeedOut.bytes (feed m lines mask pts 0).2).length ≤ pre.sum + s then lines.length else 0 })
      ∧ m2.cfg = m.cfg
      ∧ ((FeedOut.bytes (feed m lines mask pts 0).2).length ≤ pre.sum + s →
          Idle m2 ∧ m2.cc = (feed m lines mask pts 0).1.cc)
      ∧ (pre.sum + s < (FeedOut.bytes (feed m lines mask pts 0).2).length → ¬ Idle m2) :=
  Zvbi.Mux.cor_equals_feed_call m hi hc lines hl hwf hnr mask pts hok pre hpre hlt s hs

example : ((newTs 0x123).map fun m => (cor (corSeq corExLines 0xFFFFFFFF 5 [1, 7] m []).1 180 corExLines 0xFFFFFFFF 5).2.out)
    = (newTs 0x123).map fun m => ((FeedOut.bytes (feed m corExLines 0xFFFFFFFF 5 0).2).drop 8).take 180 := by
  decide +kernel

/-- **rejected frames.** A frame `feed` rejects (any reason) is rejected by `cor` with any buffer
space: FALSE, nothing stored, nothing pending, configuration and continuity counter untouched (as
with `feed`), and every later `feed` call behaves as if the frame had never been offered. -/
theorem cor_rejects_like_feed (m : Mux) (hi : Idle m) (lines : List Sliced) (mask pts : Nat)
    (hrej : (feed m lines mask pts 0).2.ok = false) (size : Nat) (hs : 0 < size) :
    (cor m size lines mask pts).2.ok = false ∧ (cor m size lines mask pts).2.out = []
    ∧ Idle (cor m size lines mask pts).1
    ∧ (cor m size lines mask pts).1.cfg = m.cfg ∧ (cor m size lines mask pts).1.cc = m.cc
    ∧ (feed m lines mask pts 0).1.cfg = m.cfg ∧ (feed m lines mask pts 0).1.cc = m.cc
    ∧ ∀ lines' mask' pts' k,
        (feed (cor m size lines mask pts).1 lines' mask' pts' k).2 = (feed m lines' mask' pts' k).2
        ∧ (feed (cor m size lines mask pts).1 lines' mask' pts' k).1.cc = (feed m lines' mask' pts' k).1.cc
        ∧ (feed (cor m size lines mask pts).1 lines' mask' pts' k).1.cfg = (feed m lines' mask' pts' k).1.cfg :=
  Zvbi.Mux.cor_rejects_like_feed m hi lines mask pts hrej size hs

example : (feed newPes [exLine 3 8 1, exLine 3 7 1] 0xFFFFFFFF 5 0).2.ok = false
    ∧ (cor newPes 100 [exLine 3 8 1, exLine 3 7 1] 0xFFFFFFFF 5).2.ok = false := by decide +kernel

/-- **the loop the correspondence driver runs** (`corAll`, op `corall`: buffer sizes taken cyclically
from a non-empty list of positive sizes) yields for every frame `feed` accepts exactly `feed`'s
bytes, `*sliced_left = 0`, `*sliced` at the end of the frame, nothing pending, `feed`'s counter. -/
theorem corAll_equals_feed (m : Mux) (hi : Idle m) (hc : CfgOK m.cfg) (lines : List Sliced) (hl : lines ≠ [])
    (hwf : ∀ s ∈ lines, Sliced.WF s) (hnr : NoRaw lines) (mask pts : Nat)
    (hok : (feed m lines mask pts 0).2.ok = true) (sizes : List Nat) (hsz : sizes ≠ [])
    (hpos : ∀ s ∈ sizes, 0 < s) (fuel : Nat) (hfuel : (FeedOut.bytes (feed m lines mask pts 0).2).length ≤ fuel) :
    ∃ m' calls, corAll sizes lines mask pts fuel m 0 []
        = (m', true, calls, 0, lines.length, FeedOut.bytes (feed m lines mask pts 0).2)
      ∧ 1 ≤ calls ∧ calls ≤ (FeedOut.bytes (feed m lines mask pts 0).2).length
      ∧ Idle m' ∧ m'.cfg = m.cfg ∧ m'.cc = (feed m lines mask pts 0).1.cc :=
  Zvbi.Mux.corAll_equals_feed m hi hc lines hl hwf hnr mask pts hok sizes hsz hpos fuel hfuel

example : ((newTs 0x123).map fun m => (corAll [1, 7, 50] corExLines 0xFFFFFFFF 5 188 m 0 []).2)
    = (newTs 0x123).map fun m => (true, 12, 0, 2, FeedOut.bytes (feed m corExLines 0xFFFFFFFF 5 0).2) := by
  decide +kernel

/-- **whole histories.** An application that converts every frame with the `vbi_dvb_mux_cor` loop
(each frame with its own non-empty list of positive buffer sizes) and one that uses
`vbi_dvb_mux_feed` with a callback produce byte for byte the same stream over every history of
non-empty frames (accepted or rejected) and configuration changes, PES or TS mode, and end with the
same configuration and continuity counter. -/
theorem cor_history_equals_feed (fuel : Nat) (hfuel : 66928 ≤ fuel) (ops : List (Op × List Nat))
    (hops : ∀ op ∈ ops, CorOpOK op) (m1 m2 : Mux) (hi : Idle m1) (hcfg : m1.cfg = m2.cfg) (hcc : m1.cc = m2.cc)
    (hc : CfgOK m2.cfg) :
    (corRun fuel m1 ops).2 = (run m2 (ops.map Prod.fst)).2.1
    ∧ Idle (corRun fuel m1 ops).1
    ∧ (corRun fuel m1 ops).1.cfg = (run m2 (ops.map Prod.fst)).1.cfg
    ∧ (corRun fuel m1 ops).1.cc = (run m2 (ops.map Prod.fst)).1.cc :=
  Zvbi.Mux.cor_history_equals_feed fuel hfuel ops hops m1 m2 hi hcfg hcc hc

example : ((newTs 0x123).map fun m =>
      (corRun 66928 m [(.frame corExLines 0xFFFFFFFF 5, [1, 7, 50]),
        (.frame [exLine 3 8 1, exLine 3 7 1] 0xFFFFFFFF 6, [3]),
        (.dataId 0x99, []), (.frame corExLines 3 7, [188, 5])]).2.length) = some 376 := by decide +kernel

/-- the round trip for the coroutine interface of the multiplexer: the stream an application
produces with `vbi_dvb_mux_cor` (any buffer sizes), cut into demultiplexer feed calls in any way,
comes back as the accepted frames -/
theorem cor_mux_demux_roundtrip (cfg : SrcCfg) (fuel : Nat) (hfuel : 66928 ≤ fuel) (ops : List (Op × List Nat))
    (hops : ∀ op ∈ ops, CorOpOK op) (hsep : Separable (run newPes (ops.map Prod.fst)).2.2)
    (chunks : List Bytes) (hch : chunks.flatten = (corRun fuel newPes ops).2) :
    (pesFeeds cfg St.init chunks).err = none
    ∧ (pesFeeds cfg St.init chunks).frames = (run newPes (ops.map Prod.fst)).2.2.dropLast.map received := by
  have h := (cor_history_equals_feed fuel hfuel ops hops newPes newPes (by decide) rfl rfl cfgOK_default).1
  have hops' : ∀ op ∈ ops.map Prod.fst, Op.OK op := by
    intro op hop
    rw [List.mem_map] at hop
    obtain ⟨x, hx, rfl⟩ := hop
    have := hops x hx
    obtain ⟨o, sizes⟩ := x
    cases o with
    | frame lines mask pts => exact ⟨this.2.1, this.2.2.1⟩
    | dataId d => trivial
    | size a b => trivial
  have r := mux_demux_roundtrip_lib cfg newPes cfgOK_default rfl (ops.map Prod.fst) hops' hsep chunks (by rw [hch, h])
  exact ⟨r.1, r.2.1⟩

end Zvbi.Props.C06Join
