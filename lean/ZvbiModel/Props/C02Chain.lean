import ZvbiModel.Ttx.Chain9
import ZvbiModel.Props.C02Serial
/-!
# Property C02, round 5: a whole cycle of transmissions (`page_roundtrip_cycle`, `page_roundtrip_chain`)

The open statement of rounds 3/4 is closed: `page_roundtrip_chain : C02Serial.page_roundtrip_chain_full`.
It is a corollary of the stronger `page_roundtrip_cycle`, which is the parallel-mode, several-magazines version:

* the decoder is in ANY state reached from a fresh decoder by a history of `Good` packets (consistent page headers
  `GoodHdr`, page headers of decimal or time-filling page numbers only `TextOnly`, no C11 `ParHdr`; nothing else is
  asked: rows, X/26, X/27, X/28, M/29, 8/30, undecodable bytes, any magazine);
* a cycle `x0 :: xs` of transmissions of magazine `m` (`SegOk`): header of a decimal page (any sub-code, control bits,
  erase flag on/off), then until the next header of `m` any items: rows 1..25 of the page (any subset / order /
  repeats, odd-parity bytes), (round 6, `Item.ownx`) the page's OWN packets X/26, X/27, X/28 - any designation but
  X/28/3, which makes packet.c discard a text page - and M/29 of its magazine, anywhere between the rows (they change
  enhancement / link / extension data only: `Ttx.own_aux_step`, Props/C02Own), and `Good` packets of the OTHER SEVEN magazines (whole pages of them being opened, stored,
  announced in between; a foreign header's page number must decode, E1);
* a final header `fin` of magazine `m` (time-filling or decimal; only its page number must decode), neighbours in the
  cycle carry different page numbers (`Alt`).

Conclusions, for the state after `fin`: (1) among ALL events those of magazine `m` are exactly one TTX_PAGE event per
transmission, in order, after those of closing the page that was open before; (2) every transmission was stored as
`Fetched` says (text page, its numbers / national option / flags, rows = previous version or blanks merged with the
rows received); (3) if no LATER transmission of the cycle (nor `fin`) carries the same page number, exact and wildcard
look-ups in the FINAL cache return exactly that entry - whatever the other magazines stored meanwhile; (4) rotating
subpages: if the later transmissions with the same page number carry other sub-codes 01..79, the exact look-up of
this sub-code still returns the entry.

The `TextPage` hypothesis of the per-transmission theorems is gone: it is discharged along the run by the invariant
"only text pages were announced" (`Ttx.TInv`, kept by every `TextOnly` packet: `Ttx.run_tinv`).
Lemma chain: `Ttx/Chain1..8.lean`.
-/
namespace Zvbi.Props.C02Chain
open Zvbi.Ttx Zvbi.Hamm Zvbi.Fmt Zvbi.Fmt.L1Spec Zvbi.Props.C02Roundtrip Zvbi.Props.C02Interleave

/-- **text_only_invariant**: after ANY history of packets whose page headers (when the page number decodes) carry a
decimal page number 00..99 or the time-filling FF, on a fresh decoder with a TTX_PAGE handler: every page type in the
page statistics is UNKNOWN or NORMAL, every cached page is a Level 1 text page (`PAGE_FUNCTION_LOP`), every page in
progress is a text page or discarded.  This is what makes the header branch of packet.c assemble every decimal page
as text (`TextPage`), the hypothesis the round-3/4 theorems still carried. -/
theorem text_only_invariant (hist : List Packet) (h : ∀ p ∈ hist, TextOnly p) :
    let s := (run (init.enable true) hist).1
    (∀ pgno, (s.net.getStat pgno).pageType = PT_UNKNOWN ∨ (s.net.getStat pgno).pageType = PT_NORMAL)
    ∧ (∀ q ∈ s.net.cache, q.function = FN_LOP)
    ∧ (∀ c, c < 8 → (s.rp c).page.function = FN_LOP ∨ (s.rp c).page.function = FN_DISCARD)
    ∧ ∀ (t : Tx), decimalPage t.page → TextPage s.net t.pgno t.page (t.prev s) := by
  have hs := init_shape true
  have ht := run_tinv hist (init.enable true) hs rfl init_tinv h
  exact ⟨ht.net.stat, ht.net.cache, ht.slots, fun t hdec => ht.net.textPage _ _ _ _ hdec⟩

example : (∀ q ∈ (run (init.enable true) exStream).1.net.cache, q.function = FN_LOP) :=
  (text_only_invariant exStream (fun p hp => textOnly_of_dec p
    ((by decide +kernel : ∀ p ∈ exStream, textOnlyB p = true) p hp))).2.1

/-- the conclusions of `page_roundtrip_cycle` about the transmission `x` at position `pre ++ x :: post` of the cycle,
    `s` = state before the cycle, `sF` = state after the final header -/
def PageClaim (m : Nat) (s sF : St) (finPage : Nat) (pre : List Seg) (x : Seg) (post : List Seg) : Prop :=
  ∃ q pt, Fetched q x.t (s1Of (run s (stream pre)).1 x.t) x.hdr x.rows pt ∧ pt ≠ PT_CLOCK
    -- last transmission of its page number: exact and wildcard look-ups in the final cache return it
    ∧ ((∀ y ∈ post, y.t.page ≠ x.t.page) → finPage ≠ x.t.page →
        q ∈ sF.net.cache ∧ ∀ subno mask, subno = q.subno ∨ subno = ANY_SUBNO →
          (cacheGet sF.net.cache x.t.pgno subno mask).map (·.1) = some q)
    -- rotating subpages: later transmissions of the page number carry other sub-codes 01..79
    ∧ (SubCode x.t.subno → (∀ y ∈ post, y.t.page = x.t.page → SubCode y.t.subno ∧ y.t.subno ≠ x.t.subno) →
        finPage ≠ x.t.page →
        q.subno = x.t.subno ∧ (cacheGet sF.net.cache x.t.pgno x.t.subno 0xFFFFFFFF).map (·.1) = some q)
    -- (round 6) the entry carries the FLOF links (`link[]`, `have_flof`) and the X/28 record (`x28_designations`; the
    -- extension when X/28/0, /1 or /4 was received) of the page in progress at the moment its terminating header arrives
    ∧ CarriesAux q ((run (run s (stream pre)).1 x.pkts).1.rp m).page

/-- **page_roundtrip_cycle** (parallel mode, up to eight magazines interleaved; see the file header). -/
theorem page_roundtrip_cycle (tmpl : List Nat) (off m : Nat) (hm : m < 8)
    (hist : List Packet) (hhist : ∀ p ∈ hist, Good tmpl off p)
    (x0 : Seg) (xs : List Seg) (hx : ∀ x ∈ x0 :: xs, SegOk tmpl off m x)
    (fin : Packet) (finPage : Nat) (hfa : a16 fin 0 = some m) (hfp : a16 fin 2 = some finPage) (hft : TextOnly fin)
    (halt : Alt ((x0 :: xs).map (·.t.page) ++ [finPage])) :
    let s := (run (init.enable true) hist).1
    let all := run s (stream (x0 :: xs) ++ [fin])
    magPages m all.2 = magPages m (terminatePage (tick s) m x0.t.pgno x0.t.page).2 ++ (x0 :: xs).map Seg.key
    ∧ ∀ pre x post, x0 :: xs = pre ++ x :: post → PageClaim m s all.1 finPage pre x post := by
  intro s all
  have hs : CInv tmpl off s := (run_cinv hist _ (init_cinv tmpl off) hhist).1
  obtain ⟨hcl, hev, hcE⟩ := chain_from m finPage hm s hs x0 xs hx halt
  have hall : all = run s (stream (x0 :: xs) ++ [fin]) := rfl
  rw [run_append] at hall
  simp only [run_cons, run_nil, List.append_nil] at hall
  generalize hsE : (run s (stream (x0 :: xs))).1 = sE at hall hcl hev hcE
  generalize hevE : (run s (stream (x0 :: xs))).2 = evE at hall hev
  have hfe := header_events sE fin m finPage hm hfa hfp hcE hft
  generalize hcT : (terminatePage (tick sE) m (mag8Of m * 256 + finPage) finPage).1.net.cache = cT at hcl
  have hff : ∀ f : Page → Bool, (∀ y : Page, y.pgno = mag8Of m * 256 + finPage → f y = false) →
      (step sE fin).1.net.cache.find? f = cT.find? f := by
    intro f hf
    rw [← hcT]
    exact header_find sE fin m finPage hm hfa hfp hcE hft f hf
  rw [hall]
  refine ⟨?_, ?_⟩
  · show magPages m (evE ++ (step sE fin).2) = _
    rw [magPages_append, magPages_congr m _ _ hfe, ← magPages_append]
    exact hev
  · intro pre x post e
    show PageClaim m s (step sE fin).1 finPage pre x post
    rw [e] at hcl
    obtain ⟨q, rest, pt, hF, hpt, hfind, hcar⟩ := claims_split m cT pre s x post hcl
    have hxok : SegOk tmpl off m x := hx x (by rw [e]; simp)
    have hpostok : ∀ y ∈ post, SegOk tmpl off m y := fun y hy => hx y (by rw [e]; simp [hy])
    have hpage : x.t.page < 256 := a16_lt x.hdr 2 _ hxok.hdr.page
    have hvalid : validPgno x.t.pgno := (pgno_facts x.t.m x.t.page hxok.hdr.mag hxok.dec).1
    have hkm : ∀ key mask (y : Page), y.pgno = mag8Of m * 256 + finPage → finPage ≠ x.t.page →
        keyMatch x.t.pgno key mask y = false := by
      intro key mask y hy hne
      cases hk : keyMatch x.t.pgno key mask y with
      | false => rfl
      | true =>
        exfalso
        have := (keyMatch_true hk).1
        rw [hy] at this
        unfold Tx.pgno at this
        rw [hxok.mag] at this
        exact tx_pgno_ne m _ _ hne this
    refine ⟨q, pt, hF, hpt, ?_, ?_, hcar⟩
    · intro hlast hfinne
      have hk := known_of_claim m cT x post q rest hxok.mag hpage hF.pgno
        (fun y hy => ⟨(hpostok y hy).mag, hlast y hy⟩) hfind
      have hfound : ∀ subno mask, subno = q.subno ∨ subno = ANY_SUBNO →
          (step sE fin).1.net.cache.find? (keyMatch x.t.pgno subno (if subno == ANY_SUBNO then 0 else mask)) = some q := by
        intro subno mask hsub
        rw [hff _ (fun y hy => hkm _ _ y hy hfinne)]
        exact hk subno mask hsub
      refine ⟨?_, ?_⟩
      · exact List.mem_of_find?_eq_some (hfound ANY_SUBNO 0 (Or.inr rfl))
      · intro subno mask hsub
        exact cacheGet_of_find _ _ subno mask q hvalid (hfound subno mask hsub)
    · intro hsc hrot hfinne
      have hb : isBcd x.t.pgno = true := isBcd_pgno x.t.m hxok.hdr.mag x.t.page hpage hxok.dec.1 hxok.dec.2
      have hqs : q.subno = x.t.subno := hF.subno _ _ (putKey_sub pt x.t.pgno x.t.subno hb hsc hpt)
      refine ⟨hqs, ?_⟩
      have hsx : x.t.subno < 256 := by have := hsc.2.1; omega
      have hany : (x.t.subno == ANY_SUBNO) = false := by
        have : x.t.subno ≠ ANY_SUBNO := by unfold ANY_SUBNO; omega
        simpa using this
      apply cacheGet_of_find _ _ _ _ q hvalid
      simp only [hany, Bool.false_eq_true, if_false]
      rw [hff _ (fun y hy => hkm _ _ y hy hfinne)]
      have hofm : OfMag m (keyMatch x.t.pgno x.t.subno 0xFFFFFFFF) := by
        unfold Tx.pgno; rw [hxok.mag]; exact ofMag_keyMatch m x.t.page _ _ hpage
      rw [hfind _ hofm]
      · have hmq : keyMatch x.t.pgno x.t.subno 0xFFFFFFFF q = true := by
          unfold keyMatch
          rw [hF.pgno, hqs]
          simp
        rw [List.find?_cons, hmq]
      · intro y hy
        have hyok := hpostok y hy
        by_cases hyp : y.t.page = x.t.page
        · obtain ⟨hys, hyne⟩ := hrot y hy hyp
          have hpg : y.t.pgno = x.t.pgno := by unfold Tx.pgno; rw [hyok.mag, hxok.mag, hyp]
          refine ⟨?_, ?_⟩
          · rw [hpg]; exact putKeeps_sub x.t.pgno y.t.subno x.t.subno hb hys hsx hyne
          · rw [hpg]; exact getKeeps_sub x.t.pgno y.t.subpage y.t.fl y.t.subno x.t.subno rfl hys.2.1 hsx hyne
        · apply undist_other
          unfold Tx.pgno
          rw [hyok.mag, hxok.mag]
          exact tx_pgno_ne m _ _ hyp

/-! ### the single-magazine corollary: last round's open statement -/

/-- **page_roundtrip_cycle_fetch**: the cycle theorem joined with the formatter.  Under the hypotheses of
`page_roundtrip_cycle`, for the LAST transmission `x` of a page number in the cycle (no later transmission and not the
final header carry that page number): in the state after the final header `vbi_fetch_vt_page` (model `C02.fetch`: cache
look-up, LOP check, Level 1 / 1.5 formatting with default region `region`) with the wildcard sub-code - or the sub-code
the page was filed under - succeeds with the transmitted page number, and every cell of rows 0..24 is `L1Spec.cell`
(EN 300 706 12.2: character through the designated G0 set and national option subset, colours, flash, conceal,
size, opacity) of a page `q` whose national option bits are the transmitted C12-C14 and whose byte at (row r, column c),
for every row number r received in this transmission, is byte c of a packet r of this transmission (the last one). -/
theorem page_roundtrip_cycle_fetch (tmpl : List Nat) (off m : Nat) (hm : m < 8)
    (hist : List Packet) (hhist : ∀ p ∈ hist, Good tmpl off p)
    (x0 : Seg) (xs : List Seg) (hx : ∀ x ∈ x0 :: xs, SegOk tmpl off m x)
    (fin : Packet) (finPage : Nat) (hfa : a16 fin 0 = some m) (hfp : a16 fin 2 = some finPage) (hft : TextOnly fin)
    (halt : Alt ((x0 :: xs).map (·.t.page) ++ [finPage])) (region : Nat)
    (pre : List Seg) (x : Seg) (post : List Seg) (e : x0 :: xs = pre ++ x :: post)
    (hlast : ∀ y ∈ post, y.t.page ≠ x.t.page) (hfinne : finPage ≠ x.t.page) :
    let sF := (run (run (init.enable true) hist).1 (stream (x0 :: xs) ++ [fin])).1
    ∃ q, q.national = rev8 x.t.fl &&& 7
      ∧ (∀ subno, subno = q.subno ∨ subno = ANY_SUBNO →
          ∃ cells, C02.fetch sF region x.t.pgno subno = some (x.t.pgno, q.subno, cells)
            ∧ ∀ row col, row < 25 → col < 40 → cellAt cells row col = L1Spec.cell .lib (C02.pageInOf region q) row col)
      ∧ (∀ r ∈ x.rows, ∃ r' ∈ x.rows, r'.1 = r.1
          ∧ ∀ c, c < 40 → (C02.pageInOf region q).raw (40 * r.1 + c) = r'.2.getD c 0) := by
  intro sF
  obtain ⟨_, hclaims⟩ := page_roundtrip_cycle tmpl off m hm hist hhist x0 xs hx fin finPage hfa hfp hft halt
  obtain ⟨q, pt, hF, _, hknown, _⟩ := hclaims pre x post e
  obtain ⟨hqmem, hget⟩ := hknown hlast hfinne
  refine ⟨q, hF.national, ?_, ?_⟩
  · intro subno hs
    have hg := hget subno 0xFFFFFFFF hs
    refine ⟨format (C02.pageInOf region q), ?_, fun row col hr hc => format_cellAt _ row col hr hc⟩
    unfold C02.fetch C02.fetchCache C02.cacheOf
    cases hc : cacheGet sF.net.cache x.t.pgno subno 0xFFFFFFFF with
    | none => rw [hc] at hg; cases hg
    | some r =>
      obtain ⟨q', c'⟩ := r
      rw [hc] at hg
      simp only [Option.map_some, Option.some.injEq] at hg
      subst hg
      simp only [hF.fn, true_or, if_true, hF.pgno]
  · intro r hr
    have hxok : SegOk tmpl off m x := hx x (by rw [e]; simp)
    have hsh : q.raw.length = 26 := by
      have := (reachable_shape true (hist ++ (stream (x0 :: xs) ++ [fin]))).2.2.1
      rw [run_append] at this
      exact this q hqmem
    have hbl : (x.t.base (s1Of (run (run (init.enable true) hist).1 (stream pre)).1 x.t) x.hdr).length = 26 := by
      rw [← mergeRows_length _ x.rows, ← hF.raw]; exact hsh
    have hr25 : 1 ≤ r.1 ∧ r.1 ≤ 25 := by
      have hall : ∀ (items : List Item), (∀ it ∈ items, ItemPlain x.t.m it) →
          ∀ r ∈ rowsOf (ownRows items), 1 ≤ r.1 ∧ r.1 ≤ 25 := by
        intro items
        induction items with
        | nil => intro _ r hr; cases hr
        | cons it items ih =>
          intro hall r hr
          cases it with
          | own k p =>
            simp only [ownRows, rowsOf, List.map_cons, List.mem_cons] at hr
            rcases hr with rfl | hr
            · have := hall _ List.mem_cons_self
              exact ⟨this.2.1, this.2.2.1⟩
            · exact ih (fun x hx => hall x (List.mem_cons_of_mem _ hx)) r hr
          | foreign m' k p => exact ih (fun x hx => hall x (List.mem_cons_of_mem _ hx)) r hr
          | ownx k p => exact ih (fun x hx => hall x (List.mem_cons_of_mem _ hx)) r hr
      exact hall x.items (fun it hit => (hxok.items it hit).1) r hr
    obtain ⟨v, hv, hvm⟩ := merged_row_received _ x.rows r.1 (by rw [hbl]; omega)
      (by rw [List.any_eq_true]; exact ⟨r, hr, by simp⟩)
    refine ⟨(r.1, v), hvm, rfl, ?_⟩
    intro c hc
    show ((q.raw.getD ((40 * r.1 + c) / 40) []).getD ((40 * r.1 + c) % 40) 0) = v.getD c 0
    have e1 : (40 * r.1 + c) / 40 = r.1 := by omega
    have e2 : (40 * r.1 + c) % 40 = c := by omega
    rw [e1, e2, hF.raw, List.getD_eq_getElem?_getD (l := mergeRows _ _), hv]
    rfl

/-- **page_roundtrip_chain**: the statement left open in rounds 3 and 4 (`C02Serial.page_roundtrip_chain_full`,
`C02.page_roundtrip_full`).  A fresh decoder with a TTX_PAGE handler receives a whole cycle of transmissions of one
magazine - each a header of a decimal page (any sub-code, control bits with C11 = 0, erase flag on/off, header text
consistent with one network header) followed by any rows 1..25 (subset, order, repeats free; odd parity) and
terminated by the next header, which carries another page number; the last one by a time-filling header.  Then
exactly one TTX_PAGE event per transmission was delivered, in order, with the transmitted page / sub-page number, and
every page number of the cycle is fetched (wildcard sub-page look-up) as a Level 1 text page with that number whose
rows show, for every row number received in the LAST transmission of the page number, a packet of that transmission. -/
theorem page_roundtrip_chain : C02Serial.page_roundtrip_chain_full := by
  intro tmpl off m txs fin hm htx hadj hfa hfp
  have hft : TextOnly fin := by
    intro pmag page _ _ hp
    rw [hfp] at hp; injection hp with hp
    exact Or.inr hp.symm
  cases txs with
  | nil =>
    simp only [List.flatMap_nil, List.nil_append, List.map_nil]
    refine ⟨?_, fun x hx => by cases hx⟩
    rw [run_cons, run_nil]
    simp only [List.append_nil]
    rw [header_events (init.enable true) fin m 0xFF hm hfa hfp (init_cinv tmpl off) hft,
      terminatePage_fresh _ _ _ _ init_current]
    rfl
  | cons a rest =>
    have hok : ∀ x ∈ (a :: rest).map segOf, SegOk tmpl off m x := by
      intro x hx
      rw [List.mem_map] at hx
      obtain ⟨y, hy, rfl⟩ := hx
      exact segOk_of tmpl off m y (htx y hy)
    have halt := alt_txs (a :: rest) (fun x hx => (htx x hx).2.2.1) hadj
    have hcyc := page_roundtrip_cycle tmpl off m hm [] (fun _ h => by cases h) (segOf a) (rest.map segOf) hok fin 0xFF
      hfa hfp hft halt
    simp only [] at hcyc
    rw [show (run (init.enable true) []).1 = init.enable true from rfl, ← List.map_cons, stream_segOf] at hcyc
    obtain ⟨hev, hclaims⟩ := hcyc
    intro stream sF
    have hsF : sF = (run (init.enable true) (List.flatMap (fun x => x.2.1 :: x.2.2.map (·.2)) (a :: rest) ++ [fin])).1 := rfl
    refine ⟨?_, ?_⟩
    · -- events: all of them belong to magazine m
      show ttxPages (run (init.enable true) (List.flatMap (fun x => x.2.1 :: x.2.2.map (·.2)) (a :: rest) ++ [fin])).2 = _
      have hfresh : terminatePage (tick (init.enable true)) m (segOf a).t.pgno (segOf a).t.page
          = (tick (init.enable true), []) := terminatePage_fresh _ _ _ _ init_current
      have hkey : ((a :: rest).map segOf).map Seg.key = (a :: rest).map (fun x => (x.1.pgno, x.1.subno)) := by
        rw [List.map_map]; rfl
      rw [hfresh, magPages_nil, List.nil_append, hkey] at hev
      rw [← hev]
      symm
      apply magPages_all
      rw [run_append]
      simp only [run_cons, run_nil, List.append_nil]
      intro x hx
      rw [ttxPages_append, List.mem_append] at hx
      have hgood : ∀ p ∈ Zvbi.Ttx.stream ((a :: rest).map segOf), Good tmpl off p ∧ OwnPkt m p := by
        intro p hp
        refine ⟨stream_good _ hok p hp, ?_⟩
        unfold Zvbi.Ttx.stream at hp
        rw [List.mem_flatMap] at hp
        obtain ⟨sg, hsg, hp⟩ := hp
        rw [List.mem_map] at hsg
        obtain ⟨y, hy, rfl⟩ := hsg
        exact ownPkt_of m y (htx y hy).2.1 (htx y hy).2.2.2.2.2 p hp
      rw [← stream_segOf] at hx
      rcases hx with hx | hx
      · exact run_own_events m hm _ _ (init_cinv tmpl off) hgood x hx
      · obtain ⟨hcE, _⟩ := run_cinv (Zvbi.Ttx.stream ((a :: rest).map segOf)) _ (init_cinv tmpl off)
          (fun p hp => (hgood p hp).1)
        rw [header_events _ fin m 0xFF hm hfa hfp hcE hft] at hx
        obtain ⟨pre, l, e⟩ : ∃ pre l, (a :: rest).map segOf = pre ++ [l] :=
          ⟨((a :: rest).map segOf).dropLast, ((a :: rest).map segOf).getLast (by simp),
            (List.dropLast_concat_getLast _).symm⟩
        have hlok : SegOk tmpl off m l := hok l (by rw [e]; simp)
        have hne : 0xFF ≠ l.t.page := by have := hlok.dec.1; omega
        rw [e, last_close m hm _ (init_cinv tmpl off) pre l (fun y hy => hok y (by rw [e]; simp [hy])) hlok _ 0xFF hne] at hx
        rw [List.mem_singleton] at hx
        rw [hx]
        exact ⟨l.t.page, a16_lt l.hdr 2 _ hlok.hdr.page, by unfold Seg.key Tx.pgno; rw [hlok.mag]⟩
    · -- every page number of the cycle
      intro x hx
      obtain ⟨pre, y, post, e, hy, hpost⟩ := exists_last (fun z : Tx × Packet × List RowPkt => z.1.pgno = x.1.pgno)
        (a :: rest) x hx rfl
      have hymem : y ∈ a :: rest := by rw [e]; simp
      have hyok := htx y hymem
      have e' : (a :: rest).map segOf = pre.map segOf ++ segOf y :: post.map segOf := by rw [e]; simp
      obtain ⟨q, pt, hF, _, hknown, _⟩ := hclaims (pre.map segOf) (segOf y) (post.map segOf) e'
      have hlast : ∀ z ∈ post.map segOf, z.t.page ≠ (segOf y).t.page := by
        intro z hz
        rw [List.mem_map] at hz
        obtain ⟨w, hw, rfl⟩ := hz
        intro hpg
        apply hpost w hw
        have hwok := htx w (by rw [e]; simp [hw])
        show w.1.pgno = x.1.pgno
        rw [← hy]
        unfold Tx.pgno
        rw [hwok.1, hyok.1]
        show mag8Of m * 256 + (segOf w).t.page = _
        rw [hpg]; rfl
      have hfinne : 0xFF ≠ (segOf y).t.page := by
        have := hyok.2.2.1.1
        show 0xFF ≠ y.1.page
        omega
      obtain ⟨hqmem, hget⟩ := hknown hlast hfinne
      have hg := hget ANY_SUBNO 0 (Or.inr rfl)
      rw [show (segOf y).t.pgno = x.1.pgno from hy] at hg
      refine ⟨q, hg, hF.fn, hF.pgno.trans hy, y, hymem, hy, ?_⟩
      intro r hr
      have hsh := (reachable_shape true (List.flatMap (fun x => x.2.1 :: x.2.2.map (·.2)) (a :: rest) ++ [fin])).2.2.1 q hqmem
      have hraw := hF.raw
      have hrows : (segOf y).rows = rowsOf y.2.2 := by unfold Seg.rows segOf; simp only [ownRows_own]
      rw [hrows] at hraw
      have hbl : ((segOf y).t.base (s1Of (run (init.enable true) (Zvbi.Ttx.stream (pre.map segOf))).1 (segOf y).t)
          (segOf y).hdr).length = 26 := by
        rw [← mergeRows_length _ (rowsOf y.2.2), ← hraw]; exact hsh
      have hr25 := (hyok.2.2.2.2.2 r hr).2.2.1
      obtain ⟨v, hv, hvm⟩ := merged_row_received _ (rowsOf y.2.2) r.1 (by rw [hbl]; omega)
        (by
          rw [List.any_eq_true]
          exact ⟨(r.1, payload r.2), by unfold rowsOf; exact List.mem_map.mpr ⟨r, hr, rfl⟩, by simp⟩)
      unfold rowsOf at hvm
      rw [List.mem_map] at hvm
      obtain ⟨r', hr', er'⟩ := hvm
      injection er' with e1 e2
      refine ⟨r', hr', e1, ?_⟩
      rw [hraw, List.getD_eq_getElem?_getD, hv, ← e2]
      rfl

/-! ### non-vacuity: a concrete interleaved cycle satisfies the hypotheses; the conclusion evaluated on the model -/

/-- header of page (`m`, `page`) with the page number at columns 8..10 of the header text -/
def hd (m page : Nat) : Packet := hdrPkt m page 0 (textOf (mag8Of m * 256 + page) 0x20)
def cycTmpl : List Nat := payload (hd 1 0)

/-- magazine 1 sends 100, 101, 100 (second version of 100: row 2 only, no erase flag) -/
def cyc0 : Seg := ⟨⟨1, 0x00, 0, 0, 0⟩, hd 1 0x00, [.own 1 (rowPkt 1 1 0xC1), .foreign 2 0 (hd 2 0x50)]⟩
/-- ... magazine 2 sends 250 and 251 in between -/
def cyc1 : Seg := ⟨⟨1, 0x01, 0, 0, 0⟩, hd 1 0x01, [.foreign 2 1 (rowPkt 2 1 0x43), .own 3 (rowPkt 1 3 0xC2)]⟩
def cyc2 : Seg := ⟨⟨1, 0x00, 0, 0, 0⟩, hd 1 0x00, [.own 2 (rowPkt 1 2 0x45), .foreign 2 0 (hd 2 0x51)]⟩

/-- `page_roundtrip_cycle` APPLIES to that cycle from a fresh decoder (every hypothesis discharged): the claim for the
    transmission of 101 in the middle, whose page number is not sent again -/
example : PageClaim 1 (init.enable true)
    (run (init.enable true) (stream [cyc0, cyc1, cyc2] ++ [hd 1 0xFF])).1 0xFF [cyc0] cyc1 [cyc2] := by
  have hok : ∀ x ∈ [cyc0, cyc1, cyc2], SegOk cycTmpl 8 1 x := by
    have : ∀ x ∈ [cyc0, cyc1, cyc2], segOkB cycTmpl 8 1 x = true := by decide +kernel
    exact fun x hx => segOk_of_dec _ _ _ x (this x hx)
  exact (page_roundtrip_cycle cycTmpl 8 1 (by decide) [] (fun _ h => by cases h) cyc0 [cyc1, cyc2] hok (hd 1 0xFF) 0xFF
    (by decide +kernel) (by decide +kernel) (textOnly_of_dec _ (by decide +kernel))
    ⟨by decide, by decide, by decide, trivial⟩).2 [cyc0] cyc1 [cyc2] rfl

/-- ... and so does `page_roundtrip_cycle_fetch`: page 101 is fetched (wildcard sub-code) with cells = L1Spec of a page
    whose row 3 is the packet sent -/
example : ∃ q cells, C02.fetch (run (run (init.enable true) []).1 (stream [cyc0, cyc1, cyc2] ++ [hd 1 0xFF])).1 0 0x101 ANY_SUBNO
      = some (0x101, q.subno, cells)
    ∧ ∀ c, c < 40 → (C02.pageInOf 0 q).raw (40 * 3 + c) = 0xC2 := by
  have hok : ∀ x ∈ [cyc0, cyc1, cyc2], SegOk cycTmpl 8 1 x := by
    have : ∀ x ∈ [cyc0, cyc1, cyc2], segOkB cycTmpl 8 1 x = true := by decide +kernel
    exact fun x hx => segOk_of_dec _ _ _ x (this x hx)
  obtain ⟨q, _, hfetch, hrows⟩ := page_roundtrip_cycle_fetch cycTmpl 8 1 (by decide) [] (fun _ h => by cases h) cyc0 [cyc1, cyc2] hok
    (hd 1 0xFF) 0xFF (by decide +kernel) (by decide +kernel) (textOnly_of_dec _ (by decide +kernel))
    ⟨by decide, by decide, by decide, trivial⟩ 0 [cyc0] cyc1 [cyc2] rfl (by decide) (by decide)
  obtain ⟨cells, hc, _⟩ := hfetch ANY_SUBNO (Or.inr rfl)
  refine ⟨q, cells, hc, ?_⟩
  intro c hc40
  obtain ⟨r', hr', e1, e2⟩ := hrows (3, List.replicate 40 0xC2) (by decide +kernel)
  have hr'' : r' = (3, List.replicate 40 0xC2) := by
    have : ∀ r ∈ cyc1.rows, r.1 = 3 → r = (3, List.replicate 40 0xC2) := by decide +kernel
    exact this r' hr' e1
  rw [e2 c hc40, hr'']
  have : ∀ c, c < 40 → (List.replicate 40 0xC2).getD c 0 = 0xC2 := by decide
  exact this c hc40

/-- what the model computes on that cycle: one event per transmission of magazine 1 (and one for 250), page 100 = row 1
    of its first and row 2 of its second transmission, 101 and 250 intact -/
example :
    let r := run (init.enable true) (stream [cyc0, cyc1, cyc2] ++ [hd 1 0xFF])
    magPages 1 r.2 = [(0x100, 0), (0x101, 0), (0x100, 0)] ∧ ttxPages r.2 = [(0x100, 0), (0x101, 0), (0x250, 0), (0x100, 0)]
    ∧ (cacheGet r.1.net.cache 0x100 ANY_SUBNO 0).map (fun g => (g.1.raw.getD 1 [], g.1.raw.getD 2 []))
        = some (List.replicate 40 0xC1, List.replicate 40 0x45)
    ∧ (cacheGet r.1.net.cache 0x101 ANY_SUBNO 0).map (fun g => g.1.raw.getD 3 []) = some (List.replicate 40 0xC2)
    ∧ (cacheGet r.1.net.cache 0x250 ANY_SUBNO 0).map (fun g => g.1.raw.getD 1 []) = some (List.replicate 40 0x43) := by
  decide +kernel

end Zvbi.Props.C02Chain
