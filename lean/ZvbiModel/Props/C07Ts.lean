import ZvbiModel.Props.C07
import ZvbiModel.Demux.LemmasTsContInv
import ZvbiModel.Demux.LemmasTsContStrict
import ZvbiModel.Generated.DemuxTsShape
/-!
# C07, TS path, round 6: what the expected continuity_counter can be, the rule for a gap, dead error exit

Triage of the four mutants of `demux_ts_packet` that survived the systematic run (mutants/C07.json): all four are
equivalent mutants, and each equivalence is a statement here (or a regenerated fact):
* `b3 & 0x0F -> b3 & 0xE` (line ~2062) is an argument of a `debug2 ()` log line - no effect on frames or memory.
* `ts_continuity >= 0 -> > 0` (line ~2115): `ts_continuity_never_zero`, `ts_continuity_sign_test_equivalent`.
* the two changes in `bad_ts_packet_return:` (lines ~2301 / ~2303): dead code, `ts_source_shape`.
The live statements with the same text (three copies of the `ts_buffer` bookkeeping, the two masks of the continuity
test) are covered by generator families `ts_cc`, `ts_gap` and the oracle, see NOTES/C07.md round 6.
-/
namespace Zvbi.Props.C07Ts

open Zvbi Zvbi.Demux Zvbi.Props.C07

variable (cfg : SrcCfg)

/-- **ts_continuity_never_zero.** After every history of feed calls on a new TS demultiplexer - whatever the bytes
and the cuts - the expected continuity_counter is unknown (`-1`) or at least 1: the code stores `-1` and `b3 + 1`
only.  (No "bytes < 256" or "no fault" hypothesis.) -/
theorem ts_continuity_never_zero (pid : Nat) (hist : List Bytes) :
    ∀ c, (tsAfter cfg pid hist).cont = some c → 1 ≤ c := by
  unfold tsAfter
  have : ∀ (s : TsSt), ContOk s → ContOk (hist.foldl (fun s c => (tsFeed cfg s c).st) s) := by
    induction hist with
    | nil => intro s h; exact h
    | cons c cs ih => intro s h; exact ih _ (tsFeed_contOk cfg s c h)
  exact this _ (ContOk_init pid)

example : (tsAfter SrcCfg.repaired 256 [tsThree]).cont = some (0x12 + 1) := by decide +kernel

/-- **ts_continuity_sign_test_equivalent.** In every reachable context and for every packet the continuity test with
`if (dx->ts_continuity > 0)` gives the verdict of the test as written (`>= 0`): the surviving mutant is an equivalent
one.  The same invariant is what makes the model's truncated `c - 1` the C code's `unsigned int prev_cont`. -/
theorem ts_continuity_sign_test_equivalent (pid : Nat) (hist : List Bytes) (b3 : Nat) :
    tsContCheckStrict (tsAfter cfg pid hist).cont b3 = tsContCheck (tsAfter cfg pid hist).cont b3 :=
  tsContCheckStrict_eq _ (ts_continuity_never_zero cfg pid hist) b3

/-- non-vacuity: at 0 the two tests differ -/
example : tsContCheckStrict (some 0) 15 ≠ tsContCheck (some 0) 15 := tsContCheckStrict_differs_at_zero

/-- **ts_gap_discards_pes_packet.** The rule for a gap: a packet of the PID that passes the TS header checks and
carries neither the expected counter nor the one before it (`ts_repeated_iff_same_counter`: the 14 other values) is
skipped together with the PES packet in progress and the lines collected for the current frame (`new_frame`,
`ts_pes_todo = 0`, `consume = 0`), the expected counter becomes this packet's counter + 1 (so the next packet in
sequence is accepted) - and nothing else changes: sync state, PID, the delivered-frame state other than `new_frame`. -/
theorem ts_gap_discards_pes_packet (s : TsSt) (q : Bytes) (c : Nat) (hc : s.cont = some c)
    (hh : tsHeaderCheck s q = none) (hg : tsContCheck (some c) (q.getD 3 0) = .lost) :
    let r := tsSkipPesPacket { s with cont := some (q.getD 3 0 + 1) } q
    tsHeader cfg s q = (r, none) ∧ r.cont = some (q.getD 3 0 + 1) ∧ r.pesTodo = 0 ∧ r.consume = 0
      ∧ r.fs = { s.fs with newFrame := true } ∧ r.inSync = s.inSync ∧ r.pid = s.pid
      ∧ tsContCheck r.cont (q.getD 3 0 + 1) = .ok := by
  intro r
  have e : tsHeader cfg s q = (r, none) := by
    unfold tsHeader
    rw [hh]
    simp only [hc, hg]
    rfl
  have hok : tsContCheck (some (q.getD 3 0 + 1)) (q.getD 3 0 + 1) = .ok := (tsContCheck_ok_next _ _).2 rfl
  have hf : ∀ t : TsSt, (tsSkipPesPacket t q).cont = t.cont ∧ (tsSkipPesPacket t q).pesTodo = 0 ∧
      (tsSkipPesPacket t q).consume = 0 ∧ (tsSkipPesPacket t q).fs = { t.fs with newFrame := true } ∧
      (tsSkipPesPacket t q).inSync = t.inSync ∧ (tsSkipPesPacket t q).pid = t.pid := by
    intro t
    unfold tsSkipPesPacket tsAdvance
    dsimp only
    split <;> exact ⟨rfl, rfl, rfl, rfl, rfl, rfl⟩
  obtain ⟨h1, h2, h3, h4, h5, h6⟩ := hf { s with cont := some (q.getD 3 0 + 1) }
  have h1' : r.cont = some (q.getD 3 0 + 1) := h1
  exact ⟨e, h1', h2, h3, h4, h5, h6, by rw [h1']; exact hok⟩

/-- non-vacuity, end to end on the model: frames PTS 3 4 [5 missing] 6 7 8, one TS packet each; the gap is seen at 6:
frame 4 (held) and packet 6 go, 3 and 7 are delivered (8 stays open) -/
example : ((tsFeed SrcCfg.repaired (TsSt.init 256)
      (tsOf 256 0 (linePacket 3 7 0x55) ++ tsOf 256 1 (linePacket 4 7 0x66) ++ tsOf 256 3 (linePacket 6 7 0x77)
        ++ tsOf 256 4 (linePacket 7 7 0x11) ++ tsOf 256 5 (linePacket 8 7 0x22))).frames.map
      fun f => (f.pts, f.lines.map (·.line))) = [(3, [7]), (7, [7])] := by decide +kernel

/-- **ts_source_shape.** Two facts read from the current source by `translate/gen_demux.py` that the TS model relies
on: the error exit `bad_ts_packet_return:` (a third copy of the `ts_buffer` bookkeeping) is reached only from
`if (0) { ... }` blocks - the model has no such path -, and `dx->ts_continuity` is assigned `-1` and `b3 + 1` only.
If either changes in /repo this theorem no longer builds. -/
theorem ts_source_shape :
    Gen.demuxTsErrorExitDead = true ∧ Gen.demuxTsContinuityMinus1OrB3Plus1 = true := ⟨rfl, rfl⟩

example : Gen.demuxTsErrorExitDead = true := (ts_source_shape).1

end Zvbi.Props.C07Ts
