import ZvbiModel.Fmt.LemmasStd
import ZvbiModel.Fmt.LemmasFlof
import ZvbiModel.Ttx.Model
/-!
# Property C02: a transmitted Teletext page is cached and fetched exactly as sent

Formatting half (component `fmt`): `Fmt.format` is the model of teletext.c `vbi_format_vt_page`
(Level 1 / 1.5 row loop), `L1Spec` is EN 300 706 section 12.2 written declaratively ("the last relevant
control code before/at the column decides", set-at / set-after, row defaults, hold mosaics, double
height); see `Fmt/Spec.lean` for the readings adopted.  The theorems hold for EVERY page: all 25x40 byte
contents (any parity), all flags, all national option bits, all default regions / character set codes,
all colour-table offsets, every cell.

The assembly half (packet.c) is C03's model `Ttx`; `fetch_refines_L1Spec` joins the two: whatever any
packet history leaves in the cache, a fetch shows exactly L1Spec of the cached bytes.  That the cached bytes
are the sent bytes (`page_roundtrip`) is proved in `Props/C02Roundtrip.lean` for one transmission of one
magazine in parallel mode from any decoder state (`single_page_roundtrip`, `page_roundtrip_parallel`);
`page_roundtrip_full` below (a whole chain from a fresh decoder) stays stated here as an open `def`.
-/
namespace Zvbi.Props.C02
open Zvbi.Fmt Zvbi.Fmt.L1Spec Zvbi.Gen.Fmt

/-- The numeric enum values written as literals in the model are the values of the current headers
(`vbi_size`, `vbi_opacity`, `vbi_color`, `vbi_character_set`, the C4..C11 flag bits) and the table
extents are those of lang.c; regenerated from /repo on every run, so a changed header breaks the build. -/
theorem enum_guard :
    kVBI_NORMAL_SIZE = 0 ∧ kVBI_DOUBLE_WIDTH = 1 ∧ kVBI_DOUBLE_HEIGHT = 2 ∧ kVBI_DOUBLE_SIZE = 3 ∧
    kVBI_OVER_TOP = 4 ∧ kVBI_OVER_BOTTOM = 5 ∧ kVBI_DOUBLE_HEIGHT2 = 6 ∧ kVBI_DOUBLE_SIZE2 = 7 ∧
    kVBI_TRANSPARENT_SPACE = 0 ∧ kVBI_SEMI_TRANSPARENT = 2 ∧ kVBI_OPAQUE = 3 ∧ kVBI_BLACK = 0 ∧ kVBI_WHITE = 7 ∧
    kLATIN_G0 = 1 ∧ kCYRILLIC_1_G0 = 3 ∧ kCYRILLIC_2_G0 = 4 ∧ kCYRILLIC_3_G0 = 5 ∧ kGREEK_G0 = 7 ∧
    kARABIC_G0 = 9 ∧ kHEBREW_G0 = 11 ∧
    kC4_ERASE_PAGE = 0x80 ∧ kC5_NEWSFLASH = 0x4000 ∧ kC6_SUBTITLE = 0x8000 ∧ kC7_SUPPRESS_HEADER = 0x10000 ∧
    kC10_INHIBIT_DISPLAY = 0x80000 ∧ kC11_MAGAZINE_SERIAL = 0x100000 ∧
    nFontDescriptors = 88 ∧ nNationalSubsets = 14 ∧ nationalSubsetSize = 14 * 13 := by decide

example : kVBI_DOUBLE_SIZE2 = 7 := enum_guard.2.2.2.2.2.2.2.1

/-- **format_refines_L1Spec** (libzvbi's held-mosaic reading).  For every page and every cell (row < 25,
column < 40) the formatted cell - unicode, foreground, background, flash, conceal, size, opacity - is the
declaratively specified one.  Header row, national subsets, double height row skipping included. -/
theorem format_refines_L1Spec_libheld (p : PageIn) (row col : Nat) (hr : row < 25) (hc : col < 40) :
    cellAt (format p) row col = L1Spec.cell .lib p row col :=
  format_cellAt p row col hr hc

/-- non-vacuity: a concrete page with mosaics, hold, double height and a national character -/
def samplePage : PageIn :=
  { pgno := 0x123, subno := 1, flags := 0, national := 1,
    raw := fun i => if i = 40 then 0x91 else if i = 41 then 0x7F else if i = 42 then 0x9E
      else if i = 43 then 0x0D else if i = 44 then 0x40 else if i = 45 then 0x13 else 0x20 }

example : cellAt (format samplePage) 1 1 = { unicode := 0xEE7F, fg := 1, bg := 0, size := 0, opacity := 3 } := by
  decide +kernel
example : (cellAt (format samplePage) 2 4).size = 6 := by decide +kernel          -- lower half of the double height row
example : (cellAt (format samplePage) 1 4).unicode = 0xA7 := by decide +kernel    -- 0x40 in the German subset: U+00A7

/-- the same as one equation between whole pages (25 rows of 40 cells) -/
theorem format_refines_L1Spec_page (p : PageIn) :
    (List.range 25).map (fun r => (List.range 40).map (fun c => cellAt (format p) r c)) = L1Spec.page .lib p := by
  unfold L1Spec.page
  apply List.map_congr_left
  intro r hr
  apply List.map_congr_left
  intro c hc
  exact format_cellAt p r c (List.mem_range.mp hr) (List.mem_range.mp hc)

example : ((List.range 25).map (fun r => (List.range 40).map (fun c => cellAt (format samplePage) r c))).length = 25 := by
  simp

/-- The full-strength statement against EN 300 706 12.2 *including* the held-mosaic reset rule. -/
def format_refines_L1Spec_full : Prop :=
  ∀ (p : PageIn) (row col : Nat), row < 25 → col < 40 → cellAt (format p) row col = L1Spec.cell .std p row col

/-- row 1 = mosaic red, block, hold, alpha red, mosaic green, mosaic yellow: libzvbi repeats the block in
column 5 although the alpha/mosaics mode changed twice in between (the standard resets it to a blank) -/
def heldWitness : PageIn :=
  { pgno := 0x100, subno := 0, flags := 0, national := 0,
    raw := fun i => if i = 40 then 0x91 else if i = 41 then 0x7F else if i = 42 then 0x9E
      else if i = 43 then 0x01 else if i = 44 then 0x92 else if i = 45 then 0x13 else 0x20 }

/-- The full statement is FALSE on the unchanged tree (genuine deviation, replayed on the C code by
corpus/C02/held-mosaic-reset.ops; KNOWN-FINDING F37). -/
theorem format_refines_L1Spec_counterexample : ¬ format_refines_L1Spec_full := by
  intro h
  have := h heldWitness 1 5 (by decide) (by decide)
  revert this
  decide +kernel

example : (cellAt (format heldWitness) 1 5).unicode = 0xEE7F ∧ (L1Spec.cell .std heldWitness 1 5).unicode = 0xEE20 := by
  decide +kernel

/-- **format_refines_L1Spec_partial** (standard's rule, unconditional part).  For every page and cell the
formatted cell agrees with the standard-rule L1Spec in foreground, background, flash, conceal, size and
opacity, and in the character unless the standard shows the blank held mosaic U+EE20 there (i.e. the only
possible deviation is a held mosaic that survived a change of alpha/mosaics mode or of size). -/
theorem format_refines_L1Spec_partial (p : PageIn) (row col : Nat) (hr : row < 25) (hc : col < 40) :
    HeldRel (cellAt (format p) row col) (L1Spec.cell .std p row col) := by
  rw [format_cellAt p row col hr hc]
  exact cell_rel p row col

example : HeldRel (cellAt (format heldWitness) 1 5) (L1Spec.cell .std heldWitness 1 5) :=
  format_refines_L1Spec_partial _ _ _ (by decide) (by decide)

/-- ... and on pages where no row changes alpha/mosaics mode or size (reinforcements do not count) the
formatted page equals the standard-rule L1Spec in every attribute of every cell. -/
theorem format_refines_L1Spec_noReset (p : PageIn) (h : ∀ r, r < 25 → NoHeldReset (rowCtx p r))
    (row col : Nat) (hr : row < 25) (hc : col < 40) :
    cellAt (format p) row col = L1Spec.cell .std p row col := by
  rw [format_cellAt p row col hr hc, cell_eq_of_noReset p h row col hr hc]

/-- non-vacuity: an all-blank page has no reset events -/
example : ∀ r, r < 25 → ∀ j, j < 40 →
    heldResetAfter (rowCtx { pgno := 0x100, subno := 0, flags := 0, national := 0, raw := fun _ => 0x20 } r) j = false := by
  decide +kernel

/-- `L1Spec.lastIdx` is what the spec says it is: the largest index below the bound satisfying the predicate
(so the spec's "last relevant control code" does not depend on how `lastIdx` is computed). -/
theorem lastIdx_is_last (q : Nat → Bool) (n j : Nat) :
    lastIdx q n = some j ↔ (j < n ∧ q j = true ∧ ∀ k, j < k → k < n → q k = false) :=
  lastIdx_eq_some_iff

example : lastIdx (fun j => j % 3 == 0) 8 = some 6 := by decide

/-- A FLOF link of packet X/27 (EN 300 706 9.6.1) sent with page units `pu`, tens `pt`, subcode digits
S1..S4 and relative magazine `mrel` (M3 M2 M1), each group Hamming 8/4 protected, is decoded by
`unham_page_link` to exactly that link: magazine = packet magazine XOR `mrel` (0 means 8), page byte,
subcode S4 S3 S2 S1 - for all field values and all packet magazines. -/
theorem flof_link_roundtrip (mag pu pt s1 s2 s3 s4 mrel : Nat)
    (hpu : pu < 16) (hpt : pt < 16) (h1 : s1 < 16) (h2 : s2 < 8) (h3 : s3 < 16) (h4 : s4 < 4) (hm : mrel < 8) :
    unhamPageLink (encLink pu pt s1 s2 s3 s4 mrel) mag =
      some ⟨(if mag ^^^ mrel = 0 then 8 else mag ^^^ mrel) * 256 + (pu ||| (pt <<< 4)),
            s1 + 16 * s2 + 256 * s3 + 4096 * s4⟩ :=
  unhamPageLink_encLink mag pu pt s1 s2 s3 s4 mrel hpu hpt h1 h2 h3 h4 hm

/-- link to page 350/0001 sent in magazine 1: relative magazine 1 XOR 3 = 2 -/
example : unhamPageLink (encLink 0 5 1 0 0 0 2) 1 = some ⟨0x350, 1⟩ := by decide +kernel

/-- Entries of EN 300 706 Table 36 (Latin national option sub-sets) that everybody knows, through the
generated lang.c tables and `vbi_teletext_unicode`: German umlauts / sharp s / paragraph sign, English pound /
half / division, French e-acute / a-grave / c-cedilla, Swedish A-ring, and the unmodified positions.
(Guards single table entries; the tables as a whole are trusted as a transcription of the standard.) -/
theorem national_subset_spot :
    fontSubset 1 = 5 ∧ fontSubset 0 = 2 ∧ fontSubset 4 = 4 ∧ fontSubset 2 = 12 ∧
    teletextUnicode 1 5 0x40 = 0xA7 ∧ teletextUnicode 1 5 0x5B = 0xC4 ∧ teletextUnicode 1 5 0x5C = 0xD6 ∧
    teletextUnicode 1 5 0x5D = 0xDC ∧ teletextUnicode 1 5 0x7B = 0xE4 ∧ teletextUnicode 1 5 0x7C = 0xF6 ∧
    teletextUnicode 1 5 0x7D = 0xFC ∧ teletextUnicode 1 5 0x7E = 0xDF ∧ teletextUnicode 1 5 0x60 = 0xB0 ∧
    teletextUnicode 1 2 0x23 = 0xA3 ∧ teletextUnicode 1 2 0x5C = 0xBD ∧ teletextUnicode 1 2 0x7E = 0xF7 ∧
    teletextUnicode 1 2 0x5F = 0x23 ∧
    teletextUnicode 1 4 0x23 = 0xE9 ∧ teletextUnicode 1 4 0x40 = 0xE0 ∧ teletextUnicode 1 4 0x7E = 0xE7 ∧
    teletextUnicode 1 12 0x5D = 0xC5 ∧ teletextUnicode 1 12 0x7D = 0xE5 ∧
    teletextUnicode 1 0 0x41 = 0x41 ∧ teletextUnicode 1 5 0x7F = 0x25A0 ∧ teletextUnicode 1 0 0x24 = 0xA4 := by
  decide +kernel

example : teletextUnicode 1 5 0x5C = 0xD6 := national_subset_spot.2.2.2.2.2.2.1

/-! ## joining the packet decoder model (C03) -/

/-- the formatter's view of a cached page of the decoder model; `region` = default region
(`vbi_teletext_set_default_region`), no X/28 (default magazine extension) -/
def pageInOf (region : Nat) (pg : Zvbi.Ttx.Page) : PageIn :=
  { pgno := pg.pgno, subno := pg.subno, flags := pg.flags, national := pg.national, charset0 := region, charset1 := 0,
    fgClut := 0, bgClut := 0, raw := fun i => (pg.raw.getD (i / 40) []).getD (i % 40) 0 }

/-- `vbi_fetch_vt_page (vbi, pg, pgno, subno, VBI_WST_LEVEL_1 or 1p5, 25, FALSE)` over the decoder state:
cache look-up (`_vbi_cache_get_page (.., -1)`), LOP check, Level 1 formatting.  Returns page number,
subpage number and the 25 x 41 cells. -/
def fetchCache (c : List Zvbi.Ttx.Page) (region pgno subno : Nat) : Option (Nat × Nat × List (List Cell)) :=
  match Zvbi.Ttx.cacheGet c pgno subno 0xFFFFFFFF with
  | some (pg, _) =>
    if pg.function = Zvbi.Ttx.FN_LOP ∨ pg.function = Zvbi.Ttx.FN_EACEM then
      some (pg.pgno, pg.subno, format (pageInOf region pg))
    else none
  | none => none

/-- the only place that depends on how the decoder model stores its pages -/
def cacheOf (s : Zvbi.Ttx.St) : List Zvbi.Ttx.Page := s.net.cache

def fetch (s : Zvbi.Ttx.St) (region pgno subno : Nat) : Option (Nat × Nat × List (List Cell)) :=
  fetchCache (cacheOf s) region pgno subno

/-- **fetch_refines_L1Spec**: for EVERY packet history fed to the decoder model (any bytes, any order,
any magazines), whenever a fetch succeeds, every cell it returns is L1Spec of exactly the bytes the
decoder holds in its cache under that page, and the returned page/subpage numbers are the cached ones. -/
theorem fetch_refines_L1Spec (history : List Zvbi.Ttx.Packet) (region pgno subno : Nat)
    (rp rs : Nat) (rows : List (List Cell))
    (h : fetch (history.foldl (fun s pk => (Zvbi.Ttx.step s pk).1) (Zvbi.Ttx.init.enable true)) region pgno subno
          = some (rp, rs, rows)) :
    ∃ pg rest, Zvbi.Ttx.cacheGet (cacheOf (history.foldl (fun s pk => (Zvbi.Ttx.step s pk).1) (Zvbi.Ttx.init.enable true)))
        pgno subno 0xFFFFFFFF = some (pg, rest)
      ∧ rp = pg.pgno ∧ rs = pg.subno
      ∧ ∀ row col, row < 25 → col < 40 → cellAt rows row col = L1Spec.cell .lib (pageInOf region pg) row col := by
  unfold fetch fetchCache at h
  split at h
  · rename_i pg rest hget
    split at h
    · cases h
      exact ⟨pg, rest, hget, rfl, rfl, fun row col hr hc => format_cellAt _ row col hr hc⟩
    · cases h
  · cases h

/-- non-vacuity: the empty history caches nothing, so nothing is fetched -/
example : fetch (Zvbi.Ttx.init.enable true) 0 0x100 0 = none := by decide +kernel

/-! ### the sender side of `page_roundtrip` (EN 300 706 7.1, 9.3) -/

/-- packet address bytes: magazine `mag` (0 = magazine 8) and packet number, Hamming 8/4 -/
def addrBytes (mag packet : Nat) : List Nat :=
  [Zvbi.Hamm.ham8 ((mag &&& 7) ||| ((packet &&& 1) <<< 3)), Zvbi.Hamm.ham8 (packet >>> 1)]

/-- one transmission of a page: header fields and the rows sent (row number 1..24, 40 odd-parity bytes) -/
structure Tx where
  page : Nat                    -- tens/units, BCD
  subno : Nat
  c4 : Nat                      -- erase flag
  ctl : Nat                     -- C7..C14
  clock : List Nat              -- header columns 32..39
  rows : List (Nat × List Nat)

instance : Inhabited Tx := ⟨⟨0, 0, 0, 0, [], []⟩⟩

/-- header packet; `text24` = header columns 8..31 with the three page number digits at `off` -/
def headerPacket (mag : Nat) (t : Tx) (text24 : List Nat) : Zvbi.Ttx.Packet :=
  addrBytes mag 0 ++
  [Zvbi.Hamm.ham8 (t.page &&& 15), Zvbi.Hamm.ham8 (t.page >>> 4),
   Zvbi.Hamm.ham8 (t.subno &&& 15), Zvbi.Hamm.ham8 (((t.subno >>> 4) &&& 7) ||| (t.c4 <<< 3)),
   Zvbi.Hamm.ham8 ((t.subno >>> 8) &&& 15), Zvbi.Hamm.ham8 ((t.subno >>> 12) &&& 3),
   Zvbi.Hamm.ham8 (t.ctl &&& 15), Zvbi.Hamm.ham8 (t.ctl >>> 4)] ++ text24 ++ t.clock

def txPackets (mag : Nat) (text : Tx → List Nat) (t : Tx) : List Zvbi.Ttx.Packet :=
  headerPacket mag t (text t) :: t.rows.map (fun r => addrBytes mag r.1 ++ r.2)

def isBcdPage (n : Nat) : Prop := n &&& 15 ≤ 9 ∧ n >>> 4 ≤ 9

/-- a parallel-mode stream of one magazine as the property describes it -/
structure WellFormed (mag : Nat) (text : Tx → List Nat) (txs : List Tx) : Prop where
  mag_lt : mag < 8
  pages : ∀ t ∈ txs, isBcdPage t.page ∧ (t.subno = 0 ∨ (t.subno ≤ 0x79 ∧ isBcdPage t.subno)) ∧ t.c4 ≤ 1
  parallel : ∀ t ∈ txs, t.ctl < 256 ∧ t.ctl &&& 0x10 = 0
  rows_ok : ∀ t ∈ txs, ∀ r ∈ t.rows, 1 ≤ r.1 ∧ r.1 ≤ 24 ∧ r.2.length = 40 ∧ ∀ b ∈ r.2, b < 256 ∧ Zvbi.Hamm.oddPar b = true
  rows_once : ∀ t ∈ txs, (t.rows.map (·.1)).Nodup
  next_differs : ∀ i, i + 1 < txs.length → (txs.getD i default).page ≠ (txs.getD (i + 1) default).page
  /-- consistent page header: the same 24 bytes except the page number digits, all odd parity, no other digits -/
  header_ok : ∀ t ∈ txs, (text t).length = 24 ∧ t.clock.length = 8 ∧
    (∀ b ∈ text t ++ t.clock, b < 256 ∧ Zvbi.Hamm.oddPar b = true) ∧
    ∃ off, off + 3 ≤ 24 ∧ ∀ t' ∈ txs, ∀ i, i < 24 → (i < off ∨ off + 3 ≤ i) →
      (text t).getD i 0 = (text t').getD i 0 ∧ ¬ (0x30 ≤ (text t).getD i 0 &&& 0x7F ∧ (text t).getD i 0 &&& 0x7F ≤ 0x39)

/-- (Round 5: SUPERSEDED by `C02Chain.page_roundtrip_chain` (receiver side) and `C02Sender.page_roundtrip_sender` (sender side with a
concrete encoder).  This round-1 wording stays an unproved def: `WellFormed.header_ok` does not say that the digits at `off` are the
page number, so as worded it does not follow.)
OPEN (not proved here; the network oracle of checks/C02.py judges it on the real code, also for several
magazines, serial mode, updates and subpages).  `page_roundtrip`, single-magazine parallel-mode instance:
feed a fresh decoder a well-formed stream `txs ++ [last]` and one more header of another page; then the cache
holds `last` under its page/subpage number with every transmitted row exactly as sent - so by
`fetch_refines_L1Spec` a fetch shows L1Spec of the sent characters.  (In serial mode the corresponding
statement was false before commit 53b7b09, finding F38: a page with the erase flag followed by another
magazine's header could be lost.) -/
def page_roundtrip_full : Prop :=
  ∀ (mag : Nat) (text : Tx → List Nat) (txs : List Tx) (last fin : Tx),
    WellFormed mag text (txs ++ [last, fin]) →
    let pkts := (txs ++ [last]).flatMap (txPackets mag text) ++ [headerPacket mag fin (text fin)]
    let s := pkts.foldl (fun s pk => (Zvbi.Ttx.step s pk).1) (Zvbi.Ttx.init.enable true)
    let pgno := (if mag = 0 then 8 else mag) * 256 + last.page
    ∃ pg rest, Zvbi.Ttx.cacheGet (cacheOf s) pgno last.subno 0xFFFFFFFF = some (pg, rest) ∧
      pg.function = Zvbi.Ttx.FN_LOP ∧ pg.pgno = pgno ∧ pg.subno = last.subno ∧
      ∀ r ∈ last.rows, pg.raw.getD r.1 [] = r.2

end Zvbi.Props.C02
