import ZvbiModel.Locks.Lemmas
import ZvbiModel.Locks.Instance
/-!
# C20 - documented cross-thread use of service decoder and raw decoder is race-free

Generic theorems (any thread programs, any schedule) and their instance on the table that
`translate/gen_locks.py` extracts from the current source.  `decide +kernel` evaluates the
Boolean discipline checks on the complete generated table.
-/
namespace Zvbi.Props.C20
open Zvbi.Locks Zvbi.Locks.Instance Zvbi.Generated.Locks

/-! ## generic: all thread programs, all schedules -/

/-- If every conflicting pair of accesses of two different threads is bracketed by a common mutex
(or is one of the listed `known` pairs), then in every state of every interleaving any two threads
that are both about to perform conflicting accesses form a `known` pair.  With `known = noKnown`:
no interleaving has a data race. -/
theorem lock_discipline_implies_drf {known : Site → Site → Bool} {progs : List (List Action)} {s : State}
    (disc : Discipline known progs) (rs : Reachable progs s) {i j : Nat} {a b : Action}
    (race : RaceAt s i j a b) : known (siteOf a) (siteOf b) = true :=
  drf_of_discipline disc rs race

example : ¬ RaceAt [⟨[0], [.acc 0 true 0]⟩, ⟨[], [.lock 0, .acc 0 false 1]⟩] 0 1 (.acc 0 true 0) (.acc 0 false 1) := by
  intro h; obtain ⟨_, _, ⟨h, r, hh⟩, _⟩ := h; simp at hh

/-- Well-bracketed threads that respect a lock order (a mutex is taken only while holding mutexes
of smaller rank, unless no other thread ever takes it) never reach a state in which every
unfinished thread waits for a held mutex. -/
theorem no_deadlock {rank : Mutex → Nat} {bound : Nat} {progs : List (List Action)} {s : State}
    (bal : ∀ (i : Nat) p, progs[i]? = some p → Balanced p) (ord : Ordered rank progs)
    (hb : ∀ m, rank m < bound) (rs : Reachable progs s) : ¬ Deadlock s :=
  no_deadlock_of_order bal ord hb rs

/-- Without trylock the only way to be stuck is that deadlock, so such systems always make progress. -/
theorem progress {rank : Mutex → Nat} {bound : Nat} {progs : List (List Action)} {s : State}
    (bal : ∀ (i : Nat) p, progs[i]? = some p → Balanced p) (tf : ∀ (i : Nat) p, progs[i]? = some p → TryFree p)
    (ord : Ordered rank progs) (hb : ∀ m, rank m < bound) (rs : Reachable progs s) : ¬ Stuck s :=
  fun st => no_deadlock_of_order bal ord hb rs (stuck_is_deadlock bal tf rs st)

/-- Critical sections are exclusive: while thread `j` holds `m`, a step of another thread is never an
access that its program performs only under `m` (except at the sites `K`).  Hence what a thread reads
between `lock m` and `unlock m` is one state left by the other threads at points where they did not
hold `m` - a snapshot, not a torn mixture. -/
theorem snapshot_consistency {progs : List (List Action)} {s s' : State} {K : Site → Bool}
    (rs : Reachable progs s) {i j : Nat} {x : Var} {w : Bool} {site : Site}
    (st : Step s (i, .acc x w site) s') (hij : j ≠ i) {tj : Thread} (hj : s[j]? = some tj)
    {m : Mutex} (hm : m ∈ tj.held)
    (prot : ∀ p h, progs[i]? = some p → (Action.acc x w site, h) ∈ scan [] p → m ∈ h ∨ K site = true) :
    K site = true := by
  obtain ⟨p, h, hp, hs, hn⟩ := step_outside_of_held rs st hij hj hm
  rcases prot p h hp hs with h1 | h1
  · exact absurd h1 hn
  · exact h1

/-- The same over a whole critical section: in any stretch of any schedule during which thread `j`
holds `m` (from its `lock m` to its `unlock m`), no other thread touches a field protected by `m`
(outside the sites `K`) - neither before, between, nor after `j`'s own reads.  So all reads of the
section see one and the same state of those fields: the state at the moment the lock was granted. -/
theorem snapshot_consistency_stretch {progs : List (List Action)} {s s' : State} {j : Nat} {m : Mutex}
    {ls : List (Nat × Action)} (X : Var → Bool) (K : Site → Bool)
    (prot : ∀ (i : Nat) p x w site h, progs[i]? = some p → X x = true →
      (Action.acc x w site, h) ∈ scan [] p → m ∈ h ∨ K site = true)
    (rs : Reachable progs s) (ex : ExecHolding j m s ls s') :
    ∀ i x w site, (i, Action.acc x w site) ∈ ls → i ≠ j → X x = true → K site = true :=
  holding_stretch X K prot rs ex

/-- The semantics is not vacuous: an unbracketed write racing with a bracketed read is reached. -/
theorem race_is_reachable_without_bracket :
    ∃ s, Reachable [[.acc 0 true 0], [.lock 1, .acc 0 false 1, .unlock 1]] s ∧
      RaceAt s 0 1 (.acc 0 true 0) (.acc 0 false 1) := by
  refine ⟨[⟨[], [.acc 0 true 0]⟩, ⟨[1], [.acc 0 false 1, .unlock 1]⟩], ⟨[(1, .lock 1)], ?_⟩, ?_⟩
  · refine .cons ?_ (.nil _)
    have : Step (init [[.acc 0 true 0], [.lock 1, .acc 0 false 1, .unlock 1]]) (1, .lock 1)
        ((init [[.acc 0 true 0], [.lock 1, .acc 0 false 1, .unlock 1]]).set 1 ⟨[1], [.acc 0 false 1, .unlock 1]⟩) := by
      refine Step.mk (h := []) rfl ?_ rfl
      intro t ht
      simp [init] at ht
      rcases ht with rfl | rfl <;> simp
    exact this
  · exact ⟨by decide, ⟨[], [], rfl⟩, ⟨[1], [.unlock 1], rfl⟩, rfl⟩

/-- A callback delivered while `m` is held, whose handler locks `m` again (what
`caption_send_event` exists to prevent), deadlocks on its own thread. -/
theorem relock_in_callout_deadlocks :
    ∃ s, Reachable [[.lock 1, .callout 0 false, .lock 1, .unlock 1, .unlock 1]] s ∧ Deadlock s := by
  refine ⟨[⟨[1], [.lock 1, .unlock 1, .unlock 1]⟩], ⟨[(0, .lock 1), (0, .callout 0 false)], ?_⟩, ?_⟩
  · refine .cons (s' := [⟨[1], [.callout 0 false, .lock 1, .unlock 1, .unlock 1]⟩]) ?_ (.cons ?_ (.nil _))
    · have := Step.mk (s := init [[.lock 1, .callout 0 false, .lock 1, .unlock 1, .unlock 1]]) (i := 0) (h := [])
        (a := .lock 1) (r := [.callout 0 false, .lock 1, .unlock 1, .unlock 1]) (h' := [1]) rfl
        (by intro t ht; simp [init] at ht; subst ht; simp) rfl
      exact this
    · have := Step.mk (s := [⟨[1], [.callout 0 false, .lock 1, .unlock 1, .unlock 1]⟩]) (i := 0) (h := [1])
        (a := .callout 0 false) (r := [.lock 1, .unlock 1, .unlock 1]) (h' := [1]) rfl trivial rfl
      exact this
  · refine ⟨⟨_, List.mem_singleton.2 rfl, by simp⟩, ?_⟩
    intro t ht
    rw [List.mem_singleton] at ht
    subst ht
    exact Or.inr ⟨1, [.unlock 1, .unlock 1], rfl, _, List.mem_singleton.2 rfl, by simp⟩

/-! ## instance: the table extracted from the current source -/

/-- The extracted graphs are well bracketed: the held-set annotation is inductive on every edge of
every role function (no path re-locks a held mutex or unlocks one it does not hold) and nothing is
held on entry and on return. -/
theorem table_well_bracketed : rolesAnnOK = true := by decide +kernel

theorem roles_annOK : ∀ R ∈ roles, R.annOK = true := by
  have h := table_well_bracketed
  unfold rolesAnnOK at h
  exact List.all_eq_true.1 h

/-- Lock discipline of the documented roles (decode | fetch_cc_page | channel_switched | raw decode |
add/remove/check services): every conflicting pair of accesses to the listed shared fields by two
roles that may run concurrently is bracketed by a common mutex, except the pairs of K1. -/
theorem table_discipline_modulo_known : tableDRF knownRace roles = true := by decide +kernel

/-- The raw-decoder and channel-switch parts of the table need no exception at all:
`vbi_raw_decode`'s unlocked reads of `rd->pattern` / `rd->count[]` conflict with nothing a documented
concurrent operation writes. -/
theorem table_discipline_without_caption_reset :
    tableDRF noKnown (roles.map fun R => { R with fns := R.fns.filter fun c => c.fn != fn_vbi_decode }) = true := by
  decide +kernel

/-- Lock order event < cc, rd < chswcd on every acquisition, except that `vbi_decode` (single thread,
sole user of the event mutex) may take the event mutex at any time. -/
theorem table_lock_order : tableOrdered rank roles = true := by decide +kernel

theorem table_try_free : roles.all Role.tryFree = true := by decide +kernel

/-- Callbacks: every callout delivered while a mutex needed by the handler-safe functions
(`vbi_fetch_cc_page`, `vbi_channel_switched`) is held is one of K2, and the translator left
exactly those callouts without the handler calls. -/
theorem callouts_reentrant_modulo_known :
    (allBadCallouts.all fun p => knownCallout p.1) = true ∧
    (allUnexpanded.all fun p => allBadCallouts.contains p) = true := by decide +kernel

/-- The check bites: were `vbi_raw_decoder_resize`/`_parameters`/`_reset` documented as concurrent
with `vbi_raw_decode`, the discipline would fail (unlocked read of `rd->count[]` vs. locked write). -/
theorem resize_concurrent_with_decode_would_race : tableDRF noKnown rolesWithExclusive = false := by
  decide +kernel

/-- Every fetched caption page is a snapshot, every raw decode uses one service set, the channel
switch countdown is updated atomically: per-mutex protection facts of the table. -/
theorem table_protection :
    (roles.all fun R => protectedB mx_cc isCcChannel unlockedCaptionReset R.accs) = true ∧
    (roles.all fun R => protectedB mx_rd isRd3 noSite R.accs) = true ∧
    (roles.all fun R => protectedB mx_chswcd isChswcd noSite R.accs) = true := by decide +kernel

/-- **Data-race freedom of the documented use, for all programs and schedules.**  Take any number of
threads, each running one of the documented roles (any sequence of calls of the role's functions,
each along any control-flow path, event handlers calling `vbi_fetch_cc_page`/`vbi_channel_switched`
at every re-entrant callout), with at most one `vbi_decode` thread.  In every reachable state, two
threads about to perform conflicting accesses to a listed shared field are an instance of K1. -/
theorem documented_roles_race_free_modulo_known {sys : List (Nat × List Action)} (wr : WellRoled roles sys)
    {s : State} (rs : Reachable (progsOf sys) s) {i j : Nat} {a b : Action} (race : RaceAt s i j a b) :
    knownRace (siteOf a) (siteOf b) = true :=
  drf_of_discipline (discipline_of_table roles_annOK table_discipline_modulo_known wr) rs race

/-- **No deadlock, always progress**, for the same systems. -/
theorem documented_roles_deadlock_free {sys : List (Nat × List Action)} (wr : WellRoled roles sys)
    {s : State} (rs : Reachable (progsOf sys) s) : ¬ Deadlock s ∧ ¬ Stuck s := by
  have bal := balanced_of_table roles_annOK wr
  have ord := ordered_of_table roles_annOK table_lock_order wr
  have hb : ∀ m, rank m < rankBound := by
    intro m; unfold rank rankBound
    split
    · omega
    · split <;> omega
  have tf := tryFree_of_table (List.all_eq_true.1 table_try_free) wr
  exact ⟨no_deadlock_of_order bal ord hb rs, fun st => no_deadlock_of_order bal ord hb rs (stuck_is_deadlock bal tf rs st)⟩

/-- **Caption fetch sees a snapshot (modulo K1).**  While a thread holds `cc.mutex` (it is inside
`vbi_fetch_cc_page`, or inside `vbi_decode_caption` between two callbacks), no other thread reads or
writes `vbi->cc.channel[*]` (pages, hidden flag, cursor ...) except at a site of the unlocked
caption reset. -/
theorem caption_fetch_snapshot_modulo_known {sys : List (Nat × List Action)} (wr : WellRoled roles sys)
    {s s' : State} (rs : Reachable (progsOf sys) s) {i j : Nat} {w : Bool} {site : Site}
    (st : Step s (i, .acc var_cc_channel w site) s') (hij : j ≠ i) {tj : Thread} (hj : s[j]? = some tj)
    (hm : mx_cc ∈ tj.held) : unlockedCaptionReset site = true :=
  snapshot_consistency rs st hij hj hm fun _ _ hp hs =>
    protected_of_table roles_annOK (List.all_eq_true.1 table_protection.1) wr hp (by decide) hs

/-- **Every raw decode uses one consistent service set.**  While a thread holds `rd->mutex` (it is
inside `vbi_raw_decode`, or inside add/remove/check services), no other thread touches the
`vbi3_raw_decoder` state (services, jobs, pattern array). -/
theorem raw_decode_service_set_stable {sys : List (Nat × List Action)} (wr : WellRoled roles sys)
    {s s' : State} (rs : Reachable (progsOf sys) s) {i j : Nat} {w : Bool} {site : Site}
    (st : Step s (i, .acc var_rd3 w site) s') (hij : j ≠ i) {tj : Thread} (hj : s[j]? = some tj)
    (hm : mx_rd ∈ tj.held) : False := by
  have := snapshot_consistency (K := noSite) rs st hij hj hm fun _ _ hp hs =>
    protected_of_table roles_annOK (List.all_eq_true.1 table_protection.2.1) wr hp (by decide) hs
  simp [noSite] at this

/-- **A raw decode is atomic with respect to the service set.**  Over the whole stretch of any
schedule during which a thread holds `rd->mutex` - e.g. one complete `vbi3_raw_decoder_decode` call
inside `vbi_raw_decode` - no other thread reads or writes the `vbi3_raw_decoder` state. -/
theorem raw_decode_atomic {sys : List (Nat × List Action)} (wr : WellRoled roles sys)
    {s s' : State} {j : Nat} {ls : List (Nat × Action)} (rs : Reachable (progsOf sys) s)
    (ex : ExecHolding j mx_rd s ls s') {i : Nat} {w : Bool} {site : Site}
    (hmem : (i, Action.acc var_rd3 w site) ∈ ls) (hij : i ≠ j) : False := by
  have := holding_stretch isRd3 noSite
    (fun i p x w site h hp hx hs =>
      protected_of_table roles_annOK (List.all_eq_true.1 table_protection.2.1) wr hp hx hs)
    rs ex i var_rd3 w site hmem hij (by decide)
  simp [noSite] at this

/-- the instance is not vacuous: a decode thread, two fetch threads and a channel-switch thread,
each doing nothing yet, form a well-roled system -/
example : WellRoled roles [(0, []), (1, []), (1, []), (2, [])] := by
  refine ⟨?_, ?_⟩
  · intro k r p h
    match k, h with
    | 0, h => simp at h; obtain ⟨rfl, rfl⟩ := h; exact ⟨_, rfl, .nil⟩
    | 1, h => simp at h; obtain ⟨rfl, rfl⟩ := h; exact ⟨_, rfl, .nil⟩
    | 2, h => simp at h; obtain ⟨rfl, rfl⟩ := h; exact ⟨_, rfl, .nil⟩
    | 3, h => simp at h; obtain ⟨rfl, rfl⟩ := h; exact ⟨_, rfl, .nil⟩
    | k + 4, h => simp at h
  · intro k k' r p p' hk h h'
    match k, k', h, h' with
    | 1, 2, h, h' => simp at h h'; obtain ⟨rfl, rfl⟩ := h; exact ⟨_, rfl, rfl⟩
    | 2, 1, h, h' => simp at h h'; obtain ⟨rfl, rfl⟩ := h; exact ⟨_, rfl, rfl⟩
    | 0, 0, _, _ => exact absurd rfl hk
    | 1, 1, _, _ => exact absurd rfl hk
    | 2, 2, _, _ => exact absurd rfl hk
    | 3, 3, _, _ => exact absurd rfl hk
    | 0, 1, h, h' => simp at h h'; omega
    | 0, 2, h, h' => simp at h h'; omega
    | 0, 3, h, h' => simp at h h'; omega
    | 1, 0, h, h' => simp at h h'; omega
    | 2, 0, h, h' => simp at h h'; omega
    | 3, 0, h, h' => simp at h h'; omega
    | 1, 3, h, h' => simp at h h'; omega
    | 2, 3, h, h' => simp at h h'; omega
    | 3, 1, h, h' => simp at h h'; omega
    | 3, 2, h, h' => simp at h h'; omega
    | k + 4, _, h, _ => simp at h
    | _, k' + 4, _, h' => simp at h'

end Zvbi.Props.C20
