import ZvbiModel.Props.C20TableA
import ZvbiModel.Props.C20TableB
import ZvbiModel.Props.C20TableC
import ZvbiModel.Props.C20TableD
import ZvbiModel.Props.C20Snapshot
/-!
# C20 - documented cross-thread use of service decoder and raw decoder is race-free

Generic theorems (any thread programs, any schedule) and their instance on the table that
`translate/gen_locks.py` extracts from the current source.  `decide +kernel` evaluates the
Boolean discipline checks on the complete generated table.
-/
namespace Zvbi.Props.C20
open Zvbi.Locks Zvbi.Locks.Instance Zvbi.Generated.Locks

/-! ## generic: all thread programs, all schedules -/

/-- If every conflicting pair of accesses of two different threads is bracketed by a common mutex
(or is one of the listed `known` pairs), then in every state of every interleaving any two threads
that are both about to perform conflicting accesses form a `known` pair.  With `known = noKnown`:
no interleaving has a data race. -/
theorem lock_discipline_implies_drf {known : Site → Site → Bool} {progs : List (List Action)} {s : State}
    (disc : Discipline known progs) (rs : Reachable progs s) {i j : Nat} {a b : Action}
    (race : RaceAt s i j a b) : known (siteOf a) (siteOf b) = true :=
  drf_of_discipline disc rs race

example : ¬ RaceAt [⟨[0], [.acc 0 true 0]⟩, ⟨[], [.lock 0, .acc 0 false 1]⟩] 0 1 (.acc 0 true 0) (.acc 0 false 1) := by
  intro h; obtain ⟨_, _, ⟨h, r, hh⟩, _⟩ := h; simp at hh

/-- Well-bracketed threads that respect a lock order (a mutex is taken only while holding mutexes
of smaller rank, unless no other thread ever takes it) never reach a state in which every
unfinished thread waits for a held mutex. -/
theorem no_deadlock {rank : Mutex → Nat} {bound : Nat} {progs : List (List Action)} {s : State}
    (bal : ∀ (i : Nat) p, progs[i]? = some p → Balanced p) (ord : Ordered rank progs)
    (hb : ∀ m, rank m < bound) (rs : Reachable progs s) : ¬ Deadlock s :=
  no_deadlock_of_order bal ord hb rs

/-- Without trylock the only way to be stuck is that deadlock, so such systems always make progress. -/
theorem progress {rank : Mutex → Nat} {bound : Nat} {progs : List (List Action)} {s : State}
    (bal : ∀ (i : Nat) p, progs[i]? = some p → Balanced p) (tf : ∀ (i : Nat) p, progs[i]? = some p → TryFree p)
    (ord : Ordered rank progs) (hb : ∀ m, rank m < bound) (rs : Reachable progs s) : ¬ Stuck s :=
  fun st => no_deadlock_of_order bal ord hb rs (stuck_is_deadlock bal tf rs st)

/-- Critical sections are exclusive: while thread `j` holds `m`, a step of another thread is never an
access that its program performs only under `m` (except at the sites `K`).  Hence what a thread reads
between `lock m` and `unlock m` is one state left by the other threads at points where they did not
hold `m` - a snapshot, not a torn mixture. -/
theorem snapshot_consistency {progs : List (List Action)} {s s' : State} {K : Site → Bool}
    (rs : Reachable progs s) {i j : Nat} {x : Var} {w : Bool} {site : Site}
    (st : Step s (i, .acc x w site) s') (hij : j ≠ i) {tj : Thread} (hj : s[j]? = some tj)
    {m : Mutex} (hm : m ∈ tj.held)
    (prot : ∀ p h, progs[i]? = some p → (Action.acc x w site, h) ∈ scan [] p → m ∈ h ∨ K site = true) :
    K site = true := by
  obtain ⟨p, h, hp, hs, hn⟩ := step_outside_of_held rs st hij hj hm
  rcases prot p h hp hs with h1 | h1
  · exact absurd h1 hn
  · exact h1

/-- The same over a whole critical section: in any stretch of any schedule during which thread `j`
holds `m` (from its `lock m` to its `unlock m`), no other thread touches a field protected by `m`
(outside the sites `K`) - neither before, between, nor after `j`'s own reads.  So all reads of the
section see one and the same state of those fields: the state at the moment the lock was granted. -/
theorem snapshot_consistency_stretch {progs : List (List Action)} {s s' : State} {j : Nat} {m : Mutex}
    {ls : List (Nat × Action)} (X : Var → Bool) (K : Site → Bool)
    (prot : ∀ (i : Nat) p x w site h, progs[i]? = some p → X x = true →
      (Action.acc x w site, h) ∈ scan [] p → m ∈ h ∨ K site = true)
    (rs : Reachable progs s) (ex : ExecHolding j m s ls s') :
    ∀ i x w site, (i, Action.acc x w site) ∈ ls → i ≠ j → X x = true → K site = true :=
  holding_stretch X K prot rs ex

/-- The semantics is not vacuous: an unbracketed write racing with a bracketed read is reached. -/
theorem race_is_reachable_without_bracket :
    ∃ s, Reachable [[.acc 0 true 0], [.lock 1, .acc 0 false 1, .unlock 1]] s ∧
      RaceAt s 0 1 (.acc 0 true 0) (.acc 0 false 1) := by
  refine ⟨[⟨[], [.acc 0 true 0]⟩, ⟨[1], [.acc 0 false 1, .unlock 1]⟩], ⟨[(1, .lock 1)], ?_⟩, ?_⟩
  · refine .cons ?_ (.nil _)
    have : Step (init [[.acc 0 true 0], [.lock 1, .acc 0 false 1, .unlock 1]]) (1, .lock 1)
        ((init [[.acc 0 true 0], [.lock 1, .acc 0 false 1, .unlock 1]]).set 1 ⟨[1], [.acc 0 false 1, .unlock 1]⟩) := by
      refine Step.mk (h := []) rfl ?_ rfl
      intro t ht
      simp [init] at ht
      rcases ht with rfl | rfl <;> simp
    exact this
  · exact ⟨by decide, ⟨[], [], rfl⟩, ⟨[1], [.unlock 1], rfl⟩, rfl⟩

/-- A callback delivered while `m` is held, whose handler locks `m` again (what
`caption_send_event` exists to prevent), deadlocks on its own thread. -/
theorem relock_in_callout_deadlocks :
    ∃ s, Reachable [[.lock 1, .callout 0 false, .lock 1, .unlock 1, .unlock 1]] s ∧ Deadlock s := by
  refine ⟨[⟨[1], [.lock 1, .unlock 1, .unlock 1]⟩], ⟨[(0, .lock 1), (0, .callout 0 false)], ?_⟩, ?_⟩
  · refine .cons (s' := [⟨[1], [.callout 0 false, .lock 1, .unlock 1, .unlock 1]⟩]) ?_ (.cons ?_ (.nil _))
    · have := Step.mk (s := init [[.lock 1, .callout 0 false, .lock 1, .unlock 1, .unlock 1]]) (i := 0) (h := [])
        (a := .lock 1) (r := [.callout 0 false, .lock 1, .unlock 1, .unlock 1]) (h' := [1]) rfl
        (by intro t ht; simp [init] at ht; subst ht; simp) rfl
      exact this
    · have := Step.mk (s := [⟨[1], [.callout 0 false, .lock 1, .unlock 1, .unlock 1]⟩]) (i := 0) (h := [1])
        (a := .callout 0 false) (r := [.lock 1, .unlock 1, .unlock 1]) (h' := [1]) rfl trivial rfl
      exact this
  · refine ⟨⟨_, List.mem_singleton.2 rfl, by simp⟩, ?_⟩
    intro t ht
    rw [List.mem_singleton] at ht
    subst ht
    exact Or.inr ⟨1, [.unlock 1, .unlock 1], rfl, _, List.mem_singleton.2 rfl, by simp⟩

/-! ## instance: the table extracted from the current source -/

/-- **Data-race freedom of the documented use, for all programs and schedules, no exception.**
Take any number of threads, each running one of the documented roles (any sequence of calls of the
role's functions, each along any control-flow path, event handlers calling
`vbi_fetch_cc_page`/`vbi_channel_switched` at every callout), with at most one `vbi_decode` thread.
No reachable state of any interleaving has two threads about to perform conflicting accesses to a
listed shared field. -/
theorem documented_roles_race_free {sys : List (Nat × List Action)} (wr : WellRoled roles sys)
    {s : State} (rs : Reachable (progsOf sys) s) {i j : Nat} {a b : Action} : ¬ RaceAt s i j a b := by
  intro race
  have := drf_of_discipline (discipline_of_table roles_annOK table_discipline wr) rs race
  simp [noKnown] at this

/-- corollary: the statement of the first delivery (every reachable race is K1) -/
theorem documented_roles_race_free_modulo_known {sys : List (Nat × List Action)} (wr : WellRoled roles sys)
    {s : State} (rs : Reachable (progsOf sys) s) {i j : Nat} {a b : Action} (race : RaceAt s i j a b) :
    knownRace (siteOf a) (siteOf b) = true :=
  absurd race (documented_roles_race_free wr rs)

/-- **Callbacks are re-entrant, for all programs and schedules.**  In every reachable state of every
such system, a thread that is about to deliver an event callback holds neither `cc.mutex` nor
`chswcd_mutex` - the handler may call `vbi_fetch_cc_page` / `vbi_channel_switched` without
dead-locking on its own thread. -/
theorem callouts_reentrant {sys : List (Nat × List Action)} (wr : WellRoled roles sys)
    {s : State} (rs : Reachable (progsOf sys) s) {i : Nat} {h : List Mutex} {site : Site} {re : Bool}
    {r : List Action} (hi : s[i]? = some ⟨h, .callout site re :: r⟩) : mx_cc ∉ h ∧ mx_chswcd ∉ h := by
  have tb : ∀ R ∈ roles, badCallouts handlerLocks R.accs = [] := by
    have := callouts_reentrant_table.1
    unfold allBadCallouts at this
    exact List.flatMap_eq_nil_iff.1 this
  have key := callout_unlocked_of_table roles_annOK tb wr rs hi
  exact ⟨fun hm => key _ hm (by decide), fun hm => key _ hm (by decide)⟩

/-- **No deadlock, always progress**, for the same systems. -/
theorem documented_roles_deadlock_free {sys : List (Nat × List Action)} (wr : WellRoled roles sys)
    {s : State} (rs : Reachable (progsOf sys) s) : ¬ Deadlock s ∧ ¬ Stuck s := by
  have bal := balanced_of_table roles_annOK wr
  have ord := ordered_of_table roles_annOK table_lock_order wr
  have hb : ∀ m, rank m < rankBound := by
    intro m; unfold rank rankBound
    split
    · omega
    · split <;> omega
  have tf := tryFree_of_table (List.all_eq_true.1 table_try_free) wr
  exact ⟨no_deadlock_of_order bal ord hb rs, fun st => no_deadlock_of_order bal ord hb rs (stuck_is_deadlock bal tf rs st)⟩

/-- **A role never locks a mutex it already holds**, for all programs and schedules: in every reachable
state of every such system, a thread whose next action is `lock m` does not hold `m` (pthread mutexes
are not recursive: it would block on itself for ever, and with it every thread that needs `m`).
This is what `table_well_bracketed` buys (the held-set annotation rejects an edge `lock m` out of a
node that holds `m`); seed C20-e (`store_lop` calling `vbi_chsw_reset` inside its `chswcd_mutex`
section) makes exactly that theorem false. -/
theorem documented_roles_never_relock {sys : List (Nat × List Action)} (wr : WellRoled roles sys)
    {s : State} (rs : Reachable (progsOf sys) s) {i : Nat} {h : List Mutex} {m : Mutex} {r : List Action}
    (hi : s[i]? = some ⟨h, .lock m :: r⟩) : m ∉ h := by
  obtain ⟨h', htr⟩ := next_tracks (inv_reachable rs) (balanced_of_table roles_annOK wr) hi
  exact track_lock_not_mem htr

/-- the statement is not vacuous: a thread that does lock a mutex it holds is stuck for ever -/
example : ∃ s, Reachable [[.lock 2, .lock 2, .unlock 2, .unlock 2]] s ∧ Deadlock s := by
  refine ⟨[⟨[2], [.lock 2, .unlock 2, .unlock 2]⟩], ⟨[(0, .lock 2)], .cons ?_ (.nil _)⟩, ?_⟩
  · exact Step.mk (s := init [[.lock 2, .lock 2, .unlock 2, .unlock 2]]) (i := 0) (h := [])
      (a := .lock 2) (r := [.lock 2, .unlock 2, .unlock 2]) (h' := [2]) rfl
      (by intro t ht; simp [init] at ht; subst ht; simp) rfl
  · refine ⟨⟨_, List.mem_singleton.2 rfl, by simp⟩, ?_⟩
    intro t ht
    rw [List.mem_singleton] at ht
    subst ht
    exact Or.inr ⟨2, [.unlock 2, .unlock 2], rfl, _, List.mem_singleton.2 rfl, by simp⟩

/-- **Caption fetch sees a snapshot.**  While a thread holds `cc.mutex` (it is inside
`vbi_fetch_cc_page`, or inside `vbi_decode_caption` between two callbacks, or inside the caption
reset), no other thread reads or writes `vbi->cc.channel[*]` (pages, hidden flag, cursor ...). -/
theorem caption_fetch_snapshot {sys : List (Nat × List Action)} (wr : WellRoled roles sys)
    {s s' : State} (rs : Reachable (progsOf sys) s) {i j : Nat} {w : Bool} {site : Site}
    (st : Step s (i, .acc var_cc_channel w site) s') (hij : j ≠ i) {tj : Thread} (hj : s[j]? = some tj)
    (hm : mx_cc ∈ tj.held) : False := by
  have := snapshot_consistency (K := noSite) rs st hij hj hm fun _ _ hp hs =>
    protected_of_table roles_annOK (List.all_eq_true.1 table_protection.1) wr hp (by decide) hs
  simp [noSite] at this

/-- corollary: the statement of the first delivery -/
theorem caption_fetch_snapshot_modulo_known {sys : List (Nat × List Action)} (wr : WellRoled roles sys)
    {s s' : State} (rs : Reachable (progsOf sys) s) {i j : Nat} {w : Bool} {site : Site}
    (st : Step s (i, .acc var_cc_channel w site) s') (hij : j ≠ i) {tj : Thread} (hj : s[j]? = some tj)
    (hm : mx_cc ∈ tj.held) : unlockedCaptionReset site = true :=
  (caption_fetch_snapshot wr rs st hij hj hm).elim

/-- **A caption fetch is atomic.**  Over the whole stretch of any schedule during which a thread
holds `cc.mutex` - e.g. the `memcpy` of the page and the reset of its dirty fields in
`vbi_fetch_cc_page` - no other thread reads or writes `vbi->cc.channel[*]`. -/
theorem caption_fetch_atomic {sys : List (Nat × List Action)} (wr : WellRoled roles sys)
    {s s' : State} {j : Nat} {ls : List (Nat × Action)} (rs : Reachable (progsOf sys) s)
    (ex : ExecHolding j mx_cc s ls s') {i : Nat} {w : Bool} {site : Site}
    (hmem : (i, Action.acc var_cc_channel w site) ∈ ls) (hij : i ≠ j) : False := by
  have := holding_stretch isCcChannel noSite
    (fun i p x w site h hp hx hs =>
      protected_of_table roles_annOK (List.all_eq_true.1 table_protection.1) wr hp hx hs)
    rs ex i var_cc_channel w site hmem hij (by decide)
  simp [noSite] at this

/-- **Every raw decode uses one consistent service set.**  While a thread holds `rd->mutex` (it is
inside `vbi_raw_decode`, or inside add/remove/check services), no other thread touches the
`vbi3_raw_decoder` state (services, jobs, pattern array). -/
theorem raw_decode_service_set_stable {sys : List (Nat × List Action)} (wr : WellRoled roles sys)
    {s s' : State} (rs : Reachable (progsOf sys) s) {i j : Nat} {w : Bool} {site : Site}
    (st : Step s (i, .acc var_rd3 w site) s') (hij : j ≠ i) {tj : Thread} (hj : s[j]? = some tj)
    (hm : mx_rd ∈ tj.held) : False := by
  have := snapshot_consistency (K := noSite) rs st hij hj hm fun _ _ hp hs =>
    protected_of_table roles_annOK (List.all_eq_true.1 table_protection.2.1) wr hp (by decide) hs
  simp [noSite] at this

/-- **A raw decode is atomic with respect to the service set.**  Over the whole stretch of any
schedule during which a thread holds `rd->mutex` - e.g. one complete `vbi3_raw_decoder_decode` call
inside `vbi_raw_decode` - no other thread reads or writes the `vbi3_raw_decoder` state. -/
theorem raw_decode_atomic {sys : List (Nat × List Action)} (wr : WellRoled roles sys)
    {s s' : State} {j : Nat} {ls : List (Nat × Action)} (rs : Reachable (progsOf sys) s)
    (ex : ExecHolding j mx_rd s ls s') {i : Nat} {w : Bool} {site : Site}
    (hmem : (i, Action.acc var_rd3 w site) ∈ ls) (hij : i ≠ j) : False := by
  have := holding_stretch isRd3 noSite
    (fun i p x w site h hp hx hs =>
      protected_of_table roles_annOK (List.all_eq_true.1 table_protection.2.1) wr hp hx hs)
    rs ex i var_rd3 w site hmem hij (by decide)
  simp [noSite] at this

/-- the instance is not vacuous: a decode thread, two fetch threads and a channel-switch thread,
each doing nothing yet, form a well-roled system -/
example : WellRoled roles [(0, []), (1, []), (1, []), (2, [])] := by
  refine ⟨?_, ?_⟩
  · intro k r p h
    match k, h with
    | 0, h => simp at h; obtain ⟨rfl, rfl⟩ := h; exact ⟨_, rfl, .nil⟩
    | 1, h => simp at h; obtain ⟨rfl, rfl⟩ := h; exact ⟨_, rfl, .nil⟩
    | 2, h => simp at h; obtain ⟨rfl, rfl⟩ := h; exact ⟨_, rfl, .nil⟩
    | 3, h => simp at h; obtain ⟨rfl, rfl⟩ := h; exact ⟨_, rfl, .nil⟩
    | k + 4, h => simp at h
  · intro k k' r p p' hk h h'
    match k, k', h, h' with
    | 1, 2, h, h' => simp at h h'; obtain ⟨rfl, rfl⟩ := h; exact ⟨_, rfl, rfl⟩
    | 2, 1, h, h' => simp at h h'; obtain ⟨rfl, rfl⟩ := h; exact ⟨_, rfl, rfl⟩
    | 0, 0, _, _ => exact absurd rfl hk
    | 1, 1, _, _ => exact absurd rfl hk
    | 2, 2, _, _ => exact absurd rfl hk
    | 3, 3, _, _ => exact absurd rfl hk
    | 0, 1, h, h' => simp at h h'; omega
    | 0, 2, h, h' => simp at h h'; omega
    | 0, 3, h, h' => simp at h h'; omega
    | 1, 0, h, h' => simp at h h'; omega
    | 2, 0, h, h' => simp at h h'; omega
    | 3, 0, h, h' => simp at h h'; omega
    | 1, 3, h, h' => simp at h h'; omega
    | 2, 3, h, h' => simp at h h'; omega
    | 3, 1, h, h' => simp at h h'; omega
    | 3, 2, h, h' => simp at h h'; omega
    | k + 4, _, h, _ => simp at h
    | _, k' + 4, _, h' => simp at h'

end Zvbi.Props.C20
