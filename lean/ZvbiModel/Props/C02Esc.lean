import ZvbiModel.Fmt.LemmasEsc
import ZvbiModel.Props.C02
/-!
# Property C02: the ESC (0x1B) "G0 switch" spacing attribute and the two designated G0 sets

EN 300 706 12.2: ESC toggles between the first and the second G0 set; like every spacing attribute its effect ends
with the row, every row starts in the first G0 set.  `L1Spec.escAt` says exactly this (parity of the ESC codes before
the column IN THE SAME ROW) and `C02.format_refines_L1Spec_libheld` proves every formatted cell equal to `L1Spec.cell`;
the theorems below spell the consequence out for the displayed character, name the two sets
(`character_set_designation` of teletext.c) and exhibit a concrete page on which a formatter that carries the ESC
state from one row into the next (seeded change C02-h) gives a different result.

Vocabulary (Fmt/LemmasEsc.lean): `escCount code c` = number of ESC codes in columns 0..c-1 of a row with codes `code`;
`g0At cx c` = `cx.font1` if that number is odd, else `cx.font0`; `PlainCell p row col` = the cell shows its own byte as a
G0 character: the row is not the lower half of a double-height row, the cell is not the right half of a double-width
character, the code (after parity; a parity error counts as a space) is >= 0x20, and the row is in alphanumerics mode at
that column or the code has bit 5 clear.
-/
namespace Zvbi.Props.C02Esc
open Zvbi.Fmt Zvbi.Fmt.L1Spec Zvbi.Props.C02

/-- **esc_toggle_per_row**.  For every page (any bytes, flags, national option, character set codes) and every plain
cell (row < 25, col < 40) the displayed character is the cell's 7-bit code mapped by `vbi_teletext_unicode` through the
FIRST G0 set of the page when the number of ESC codes in columns 0..col-1 OF THAT ROW is even, and through the SECOND G0
set when it is odd.  No other row enters the right-hand side. -/
theorem esc_toggle_per_row (p : PageIn) (row col : Nat) (hr : row < 25) (hc : col < 40) (h : PlainCell p row col) :
    (cellAt (format p) row col).unicode =
      if escCount (codeAt p row) col % 2 = 0
      then teletextUnicode (rowCtx p row).font0.g0 (rowCtx p row).font0.subset (codeAt p row col)
      else teletextUnicode (rowCtx p row).font1.g0 (rowCtx p row).font1.subset (codeAt p row col) := by
  rw [plain_unicode p row col hr hc h]
  unfold g0At
  have hcode : (rowCtx p row).code = codeAt p row := rfl
  rw [hcode]
  by_cases he : escCount (codeAt p row) col % 2 = 1
  · have : ¬ escCount (codeAt p row) col % 2 = 0 := by omega
    simp [he]
  · have : escCount (codeAt p row) col % 2 = 0 := by omega
    simp [this]

/-- non-vacuity: row 2, column 3 of `escWitness` (`$ @ ESC $ @`, one ESC before it) is a plain cell and shows
U+016F, code 0x24 in the second set -/
example : PlainCell escWitness 2 3 ∧ escCount (codeAt escWitness 2) 3 = 1 ∧ (cellAt (format escWitness) 2 3).unicode = 0x16F := by
  refine ⟨⟨?_, ?_, ?_, ?_⟩, ?_, ?_⟩ <;> decide +kernel

/-- **esc_starts_in_first_set**: a plain cell with no ESC code to its left in its own row shows the FIRST G0 set -
whatever the rows above contain (in particular however many ESC codes they contain). -/
theorem esc_starts_in_first_set (p : PageIn) (row col : Nat) (hr : row < 25) (hc : col < 40) (h : PlainCell p row col)
    (hn : ∀ j, j < col → codeAt p row j ≠ 0x1B) :
    (cellAt (format p) row col).unicode
      = teletextUnicode (rowCtx p row).font0.g0 (rowCtx p row).font0.subset (codeAt p row col) := by
  rw [esc_toggle_per_row p row col hr hc h, escCount_zero_of_none _ _ hn]
  simp

/-- row 2 column 0 of `escWitness` follows a row with one ESC and still shows the Turkish U+011F -/
example : (cellAt (format escWitness) 2 0).unicode = 0x11F ∧ ∀ j, j < 0 → codeAt escWitness 2 j ≠ 0x1B :=
  ⟨by decide +kernel, fun j hj => absurd hj (Nat.not_lt_zero j)⟩

/-- **esc_row_local**: two pages with the same national option bits and character set codes whose rows `row` carry the
same codes up to column `col` show the same character in a cell that is plain in both - all other rows (and flags, page
numbers, colour-table offsets) may differ arbitrarily. -/
theorem esc_row_local (p q : PageIn) (row col : Nat) (hr : row < 25) (hc : col < 40)
    (hp : PlainCell p row col) (hq : PlainCell q row col)
    (hnat : p.national = q.national) (h0 : p.charset0 = q.charset0) (h1 : p.charset1 = q.charset1)
    (hrow : ∀ j, j ≤ col → codeAt p row j = codeAt q row j) :
    (cellAt (format p) row col).unicode = (cellAt (format q) row col).unicode := by
  rw [esc_toggle_per_row p row col hr hc hp, esc_toggle_per_row q row col hr hc hq,
    escCount_congr _ _ col (fun j hj => hrow j (by omega)), hrow col (by omega)]
  simp only [rowCtx, hnat, h0, h1]

/-- `escWitness` and the page that differs from it by an all-blank row 1 agree in row 2 -/
example : (cellAt (format escWitness) 2 3).unicode
    = (cellAt (format { escWitness with raw := fun i => if i < 80 then 0x20 else escWitness.raw i }) 2 3).unicode := by
  apply esc_row_local _ _ 2 3 (by decide) (by decide)
  · refine ⟨?_, ?_, ?_, ?_⟩ <;> decide +kernel
  · refine ⟨?_, ?_, ?_, ?_⟩ <;> decide +kernel
  · rfl
  · rfl
  · rfl
  · decide +kernel

/-- **esc_header_row**: in row 0 the codes of columns 0..7 are the library's own page number text
(`"\2%x.%02x\7"`, `hdrBuf`), which contains no ESC; so for a page number 0x100..0xFFF the ESC count of the header row
is the count over the transmitted header bytes of columns 8..col-1 only. -/
theorem esc_header_row (p : PageIn) (h1 : 0x100 ≤ p.pgno) (h2 : p.pgno < 0x1000) (col : Nat) :
    escCount (codeAt p 0) col = escCountFrom 8 (codeAt p 0) col ∧ ∀ j, j < 8 → codeAt p 0 j ≠ 0x1B :=
  ⟨escCount_hdr p h1 h2 col, hdr_no_esc p h1 h2⟩

/-- a header whose transmitted bytes 0..7 and 9 are ESC (odd parity 0x9B): only column 9 counts -/
example : escCount (codeAt { escWitness with raw := fun i => if i < 8 ∨ i = 9 then 0x9B else 0x20 } 0) 12 = 1 := by
  decide +kernel

/-- **plain_code_range**: the code of any cell of a page with a three-digit page number is a 7-bit value (a byte with
wrong parity reads as 0x20), so "printable" in `PlainCell` means 0x20..0x7F. -/
theorem plain_code_range (p : PageIn) (h1 : 0x100 ≤ p.pgno) (h2 : p.pgno < 0x1000) (row col : Nat) :
    codeAt p row col < 0x80 := codeAt_lt p h1 h2 row col

example : codeAt escWitness 1 2 = 0x1B ∧ codeAt escWitness 1 3 = 0x24 := by decide +kernel

/-- **esc_second_set_designation**.  Which sets these are (teletext.c `character_set_designation`; `pageInX` is the
extension selection at Level 1 / 1.5): for i = 0 (first set) and i = 1 (second set) the font descriptor index is
`(code_i & ~7) + national` when that is a valid character set (< 88 with a G0 set), else `code_i` itself when valid,
else descriptor 0 (Latin G0, English subset); where `code_0, code_1` are the page's own X/28/0 format 1 or X/28/4
character set codes when the page received one (`x28_designations & 0x11`), and otherwise the default region and 0.
So without X/28 the second G0 set is selected by the national option bits C12-C14 alone, within group 0. -/
theorem esc_second_set_designation (region pgno subno flags national : Nat) (e : ExtIn) (raw : Nat → Nat) (row : Nat) :
    let cx := rowCtx (pageInX region pgno subno flags national e raw) row
    let sel := fun code =>
      if validCharset (code / 8 * 8 + national) then code / 8 * 8 + national else if validCharset code then code else 0
    cx.font0 = fontOf (sel (if ownExt e then e.cs0 else region)) ∧
    cx.font1 = fontOf (sel (if ownExt e then e.cs1 else 0)) := by
  intro cx sel
  show (rowCtx (pageInX region pgno subno flags national e raw) row).font0 = _ ∧
    (rowCtx (pageInX region pgno subno flags national e raw) row).font1 = _
  unfold pageInX
  by_cases ho : ownExt e = true
  · simp only [ho, if_true, rowCtx, charsetDesignation_cases]
    exact ⟨rfl, rfl⟩
  · simp only [ho, if_false, rowCtx, charsetDesignation_cases]
    exact ⟨rfl, rfl⟩

/-- default region 16, national option 6, no X/28: first set = descriptor 22 (Latin, Turkish subset 13), second set =
descriptor 6 (Latin, Czech/Slovak subset 1); with X/28/0 designating 0x24 / 0x37 under national option 4: first set
(0x24 & ~7) + 4 = 36 (Cyrillic-2 G0), second set (0x37 & ~7) + 4 = 52 is not a character set, fallback to 0x37 = 55
(Greek G0) -/
example :
    (rowCtx (pageInX 16 0x150 0 0 6 {} (fun _ => 0x20)) 1).font0 = ⟨1, 13⟩ ∧
    (rowCtx (pageInX 16 0x150 0 0 6 {} (fun _ => 0x20)) 1).font1 = ⟨1, 1⟩ ∧
    (rowCtx (pageInX 16 0x150 0 0 4 { x28 := 1, cs0 := 0x24, cs1 := 0x37 } (fun _ => 0x20)) 1).font0 = ⟨4, 0⟩ ∧
    (rowCtx (pageInX 16 0x150 0 0 4 { x28 := 1, cs0 := 0x24, cs1 := 0x37 } (fun _ => 0x20)) 1).font1 = ⟨7, 0⟩ := by
  decide +kernel

/-- **second_set_default**: with the default magazine extension (no X/28) the second G0 set is, for every default
region, font descriptor number `national` (the national option bits C12-C14 read as a number 0..7: English, German,
Swedish/Finnish/Hungarian, Italian, French, Portuguese/Spanish, Czech/Slovak, and 7 = Latin without national
subset), always a Latin G0 set; the default region only selects the FIRST set. -/
theorem second_set_default (region pgno subno flags national : Nat) (raw : Nat → Nat) (row : Nat) (hn : national < 8) :
    (rowCtx (pageInX region pgno subno flags national {} raw) row).font1 = fontOf national
    ∧ (fontOf national).g0 = 1 := by
  have hd : (rowCtx (pageInX region pgno subno flags national {} raw) row).font1
      = fontOf (charsetDesignation 0 national) := rfl
  rw [hd]
  have h8 : national = 0 ∨ national = 1 ∨ national = 2 ∨ national = 3 ∨ national = 4 ∨ national = 5 ∨ national = 6
      ∨ national = 7 := by omega
  rcases h8 with rfl | rfl | rfl | rfl | rfl | rfl | rfl | rfl <;> decide +kernel

example : (rowCtx (pageInX 16 0x150 0 0 6 {} (fun _ => 0x20)) 3).font1 = fontOf 6 :=
  (second_set_default 16 0x150 0 0 6 _ 3 (by decide)).1

/-- **seeded_C02h_excluded**.  The page of seeded/C02-h/demo.c (national option 6, default region 16, rows 1 and 2
both `$ @ ESC $ @`): the model of `vbi_format_vt_page` and L1Spec show in BOTH rows the Turkish U+011F U+0130 before
the ESC and the Czech/Slovak U+016F U+010D after it.  A formatter that carries the ESC state of row 1 into row 2
(the seeded change) shows U+011F U+0130 at row 2, columns 3 and 4, hence is not `format` and contradicts
`format_refines_L1Spec_libheld`. -/
theorem seeded_C02h_excluded :
    (List.range 5).map (fun c => (cellAt (format escWitness) 1 c).unicode) = [0x11F, 0x130, 0x20, 0x16F, 0x10D] ∧
    (List.range 5).map (fun c => (cellAt (format escWitness) 2 c).unicode) = [0x11F, 0x130, 0x20, 0x16F, 0x10D] ∧
    (List.range 5).map (fun c => (L1Spec.cell .lib escWitness 2 c).unicode) = [0x11F, 0x130, 0x20, 0x16F, 0x10D] ∧
    (cellAt (format escWitness) 2 3).unicode ≠ 0x11F ∧ (cellAt (format escWitness) 2 4).unicode ≠ 0x130 := by
  decide +kernel

example : (cellAt (format escWitness) 2 3).unicode = 0x16F := by
  have := seeded_C02h_excluded.2.1
  simpa using congrArg (fun l => l.getD 3 0) this

end Zvbi.Props.C02Esc
