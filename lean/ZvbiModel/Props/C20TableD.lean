import ZvbiModel.Locks.Lemmas
import ZvbiModel.Locks.Instance
/-!
# C20 - table theorems, part D: the discipline check is not vacuous (`decide +kernel` over the COMPLETE table that
`translate/gen_locks.py` extracts from the current source; split over three files so that they
build in parallel)
-/
namespace Zvbi.Props.C20
open Zvbi.Locks Zvbi.Locks.Instance Zvbi.Generated.Locks

/-- The check bites: were `vbi_raw_decoder_resize`/`_parameters`/`_reset` documented as concurrent
with `vbi_raw_decode`, the discipline would fail (unlocked read of `rd->count[]` vs. locked write). -/
theorem resize_concurrent_with_decode_would_race : tableDRF noKnown rolesWithExclusive = false := by
  decide +kernel

end Zvbi.Props.C20
