import ZvbiModel.Enh.CellsTerm
import ZvbiModel.Enh.CellsPost
/-!
# C01 - cell addressing of the Level 2.5 / 3.5 enhancement (`teletext.c` enhance, enhance_flush, enhance_flush_row,
# post_enhance, the Level 1 double height copy, column_41, character_set_designation)

Model: `Enh/Cells.lean` - the active position machine of `enhance()` over ARBITRARY triplets (the page's X/26 data, local
objects, POP / GPOP objects of any content and nesting, default objects), every starting position, every `max_level`,
header-only formatting (`display_rows == 1`) or not; it logs every index it forms into `pg->text[]`, `lop.raw[][]`,
`drcs_s1[]`, `pg->drcs[]`, `vbi_font_descriptors[]`, the triplet arrays, and every colour value it stores (= index into
`pg->color_map[]`).  All guards, masks, loop bounds and extents are regenerated from the current source by
translate/gen_c01cells.py (`Generated/C01Cells.lean`).  The navigation flag does not reach any of these functions.

Hypothesis `EnvOK`: `enh[]` has its 209 elements; a pointer returned by resolve_obj_address is at most `pointerLimit`
(Props/C01Enh `object_triplets_within_table`) into a `pop.triplet[508]`; every triplet is what one of the two writers
of packet.c stores (6 / 5 / 7 bit fields, masks regenerated) or the 0xFF fill.

One obligation is FALSE on the unchanged tree: column_41 writes `pg->text[1065]` (`column41_original_counterexample`,
replay corpus/C01/column41-text-overrun.ops, repair fixes/C01-enhance-column41-navrow.diff).
-/
namespace Zvbi.Props.C01Cells
open Zvbi.Enh.Cells Zvbi.Gen.C01Cells Zvbi.Generated.Enh

/-- the extents the bounds below are measured against fit together: 25 rows of 41 cells lie inside `text[1056]`, the Level 1
page has a row for every page row and 40 columns, `drcs_s1[2]`, 32 DRCS planes, 48 glyphs per DRCS page (and a 64 bit
`invalid` mask), 88 font descriptors with a G0 set in entry 0 (the fall-back), 40 colours, the two triplet arrays. -/
theorem extents_consistent :
    rows * extColumns ≤ textLen ∧ rows ≤ rawRows ∧ columns = rawCols ∧ extColumns = columns + 1 ∧ drcsS1Len = 2 ∧
    pageDrcsLen = 32 ∧ drcsGlyphs ≤ invalidBits ∧ fontHasG0.length = fontLen ∧ fontHasG0[0]? = some true ∧
    colorMask < colorMapLen ∧ transparentBlack < colorMapLen ∧ 2 ^ defColorBits ≤ colorMapLen ∧ colorMapLen = extColorMapLen ∧
    enhLen = 16 * 13 + 1 ∧ Zvbi.Gen.C01.pointerLimit + 1 < popTripletLen := by decide
example : textLen = 1056 ∧ rows * extColumns = 1025 := by decide

/-- **every access in range** (the statement the following ones are read off): for every environment, every nesting
bound, object type, starting position, window of a well-formed triplet array: if `enhance` returns, every logged access
is inside its object. -/
theorem enhance_accesses_in_range (env : Env) (he : EnvOK env) (fuel type invRow invCol : Nat) (site : Site)
    (hs : site = .enh ∨ site = .pop) (arr : List Trip) (hlen : arr.length = siteLen site) (harr : ∀ t ∈ arr, TripOK t)
    (start count : Nat) (hc : count ≤ siteLen site - start) (res : Bool × List Access)
    (h : enhance env fuel type invRow invCol site arr start count = some res) : AllOk res.2 :=
  enhance_nestedOK env he fuel type invRow invCol site arr start count res hs hlen harr hc h

/-- the page's own X/26 data as vbi_format_vt_page runs it -/
theorem enhance_page_in_range (env : Env) (he : EnvOK env) (fuel : Nat) (res : Bool × List Access)
    (h : enhancePage env fuel = some res) : AllOk res.2 :=
  enhance_accesses_in_range env he fuel _ 0 0 .enh (Or.inl rfl) env.enh he.enhLen he.enhTrips 0 enhLen (Nat.le_refl _) res h

/-- **enhance_text_index_in_range**: every index at which `enhance()` reads or writes `pg->text[]` - through `es->acp[i]`
in the flush loops (also inside objects invoked where origin + offset leaves the page: those flushes return first) and
through `acp[col]` in the font style loop - is below `sizeof (text) / sizeof (text[0])`. -/
theorem enhance_text_index_in_range (env : Env) (he : EnvOK env) (fuel : Nat) (res : Bool × List Access)
    (h : enhancePage env fuel = some res) : ∀ i, (Site.text, i) ∈ res.2 → i < textLen := by
  intro i hi; simpa using enhance_page_in_range env he fuel res h _ hi

/-- a concrete run that reaches the last cell of the body (row 24, column 39) and an object whose position leaves the page -/
def exEnv : Env where
  maxLevel := 3
  headerOnly := false
  x26d0 := true
  raw := fun _ _ => 0x0B
  drcs := fun _ _ _ => true
  pop := fun _ _ _ => none
  enh := [⟨40, 0x04, 39⟩, ⟨39, 0x09, 0x41⟩, ⟨63, 0x10, 71⟩, ⟨41, 0x11, 0x05⟩, ⟨63, 0x1F, 0⟩,
          ⟨40, 0x04, 39⟩, ⟨39, 0x0C, 0x41⟩, ⟨39, 0x09, 0x42⟩, ⟨63, 0x1F, 0⟩] ++ List.replicate 200 fillTrip
set_option maxRecDepth 100000 in
example : ∃ res, enhancePage exEnv 4 = some res ∧ (Site.text, 1023) ∈ res.2 ∧ res.1 = true := by
  refine ⟨_, rfl, ?_, ?_⟩ <;> decide

/-- **enhance_raw_index_in_range**: the Level 1 page is read at `raw[row][col]` with `row < 26`, `col < 40` only -/
theorem enhance_raw_index_in_range (env : Env) (he : EnvOK env) (fuel : Nat) (res : Bool × List Access)
    (h : enhancePage env fuel = some res) :
    (∀ r, (Site.rawRow, r) ∈ res.2 → r < rawRows) ∧ (∀ c, (Site.rawCol, c) ∈ res.2 → c < rawCols) :=
  ⟨fun r hr => by simpa using enhance_page_in_range env he fuel res h _ hr,
   fun c hc => by simpa using enhance_page_in_range env he fuel res h _ hc⟩

/-- **enhance_color_index_in_range**: every value stored as screen, row, foreground or background colour is an index
into `pg->color_map[40]` (in fact at most 31; the other values a cell can get are VBI_TRANSPARENT_BLACK = 8 and the
default row colour, 5 bits or VBI_BLACK - `extents_consistent`) -/
theorem enhance_color_index_in_range (env : Env) (he : EnvOK env) (fuel : Nat) (res : Bool × List Access)
    (h : enhancePage env fuel = some res) : ∀ c, (Site.color, c) ∈ res.2 → c < colorMapLen := by
  intro c hc; simpa using enhance_page_in_range env he fuel res h _ hc

/-- **enhance_drcs_index_in_range**: `drcs_s1[]` is indexed with 0 or 1, `pg->drcs[]` with a plane below 32, the glyph
number is below 48 (elements of `drcs.chars[]`, bits of `drcs.invalid`) -/
theorem enhance_drcs_index_in_range (env : Env) (he : EnvOK env) (fuel : Nat) (res : Bool × List Access)
    (h : enhancePage env fuel = some res) :
    (∀ i, (Site.s1, i) ∈ res.2 → i < drcsS1Len) ∧ (∀ i, (Site.drcsSlot, i) ∈ res.2 → i < pageDrcsLen) ∧
    (∀ g, (Site.drcsGlyph, g) ∈ res.2 → g < drcsGlyphs ∧ g < invalidBits) :=
  ⟨fun i hi => by simpa using enhance_page_in_range env he fuel res h _ hi,
   fun i hi => by simpa using enhance_page_in_range env he fuel res h _ hi,
   fun g hg => by simpa using enhance_page_in_range env he fuel res h _ hg⟩

/-- why the 7 bit data field matters: a triplet with data 0xC0 (no writer stores one) would index `drcs_s1[3]` -/
theorem drcs_mode_wide_data_counterexample :
    rowStep exEnv { es := initES 0 0 0 } ⟨40, 0x18, 0xC0⟩ = .cont { es := initES 0 0 0 } [(.s1, 3)] ∧ ok (.s1, 3) = false := by
  decide

/-- **enhance_font_index_in_range**: mode 0x08 adds `p->data` to `vbi_font_descriptors` only below 88, for every
designation byte; character_set_designation does the same for every X/28 / M/29 code (7 bits) and national option -/
theorem enhance_font_index_in_range (env : Env) (he : EnvOK env) (fuel : Nat) (res : Bool × List Access)
    (h : enhancePage env fuel = some res) : ∀ i, (Site.font, i) ∈ res.2 → i < fontLen := by
  intro i hi; simpa using enhance_page_in_range env he fuel res h _ hi

theorem charset_designation_in_range (code national : Nat) : AllOk (charsetDesignation code national) :=
  charsetDesignation_ok code national
example : charsetDesignation 0x26 7 = [(.font, 0x26), (.font, 0x27)] ∧ charsetDesignation 127 7 = [] := by decide

/-- **enhance_triplet_index_in_range**: `p` stays inside `enh[209]` (the page's data, local objects - also those whose
address lies behind the array: their `remaining_max_triplets` is not positive) and inside `pop.triplet[508]` -/
theorem enhance_triplet_index_in_range (env : Env) (he : EnvOK env) (fuel : Nat) (res : Bool × List Access)
    (h : enhancePage env fuel = some res) :
    (∀ i, (Site.enh, i) ∈ res.2 → i < enhLen) ∧ (∀ i, (Site.pop, i) ∈ res.2 → i < popTripletLen) :=
  ⟨fun i hi => by simpa using enhance_page_in_range env he fuel res h _ hi,
   fun i hi => by simpa using enhance_page_in_range env he fuel res h _ hi⟩
example : localStart 41 0x7C = 311 ∧ enhLen - localStart 41 0x7C = 0 := by decide

/-- the MOT default objects (both, any types, any look-up outcome) -/
theorem default_objects_in_range (env : Env) (he : EnvOK env) (fuel : Nat) :
    ∀ (objs : List (Nat × Option (Nat × List Trip))),
      (∀ ty p arr, (ty, some (p, arr)) ∈ objs → p ≤ Zvbi.Gen.C01.pointerLimit ∧ arr.length = popTripletLen ∧ ∀ t ∈ arr, TripOK t) →
      ∀ res, defaultObjects env fuel objs = some res → AllOk res.2 := by
  intro objs
  induction objs with
  | nil => intro _ res h; cases h; exact AllOk_nil
  | cons o rest ih =>
    intro ho res h
    obtain ⟨ty, r⟩ := o
    cases r with
    | none => cases h; exact AllOk_nil
    | some pa =>
      obtain ⟨p, arr⟩ := pa
      obtain ⟨_, hl, ht⟩ := ho ty p arr (List.mem_cons_self ..)
      unfold defaultObjects at h
      split at h
      · cases h
      · rename_i l hl'
        cases h
        exact enhance_accesses_in_range env he fuel ty 0 0 .pop (Or.inr rfl) arr hl ht _ _ (Nat.le_refl _) _ hl'
      · rename_i l hl'
        have h1 := enhance_accesses_in_range env he fuel ty 0 0 .pop (Or.inr rfl) arr hl ht _ _ (Nat.le_refl _) _ hl'
        cases hrec : defaultObjects env fuel rest with
        | none => rw [hrec] at h; cases h
        | some r2 =>
          rw [hrec] at h; cases h
          exact AllOk_append.mpr ⟨h1, ih (fun ty p arr hm => ho ty p arr (List.mem_cons_of_mem _ hm)) r2 hrec⟩

/-- **flush_terminates**: the loop of enhance_flush ends within 42 iterations from every state - whatever the active
position, the invocation column and the requested column are -, so does enhance_flush_row -/
theorem flush_terminates (env : Env) (es : ES) (column : Nat) :
    (flush env es column).isSome = true ∧ (flushRow env es).isSome = true :=
  ⟨flush_total env es column, flushRow_total env es⟩
set_option maxRecDepth 100000 in
example : (flush exEnv { initES 3 30 1000 with activeCol := 5000, macUnicode := true } 100000).isSome = true := by decide

/-- **enhance_terminates**: for every triplet list and every object graph (cycles included) `maxObjectType + 1` nested
activations are enough and no loop bound of the model is used up; with `enhance_page_in_range` the page run is total
and safe -/
theorem enhance_terminates (env : Env) :
    (enhancePage env (maxObjectType + 1)).isSome = true ∧
    ∀ ty r c site arr start count, (enhance env (maxObjectType + 1 - ty) ty r c site arr start count).isSome = true ∨ maxObjectType < ty := by
  refine ⟨enhance_total env _ _ (by decide) (by decide) _ _ _ _ _ _, ?_⟩
  intro ty r c site arr start count
  by_cases h : maxObjectType < ty
  · exact Or.inr h
  · exact Or.inl (enhance_total env _ ty (by omega) (by omega) _ _ _ _ _ _)

/-- **post_enhance_in_range**: for every cell content and every `display_rows` the cell, the cell to its right and the
cells in the row below (double height / double size) are inside `text[]` -/
theorem post_enhance_in_range (size : Nat → Nat → Nat) (displayRows : Nat) : AllOk (postEnhance size displayRows) :=
  postEnhance_ok size displayRows
set_option maxRecDepth 100000 in
example : (Site.text, 23 * 41 + 40) ∈ postEnhance (fun _ _ => 3) 25 ∧ postEnhance (fun _ _ => 3) 1 = [] := by decide

/-- the Level 1 double height copy into the row below, for every row that may carry double height and every content -/
theorem level1_double_height_in_range (size : Nat → Nat → Nat) (row : Nat) (h : l1DoubleRowOk row = true) :
    AllOk (l1Copy size row (extColumns + 1) 0) := l1Copy_ok size row h _ _
set_option maxRecDepth 100000 in
example : l1DoubleRowOk 22 = true ∧ l1DoubleRowOk 23 = false ∧ (Site.text, 24 * 41) ∈ l1Copy (fun _ c => if c = 40 then 3 else 0) 22 42 0 := by decide

/-- **column41_in_range**: with body loops over at most `ROWS - 2` rows (header row before, navigation row after) every
cell column_41 touches is inside `text[]` -/
theorem column41_in_range (lo hi pgRows : Nat) (h : hi + 1 - lo ≤ rows - 2) : AllOk (column41 lo hi pgRows) :=
  column41_ok lo hi pgRows h
set_option maxRecDepth 100000 in
example : AllOk (column41 1 23 25) ∧ (Site.text, 24 * 41 + 40) ∈ column41 1 23 25 := by decide

set_option maxRecDepth 100000 in
/-- **column41_original_counterexample**: with `for (row = 1; row <= 24; ++row)` in the body the pointer stands on row
25 when the "navigation bar" statement runs: it reads `text[1064]` and writes `text[1065]`, behind `text[1056]` (in the
`vbi_page` these are `color_map[11..14]`) - on every fetch with more than one row -/
theorem column41_original_counterexample :
    (Site.text, 1065) ∈ column41 1 24 25 ∧ (Site.text, 1064) ∈ column41 1 24 25 ∧ ok (.text, 1065) = false ∧
    ¬ AllOk (column41 1 24 25) ∧ AllOk (column41 1 24 1) := by decide

set_option maxRecDepth 100000 in
/-- the current source is safe here exactly when its body loops stop at row 23 (holds with the repair, fails without) -/
theorem column41_current_iff : AllOk (column41 col41BodyLo col41BodyHi rows) ↔ col41BodyHi + 1 - col41BodyLo ≤ rows - 2 := by decide

end Zvbi.Props.C01Cells
