import ZvbiModel.Ttx.X26Content
import ZvbiModel.Props.C03X26
/-!
# C03, part 3 - the enhancement data of a whole page transmission

`Props/C03X26.lean` has the three pieces: `enh_fresh_after_header` (what the array holds after the
header), `C03.x26_continuity` (WHERE packet 26 may write) and `parity_check_ignores_unused_tail` /
`parity_fixups_only_at_addressed_cells` (what `lop_parity_check` does with the array).  Missing was
WHAT packet 26 writes, and the composition over a transmission.  The theorems below are that:

* `x26_packet_appends_its_triplets` - the content of `x26Triplets` (only its frame was proved);
* `page_transmission_enh` - over any sequence of Level 1 rows and X/26 packets of one magazine (any
  bytes, any order, lost packets allowed) the enhancement array of the page under assembly is
  `(payloads of the ACCEPTED X/26 packets since the header, in order) ++ (rest of what the header left)`,
  "accepted" being decided by the designation continuity rule (`x26Spec`);
* `x26_in_order_all_kept`, `x26_gap_drops_rest` - the declarative reading of that rule: `k` in-order
  complete packets give exactly their `13 k` triplets; after the first gap nothing more is accepted;
* `page_transmission_fresh` - ONE statement for a page built from scratch: after the header
  (`enh_fresh_after_header`: all entries unused) and the body of the transmission, the live part of
  `enh[]` is exactly the triplets of the accepted X/26 packets of THIS transmission, and the cells
  whose parity `lop_parity_check` forces before the parity gate are exactly the cells those triplets
  address - nothing of an earlier page, nothing of a dropped packet;
* `header_then_transmission` - the same with the header step inside the statement.
-/
namespace Zvbi.Props.C03Tx
open Zvbi.Ttx Zvbi.Ttx.Spec Zvbi.Hamm Zvbi.Gen

/-- CONTENT of an accepted X/26 packet (complements `C03.x26_continuity`): with the array filled up to
    `|ts|` (`ts ++ rest`, at least 13 entries of room) the packet's decoded triplets - all 13, or those
    before its first uncorrectable triplet (`x26Payload`) - are written behind `ts` in order, the fill
    level rises by their number, every other entry keeps its value, no index leaves the array. -/
theorem x26_packet_appends_its_triplets (v : View) (ts rest : List Triplet)
    (hn : 13 ≤ rest.length) (hsz : ts.length + rest.length ≤ ENH_SIZE) :
    x26Triplets v (ts ++ rest) ts.length
      = (ts ++ x26Payload v ++ rest.drop (x26Payload v).length, ts.length + (x26Payload v).length, []) :=
  x26Triplets_content v ts rest hn hsz

/-- non-vacuity: a packet whose third triplet is uncorrectable contributes its first two -/
example : x26Payload ⟨[], [some 0x12345, some 0x00801, none, some 7], [], []⟩
    = [⟨0x05, 0x0D, 0x24⟩, ⟨0x01, 0x00, 0x01⟩] := by decide

/-- OVER A TRANSMISSION.  Slot `mag0` holds a Level one page just opened by a header
    (`num_triplets = 0`), `ps` is any sequence of packets each of which is lost (address
    uncorrectable) or is a row 1..25 or an X/26 packet of that magazine - any bytes, any order, any
    designations.  Then the enhancement array is the array the header left with its first entries
    overwritten by the payloads of the accepted X/26 packets in order of arrival
    (`(x26Views ps).foldl x26Spec`), `num_triplets` is the spec's fill level, the page is still the
    same Level one page (number, sub-number), no page was stored and no event sent. -/
theorem page_transmission_enh (s : St) (mag0 : Nat) (ps : List Packet)
    (hmask : s.mask = true) (hlt : mag0 < s.raw.length) (hfn : (s.rp mag0).page.function = FN_LOP)
    (hnt : (s.rp mag0).numTriplets = 0) (hlen : (s.rp mag0).page.enh.length = ENH_SIZE)
    (hp : ∀ p ∈ ps, BodyPkt mag0 p) :
    let s' := ps.foldl (fun s p => (decodeTeletext s p).st) s
    let acc := (x26Views ps).foldl x26Spec ([], 0)
    (s'.rp mag0).page.enh = acc.1 ++ (s.rp mag0).page.enh.drop acc.1.length ∧
    (s'.rp mag0).numTriplets = acc.2 ∧ (acc.2 = (acc.1.length : Int) ∨ acc.2 = -1) ∧
    (∀ t ∈ acc.1, t.address ≤ 63) ∧
    (s'.rp mag0).page.function = FN_LOP ∧ (s'.rp mag0).page.pgno = (s.rp mag0).page.pgno ∧
    (s'.rp mag0).page.subno = (s.rp mag0).page.subno ∧ s'.net = s.net := by
  have hinv : TxInv s mag0 (s.rp mag0).page.enh ([], 0) :=
    ⟨hmask, hlt, hfn, ⟨by simp, hnt, Or.inl rfl, by simp, by simp, fun _ => rfl⟩⟩
  obtain ⟨a, b, c, d⟩ := decodeAll_body ps s mag0 (s.rp mag0).page.enh hlen ([], 0) hinv hp
  exact ⟨a.x26.enh, a.x26.nt, a.x26.sync, a.x26.addr, a.fn, b, c, d⟩


/-- the demonstration transmission of magazine 1: X/26 designation 0 (set active position row 5, G2 character column 3,
    address display row 0, G0 character column 20, nine more row triplets), Level 1 row 5 ("ZZZ..."), and X/26
    designation 2 (dropped: designation 1 is missing) -/
def demoX26d0 : Packet :=
  [2, 182, 21, 230, 146, 128, 151, 188, 193, 117, 159, 0, 32, 165, 66, 204, 146, 0, 210, 146, 0, 213, 146, 128, 225, 146, 0,
   230, 146, 128, 248, 146, 128, 255, 146, 0, 1, 147, 0, 6, 147, 128]
def demoRow5 : Packet := [199, 73] ++ List.replicate 40 218
def demoX26d2 : Packet := demoX26d0.set 2 73
def demoBody : List Packet := [demoX26d0, demoRow5, demoX26d2]

theorem demoBody_ok : ∀ p ∈ demoBody, BodyPkt 1 p := by
  intro p hp
  simp only [demoBody, List.mem_cons, List.mem_nil_iff, or_false] at hp
  rcases hp with rfl | rfl | rfl
  · exact Or.inr ⟨209, by decide +kernel, by decide, by decide, by decide⟩
  · exact Or.inr ⟨41, by decide +kernel, by decide, by decide, by decide⟩
  · exact Or.inr ⟨209, by decide +kernel, by decide, by decide, by decide⟩

/-- non-vacuity: the spec keeps the 13 triplets of designation 0 and drops designation 2 (fill level -1) -/
example :
    ((x26Views demoBody).foldl x26Spec ([], 0)).1.take 4 = [⟨45, 4, 0⟩, ⟨3, 0x0F, 0x41⟩, ⟨63, 7, 0⟩, ⟨20, 9, 0x42⟩] ∧
    ((x26Views demoBody).foldl x26Spec ([], 0)).1.length = 13 ∧ ((x26Views demoBody).foldl x26Spec ([], 0)).2 = -1 := by
  decide +kernel

/-- IN ORDER, COMPLETE: X/26 packets with designations 0, 1, ..., k-1 in this order (k ≤ 16) whose
    thirteen triplets all decode are all accepted: the spec state is their `13 k` triplets, fill level `13 k`. -/
theorem x26_in_order_all_kept (vs : List View) (hk : vs.length ≤ 16) (hv : InOrderFrom 0 vs) :
    vs.foldl x26Spec ([], 0) = (vs.flatMap x26Payload, ((13 * vs.length : Nat) : Int)) ∧
    (vs.flatMap x26Payload).length = 13 * vs.length := by
  have := x26Spec_in_order vs 0 [] rfl (by omega) hv
  simpa using this


/-- non-vacuity: the demonstration packet is a complete designation 0 -/
example : InOrderFrom 0 [view Kind.trip demoX26d0] := by
  refine ⟨by decide +kernel, ?_, trivial⟩
  have : ∀ i < 13, ((view Kind.trip demoX26d0).g24 i).isSome = true := by decide +kernel
  exact this

/-- GAP: once a packet was dropped for discontinuity (`num_triplets = -1`) every later X/26 packet of
    the transmission is dropped - out-of-order or missing packets are never misplaced. -/
theorem x26_gap_drops_rest (ts : List Triplet) (vs : List View) : vs.foldl x26Spec (ts, -1) = (ts, -1) := by
  induction vs with
  | nil => rfl
  | cons v vs ih => simp only [List.foldl_cons]; rw [x26Spec_stuck]; exact ih

/-- a gap really occurs: designation 1 arriving first is dropped, and then designation 0 as well -/
example : [(⟨[some 1], [], [], []⟩ : View), ⟨[some 0], [some 5], [], []⟩].foldl x26Spec ([], 0) = ([], -1) := by
  decide

/-- ONE STATEMENT FOR A PAGE BUILT FROM SCRATCH.  After a header that built a Level one page from
    scratch (`enh_fresh_after_header`: every entry unused, `num_triplets = 0`) and any body `ps` of
    the transmission (rows 1..25 / X/26 of this magazine, lost packets), with `ts` the triplets of
    the accepted X/26 packets:
    * `enh[]` is `ts` followed by unused entries, so its live part is exactly `ts`;
    * the rows `lop_parity_check` hands to the parity gate are the received rows with `vbi_par8`
      applied at the cells `ts` addresses (`AddrFrom 0 ts`: a character column triplet of `ts` at
      column `c` while the row named by the last row-address triplet of `ts` before it is `r`) and
      every other byte as received.
    Nothing of the slot's previous page, of a dropped or out-of-order packet, or of anything behind
    an uncorrectable triplet takes part. -/
theorem page_transmission_fresh (s : St) (mag0 : Nat) (ps : List Packet)
    (hmask : s.mask = true) (hlt : mag0 < s.raw.length) (hfn : (s.rp mag0).page.function = FN_LOP)
    (hnt : (s.rp mag0).numTriplets = 0) (hfresh : (s.rp mag0).page.enh = enhUnused)
    (hp : ∀ p ∈ ps, BodyPkt mag0 p) :
    let s' := ps.foldl (fun s p => (decodeTeletext s p).st) s
    let ts := ((x26Views ps).foldl x26Spec ([], 0)).1
    let rp := s'.rp mag0
    rp.page.enh = ts ++ List.replicate (ENH_SIZE - ts.length) Triplet.ff ∧
    liveTriplets rp.page.enh = ts ∧
    (∀ r c, r < rp.lopRaw.length → c < (rp.lopRaw.getD r zeroRow).length →
      (AddrFrom 0 ts r c → cellAt (lopParityCheck rp.page rp).2.lopRaw r c = par8 (cellAt rp.lopRaw r c)) ∧
      (¬ AddrFrom 0 ts r c → cellAt (lopParityCheck rp.page rp).2.lopRaw r c = cellAt rp.lopRaw r c)) := by
  have hlen : (s.rp mag0).page.enh.length = ENH_SIZE := by rw [hfresh]; simp [enhUnused]
  have hinv : TxInv s mag0 (s.rp mag0).page.enh ([], 0) :=
    ⟨hmask, hlt, hfn, ⟨by simp, hnt, Or.inl rfl, by simp, by simp, fun _ => rfl⟩⟩
  obtain ⟨a, _, _, _⟩ := decodeAll_body ps s mag0 (s.rp mag0).page.enh hlen ([], 0) hinv hp
  intro s' ts rp
  have he : rp.page.enh = ts ++ List.replicate (ENH_SIZE - ts.length) Triplet.ff := by
    have := a.x26.enh
    rw [hfresh, enhUnused_drop] at this
    exact this
  have hlive : liveTriplets rp.page.enh = ts := by
    rw [he]; exact liveTriplets_append_unused ts _ a.x26.addr
  refine ⟨he, hlive, ?_⟩
  intro r c hr hc
  rw [lopParityCheck_lopRaw]
  by_cases hx : rp.page.x26 = 0
  · -- no X/26 packet was accepted: no triplets, the rows go to the gate as received
    have hts : ts = [] := a.x26.mask hx
    have hb : (rp.page.x26 != 0) = false := by simp [hx]
    simp only [hb, Bool.false_eq_true, if_false]
    refine ⟨?_, ?_⟩
    rotate_left
    · first | trivial | exact fun _ => trivial | exact fun _ => rfl
    rintro ⟨pre, t, post, hpre, _⟩
    rw [hts] at hpre
    cases pre <;> simp at hpre
  · have hb : (rp.page.x26 != 0) = true := by simpa using hx
    simp only [hb, if_true]
    rw [x26Fix_eq_fixLive, hlive]
    exact fixLive_cells ts 0 rp.lopRaw r c hr hc

/-- the demonstration header: magazine 1, page 23 -/
def demoHeader : Packet := [2, 21, 94, 73, 21, 21, 21, 21, 21, 21] ++ List.replicate 32 32

/-- non-vacuity of the hypotheses: after the header on a fresh decoder slot 1 is a Level one page with an
    unused array and fill level 0 -/
example :
    let s := (decodeTeletext (init.enable true) demoHeader).st
    s.mask = true ∧ 1 < s.raw.length ∧ (s.rp 1).page.function = FN_LOP ∧ (s.rp 1).numTriplets = 0 ∧
    (s.rp 1).page.enh = enhUnused := by
  decide +kernel


/-- ... and the decoder itself (header, then the demonstration body): the array starts with the triplets of
    designation 0, entry 13 is unused, and cell (5, 3) / (0, 20) are the addressed ones (cf. `C03X26.demoEnh`) -/
example :
    let s' := demoBody.foldl (fun s p => (decodeTeletext s p).st) (decodeTeletext (init.enable true) demoHeader).st
    (s'.rp 1).page.enh.take 4 = [⟨45, 4, 0⟩, ⟨3, 0x0F, 0x41⟩, ⟨63, 7, 0⟩, ⟨20, 9, 0x42⟩] ∧
    (s'.rp 1).page.enh.getD 13 Triplet.zero = Triplet.ff ∧ (s'.rp 1).numTriplets = -1 ∧
    cellAt (lopParityCheck (s'.rp 1).page (s'.rp 1)).2.lopRaw 5 3 = par8 218 ∧
    cellAt (lopParityCheck (s'.rp 1).page (s'.rp 1)).2.lopRaw 5 20 = 218 := by
  decide +kernel

/-- THE HEADER INSIDE THE STATEMENT.  Any decoder state `s` with a Teletext handler, an accepted
    header of magazine `mag0` (view `v`, page number decodes, not refused) after which the slot
    holds a Level one page, the 8 header Hamming bytes patched in as `vbi_decode_teletext` does
    (`finish`), then any body `ps`: the enhancement array at the end is the accepted payloads of
    THIS transmission followed by the rest of `E`, where `E` - the array right after the header - is
    all unused entries or the array of the cached copy `q` of this very page number (which, on the unrepaired
    code, is ZERO-filled if `q` was stored without X/26 data: finding C03-enh-zero-filler below). -/
theorem header_then_transmission (s : St) (mag0 mag8 : Nat) (v : View) (h8 : List Nat) (page : Nat)
    (ps : List Packet) (hm : mag0 < s.raw.length)
    (hpg : v.g16 0 = some page) (hacc : hdrRejected page (v.g16i 2) (v.g16i 4) (v.g16i 6) = false)
    (s1 : St) (hs1 : s1 = (finish (processHeader s mag0 mag8 v) mag0 h8).st)
    (hmask : s1.mask = true) (hlt : mag0 < s1.raw.length) (hfn : (s1.rp mag0).page.function = FN_LOP)
    (hlen : (s1.rp mag0).page.enh.length = ENH_SIZE) (hp : ∀ p ∈ ps, BodyPkt mag0 p) :
    let s' := ps.foldl (fun s p => (decodeTeletext s p).st) s1
    let ts := ((x26Views ps).foldl x26Spec ([], 0)).1
    let E := (s1.rp mag0).page.enh
    (s'.rp mag0).page.enh = ts ++ E.drop ts.length ∧ (∀ t ∈ ts, t.address ≤ 63) ∧
    (E = enhUnused ∨
     ∃ q, q ∈ (terminatePage s mag0 (mag8 * 256 + page) page).1.net.cache ∧ q.pgno = mag8 * 256 + page ∧ E = q.enh) := by
  have hslot : (s1.rp mag0).page.enh = ((processHeader s mag0 mag8 v).1.st.rp mag0).page.enh ∧
      (s1.rp mag0).numTriplets = ((processHeader s mag0 mag8 v).1.st.rp mag0).numTriplets ∧
      (s1.rp mag0).page.function = ((processHeader s mag0 mag8 v).1.st.rp mag0).page.function := by
    rw [hs1]
    unfold finish
    split
    · simp only []
      unfold patchHdr8
      by_cases hl : mag0 < (processHeader s mag0 mag8 v).1.st.raw.length
      · rw [rp_setPage_same _ _ _ hl]; exact ⟨rfl, rfl, rfl⟩
      · have hge : ∀ x, (processHeader s mag0 mag8 v).1.st.setRp mag0 x = (processHeader s mag0 mag8 v).1.st := by
          intro x; unfold St.setRp; rw [List.set_eq_of_length_le (by omega)]
        unfold St.setPage; rw [hge]; exact ⟨rfl, rfl, rfl⟩
    · exact ⟨rfl, rfl, rfl⟩
  obtain ⟨h1, h2, h3⟩ := Zvbi.Props.C03X26.enh_fresh_after_header s mag0 mag8 v page hm hpg hacc
  have hnt : (s1.rp mag0).numTriplets = 0 := by rw [hslot.2.1]; exact h1
  obtain ⟨a, _, _, b, _⟩ := page_transmission_enh s1 mag0 ps hmask hlt hfn hnt hlen hp
  refine ⟨a, b, ?_⟩
  rcases h3 with ⟨q, hq, hqp, he | ⟨_, _, he⟩, _⟩ | ⟨_, he⟩
  · exact Or.inr ⟨q, hq, hqp, by rw [hslot.1]; exact he⟩
  · left
    show (s1.rp mag0).page.enh = enhUnused
    rw [hslot.1]
    exact he
  · left
    show (s1.rp mag0).page.enh = enhUnused
    rw [hslot.1]
    exact he (by rw [← hslot.2.2]; exact hfn)

/-- non-vacuity of the hypotheses of `header_then_transmission` on the fresh decoder and the demonstration header -/
example :
    let v := view Kind.hdr demoHeader
    let s1 := (finish (processHeader (init.enable true) 1 1 v) 1 (hdr8 demoHeader)).st
    v.g16 0 = some 0x23 ∧ hdrRejected 0x23 (v.g16i 2) (v.g16i 4) (v.g16i 6) = false ∧ s1.mask = true ∧
    1 < s1.raw.length ∧ (s1.rp 1).page.function = FN_LOP ∧ (s1.rp 1).page.enh.length = ENH_SIZE := by
  decide +kernel

/-! ## finding: a page continued from a cached copy WITHOUT enhancement data gets a zero-filled array -/

/-- FULL STATEMENT (containment of enhancement data; FALSE on the unrepaired code `ttxFixEnhFiller = false`, see
    below; not proved for the repaired shape): in every reachable
    decoder state every live entry of the enhancement array of a Level one page under assembly that has X/26
    data was carried by an X/26 packet of the history. -/
def live_triplets_were_transmitted_full : Prop :=
  ∀ (hist : List Packet) (m : Nat), m < 8 →
    ((run (init.enable true) hist).1.rp m).page.function = FN_LOP →
    ((run (init.enable true) hist).1.rp m).page.x26 ≠ 0 →
    ∀ t ∈ liveTriplets ((run (init.enable true) hist).1.rp m).page.enh,
      ∃ p ∈ hist, t ∈ x26Payload (view Kind.trip p)

/-- the history of the counterexample: page 123 without X/26 (stored when the header of 124 arrives), then page 123
    again, now with X/26 designation 0 -/
def zeroFillerHist : List Packet := [demoHeader, demoRow5, demoHeader.set 2 100, demoHeader, demoX26d0]

/-- COUNTEREXAMPLE (replay on the C code: corpus/C03/enh_zero_filler.ops; fixes/C03-enh-zero-filler.md).  The header
    branch continues the cached copy of page 123 - stored without X/26 data, so `cache_page_size` cut the
    enhancement array off - by `memset (&cvtp->data, 0, ..)` + `memcpy (.., cache_page_size (vtp))`: the array is
    filled with ZERO triplets (column 0, mode 0 "foreground colour", data 0 "black"), not with the unused value
    0xFF as for a page built from scratch.  After X/26 designation 0 the array holds the 13 transmitted triplets
    followed by 196 live zero triplets that no packet carried: the live part is all 209 entries. -/
theorem live_triplets_were_transmitted_counterexample (hf : ttxFixEnhFiller = false) :
    (((run (init.enable true) zeroFillerHist).1.rp 1).page.enh.getD 13 Triplet.ff = Triplet.zero ∧
     (liveTriplets ((run (init.enable true) zeroFillerHist).1.rp 1).page.enh).length = 209 ∧
     (((x26Views zeroFillerHist).foldl x26Spec ([], 0)).1).length = 13) ∧
    ¬ live_triplets_were_transmitted_full := by
  -- each concrete fact is decided as `flag = false → fact`, so that the file also builds on the repaired tree
  have h1 : ttxFixEnhFiller = false →
      (((run (init.enable true) zeroFillerHist).1.rp 1).page.enh.getD 13 Triplet.ff = Triplet.zero ∧
       (liveTriplets ((run (init.enable true) zeroFillerHist).1.rp 1).page.enh).length = 209 ∧
       (((x26Views zeroFillerHist).foldl x26Spec ([], 0)).1).length = 13) := by decide +kernel
  have h2 : ttxFixEnhFiller = false →
      (Triplet.zero ∈ liveTriplets ((run (init.enable true) zeroFillerHist).1.rp 1).page.enh ∧
       ((run (init.enable true) zeroFillerHist).1.rp 1).page.function = FN_LOP ∧
       ((run (init.enable true) zeroFillerHist).1.rp 1).page.x26 ≠ 0) := by decide +kernel
  refine ⟨h1 hf, ?_⟩
  intro hfull
  obtain ⟨hz, hfn, hx⟩ := h2 hf
  obtain ⟨p, hp, ht⟩ := hfull zeroFillerHist 1 (by decide) hfn hx Triplet.zero hz
  have hno : ∀ p ∈ zeroFillerHist, Triplet.zero ∉ x26Payload (view Kind.trip p) := by decide +kernel
  exact hno p hp ht

end Zvbi.Props.C03Tx
