import ZvbiModel.Trig.LemmasRun
import ZvbiModel.Trig.LemmasGate
/-!
# C01 - src/trigger.c (EACEM / ATVEF trigger parsing, deferred trigger list) and the caption ITV separator

The model (`Trig/Model.lean`) follows the C text loop by loop; the cursor into the caller's string is the suffix of a
block of exactly `strlen + 1` bytes, so a read behind the terminating NUL is a fault of the model, as it is an ASan
report in the harness.  `Cfg` holds what translate/gen_trig.py reads from the CURRENT source: extents, the limit of
every copy loop, strlcpy sizes, keyword table counts and which of five repaired forms are present.

On the unchanged tree five obligations are FALSE; each has a `_counterexample` theorem on the original form, a replay in
corpus/C01/trig-*.ops and a repair in fixes/C01-trig-*.diff.  The safety theorems are stated for every configuration
with sound bounds (`Cfg.BoundsOk`, proved for the current tree: `current_bounds_ok`) in which the repaired forms are
present (`Cfg.Repaired`); `repaired_is_repaired` shows the tree with the diffs applied is such a configuration.
-/
namespace Zvbi.Props.C01Trig
open Zvbi.Trig

/-- the limits, strlcpy sizes and table counts of the CURRENT source are sound for the extents of the CURRENT headers:
`url[256]` with `dx = d + sizeof - 2` / `- 1` and `<`, `buf[256]` with `- 2`, `name[80]`, `script[256]`, keyword counts not
above the table lengths, `itv_count` reset above `sizeof (itv_buf) - 2` (a `<=` for a `<`, a count off by one, a
smaller array: this theorem stops building) -/
theorem current_bounds_ok : Cfg.current.BoundsOk := by
  constructor <;> simp [Cfg.current, Zvbi.Gen.Trig.urlSize, Zvbi.Gen.Trig.nameSize, Zvbi.Gen.Trig.scriptSize,
    Zvbi.Gen.Trig.eBufSize, Zvbi.Gen.Trig.aBufSize, Zvbi.Gen.Trig.eUrlLim, Zvbi.Gen.Trig.aUrlLim, Zvbi.Gen.Trig.eAttrLim,
    Zvbi.Gen.Trig.aAttrLim, Zvbi.Gen.Trig.eTextLim, Zvbi.Gen.Trig.aTextLim, Zvbi.Gen.Trig.eNameN, Zvbi.Gen.Trig.aNameN,
    Zvbi.Gen.Trig.eScriptN, Zvbi.Gen.Trig.aScriptN, Zvbi.Gen.Trig.eKwNum, Zvbi.Gen.Trig.aKwNum, Zvbi.Gen.Trig.aTypeNum,
    Zvbi.Gen.Trig.typeLoopLo, Zvbi.Gen.Trig.typeLoopHi, Zvbi.Gen.Trig.eAttrs, Zvbi.Gen.Trig.aAttrs, Zvbi.Gen.Trig.typeAttrs,
    Zvbi.Gen.Trig.itvBufSize, Zvbi.Gen.Trig.itvResetAbove]
example : Cfg.current.eUrlLim = 254 ∧ Cfg.current.aUrlLim = 255 ∧ Cfg.current.eTextLim = 254 := by decide

theorem repaired_bounds_ok : Cfg.repaired.BoundsOk := by
  have h := current_bounds_ok
  exact ⟨h.eUrl, h.aUrl, h.eAttr, h.eText, h.aAttr, h.aText, h.namePos, h.scriptPos, h.eName, h.aName, h.eScript, h.aScript,
         h.eKw, h.aKw, h.aType, h.bare, h.itv⟩

/-- the tree with fixes/C01-trig-*.diff applied has all the repaired forms -/
theorem repaired_is_repaired : Cfg.repaired.Repaired := ⟨rfl, rfl, rfl, rfl, rfl⟩
example : Cfg.original.eQuoteFix = false ∧ Cfg.original.copyFix = false := ⟨rfl, rfl⟩

/-- **trigger_parse_never_oob**: for EVERY byte string (any length, any bytes, no terminators, any nesting, 255-byte
lines, huge numbers) neither parser reads outside the caller's block (`strlen + 1` bytes), stores outside `url[]`,
`buf[]`, `name[]`, `script[]`, reads a keyword table behind its end, reads `url[]` / `buf[]` behind their NUL, touches a
freed node or exhausts its loop bound; the strings of an accepted trigger fit their arrays with the NUL. -/
theorem trigger_parse_never_oob (cfg : Cfg) (hb : cfg.BoundsOk) (hr : cfg.Repaired) (bytes : List Nat) (nuid : Nat) (now : Int) :
    Good (LinkOk cfg) (cstr bytes).length (parseEacem cfg nuid now (cstr bytes)) ∧
    Good (LinkOk cfg) (cstr bytes).length (parseAtvef cfg now (cstr bytes)) :=
  ⟨(parseEacem_good cfg hb hr.eq nuid now _ (wf_cstr bytes)).mono (B_le _),
   (parseAtvef_good cfg hb hr.aq hr.cont now _ (wf_cstr bytes)).mono (B_le _)⟩
example : Good (LinkOk Cfg.repaired) 3 (.ok (some ({ link := { url := [104] } }, [0])) : R (Option (Trigger × List Nat))) := by
  refine ⟨⟨?_, ?_, ?_⟩, ⟨[], rfl, by simp⟩, by simp⟩ <;> decide
example : ¬ Good (LinkOk Cfg.repaired) 3 (.error (.oob "x") : R (Option (Trigger × List Nat))) := fun h => h

/-- the same with the sites spelled out: no `.oob`, no exhausted bound -/
theorem trigger_parse_no_fault (cfg : Cfg) (hb : cfg.BoundsOk) (hr : cfg.Repaired) (bytes : List Nat) (nuid : Nat) (now : Int) :
    (∀ site, parseEacem cfg nuid now (cstr bytes) ≠ .error (.oob site)) ∧
    (∀ site, parseAtvef cfg now (cstr bytes) ≠ .error (.oob site)) := by
  obtain ⟨h1, h2⟩ := trigger_parse_never_oob cfg hb hr bytes nuid now
  constructor
  · intro site he; rw [he] at h1; exact h1
  · intro site he; rw [he] at h2; exact h2

/-- **trigger_parse_terminates**: the loop bound `strlen + 2` iterations (linear in the input) is never reached by
parse_eacem, parse_atvef or the `while ((r = parse_eacem (...)))` loop of vbi_eacem_trigger: every iteration consumes
at least one byte. -/
theorem trigger_parse_terminates (cfg : Cfg) (hb : cfg.BoundsOk) (hr : cfg.Repaired) (bytes : List Nat) (st : St) (hi : Inv st) :
    parseEacem cfg st.nuid ((st.time : Int) * 25) (cstr bytes) ≠ .error .fuel ∧
    parseAtvef cfg ((st.time : Int) * 25) (cstr bytes) ≠ .error .fuel ∧
    eacemTrigger cfg ((cstr bytes).length + 1) st (cstr bytes) [] ≠ .error .fuel := by
  obtain ⟨h1, h2⟩ := trigger_parse_never_oob cfg hb hr bytes st.nuid ((st.time : Int) * 25)
  have h3 := eacemTrigger_good cfg hb hr.eq hr.wdel _ st (cstr bytes) [] (Nat.lt_succ_self _) (wf_cstr bytes) hi
  refine ⟨?_, ?_, ?_⟩
  · intro he; rw [he] at h1; exact h1
  · intro he; rw [he] at h2; exact h2
  · intro he; rw [he] at h3; exact h3
example : eacemTrigger Cfg.repaired 0 {} [0] [] = .error .fuel := rfl

/-- the original text loop is NOT safe: `<http://a>[n:"` makes parse_atvef step over the terminating NUL unread
(replay corpus/C01/trig-quote-overread.ops, repair fixes/C01-trig-quote-overread.diff) -/
theorem trigger_parse_quote_counterexample :
    textLoopOrig 254 256 93 2 [34, 0] [] = .error (.oob "text:read") ∧
    textLoopFix 254 256 93 2 [34, 0] false [] = .ok none := by
  constructor <;> rfl

/-- the original bare `[type]` attribute is NOT safe: after `[network]` the cursor of parse_atvef is two behind the `]`
(replay corpus/C01/trig-type-continue-overread.ops, repair fixes/C01-trig-type-continue.diff) -/
theorem trigger_parse_continue_counterexample :
    ([93, 0] : List Nat).tail.tail = [] ∧ ([93, 0] : List Nat).tail = [0] := ⟨rfl, rfl⟩

/-- **parse_time** with the bound of fixes/C01-trig-time-overflow.diff never evaluates `seconds * 25 + frames` outside
`int`; without it `[active:99999999]` overflows (UBSan: signed integer overflow). -/
theorem parse_time_no_overflow (l : List Nat) (s : String) : parseTime (some timeMaxRepaired) l ≠ .error (.ovf s) := by
  unfold parseTime
  simp only [bind, Except.bind]
  by_cases hm : (strtoul l 10).1 > timeMaxRepaired
  · simp [hm, pure, Except.pure]
  · simp only [hm, decide_false, Bool.false_eq_true, if_false]
    have hv : (strtoul l 10).1 ≤ 85899341 := by
      have : timeMaxRepaired = 85899341 := by decide
      omega
    cases hcg : cget "parse_time" l (strtoul l 10).2 with
    | error f =>
      simp only
      intro h; cases h
      unfold cget at hcg; split at hcg
      · cases hcg
      · split at hcg <;> cases hcg
    | ok c =>
      simp only
      have key : ∀ fr : Nat, fr ≤ 99 → inI32 (((strtoul l 10).1 : Int) * 25) = true ∧
          inI32 (((strtoul l 10).1 : Int) * 25 + fr) = true := by
        intro fr hfr
        unfold inI32
        constructor <;> simp <;> omega
      by_cases h0 : c = 0
      · simp only [h0, if_true, pure, Except.pure]
        have := key 0 (by omega)
        simp [this.1]
      · simp only [h0, if_false]
        by_cases h70 : c ≠ 70
        · simp [h70, pure, Except.pure]
        · simp only [h70, if_false]
          cases hpd : parseDec "parse_time" l ((strtoul l 10).2 + 1) 2 0 with
          | error f =>
            simp only
            intro h; cases h
            obtain ⟨r, hr, _⟩ := parseDec_spec "parse_time" l 2 ((strtoul l 10).2 + 1) 0 (by
              obtain ⟨c', hc', hlt⟩ := cget_ok (site := "parse_time") (l := l) (i := (strtoul l 10).2) (strtoul_end_le l 10)
              rw [hcg] at hc'; cases hc'; have := hlt h0; omega)
            rw [hr] at hpd; cases hpd
          | ok r =>
            simp only
            cases r with
            | none => simp [pure, Except.pure]
            | some fr =>
              have hfr : fr < (0 + 1) * 10 ^ 2 := parseDec_lt "parse_time" l 2 _ 0 fr hpd
              have := key fr (by omega)
              simp [this.1, this.2, pure, Except.pure]
example : parseTime (some timeMaxRepaired) [57, 57, 57, 57, 57, 57, 57, 57] = .ok (-1) := by rfl

/-- without the bound `[active:99999999]` overflows `int` (replay corpus/C01/trig-time-overflow.ops) -/
theorem parse_time_overflow_counterexample :
    parseTime none [57, 57, 57, 57, 57, 57, 57, 57] = .error (.ovf "parse_time") := by rfl

/-- **trigger_list_bounded_and_freed** / all histories: for every sequence of trigger strings (EACEM, ATVEF, caption
ITV text), clock changes, vbi_deferred_trigger calls and flushes, starting from a new decoder: no access outside an
object, no read of a freed node (handlers cannot re-enter: vbi_send_event holds the event mutex and trigger.c is only
called from the decoding thread), no exhausted loop bound; the number of live allocations equals the length of the
list at every point, and vbi_trigger_flush - which vbi_decoder_delete, a channel switch and a handler change call -
brings it to 0.  The only fault left is the `int` overflow of parse_time, excluded by `parse_time_no_overflow`. -/
theorem trigger_list_bounded_and_freed (cfg : Cfg) (hb : cfg.BoundsOk) (hr : cfg.Repaired) (ops : List Op) :
    GoodRun cfg (run cfg {} ops) ∧
    ∀ st, run cfg {} ops = .ok st → st.live = st.list.length ∧ (flush st).live = 0 ∧ (flush st).list = [] := by
  have h := run_good cfg hb hr ops {} (itvInv_init cfg)
  refine ⟨h, ?_⟩
  intro st hst
  rw [hst] at h
  have := flush_inv st h.1
  exact ⟨h.1, this.2.1, this.2.2⟩
example : run Cfg.repaired {} [.time 5, .flush] = .ok { time := 5 } := rfl

/-- vbi_deferred_trigger (repaired walk) fires and frees exactly the nodes whose time has come: afterwards no due
trigger is left, and live allocations dropped by the number of events sent -/
theorem deferred_fires_and_frees (cfg : Cfg) (hw : cfg.walkFixDeferred = true) (st : St) (hi : st.live = st.list.length) :
    ∃ st' ev, deferred cfg st = .ok (st', ev) ∧ st'.live = st'.list.length ∧
      (∀ t ∈ st'.list, ¬ t.fire ≤ (st.time : Int) * 25) ∧ st'.live + ev.length = st.live := by
  obtain ⟨st', ev, h1, h2, _, h4, h5⟩ := deferred_inv cfg st hi hw
  exact ⟨st', ev, h1, h2, h4, h5⟩

/-- the original walks are NOT safe: the loop head `tp = &t->next` reads the node just freed as soon as one trigger
fires (replay corpus/C01/trig-deferred-uaf.ops) or is deleted (trig-delete-uaf.ops) - for every list and every time -/
theorem deferred_walk_uaf_counterexample (t : Trigger) (ts : List Trigger) (time : Int) (h : t.fire ≤ time) :
    deferredWalk false time (t :: ts) = .error (.uaf "vbi_deferred_trigger") := by
  simp [deferredWalk, h]

theorem delete_walk_uaf_counterexample (a : Trigger) (ts : List Trigger) :
    deleteWalk false a (a :: ts) = .error (.uaf "add_trigger:delete") := by
  simp [deleteWalk, sameTrigger]

/-- the original add_trigger links a node it never fills in: what fires later is not the parsed trigger (under the
harness' allocator: 0xAA bytes, no NUL in `url[]`) - replay corpus/C01/trig-uninitialised-node.ops;
with the copy the node is the parsed trigger -/
theorem add_trigger_copy_counterexample (st : St) (a : Trigger) (hd : a.del = false) (hn : st.list.any (sameTrigger a) = false)
    (hf : ¬ a.fire ≤ (st.time : Int) * 25) :
    (∃ st', addTrigger Cfg.original st a = .ok (st', []) ∧ st'.list.head? = some poison) ∧
    (∃ st', addTrigger Cfg.repaired st a = .ok (st', []) ∧ st'.list.head? = some a) := by
  constructor <;> simp [addTrigger, hd, hn, hf, Cfg.original, Cfg.repaired]
example : poison.link.terminated = false ∧ poison.link.url.length = Zvbi.Gen.Trig.urlSize := ⟨rfl, List.length_replicate ..⟩

/-- **itv_buf_index_le_255**: over all histories (any caption bytes, any interleaving with the other ops) `itv_count`
never exceeds `sizeof (itv_buf) - 1` = 255 and only characters >= 0x20 are stored, so both stores of itv_separator
(`itv_buf[itv_count++] = c`, `itv_buf[itv_count] = 0`) are inside `itv_buf[256]`. -/
theorem itv_buf_index_le_255 (ops : List Op) (st : St) (h : run Cfg.repaired {} ops = .ok st) :
    st.itv.length ≤ 255 ∧ st.itv.length < Zvbi.Gen.Trig.itvBufSize ∧ ∀ c ∈ st.itv, c ≠ 0 := by
  have hg := run_good Cfg.repaired repaired_bounds_ok repaired_is_repaired ops {} (itvInv_init _)
  rw [h] at hg
  have hr : Cfg.repaired.itvResetAbove = 254 := by decide
  have hs : Zvbi.Gen.Trig.itvBufSize = 256 := by decide
  have := hg.2.1
  exact ⟨by omega, by omega, hg.2.2⟩
example : Zvbi.Gen.Trig.itvResetAbove + 2 = Zvbi.Gen.Trig.itvBufSize := by decide

/-- **checksum_gate** (every configuration, every string): parse_eacem / parse_atvef return a trigger only in two
ways - the cursor stands on the terminating NUL (no checksum attribute: optional in both syntaxes), or the attribute
without `:` in front of the cursor, read as a hexadecimal number, made verify_checksum() true over the bytes before
that attribute.  A checksum attribute that does not verify makes the parser return NULL: the trigger is dropped. -/
theorem checksum_gate (cfg : Cfg) (nuid : Nat) (now : Int) (mem : List Nat) (t : Trigger) (rest : List Nat) :
    (parseEacem cfg nuid now mem = .ok (some (t, rest)) → Gate mem rest) ∧
    (parseAtvef cfg now mem = .ok (some (t, rest)) → Gate mem rest) := by
  constructor
  · intro h
    have := eacemLoop_gate cfg nuid now mem (mem.length + 1) mem { fire := now } (Zvbi.Gen.Trig.intMax : Int)
    unfold parseEacem at h
    rw [h] at this
    exact this
  · intro h
    have := atvefLoop_gate cfg mem (mem.length + 1) mem { fire := now }
    unfold parseAtvef at h
    rw [h] at this
    exact this
/-- `<http://a>[0000]`: the checksum does not verify, the trigger is dropped; the sum of the ten bytes is 0x7ee0+..., a
matching value is accepted -/
example : verifyChecksum [60, 104, 116, 116, 112, 58, 47, 47, 97, 62] 0 = false := by decide
example : verifyChecksum [60, 62] (0xFFFF - 0x3c3e) = true := by decide

/-- packet.c eacem_trigger(): the 24 x 40 characters and the NUL it writes over `pg.text` fit that array -/
theorem eacem_page_string_fits : Zvbi.Gen.Trig.pageChars + 1 ≤ Zvbi.Gen.Trig.pgTextBytes := by decide
example : Zvbi.Gen.Trig.pageChars = 960 := by decide
end Zvbi.Props.C01Trig
