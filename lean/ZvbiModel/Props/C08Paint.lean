import ZvbiModel.Cc.Paint3
import ZvbiModel.Cc.Fields
import ZvbiModel.Cc.PreMode
import ZvbiModel.Cc.Refine9
/-!
# C08, continued - corrections inside a row in paint-on, roll-up and text mode; the two fields

Property theorems only; lemmas are in `Cc/Paint1..3.lean` and `Cc/Fields.lean`.  Model `Cc/Model.lean`
(src/caption.c), reference `Cc/Spec.lean` (`Eia608`).  `hcell` / `dcell` = cell (row, column) of libzvbi's
working (non-displayed) and displayed memory.
-/
namespace Zvbi.Props.C08Paint
open Zvbi.Cc Zvbi.Gen.Cc

/-- **edm_clears_displayed, every mode.**  Erase Displayed Memory runs `eraseDisplayed` on channel `edmChan chan` (the
addressed channel, resp. - with the repair of finding F73, `edmEnmOnCaption` - always the caption channel of the data channel):
the displayed memory becomes blank and one caption event is raised; in pop-on mode the non-displayed memory is
untouched; in EVERY OTHER mode (paint-on, roll-up, text, none) libzvbi's working copy is blank as well, so the
next `update()` has nothing to bring back. -/
theorem edm_clears_displayed (s : St) (c1 c2 : Nat) (f2 : Bool) (h1 : c1 &&& 7 = 4 ∨ c1 &&& 7 = 5) (h2 : c2 < 0x40)
    (h3 : c2 &&& 15 = 12) :
    captionCommand s c1 c2 f2 = s.modCh (edmChan (cmdChan s c1 f2)) eraseDisplayed ∧
    ∀ ch, ChInv ch →
      (eraseDisplayed ch).displayed = List.replicate (rows * columns) ch.ts ∧
      (eraseDisplayed ch).nev = ch.nev + 1 ∧
      (ch.mode = .popOn → (eraseDisplayed ch).nonDisplayed = ch.nonDisplayed) ∧
      (ch.mode ≠ .popOn → (eraseDisplayed ch).nonDisplayed = List.replicate (rows * columns) ch.ts ∧
        (update (eraseDisplayed ch)).displayed = List.replicate (rows * columns) ch.ts) := by
  refine ⟨dispatch_edm s c1 c2 f2 h1 h2 h3, fun ch h => ?_⟩
  obtain ⟨e1, e2, _, e4, e5⟩ := eraseDisplayed_spec h
  refine ⟨e1, e2, e4, fun hm => ⟨e5 hm, ?_⟩⟩
  -- update copies a blank row over a blank row
  have hi := eraseDisplayed_inv h
  have uc := update_cells hi
  have ud := (update_upd hi).hidden
  apply List.ext_getElem?
  intro n
  by_cases hn : n < 510
  · obtain ⟨r, j, hr, hj, rfl⟩ : ∃ r j, r < 15 ∧ j < 34 ∧ n = r * 34 + j :=
      ⟨n / 34, n % 34, by omega, Nat.mod_lt _ (by decide), by omega⟩
    have hrep : (List.replicate (rows * columns) ch.ts)[r * 34 + j]? = some ch.ts := by
      rw [rows_eq, columns_eq, List.getElem?_replicate, if_pos (by omega)]
    have hc1 : (eraseDisplayed ch).dcell r j = some ch.ts := by rw [← displayed_get _ hr hj, e1, hrep]
    have hc2 : (eraseDisplayed ch).hcell r j = some ch.ts := by rw [← nonDisplayed_get _ hr hj, e5 hm, hrep]
    rw [displayed_get _ hr hj, uc.2 r j hj, hc1, hc2, hrep]
    split <;> rfl
  · have l1 : (update (eraseDisplayed ch)).displayed.length = 510 := by
      unfold Channel.displayed
      rw [List.length_take, pg_len (update_inv hi)]; rfl
    rw [List.getElem?_eq_none (by omega), List.getElem?_eq_none (by rw [List.length_replicate, rows_eq, columns_eq]; omega)]

/-- **the hidden working copy rule, over arbitrary continuations.**  Take any decoder state with the invariant,
an EDM pair acting on a channel (`edmChan (cmdChan ..)`) whose mode is not pop-on, and replace that channel's 15 x 34 caption cells - in
BOTH memories - by anything at all (`SameButCells`).  After the EDM the two decoder states are equal, hence every
continuation `ops` (byte pairs of both fields, fetches, channel switches) produces the same decoder state, the
same fetched pages and the same events: nothing written before an EDM can ever come back. -/
theorem edm_hidden_copy_rule (s : St) (hs : Inv s) (c1 c2 : Nat) (f2 : Bool) (h1 : c1 &&& 7 = 4 ∨ c1 &&& 7 = 5)
    (h2 : c2 < 0x40) (h3 : c2 &&& 15 = 12) (a b : Channel) (ha : s.chans[edmChan (cmdChan s c1 f2)]? = some a)
    (hb : ChInv b) (hab : SameButCells a b) (hm : a.mode ≠ .popOn) (ops : List Op) :
    ops.foldl step (captionCommand { s with chans := s.chans.set (edmChan (cmdChan s c1 f2)) b } c1 c2 f2) =
    ops.foldl step (captionCommand s c1 c2 f2) := by
  rw [dispatch_edm s c1 c2 f2 h1 h2 h3, dispatch_edm _ c1 c2 f2 h1 h2 h3]
  show ops.foldl step (({ s with chans := s.chans.set (edmChan (cmdChan s c1 f2)) b } : St).modCh (edmChan (cmdChan s c1 f2)) eraseDisplayed) = _
  rw [modCh_edm_forgets ha (hs.chs a (List.mem_of_getElem? ha)) hb hab hm]

set_option maxRecDepth 100000 in
/-- the hypotheses are met: T1 of the fresh decoder (text mode) and the same channel with one more cell written -/
example : ∃ a b : Channel, init.chans[4]? = some a ∧ ChInv b ∧ SameButCells a b ∧ a.mode ≠ .popOn :=
  ⟨init.chans[4]'(by rw [init_inv.len]; decide), wr (init.chans[4]'(by rw [init_inv.len]; decide)) 3 { unicode := 0x41 } "x",
   List.getElem?_eq_getElem _,
   (wr_upd (init_inv.chs _ (List.getElem_mem _)) (by decide) _ _).inv (init_inv.chs _ (List.getElem_mem _)),
   sameButCells_wr (init_inv.chs _ (List.getElem_mem _)) (by decide) _ _, by decide⟩

/-- **word_break_copies_only_current_row.**  `word_break(cc, ch, 1)` outside pop-on mode: in the working memory only
transparent spaces of the current row change, into space glyphs (the solid spaces); the displayed memory receives
exactly row `ch.row` of the working memory - every other row of the display is untouched; one caption event.
In pop-on mode nothing reaches the display. -/
theorem word_break_copies_only_current_row (ch : Channel) (h : ChInv ch) :
    SolidOnly ch (wordBreak ch false) ∧
    (ch.mode ≠ .popOn →
      (∀ r j, (wordBreak ch true).hcell r j = (wordBreak ch false).hcell r j) ∧
      (∀ r j, j < 34 → (wordBreak ch true).dcell r j =
        if r = ch.row then (wordBreak ch true).hcell r j else ch.dcell r j) ∧
      (wordBreak ch true).nev = ch.nev + 1) ∧
    (ch.mode = .popOn → wordBreak ch true = wordBreak ch false) := by
  refine ⟨wordBreak_false_solid h, fun hm => ?_, wordBreak_true_popOn h⟩
  obtain ⟨a, b, c, _⟩ := wordBreak_true_cells h hm
  refine ⟨a, fun r j hj => ?_, c⟩
  rw [b r j hj, a]

example : ChInv (init.chans[4]'(by rw [init_inv.len]; decide)) := init_inv.chs _ (List.getElem_mem _)

/-- **bs_cells.**  Backspace (0x14/0x15/0x1C/0x1D 0x21) runs `backspace`; with a mode and the cursor right of
column 1 the cell left of the cursor becomes a transparent space and the cursor moves onto it (`col1` follows),
every other cell of both memories, the event count, mode and pen are unchanged (the erasure shows with the next
word break). -/
theorem bs_cells (s : St) (c1 c2 : Nat) (f2 : Bool) (h1 : c1 &&& 7 = 4 ∨ c1 &&& 7 = 5) (h2 : c2 < 0x40) (h3 : c2 &&& 15 = 1) :
    captionCommand s c1 c2 f2 = s.modCh (cmdChan s c1 f2) (fun ch => backspace ch (cmdChan s c1 f2)) ∧
    ∀ ch chan, ChInv ch → ch.mode ≠ .none → 1 < ch.col →
      (backspace ch chan).col = ch.col - 1 ∧ (backspace ch chan).col1 = min ch.col1 (ch.col - 1) ∧
      (backspace ch chan).nev = ch.nev ∧
      (∀ r j, j < 34 → (backspace ch chan).hcell r j =
        if r = ch.row ∧ j = ch.col - 1 then some (transpSpace (decide (4 ≤ chan))) else ch.hcell r j) ∧
      (∀ r j, (backspace ch chan).dcell r j = ch.dcell r j) := by
  refine ⟨dispatch_bs s c1 c2 f2 h1 h2 h3, fun ch chan h hm hc => ?_⟩
  obtain ⟨b1, b2, _, b4, _, _, _, b8, b9⟩ := backspace_cells h chan hm hc
  exact ⟨b1, b2, b4, b8, b9⟩

/-- **der_cells.**  Delete to End of Row (.. 0x24) runs `deleteToEnd`; with a mode: every cell of the current row
from the cursor on shows no glyph afterwards, every other cell of the working memory is unchanged up to solid
spaces of the current row; outside pop-on mode the display receives the current row (only) and an event is raised. -/
theorem der_cells (s : St) (c1 c2 : Nat) (f2 : Bool) (h1 : c1 &&& 7 = 4 ∨ c1 &&& 7 = 5) (h2 : c2 < 0x40) (h3 : c2 &&& 15 = 4) :
    captionCommand s c1 c2 f2 = s.modCh (cmdChan s c1 f2) (fun ch => deleteToEnd ch (cmdChan s c1 f2)) ∧
    ∀ ch chan, ChInv ch → ch.mode ≠ .none →
      let x := fill ch ch.col (34 - ch.col) (transpSpace (decide (4 ≤ chan))) "der"
      (∀ r j, j < 34 → x.hcell r j =
        if r = ch.row ∧ ch.col ≤ j then some (transpSpace (decide (4 ≤ chan))) else ch.hcell r j) ∧
      SolidOnly x (wordBreak x false) ∧
      (∀ r j, (deleteToEnd ch chan).hcell r j = (wordBreak x false).hcell r j) ∧
      (ch.mode ≠ .popOn → (∀ r j, j < 34 → (deleteToEnd ch chan).dcell r j =
          if r = ch.row then (deleteToEnd ch chan).hcell r j else ch.dcell r j) ∧
        (deleteToEnd ch chan).nev = ch.nev + 1) := by
  refine ⟨dispatch_der s c1 c2 f2 h1 h2 h3, fun ch chan h hm => ?_⟩
  obtain ⟨d1, d2, d3, d4, _, _⟩ := deleteToEnd_cells h chan hm
  exact ⟨d1, d2, d3, d4⟩

/-- **tab_cells.**  Tab Offset (0x17/0x1F 0x21..0x23) runs `tabFill` with n = 1, 2, 3: the `k = min n (33 - col)`
cells from the cursor on become transparent spaces (libzvbi's tab is destructive, 15.119's is not - checks/C08.py
sends it over empty cells only), cursor and `col1` move behind them, nothing else changes. -/
theorem tab_cells (s : St) (c1 c2 : Nat) (f2 : Bool) (h1 : c1 &&& 7 = 7) (h2 : 0x21 ≤ c2 ∧ c2 ≤ 0x23) :
    captionCommand s c1 c2 f2 = s.modCh (cmdChan s c1 f2) (fun ch => case7 ch (cmdChan s c1 f2) c2) ∧
    ∀ ch chan, ChInv ch → ch.mode ≠ .none →
      case7 ch chan c2 = tabFill ch (c2 &&& 3) (transpSpace (decide (4 ≤ chan))) ∧
      (case7 ch chan c2).col = ch.col + min (c2 &&& 3) (33 - ch.col) ∧
      (∀ r j, j < 34 → (case7 ch chan c2).hcell r j =
        if r = ch.row ∧ ch.col ≤ j ∧ j < ch.col + min (c2 &&& 3) (33 - ch.col) then some (transpSpace (decide (4 ≤ chan)))
        else ch.hcell r j) ∧
      (∀ r j, (case7 ch chan c2).dcell r j = ch.dcell r j) ∧ (case7 ch chan c2).nev = ch.nev := by
  refine ⟨dispatch_c7 s c1 c2 f2 h1 (by omega), fun ch chan h hm => ?_⟩
  rw [case7_tab ch chan c2 hm h2]
  obtain ⟨t1, _⟩ := tabFill_spec h (c2 &&& 3) (transpSpace (decide (4 ≤ chan)))
  obtain ⟨k1, k2, k3, _⟩ := tabFill_cells h (c2 &&& 3) (transpSpace (decide (4 ≤ chan)))
  exact ⟨rfl, t1, k1, k2, k3⟩

/-! ## refinement of correction scripts -/

/-- **refines_Eia608_edits_partial** (widens `refines_Eia608_partial` / `refines_Eia608_scripts_painton` to
corrections inside a row, for paint-on, roll-up AND text mode).  Let a channel in a mode that writes through the
working copy (not pop-on, not none) be in relation `EditSim` with a reference service: same cursor, matching pen,
every reference cell shown exactly (glyph, colour, underline, italic, flash, opacity), every empty reference cell
showing no glyph, rows other than the cursor row already on display.  For EVERY script of characters 0x20..0x7F,
Backspace, Delete to End of Row, Erase Displayed Memory and Tab Offsets over empty cells (well-formedness `opsOk`
is judged on the reference state): the relation holds after every prefix, and after every prefix ending with a
space, DER or EDM - the visibility points - the DISPLAYED memory shows the reference display memory (`Visible`).
Partial: solid spaces are not pinned down (15.119 (d)(1) leaves them to the decoder; checks/C08.py compares these
scripts the same way), PAC / mid-row / special characters inside such a script are not covered here. -/
theorem refines_Eia608_edits_partial (chan : Nat) (ops : List EOp) (ch : Channel) (v : Eia608.Service)
    (S : EditSim ch v) (hok : opsOk v ops) :
    EditSim (runOps chan ch ops) (specOps v ops) ∧
    ∀ k, (hk0 : 0 < k) → (hk : k ≤ ops.length) → (ops[k - 1]'(by omega)).shows = true →
      Visible (runOps chan ch (ops.take k)) (specOps v (ops.take k)) :=
  edits_refine chan ops S hok

set_option maxRecDepth 100000 in
/-- a start state: T1 of the fresh decoder after EDM, against the fresh reference text service -/
example : EditSim (eraseDisplayed (init.chans[4]'(by rw [init_inv.len]; decide))) (Eia608.Service.init true) :=
  editSim_after_edm (init_inv.chs _ (List.getElem_mem _)) (by decide) (by decide) (by decide) (by decide) (by decide)
    (fun _ _ => rfl)

/-- a well-formed script: `A B <space> BS BS DER EDM C <space>` -/
example : opsOk (Eia608.Service.init true) [.char 0x41, .char 0x42, .char 0x20, .bs, .bs, .der, .edm, .char 0x43, .char 0x20] := by
  refine ⟨⟨by decide, by decide⟩, ⟨by decide, by decide⟩, ⟨by decide, by decide⟩, trivial, trivial, trivial, trivial,
    ⟨by decide, by decide⟩, ⟨by decide, by decide⟩, trivial⟩

/-! ## the two fields -/

/-- **fields_independent_full** (OPEN; FALSE with the shared `curr_chan` - `fields_independent_counterexample`, finding
F44): the channels of field `f` after any sequence of byte pairs are those obtained from the pairs of field `f` alone. -/
def fields_independent_full : Prop :=
  ∀ (ps : List (Bool × Nat × Nat)) (f : Bool) (i : Nat), i < 8 → (((i >>> 1) &&& 1 == 1) = f) →
    (runPairs ps).chans[i]? = (runPairs (ps.filter (fun p => p.1 == f))).chans[i]?

/-- **fields_independent_partial** (`channels_independent` across fields, for the tree with one current channel per
field - `currChanPerField`, read from the source by translate/gen_cc.py).  A byte pair of field `f` - any bytes, any
state - leaves everything the decoding of the OTHER field reads: its four channels (memories, cursor, mode, pen,
events), its current-channel selector, and the latch `last[]` (field 2 pairs) resp. the XDS gate (field 1 pairs).
What is missing for `fields_independent_full` is the converse congruence (a pair's effect on its own field depends
on nothing else), which holds by inspection of `decodePair` but is not proved. -/
theorem fields_independent_partial (hpf : currChanPerField = true) (s : St) (f : Bool) (b0 b1 : Nat) :
    (∀ i, i < 8 → (((i >>> 1) &&& 1 == 1) = !f) → (decodePair s f b0 b1).chans[i]? = s.chans[i]?) ∧
    (decodePair s f b0 b1).curr (!f) = s.curr (!f) ∧
    (f = true → (decodePair s f b0 b1).last0 = s.last0 ∧ (decodePair s f b0 b1).last1 = s.last1) ∧
    (f = false → (decodePair s f b0 b1).xds = s.xds) := by
  refine ⟨fun i hi hb => ?_, decodePair_other_curr hpf s f b0 b1, fun hf => by subst hf; exact decodePair_f2_last s b0 b1,
    fun hf => by subst hf; exact decodePair_f1_xds s b0 b1⟩
  have key : ∀ g < 4, ∀ i < 8, ∀ f : Bool, (((i >>> 1) &&& 1 == 1) = !f) → ((g >>> 1) &&& 1 == 1) = f → i ≠ g ∧ i ≠ g + 4 := by
    decide
  have hg : pairGroup s f b0 < 4 ∧ (((pairGroup s f b0) >>> 1) &&& 1 == 1) = f := by
    unfold pairGroup
    have : ∀ k < 2, ∀ f : Bool, (if f then 2 else 0) + k < 4 ∧ ((((if f then 2 else 0) + k) >>> 1) &&& 1 == 1) = f := by decide
    apply this
    split
    · have : ((b0 &&& 0x7F) >>> 3) &&& 1 ≤ 1 := Nat.and_le_right; omega
    · have : s.curr f &&& 1 ≤ 1 := Nat.and_le_right; omega
  obtain ⟨n1, n2⟩ := key _ hg.1 i hi f hb hg.2
  exact decodePair_untouched s f b0 b1 i n1 n2

example : (decodePair init true 0x1C 0x20).chans[0]? = init.chans[0]? := by
  apply decodePair_untouched <;> decide

/-- **chars_before_mode_discarded** (the initial state of `fields_independent`: `curr_chan[] = {0, 0}`).  On a decoder that
has been fed ANY history in which field `f` executed no control pair - pairs of the other field without restriction (its
services may be active in any mode), characters / NUL pairs / bad-parity pairs / 0x01..0x0F pairs of field `f`, page
fetches - the selector `curr_chan[f]` is still 0, the channel the character branch looks up,
`(curr_chan[f] & 5) + 2 f` = CC1 resp. CC3, has no mode, and a further pair of field `f` that is not an executed control
pair is DISCARDED: every one of the nine channels keeps its memories, cursor, mode, pen and event count (only `nul_ct` of
CC1 / CC3 may be reset).  In particular field-2 characters before the first field-2 mode command never reach CC1 (seed
C08-e indexes `channel[curr_chan[1]]` = CC1 there; the model indexes as the C expression does, `textIdx`).
Needs the per-field selector (`currChanPerField`, a generated fact).  Channel switches inside the history are not covered
by this theorem (class `premode` of checks/C08.py tests them; with `chswResetsCurr` the selectors return to 0). -/
theorem chars_before_mode_discarded (hpf : currChanPerField = true) (f : Bool) (ops : List Op)
    (hq : ∀ op ∈ ops, quiet f op) (b0 b1 : Nat) (hn : isControl b0 = false) :
    (run ops).curr f = 0 ∧ textIdx (run ops) f = capIdx f ∧
    (∃ ch, (run ops).chans[capIdx f]? = some ch ∧ ch.mode = .none) ∧
    ∀ i ch, (run ops).chans[i]? = some ch →
      (decodePair (run ops) f b0 b1).chans[i]? = some ch ∨
      (i = capIdx f ∧ (decodePair (run ops) f b0 b1).chans[i]? = some { ch with nulCt := 0 }) := by
  have P : PreMode f (run ops) := foldl_premode hpf f ops hq init (init_premode f)
  obtain ⟨c, hc, hm⟩ := P.none
  refine ⟨P.cur, textIdx_of_cur P.cur, ⟨c, hc, hm⟩, fun i ch hi => ?_⟩
  have := (decodePair_premode (run ops) f b0 b1 hn (ch := c) (by rw [textIdx_of_cur P.cur]; exact hc) hm).2 i
  rcases this with e | ⟨e1, e2⟩
  · left; rw [e]; exact hi
  · right
    rw [textIdx_of_cur P.cur] at e1
    have : ch = c := by rw [e1, hc] at hi; exact (Option.some.inj hi).symm
    subst this
    exact ⟨e1, e2⟩

/-- a history that keeps field 2 silent: CC1 is put into roll-up mode and receives text, field 2 sends characters -/
example : ∀ op ∈ [Op.pair false 0x94 0x25, .pair false 0x94 0x25, .pair false 0xC1 0xC2, .pair true 0xC1 0xC2, .fetch 1],
    quiet true op := by
  intro op h
  simp only [List.mem_cons, List.not_mem_nil, or_false] at h
  rcases h with rfl | rfl | rfl | rfl | rfl
  · exact fun h => absurd h (by decide)
  · exact fun h => absurd h (by decide)
  · exact fun h => absurd h (by decide)
  · exact fun _ => by decide
  · trivial

/-- witness of finding F44: RCL for CC1 (field 1, sent twice), RCL for CC4 on field 2, then `AB` on field 1 -/
def f44Witness : List (Bool × Nat × Nat) :=
  [(false, 0x94, 0x20), (false, 0x94, 0x20), (true, 0x1C, 0x20), (false, 0xC1, 0xC2)]

set_option maxRecDepth 1000000 in
/-- **fields_independent_counterexample** (finding F44).  With ONE `curr_chan` for both fields the field-2 command
redirects the field-1 characters to CC2: CC1's working memory stays empty, while the field-1 pairs alone put `A` into
row 15 column 1.  Replayed on the C code by corpus/C08/f18-cross-field-routing.ops. -/
theorem fields_independent_counterexample (hflag : currChanPerField = false) : ¬ fields_independent_full := by
  intro h
  have h1 := h f44Witness false 0 (by decide) (by decide)
  have h3 : currChanPerField = false →
      (runPairs f44Witness).chans[0]?.map (fun c => c.hcell 14 1) ≠
      (runPairs (f44Witness.filter (fun p => p.1 == false))).chans[0]?.map (fun c => c.hcell 14 1) := by decide
  exact h3 hflag (by rw [h1])

end Zvbi.Props.C08Paint
