import ZvbiModel.Pdc.LemmasErrno
/-!
# C14, round 5 - the error kind (errno) of the PIL -> time functions

`ZvbiModel/Pdc/Errno.lean` gives `valid_pil_lto_to_time` the result type `Except Err Int`
(`Err` = invalidPil | noTime | overflow | noMem, the value the C code leaves in errno) and models errno
after `valid_pil_lto_validity_window`, `localtime_tz` and the public 0.2 functions.  Theorems:
the errno model refines the value model of `Model.lean` (so every theorem of `Props/C14.lean` speaks
about it), each error kind has exactly the documented cause, and the two guards whose mutants
survive are unreachable for a 64-bit time_t.
-/
namespace Zvbi.Props.C14
open Zvbi.Pdc

/-- lto_error_refines: `valid_pil_lto_to_time` with the error kind (`Except Err Int`) and the value model
of `Model.lean` are the same function once the kind is forgotten - same value, same world - so
`lto_conversion`, `result_representable`, `valid_representable_succeeds` ... speak about it. -/
theorem lto_error_refines (cfg : Cfg) (L : Libc) (w : World) (pil : Nat) (start east : Int) :
    toLtoRes (validPilLtoToTimeE cfg L w pil start east).1 = (validPilLtoToTime cfg L w pil start east).1
    ∧ (validPilLtoToTimeE cfg L w pil start east).2 = (validPilLtoToTime cfg L w pil start east).2 := by
  unfold validPilLtoToTimeE validPilLtoToTime
  rcases hs : startOrNow L w start with ⟨s, w1⟩
  simp only
  by_cases h1 : s = -1
  · simp [h1, toLtoRes]
  · simp only [h1, if_false]
    by_cases hg : guardIn cfg s east = true
    · simp [hg, toLtoRes]
    · simp only [hg]
      rcases hc : w1.call L .gmtime with ⟨f, w2⟩
      simp only
      cases hz : (if f = true then none else utcZone.toLocal (s + east)) with
      | none => simp [toLtoRes]
      | some tm0 =>
        simp only
        exact ⟨(ltoFromTmE_refines cfg L w2 tm0 pil east).1, (ltoFromTmE_refines cfg L w2 tm0 pil east).2.1⟩

example : toLtoRes (validPilLtoToTimeE Generated.cfg { fails := fun _ _ => false, now := 0, zoneOf := fun _ => utcZone }
    { env := none, libc := none, heap := 0, restoreFailed := false, calls := fun _ => 0 }
    (mkPil 6 15 12 30) 1000000000 3600).1 = .ok 992604600 := by decide

/-- no_time_kind: the conversion fails with VBI_ERR_NO_TIME exactly when it was asked to use the system
time (`start` = (time_t) -1) and `time()` failed (or returned (time_t) -1); nothing else is touched. -/
theorem no_time_kind (cfg : Cfg) (L : Libc) (w : World) (pil : Nat) (start east : Int) :
    (validPilLtoToTimeE cfg L w pil start east).1 = .error .noTime
    ↔ (start = -1 ∧ (L.fails .time (w.calls .time + 1) = true ∨ L.now = -1)) := by
  unfold validPilLtoToTimeE
  rcases hs : startOrNow L w start with ⟨s, w1⟩
  simp only
  have hsn : s = -1 ↔ (start = -1 ∧ (L.fails .time (w.calls .time + 1) = true ∨ L.now = -1)) := by
    unfold startOrNow at hs
    by_cases hst : start = -1
    · simp only [hst, if_true, World.call, Prod.mk.injEq] at hs
      obtain ⟨hs1, _⟩ := hs
      rw [← hs1]
      by_cases hf : L.fails Site.time (w.calls Site.time + 1) = true
      · simp [hf, hst]
      · simp [hf, hst]
    · simp only [hst, if_false, Prod.mk.injEq] at hs
      obtain ⟨hs1, _⟩ := hs
      rw [← hs1]; simp [hst]
  by_cases h1 : s = -1
  · simp only [h1, if_true]
    exact ⟨fun _ => hsn.1 h1, fun _ => by first | rfl | trivial⟩
  · simp only [h1, if_false]
    refine ⟨fun h => ?_, fun h => absurd (hsn.2 h) h1⟩
    exfalso
    by_cases hg : guardIn cfg s east = true
    · simp [hg] at h
    · simp only [hg] at h
      rcases hc : w1.call L .gmtime with ⟨f, w2⟩
      rw [hc] at h
      simp only at h
      cases hz : (if f = true then none else utcZone.toLocal (s + east)) with
      | none => rw [hz] at h; simp at h
      | some tm0 =>
        rw [hz] at h
        simp only at h
        exact (ltoFromTmE_refines cfg L w2 tm0 pil east).2.2 h

example : errnoOf (validPilLtoToTimeE Generated.cfg { fails := fun s k => s == .time && k == 1, now := 0, zoneOf := fun _ => utcZone }
    { env := none, libc := none, heap := 0, restoreFailed := false, calls := fun _ => 0 }
    (mkPil 6 15 12 30) (-1) 3600).1 = Err.noTime.toErrno := by decide

/-- overflow_kind: a reference time that cannot be moved by the offset without leaving time_t fails with
EOVERFLOW before any libc call - near TIME_MAX for offsets east of UTC, near TIME_MIN for offsets west
(guards as in the current source, `cfg.epochIn = false`). -/
theorem overflow_kind (cfg : Cfg) (L : Libc) (w : World) (pil : Nat) (start east : Int)
    (hin : cfg.epochIn = false) (hs : start ≠ -1)
    (h : (0 ≤ east ∧ TIME_MAX < start + east) ∨ (east < 0 ∧ start + east < TIME_MIN)) :
    validPilLtoToTimeE cfg L w pil start east = (.error .overflow, w) := by
  unfold validPilLtoToTimeE startOrNow
  simp only [hs, if_false]
  have hg : guardIn cfg start east = true := by
    unfold guardIn
    rcases h with ⟨h0, h1⟩ | ⟨h0, h1⟩
    · have : ¬ east < 0 := by omega
      simp only [this, if_false]; simp; omega
    · simp only [h0, if_true, hin]; simp; omega
  simp [hg]

example : validPilLtoToTimeE Generated.cfg { fails := fun _ _ => false, now := 0, zoneOf := fun _ => utcZone }
    { env := none, libc := none, heap := 0, restoreFailed := false, calls := fun _ => 0 }
    (mkPil 6 15 12 30) TIME_MAX 1 = (.error .overflow, { env := none, libc := none, heap := 0, restoreFailed := false, calls := fun _ => 0 })
  ∧ (validPilLtoToTimeE Generated.cfg { fails := fun _ _ => false, now := 0, zoneOf := fun _ => utcZone }
    { env := none, libc := none, heap := 0, restoreFailed := false, calls := fun _ => 0 }
    (mkPil 6 15 12 30) TIME_MIN (-1)).1 = .error .overflow :=
  ⟨overflow_kind _ _ _ _ _ _ rfl (by decide) (Or.inl (by decide)), by
    rw [overflow_kind _ _ _ _ _ _ rfl (by decide) (Or.inr (by decide))]⟩

/-- invalid_pil_kind: VBI_ERR_INVALID_PIL is reported for exactly one reason: the date picked by the
nearest-year rule fails the leap-day check (29 February of a non-leap year). -/
theorem invalid_pil_kind (cfg : Cfg) (L : Libc) (w : World) (pil : Nat) (start east : Int)
    (h : (validPilLtoToTimeE cfg L w pil start east).1 = .error .invalidPil) :
    ∃ tm0 tm1, utcZone.toLocal (refTime L start + east) = some tm0 ∧ tmMonMdayFromPil tm0 pil = some tm1
      ∧ tmLeapDayCheck tm1 = false := by
  have href := lto_error_refines cfg L w pil start east
  rw [h] at href
  have hold : (validPilLtoToTime cfg L w pil start east).1 = .invalidPil := href.1.symm
  unfold validPilLtoToTime at hold
  dsimp only at hold
  have hsv := startOrNow_val L w start
  rcases hs : startOrNow L w start with ⟨s, w1⟩
  rw [hs] at hold hsv
  simp only at hold hsv
  by_cases h1 : s = -1
  · simp [h1] at hold
  · simp only [h1, if_false] at hold
    by_cases hg : guardIn cfg s east = true
    · simp [hg] at hold
    · simp only [hg] at hold
      rcases hc : w1.call L .gmtime with ⟨f, w2⟩
      rw [hc] at hold
      simp only at hold
      cases hz : (if f = true then none else utcZone.toLocal (s + east)) with
      | none => rw [hz] at hold; simp at hold
      | some tm0 =>
        rw [hz] at hold
        simp only at hold
        have hz' : utcZone.toLocal (s + east) = some tm0 := by
          by_cases hf : f = true
          · simp [hf] at hz
          · simpa [hf] using hz
        have hse : s = refTime L start := hsv h1
        unfold ltoFromTm at hold
        cases hmm : tmMonMdayFromPil tm0 pil with
        | none => rw [hmm] at hold; simp at hold
        | some tm1 =>
          rw [hmm] at hold
          simp only at hold
          by_cases hl : tmLeapDayCheck tm1 = true
          · exfalso
            simp only [hl, Bool.not_true] at hold
            rcases hV : vbiTimegm cfg L w2 { tm1 with hour := (pilHour pil : Int), min := (pilMinute pil : Int), sec := 0 } with ⟨rV, wV⟩
            rw [hV] at hold
            simp only at hold
            by_cases hr1 : rV = -1
            · simp [hr1] at hold
            · by_cases hg2 : guardOut cfg rV east = true
              · simp [hr1, hg2] at hold
              · simp [hr1, hg2] at hold
          · exact ⟨tm0, tm1, hse ▸ hz', hmm, by simpa using hl⟩

example : toLtoRes (validPilLtoToTimeE Generated.cfg { fails := fun _ _ => false, now := 0, zoneOf := fun _ => utcZone }
    { env := none, libc := none, heap := 0, restoreFailed := false, calls := fun _ => 0 }
    (mkPil 2 29 12 30) 1000000000 0).1 = .invalidPil := by decide

/-- guards_dead: for a 64-bit time_t the second pair of guards of `valid_pil_lto_to_time`
(pdc.c:688-700, `start < TIME_MIN + seconds_east` / `start > TIME_MAX + seconds_east`) and both guards of
`valid_pil_lto_validity_window` can never fire: the value `timegm` returns for a valid civil time with an
`int` year is within +-7*10^16 s and the offset is an `int`.  (Mutants of these statements, e.g.
`return (time_t) -0`, are equivalent; the statements matter for a 32-bit time_t only.) -/
theorem guards_dead (cfg : Cfg) (tm : Tm) (east : Int) (hout : cfg.epochOut = false) (hwin : cfg.epochWin = false)
    (hv : tm.validCivil) (hy0 : INT_MIN ≤ tm.year) (hy1 : tm.year ≤ INT_MAX) (he0 : INT_MIN ≤ east) (he1 : east ≤ INT_MAX) :
    guardOut cfg (secsFromTm tm) east = false
    ∧ ¬ (secsFromTm tm - east > TIME_MAX - 28 * 60 * 60)
    ∧ guardWin cfg (secsFromTm tm - east) = false := by
  obtain ⟨b0, b1⟩ := secsFromTm_bound tm hv hy0 hy1
  unfold INT_MIN at he0; unfold INT_MAX at he1
  refine ⟨?_, ?_, ?_⟩
  · unfold guardOut TIME_MIN TIME_MAX
    split
    · simp only [hout]; simp; omega
    · simp; omega
  · unfold TIME_MAX; omega
  · unfold guardWin TIME_MIN
    simp only [hwin]; simp; omega

/-- window_error_kinds: `valid_pil_lto_validity_window` computes the window of the value model
(`validPilLtoValidityWindow`) and the same world; it answers with the indefinite window exactly when the
conversion of the PIL's day failed with VBI_ERR_INVALID_PIL - every other error kind is FALSE, and errno
still names the kind. -/
theorem window_error_kinds (cfg : Cfg) (L : Libc) (w : World) (pil : Nat) (start east : Int) :
    (validPilLtoValidityWindowE cfg L w pil start east).1 = (validPilLtoValidityWindow cfg L w pil start east).1
    ∧ (validPilLtoValidityWindowE cfg L w pil start east).2.2 = (validPilLtoValidityWindow cfg L w pil start east).2
    ∧ (∀ k, (validPilLtoToTimeE cfg L w (pil &&& mkPil 15 31 0 0) start east).1 = .error k →
        (validPilLtoValidityWindowE cfg L w pil start east).2.1 = k.toErrno
        ∧ ((validPilLtoValidityWindowE cfg L w pil start east).1 = some (TIME_MIN, TIME_MAX) ↔ k = .invalidPil)
        ∧ (k ≠ .invalidPil → (validPilLtoValidityWindowE cfg L w pil start east).1 = none)) := by
  obtain ⟨hr, hw⟩ := lto_error_refines cfg L w (pil &&& mkPil 15 31 0 0) start east
  unfold validPilLtoValidityWindowE validPilLtoValidityWindow
  rcases hE : validPilLtoToTimeE cfg L w (pil &&& mkPil 15 31 0 0) start east with ⟨rE, wE⟩
  rcases hV : validPilLtoToTime cfg L w (pil &&& mkPil 15 31 0 0) start east with ⟨rV, wV⟩
  rw [hE, hV] at hr hw
  simp only at hr hw
  subst hw
  subst hr
  cases rE with
  | ok t =>
    simp only [toLtoRes]
    refine ⟨?_, ?_, fun k hk => by cases hk⟩
    · split <;> (try rfl)
      split <;> (try rfl)
      split <;> (try rfl)
      split <;> rfl
    · split <;> (try rfl)
      split <;> (try rfl)
      split <;> (try rfl)
      split <;> rfl
  | error k =>
    cases k <;> simp [toLtoRes]

example : (validPilLtoValidityWindowE Generated.cfg { fails := fun _ _ => false, now := 0, zoneOf := fun _ => utcZone }
    { env := none, libc := none, heap := 0, restoreFailed := false, calls := fun _ => 0 }
    (mkPil 2 29 12 30) 1000000000 0).1 = some (TIME_MIN, TIME_MAX) := by decide

/-- localtime_tz_kinds: `localtime_tz` leaves errno = 0 exactly when it returns TRUE; a failure names its
cause: ENOMEM (the TZ switch or its restoring failed), VBI_ERR_NO_TIME (no system time) or EOVERFLOW
(`localtime_r`). -/
theorem localtime_tz_kinds (L : Libc) (w : World) (t : Int) (tz : Option String) :
    ((localtimeTz L w t tz).1.isSome ↔ localtimeTzErrno L w t tz = 0)
    ∧ (localtimeTzErrno L w t tz = 0 ∨ localtimeTzErrno L w t tz = Err.noMem.toErrno
       ∨ localtimeTzErrno L w t tz = Err.noTime.toErrno ∨ localtimeTzErrno L w t tz = Err.overflow.toErrno) := by
  have rest : ∀ (w : World) (old : Option String) (g : Bool),
      ((localtimeTzRest L w t old g).1.isSome ↔ localtimeTzRestErrno L w t old g = 0)
      ∧ (localtimeTzRestErrno L w t old g = 0 ∨ localtimeTzRestErrno L w t old g = Err.noMem.toErrno
         ∨ localtimeTzRestErrno L w t old g = Err.noTime.toErrno ∨ localtimeTzRestErrno L w t old g = Err.overflow.toErrno) := by
    intro w old g
    unfold localtimeTzRest localtimeTzRestErrno
    rcases hs : startOrNow L w t with ⟨s, w1⟩
    simp only
    by_cases h1 : s = -1
    · simp only [h1, if_true]
      rcases hr : restoreTz L w1 old g with ⟨rok, w2⟩
      cases rok <;> simp [Err.toErrno, Generated.eNoMem, Generated.errNoTime]
    · simp only [h1, if_false]
      rcases hc : w1.call L .localtime with ⟨f, w2⟩
      simp only
      cases hz : (if f = true then none else (L.zoneOf w2.libc).toLocal s) with
      | none =>
        simp only
        rcases hr : restoreTz L w2 old g with ⟨rok, w3⟩
        cases rok <;> simp [Err.toErrno, Generated.eNoMem, Generated.eOverflow]
      | some tm => simp
  unfold localtimeTz localtimeTzErrno
  cases tz with
  | none => exact rest w none false
  | some z =>
    simp only
    rcases hct : changeTz L w z with ⟨ok, old, w1⟩
    cases ok
    · simp [Err.toErrno, Generated.eNoMem]
    · simpa using rest w1 old true

/-- pty_errno: after the public `vbi_pty_validity_window` errno is 0, with one exception the code has: when
`mktime` failed and then the restoring `setenv` failed too, the function returns FALSE without the reset and
errno is ENOMEM. -/
theorem pty_errno (L : Libc) (w : World) (t : Int) (tz : Option String) :
    vbiPtyValidityWindowErrno L w t tz = 0
    ∨ (vbiPtyValidityWindowErrno L w t tz = Err.noMem.toErrno ∧ (vbiPtyValidityWindow L w t tz).1 = none) := by
  unfold vbiPtyValidityWindowErrno vbiPtyValidityWindow
  by_cases hu : tz = some "UTC"
  · simp [hu]
  · simp only [hu, if_false]
    rcases hl : localtimeTz L w t tz with ⟨otm, old, w1⟩
    cases otm with
    | none => simp
    | some tm =>
      simp only
      unfold ptyFromTm
      simp only
      rcases hm : vbiMktime L w1 { tm with mday := tm.mday + (4 * 7 + 1), hour := 4, min := 0, sec := 0, isdst := -1 } with ⟨stop, w2⟩
      simp only
      by_cases hs : stop = -1
      · simp only [hs, if_true]
        rcases hr : restoreTz L w2 old tz.isSome with ⟨rok, w3⟩
        cases rok <;> simp
      · simp [hs]

example : vbiPtyValidityWindowErrno { fails := fun s k => (s == .mktime && k == 1) || (s == .setenv && k == 2), now := 0, zoneOf := fun _ => fixedZone 3600 }
    { env := some "BBB+5", libc := some "BBB+5", heap := 0, restoreFailed := false, calls := fun _ => 0 }
    1000000000 (some "AAA-1") = Err.noMem.toErrno := by decide

/-- invalid_fails_kind (`invalid_fails` with the error kind): a PIL without a real date or time makes both
public conversions return (time_t) -1 before any libc call, with errno 0 in the 0.2 API
(VBI_ERR_INVALID_PIL is compiled for `VBI_VERSION_MINOR == 3` only); inside the library the kind
`invalidPil` has a single source, the leap-day check (`invalid_pil_kind`), and it is what turns a refused
conversion into the indefinite window (`window_error_kinds`). -/
theorem invalid_fails_kind (cfg : Cfg) (L : Libc) (w : World) (pil : Nat) (start east : Int) (tz : Option String)
    (h : pilIsValidDate pil = false) :
    vbiPilLtoToTime cfg L w pil start east = (-1, w) ∧ vbiPilToTime cfg L w pil start tz = (-1, w)
    ∧ convErrno = 0 ∧ Err.invalidPil.toErrno = Generated.errNoTime + 1 := by
  refine ⟨?_, ?_, rfl, by decide⟩
  · unfold vbiPilLtoToTime; simp [h]
  · unfold vbiPilToTime; simp [h]

example : pilIsValidDate (mkPil 2 30 0 0) = false ∧ pilIsValidDate (mkPil 6 15 24 0) = false := by decide

/-- public_errno: the 0.2 API (`VBI_VERSION_MINOR` = 2, regenerated) resets errno: 0 after every
conversion; after a window function 0, or the value it had before the call (`e0`) when the PIL's class
alone decides (indefinite window, no libc call). -/
theorem public_errno (pil : Nat) (e0 : Int) :
    convErrno = 0 ∧ Generated.versionMinor = 2
    ∧ (classifyPil pil = .indefinite → winErrno pil e0 = e0)
    ∧ (classifyPil pil ≠ .indefinite → winErrno pil e0 = 0) := by
  refine ⟨rfl, rfl, ?_, ?_⟩
  · intro h; unfold winErrno; rw [h]
  · intro h; unfold winErrno
    cases hc : classifyPil pil <;> simp_all

end Zvbi.Props.C14
