import ZvbiModel.Cc.LangLemmas
import ZvbiModel.Cc.Model
/-!
# C08, continued - `vbi_caption_unicode()` of src/lang.c against the character tables of the standard

Property theorems only.  Model `Cc/Lang.lean` (the function statement by statement; tables, comparison constants,
channel-bit mask and index offsets regenerated from lang.c by translate/gen_cclang.py on every run), reference
`Cc/SpecChars.lean` (`Eia608.Chars`: the repertoire of 47 CFR 15.119 (g) and EIA-608-B 6.4.2 typed as characters).
All `decide`s below run over the COMPLETE finite domain named in the statement.
-/
namespace Zvbi.Props.C08Lang
open Zvbi.Cc Zvbi.Gen.CcLang Zvbi.Eia608

/-- **caption_unicode_in_bounds.**  For EVERY argument `c` (not only 32-bit ones) and both values of `to_upper` no
table of lang.c is indexed outside its declared extent and no unsigned index subtraction wraps: each `return
table[c - off][to_upper]` is guarded by comparisons that put `c - off` inside the table (the comparison constants,
the offsets and the extents are all read from the source). -/
theorem caption_unicode_in_bounds (c : Nat) (up : Bool) : (Lang.captionUnicode c up).isSome = true := by
  have l1 : capBasic.length = 96 := by decide
  have l2 : capSpecial.length = 16 := by decide
  have l3 : capExt2.length = 32 := by decide
  have l4 : capExt3.length = 32 := by decide
  have e : basicHi = 128 ∧ basicLo = 32 ∧ basicOff = 32 ∧ splitHi = 4672 ∧ specialHi = 4416 ∧ specialLo = 4400 ∧
      specialOff = 4400 ∧ ext2Lo = 4640 ∧ ext2Off = 4640 ∧ ext3Hi = 4928 ∧ ext3Lo = 4896 ∧ ext3Off = 4896 := by decide
  obtain ⟨e1, e2, e3, e4, e5, e6, e7, e8, e9, e10, e11, e12⟩ := e
  unfold Lang.captionUnicode
  simp only []
  generalize Lang.clearMask c = m
  by_cases h1 : c < basicHi
  · rw [if_pos h1]
    by_cases h2 : c ≥ basicLo
    · rw [if_pos h2]; apply Lang.look_isSome <;> omega
    · rw [if_neg h2]; rfl
  · rw [if_neg h1]
    by_cases h3 : m < splitHi
    · rw [if_pos h3]
      by_cases h4 : m < specialHi ∧ m ≥ specialLo
      · rw [if_pos h4]; apply Lang.look_isSome <;> omega
      · rw [if_neg h4]
        by_cases h5 : m ≥ ext2Lo
        · rw [if_pos h5]; apply Lang.look_isSome <;> omega
        · rw [if_neg h5]; rfl
    · rw [if_neg h3]
      by_cases h6 : m < ext3Hi ∧ m ≥ ext3Lo
      · rw [if_pos h6]; apply Lang.look_isSome <;> omega
      · rw [if_neg h6]; rfl

example : Lang.captionUnicode 0x41 false = some 0x41 ∧ Lang.captionUnicode 0x1137 false = some 0x266A ∧
    Lang.captionUnicode 0x1A25 true = some 0xDC ∧ Lang.captionUnicode 0x1B3F false = some 0x2518 := by decide

/-- **caption_unicode_standard.**  Every printable code maps to the character the standard's chart shows:
(1) basic set: each single byte 0x20..0x7F (15.119 (g), ASCII with ten substitutions);
(2) every two-byte code `c1 c2` (first byte without parity below 0x20, second below 0x80) that the standard assigns a
    special character (0x11/0x19 0x30..0x3F) or an extended character (0x12/0x1A, 0x13/0x1B 0x20..0x3F), for both values
    of the channel bit - with the ONE exception of 0x12/0x1A 0x2A, see `caption_unicode_em_dash`;
(3) every other two-byte code with a first byte 0x01..0x1F gives 0 ("not a character").
`c1 c2` is passed as `c1 << 8 | c2`, as caption.c and cc608_decoder.c do. -/
theorem caption_unicode_standard :
    (∀ c < 0x80, 0x20 ≤ c → Lang.captionUnicode c false = some (Chars.basic c)) ∧
    (∀ c1 < 0x20, ∀ c2 < 0x80, ∀ u, Chars.ofPair c1 c2 = some u → ¬ (c1 &&& 0x77 = 0x12 ∧ c2 = 0x2A) →
      Lang.captionUnicode ((c1 <<< 8) ||| c2) false = some u) ∧
    (∀ c1 < 0x20, ∀ c2 < 0x80, 1 ≤ c1 → Chars.ofPair c1 c2 = none →
      Lang.captionUnicode ((c1 <<< 8) ||| c2) false = some 0) := by
  refine ⟨by decide +kernel, ?_, by decide +kernel⟩
  have : ∀ c1 < 0x20, ∀ c2 < 0x80, ¬ (c1 &&& 0x77 = 0x12 ∧ c2 = 0x2A) →
      Chars.ofPair c1 c2 = none ∨ Chars.ofPair c1 c2 = Lang.captionUnicode ((c1 <<< 8) ||| c2) false := by decide +kernel
  intro c1 h1 c2 h2 u hu hn
  rcases this c1 h1 c2 h2 hn with e | e
  · rw [e] at hu; cases hu
  · rw [← e, hu]

/-- the three classes of (2)/(3) are inhabited: a special character, an extended character on the second channel, a
non-character -/
example : Chars.ofPair 0x11 0x37 = some 0x266A ∧ Chars.ofPair 0x1B 0x34 = some 0xDF ∧ Chars.ofPair 0x14 0x2C = none := by
  decide

/-- **caption_unicode_em_dash** (deviation, cosmetic).  For 0x12 0x2A - "em dash" in EIA-608-B 6.4.2 - lang.c returns
U+2500 BOX DRAWINGS LIGHT HORIZONTAL (its comment: "Em dash (for box drawing)": the cell is meant to join the corner
pieces 0x13 0x3C..0x3F, which lang.c maps to U+250C.. as the reference does), the reference U+2014 EM DASH.  The two
differ in text export / search, not visibly on screen.  This is the only cell where the tables differ. -/
theorem caption_unicode_em_dash :
    Lang.captionUnicode 0x122A false = some 0x2500 ∧ Lang.captionUnicode 0x1A2A false = some 0x2500 ∧
    Chars.ofPair 0x12 0x2A = some 0x2014 := by decide

/-- **caption_unicode_upper.**  The `to_upper` column is the upper-casing of the other column: for EVERY argument `c` the
result with `to_upper` is the Latin-1 upper case of the result without (a..z and the accented letters 0xE0..0xFE except
the division sign move down by 0x20, everything else - digits, symbols, sharp s, capital letters, box drawing, the
"not a character" 0 - stays).  From the same fact about each of the 176 table rows (complete `decide`). -/
theorem caption_unicode_upper (c : Nat) :
    Lang.captionUnicode c true = (Lang.captionUnicode c false).map Chars.upper := by
  have t1 : ∀ p ∈ capBasic, p.2 = Chars.upper p.1 := by decide
  have t2 : ∀ p ∈ capSpecial, p.2 = Chars.upper p.1 := by decide
  have t3 : ∀ p ∈ capExt2, p.2 = Chars.upper p.1 := by decide
  have t4 : ∀ p ∈ capExt3, p.2 = Chars.upper p.1 := by decide
  unfold Lang.captionUnicode
  simp only []
  generalize Lang.clearMask c = m
  by_cases h1 : c < basicHi
  · rw [if_pos h1, if_pos h1]
    by_cases h2 : c ≥ basicLo
    · rw [if_pos h2, if_pos h2]; exact Lang.look_upper capBasic t1 _ _
    · rw [if_neg h2, if_neg h2]; rfl
  · rw [if_neg h1, if_neg h1]
    by_cases h3 : m < splitHi
    · rw [if_pos h3, if_pos h3]
      by_cases h4 : m < specialHi ∧ m ≥ specialLo
      · rw [if_pos h4, if_pos h4]; exact Lang.look_upper capSpecial t2 _ _
      · rw [if_neg h4, if_neg h4]
        by_cases h5 : m ≥ ext2Lo
        · rw [if_pos h5, if_pos h5]; exact Lang.look_upper capExt2 t3 _ _
        · rw [if_neg h5, if_neg h5]; rfl
    · rw [if_neg h3, if_neg h3]
      by_cases h6 : m < ext3Hi ∧ m ≥ ext3Lo
      · rw [if_pos h6, if_pos h6]; exact Lang.look_upper capExt3 t4 _ _
      · rw [if_neg h6, if_neg h6]; rfl

example : Lang.captionUnicode 0x1225 false = some 0xFC ∧ Lang.captionUnicode 0x1225 true = some 0xDC := by decide

/-- **caption_unicode_channel_bit.**  Bit 3 of the first byte (the data channel; bit 11 of the code) does not select
the character: for every two-byte code with a first byte 0x10..0x1F and a 7-bit second byte, and both columns, the
result is the same with the bit flipped. -/
theorem caption_unicode_channel_bit :
    ∀ c1 < 0x20, 0x10 ≤ c1 → ∀ c2 < 0x80, ∀ up : Bool,
      Lang.captionUnicode (((c1 ^^^ 8) <<< 8) ||| c2) up = Lang.captionUnicode ((c1 <<< 8) ||| c2) up := by
  decide +kernel

example : Lang.captionUnicode 0x1A25 false = Lang.captionUnicode 0x1225 false := by decide

/-- **decoder_uses_caption_unicode.**  The function the caption decoder model calls (`Cc.captionUnicode`, built on the
tables of `Generated/CcConsts.lean`) is `vbi_caption_unicode (c, FALSE)` on the two ranges caption.c passes: a data byte
0x20..0x7F and `0x1130 | (c2 & 15)`. -/
theorem decoder_uses_caption_unicode :
    (∀ c < 0x80, 0x20 ≤ c → some (Cc.captionUnicode c) = Lang.captionUnicode c false) ∧
    (∀ k < 16, some (Cc.captionUnicode (0x1130 ||| k)) = Lang.captionUnicode (0x1130 ||| k) false) := by
  constructor <;> decide +kernel

example : Cc.captionUnicode 0x1137 = 0x266A := by decide

end Zvbi.Props.C08Lang
