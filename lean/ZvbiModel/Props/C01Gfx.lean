import ZvbiModel.Gfx.Lemmas
import ZvbiModel.Gfx.Lemmas2
import ZvbiModel.Gfx.Lemmas3
import ZvbiModel.Props.C01Cells
/-!
# C01 - index computations of the renderer with arbitrary page contents (exp-gfx.c draw_drcs / clip_size / draw_blank /
# unicode_wstfont2 / draw_char / the cell loop of vbi_draw_vt_page_region; lang.c vbi_teletext_composed_unicode)

Model: `Gfx/Model.lean` (checked accesses, nothing clamped); numbers: `Generated/C01Gfx.lean` (translate/gen_c01gfx.py, from
the current source).  Inputs are arbitrary: unicode / size / colour offset of every cell, font bytes, which planes are set,
canvas type (1, 2, 4, any positive), row stride (any value not below the bytes of a row of the region), region size.
Main statement: `region_page_in_range` (all three branches of a cell); `composed_unicode_in_range` for lang.c.

What bounds the glyph number: the renderer's mask `unicode & 0x3F` lets 0..63 through, the DRCS page has 48 glyphs
(`drcs.chars[48][60]`).  The reads stay inside only because enhance() stores no offset above 47 (`if (offset >= 48) break;`,
`Zvbi.Gen.C01Cells.drcsOffsetRejects`, proved for every triplet stream in Props/C01Cells `enhance_drcs_index_in_range`);
`drcs_glyph_mask_alone_counterexample` shows the mask alone is not enough (a vbi_page built by an application, not by
vbi_format_vt_page, with unicode 0xF030 reads behind the DRCS page).
-/
namespace Zvbi.Props.C01Gfx
open Zvbi.Gfx Zvbi.Gen.C01Gfx

/-- the extents and strides fit together: a glyph is 60 bytes = one row of `chars[48][60]`, the row advance of
vbi_draw_vt_page_region uses the cell size, `N_ELEMENTS (composed)` is the length of the table the probe printed -/
theorem extents_consistent : glyphStride = charsBytes ∧ advW = tcw ∧ advH = tch ∧ composedLen = composed.length := consts_agree
example : charsGlyphs * charsBytes = 2880 ∧ composed.length = 192 := by decide +kernel

/-- **drcs_plane_index_in_range**: for EVERY unicode value the plane index `(unicode >> 6) & 0x1F` is inside `pg->drcs[32]` -/
theorem drcs_plane_index_in_range (u : Nat) : planeOf u < pageDrcsLen := by
  have : planeOf u ≤ planeMask := Nat.and_le_right
  simp only [planeMask, pageDrcsLen] at *; omega
example : planeOf 0xF7FF = 31 ∧ planeOf 0xFFFF = 31 ∧ planeOf 0xF040 = 1 := by decide

/-- **drcs_reads_in_chars**: with a glyph number below 48 every byte draw_drcs reads through `src`, for every size (also the
lower halves after `src += 30`), every font content, canvas type, row stride and colour, is one of the 2880 bytes of
`drcs.chars[48][60]` -/
theorem drcs_reads_in_chars (font : Nat → Nat) (ct rs base color glyph size : Nat) (hg : glyph < charsGlyphs) :
    ∀ i, (Site.chars, i) ∈ drawDrcs font ct rs base color glyph size → i < charsGlyphs * charsBytes := by
  intro i ha
  unfold drawDrcs at ha
  split at ha
  · simp at ha
  · next l hl =>
    obtain ⟨hmem, _⟩ := findLoop_mem hl
    rcases List.mem_append.mp ha with ha | ha
    · obtain ⟨rd, hrd, ha⟩ := List.mem_flatMap.mp ha
      have hlt := loopReads_lt l hmem rd hrd
      simp only [List.mem_cons, List.mem_nil_iff, or_false, Prod.mk.injEq, reduceCtorEq, false_and, true_and] at ha
      subst ha
      simp only [glyphStride, charsGlyphs, charsBytes] at *; omega
    · obtain ⟨p, _, hp⟩ := List.mem_map.mp ha
      simp at hp
example : (Site.chars, 47 * 60 + 59) ∈ drawDrcs (fun _ => 0) 1 12 0 0 47 0 ∧ (Site.chars, 47 * 60 + 59) ∈ drawDrcs (fun _ => 0) 1 12 0 0 47 6 := by
  decide

/-- **drcs_glyph_mask_alone_counterexample**: the mask `unicode & 0x3F` alone does not keep the reads inside: unicode 0xF030
is a DRCS code of 16 bits (`vbi_is_drcs`), its glyph number is 48, and draw_drcs reads offset 2880 = `sizeof chars`; in
general every read with a glyph number of 48 or more is outside -/
theorem drcs_glyph_mask_alone_counterexample :
    (isDrcs 0xF030 = true ∧ 0xF030 < 2 ^ charUnicodeBits ∧ glyphOf 0xF030 = 48 ∧
      (Site.chars, 2880) ∈ drawDrcs (fun _ => 0) 1 12 0 0 (glyphOf 0xF030) 0 ∧ ¬ okAcc 120 (Site.chars, 2880)) ∧
    (∀ font ct rs base color glyph size i, charsGlyphs ≤ glyph →
      (Site.chars, i) ∈ drawDrcs font ct rs base color glyph size → ¬ okAcc 0 (Site.chars, i)) := by
  refine ⟨⟨by decide, by decide, by decide, by decide +kernel, ?_⟩, ?_⟩
  · show ¬ ((2880 : Nat) < charsGlyphs * charsBytes); decide
  intro font ct rs base color glyph size i hg ha
  unfold drawDrcs at ha
  split at ha
  · simp at ha
  · rcases List.mem_append.mp ha with ha | ha
    · obtain ⟨rd, _, ha⟩ := List.mem_flatMap.mp ha
      simp only [List.mem_cons, List.mem_nil_iff, or_false, Prod.mk.injEq, reduceCtorEq, false_and, true_and] at ha
      subst ha
      show ¬ (_ < charsGlyphs * charsBytes)
      simp only [glyphStride, charsGlyphs, charsBytes] at *; omega
    · obtain ⟨p, _, hp⟩ := List.mem_map.mp ha
      simp at hp

/-- **enhance_drcs_unicode_roundtrip**: the code enhance() stores for a DRCS character, `0xF000 + (page << 6) + offset` with a
plane below 32 and an offset it does not reject, is a DRCS code for the renderer, fits the 16 bit field, and the renderer
recovers exactly that plane and that glyph number - below 48 -/
theorem enhance_drcs_unicode_roundtrip (page offset : Nat) (hp : page < Zvbi.Gen.C01Cells.pageDrcsLen)
    (ho : Zvbi.Gen.C01Cells.drcsOffsetRejects offset = false) :
    isDrcs (drcsBase + (page <<< drcsShift) + offset) = true ∧ drcsBase + (page <<< drcsShift) + offset < 2 ^ charUnicodeBits ∧
    planeOf (drcsBase + (page <<< drcsShift) + offset) = page ∧ glyphOf (drcsBase + (page <<< drcsShift) + offset) = offset ∧
    offset < charsGlyphs := by
  have key : ∀ p : Fin Zvbi.Gen.C01Cells.pageDrcsLen, ∀ o : Fin charsGlyphs,
      isDrcs (drcsBase + (p.val <<< drcsShift) + o.val) = true ∧ drcsBase + (p.val <<< drcsShift) + o.val < 2 ^ charUnicodeBits ∧
      planeOf (drcsBase + (p.val <<< drcsShift) + o.val) = p.val ∧ glyphOf (drcsBase + (p.val <<< drcsShift) + o.val) = o.val := by
    decide +kernel
  have ho' : offset < charsGlyphs := by
    simp only [Zvbi.Gen.C01Cells.drcsOffsetRejects, decide_eq_false_iff_not] at ho
    simp only [charsGlyphs]; omega
  obtain ⟨h1, h2, h3, h4⟩ := key ⟨page, hp⟩ ⟨offset, ho'⟩
  exact ⟨h1, h2, h3, h4, ho'⟩
example : drcsBase + (31 <<< drcsShift) + 47 = 0xF7EF := by decide

/-- **enhance_logged_drcs_renders_in_range**: for every run of the enhancement model (arbitrary triplets, Props/C01Cells):
a plane and a glyph number it logs for a DRCS invocation give a code from which the renderer recovers a plane inside
`pg->drcs[]` and a glyph number below 48 -/
theorem enhance_logged_drcs_renders_in_range (env : Zvbi.Enh.Cells.Env) (he : Zvbi.Enh.Cells.EnvOK env) (fuel : Nat)
    (res : Bool × List Zvbi.Enh.Cells.Access) (h : Zvbi.Enh.Cells.enhancePage env fuel = some res) (p g : Nat)
    (hp : (Zvbi.Enh.Cells.Site.drcsSlot, p) ∈ res.2) (hg : (Zvbi.Enh.Cells.Site.drcsGlyph, g) ∈ res.2) :
    isDrcs (drcsBase + (p <<< drcsShift) + g) = true ∧ planeOf (drcsBase + (p <<< drcsShift) + g) = p ∧
    glyphOf (drcsBase + (p <<< drcsShift) + g) = g ∧ glyphOf (drcsBase + (p <<< drcsShift) + g) < charsGlyphs := by
  obtain ⟨_, h2, h3⟩ := Zvbi.Props.C01Cells.enhance_drcs_index_in_range env he fuel res h
  have hgl := (h3 g hg).1
  have := enhance_drcs_unicode_roundtrip p g (h2 p hp)
    (by simp only [Zvbi.Gen.C01Cells.drcsOffsetRejects, Zvbi.Gen.C01Cells.drcsGlyphs] at *; simpa using hgl)
  exact ⟨this.1, this.2.2.1, this.2.2.2.1, by rw [this.2.2.2.1]; exact this.2.2.2.2⟩
example : isDrcs (drcsBase + (17 <<< drcsShift) + 47) = true ∧ planeOf (drcsBase + (17 <<< drcsShift) + 47) = 17 ∧
    glyphOf (drcsBase + (17 <<< drcsShift) + 47) = 47 ∧ Zvbi.Gen.C01Cells.drcsOffsetRejects 47 = false ∧
    Zvbi.Gen.C01Cells.drcsOffsetRejects 48 = true := by decide

/-- **region_drcs_in_range**: vbi_draw_vt_page_region (DRCS branch) over a region of `width` x `height` cells whose contents
are arbitrary, on a canvas of `height * 10` lines of `rs` bytes with `rs` not below the `width * 12 * canvas_type` bytes of a
region row, for every positive canvas type: provided every DRCS cell whose plane is set has a glyph number below 48 (see
`enhance_drcs_unicode_roundtrip`) and a colour offset that leaves room for a 4 bit pixel value in `pen[64]` (the library never
sets `drcs_clut_offs`, it is 0), EVERY plane index, font byte read, pen element and canvas byte written - in every size
variant, double width / double size in the last column being clipped by clip_size - is inside its object; `row_adv` is not
negative -/
theorem region_drcs_in_range (font : Nat → Nat → Nat) (planeSet : Nat → Bool) (ct rs width height : Nat) (cells : Nat → Nat → Cell)
    (hct : 0 < ct) (hrs : width * tcw * ct ≤ rs)
    (hcells : ∀ r c, r < height → c < width → isDrcs (cells r c).unicode = true → planeSet (planeOf (cells r c).unicode) = true →
      glyphOf (cells r c).unicode < charsGlyphs ∧ (cells r c).color + penNibbleMax < penLen) :
    ∀ a ∈ regionAcc font planeSet ct rs width height cells, okAcc (rs * (height * tch)) a := by
  intro a ha
  unfold regionAcc at ha
  have hb : width * 12 * ct + (rs * 10 - width * 12 * ct) = rs * 10 := by simp only [tcw] at hrs; omega
  rcases List.mem_cons.mp ha with rfl | ha
  · show _ = 0
    simp only [tcw, advW, advH] at *; omega
  · obtain ⟨r, hr, ha⟩ := List.mem_flatMap.mp ha
    obtain ⟨c, hc, ha⟩ := List.mem_flatMap.mp ha
    rw [List.mem_range] at hr hc
    unfold cellAcc at ha
    split at ha
    · next hd =>
      rcases List.mem_cons.mp ha with rfl | ha
      · exact drcs_plane_index_in_range _
      · split at ha
        · next hps =>
          obtain ⟨hg, hcol⟩ := hcells r c hr hc hd hps
          have hbase : r * (width * tcw * ct + (rs * advH - width * advW * ct)) + c * (tcw * ct) = r * (rs * 10) + c * (12 * ct) := by
            simp only [tcw, advW, advH]; rw [hb]
          rw [hbase] at ha
          refine drawDrcs_ok _ hct hrs hr ?_ hg hcol a ha
          by_cases hl : c + 1 = width
          · have : cellW (clipSize (cells r c).size (decide (c + 1 = width))) = 1 := by
              rw [decide_eq_true hl]; exact cellW_clip_last _
            omega
          · have h2 := cellW_le (clipSize (cells r c).size (decide (c + 1 = width)))
            omega
        · simp at ha
    · simp at ha
/-- a double size DRCS character in the last column and last row of a 40 x 25 page on a 4 byte canvas: the last byte written is
the last byte of the last pixel of line 249; without clip_size it would be 48 bytes further -/
example : (regionAcc (fun _ _ => 0xFF) (fun _ => true) 4 1920 40 25 (fun r c => if r = 24 ∧ c = 39 then ⟨0xF7EF, 3, 48⟩ else ⟨0x20, 0, 0⟩)).length
      = 1 + 1 + 30 * 3 + 30 * 4 ∧
    (Site.canvas, 1920 * 250 - 1) ∈ regionAcc (fun _ _ => 0xFF) (fun _ => true) 4 1920 40 25
      (fun r c => if r = 24 ∧ c = 39 then ⟨0xF7EF, 3, 48⟩ else ⟨0x20, 0, 0⟩) ∧
    clipSize 3 true = 2 ∧ clipSize 3 false = 3 := by
  decide +kernel

/-- **drcs_pen_offset_counterexample**: the hypothesis on the colour offset is needed: `drcs_clut_offs` is an 8 bit field of the
(caller visible) vbi_char; with 49 and a font byte 0xFF the pen element read is `pen[64]`, one behind the array.  No code of
the library stores a non-zero `drcs_clut_offs` -/
theorem drcs_pen_offset_counterexample :
    (Site.pen, 64) ∈ drawDrcs (fun _ => 0xFF) 4 48 0 49 0 0 ∧ ¬ okAcc 480 (Site.pen, 64) := by
  refine ⟨by decide +kernel, ?_⟩
  show ¬ ((64 : Nat) < penLen); decide

/-- **composed_unicode_in_range**: for every accent `a <= 15` and every `c` in 0x20 .. 0x7F both asserts of
vbi_teletext_composed_unicode hold, the search loop indexes `composed[]` only below its extent, the call
`vbi_teletext_unicode (LATIN_G0, NO_SUBSET, c)` of the `a == 0` branch satisfies that function's asserts and reads no table,
and the result is 0x40, vbi_teletext_unicode's value, 0, or 0xC0 + (an index of the table) -/
theorem composed_unicode_in_range (a c cb : Nat) (ha : a ≤ cuAccentMax) (hlo : cuCharLo ≤ c) (hhi : c ≤ cuCharHi) :
    (∀ x ∈ (composedUnicode a c).1, okAcc cb x) ∧
    (∀ v, (composedUnicode a c).2 = some v → v = cuAt ∨ v = 0 ∨ (cuBase ≤ v ∧ v < cuBase + composedLen)) ∧
    ((composedUnicode a c).2 = none → a = 0) := by
  unfold composedUnicode
  split
  · next h0 =>
    split
    · refine ⟨?_, fun v hv => Or.inl (by simpa using hv.symm), fun h => by simp at h⟩
      intro x hx
      simp only [List.mem_cons, List.mem_nil_iff, or_false] at hx
      rcases hx with rfl | rfl
      · exact ha
      · exact ⟨hlo, hhi⟩
    · refine ⟨?_, fun v hv => by simp at hv, fun _ => h0⟩
      intro x hx
      rcases List.mem_append.mp hx with hx | hx
      · simp only [List.mem_cons, List.mem_nil_iff, or_false] at hx
        rcases hx with rfl | rfl
        · exact ha
        · exact ⟨hlo, hhi⟩
      · obtain ⟨y, hy, rfl⟩ := List.mem_map.mp hx
        show Zvbi.Nav.okAcc (y.1, y.2)
        simp only [Zvbi.Nav.tuAcc, cuSet, cuSubset, Zvbi.Gen.C01Nav.kLatinG0, Zvbi.Gen.C01Nav.tuTable] at hy
        simp at hy
        rcases hy with rfl | rfl
        · exact ⟨by simpa [Zvbi.Gen.C01Nav.tuCharLo, cuCharLo] using hlo, by simpa [Zvbi.Gen.C01Nav.tuCharHi, cuCharHi] using hhi⟩
        · exact Or.inl rfl
  · have hl := cuLoop_ok (c + (a <<< cuShift)) cb (composedLen + 1) 0
    refine ⟨?_, ?_, fun h => by simp at h⟩
    · intro x hx
      rcases List.mem_append.mp hx with hx | hx
      · simp only [List.mem_cons, List.mem_nil_iff, or_false] at hx
        rcases hx with rfl | rfl
        · exact ha
        · exact ⟨hlo, hhi⟩
      · exact hl.1 x hx
    · intro v hv
      simp only [Option.some.injEq] at hv
      subst hv
      rcases hl.2 with h | h
      · exact Or.inr (Or.inl h)
      · exact Or.inr (Or.inr h)
example : (composedUnicode 1 0x41).2 = some 0xC0 ∧ (composedUnicode 8 0x75).2 = some 0xFC ∧ (composedUnicode 3 0x20).2 = some 0 ∧
    (composedUnicode 0 0x2A).2 = some 0x40 ∧ (composedUnicode 0 0x41).2 = none ∧ (composedUnicode 15 0x7F).1.length = 2 + 192 := by
  decide +kernel

/-- **composed_call_in_range**: the one caller, enhance() modes 0x10 .. 0x1F with `p->data >= 0x20`: for every triplet a writer of
packet.c stores (data of 7 bits, `Zvbi.Gen.C01Cells.tripDataMax`) the arguments `p->mode - 0x10`, `p->data` satisfy the asserts
and all accesses of the call are in range -/
theorem composed_call_in_range (mode data cb : Nat) (_hm1 : cuCallLo ≤ mode) (hm2 : mode ≤ cuCallHi) (hd1 : cuCallGuard ≤ data)
    (hd2 : data ≤ Zvbi.Gen.C01Cells.tripDataMax) : ∀ x ∈ (composedUnicode (mode - cuCallSub) data).1, okAcc cb x := by
  refine (composed_unicode_in_range (mode - cuCallSub) data cb ?_ ?_ ?_).1
  · simp only [cuCallSub, cuCallHi, cuAccentMax] at *; omega
  · simp only [cuCallGuard, cuCharLo] at *; omega
  · simp only [Zvbi.Gen.C01Cells.tripDataMax, cuCharHi] at *; omega
example : (composedUnicode (0x1F - cuCallSub) 0x7F).1.length = 194 ∧ (composedUnicode (0x10 - cuCallSub) 0x20).2 = none := by
  decide +kernel

/-- why the guard `p->data >= 0x20` matters: with data 0x1F the assert `c >= 0x20` fails -/
theorem composed_call_guard_counterexample : ¬ okAcc 0 (Site.cuChar, 0x1F) ∧ (Site.cuChar, 0x1F) ∈ (composedUnicode 1 0x1F).1 := by
  refine ⟨?_, by decide +kernel⟩
  show ¬ (cuCharLo ≤ 0x1F ∧ 0x1F ≤ cuCharHi); decide

/-- **wstfont2_glyph_in_range**: for EVERY `unsigned int` argument (not only the 16 bits a vbi_char holds) and both values of
`italic`, unicode_wstfont2 returns a glyph number below TCPL = 1536 (the glyphs of the font image): every branch of the
function, the italic shift of the first 17 glyph rows, the two rows of specials, `invalid` = 357, and the G3 branch whose
`c - 0xEF20` wraps below 0xEF20 (`unsigned` arithmetic; the sum with 27 * 32 is 832 .. 863 there) -/
theorem wstfont2_glyph_in_range (c : Nat) (italic : Bool) (hc : c < 2 ^ 32) : unicodeWstfont2 c italic < tcpl :=
  unicodeWstfont2_lt c italic hc
example : unicodeWstfont2 0xEF00 false = 832 ∧ unicodeWstfont2 0x41 true = 33 + 31 * 32 ∧ unicodeWstfont2 0x2126 true = 28 + 41 * 32 ∧
    unicodeWstfont2 0xF030 false = 357 ∧ unicodeWstfont2 0x43F true = 1535 ∧ unicodeWstfont2 0xEE7F false = 0x5F + 23 * 32 := by
  decide +kernel

/-- **draw_char_reads_in_font**: draw_char with the Teletext font (`cpl` = TCPL, 12 x 10 cells): with a glyph number below TCPL
every byte read through `src[0]`, `src[1]` - every line, every size, upper and lower halves - lies inside `wstfont2_bits`
(23040 bytes) -/
theorem draw_char_reads_in_font (glyph size cb : Nat) (hg : glyph < tcpl) :
    ∀ a ∈ drawCharReads tcpl tcw tch glyph size, okAcc cb a := drawCharReads_ok glyph size cb hg
example : (Site.wst, 23039) ∈ drawCharReads tcpl tcw tch 1535 6 ∧ (Site.wst, 23039) ∈ drawCharReads tcpl tcw tch 1535 0 ∧
    (drawCharReads tcpl tcw tch 0 0).length = 20 ∧ (drawCharReads tcpl tcw tch 0 7).length = 10 := by decide +kernel

/-- the bound is exact: glyph number 1536 reads `wstfont2_bits[23040]`, the byte behind the image -/
theorem draw_char_glyph_limit_counterexample :
    (Site.wst, wstBytes) ∈ drawCharReads tcpl tcw tch tcpl 0 := by decide +kernel

/-- **char_cell_reads_in_font**: the two together, for arbitrary cell contents: whatever `unicode` (any unsigned value) and
`italic` a cell holds and whatever its size, the non-DRCS branch of the renderer reads only bytes of `wstfont2_bits` -/
theorem char_cell_reads_in_font (unicode size cb : Nat) (italic : Bool) (hc : unicode < 2 ^ 32) :
    ∀ a ∈ drawCharReads tcpl tcw tch (unicodeWstfont2 unicode italic) size, okAcc cb a :=
  drawCharReads_ok _ size cb (unicodeWstfont2_lt unicode italic hc)
example : (drawCharReads tcpl tcw tch (unicodeWstfont2 0xEF1F true) 3).length = 10 := by decide +kernel

/-- **region_page_in_range**: vbi_draw_vt_page_region, ALL branches of a cell (DRCS glyph; draw_blank when the plane is not set;
draw_char with the Teletext font for every other code), over a region of `width` x `height` cells of arbitrary contents
(unicode any unsigned value, any size value, any italic flag), canvas of `height * 10` lines of `rs >= width * 12 *
canvas_type` bytes, any positive canvas type: under the DRCS hypothesis of `region_drcs_in_range`, every plane index, DRCS
byte, byte of `wstfont2_bits`, pen element and canvas byte is inside its object -/
theorem region_page_in_range (font : Nat → Nat → Nat) (planeSet : Nat → Bool) (ct rs width height : Nat) (cells : Nat → Nat → Cell)
    (italic : Nat → Nat → Bool) (hct : 0 < ct) (hrs : width * tcw * ct ≤ rs)
    (hu : ∀ r c, r < height → c < width → (cells r c).unicode < 2 ^ 32)
    (hcells : ∀ r c, r < height → c < width → isDrcs (cells r c).unicode = true → planeSet (planeOf (cells r c).unicode) = true →
      glyphOf (cells r c).unicode < charsGlyphs ∧ (cells r c).color + penNibbleMax < penLen) :
    ∀ a ∈ regionAccFull font planeSet ct rs width height cells italic, okAcc (rs * (height * tch)) a :=
  regionAccFull_ok font planeSet ct rs width height cells italic hct hrs hu hcells
/-- a 2 x 2 region on a 1 byte canvas: a double size character in the last column (clipped to double height), a DRCS cell with an
unset plane (blank), an italic character: the last canvas byte written is the last byte of the canvas -/
example : (Site.canvas, 24 * 20 - 1) ∈ regionAccFull (fun _ _ => 0) (fun _ => false) 1 24 2 2
      (fun r c => if r = 1 ∧ c = 1 then ⟨0x41, 3, 0⟩ else if c = 0 then ⟨0xF000, 0, 0⟩ else ⟨0x42, 1, 0⟩) (fun _ _ => true) ∧
    (regionAccFull (fun _ _ => 0) (fun _ => false) 1 24 2 2
      (fun r c => if r = 1 ∧ c = 1 then ⟨0x41, 3, 0⟩ else if c = 0 then ⟨0xF000, 0, 0⟩ else ⟨0x42, 1, 0⟩) (fun _ _ => true)).length
      = 1 + 2 * (1 + 120) + (20 + 2 + 120) + (10 + 2 + 120) := by
  decide +kernel

end Zvbi.Props.C01Gfx
