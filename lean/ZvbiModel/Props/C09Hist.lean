import ZvbiModel.Xds.DecHist3
import ZvbiModel.Props.C09Sep
/-!
# C09, round 5: the service decoder `xds_decoder` over packet HISTORIES

"The service decoder's programme / network information equals the decoded content of the delivered
packets, announced after the documented repeat" - by induction over arbitrary histories of calls of
`xds_decoder` on a fresh decoder (`Dec.run Dec.init hist`), for EVERY field group the decoder exposes:

* per programme (current = class 0, future = class 1) the ten groups `Dec.Grp`: programme id (month, day,
  hour, minute, tape-delay flag), length / elapsed time, title, programme type list, rating
  (authority, id, dlsv), audio services (mode and language of main and second audio), caption services
  (service set and language per service), CGMS-A, aspect ratio (first line, last line, ratio), the
  eight description lines;
* the network fields `Dec.NetF`: name, call letters, tape delay.

Specification side (`ZvbiModel/Xds/DecHist.lean`, `DecHist2.lean`): `Dec.fview f v` - what an application
reads of field `f` in state `v`; `Dec.fdecode f p nx` - the decoding of packet `p` for `f` (`none` unless
`p` has `f`'s class and type, 1..32 bytes, and is accepted); `Dec.ferased f v p nx` - the call is one of
the documented flushes reaching `f` (`Dec.flushes`: a valid programme id differing from the stored one;
the repeat of the programme name while no programme id is pending; `vbi_chsw_reset` after a changed
network name; for the network name: changed call letters); `Dec.funknown f` - the field after
`vbi_reset_prog_info`; `Dec.Undisturbed f v post` - no call of `post`, run from `v`, is an accepted packet
of `f` or a flush reaching `f`.  Lemmas are in `DecHist*.lean`; only property theorems here.

Source shape: the aspect-ratio group needs `Dec.aspectAlwaysCurrent = false` (`Field.shapeOK`; generated
flag, `false` on the tree since 201beae - with `true` the statement is false, see
`C09Sep.prog_info_future_aspect_overwrites_current_counterexample`); everything else holds for either
value of every generated flag.
-/
namespace Zvbi.Props.C09Hist
open Zvbi.Xds Zvbi.Xds.Dec Zvbi.Gen.Xds

/-! ## the one-call law and the induction -/

/-- prog_info_equals_packets, one call, every field, every reachable state (`Wf`, `AWf` are invariants of
    all histories: `Dec.run_inv`): after the call `xds_decoder (p)` field `f` holds
    * the decoding of `p`, if `p` is an accepted packet of `f`'s (class, type);
    * "unknown", if the call is a flush that reaches `f`;
    * what it held before, in every other case. -/
theorem prog_info_field_one_call {v : Info} (hv : Wf v) (ha : AWf v) (f : Field) (hs : f.shapeOK) (p : Pkt) (nx : Nat) :
    fview f (step v p nx).1 =
      match fdecode f p nx with
      | some val => val
      | none => if ferased f v p nx then funknown f else fview f v :=
  step_field hv ha f hs p nx

/-- prog_info_equals_packets_full, general form (induction over the history): in the state after ANY
    history `pre ++ (p, nx) :: post` of calls on a fresh decoder, if `p` is an accepted packet of field
    `f` with decoding `val` and nothing behind it disturbs `f` - no later accepted packet of `f`, no later
    flush reaching `f` - then the field the application reads equals `val`: every field equals the
    decoding of the LAST accepted packet of its (class, type) after the last flush. -/
theorem prog_info_equals_packets_all_fields (f : Field) (hs : f.shapeOK) (pre post : List (Pkt × Nat)) (p : Pkt) (nx : Nat)
    (val : List Int) (hdec : fdecode f p nx = some val)
    (hpost : Undisturbed f (run init (pre ++ [(p, nx)])).1 post) :
    fview f (run init (pre ++ (p, nx) :: post)).1 = val := by
  have e : pre ++ (p, nx) :: post = (pre ++ [(p, nx)]) ++ post := by simp
  obtain ⟨w1, a1⟩ := run_inv pre wf_init awf_init
  obtain ⟨w2, a2⟩ := run_inv (pre ++ [(p, nx)]) wf_init awf_init
  rw [e, run_append, run_undisturbed f hs post w2 a2 hpost, run_append]
  show fview f (step (run init pre).1 p nx).1 = val
  rw [step_field w1 a1 f hs, hdec]

/-- ... and "unknown" if there is none: after a flush reaching `f` that is not itself an accepted packet
    of `f`, followed by calls that do not disturb `f`, the field reads as after `vbi_reset_prog_info`;
    likewise on a decoder that never saw an accepted packet of `f` (second part). -/
theorem prog_info_unknown_after_flush (f : Field) (hs : f.shapeOK) (pre post : List (Pkt × Nat)) (q : Pkt) (nx : Nat)
    (hq : fdecode f q nx = none) (hfl : ferased f (run init pre).1 q nx = true)
    (hpost : Undisturbed f (run init (pre ++ [(q, nx)])).1 post) :
    fview f (run init (pre ++ (q, nx) :: post)).1 = funknown f ∧
    (∀ hist, Undisturbed f init hist → fview f (run init hist).1 = funknown f) := by
  constructor
  · have e : pre ++ (q, nx) :: post = (pre ++ [(q, nx)]) ++ post := by simp
    obtain ⟨w1, a1⟩ := run_inv pre wf_init awf_init
    obtain ⟨w2, a2⟩ := run_inv (pre ++ [(q, nx)]) wf_init awf_init
    rw [e, run_append, run_undisturbed f hs post w2 a2 hpost, run_append]
    show fview f (step (run init pre).1 q nx).1 = funknown f
    rw [step_field w1 a1 f hs, hq]
    simp [hfl]
  · intro hist hu
    rw [run_undisturbed f hs hist wf_init awf_init hu, fview_init]

/-- the same with a condition one can read off the packet labels: if no packet behind `p` has `f`'s own
    (class, type), or is a programme id / programme name of `f`'s class, or a network name (for the
    network name field: or call letters), then `f` equals the decoding of `p` - whatever the later
    packets contain and whatever state they meet. -/
theorem prog_info_equals_packets_static (f : Field) (hs : f.shapeOK) (pre post : List (Pkt × Nat)) (p : Pkt) (nx : Nat)
    (val : List Int) (hdec : fdecode f p nx = some val) (hpost : ∀ q ∈ post, StaticallyApart f q.1) :
    fview f (run init (pre ++ (p, nx) :: post)).1 = val :=
  prog_info_equals_packets_all_fields f hs pre post p nx val hdec (undisturbed_of_apart f post _ hpost)

/-- the statement left open in round 3 (`C09Sep.prog_info_equals_packets_full`), now proved: it is the
    instance "CGMS-A of class `cls`" of `prog_info_equals_packets_static`. -/
theorem prog_info_equals_packets_full : C09Sep.prog_info_equals_packets_full := by
  intro hist cls hc c pre post hh hpost
  subst hh
  have hd : fdecode (.prog ⟨cls, by omega⟩ .cgms) ⟨cls, 8, [c]⟩ 0 = some [((c &&& 63 : Nat) : Int)] := by
    simp [fdecode, progDecode, decode, Grp.typ, byteAt]
  have := prog_info_equals_packets_static (.prog ⟨cls, by omega⟩ .cgms) trivial pre post ⟨cls, 8, [c]⟩ 0 _ hd
    (by intro q hq; exact hpost q hq)
  simpa [fview, view] using this

/-! ## what the flushes are -/

/-- `vbi_chsw_reset` runs (both programmes and the XDS buffers are flushed) exactly when a network name
    packet repeats the stored name while the name is pending (`cycle = 1`), a network was identified before
    (`nuid != 0`), and the new id differs (`sepNuidCompared`: the code compares at all, since c11abb5). -/
theorem dec_chsw_iff (v : Info) (typ : Nat) (d : List Nat) (nx : Nat) :
    (netFeed v typ d nx).2.chsw = true ↔
      typ = 1 ∧ (strfuArr v.net.name d).neq = false ∧ v.net.cycle = 1 ∧ v.net.nuid ≠ 0 ∧
      ¬(sepNuidCompared = true ∧
        Sep.nuidOf (if v.net.call.getD 0 0 != 0 then cstr v.net.call else cstr (strfuArr v.net.name d).arr) = v.net.nuid) := by
  unfold netFeed
  simp only []
  repeat' split
  all_goals simp_all

/-- the flushes of the programme information of class `cls`, spelled out -/
theorem dec_flushes_iff (v : Info) (p : Pkt) (nx : Nat) (cls : Nat) :
    flushes v p nx cls = true ↔
      (1 ≤ p.data.length ∧ p.data.length ≤ 32) ∧
      ((p.cls = cls ∧ p.sub = 1 ∧ p.data.length = 4 ∧ ¬pidBad p.data nx ∧ pidNeq v cls p.data nx = true) ∨
       (p.cls = cls ∧ p.sub = 3 ∧ 2 ≤ p.data.length ∧ (strfuArr (v.pi cls).title p.data).neq = false ∧
          (v.cyc cls).contains 3 = true ∧ (v.cyc cls).contains 1 = false) ∨
       (p.cls ≠ cls ∧ p.cls = 2 ∧ (netFeed v p.sub p.data nx).2.chsw = true)) := by
  unfold flushes pidFlush titleFlush
  by_cases hl : p.data.length = 0 ∨ p.data.length > 32
  · rw [if_pos hl]; constructor
    · intro h; cases h
    · intro h; omega
  · rw [if_neg hl]
    have : 1 ≤ p.data.length ∧ p.data.length ≤ 32 := by omega
    by_cases hc : p.cls = cls
    · simp [hc, this, and_assoc]
    · by_cases h2 : p.cls = 2
      · have hc' : ¬ 2 = cls := by omega
        simp [hc, h2, this, hc']
      · simp [hc, h2, this]

/-! ## events -/

/-- PROG_INFO over all histories: whatever the history `pre`, a PROG_INFO event raised by the next call
    `xds_decoder (p)` is raised for a packet of class current / future, names that class, and every field
    group it carries equals the field the application reads in the state after the call - hence, by
    `prog_info_equals_packets_all_fields`, the decoding of the last accepted packet of that group. -/
theorem prog_info_event_carries_stored_fields (pre : List (Pkt × Nat)) (p : Pkt) (nx : Nat) (x : Ev)
    (hx : x ∈ (step (run init pre).1 p nx).2.evs) (hi : x.isProgInfo = true) :
    ∃ (hc : p.cls ≤ 1) (e : PI), x = Ev.progInfo p.cls e ∧
      ∀ g, view g e = fview (.prog ⟨p.cls, by omega⟩ g) (run init (pre ++ [(p, nx)])).1 := by
  obtain ⟨hc, he⟩ := step_proginfo_payload _ p nx x hx hi
  refine ⟨hc, _, he, ?_⟩
  intro g
  rw [run_append]
  rfl

/-- classes MISC (3) and above - time of day, impulse capture id, supplemental data location, local time
    zone, out-of-band channel number, and every class caption.c does not know (public service, reserved,
    private data): `xds_decoder` checks a length at most; no field changes, no event is raised. -/
theorem dec_misc_and_above_inert (v : Info) (p : Pkt) (nx : Nat) (h3 : 3 ≤ p.cls) (h1 : 1 ≤ p.data.length)
    (h32 : p.data.length ≤ 32) : step v p nx = (v, {}) := by
  unfold step
  rw [if_neg (by omega), if_neg (by omega), if_neg (by omega)]

/-! ## announced after the documented repeat -/

/-- announced after the documented repeat, over every state with the audio extents (all reachable states),
    for the groups whose change flag is exactly "the group's view differs from the packet's decoding"
    (`Dec.PlainGroup`: length / elapsed time and CGMS-A, `Dec.plain_len`, `Dec.plain_cgms`): an accepted
    packet whose decoding differs from what is stored raises nothing the first time; its immediate repeat
    raises exactly one event, PROG_INFO for the packet's class, carrying the decoding; a third occurrence
    raises nothing.  (Title and network name: `C09.prog_info_title_second_occurrence`,
    `C09.network_name_second_occurrence`; the programme id group is NOT plain on the current tree, see the
    counterexample below.) -/
theorem prog_info_announced_on_repeat (g : Grp) (hg : g = .len ∨ g = .cgms) (v : Info) (ha : AWf v) (cls : Nat)
    (d : List Nat) (nx : Nat) (val : List Int) (hdec : decode g d nx = some val) (hchg : view g (v.pi cls) ≠ val) :
    let r1 := feed v cls g.typ d nx
    let r2 := feed r1.1 cls g.typ d nx
    let r3 := feed r2.1 cls g.typ d nx
    r1.2.evs = [] ∧ (∃ e, r2.2.evs = [Ev.progInfo cls e] ∧ view g e = val) ∧ r3.2.evs = [] ∧
      view g (r3.1.pi cls) = val := by
  rcases hg with rfl | rfl
  · exact announce_on_repeat_of_plain plain_len v ha cls d nx val hdec hchg
  · exact announce_on_repeat_of_plain plain_cgms v ha cls d nx val hdec hchg

/-- a length packet "1 h 30, elapsed 0 h 12" is accepted and differs from the unknown length of a fresh decoder -/
example : decode .len [0x5E, 0x41, 0x4C, 0x40] 0 = some [1, 30, 0, 12, 0] ∧
    view .len (init.pi 0) ≠ [1, 30, 0, 12, 0] := by decide

/-- programme id (minute 5, hour 6, day 7, month 3) twice, then the same date with the tape-delay bit
    (0x10 of the month byte) set, three times - corpus/C09/84 -/
def witnessPidTd : List (Pkt × Nat) :=
  [(⟨0, 1, [0x45, 0x46, 0x47, 0x43]⟩, 0), (⟨0, 1, [0x45, 0x46, 0x47, 0x43]⟩, 0),
   (⟨0, 1, [0x45, 0x46, 0x47, 0x53]⟩, 0), (⟨0, 1, [0x45, 0x46, 0x47, 0x53]⟩, 0), (⟨0, 1, [0x45, 0x46, 0x47, 0x53]⟩, 0)]

/-- prog_info_pid_tape_delay_never_announced_counterexample ("announced after the documented repeat" is
    false for the tape-delay flag on the tree before fixes/C09-pid-tape-delay-never-announced.diff): the
    programme id is announced by its repeat; the packets that change only the tape-delay flag store the flag
    at once (the programme id group reads [2, 6, 6, 5, 1] after the first of them) but none of the three
    raises PROG_INFO and bit 1 never becomes pending (`pidTapeDelayCounted = false`); with the change
    counted (`true`, the repaired shape) the second of them raises PROG_INFO.  Stated for either value of
    the generated flag. -/
theorem prog_info_pid_tape_delay_never_announced_counterexample :
    (run init witnessPidTd).2.map (fun o => (o.evs.filter Ev.isProgInfo).length) =
      (if pidTapeDelayCounted then [0, 1, 0, 1, 0] else [0, 1, 0, 0, 0]) ∧
    view .pid ((run init (witnessPidTd.take 3)).1.pi 0) = [2, 6, 6, 5, 1] ∧
    (run init (witnessPidTd.take 3)).1.cyc0 = (if pidTapeDelayCounted then [1] else []) := by
  decide +kernel

/-! ## non-vacuity: concrete histories -/

/-- a history mixing classes and types: title "AB", CGMS-A, a length packet, a description line, network
    name and call letters, a MISC packet - every field reads as the decoding of its last packet, untouched
    groups are unknown, and the hypotheses of the theorems above are met -/
def sampleHist : List (Pkt × Nat) :=
  [(⟨0, 3, [0x41, 0x42]⟩, 0), (⟨0, 8, [0x41]⟩, 0), (⟨1, 2, [0x5E, 0x41]⟩, 0), (⟨0, 0x12, [0x20, 0x58, 0x59]⟩, 0),
   (⟨2, 1, [0x5A, 0x44, 0x46]⟩, 0), (⟨2, 2, [0x4B, 0x51]⟩, 0), (⟨3, 1, [0x41, 0x42, 0x43, 0x44, 0x45, 0x46]⟩, 0),
   (⟨0, 8, [0x43]⟩, 0)]

example : fview (.prog 0 .title) (run init sampleHist).1 = [0x41, 0x42] ∧
    fview (.prog 0 .cgms) (run init sampleHist).1 = [3] ∧
    fview (.prog 1 .len) (run init sampleHist).1 = [1, 30, -1, -1, 0] ∧
    fview (.prog 0 (.desc 2)) (run init sampleHist).1 = [0x58, 0x59] ∧
    fview (.net .name) (run init sampleHist).1 = [0x5A, 0x44, 0x46] ∧
    fview (.net .call) (run init sampleHist).1 = [0x4B, 0x51] ∧
    fview (.prog 1 .title) (run init sampleHist).1 = funknown (.prog 1 .title) ∧
    fview (.prog 0 .rating) (run init sampleHist).1 = funknown (.prog 0 .rating) := by decide +kernel

/-- the hypotheses of `prog_info_equals_packets_static` hold on it (title of the current programme: the
    packet is accepted, the next three packets are statically apart; network name: the packets behind the
    call letters are) ... -/
example : fdecode (.prog 0 .title) ⟨0, 3, [0x41, 0x42]⟩ 0 = some [0x41, 0x42] ∧
    (∀ q ∈ (sampleHist.drop 1).take 3, StaticallyApart (.prog 0 .title) q.1) ∧
    (∀ q ∈ sampleHist.drop 6, StaticallyApart (.net .name) q.1) := by decide +kernel

/-- ... and a flush is a flush: a new programme id erases the title and the CGMS-A value -/
example : ferased (.prog 0 .cgms) (run init sampleHist).1 ⟨0, 1, [0x45, 0x46, 0x47, 0x43]⟩ 0 = true ∧
    fview (.prog 0 .cgms) (run init (sampleHist ++ [(⟨0, 1, [0x45, 0x46, 0x47, 0x43]⟩, 0)])).1 = [-1] ∧
    fview (.prog 0 .title) (run init (sampleHist ++ [(⟨0, 1, [0x45, 0x46, 0x47, 0x43]⟩, 0)])).1 = [] ∧
    fview (.prog 0 .pid) (run init (sampleHist ++ [(⟨0, 1, [0x45, 0x46, 0x47, 0x43]⟩, 0)])).1 = [2, 6, 6, 5, 0] := by
  decide +kernel

example : Field.shapeOK (.prog 0 .title) ∧ Field.shapeOK (.net .name) := ⟨trivial, trivial⟩

/-! ## end to end: byte pairs on line 284 -/

/-- prog_info_equals_packets over all BYTE-PAIR histories (caption.c line-284 routing + `xds_separator` +
    `xds_decoder`, either separator control flow): the service decoder's state after any sequence of byte
    pairs on a fresh decoder is its state after exactly the calls the delivered packets cause
    (`Dec.sysCalls`); so if the last delivered accepted packet of field `f` is `p` and the deliveries
    behind it do not disturb `f`, the field reads the decoding of `p`. -/
theorem prog_info_equals_delivered_packets (ec : Bool) (hist : List (Nat × Nat)) (f : Field) (hs : f.shapeOK)
    (pre post : List (Pkt × Nat)) (p : Pkt) (nx : Nat) (val : List Int)
    (hcalls : sysCalls ec Sep.init hist = pre ++ (p, nx) :: post) (hdec : fdecode f p nx = some val)
    (hpost : Undisturbed f (run init (pre ++ [(p, nx)])).1 post) :
    fview f (sysRun ec (Sep.init, init) hist).1.2 = val := by
  rw [sysRun_info, hcalls]
  exact prog_info_equals_packets_all_fields f hs pre post p nx val hdec hpost

/-- the title packet "AB" on the wire (start pair, payload, end pair with checksum) causes exactly one call -/
example : sysCalls true Sep.init [(0x01, 0x83), (0xC1, 0xC2), (0x8F, 0xEA)] = [(⟨0, 3, [0x41, 0x42]⟩, 0)] ∧
    fview (.prog 0 .title) (sysRun true (Sep.init, init) [(0x01, 0x83), (0xC1, 0xC2), (0x8F, 0xEA)]).1.2 = [0x41, 0x42] := by
  decide +kernel

/-! ### open -/

/-- announced after the documented repeat at full strength, NOT proved: in every reachable state, for EVERY
    group (programme id with the tape-delay change counted, caption services with the comparison before the
    clearing, aspect ratio in the packet's own class - the three generated shapes), an accepted packet whose
    decoding differs from what the application reads raises no PROG_INFO, its immediate repeat raises
    exactly one, carrying the decoding, and a third occurrence none.  Proved instances: length / elapsed and
    CGMS-A (`prog_info_announced_on_repeat`, any state), title and network name (`C09`, round 2).  Missing:
    rating (needs the invariant "dlsv = 0 unless the authority is TV_US", otherwise the zeroing in front of
    the comparison hides a change), audio and caption services (change flag = view change through the
    per-element `set`), type list and description lines (array change flag incl. stale tail = C-string
    change), aspect (ASPECT event in front of the epilogue), programme id date (flush in the first call). -/
def prog_info_announced_on_repeat_full : Prop :=
  pidTapeDelayCounted = true → capLangClearedFirst = false → aspectAlwaysCurrent = false →
  ∀ (hist : List (Pkt × Nat)) (cls : Nat) (g : Grp) (d : List Nat) (nx : Nat) (val : List Int), cls ≤ 1 →
    1 ≤ d.length → d.length ≤ 32 → decode g d nx = some val →
    view g ((run init hist).1.pi cls) ≠ val →
    let r1 := feed (run init hist).1 cls g.typ d nx
    let r2 := feed r1.1 cls g.typ d nx
    let r3 := feed r2.1 cls g.typ d nx
    r1.2.evs.filter Ev.isProgInfo = [] ∧
    (∃ e, r2.2.evs.filter Ev.isProgInfo = [Ev.progInfo cls e] ∧ view g e = val) ∧
    r3.2.evs.filter Ev.isProgInfo = []

end Zvbi.Props.C09Hist
