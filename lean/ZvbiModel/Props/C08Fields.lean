import ZvbiModel.Cc.Proj
import ZvbiModel.Props.C08Paint
/-!
# C08, continued - the two fields at trace level (`fields_independent_full`)

Property theorems only; lemmas are in `Cc/Proj.lean` (relation `Agree f`, own-field congruence, other-field frame)
and `Cc/Fields.lean`.  All statements are about the tree with one current channel per field
(`currChanPerField = true`, extracted from cc.h / caption.c by translate/gen_cc.py on every run; with the shared
selector the statement is false: `C08Paint.fields_independent_counterexample`, finding F44).

What field `f` OWNS in the decoder state: its selector `curr_chan[f]`, its four channels - CC1 CC2 T1 T2 (indices
0 1 4 5) resp. CC3 CC4 T3 T4 (2 3 6 7), each with both memories, cursor, window, mode, pen, dirty region, event
counter and recorded error -, for field 1 the repetition latch `last[]`, for field 2 the XDS gate `cc->xds`
(the only trace `xds_separator` leaves in the caption decoder; `itv_separator` leaves none).
-/
namespace Zvbi.Props.C08Fields
open Zvbi.Cc Zvbi.Gen.Cc

/-- **own_field_congruence** (the step `fields_independent_partial` left open).  The effect of a byte pair of field `f`
on what field `f` owns is a function of what field `f` owns: if two decoder states agree on the selector of `f`, on its
four channels and on `last[]` (f = field 1) resp. the XDS gate (f = field 2), then after the same pair - ANY bytes, any
parity - they still agree on all of these.  Nothing of the other field is read. -/
theorem own_field_congruence (hpf : currChanPerField = true) (f : Bool) (s t : St) (b0 b1 : Nat)
    (hcur : s.curr f = t.curr f)
    (hlast : f = false → s.last0 = t.last0 ∧ s.last1 = t.last1)
    (hxds : f = true → s.xds = t.xds)
    (hch : ∀ i, i < 8 → (((i >>> 1) &&& 1 == 1) = f) → s.chans[i]? = t.chans[i]?) :
    (decodePair s f b0 b1).curr f = (decodePair t f b0 b1).curr f ∧
    (f = false → (decodePair s f b0 b1).last0 = (decodePair t f b0 b1).last0 ∧
                 (decodePair s f b0 b1).last1 = (decodePair t f b0 b1).last1) ∧
    (f = true → (decodePair s f b0 b1).xds = (decodePair t f b0 b1).xds) ∧
    (∀ i, i < 8 → (((i >>> 1) &&& 1 == 1) = f) → (decodePair s f b0 b1).chans[i]? = (decodePair t f b0 b1).chans[i]?) := by
  have A : Agree f s t := ⟨hcur, hlast, hxds, fun i hi => hch i hi.1 hi.2⟩
  have B := decodePair_agree hpf A b0 b1
  exact ⟨B.cur, B.last, B.xds, fun i h1 h2 => B.chs i ⟨h1, h2⟩⟩

/-- two states that differ in everything field 2 owns and agree on field 1: same result on field 1 (here CC1's channel) -/
example (hpf : currChanPerField = true) :
    (decodePair init false 0x94 0x25).chans[0]? =
    (decodePair (decodePair { init with xds := true } true 0x1C 0x25) false 0x94 0x25).chans[0]? := by
  have A1 : Agree false (decodePair { init with xds := true } true 0x1C 0x25) { init with xds := true } :=
    decodePair_other_agree hpf { init with xds := true } false 0x1C 0x25
  have A2 : Agree false { init with xds := true } init :=
    ⟨rfl, fun _ => ⟨rfl, rfl⟩, fun h => absurd h (by decide), fun _ _ => rfl⟩
  have A : Agree false init (decodePair { init with xds := true } true 0x1C 0x25) := (A1.trans A2).symm
  exact (decodePair_agree hpf A 0x94 0x25).chs 0 (by decide)

/-- **fields_independent_trace** (projection theorem).  For EVERY history `ops` - byte pairs of both fields with any
bytes, page fetches, channel switches, in any interleaving - everything field `f` owns after the whole history equals
what it is after the sub-history `ops.filter (opOfField f)`: the pairs of field `f`, the fetches of ITS pages
(1 2 5 6 resp. 3 4 7 8) and the channel switches, run on a fresh decoder.  So the memories, cursors, modes, pens,
dirty regions and EVENT COUNTS of CC1 CC2 T1 T2 are a function of the line-21 pair sequence alone, those of
CC3 CC4 T3 T4 and the XDS gate a function of the line-284 sequence alone. -/
theorem fields_independent_trace (hpf : currChanPerField = true) (f : Bool) (ops : List Op) :
    (run ops).curr f = (run (ops.filter (opOfField f))).curr f ∧
    (f = false → (run ops).last0 = (run (ops.filter (opOfField f))).last0 ∧
                 (run ops).last1 = (run (ops.filter (opOfField f))).last1) ∧
    (f = true → (run ops).xds = (run (ops.filter (opOfField f))).xds) ∧
    (∀ i, i < 8 → (((i >>> 1) &&& 1 == 1) = f) → (run ops).chans[i]? = (run (ops.filter (opOfField f))).chans[i]?) := by
  have B := run_proj hpf f ops init init (Agree.refl f init)
  exact ⟨B.cur, B.last, B.xds, fun i h1 h2 => B.chs i ⟨h1, h2⟩⟩

/-- what the projection keeps of a mixed history for field 1: its pairs, the fetch of page 1, the channel switch -/
example : [Op.pair false 0x94 0x25, .pair true 0x1C 0x25, .fetch 3, .pair true 0xC1 0xC2, .fetch 1, .chsw,
           .pair false 0xC1 0xC2].filter (opOfField false) =
          [Op.pair false 0x94 0x25, .fetch 1, .chsw, .pair false 0xC1 0xC2] := by rfl

/-- **fields_independent_full** - the statement kept open since round 3 (`C08Paint.fields_independent_full`: for every
sequence of byte pairs, each channel of field `f` is what the pairs of field `f` alone produce) holds on the tree with
the per-field selector. -/
theorem fields_independent_full (hpf : currChanPerField = true) : C08Paint.fields_independent_full := by
  intro ps f i hi hb
  unfold runPairs
  rw [← filter_pairs]
  exact (fields_independent_trace hpf f _).2.2.2 i hi hb

/-- **fields_independent_fetch**: what a client SEES of field `f`.  The page `vbi_fetch_cc_page` returns for a page
number of field `f` after any history is the page it returns after field `f`'s sub-history; since the statement holds
for every `ops`, it holds at every point of the history where the client fetches. -/
theorem fields_independent_fetch (hpf : currChanPerField = true) (f : Bool) (ops : List Op) (n : Int)
    (hn : pageOfField f n = true) :
    fetchPage (run ops) n = fetchPage (run (ops.filter (opOfField f))) n :=
  fetchPage_agree (run_proj hpf f ops init init (Agree.refl f init)) n hn

example : pageOfField false 1 = true ∧ pageOfField false 6 = true ∧ pageOfField true 3 = true ∧
    pageOfField true 8 = true ∧ pageOfField true 1 = false ∧ pageOfField false 9 = false := by decide

/-- **interleaving_irrelevant**: two histories that contain the same field-`f` stream (however the other field's pairs,
fetches of the other field's pages are interleaved, added or removed) leave field `f` in the same state and show the
same pages. -/
theorem interleaving_irrelevant (hpf : currChanPerField = true) (f : Bool) (ops1 ops2 : List Op)
    (h : ops1.filter (opOfField f) = ops2.filter (opOfField f)) :
    (run ops1).curr f = (run ops2).curr f ∧
    (∀ i, i < 8 → (((i >>> 1) &&& 1 == 1) = f) → (run ops1).chans[i]? = (run ops2).chans[i]?) ∧
    (∀ n, pageOfField f n = true → fetchPage (run ops1) n = fetchPage (run ops2) n) := by
  have B1 := run_proj hpf f ops1 init init (Agree.refl f init)
  have B2 := run_proj hpf f ops2 init init (Agree.refl f init)
  rw [h] at B1
  have B := B1.trans B2.symm
  exact ⟨B.cur, fun i h1 h2 => B.chs i ⟨h1, h2⟩, fun n hn => fetchPage_agree B n hn⟩

example : [Op.pair false 0x94 0x25, .pair true 0x1C 0x25, .pair false 0xC1 0xC2].filter (opOfField false) =
          [Op.pair true 0x80 0x80, .pair false 0x94 0x25, .fetch 7, .pair false 0xC1 0xC2].filter (opOfField false) := by
  rfl

end Zvbi.Props.C08Fields
