import ZvbiModel.Export.HtmlInst
import ZvbiModel.Props.C16Html
/-!
# C16, HTML export module: one export object used for more than one export

`Export/HtmlInst.lean` carries the eight "current attribute" fields of `html_instance` from call to call
(`HtmlInst`, `htmlExport`, `exportSeq`).  The property clause: "exporting to a caller buffer of any size, to an allocated
buffer, to a stdio stream and to a file yield byte-identical data ... reports the size actually needed" - applications
obtain these with ONE object (size query first, then the export), so the data must not depend on what the object
exported before.  Equality of the call lists gives equality of the bytes for every target (`html_targets_agree`).
-/
namespace Zvbi.Props.C16HtmlInst
open Zvbi.Export Zvbi.Export.Spec

/-- what an export hands to the write layer: `none` = the model's read-outside-the-page fault -/
def bytesOf : Except Fault (List Op) → Option Bytes
  | .ok ops => some (output ops)
  | .error _ => none

theorem htmlOpsOfI_fresh (cfg : HtmlCfg) (env : HtmlEnv) (conv : Nat → Option Nat) (colorAt : Nat → Nat) (rows : List (List HCell)) :
    htmlOpsOfI cfg env conv colorAt HtmlInst.fresh rows = htmlOpsOf cfg env conv colorAt rows := rfl

/-- **A new object.**  The first export of an object (`html_new`: `calloc`) is `htmlOps`, the function all theorems of
`Props/C16Html.lean` are about (faithful text, escaping, balanced tags, size, target agreement) - in both shapes of
`free_styles`. -/
theorem html_fresh_object (resets : Bool) (cfg : HtmlCfg) (conv : Nat → Option Nat) (env : HtmlEnv) (pg : Page) :
    (htmlExport resets cfg conv HtmlInst.fresh env pg).1 = htmlOps cfg env conv pg := by
  unfold htmlExport htmlOps
  cases regionCells pg 0 0 pg.columns pg.rows with
  | error f => rfl
  | ok cells =>
    dsimp only
    cases h : colorsOk pg env (cells.map (·.map (·.2))) with
    | true => simp only [if_true]; rfl
    | false => simp

example : bytesOf (htmlExport true ⟨true, true⟩ (fun u => some u) HtmlInst.fresh { header := false }
    ⟨1, 1, [{ unicode := 0x41, size := 0, foreground := 3, background := 4 }], [], List.replicate 40 0⟩).1
    = some (tagPre ++ tagSpanStyle ++ hashColor 0 ++ tagBgColor ++ hashColor 0 ++ tagQuoteGt ++ [0x41, 10] ++ tagSpanOff ++ tagPreOff ++ [10]) := by
  decide

/-- **State reset.**  With the eight assignments in `free_styles`, whatever state an object is in (any colours, any
flags) and whatever it exports: after an export that produced data the object is in the state `html_new` gave it. -/
theorem html_export_state_reset (cfg : HtmlCfg) (conv : Nat → Option Nat) (i : HtmlInst) (env : HtmlEnv) (pg : Page) (ops : List Op)
    (h : (htmlExport true cfg conv i env pg).1 = .ok ops) :
    (htmlExport true cfg conv i env pg).2 = HtmlInst.fresh := by
  unfold htmlExport at h ⊢
  cases hr : regionCells pg 0 0 pg.columns pg.rows with
  | error f => rw [hr] at h; cases h
  | ok cells =>
    rw [hr] at h
    dsimp only at h ⊢
    cases hc : colorsOk pg env (cells.map (·.map (·.2))) with
    | true => simp [freeStyles]
    | false => rw [hc] at h; simp at h

/-- a new object stays new -/
theorem html_fresh_stays_fresh (cfg : HtmlCfg) (conv : Nat → Option Nat) (env : HtmlEnv) (pg : Page) :
    (htmlExport true cfg conv HtmlInst.fresh env pg).2 = HtmlInst.fresh := by
  unfold htmlExport
  cases regionCells pg 0 0 pg.columns pg.rows with
  | error f => rfl
  | ok cells =>
    dsimp only
    cases hc : colorsOk pg env (cells.map (·.map (·.2))) with
    | true => simp [freeStyles]
    | false => simp

/-- **History independence.**  For every history of one export object - any number of exports, each with its own page and
option vector - every export yields exactly the calls (hence, by `html_targets_agree`, for every target exactly the bytes
and the size) a brand-new object yields for that page and those options. -/
theorem html_export_history_independent (cfg : HtmlCfg) (conv : Nat → Option Nat) (reqs : List (HtmlEnv × Page)) :
    exportSeq true cfg conv HtmlInst.fresh reqs = reqs.map fun r => htmlOps cfg r.1 conv r.2 := by
  induction reqs with
  | nil => rfl
  | cons r rest ih =>
    obtain ⟨env, pg⟩ := r
    simp only [exportSeq, List.map_cons]
    rw [html_fresh_stays_fresh, html_fresh_object, ih]

/-- **Idempotent (statement of the round).**  For every page and option vector, and whatever the object exported before
(`before`: any pages, any options): the `k`-th of `n` repeated exports of the page gives the same calls - the same bytes,
the same size - as the first one, namely those of `htmlOps`.  In particular the size query
`vbi_export_mem (e, NULL, 0, pg)` announces exactly the size of the export that follows. -/
theorem html_export_idempotent_reset (cfg : HtmlCfg) (conv : Nat → Option Nat) (before : List (HtmlEnv × Page)) (env : HtmlEnv) (pg : Page)
    (n k : Nat) (hk : k < n) :
    (exportSeq true cfg conv HtmlInst.fresh (before ++ List.replicate n (env, pg)))[before.length + k]? = some (htmlOps cfg env conv pg) ∧
    (exportSeq true cfg conv HtmlInst.fresh (before ++ List.replicate n (env, pg)))[before.length + k]?
      = (exportSeq true cfg conv HtmlInst.fresh (before ++ List.replicate n (env, pg)))[before.length]? := by
  have h0 : 0 < n := Nat.lt_of_le_of_lt (Nat.zero_le k) hk
  rw [html_export_history_independent]
  simp [hk, h0]

example : (exportSeq true ⟨true, true⟩ (fun u => some u) HtmlInst.fresh (List.replicate 3
    ({ header := false }, ⟨1, 1, [{ unicode := 0x41, size := 0, foreground := 3, background := 4 }], [], List.replicate 40 0⟩))).map bytesOf
    = List.replicate 3 (some (tagPre ++ tagSpanStyle ++ hashColor 0 ++ tagBgColor ++ hashColor 0 ++ tagQuoteGt ++ [0x41, 10] ++ tagSpanOff ++ tagPreOff ++ [10])) := by
  decide

/-- **Without the reset the statement is false** (the source shape in which `free_styles` leaves the eight fields alone):
one cell `A`, yellow on blue, `header=0`, `color=1`.  The first export opens a span for the cell (54 + 19 bytes); it ends with
foreground / background = the cell's colours, the second export takes them as `html->def`, the cell "needs no span", and the
same page comes out 54 bytes shorter, without its colours.  With the reset both exports are equal. -/
theorem html_export_reuse_counterexample :
    (exportSeq false ⟨true, true⟩ (fun u => some u) HtmlInst.fresh (List.replicate 2
      ({ header := false }, ⟨1, 1, [{ unicode := 0x41, size := 0, foreground := 3, background := 4 }], [], List.replicate 40 0⟩))).map bytesOf
      = [some (tagPre ++ tagSpanStyle ++ hashColor 0 ++ tagBgColor ++ hashColor 0 ++ tagQuoteGt ++ [0x41, 10] ++ tagSpanOff ++ tagPreOff ++ [10]),
         some (tagPre ++ [0x41, 10] ++ tagPreOff ++ [10])] := by
  decide

/-- **The tree under test.**  `currentInstReset` is measured on the compiled exp-html.c (`probehtml`: one object exports a
coloured page twice).  For the code as it is: every export of every history equals the export of a new object, and the
`k`-th repetition equals the first. -/
theorem html_export_idempotent (cfg : HtmlCfg) (conv : Nat → Option Nat) (before : List (HtmlEnv × Page)) (env : HtmlEnv) (pg : Page)
    (n k : Nat) (hk : k < n) :
    exportSeq currentInstReset cfg conv HtmlInst.fresh (before ++ List.replicate n (env, pg))
      = (before ++ List.replicate n (env, pg)).map (fun r => htmlOps cfg r.1 conv r.2) ∧
    (exportSeq currentInstReset cfg conv HtmlInst.fresh (before ++ List.replicate n (env, pg)))[before.length + k]?
      = (exportSeq currentInstReset cfg conv HtmlInst.fresh (before ++ List.replicate n (env, pg)))[before.length]? := by
  have hcur : currentInstReset = true := rfl
  rw [hcur]
  exact ⟨html_export_history_independent cfg conv _, (html_export_idempotent_reset cfg conv before env pg n k hk).2⟩

example : currentInstReset = true := rfl

end Zvbi.Props.C16HtmlInst
