import ZvbiModel.Cc.Lemmas4
import ZvbiModel.Cc.Lemmas6
import ZvbiModel.Cc.Lemmas7
import ZvbiModel.Cc.Refine14
/-!
# C08 - Closed Caption display memory follows EIA-608 for every command sequence

Property theorems only; helper lemmas are in `Cc/Lemmas*.lean`.  Model: `Cc/Model.lean`
(src/caption.c 719-1623), reference: `Cc/Spec.lean` (`Eia608`, 47 CFR 15.119).
-/
namespace Zvbi.Props.C08
open Zvbi.Cc Zvbi.Gen.Cc

/-- **cursor_inv.** For every history of byte pairs (both fields, any bytes, any parity), page fetches
and channel switches, every one of the nine channels satisfies `1 <= col1 <= col <= 33`, `row <= 14`,
`roll >= 1`, `row1 + roll <= 15`, `line` = cell `row * 34` of the hidden page, both `text[]`
arrays keep their extent, and no access recorded an out-of-bounds index or a negative size.
(Uses two facts `translate/gen_cc.py` reads from the source on every run: `ch->hidden = 0` precedes
`set_cursor()` in `vbi_caption_channel_switched` - commit 19e972f - and the PAC window clamp
`if (row1 < 0) row1 = 0;` is present; if either disappears this proof no longer builds.) -/
theorem cursor_inv (ops : List Op) : Inv (run ops) :=
  foldl_inv ops (fun _ _ => Or.inr (by decide)) _ init_inv

example : Inv (run [.pair false 0x94 0x2C, .chsw, .fetch 1]) := cursor_inv _

/-- **no_oob** (the C01 obligation of caption.c): no history of byte pairs, fetches and channel switches
makes `put_char`, `word_break`, `update`, tabs, BS, DER, CR, `erase_memory`, the PAC window move or the
channel table index leave its array. -/
theorem no_oob (ops : List Op) : (run ops).firstErr = none :=
  firstErr_none (cursor_inv ops)

example : (run [.pair true 0x15 0x2D, .chsw]).firstErr = none := no_oob _

/-- **cursor_inv for either statement order** of `vbi_caption_channel_switched`: with `set_cursor()` first
(the order before commit 19e972f, `hiddenFirst = false`) the invariant still holds for every history
WITHOUT channel switches; with `hidden = 0` first it holds for all histories. -/
theorem cursor_inv_either_order (hiddenFirst : Bool) (ops : List Op) (h : Op.chsw ∉ ops ∨ hiddenFirst = true) :
    Inv (runWith hiddenFirst ops) :=
  foldlWith_inv hiddenFirst ops (fun _ ho => h.elim (fun hn => Or.inl (fun e => hn (e ▸ ho))) Or.inr) _ init_inv

/-- the witness of finding F43 (was F17): `RCL RCL EOC EOC <channel switch> RDC` on CC1 -/
def f17Witness : List Op :=
  [.pair false 0x94 0x20, .pair false 0x94 0x20, .pair false 0x94 0x2F, .pair false 0x94 0x2F, .chsw,
   .pair false 0x94 0x29]

set_option maxRecDepth 100000 in
/-- **chsw_counterexample** (finding F43, repaired by commit 19e972f).  With the unrepaired statement order
(`set_cursor` before `ch->hidden = 0`), after `RCL RCL EOC EOC <channel switch>` CC1's `line` points into
the displayed page, and the next command (`RDC`) makes `update()` compute a destination outside `pg[]`:
the model records that error.  Stated for the model with the order given explicitly, so it keeps its
content now that the source is repaired. -/
theorem chsw_counterexample :
    (runWith false f17Witness).firstErr = some "update: line is not in pg[hidden]" := by
  decide

/-- consequence: the invariant fails on that history with the unrepaired order -/
theorem chsw_breaks_inv : ¬ Inv (runWith false f17Witness) := by
  intro hI
  have h1 := firstErr_none hI
  rw [chsw_counterexample] at h1
  cases h1

/-! ## channels and fields -/

/-- **channels_independent.** A byte pair belongs to one data channel: field `f` and channel bit `k`
(bit 3 of a control code's first byte; for characters the bit of the latest mode command).  Whatever
the pair is - any bytes, any parity, any decoder state - every channel other than caption channel
`2f + k` and text channel `2f + k + 4` keeps its memories, cursor, mode, pen and event count. -/
theorem channels_independent (s : St) (field2 : Bool) (b0 b1 : Nat) (i : Nat)
    (h1 : i ≠ pairGroup s field2 b0) (h2 : i ≠ pairGroup s field2 b0 + 4) :
    (decodePair s field2 b0 b1).chans[i]? = s.chans[i]? :=
  decodePair_untouched s field2 b0 b1 i h1 h2

example : (decodePair init false 0x94 0x2C).chans[1]? = init.chans[1]? :=
  channels_independent _ _ _ _ _ (by decide) (by decide)

/-- **f1_control_dedup, field 1.** A control pair (both bytes odd parity, first byte 0x10..0x1F) that is
not itself a repetition executes `caption_command` once and arms the latch; the identical pair sent
again changes nothing except that it clears the latch (so a third copy would execute again). -/
theorem f1_control_dedup (s : St) (b0 b1 : Nat) (hp0 : (Zvbi.Hamm.unpar8 b0).isSome = true)
    (hp1 : (Zvbi.Hamm.unpar8 b1).isSome = true) (hc : 0x10 ≤ b0 &&& 0x7F ∧ b0 &&& 0x7F ≤ 0x1F)
    (hnew : ¬ (b0 = s.last0 ∧ b1 = s.last1)) :
    decodePair s false b0 b1 = { captionCommand s (b0 &&& 0x7F) (b1 &&& 0x7F) false with last0 := b0, last1 := b1 } ∧
    decodePair (decodePair s false b0 b1) false b0 b1 = { decodePair s false b0 b1 with last0 := 0 } := by
  have e1 := decodePair_f1_control s b0 b1 hp0 hp1 hc
  rw [if_neg hnew] at e1
  refine ⟨e1, ?_⟩
  have e2 := decodePair_f1_control (decodePair s false b0 b1) b0 b1 hp0 hp1 hc
  have hl : b0 = (decodePair s false b0 b1).last0 ∧ b1 = (decodePair s false b0 b1).last1 := by rw [e1]; exact ⟨rfl, rfl⟩
  rw [if_pos hl] at e2
  exact e2

example : (decodePair (decodePair init false 0x94 0x2C) false 0x94 0x2C).chans = (decodePair init false 0x94 0x2C).chans := by
  rw [(f1_control_dedup init 0x94 0x2C (by decide) (by decide) (by decide) (by decide)).2]

/-- **f1_control_dedup, field 2.** On field 2 there is no latch: every copy of a control pair runs
`caption_command` (a doubled pair executes twice). -/
theorem f2_control_executes_each_time (s : St) (b0 b1 : Nat) (hp0 : (Zvbi.Hamm.unpar8 b0).isSome = true)
    (hp1 : (Zvbi.Hamm.unpar8 b1).isSome = true) (hc : 0x10 ≤ b0 &&& 0x7F ∧ b0 &&& 0x7F ≤ 0x1F) :
    decodePair s true b0 b1 = captionCommand { s with xds := false } (b0 &&& 0x7F) (b1 &&& 0x7F) true :=
  decodePair_f2_control s b0 b1 hp0 hp1 hc

/-! ## single commands -/

/-- **eoc_swaps.** End Of Caption (0x14/0x15/0x1C/0x1D 0x2F) selects caption channel `chan & 3`, and on
that channel (after the closing word break `x`): displayed and non-displayed memory are exchanged, the
new non-displayed memory is blank, mode is pop-on, the cursor is at row 15 column 1, and exactly one
caption event is raised. -/
theorem eoc_swaps (s : St) (c1 c2 : Nat) (f2 : Bool) (h1 : c1 &&& 7 = 4 ∨ c1 &&& 7 = 5) (h2 : c2 < 0x40)
    (h3 : c2 &&& 15 = 15) :
    captionCommand s c1 c2 f2 =
      (s.switchChannel (cmdChan s c1 f2) (cmdChan s c1 f2 &&& 3)).modCh (cmdChan s c1 f2 &&& 3) endOfCaption ∧
    ∀ ch, ChInv ch →
      let x := wordBreak { ch with mode := .popOn } true
      (endOfCaption ch).hidden = (!ch.hidden) ∧
      (endOfCaption ch).displayed = x.nonDisplayed ∧
      (endOfCaption ch).nonDisplayed = List.replicate (rows * columns) ch.ts ∧
      (endOfCaption ch).mode = .popOn ∧ (endOfCaption ch).col = 1 ∧ (endOfCaption ch).col1 = 1 ∧
      (endOfCaption ch).row = 14 ∧ (endOfCaption ch).nev = x.nev + 1 := by
  refine ⟨dispatch_eoc s c1 c2 f2 h1 h2 h3, ?_⟩
  intro ch h
  have hx := wordBreak_inv (h.withMode .popOn) true
  have ux := wordBreak_upd (h.withMode .popOn) true
  have sp := eocSwap_spec hx
  unfold endOfCaption
  refine ⟨?_, sp.2.1, ?_, ?_, sp.2.2.2.2.1, sp.2.2.2.2.2.1, sp.2.2.2.2.2.2.1, sp.2.2.2.2.2.2.2⟩
  · rw [sp.1, ux.hidden]
  · rw [sp.2.2.1, ts_of_idx ux.idx]; rfl
  · rw [sp.2.2.2.1, ux.mode]

set_option maxRecDepth 100000 in
example : (endOfCaption (init.chans.headD default)).hidden = true := by decide

/-- **edm_clears_displayed.** Erase Displayed Memory blanks the displayed memory of channel `edmChan chan` and raises a
caption event; in pop-on mode the non-displayed memory is untouched (in the other modes libzvbi's working copy is erased
as well).  `edmChan chan` is the addressed channel `chan` on a tree without the repair of finding F73, and with it
(`edmEnmOnCaption`, read from the source by translate/gen_cc.py) the CAPTION channel `chan & 3` of the data channel even
inside a Text Mode transmission (EIA-608-B 7.7 / Annex B.7) - `edm_enm_target` below states both shapes. -/
theorem edm_clears_displayed (s : St) (c1 c2 : Nat) (f2 : Bool) (h1 : c1 &&& 7 = 4 ∨ c1 &&& 7 = 5) (h2 : c2 < 0x40)
    (h3 : c2 &&& 15 = 12) :
    captionCommand s c1 c2 f2 = s.modCh (edmChan (cmdChan s c1 f2)) eraseDisplayed ∧
    ∀ ch, ChInv ch →
      (eraseDisplayed ch).displayed = List.replicate (rows * columns) ch.ts ∧
      (eraseDisplayed ch).nev = ch.nev + 1 ∧ (eraseDisplayed ch).hidden = ch.hidden ∧
      (ch.mode = .popOn → (eraseDisplayed ch).nonDisplayed = ch.nonDisplayed) :=
  ⟨dispatch_edm s c1 c2 f2 h1 h2 h3, fun _ h =>
    ⟨(eraseDisplayed_spec h).1, (eraseDisplayed_spec h).2.1, (eraseDisplayed_spec h).2.2.1, (eraseDisplayed_spec h).2.2.2.1⟩⟩

/-- **enm_clears_hidden.** Erase Non-Displayed Memory, in pop-on mode, blanks the non-displayed memory
and leaves the displayed memory and the event count alone; it acts on channel `edmChan chan` (see `edm_clears_displayed`,
`edm_enm_target`).  (In any other mode libzvbi ignores the code - recorded as a deviation from EIA-608 in NOTES/C08.md.) -/
theorem enm_clears_hidden (s : St) (c1 c2 : Nat) (f2 : Bool) (h1 : c1 &&& 7 = 4 ∨ c1 &&& 7 = 5) (h2 : c2 < 0x40)
    (h3 : c2 &&& 15 = 14) :
    captionCommand s c1 c2 f2 = s.modCh (edmChan (cmdChan s c1 f2)) eraseNonDisplayed ∧
    ∀ ch, ChInv ch → ch.mode = .popOn →
      (eraseNonDisplayed ch).nonDisplayed = List.replicate (rows * columns) ch.ts ∧
      (eraseNonDisplayed ch).displayed = ch.displayed ∧ (eraseNonDisplayed ch).nev = ch.nev :=
  ⟨dispatch_enm s c1 c2 f2 h1 h2 h3, fun _ h hm =>
    ⟨((eraseNonDisplayed_spec h).1 hm).1, ((eraseNonDisplayed_spec h).1 hm).2.1, ((eraseNonDisplayed_spec h).1 hm).2.2.1⟩⟩

/-- **edm_enm_target** (both source shapes).  Without the repair of finding F73 EDM / ENM act on the channel the control
pair addresses - a TEXT channel while a text transmission is current; with the repair they act on caption channel
`2 * field + channel bit` whatever the current class is, and never on a text channel. -/
theorem edm_enm_target (s : St) (c1 : Nat) (f2 : Bool) :
    (edmEnmOnCaption = false → edmChan (cmdChan s c1 f2) = cmdChan s c1 f2) ∧
    (edmEnmOnCaption = true → edmChan (cmdChan s c1 f2) = (if f2 then 2 else 0) + ((c1 >>> 3) &&& 1) ∧
      edmChan (cmdChan s c1 f2) < 4) := by
  refine ⟨fun h => by unfold edmChan; rw [h]; rfl, fun h => ?_⟩
  have hg := (cmdChan_group s c1 f2).2.1
  have hk : (c1 >>> 3) &&& 1 ≤ 1 := Nat.and_le_right
  have e : edmChan (cmdChan s c1 f2) = cmdChan s c1 f2 &&& 3 := by unfold edmChan; rw [h]; rfl
  rw [e, hg]
  exact ⟨rfl, by cases f2 <;> simp <;> omega⟩

example : edmChan 5 = 5 ∨ edmChan 5 = 1 := by unfold edmChan; cases edmEnmOnCaption <;> simp

/-- libzvbi's `row_mapping[]` is the PAC row table of 47 CFR 15.119 (f)(1) (`Eia608.pacRow`);
-1 exactly for the one undefined code. -/
theorem row_mapping_is_standard : ∀ c1 < 8, ∀ hi : Bool,
    rowMapping[(c1 <<< 1) + (if hi then 1 else 0)]? =
      some (match Eia608.pacRow c1 hi with | some r => (r : Int) | none => -1) := by decide

/-- **pac_positions** and the PAC half of **attributes_follow_codes.**  A Preamble Address Code
(second byte >= 0x40) runs `pac` on the addressed channel; if the channel has a mode and the row code is
defined, the cursor goes to that row (roll-up: that row becomes the base row, moved down if the window
would not fit), column 1 + indent, with `line` following, and the pen becomes `pacPen`:
underline bit, black opaque background, no flash, white for an indent code, colour k / white italics
for a colour code. -/
theorem pac_positions (s : St) (c1 c2 : Nat) (f2 : Bool) (h2 : 0x40 ≤ c2) :
    captionCommand s c1 c2 f2 = s.modCh (cmdChan s c1 f2) (fun ch => pac ch (cmdChan s c1 f2) (c1 &&& 7) c2) ∧
    ∀ ch chan, ChInv ch → ch.mode ≠ .none →
      ∀ r : Int, rowMapping[((c1 &&& 7) <<< 1) + ((c2 >>> 5) &&& 1)]? = some r → 0 ≤ r →
      let p := pac ch chan (c1 &&& 7) c2
      p.col = 1 + (if c2 &&& 0x10 != 0 then (c2 &&& 14) * 2 else 0) ∧ p.col1 = p.col ∧
      (ch.mode ≠ .rollUp → p.row = r.toNat) ∧
      (ch.mode = .rollUp → p.row1 = r.toNat + 1 - ch.roll ∧ p.row + 1 = p.row1 + ch.roll) ∧
      p.lineOff = p.row * 34 ∧ p.attr = pacPen ch.attr c2 ∧ p.mode = ch.mode :=
  ⟨dispatch_pac s c1 c2 f2 h2, fun ch chan h hm r hr hr0 => pac_spec h chan _ c2 Nat.and_le_right r hr hr0 hm⟩

/-- the colours of `palette_mapping[]` are those of 15.119 (h) in code order -/
theorem palette_is_standard : ∀ k < 7, palette k = Eia608.colourOfCode k := by decide

/-- the character tables of lang.c agree with 15.119 (g) (`Eia608.basicChar`, `Eia608.specialChar`) -/
theorem charset_is_standard :
    (∀ c, 0x20 ≤ c → c < 0x80 → captionUnicode c = Eia608.basicChar c) ∧
    (∀ k < 16, captionUnicode (0x1130 ||| k) = Eia608.specialChar k) := by
  constructor
  · have : ∀ c < 0x80, 0x20 ≤ c → captionUnicode c = Eia608.basicChar c := by decide
    exact fun c h1 h2 => this c h2 h1
  · decide


/-- **rollup_window.**  Carriage return (0x14/0x15/0x1C/0x1D 0x2D) runs `carriageReturn` on the addressed
channel; for a channel in roll-up mode with the cursor on the base row of its window
(`row + 1 = row1 + roll`, which RUx and PAC establish): in the displayed memory the base row becomes
blank, each of the `roll - 1` window rows above receives the content of the row below it (as synced by
the closing word break), every row outside the window is untouched; the cursor returns to column 1 of
the base row and at least one caption event is raised. -/
theorem rollup_window (s : St) (c1 c2 : Nat) (f2 : Bool) (h1 : c1 &&& 7 = 4 ∨ c1 &&& 7 = 5) (h2 : c2 < 0x40)
    (h3 : c2 &&& 15 = 13) :
    captionCommand s c1 c2 f2 = s.modCh (cmdChan s c1 f2) (fun ch => carriageReturn ch (cmdChan s c1 f2)) ∧
    ∀ ch chan, ChInv ch → ch.mode = .rollUp → ch.row + 1 = ch.row1 + ch.roll →
      (carriageReturn ch chan).col = 1 ∧ (carriageReturn ch chan).col1 = 1 ∧
      (carriageReturn ch chan).row = ch.row ∧ (carriageReturn ch chan).hidden = ch.hidden ∧
      ch.nev < (carriageReturn ch chan).nev ∧
      ∀ i, i < 510 → (carriageReturn ch chan).displayed[i]? =
        if ch.row * 34 ≤ i ∧ i < ch.row * 34 + 34 then some (transpSpace (decide (4 ≤ chan)))
        else if ch.row1 * 34 ≤ i ∧ i < ch.row * 34 then (update (wordBreak ch true)).displayed[i + 34]?
        else (update (wordBreak ch true)).displayed[i]? :=
  ⟨dispatch_cr s c1 c2 f2 h1 h2 h3, fun _ chan h hm hb => carriageReturn_rollup h chan hm hb⟩

/-- **attributes_follow_codes** (mid-row part; the PAC part is in `pac_positions`, the colour and
character tables in `palette_is_standard`, `charset_is_standard`).  A mid-row code (0x11/0x19 0x20..0x2F)
runs `midRow`, which types one space and leaves the pen `midRowPen`: flash off, underline = bit 0,
colour code k < 7 -> colour k non-italic; and every character typed afterwards carries the pen
(`refines_Eia608_partial`: cell = `{ attr with unicode }`).  For the italics code libzvbi also sets the
colour to white, which 15.119 (h)(1)(ii) does not allow (`refines_Eia608_counterexample`, F20). -/
theorem attributes_follow_codes (s : St) (c1 c2 : Nat) (f2 : Bool) (h1 : c1 &&& 7 = 1) (h2 : c2 < 0x40)
    (h3 : c2 &&& 0x10 = 0) :
    captionCommand s c1 c2 f2 = s.modCh (cmdChan s c1 f2) (fun ch => midRow ch c2) ∧
    ∀ ch, ChInv ch → (midRow ch c2).attr = midRowPen ch.attr c2 :=
  ⟨dispatch_midrow s c1 c2 f2 h1 h2 h3, fun _ h => midRow_attr h c2⟩

/-! ## refinement to the reference model `Eia608` -/

/-- **refines_Eia608_full** (OPEN, and false as it stands - see `refines_Eia608_counterexample`):
for every sequence of correctly transmitted byte pairs on both fields, every fetched page equals the
page the reference model makes visible.  Kept as the full-strength statement; what is proved is
`refines_Eia608_partial` below, what is checked on the real code is the well-formed script class of
checks/C08.py. -/
def refines_Eia608_full : Prop :=
  ∀ ps : List (Bool × Nat × Nat),
    (∀ p ∈ ps, (Zvbi.Hamm.unpar8 p.2.1).isSome = true ∧ (Zvbi.Hamm.unpar8 p.2.2).isSome = true) →
    ∀ i < 8, modelVisible (runPairs ps) i = some ((specPairs ps).visible i)

/-- witness of finding F20: `RCL ENM PAC(row 15, green) "A" <mid-row italics> "B" EOC` on CC1 -/
def f20Witness : List (Bool × Nat × Nat) :=
  [(false, 0x94, 0x20), (false, 0x94, 0x20), (false, 0x94, 0xAE), (false, 0x94, 0xAE), (false, 0x94, 0x62),
   (false, 0x94, 0x62), (false, 0xC1, 0x80), (false, 0x91, 0xAE), (false, 0x91, 0xAE), (false, 0xC2, 0x80),
   (false, 0x94, 0x2F), (false, 0x94, 0x2F)]

set_option maxRecDepth 1000000 in
/-- **refines_Eia608_counterexample** (finding F20).  15.119 (h)(1)(ii): colour "can only be changed by
the Mid-Row Code of another color ... the italics Mid-Row Code must follow the color assignment".
libzvbi's mid-row italics sets the foreground to white: after the witness the `B` in row 15 column 3 is
white italic in libzvbi and green italic in the reference model.  Replayed on the C code by
corpus/C08/f20-midrow-italics.ops. -/
theorem refines_Eia608_counterexample (hflag : midrowItalicsKeepsColour = false) : ¬ refines_Eia608_full := by
  intro h
  have h1 := h f20Witness (by decide) 0 (by decide)
  have h2 : (modelVisible (runPairs f20Witness) 0).map (fun l => l[14 * 34 + 3]?) =
      some (((specPairs f20Witness).visible 0)[14 * 34 + 3]?) := by rw [h1]; rfl
  have h3 : midrowItalicsKeepsColour = false →
      (modelVisible (runPairs f20Witness) 0).map (fun l => l[14 * 34 + 3]?) ≠
      some (((specPairs f20Witness).visible 0)[14 * 34 + 3]?) := by decide
  exact h3 hflag h2


/-- **refines_Eia608_partial.**  Character runs refine the reference model cell for cell: let a channel
satisfy the cursor invariant and a reference service be in some mode, with the same cursor column and
a pen that matches the channel's attributes.  Typing any run `cs` of word characters (codes 0x21..0x7E,
any length that fits the row) makes both cursors advance by `|cs|`; every cell `j` of the run holds in
libzvbi the glyph and attributes of the reference cell (`cellMatches`: same Unicode from the 15.119 (g)
table, same colour, underline, italic, flash, opacity); every other cell of libzvbi's row, the whole
other page, the event count and every other cell of the reference memory are unchanged.
Together with `pac_positions` (+ `row_mapping_is_standard`, `palette_is_standard`), `eoc_swaps`,
`edm_clears_displayed`, `enm_clears_hidden` and `rollup_window` these are the per-command pieces of the
refinement; composing them over whole pop-on / roll-up scripts (solid spaces included) is NOT proved
here - it is what checks/C08.py tests on the real code against `Eia608`. -/
theorem refines_Eia608_partial (ch : Channel) (v : Eia608.Service) (cs : List Nat) (h : ChInv ch)
    (hw : ∀ ci ∈ cs, isWordCode ci = true) (hlen : ch.col + cs.length ≤ 33)
    (hm : v.mode ≠ none) (hcol : v.col = ch.col) (hpen : penMatches ch.attr v.pen) :
    (specRun v cs).col = (charRun ch cs).col ∧ (charRun ch cs).row = ch.row ∧ (specRun v cs).row = v.row ∧
    (charRun ch cs).nev = ch.nev ∧ (charRun ch cs).pg (!ch.linePg) = ch.pg (!ch.linePg) ∧
    (∀ j, ch.col ≤ j → j < ch.col + cs.length →
      ∃ c x, rd (charRun ch cs) j = some c ∧ (specRun v cs).target v.row j = some x ∧ cellMatches c x) ∧
    (∀ j, ¬ (ch.col ≤ j ∧ j < ch.col + cs.length) → rd (charRun ch cs) j = rd ch j) ∧
    (∀ r c, ¬ (r = v.row ∧ ch.col ≤ c ∧ c < ch.col + cs.length) → (specRun v cs).target r c = v.target r c) := by
  have m := charRun_spec cs h hw hlen
  simp only at m
  obtain ⟨_, m1, _, m3, _, m5, _, _, _, m9, m10⟩ := m
  obtain ⟨s1, s2, _, _, s5⟩ := specRun_spec cs v hm (by rw [hcol]; exact hlen)
  refine ⟨by rw [s1, m1, hcol], m3, s2, m5, m9, ?_, ?_, ?_⟩
  · intro j hj1 hj2
    have hj : ch.col ≤ j ∧ j < ch.col + cs.length := ⟨hj1, hj2⟩
    have hj' : v.row = v.row ∧ v.col ≤ j ∧ j < v.col + cs.length := ⟨rfl, by rw [hcol]; exact hj1, by rw [hcol]; exact hj2⟩
    refine ⟨_, _, by rw [m10 j, dif_pos hj], by rw [s5 v.row j, dif_pos hj'], ?_⟩
    have hidx : cs[j - ch.col]'(by omega) = cs[j - v.col]'(by omega) := by simp [hcol]
    refine ⟨?_, hpen⟩
    show captionUnicode _ = Eia608.basicChar _
    rw [wordCode_std _ (hw _ (List.getElem_mem _)), hidx]
  · intro j hj
    rw [m10 j, dif_neg hj]
  · intro r c hrc
    rw [s5 r c, dif_neg (by rw [hcol]; exact hrc)]

set_option maxRecDepth 100000 in
/-- the hypotheses are met by CC1 of a fresh decoder and a fresh reference service in pop-on mode -/
example : ∃ (ch : Channel) (v : Eia608.Service), ChInv ch ∧ ch.col + [0x41, 0x42].length ≤ 33 ∧ v.mode ≠ none ∧
    v.col = ch.col ∧ penMatches ch.attr v.pen :=
  ⟨init.chans[0]'(by rw [init_inv.len]; decide), { Eia608.Service.init false with mode := some .popOn },
   init_inv.chs _ (List.getElem_mem _), by decide, by decide, by decide, by decide⟩


/-! ## events -/

/-- **event_on_change_full** (false on a tree without the repairs of finding F45 - `event_on_change_counterexample` -,
true with them - `event_on_change_repaired`): after any history (channel switches included), every byte pair that changes the displayed memory of a channel raises a caption event
for that channel. -/
def event_on_change_full : Prop :=
  ∀ (ops : List Op) (f : Bool) (b0 b1 : Nat), EvSt (run ops) (decodePair (run ops) f b0 b1)

/-- **event_on_change_partial.**  In any state reachable without a channel switch (any state with the
invariant), every byte pair - any bytes, either field - other than (a) a roll-up command RU2/RU3/RU4
and (b) a carriage return addressed to a channel in pop-on mode, leaves every channel in one of two
situations: at least one VBI_EVENT_CAPTION for that channel's page was raised, or none was raised and
the page `vbi_fetch_cc_page` returns (all 15 x 34 cells) is unchanged.  Hence between two fetches that
differ an event was raised, as long as no pair of kind (a)/(b) intervened (finding F19). -/
theorem event_on_change_partial (s : St) (hs : Inv s) (f : Bool) (b0 b1 : Nat)
    (hq : ¬ silentCmd s (b0 &&& 0x7F) (b1 &&& 0x7F) f) :
    ∀ (i : Nat) (ch ch' : Channel), s.chans[i]? = some ch → (decodePair s f b0 b1).chans[i]? = some ch' →
      ch.nev < ch'.nev ∨ (ch'.nev = ch.nev ∧ ch'.displayed = ch.displayed) :=
  (decodePair_evst hs f b0 b1 hq).2

example : ¬ silentCmd init (0x94 &&& 0x7F) (0x2C &&& 0x7F) false := by
  unfold silentCmd; decide

/-- **event_on_change_repaired.**  On a tree with the two repairs proposed for finding F45 (RUx raises the
event when it erases: `ruEraseRaisesEvent`; CR does not `update()` in pop-on mode: `crPopOnNoUpdate` - both facts
are read from the source by translate/gen_cc.py) the full statement holds: every byte pair, in every
reachable state, accounts for every change of a displayed memory by an event. -/
theorem event_on_change_repaired (h1 : ruEraseRaisesEvent = true) (h2 : crPopOnNoUpdate = true) :
    event_on_change_full := by
  intro ops f b0 b1
  exact decodePair_evst (cursor_inv ops) f b0 b1 (not_silent_of_repairs h1 h2 _ _ _ _)

/-- witness of finding F45a (was F19): a pop-on caption `AB` is on screen, then RU2 arrives -/
def f19Witness : List Op :=
  [.pair false 0x94 0x20, .pair false 0x94 0x20, .pair false 0xC1 0xC2, .pair false 0x94 0x2F, .pair false 0x94 0x2F]

set_option maxRecDepth 1000000 in
/-- **event_on_change_counterexample** (finding F45a).  Without the repair (`ruEraseRaisesEvent = false`):
after `RCL "AB" EOC` the roll-up command RU2 erases CC1's displayed memory and raises no event
(`word_break` returns early in pop-on mode, `erase_memory` never sends one).  Replayed on the C code by
corpus/C08/f19-no-event-ru.ops. -/
theorem event_on_change_counterexample (hflag : ruEraseRaisesEvent = false) : ¬ event_on_change_full := by
  intro h
  have h1 := (h f19Witness false 0x94 0x25).2 0
  have hI := cursor_inv f19Witness
  have hI' := decodePair_inv hI false 0x94 0x25
  have l1 : 0 < (run f19Witness).chans.length := by rw [hI.len]; decide
  have l2 : 0 < (decodePair (run f19Witness) false 0x94 0x25).chans.length := by rw [hI'.len]; decide
  have e3 : ruEraseRaisesEvent = false → (decodePair (run f19Witness) false 0x94 0x25).chans[0]?.map (·.nev) =
      (run f19Witness).chans[0]?.map (·.nev) := by decide
  have e4 : ruEraseRaisesEvent = false →
      (decodePair (run f19Witness) false 0x94 0x25).chans[0]?.map (fun c => c.displayed[477]?) ≠
      (run f19Witness).chans[0]?.map (fun c => c.displayed[477]?) := by decide
  have e3 := e3 hflag
  have e4 := e4 hflag
  have g1 := List.getElem?_eq_getElem l1
  have g2 := List.getElem?_eq_getElem l2
  rw [g1, g2] at e3 e4
  simp only [Option.map_some, Option.some.injEq] at e3
  rcases h1 _ _ g1 g2 with hl | ⟨_, hd⟩
  · omega
  · exact e4 (by simp only [Option.map_some, hd])


/-! ## refinement of whole caption scripts (`refines_Eia608_scripts`)

Scripts are byte pairs on field 1 addressed to CC1, every byte with odd parity, control pairs sent twice
(`ctl`), text pairs once (`txt`, second byte a character or the NUL filler).  Well-formedness is judged on
the state of the reference decoder (`streamOkB`, `rbopsOk`, `bopsOkPaint`):

* pop-on caption  `RCL ENM (PAC | text pair)* EOC`: each PAC has a defined row code and addresses a row that is
  still empty in the reference NON-displayed memory; text only after a PAC, characters 0x20..0x7F, fitting
  into the row (cursor + length <= column 33);
* roll-up script  `RUn [PAC] (text pair | CR)*`, n = 2, 3, 4, entered from a pop-on/fresh state;
* paint-on script `RDC (PAC | text pair)*`, entered from a state whose cursor row is empty on display; each PAC
  addresses a row that is empty in the reference DISPLAYED memory.

Excluded (libzvbi deviates, or the standard leaves it open - NOTES/C08.md): ENM omitted, mid-row / background /
FON / special-character / extended-character codes, tab offsets, BS, DER, EDM inside a script, a PAC to a row
that already holds text, PAC inside a roll-up line or after the first line, RUn with a new depth while in
roll-up mode, text that runs past column 32, NUL pairs between the two copies of a control pair, field 2
and the channel bit (CC2-CC4, covered at channel level: `popon_stream_refines`, `rollup_refines`,
`painton_refines` hold for every caption channel; `channels_independent` gives the separation). -/

/-- **refines_Eia608_scripts, pop-on.**  For every well-formed stream of pop-on captions fed to the fresh decoder,
after every End Of Caption the page `vbi_fetch_cc_page` returns for CC1 equals the page the reference model
makes visible - all 15 x 34 cells: characters, colours, underline, italics, flash, opacity and the solid spaces.
Induction over the captions of the stream, the rows of a caption and the characters of a row. -/
theorem refines_Eia608_scripts_popon (caps : List (List BOp)) (hok : streamOkB Eia608.init caps) :
    ∀ n, n ≤ caps.length →
      modelVisible (runPairs ((caps.take n).flatMap encCaption)) 0 =
        some ((specPairs ((caps.take n).flatMap encCaption)).visible 0) := by
  intro n hn
  rw [runPairs_eq_feed, specPairs_eq_sfeed]
  exact visible_of_simIdle (stream_bytes caps init_simIdle hok n hn)

set_option maxRecDepth 100000 in
/-- a well-formed one-caption stream: `RCL ENM PAC(row 15) "HI" EOC` -/
example : streamOkB Eia608.init [[.pac 4 0x70, .pair 0x48 0x49]] := by
  refine ⟨⟨⟨trivial, ((Eia608.Service.init false).exec .rcl).exec .enm, rfl, by decide, by decide, by decide, 14, 0, none, false, rfl,
    fun _ => rfl⟩, ⟨⟨by decide, by decide, Or.inr (by decide)⟩, _, rfl, rfl, by decide, by decide⟩, trivial⟩, trivial⟩

/-- **refines_Eia608_scripts, roll-up.**  After any well-formed stream of pop-on captions (possibly empty), a
well-formed roll-up script `RUn [PAC] (text pair | CR)*`: right after `RUn [PAC]`, after every text pair that ends
with a space and after every carriage return the fetched page equals the reference page. -/
theorem refines_Eia608_scripts_rollup (caps : List (List BOp)) (hok : streamOkB Eia608.init caps)
    (n : Nat) (h2 : 2 ≤ n) (h4 : n ≤ 4) (pac : Option (Nat × Nat))
    (hp : ∀ lo c2, pac = some (lo, c2) → lo < 8 ∧ c2 < 128 ∧ 0x40 ≤ c2 ∧ (pacArgs lo c2).isSome)
    (ops : List RBOp)
    (hops : rbopsOk (sfeed Eia608.init (caps.flatMap encCaption ++ encRollStart n pac)) ops) :
    (modelVisible (runPairs (caps.flatMap encCaption ++ encRollStart n pac)) 0 =
        some ((specPairs (caps.flatMap encCaption ++ encRollStart n pac)).visible 0)) ∧
    ∀ k, (hk0 : 0 < k) → (hk : k ≤ ops.length) → (ops[k - 1]'(by omega)).toROp.visible = true →
      modelVisible (runPairs (caps.flatMap encCaption ++ encRollStart n pac ++ (ops.take k).flatMap RBOp.enc)) 0 =
        some ((specPairs (caps.flatMap encCaption ++ encRollStart n pac ++ (ops.take k).flatMap RBOp.enc)).visible 0) := by
  have S0 := stream_bytes caps init_simIdle hok caps.length (Nat.le_refl _)
  rw [List.take_length] at S0
  have S1 := roll_start_bytes S0 h2 h4 pac hp
  rw [← feed_append, ← sfeed_append] at S1
  refine ⟨by rw [runPairs_eq_feed, specPairs_eq_sfeed]; exact visible_of_simRoll S1, ?_⟩
  intro k hk0 hk hvis
  rw [runPairs_eq_feed, specPairs_eq_sfeed, feed_append, sfeed_append]
  exact rbops_refine n ops S1 hops k hk0 hk hvis

set_option maxRecDepth 100000 in
/-- a well-formed roll-up script on the fresh decoder: `RU2 "A " CR` -/
example : rbopsOk (sfeed Eia608.init (([] : List (List BOp)).flatMap encCaption ++ encRollStart 2 none))
    [.pair 0x41 0x20, .cr] :=
  ⟨⟨by decide, by decide, Or.inr (by decide), _, rfl, by decide⟩, trivial, trivial⟩

/-- **refines_Eia608_scripts, paint-on.**  On the fresh decoder, a well-formed paint-on script
`RDC (PAC | text pair)*`: right after RDC, after every PAC and after every text pair that ends with a space the
fetched page equals the reference page.  (`paint_start_bytes` / `bops_paint_refine` give the same from any idle
state whose cursor row is empty on display; after a pop-on caption that used row 15 libzvbi's first PAC would
wipe that row - deviation D-paint in NOTES/C08.md.) -/
theorem refines_Eia608_scripts_painton (ops : List BOp)
    (hops : bopsOkPaint (sfeed Eia608.init (ctl 0x14 0x29)) false ops) :
    (modelVisible (runPairs (ctl 0x14 0x29)) 0 = some ((specPairs (ctl 0x14 0x29)).visible 0)) ∧
    ∀ k, (hk0 : 0 < k) → (hk : k ≤ ops.length) → (ops[k - 1]'(by omega)).toPOp.visible = true →
      modelVisible (runPairs (ctl 0x14 0x29 ++ (ops.take k).flatMap BOp.enc)) 0 =
        some ((specPairs (ctl 0x14 0x29 ++ (ops.take k).flatMap BOp.enc)).visible 0) := by
  have hrow : ∀ ch v, init.chans[0]? = some ch → Eia608.init.svc[0]? = some v → ∀ c, v.disp ch.row c = none := by
    intro ch v _ hv c
    have : v = Eia608.Service.init false := by
      have : Eia608.init.svc[0]? = some (Eia608.Service.init false) := rfl
      rw [this] at hv; cases hv; rfl
    rw [this]; rfl
  have S1 := paint_start_bytes init_simIdle hrow
  refine ⟨by rw [runPairs_eq_feed, specPairs_eq_sfeed]; exact visible_of_simPaint S1, ?_⟩
  intro k hk0 hk hvis
  rw [runPairs_eq_feed, specPairs_eq_sfeed, feed_append, sfeed_append]
  exact bops_paint_refine ops S1 hops k hk0 hk hvis


set_option maxRecDepth 100000 in
/-- a well-formed paint-on script on the fresh decoder: `RDC PAC(row 15) "A "` -/
example : bopsOkPaint (sfeed Eia608.init (ctl 0x14 0x29)) false [.pac 4 0x70, .pair 0x41 0x20] :=
  ⟨⟨trivial, _, rfl, by decide, by decide, by decide, 14, 0, none, false, rfl, fun _ => rfl⟩,
   ⟨⟨by decide, by decide, Or.inr (by decide)⟩, _, rfl, rfl, by decide, by decide, by decide⟩, trivial⟩

end Zvbi.Props.C08
