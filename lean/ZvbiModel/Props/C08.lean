import ZvbiModel.Cc.Lemmas4
import ZvbiModel.Cc.Lemmas6
import ZvbiModel.Cc.Lemmas7
/-!
# C08 - Closed Caption display memory follows EIA-608 for every command sequence

Property theorems only; helper lemmas are in `Cc/Lemmas*.lean`.  Model: `Cc/Model.lean`
(src/caption.c 719-1623), reference: `Cc/Spec.lean` (`Eia608`, 47 CFR 15.119).
-/
namespace Zvbi.Props.C08
open Zvbi.Cc Zvbi.Gen.Cc

/-- **cursor_inv.** For every history of byte pairs (both fields, any bytes, any parity) and page
fetches, every one of the nine channels satisfies `1 <= col1 <= col <= 33`, `row <= 14`,
`roll >= 1`, `row1 + roll <= 15`, `line` = cell `row * 34` of the hidden page, both `text[]`
arrays keep their extent, and no access recorded an out-of-bounds index or a negative size. -/
theorem cursor_inv (ops : List Op) (h : Op.chsw ∉ ops) : Inv (run ops) :=
  foldl_inv ops (fun _ ho => Or.inl (fun e => h (e ▸ ho))) _ init_inv

example : Inv (run [.pair false 0x94 0x2C, .fetch 1]) := cursor_inv _ (by simp)

/-- **no_oob** (the C01 obligation of caption.c): no history of byte pairs and fetches makes
`put_char`, `word_break`, `update`, tabs, BS, DER, CR, `erase_memory` or the channel table index
leave its array. -/
theorem no_oob (ops : List Op) (h : Op.chsw ∉ ops) : (run ops).firstErr = none :=
  firstErr_none (cursor_inv ops h)

example : (run [.pair true 0x15 0x2D]).firstErr = none := no_oob _ (by simp)

/-- **cursor_inv with channel switches**, for a tree in which `vbi_caption_channel_switched` clears
`ch->hidden` before it calls `set_cursor` (the repair proposed in fixes/cc-chsw-line-pointer.diff):
then histories may contain channel switches anywhere. -/
theorem cursor_inv_chsw (hfix : chswHiddenResetFirst = true) (ops : List Op) : Inv (run ops) :=
  foldl_inv ops (fun _ _ => Or.inr hfix) _ init_inv


/-- the witness of finding F17: `RCL RCL EOC EOC <channel switch> RDC` on CC1 -/
def f17Witness : List Op :=
  [.pair false 0x94 0x20, .pair false 0x94 0x20, .pair false 0x94 0x2F, .pair false 0x94 0x2F, .chsw,
   .pair false 0x94 0x29]

set_option maxRecDepth 100000 in
/-- **chsw_counterexample** (finding F17).  On a tree where `vbi_caption_channel_switched` calls
`set_cursor` before it clears `ch->hidden`, after `RCL RCL EOC EOC <channel switch>` CC1's `line` points
into the displayed page, and the next command (`RDC`) makes `update()` compute a destination outside
`pg[]`: the model records that error, so `cursor_inv` cannot admit channel switches on such a tree.
(When the source is repaired the generated flag becomes `true` and this theorem holds vacuously,
`cursor_inv_chsw` then applies.) -/
theorem chsw_counterexample : chswHiddenResetFirst = false →
    (run f17Witness).firstErr = some "update: line is not in pg[hidden]" := by
  decide

/-- consequence: the invariant fails on that history -/
theorem chsw_breaks_inv (hflag : chswHiddenResetFirst = false) : ¬ Inv (run f17Witness) := by
  intro hI
  have h1 := firstErr_none hI
  rw [chsw_counterexample hflag] at h1
  cases h1


/-! ## channels and fields -/

/-- **channels_independent.** A byte pair belongs to one data channel: field `f` and channel bit `k`
(bit 3 of a control code's first byte; for characters the bit of the latest mode command).  Whatever
the pair is - any bytes, any parity, any decoder state - every channel other than caption channel
`2f + k` and text channel `2f + k + 4` keeps its memories, cursor, mode, pen and event count. -/
theorem channels_independent (s : St) (field2 : Bool) (b0 b1 : Nat) (i : Nat)
    (h1 : i ≠ pairGroup s field2 b0) (h2 : i ≠ pairGroup s field2 b0 + 4) :
    (decodePair s field2 b0 b1).chans[i]? = s.chans[i]? :=
  decodePair_untouched s field2 b0 b1 i h1 h2

example : (decodePair init false 0x94 0x2C).chans[1]? = init.chans[1]? :=
  channels_independent _ _ _ _ _ (by decide) (by decide)

/-- **f1_control_dedup, field 1.** A control pair (both bytes odd parity, first byte 0x10..0x1F) that is
not itself a repetition executes `caption_command` once and arms the latch; the identical pair sent
again changes nothing except that it clears the latch (so a third copy would execute again). -/
theorem f1_control_dedup (s : St) (b0 b1 : Nat) (hp0 : (Zvbi.Hamm.unpar8 b0).isSome = true)
    (hp1 : (Zvbi.Hamm.unpar8 b1).isSome = true) (hc : 0x10 ≤ b0 &&& 0x7F ∧ b0 &&& 0x7F ≤ 0x1F)
    (hnew : ¬ (b0 = s.last0 ∧ b1 = s.last1)) :
    decodePair s false b0 b1 = { captionCommand s (b0 &&& 0x7F) (b1 &&& 0x7F) false with last0 := b0, last1 := b1 } ∧
    decodePair (decodePair s false b0 b1) false b0 b1 = { decodePair s false b0 b1 with last0 := 0 } := by
  have e1 := decodePair_f1_control s b0 b1 hp0 hp1 hc
  rw [if_neg hnew] at e1
  refine ⟨e1, ?_⟩
  have e2 := decodePair_f1_control (decodePair s false b0 b1) b0 b1 hp0 hp1 hc
  have hl : b0 = (decodePair s false b0 b1).last0 ∧ b1 = (decodePair s false b0 b1).last1 := by rw [e1]; exact ⟨rfl, rfl⟩
  rw [if_pos hl] at e2
  exact e2

example : (decodePair (decodePair init false 0x94 0x2C) false 0x94 0x2C).chans = (decodePair init false 0x94 0x2C).chans := by
  rw [(f1_control_dedup init 0x94 0x2C (by decide) (by decide) (by decide) (by decide)).2]

/-- **f1_control_dedup, field 2.** On field 2 there is no latch: every copy of a control pair runs
`caption_command` (a doubled pair executes twice). -/
theorem f2_control_executes_each_time (s : St) (b0 b1 : Nat) (hp0 : (Zvbi.Hamm.unpar8 b0).isSome = true)
    (hp1 : (Zvbi.Hamm.unpar8 b1).isSome = true) (hc : 0x10 ≤ b0 &&& 0x7F ∧ b0 &&& 0x7F ≤ 0x1F) :
    decodePair s true b0 b1 = captionCommand { s with xds := false } (b0 &&& 0x7F) (b1 &&& 0x7F) true :=
  decodePair_f2_control s b0 b1 hp0 hp1 hc

/-! ## single commands -/

/-- **eoc_swaps.** End Of Caption (0x14/0x15/0x1C/0x1D 0x2F) selects caption channel `chan & 3`, and on
that channel (after the closing word break `x`): displayed and non-displayed memory are exchanged, the
new non-displayed memory is blank, mode is pop-on, the cursor is at row 15 column 1, and exactly one
caption event is raised. -/
theorem eoc_swaps (s : St) (c1 c2 : Nat) (f2 : Bool) (h1 : c1 &&& 7 = 4 ∨ c1 &&& 7 = 5) (h2 : c2 < 0x40)
    (h3 : c2 &&& 15 = 15) :
    captionCommand s c1 c2 f2 =
      (s.switchChannel (cmdChan s c1 f2) (cmdChan s c1 f2 &&& 3)).modCh (cmdChan s c1 f2 &&& 3) endOfCaption ∧
    ∀ ch, ChInv ch →
      let x := wordBreak { ch with mode := .popOn } true
      (endOfCaption ch).hidden = (!ch.hidden) ∧
      (endOfCaption ch).displayed = x.nonDisplayed ∧
      (endOfCaption ch).nonDisplayed = List.replicate (rows * columns) ch.ts ∧
      (endOfCaption ch).mode = .popOn ∧ (endOfCaption ch).col = 1 ∧ (endOfCaption ch).col1 = 1 ∧
      (endOfCaption ch).row = 14 ∧ (endOfCaption ch).nev = x.nev + 1 := by
  refine ⟨dispatch_eoc s c1 c2 f2 h1 h2 h3, ?_⟩
  intro ch h
  have hx := wordBreak_inv (h.withMode .popOn) true
  have ux := wordBreak_upd (h.withMode .popOn) true
  have sp := eocSwap_spec hx
  unfold endOfCaption
  refine ⟨?_, sp.2.1, ?_, ?_, sp.2.2.2.2.1, sp.2.2.2.2.2.1, sp.2.2.2.2.2.2.1, sp.2.2.2.2.2.2.2⟩
  · rw [sp.1, ux.hidden]
  · rw [sp.2.2.1, ts_of_idx ux.idx]; rfl
  · rw [sp.2.2.2.1, ux.mode]

set_option maxRecDepth 100000 in
example : (endOfCaption (init.chans.headD default)).hidden = true := by decide

/-- **edm_clears_displayed.** Erase Displayed Memory blanks the displayed memory of the addressed
channel and raises a caption event; in pop-on mode the non-displayed memory is untouched (in the other
modes libzvbi's working copy is erased as well). -/
theorem edm_clears_displayed (s : St) (c1 c2 : Nat) (f2 : Bool) (h1 : c1 &&& 7 = 4 ∨ c1 &&& 7 = 5) (h2 : c2 < 0x40)
    (h3 : c2 &&& 15 = 12) :
    captionCommand s c1 c2 f2 = s.modCh (cmdChan s c1 f2) eraseDisplayed ∧
    ∀ ch, ChInv ch →
      (eraseDisplayed ch).displayed = List.replicate (rows * columns) ch.ts ∧
      (eraseDisplayed ch).nev = ch.nev + 1 ∧ (eraseDisplayed ch).hidden = ch.hidden ∧
      (ch.mode = .popOn → (eraseDisplayed ch).nonDisplayed = ch.nonDisplayed) :=
  ⟨dispatch_edm s c1 c2 f2 h1 h2 h3, fun _ h =>
    ⟨(eraseDisplayed_spec h).1, (eraseDisplayed_spec h).2.1, (eraseDisplayed_spec h).2.2.1, (eraseDisplayed_spec h).2.2.2.1⟩⟩

/-- **enm_clears_hidden.** Erase Non-Displayed Memory, in pop-on mode, blanks the non-displayed memory
and leaves the displayed memory and the event count alone.  (In any other mode libzvbi ignores the
code - recorded as a deviation from EIA-608 in NOTES/C08.md.) -/
theorem enm_clears_hidden (s : St) (c1 c2 : Nat) (f2 : Bool) (h1 : c1 &&& 7 = 4 ∨ c1 &&& 7 = 5) (h2 : c2 < 0x40)
    (h3 : c2 &&& 15 = 14) :
    captionCommand s c1 c2 f2 = s.modCh (cmdChan s c1 f2) eraseNonDisplayed ∧
    ∀ ch, ChInv ch → ch.mode = .popOn →
      (eraseNonDisplayed ch).nonDisplayed = List.replicate (rows * columns) ch.ts ∧
      (eraseNonDisplayed ch).displayed = ch.displayed ∧ (eraseNonDisplayed ch).nev = ch.nev :=
  ⟨dispatch_enm s c1 c2 f2 h1 h2 h3, fun _ h hm =>
    ⟨((eraseNonDisplayed_spec h).1 hm).1, ((eraseNonDisplayed_spec h).1 hm).2.1, ((eraseNonDisplayed_spec h).1 hm).2.2.1⟩⟩

/-- libzvbi's `row_mapping[]` is the PAC row table of 47 CFR 15.119 (f)(1) (`Eia608.pacRow`);
-1 exactly for the one undefined code. -/
theorem row_mapping_is_standard : ∀ c1 < 8, ∀ hi : Bool,
    rowMapping[(c1 <<< 1) + (if hi then 1 else 0)]? =
      some (match Eia608.pacRow c1 hi with | some r => (r : Int) | none => -1) := by decide

/-- **pac_positions** and the PAC half of **attributes_follow_codes.**  A Preamble Address Code
(second byte >= 0x40) runs `pac` on the addressed channel; if the channel has a mode and the row code is
defined, the cursor goes to that row (roll-up: that row becomes the base row, moved down if the window
would not fit), column 1 + indent, with `line` following, and the pen becomes `pacPen`:
underline bit, black opaque background, no flash, white for an indent code, colour k / white italics
for a colour code. -/
theorem pac_positions (s : St) (c1 c2 : Nat) (f2 : Bool) (h2 : 0x40 ≤ c2) :
    captionCommand s c1 c2 f2 = s.modCh (cmdChan s c1 f2) (fun ch => pac ch (cmdChan s c1 f2) (c1 &&& 7) c2) ∧
    ∀ ch chan, ChInv ch → ch.mode ≠ .none →
      ∀ r : Int, rowMapping[((c1 &&& 7) <<< 1) + ((c2 >>> 5) &&& 1)]? = some r → 0 ≤ r →
      let p := pac ch chan (c1 &&& 7) c2
      p.col = 1 + (if c2 &&& 0x10 != 0 then (c2 &&& 14) * 2 else 0) ∧ p.col1 = p.col ∧
      (ch.mode ≠ .rollUp → p.row = r.toNat) ∧
      (ch.mode = .rollUp → p.row1 = r.toNat + 1 - ch.roll ∧ p.row + 1 = p.row1 + ch.roll) ∧
      p.lineOff = p.row * 34 ∧ p.attr = pacPen ch.attr c2 ∧ p.mode = ch.mode :=
  ⟨dispatch_pac s c1 c2 f2 h2, fun ch chan h hm r hr hr0 => pac_spec h chan _ c2 Nat.and_le_right r hr hr0 hm⟩

/-- the colours of `palette_mapping[]` are those of 15.119 (h) in code order -/
theorem palette_is_standard : ∀ k < 7, palette k = Eia608.colourOfCode k := by decide

/-- the character tables of lang.c agree with 15.119 (g) (`Eia608.basicChar`, `Eia608.specialChar`) -/
theorem charset_is_standard :
    (∀ c, 0x20 ≤ c → c < 0x80 → captionUnicode c = Eia608.basicChar c) ∧
    (∀ k < 16, captionUnicode (0x1130 ||| k) = Eia608.specialChar k) := by
  constructor
  · have : ∀ c < 0x80, 0x20 ≤ c → captionUnicode c = Eia608.basicChar c := by decide
    exact fun c h1 h2 => this c h2 h1
  · decide


/-- **rollup_window.**  Carriage return (0x14/0x15/0x1C/0x1D 0x2D) runs `carriageReturn` on the addressed
channel; for a channel in roll-up mode with the cursor on the base row of its window
(`row + 1 = row1 + roll`, which RUx and PAC establish): in the displayed memory the base row becomes
blank, each of the `roll - 1` window rows above receives the content of the row below it (as synced by
the closing word break), every row outside the window is untouched; the cursor returns to column 1 of
the base row and at least one caption event is raised. -/
theorem rollup_window (s : St) (c1 c2 : Nat) (f2 : Bool) (h1 : c1 &&& 7 = 4 ∨ c1 &&& 7 = 5) (h2 : c2 < 0x40)
    (h3 : c2 &&& 15 = 13) :
    captionCommand s c1 c2 f2 = s.modCh (cmdChan s c1 f2) (fun ch => carriageReturn ch (cmdChan s c1 f2)) ∧
    ∀ ch chan, ChInv ch → ch.mode = .rollUp → ch.row + 1 = ch.row1 + ch.roll →
      (carriageReturn ch chan).col = 1 ∧ (carriageReturn ch chan).col1 = 1 ∧
      (carriageReturn ch chan).row = ch.row ∧ (carriageReturn ch chan).hidden = ch.hidden ∧
      ch.nev < (carriageReturn ch chan).nev ∧
      ∀ i, i < 510 → (carriageReturn ch chan).displayed[i]? =
        if ch.row * 34 ≤ i ∧ i < ch.row * 34 + 34 then some (transpSpace (decide (4 ≤ chan)))
        else if ch.row1 * 34 ≤ i ∧ i < ch.row * 34 then (update (wordBreak ch true)).displayed[i + 34]?
        else (update (wordBreak ch true)).displayed[i]? :=
  ⟨dispatch_cr s c1 c2 f2 h1 h2 h3, fun _ chan h hm hb => carriageReturn_rollup h chan hm hb⟩

/-- **attributes_follow_codes** (mid-row part; the PAC part is in `pac_positions`, the colour and
character tables in `palette_is_standard`, `charset_is_standard`).  A mid-row code (0x11/0x19 0x20..0x2F)
runs `midRow`, which types one space and leaves the pen `midRowPen`: flash off, underline = bit 0,
colour code k < 7 -> colour k non-italic; and every character typed afterwards carries the pen
(`refines_Eia608_partial`: cell = `{ attr with unicode }`).  For the italics code libzvbi also sets the
colour to white, which 15.119 (h)(1)(ii) does not allow (`refines_Eia608_counterexample`, F20). -/
theorem attributes_follow_codes (s : St) (c1 c2 : Nat) (f2 : Bool) (h1 : c1 &&& 7 = 1) (h2 : c2 < 0x40)
    (h3 : c2 &&& 0x10 = 0) :
    captionCommand s c1 c2 f2 = s.modCh (cmdChan s c1 f2) (fun ch => midRow ch c2) ∧
    ∀ ch, ChInv ch → (midRow ch c2).attr = midRowPen ch.attr c2 :=
  ⟨dispatch_midrow s c1 c2 f2 h1 h2 h3, fun _ h => midRow_attr h c2⟩

/-! ## refinement to the reference model `Eia608` -/

/-- **refines_Eia608_full** (OPEN, and false as it stands - see `refines_Eia608_counterexample`):
for every sequence of correctly transmitted byte pairs on both fields, every fetched page equals the
page the reference model makes visible.  Kept as the full-strength statement; what is proved is
`refines_Eia608_partial` below, what is checked on the real code is the well-formed script class of
checks/C08.py. -/
def refines_Eia608_full : Prop :=
  ∀ ps : List (Bool × Nat × Nat),
    (∀ p ∈ ps, (Zvbi.Hamm.unpar8 p.2.1).isSome = true ∧ (Zvbi.Hamm.unpar8 p.2.2).isSome = true) →
    ∀ i < 8, modelVisible (runPairs ps) i = some ((specPairs ps).visible i)

/-- witness of finding F20: `RCL ENM PAC(row 15, green) "A" <mid-row italics> "B" EOC` on CC1 -/
def f20Witness : List (Bool × Nat × Nat) :=
  [(false, 0x94, 0x20), (false, 0x94, 0x20), (false, 0x94, 0xAE), (false, 0x94, 0xAE), (false, 0x94, 0x62),
   (false, 0x94, 0x62), (false, 0xC1, 0x80), (false, 0x91, 0xAE), (false, 0x91, 0xAE), (false, 0xC2, 0x80),
   (false, 0x94, 0x2F), (false, 0x94, 0x2F)]

set_option maxRecDepth 1000000 in
/-- **refines_Eia608_counterexample** (finding F20).  15.119 (h)(1)(ii): colour "can only be changed by
the Mid-Row Code of another color ... the italics Mid-Row Code must follow the color assignment".
libzvbi's mid-row italics sets the foreground to white: after the witness the `B` in row 15 column 3 is
white italic in libzvbi and green italic in the reference model.  Replayed on the C code by
corpus/C08/f20-midrow-italics.ops. -/
theorem refines_Eia608_counterexample : ¬ refines_Eia608_full := by
  intro h
  have h1 := h f20Witness (by decide) 0 (by decide)
  have h2 : (modelVisible (runPairs f20Witness) 0).map (fun l => l[14 * 34 + 3]?) =
      some (((specPairs f20Witness).visible 0)[14 * 34 + 3]?) := by rw [h1]; rfl
  revert h2
  decide


/-- **refines_Eia608_partial.**  Character runs refine the reference model cell for cell: let a channel
satisfy the cursor invariant and a reference service be in some mode, with the same cursor column and
a pen that matches the channel's attributes.  Typing any run `cs` of word characters (codes 0x21..0x7E,
any length that fits the row) makes both cursors advance by `|cs|`; every cell `j` of the run holds in
libzvbi the glyph and attributes of the reference cell (`cellMatches`: same Unicode from the 15.119 (g)
table, same colour, underline, italic, flash, opacity); every other cell of libzvbi's row, the whole
other page, the event count and every other cell of the reference memory are unchanged.
Together with `pac_positions` (+ `row_mapping_is_standard`, `palette_is_standard`), `eoc_swaps`,
`edm_clears_displayed`, `enm_clears_hidden` and `rollup_window` these are the per-command pieces of the
refinement; composing them over whole pop-on / roll-up scripts (solid spaces included) is NOT proved
here - it is what checks/C08.py tests on the real code against `Eia608`. -/
theorem refines_Eia608_partial (ch : Channel) (v : Eia608.Service) (cs : List Nat) (h : ChInv ch)
    (hw : ∀ ci ∈ cs, isWordCode ci = true) (hlen : ch.col + cs.length ≤ 33)
    (hm : v.mode ≠ none) (hcol : v.col = ch.col) (hpen : penMatches ch.attr v.pen) :
    (specRun v cs).col = (charRun ch cs).col ∧ (charRun ch cs).row = ch.row ∧ (specRun v cs).row = v.row ∧
    (charRun ch cs).nev = ch.nev ∧ (charRun ch cs).pg (!ch.linePg) = ch.pg (!ch.linePg) ∧
    (∀ j, ch.col ≤ j → j < ch.col + cs.length →
      ∃ c x, rd (charRun ch cs) j = some c ∧ (specRun v cs).target v.row j = some x ∧ cellMatches c x) ∧
    (∀ j, ¬ (ch.col ≤ j ∧ j < ch.col + cs.length) → rd (charRun ch cs) j = rd ch j) ∧
    (∀ r c, ¬ (r = v.row ∧ ch.col ≤ c ∧ c < ch.col + cs.length) → (specRun v cs).target r c = v.target r c) := by
  have m := charRun_spec cs h hw hlen
  simp only at m
  obtain ⟨_, m1, _, m3, _, m5, _, _, _, m9, m10⟩ := m
  obtain ⟨s1, s2, _, _, s5⟩ := specRun_spec cs v hm (by rw [hcol]; exact hlen)
  refine ⟨by rw [s1, m1, hcol], m3, s2, m5, m9, ?_, ?_, ?_⟩
  · intro j hj1 hj2
    have hj : ch.col ≤ j ∧ j < ch.col + cs.length := ⟨hj1, hj2⟩
    have hj' : v.row = v.row ∧ v.col ≤ j ∧ j < v.col + cs.length := ⟨rfl, by rw [hcol]; exact hj1, by rw [hcol]; exact hj2⟩
    refine ⟨_, _, by rw [m10 j, dif_pos hj], by rw [s5 v.row j, dif_pos hj'], ?_⟩
    have hidx : cs[j - ch.col]'(by omega) = cs[j - v.col]'(by omega) := by simp [hcol]
    refine ⟨?_, hpen⟩
    show captionUnicode _ = Eia608.basicChar _
    rw [wordCode_std _ (hw _ (List.getElem_mem _)), hidx]
  · intro j hj
    rw [m10 j, dif_neg hj]
  · intro r c hrc
    rw [s5 r c, dif_neg (by rw [hcol]; exact hrc)]

set_option maxRecDepth 100000 in
/-- the hypotheses are met by CC1 of a fresh decoder and a fresh reference service in pop-on mode -/
example : ∃ (ch : Channel) (v : Eia608.Service), ChInv ch ∧ ch.col + [0x41, 0x42].length ≤ 33 ∧ v.mode ≠ none ∧
    v.col = ch.col ∧ penMatches ch.attr v.pen :=
  ⟨init.chans[0]'(by rw [init_inv.len]; decide), { Eia608.Service.init false with mode := some .popOn },
   init_inv.chs _ (List.getElem_mem _), by decide, by decide, by decide, by decide⟩


/-! ## events -/

/-- **event_on_change_full** (OPEN, false as it stands - see `event_on_change_counterexample`): after
any history, every byte pair that changes the displayed memory of a channel raises a caption event
for that channel. -/
def event_on_change_full : Prop :=
  ∀ (ops : List Op), Op.chsw ∉ ops → ∀ (f : Bool) (b0 b1 : Nat), EvSt (run ops) (decodePair (run ops) f b0 b1)

/-- **event_on_change_partial.**  In any state reachable without a channel switch (any state with the
invariant), every byte pair - any bytes, either field - other than (a) a roll-up command RU2/RU3/RU4
and (b) a carriage return addressed to a channel in pop-on mode, leaves every channel in one of two
situations: at least one VBI_EVENT_CAPTION for that channel's page was raised, or none was raised and
the page `vbi_fetch_cc_page` returns (all 15 x 34 cells) is unchanged.  Hence between two fetches that
differ an event was raised, as long as no pair of kind (a)/(b) intervened (finding F19). -/
theorem event_on_change_partial (s : St) (hs : Inv s) (f : Bool) (b0 b1 : Nat)
    (hq : ¬ silentCmd s (b0 &&& 0x7F) (b1 &&& 0x7F) f) :
    ∀ (i : Nat) (ch ch' : Channel), s.chans[i]? = some ch → (decodePair s f b0 b1).chans[i]? = some ch' →
      ch.nev < ch'.nev ∨ (ch'.nev = ch.nev ∧ ch'.displayed = ch.displayed) :=
  (decodePair_evst hs f b0 b1 hq).2

example : ¬ silentCmd init (0x94 &&& 0x7F) (0x2C &&& 0x7F) false := by
  unfold silentCmd; decide

/-- witness of finding F19: a pop-on caption `AB` is on screen, then RU2 arrives -/
def f19Witness : List Op :=
  [.pair false 0x94 0x20, .pair false 0x94 0x20, .pair false 0xC1 0xC2, .pair false 0x94 0x2F, .pair false 0x94 0x2F]

set_option maxRecDepth 1000000 in
/-- **event_on_change_counterexample** (finding F19a).  After `RCL "AB" EOC` the roll-up command RU2
erases CC1's displayed memory and raises no event (`word_break` returns early in pop-on mode,
`erase_memory` never sends one).  Replayed on the C code by corpus/C08/f19-no-event-ru.ops. -/
theorem event_on_change_counterexample : ¬ event_on_change_full := by
  intro h
  have hw : Op.chsw ∉ f19Witness := by simp [f19Witness]
  have h1 := (h f19Witness hw false 0x94 0x25).2 0
  have hI := cursor_inv f19Witness hw
  have hI' := decodePair_inv hI false 0x94 0x25
  have l1 : 0 < (run f19Witness).chans.length := by rw [hI.len]; decide
  have l2 : 0 < (decodePair (run f19Witness) false 0x94 0x25).chans.length := by rw [hI'.len]; decide
  have e3 : (decodePair (run f19Witness) false 0x94 0x25).chans[0]?.map (·.nev) =
      (run f19Witness).chans[0]?.map (·.nev) := by decide
  have e4 : (decodePair (run f19Witness) false 0x94 0x25).chans[0]?.map (fun c => c.displayed[477]?) ≠
      (run f19Witness).chans[0]?.map (fun c => c.displayed[477]?) := by decide
  have g1 := List.getElem?_eq_getElem l1
  have g2 := List.getElem?_eq_getElem l2
  rw [g1, g2] at e3 e4
  simp only [Option.map_some, Option.some.injEq] at e3
  rcases h1 _ _ g1 g2 with hl | ⟨_, hd⟩
  · omega
  · exact e4 (by simp only [Option.map_some, hd])

end Zvbi.Props.C08
