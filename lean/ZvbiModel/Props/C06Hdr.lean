import ZvbiModel.Mux.LemmasPes
import ZvbiModel.Generated.MuxConsts
/-!
# C06, round 6 - PES header fields: the PTS coding and the header constants read from the source

`encode_timestamp` (dvb_mux.c:1194) writes the 33-bit PTS in the layout of ISO 13818-1 2.4.3.7
(`'0010' PTS[32..30] 1 PTS[29..15] 1 PTS[14..0] 1`); `init_pes_packet_header` / `generate_pes_packet` write the
constants of EN 301 775 4.3.  `Zvbi.Gen.MuxConsts` is regenerated from src/dvb_mux.c and src/dvb.h on every run by
translate/gen_muxconsts.py; the theorems below tie the model (`Mux.pesHeader`, `Mux.encodeTimestamp`,
`Mux.setDataIdentifier`) to those values, so that a changed constant in the source stops this module from building.
-/
namespace Zvbi.Props.C06Hdr
open Zvbi.Mux Zvbi.Mux.EnParse
open Zvbi.Gen

/-- The five PTS bytes have the ISO 13818-1 layout, for EVERY value of the `int64_t` argument (`u` = its two's complement):
    with `v = u mod 2^33`: `0010 v[32..30] 1`, `v[29..22]`, `v[21..15] 1`, `v[14..7]`, `v[6..0] 1` - the prefix `0010`
    ("PTS only") and the three marker bits are set whatever the value. -/
theorem pts_field_layout (u : Nat) :
    encodeTimestamp u
      = [0x20 + (u % 2 ^ 33 / 2 ^ 30) * 2 + 1, u % 2 ^ 33 / 2 ^ 22 % 256, (u % 2 ^ 33 / 2 ^ 15 % 128) * 2 + 1,
         u % 2 ^ 33 / 2 ^ 7 % 256, (u % 2 ^ 33 % 128) * 2 + 1] := by
  unfold encodeTimestamp
  simp only [Nat.shiftRight_eq_div_pow, and14, or1, Nat.reducePow]
  congr 1
  · omega
  congr 1
  · omega
  congr 1
  · omega
  congr 1
  · omega
  congr 1
  omega

/-- PTS round trip, all values including wrap-around: for every `int64_t pts` (negative ones as two's complement) the
    reader of ISO 13818-1 gets back `pts mod 2^33` from the bytes `encode_timestamp` wrote - prefix and marker bits accepted. -/
theorem pts_roundtrip (pts : Int) :
    parsePts (encodeTimestamp (pts % 18446744073709551616).toNat) = some (pts % 8589934592).toNat := by
  rw [parsePts_encodeTimestamp]
  congr 1
  simp only [Nat.reducePow]
  omega

/-- the same for the model's argument (a natural number): every value, reduced mod 2^33 -/
theorem pts_roundtrip_nat (u : Nat) : parsePts (encodeTimestamp u) = some (u % 2 ^ 33) := parsePts_encodeTimestamp u

/-- Wrap-around is exact: two PTS values get the same five bytes exactly when they agree mod 2^33 (bits 33..63 of the
    argument never reach the packet, bits 0..32 all do). -/
theorem pts_wrap (u v : Nat) : encodeTimestamp u = encodeTimestamp v ↔ u % 2 ^ 33 = v % 2 ^ 33 := by
  constructor
  · intro h
    have := congrArg parsePts h
    rw [parsePts_encodeTimestamp, parsePts_encodeTimestamp] at this
    exact Option.some.inj this
  · intro h
    rw [pts_field_layout u, pts_field_layout v, h]

/-- `encode_timestamp` of the model is the C function with the shift counts, masks and the mark 0x21 the translator
    read from the source -/
theorem timestamp_code_from_source (u : Nat) :
    encodeTimestamp u
      = [ (MuxConsts.ptsMark + ((u >>> MuxConsts.tsS0) &&& MuxConsts.tsM0)) % 256,
          ((u % 2 ^ 32) >>> MuxConsts.tsS1) % 256,
          (((u % 2 ^ 32) >>> MuxConsts.tsS2) ||| MuxConsts.tsO2) % 256,
          ((u % 2 ^ 32) >>> MuxConsts.tsS3) % 256,
          ((u % 2 ^ 32) * MuxConsts.tsK4 + MuxConsts.tsO4) % 256 ] := rfl

/-- The 46 header bytes of the model are the bytes the source stores: every `mx->packet[4 + i] = v` of
    `init_pes_packet_header` (start code prefix 00 00 01, stream_id PRIVATE_STREAM_1, flags 0x84 0x80,
    PES_header_data_length 0x24), PES_packet_length = size - 6 big endian at 4 / 5, the PTS at 9, 0xFF up to the
    data_identifier at 45, first data unit at 46 - positions and values as read by translate/gen_muxconsts.py. -/
theorem header_fields_from_source (size pts did : Nat) :
    (pesHeader size pts did).length = MuxConsts.headerSize ∧ MuxConsts.firstUnitAt = MuxConsts.headerSize
    ∧ (∀ p ∈ MuxConsts.headerStores, (pesHeader size pts did).getD p.1 0 = p.2)
    ∧ (pesHeader size pts did).getD MuxConsts.lenHiAt 0 = ((size - MuxConsts.lenBias) >>> MuxConsts.lenShift) % 256
    ∧ (pesHeader size pts did).getD MuxConsts.lenLoAt 0 = (size - MuxConsts.lenBias) % 256
    ∧ ((pesHeader size pts did).drop MuxConsts.ptsAt).take 5 = encodeTimestamp pts
    ∧ MuxConsts.stuffAt = MuxConsts.ptsAt ∧ MuxConsts.stuffAt + MuxConsts.stuffLen = MuxConsts.dataIdAt
    ∧ ((pesHeader size pts did).drop (MuxConsts.ptsAt + 5)).take (MuxConsts.stuffLen - 5)
        = List.replicate (MuxConsts.stuffLen - 5) MuxConsts.stuffVal
    ∧ (pesHeader size pts did).getD MuxConsts.dataIdAt 0 = did % 256
    ∧ PRIVATE_STREAM_1 = MuxConsts.privateStream1 ∧ MAX_PES = MuxConsts.maxPesPacketSize := by
  refine ⟨length_pesHeader size pts did, rfl, ?_, ?_, ?_, ?_, rfl, rfl, ?_, ?_, rfl, rfl⟩
  · intro p hp
    simp only [MuxConsts.headerStores, List.mem_cons, List.not_mem_nil, or_false] at hp
    rcases hp with h | h | h | h | h | h | h <;> subst h <;> rfl
  · rfl
  · rfl
  · rfl
  · rfl
  · rfl

/-- `vbi_dvb_mux_set_data_identifier` accepts exactly the values in the two ranges read from the source, and these are
    exactly the values the independent reader takes as a VBI data_identifier (EN 301 775 table 2: 0x10..0x1F, 0x99..0x9B). -/
theorem data_identifier_ranges_from_source (m : Mux) (d : Nat) :
    ((setDataIdentifier m d).2 = true ↔ ∃ r ∈ MuxConsts.dataIdRanges, r.1 ≤ d ∧ d < r.2)
    ∧ ((setDataIdentifier m d).2 = true ↔ validDataId d = true) := by
  unfold setDataIdentifier validDataId
  simp only [MuxConsts.dataIdRanges, List.mem_cons, List.not_mem_nil, or_false, exists_eq_or_imp, exists_eq_left]
  constructor
  · split <;> simp_all <;> omega
  · split <;> simp_all <;> omega

/-! non-vacuity: PTS values around the wrap, a negative `int64_t` -/
example : parsePts (encodeTimestamp (2 ^ 33 - 1)) = some (2 ^ 33 - 1) ∧ parsePts (encodeTimestamp (2 ^ 33)) = some 0
    ∧ parsePts (encodeTimestamp (2 ^ 33 + 5)) = some 5 := by decide
example : ((-1 : Int) % 18446744073709551616).toNat = 2 ^ 64 - 1 ∧ ((-1 : Int) % 8589934592).toNat = 2 ^ 33 - 1 := by decide
example : encodeTimestamp 0 = [0x21, 0, 1, 0, 1] ∧ encodeTimestamp (2 ^ 33 - 1) = [0x2F, 0xFF, 0xFF, 0xFF, 0xFF] := by decide
example : (pesHeader 184 0 0x10).take 9 = [0, 0, 1, 0xBD, 0, 178, 0x84, 0x80, 0x24] := by decide
example : (setDataIdentifier newPes 0x99).2 = true ∧ (setDataIdentifier newPes 0x9C).2 = false := by decide

end Zvbi.Props.C06Hdr
