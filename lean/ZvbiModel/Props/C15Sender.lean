import ZvbiModel.Idl.RepeatSender
import ZvbiModel.Pfc.Sender
import ZvbiModel.Pfc.MultiTail
import ZvbiModel.Pfc.Witness
/-!
# C15, second part - the executable senders end to end, repeats, foreign traffic, tail loss

Property theorems only (continuation of `Props/C15.lean`).  Helper lemmas: `Idl/RepeatSender.lean`,
`Pfc/Multi.lean`, `Pfc/MultiTail.lean`, `Pfc/Sender.lean`.
-/
namespace Zvbi.Props.C15
open Zvbi.Hamm Zvbi.Gen

/-! ## IDL format A -/
section Idl
open Zvbi.Idl

/-- **Everything the IDL sender emits is a valid packet.**  For every channel, every format type
    with bit 0 clear (all RI / CI / DL options), every address of 0..6 nibbles, repeat and continuity
    indicator, user data, dummy byte value (not 0x00 / 0xFF) and padding (only with a DL byte): if the
    user data with its dummy bytes and the padding fill the packet exactly (`capacity`), the two check
    bytes that `Spec.mkPacket` computes make the packet `Spec.Pkt.Valid`: 42 bytes, and the CRC
    register over the CRC region is 0 (explicit CI) resp. `ci * 257` (CI folded into the check sum).
    Hence every theorem quantified over `Valid` packets speaks about all packets of the sender. -/
theorem idl_sender_packets_valid (channel ft ial : Nat) (spa : List Nat) (ri ci : Nat) (data : List Nat) (dummy : Nat)
    (pad : List Nat)
    (hch : channel < 16) (hft : ft < 16) (hfta : ft &&& 1 = 0) (hial : ial < 16)
    (hspa : spa.length = ial &&& 7) (hne : ial &&& 7 ≠ 7) (hspalt : ∀ n ∈ spa, n < 16)
    (hri : ri < 256) (hci : ci < 256) (hdata : ∀ b ∈ data, b < 256) (hdummy : dummy < 256)
    (hd0 : dummy ≠ 0 ∧ dummy ≠ 0xFF) (hpad : ∀ b ∈ pad, b < 256) (hpadnil : ft &&& 8 = 0 → pad = [])
    (hfit : (Spec.stuff dummy ci 0 data).length + pad.length = capacity ft (ial &&& 7)) :
    (Spec.mkPacket channel ft ial spa ri ci data dummy pad).Valid :=
  mkPacket_valid channel ft ial spa ri ci data dummy pad hch hft hfta hial hspa hne hspalt hri hci hdata hdummy hd0
    hpad hpadnil hfit

/-- a message with an RI byte, explicit CI and DL: nine 0x00 (so a dummy byte is inserted) and a 7 -/
def exMsg (dep : Nat) : Msg :=
  { ft := 14, dep := dep, ri := 0x80, data := [0, 0, 0, 0, 0, 0, 0, 0, 0, 7], dummy := 0xAA, pad := List.replicate 20 0x55 }

example : (exMsg 8).Ok 2 5 := by
  refine ⟨by decide, by decide, by decide, by decide, by decide, by decide, by decide, by decide, by decide, by decide, ?_⟩
  decide +kernel
example : (pk 3 [1, 2] 5 (exMsg 8) 0).bytes.length = 42 := by decide +kernel

/-- the state of a new demultiplexer on the current source -/
theorem idl_new_state (channel address fill : Nat) (s : St) (h : new channel address fill = some s) :
    s.channel = channel ∧ s.address = address ∧ s.ci = none ∧ s.ri = none ∧ s.flags = 0 := by
  unfold new at h
  split at h
  · cases h
  · split at h
    · cases h
    · cases h; exact ⟨rfl, rfl, rfl, rfl, rfl⟩

/-- **IDL round trip with loss, damage and repeats.**  A sender transmits messages with
    consecutive continuity indices (modulo 256, from any start value `c`), any options per message,
    to channel `channel`, address nibbles `spa`.  To each message one of these happens (`Ev`): the
    first transmission arrives intact (and any further repeats of it); it arrives damaged
    (detectably, in its CRC region) announcing a repeat - possibly several of its transmissions do -
    and the repeat announced last arrives intact; it arrives damaged announcing a repeat that never
    comes intact, or instead of which a later repeat arrives (discarded, counted as a loss); it
    arrives damaged announcing none; nothing of it arrives; unrelated packets may come in between.
    A new demultiplexer then calls back exactly
    `want false none false`: every message that arrived intact or was repaired by its repeat - once,
    in order, exact bytes, DEPENDENT as sent - and DATA_LOST exactly on the first delivery after
    something was lost (a message that is damaged and then repaired is not a loss; a gap of an
    exact multiple of 256 messages that shows only in the continuity index is not detectable). -/
theorem idl_roundtrip_lossy (channel : Nat) (spa : List Nat) (hch : channel < 16) (hspa : spa.length ≤ 6)
    (hspalt : ∀ n ∈ spa, n < 16) (fill : Nat) (s : St) (hnew : new channel (Spec.spaVal spa) fill = some s)
    (c : Nat) (evs : List Ev) (hok : EvsOk channel spa c evs) :
    (run s ((txsOf channel spa c evs).map Spec.Tx.bytes)).map (fun cb => (cb.flags, cb.bytes)) =
      want false none false evs := by
  obtain ⟨h1, h2, h3, h4, h5⟩ := idl_new_state _ _ _ s hnew
  exact run_events channel spa hch hspa hspalt evs c hok s h1 h2 false none false (by rw [h5]; rfl)
    (by rw [h3]; trivial) (by rw [h4]; trivial)

/-- The same from any state of a running demultiplexer (`pend`: DATA_LOST pending; `sync = some g`:
    the expected continuity index is that of the message `g` before the next one; `awb`: a repeat is
    awaited). -/
theorem idl_roundtrip_lossy_from (channel : Nat) (spa : List Nat) (hch : channel < 16) (hspa : spa.length ≤ 6)
    (hspalt : ∀ n ∈ spa, n < 16) (evs : List Ev) (c : Nat) (hok : EvsOk channel spa c evs)
    (s : St) (hsc : s.channel = channel) (hsa : s.address = Spec.spaVal spa)
    (pend : Bool) (sync : Option Nat) (awb : Bool)
    (hfl : s.flags = if pend then 1 else 0) (hsync : SyncRel c s.ci sync) (haw : AwRel s.ri awb) :
    (run s ((txsOf channel spa c evs).map Spec.Tx.bytes)).map (fun cb => (cb.flags, cb.bytes)) =
      want pend sync awb evs :=
  run_events channel spa hch hspa hspalt evs c hok s hsc hsa pend sync awb hfl hsync haw

/-- **IDL round trip.**  For every list of messages (any payloads incl. runs of 0x00 / 0xFF, any
    options, dummy value, padding), any channel and address, any first continuity index: when all
    first transmissions arrive (with any intact repeats of them, and unrelated packets in between),
    a new demultiplexer calls back with exactly the payloads, in order, with flags 0 (resp. DEPENDENT
    as sent) - DATA_LOST is never set. -/
theorem idl_roundtrip (channel : Nat) (spa : List Nat) (hch : channel < 16) (hspa : spa.length ≤ 6)
    (hspalt : ∀ n ∈ spa, n < 16) (fill : Nat) (s : St) (hnew : new channel (Spec.spaVal spa) fill = some s)
    (c : Nat) (evs : List Ev) (hok : EvsOk channel spa c evs)
    (hclean : ∀ e ∈ evs, (∃ m d, e = .intact m d) ∨ (∃ b, e = .foreign b)) :
    (run s ((txsOf channel spa c evs).map Spec.Tx.bytes)).map (fun cb => (cb.flags, cb.bytes)) =
      cleanPayloads evs := by
  rw [idl_roundtrip_lossy channel spa hch hspa hspalt fill s hnew c evs hok]
  exact want_clean evs hclean none rfl

/-- **A damaged packet followed by its repeat is delivered once and not flagged lost.**  A
    receiver in step with the sender (nothing pending, no repeat awaited, expecting the next index or
    nothing) gets message `m` damaged but announcing a repeat (possibly also some of its repeats
    damaged, each announcing another one: `ds`, `d`), then the repeat that the last damaged packet
    announced arrives intact (then any further repeats), then the next message `m'`: exactly two
    callbacks, `m` and `m'`, neither with DATA_LOST. -/
theorem idl_repeat_repairs (channel : Nat) (spa : List Nat) (hch : channel < 16) (hspa : spa.length ≤ 6)
    (hspalt : ∀ n ∈ spa, n < 16) (c : Nat) (m m' : Msg) (ds : List Spec.Pkt) (d : Spec.Pkt) (k : Nat) (dups : List Nat)
    (hok : EvsOk channel spa c [.repaired m ds d k dups, .intact m' []])
    (s : St) (hsc : s.channel = channel) (hsa : s.address = Spec.spaVal spa) (hfl : s.flags = 0) (hri : s.ri = none)
    (hci : s.ci = none ∨ ∃ e, s.ci = some e ∧ e % 256 = c % 256) :
    (run s ((txsOf channel spa c [.repaired m ds d k dups, .intact m' []]).map Spec.Tx.bytes)).map
      (fun cb => (cb.flags, cb.bytes)) = [(m.dep, m.data), (m'.dep, m'.data)] := by
  rcases hci with h | ⟨e, h, he⟩
  · rw [run_events channel spa hch hspa hspalt _ c hok s hsc hsa false none false (by rw [hfl]; rfl)
      (by rw [h]; trivial) (by rw [hri]; trivial)]
    simp [want, gapBad]
  · rw [run_events channel spa hch hspa hspalt _ c hok s hsc hsa false (some 0) false (by rw [hfl]; rfl)
      (by rw [h]; exact ⟨by omega, by simpa using he⟩) (by rw [hri]; trivial)]
    simp [want, gapBad]

/-- **Without the repeat the next delivery carries DATA_LOST.**  The same receiver gets packets
    damaged but announcing a repeat, no repeat arrives intact, then the next message `m'` arrives:
    one callback, `m'` with DATA_LOST. -/
theorem idl_missing_repeat_flagged (channel : Nat) (spa : List Nat) (hch : channel < 16) (hspa : spa.length ≤ 6)
    (hspalt : ∀ n ∈ spa, n < 16) (c : Nat) (m' : Msg) (ds : List Spec.Pkt) (d : Spec.Pkt)
    (hok : EvsOk channel spa c [.unrepaired ds d, .intact m' []])
    (s : St) (hsc : s.channel = channel) (hsa : s.address = Spec.spaVal spa) (hfl : s.flags = 0) (hri : s.ri = none)
    (hci : s.ci = none ∨ ∃ e, s.ci = some e ∧ e % 256 = c % 256) :
    (run s ((txsOf channel spa c [.unrepaired ds d, .intact m' []]).map Spec.Tx.bytes)).map
      (fun cb => (cb.flags, cb.bytes)) = [(1 ||| m'.dep, m'.data)] := by
  rcases hci with h | ⟨e, h, he⟩
  · rw [run_events channel spa hch hspa hspalt _ c hok s hsc hsa false none false (by rw [hfl]; rfl)
      (by rw [h]; trivial) (by rw [hri]; trivial)]
    simp [want]
  · rw [run_events channel spa hch hspa hspalt _ c hok s hsc hsa false (some 0) false (by rw [hfl]; rfl)
      (by rw [h]; exact ⟨by omega, by simpa using he⟩) (by rw [hri]; trivial)]
    simp [want]

/-- the first transmission of message `exMsg 8` with index 5, damaged in its last byte -/
def exDamaged : Spec.Pkt := { pk 3 [1, 2] 5 (exMsg 8) 0 with crcHi := (pk 3 [1, 2] 5 (exMsg 8) 0).crcHi ^^^ 1 }

/-- repeat 1 of the same message, damaged in its last byte (its RI byte 0x81 announces repeat 2) -/
def exDamaged1 (ci : Nat) : Spec.Pkt :=
  { pk 3 [1, 2] ci (exMsg 8) 1 with crcHi := (pk 3 [1, 2] ci (exMsg 8) 1).crcHi ^^^ 1 }

/-- non-vacuity: message 5 damaged and repaired by its repeat (plus a second repeat), message 6
    damaged, its repeat 1 damaged, repaired by repeat 2, message 7 damaged without its repeat, message 8
    dropped, message 9 intact: three callbacks, only the last with DATA_LOST (here DEPENDENT = 8 is
    set in all) -/
def exEvs : List Ev :=
  [.repaired (exMsg 8) [] exDamaged 1 [2], .repaired (exMsg 8) [exDamaged] (exDamaged1 6) 2 [],
   .unrepaired [] exDamaged, .dropped, .foreign (List.replicate 42 0), .intact (exMsg 8) [1]]
example : (run { channel := 3, address := 0x21, ci := none, ri := none, flags := 0 }
    ((txsOf 3 [1, 2] 5 exEvs).map Spec.Tx.bytes)).map (·.flags) = [8, 8, 9] := by
  decide +kernel
example : want false none false exEvs = [(8, (exMsg 8).data), (8, (exMsg 8).data), (9, (exMsg 8).data)] := by decide
/-- the announced repeat 1 is lost, repeat 9 arrives (its number differs from 1 only in bit 3): no callback,
    and the next message carries DATA_LOST -/
example : (run { channel := 3, address := 0x21, ci := none, ri := none, flags := 0 }
    ((txsOf 3 [1, 2] 5 [.lateRepeat (exMsg 8) [] exDamaged 9, .intact (exMsg 0) []]).map Spec.Tx.bytes)).map (·.flags) = [1] := by
  decide +kernel
example : (exDamaged1 6).ri &&& 0xF = 2 - 1 ∧ ((exDamaged1 6).residual ≠ 0) := by decide +kernel

end Idl

/-! ## Page Format Clear -/
section Pfc
open Zvbi.Pfc
open Zvbi.Pfc.Spec (Ph run)

/-- **PFC round trip.**  For EVERY list of blocks (application id 0..31, 0..2047 bytes each), every
    number of filler bytes before the first and after each block (so every alignment of every block
    relative to the packets), every distribution of the rows over pages (`sizes`, 1..25 rows per
    page), any first continuity index, page number and stream: the packets the transmitter
    `transmit` produces (`Spec.encode`: stream layout, alignment fillers, block pointers;
    `paginate`; page headers and packet addresses), fed to a new demultiplexer for that page and
    stream, are delivered as exactly the blocks, in order, with their application ids and bytes.
    Blocks of size 0 produce no callback (stated interpretation). -/
theorem pfc_roundtrip (pgno stream : Nat) (hpg1 : 0x100 ≤ pgno) (hpg2 : pgno < 0x900) (hst : stream < 16)
    (ci : Nat) (hci : ci < 16) (lead : Nat) (items : List Spec.Item)
    (hok : ∀ it ∈ items, it.app < 32 ∧ it.data.length ≤ 2047) (sizes tail : List Nat) :
    ∃ s' bl, feedAll (new pgno stream) (transmit pgno stream ci lead items sizes tail) = .ok (s', bl) ∧
      bl.map toSpec = (items.filter (fun it => !it.data.isEmpty)).map (fun it => (it.app, it.data)) :=
  transmit_delivers pgno stream hpg1 hpg2 hst ci hci lead items hok sizes tail

/-- non-vacuity: three blocks (one empty), two rows per page -/
def exItems2 : List Spec.Item := [⟨5, [1, 2, 3], 2⟩, ⟨6, [], 0⟩, ⟨7, List.range 80, 40⟩]
example : (transmit 0x1df 1 9 0 exItems2 [2] []).length = 6 := by decide +kernel
example : (blocksOf (feedAll (new 0x1df 1) (transmit 0x1df 1 9 0 exItems2 [2] []))).map (fun b => (b.1, b.2.2)) =
    [(5, [1, 2, 3]), (7, List.range 80)] := by decide +kernel

/-- **Blocks delivered as sent, with unrelated Teletext packets in between.**  Our pages (rows
    `X/1..X/n`, `n <= 25`, all arriving; continuity index counting up modulo 16), whose payloads are
    the flat stream of any sendable block sequence with usable block pointers, are received together
    with foreign traffic: *between* two of our pages (and before the first, after the last) any
    headers of other pages of our magazine or of other streams of our page, each followed by any
    rows (`Interlude`); and *anywhere*, also between the rows of our page, rows of other magazines,
    rows 26..31 and page headers of other magazines (`Transparent`; parallel transmission, repair
    e5a7d5f).  A new demultiplexer calls back with exactly the non-empty blocks, in order. -/
theorem pfc_delivers_blocks_foreign_traffic (pgno stream : Nat) (hpg1 : 0x100 ≤ pgno) (hpg2 : pgno < 0x900)
    (hst : stream < 16) (items : List (Spec.Blk × Nat)) (hitems : ∀ it ∈ items, it.1.Ok) (lead : Nat)
    (ci : Nat) (hci : ci < 16) (pages : List PageG) (hn : ∀ pg ∈ pages, pg.rows.length = pg.n ∧ pg.n ≤ 25)
    (hstream : ((allRowsG pages).map (·.2)).flatten = Spec.flat lead items)
    (hadm : Spec.AdmissibleAll .idle (allRowsG pages))
    (hint : IntersOk pgno stream true pages) (post : List (List Nat)) (hpost : Interlude pgno stream false post)
    (l : List (List Nat)) (hthin : Thin pgno l (pagesGPkts pgno stream ci pages ++ post)) :
    ∃ s' bl, feedAll (new pgno stream) l = .ok (s', bl) ∧ bl.map toSpec = Spec.delivered items := by
  have hR := run_flat items hitems lead [] []
  rw [List.append_nil, run_nil] at hR
  simp only [List.nil_append] at hR
  obtain ⟨s', bl, h1, h2, _⟩ := feed_reception pgno stream hpg1 hpg2 hst ci hci pages
    (fun pg hpg => ⟨by rw [(hn pg hpg).1]; exact Nat.le_refl _, (hn pg hpg).2, Or.inl (hn pg hpg).1⟩) hint post hpost _ .idle
    (by rw [hstream]; exact hR) hadm l hthin
  exact ⟨s', bl, h1, h2⟩

/-- **PFC round trip with foreign traffic**: the same for the rows of the executable sender
    `Spec.encode`, distributed over pages in any way - no hypothesis on block pointers left. -/
theorem pfc_roundtrip_foreign_traffic (pgno stream : Nat) (hpg1 : 0x100 ≤ pgno) (hpg2 : pgno < 0x900)
    (hst : stream < 16) (ci : Nat) (hci : ci < 16) (lead : Nat) (items : List Spec.Item)
    (hok : ∀ it ∈ items, it.app < 32 ∧ it.data.length ≤ 2047)
    (pages : List PageG) (hn : ∀ pg ∈ pages, pg.rows.length = pg.n ∧ pg.n ≤ 25)
    (hrows : allRowsG pages = Spec.encode lead items)
    (hint : IntersOk pgno stream true pages) (post : List (List Nat)) (hpost : Interlude pgno stream false post)
    (l : List (List Nat)) (hthin : Thin pgno l (pagesGPkts pgno stream ci pages ++ post)) :
    ∃ s' bl, feedAll (new pgno stream) l = .ok (s', bl) ∧
      bl.map toSpec = (items.filter (fun it => !it.data.isEmpty)).map (fun it => (it.app, it.data)) :=
  encode_reception pgno stream hpg1 hpg2 hst ci hci lead items hok pages hn hrows hint post hpost l hthin

/-! ### non-vacuity: page 1DF stream 1 in serial transmission with other pages of magazine 1 and
    parallel traffic of magazine 2 -/

/-- header of page 1E0 (closes our page), then two of its rows -/
def exInter : List (List Nat) :=
  [Spec.headerPkt 0x1e0 0 3 2 (List.replicate 34 0x20), Spec.rowPkt 0x1e0 1 0 (List.replicate 39 0x41),
   Spec.rowPkt 0x1e0 2 0 (List.replicate 39 0x42)]
/-- header of our page for stream 2 -/
def exInter2 : List (List Nat) := [Spec.headerPkt 0x1df 2 7 1 (List.replicate 34 0x20)]
/-- a row and a page header of magazine 2, a row 30 of magazine 1 -/
def exTransp : List (List Nat) :=
  [Spec.rowPkt 0x2aa 1 0 (List.replicate 39 0x43), Spec.headerPkt 0x2aa 1 9 3 (List.replicate 34 0x20),
   Spec.rowPkt 0x100 30 0 (List.replicate 39 0x44)]

def exRows : List (Nat × List Nat) := Spec.encode 0 exItems2
def exPagesG : List PageG :=
  [⟨exInter, [], 2, exRows.take 2⟩, ⟨exInter2, [], 1, exRows.drop 2⟩]

example : allRowsG exPagesG = Spec.encode 0 exItems2 := by decide +kernel
example : (blocksOf (feedAll (new 0x1df 1)
    (match pagesGPkts 0x1df 1 9 exPagesG with
     | a :: b :: c :: d :: e :: rest => exTransp ++ a :: b :: c :: d :: exTransp ++ e :: exTransp ++ rest ++ exInter
     | x => x))).map (fun b => (b.1, b.2.2)) = [(5, [1, 2, 3]), (7, List.range 80)] := by decide +kernel
example : OtherPageHeader 0x1df (Spec.headerPkt 0x1e0 0 3 2 (List.replicate 34 0x20)) :=
  ⟨by decide, 0x100, 0xe0, by decide, by decide, by decide, by decide⟩
example : Transparent 0x1df (Spec.headerPkt 0x2aa 1 9 3 (List.replicate 34 0x20)) :=
  ⟨by decide, 0x200, 0, by decide, Or.inr ⟨rfl, 0xaa, by decide, by decide⟩⟩
example : Transparent 0x1df (Spec.rowPkt 0x100 30 0 (List.replicate 39 0x44)) :=
  ⟨by decide, 0x100, 30, by decide, Or.inl ⟨by decide, Or.inr (by decide)⟩⟩

/-- **Finding F42, pinned: what the demultiplexer does when the last packets of a page are lost -
    nothing.**  On the current source (`Gen.pfcPageEndChecked = false`: the header of the next page
    does not compare the packets received with the packet count of the previous header) take any
    reception as in `pfc_delivers_blocks_foreign_traffic`, but let of each page only a prefix
    `X/1..X/k`, `k <= n`, of the `n` announced rows arrive.  As long as the grammar accepts the
    *spliced* stream (payloads of the rows that arrived, the lost rows cut out) and the block pointers
    of the arrived rows are usable for it, the demultiplexer raises no error and no reset, and
    delivers exactly what the grammar reads from the spliced stream: a block that was in progress
    when the rows were lost is completed with the bytes that follow on the next page and delivered
    with its announced size and wrong content.  (Full property: it should be discarded.  Witness:
    next theorem; replay corpus/C15/f19-pfc-tail-drop.ops; known finding F42.) -/
theorem pfc_tail_loss_reads_spliced_stream (hfinding : pfcPageEndChecked = false)
    (pgno stream : Nat) (hpg1 : 0x100 ≤ pgno) (hpg2 : pgno < 0x900) (hst : stream < 16)
    (ci : Nat) (hci : ci < 16) (pages : List PageG) (hn : ∀ pg ∈ pages, pg.rows.length ≤ pg.n ∧ pg.n ≤ 25)
    (D : List (Nat × List Nat)) (ph : Ph)
    (hrun : run .idle [] ((allRowsG pages).map (·.2)).flatten = ⟨ph, D, true⟩)
    (hadm : Spec.AdmissibleAll .idle (allRowsG pages))
    (hint : IntersOk pgno stream true pages) (post : List (List Nat)) (hpost : Interlude pgno stream false post)
    (l : List (List Nat)) (hthin : Thin pgno l (pagesGPkts pgno stream ci pages ++ post)) :
    ∃ s' bl, feedAll (new pgno stream) l = .ok (s', bl) ∧ bl.map toSpec = D ∧ phase s' = ph :=
  feed_reception pgno stream hpg1 hpg2 hst ci hci pages
    (fun pg hpg => ⟨(hn pg hpg).1, (hn pg hpg).2, Or.inr hfinding⟩) hint post hpost D ph hrun hadm l hthin

/-- **Finding F42, hypothesis-free form: the packet count of a page header beyond the rows that
    arrive has no effect at all.**  On the current source (`Gen.pfcPageEndChecked = false`), in any
    state of a demultiplexer for page `pgno` / stream `stream`: a header of ours announces `n` packets;
    then any packets arrive (`mid`: any 42 bytes each, damaged or not, of any magazine) except rows
    `b+1 .. n` of our magazine (`1 <= b <= n`) - so at most the rows `X/1 .. X/b` of our page - and then
    the next header of ours (any continuity index).  Everything the demultiplexer does - callbacks,
    final state, for every continuation `rest` - is exactly what it does when the first header
    announces only `b` packets: that `n - b` packets are missing is invisible to it.  (Proof: the
    decoder never reads `n_packets`, `Pfc/MultiTail.lean` `decode_setN`; `vbi_pfc_demux_feed` only
    compares row numbers with it; the next header overwrites it.) -/
theorem pfc_tail_loss_unnoticed (hfinding : pfcPageEndChecked = false) (pgno stream : Nat)
    (hpg1 : 0x100 ≤ pgno) (hpg2 : pgno < 0x900) (hst : stream < 16)
    (s : St) (hsp : s.pgno = pgno) (hss : s.stream = stream)
    (ci n b : Nat) (hci : ci < 16) (hn : n < 32) (hb : 1 ≤ b) (hbn : b ≤ n) (tail : List Nat)
    (mid : List (List Nat)) (hmid : ∀ buf ∈ mid, buf.length = 42 ∧ NotBetween pgno b n buf)
    (ci' n' : Nat) (hci' : ci' < 16) (hn' : n' < 32) (tail' : List Nat) (rest : List (List Nat)) :
    feedAll s (Spec.headerPkt pgno stream ci n tail :: (mid ++ Spec.headerPkt pgno stream ci' n' tail' :: rest)) =
    feedAll s (Spec.headerPkt pgno stream ci b tail :: (mid ++ Spec.headerPkt pgno stream ci' n' tail' :: rest)) :=
  tail_loss_unnoticed hfinding pgno stream hpg1 hpg2 hst s hsp hss ci n b hci hn hb hbn tail mid hmid ci' n' hci' hn'
    tail' rest

/-- non-vacuity: row X/1 of page 1DF is not one of the rows 2..2 -/
example : NotBetween 0x1df 1 2 (Spec.rowPkt 0x1df 1 0 (List.replicate 39 0x15)) := by
  intro m y h _
  have : Spec.addrOf (Spec.rowPkt 0x1df 1 0 (List.replicate 39 0x15)) = some (0x100, 1) := by decide
  rw [this] at h; cases h; omega

/-- **With the repair the loss is noticed.**  On a source whose page header branch checks the end
    of the previous page (`Gen.pfcPageEndChecked = true`, `fixes/pfc-page-continuity.diff`): a header
    of ours with the expected continuity index that arrives while announced packets of the open page
    are outstanding puts the demultiplexer into the state of a new one before opening the new page -
    the block in progress is discarded, as the property demands.  (Vacuous on the current source.) -/
theorem pfc_tail_loss_discards_when_repaired (hfix : pfcPageEndChecked = true) (s : St) (pgno stream ci n : Nat)
    (tail : List Nat) (hpg1 : 0x100 ≤ pgno) (hpg2 : pgno < 0x900) (hst : stream < 16) (hci : ci < 16) (hn : n < 32)
    (hs : s.pgno = pgno) (hss : s.stream = stream) (hopen : s.nPackets > 0) (hmissing : s.packet ≠ s.nPackets + 1) :
    feed s (Spec.headerPkt pgno stream ci n tail) =
      .ok ⟨{ reset s with ci := (ci + 1) &&& 15, packet := 1, nPackets := n }, true, []⟩ := by
  rw [feed_header s pgno stream ci n tail hpg1 hpg2 hst hci hn hs hss]
  have : pageEnd s = reset s := by
    unfold pageEnd; rw [hfix]; simp [hopen, hmissing]
  rw [this]
  split <;> rfl

/-- a transmission of `Spec.encode`: block (app 5, bytes 0..72) fills rows 1 and 2 of the first page
    exactly, block (app 6, 34 bytes) is row 1 of the second page, block (app 7) follows in row 2 -/
def spliceItems : List Spec.Item :=
  [⟨5, List.range 73, 0⟩, ⟨6, (List.range 34).map (· + 100), 0⟩, ⟨7, [1, 2, 3], 0⟩]
def spliceRows : List (Nat × List Nat) := Spec.encode 0 spliceItems
/-- ... as received: row 2 of the first page (the last 39 bytes of block 5) is lost -/
def splicePages : List PageG :=
  [⟨[], List.replicate 34 0x20, 2, spliceRows.take 1⟩, ⟨[], List.replicate 34 0x20, 2, spliceRows.drop 2⟩]

/-- **Finding F42 (witness of the previous theorem).**  `splicePages` is such a reception (one row
    of two arrives), the grammar accepts the spliced stream and reads from it a block (app 5, 73 bytes)
    whose last 39 bytes are the separator, structure header and data of block 6, then block 7 - and
    this is what the demultiplexer delivers: block 5 is delivered damaged instead of discarded and
    block 6 is swallowed, with no error reported.  Replay: corpus/C15/f42-pfc-tail-splice.ops
    (corpus/C15/f19-pfc-tail-drop.ops is the variant that ends in a resynchronisation). -/
theorem pfc_tail_loss_spliced_counterexample :
    (∀ pg ∈ splicePages, pg.rows.length ≤ pg.n ∧ pg.n ≤ 25) ∧
    (run .idle [] ((allRowsG splicePages).map (·.2)).flatten).ok = true ∧
    Spec.admissibleB .idle (allRowsG splicePages) = true ∧
    (run .idle [] ((allRowsG splicePages).map (·.2)).flatten).out =
      [(5, List.range 34 ++ (Spec.blockBytes ⟨6, (List.range 34).map (· + 100)⟩)), (7, [1, 2, 3])] ∧
    (blocksOf (feedAll (new 0x1df 1) (pagesGPkts 0x1df 1 5 splicePages))).map (fun b => (b.1, b.2.2)) =
      [(5, List.range 34 ++ (Spec.blockBytes ⟨6, (List.range 34).map (· + 100)⟩)), (7, [1, 2, 3])] := by
  decide +kernel

/-- ... and the same packets with the first header announcing 1 packet instead of 2 give the same result
    (instance of `pfc_tail_loss_unnoticed`) -/
example : (feedAll (new 0x1df 1) (pagesGPkts 0x1df 1 5 splicePages)).toOption =
    (feedAll (new 0x1df 1) (pagesGPkts 0x1df 1 5
      [⟨[], List.replicate 34 0x20, 1, spliceRows.take 1⟩, ⟨[], List.replicate 34 0x20, 2, spliceRows.drop 2⟩])).toOption ∧
    (feedAll (new 0x1df 1) (pagesGPkts 0x1df 1 5 splicePages)).toOption.isSome = true := by
  decide +kernel

/-- the same reception with all rows arriving delivers the three blocks as sent -/
example : (blocksOf (feedAll (new 0x1df 1) (pagesGPkts 0x1df 1 5
    [⟨[], List.replicate 34 0x20, 2, spliceRows.take 2⟩, ⟨[], List.replicate 34 0x20, 2, spliceRows.drop 2⟩]))).map
      (fun b => (b.1, b.2.2)) = [(5, List.range 73), (6, (List.range 34).map (· + 100)), (7, [1, 2, 3])] := by
  decide +kernel

end Pfc

end Zvbi.Props.C15
