import ZvbiModel.Cc.Model
/-!
# C08, continued - byte level of `vbi_decode_caption`: parity errors, NUL bytes, the 0x01..0x0F boundary

Property theorems only (each follows from the definition of `decodeMain` / `decodePair` by case analysis; no helper
lemmas).  Model `Cc/Model.lean` (src/caption.c `vbi_decode_caption`); `unpar8 b = none` = odd-parity check failed.
These pin down, for ALL states and bytes, the statements that the single-token mutants of the mutation run changed
(first- vs second-byte parity test, which byte is replaced by the block, `>= 0` vs `> 0`, `0x01 ... 0x0F` vs `0x00 ...`).
-/
namespace Zvbi.Props.C08Parity
open Zvbi.Cc Zvbi.Gen.Cc
open Zvbi.Hamm (unpar8)

/-- **parity_error_first_byte.**  A pair whose FIRST byte fails the parity check is decoded exactly like the pair
(0x7F, 0x7F) - both bytes are replaced by the "bad" glyph, whatever the second byte was and whether or not its own
parity is good - in every state, on both fields (behind the XDS gate; on field 2 such a pair is swallowed while an
XDS packet is open and changes nothing then). -/
theorem parity_error_first_byte (s : St) (b0 b1 : Nat) (h : (unpar8 b0).isNone = true) :
    (∀ f, decodeMain s f b0 b1 = decodeMain s f 127 127) ∧
    decodePair s false b0 b1 = decodePair s false 127 127 ∧
    decodePair s true b0 b1 = (if s.xds then s else decodeMain s true 127 127) := by
  have e : (unpar8 127).isNone = false := by decide
  have hs : (unpar8 b0).isSome = false := by
    cases hh : unpar8 b0 <;> simp_all
  have hm : ∀ f, decodeMain s f b0 b1 = decodeMain s f 127 127 := by
    intro f
    unfold decodeMain
    simp only [h, e, if_true, Bool.false_eq_true, if_false]
    rfl
  refine ⟨hm, ?_, ?_⟩
  · unfold decodePair xdsGate
    simp only [Bool.false_eq_true, if_false]
    exact hm false
  · unfold decodePair xdsGate xdsConsumed
    simp only [hs, if_true, Bool.false_eq_true, if_false, false_and, and_false]
    by_cases hx : s.xds = true
    · simp only [hx, if_true]
    · simp only [hx, if_false, Bool.false_eq_true]
      exact hm true

/-- the block pair is a TEXT pair: two U+25A0 cells (or nothing in a channel without mode), the field-1 latch cleared -/
example (s : St) : decodeMain s false 127 127 =
    ({ s with last0 := 0 } : St).modCh ((s.curr false &&& 5) + 0) (fun ch => textPair ch 127 127) := by
  unfold decodeMain
  have e : (unpar8 127).isNone = false := by decide
  simp [e]

/-- **parity_error_second_byte_of_control.**  A control pair (first byte good, 0x10..0x1F) whose SECOND byte fails the
parity check executes nothing: on field 2 the state is unchanged, on field 1 only the repetition latch is cleared
(so the redundant copy that follows is executed as the first one). -/
theorem parity_error_second_byte_of_control (s : St) (f : Bool) (b0 b1 : Nat) (h0 : (unpar8 b0).isNone = false)
    (hc : 0x10 ≤ b0 &&& 0x7F ∧ b0 &&& 0x7F ≤ 0x1F) (h1 : (unpar8 b1).isSome = false) :
    decodeMain s f b0 b1 = (if f then s else { s with last0 := 0 }) := by
  unfold decodeMain
  have n1 : ¬ (1 ≤ b0 &&& 0x7F ∧ b0 &&& 0x7F ≤ 0x0F) := by omega
  simp only [h0, Bool.false_eq_true, if_false, n1, hc, and_self, if_true, h1]
  cases f <;> simp

/-- **control_second_byte_zero_is_executed.**  The second byte 0x80 (NUL with good parity, `vbi_unpar8` = 0, not
negative) is NOT a parity error: a control pair `c1 0x80` that is not the field-1 repetition runs
`caption_command (c1, 0)` (field 2: every time) - the `>= 0` of the parity test, as coded. -/
theorem control_second_byte_zero_is_executed (s : St) (b0 : Nat) (h0 : (unpar8 b0).isNone = false)
    (hc : 0x10 ≤ b0 &&& 0x7F ∧ b0 &&& 0x7F ≤ 0x1F) :
    decodeMain s true b0 0x80 = captionCommand s (b0 &&& 0x7F) 0 true := by
  unfold decodeMain
  have n1 : ¬ (1 ≤ b0 &&& 0x7F ∧ b0 &&& 0x7F ≤ 0x0F) := by omega
  have e : (unpar8 0x80).isSome = true := by decide
  simp only [h0, Bool.false_eq_true, if_false, n1, hc, and_self, if_true, e]
  simp

/-- **nul_first_byte_is_text.**  The range that only clears the latch is 0x01..0x0F, NOT 0x00..0x0F: a pair whose first
byte is the NUL filler 0x80 is a text pair - `0x80 0x80` runs the idle counter (`nulPair`: word break after the
second idle pair), `0x80 c` with another second byte types `c` into the current channel of the field. -/
theorem nul_first_byte_is_text (s : St) (f : Bool) (b1 : Nat) :
    decodeMain s f 0x80 0x80 = s.modCh ((s.curr f &&& 5) + (if f then 2 else 0)) nulPair ∧
    (b1 ≠ 0x80 → decodeMain s f 0x80 b1 =
      (if !f then { s with last0 := 0 } else s).modCh ((s.curr f &&& 5) + (if f then 2 else 0))
        (fun ch => textPair ch 0x80 b1)) := by
  have e : (unpar8 0x80).isNone = false := by decide
  constructor
  · unfold decodeMain
    simp [e]
  · intro hb
    unfold decodeMain
    simp [e, hb]

/-- non-vacuity of the hypotheses: 0x00 fails the parity check, 0x94 (RCL first byte) passes and is a control byte,
0x21 as second byte fails -/
example : (unpar8 0x00).isNone = true ∧ (unpar8 0x94).isNone = false ∧ (0x10 ≤ 0x94 &&& 0x7F ∧ 0x94 &&& 0x7F ≤ 0x1F) ∧
    (unpar8 0x21).isSome = false := by decide

end Zvbi.Props.C08Parity
