import ZvbiModel.Search.Model
import ZvbiModel.Search.Matcher
import ZvbiModel.Search.LemmasCache
import ZvbiModel.Search.LemmasSearch
import ZvbiModel.Search.LemmasExact
import ZvbiModel.Search.Spec
import ZvbiModel.Search.Counterexamples
/-!
# C17 - search finds exactly the pages containing the pattern, in page order, and ends

Theorems about `ZvbiModel/Search/Model.lean` (cache.c `_vbi_cache_foreach_page`, `_vbi_cache_put_page` statistics,
search.c).  The regular expression engine and the page formatter are parameters (`Exec`, `Entry.text`).
`walk`, `searchNext` model the CURRENT code (after the repairs F5a, F5b).  Where a full statement is false on
the current code the hypothesis that excludes the failure is explicit and a `_counterexample` theorem gives the
witness that is replayed on the C code (corpus/C17/D*.ops).
-/
namespace Zvbi.Props.C17
open Zvbi.Search

/-- **walk_terminates.** `_vbi_cache_foreach_page` returns for EVERY cache content (empty, hex pages, sub-page
numbers >= 0x100, inconsistent statistics), every callback, every start position and both directions: the fuel
`walkFuel` = 2 sweeps x 0x800 page numbers x 0x10001 sub-page positions is never exhausted. -/
theorem walk_terminates {σ : Type} (cb : Callback σ) (c : Cache) (s : σ) (pgno subno dir : Int)
    (hdir : dir = 1 ∨ dir = -1) : (walk cb walkFuel c s pgno subno dir).res ≠ .outOfFuel := by
  unfold walk
  by_cases h0 : c.nCached = 0
  · simp [h0]
  · simp only [h0, if_false]
    generalize getPage c pgno subno = g
    obtain ⟨cp, c1⟩ := g
    simp only
    by_cases hp : pgno < 0x100 ∨ pgno > 0x8FF
    · simp [hp]
    · simp only [hp, if_false]
      have hp' : PgOk pgno := by unfold PgOk; omega
      rcases hdir with rfl | rfl
      · exact loop_fwd_terminates cb _ _ _ _ _ _ _ hp' (rankF_lt_fuel hp' _ _)
      · exact loop_bwd_terminates cb _ _ _ _ _ _ _ hp' (rankB_lt_fuel hp' _ _)

example : (walk (fun (s : Nat) _ _ _ => (0, s + 1)) walkFuel Cache.empty 0 0x100 0 1).res = .ret 0 := by rfl

/-- **walk_no_assert.** The only assertion on the path (`cache_network_page_stat`: page number in 0x100..0x8FF)
fires exactly when the cache is non-empty and the START page number is outside that range; the `--ps` / `++ps`
pointer walk itself never leaves the statistics array. -/
theorem walk_no_assert {σ : Type} (cb : Callback σ) (fuel : Nat) (c : Cache) (s : σ) (pgno subno dir : Int) :
    (walk cb fuel c s pgno subno dir).res = .assertFail ↔ (c.nCached ≠ 0 ∧ (pgno < 0x100 ∨ pgno > 0x8FF)) := by
  unfold walk
  by_cases h0 : c.nCached = 0
  · simp [h0]
  · simp only [h0, if_false]
    generalize getPage c pgno subno = g
    obtain ⟨cp, c1⟩ := g
    simp only
    by_cases hp : pgno < 0x100 ∨ pgno > 0x8FF
    · simp [hp, h0]
    · have hp' : (pgno < 0x100 ∨ pgno > 0x8FF) = False := by simpa using hp
      simp only [hp', if_false]
      constructor
      · intro h; exact absurd h (loop_no_assert cb dir fuel _ _ _ _ _ _)
      · intro h; exact h.2.elim

example : (walk (fun (s : Nat) _ _ _ => (0, s)) 5 (put Cache.empty 0x100 0 0 []) 0 0x99 0 1).res = .assertFail := by
  rw [walk_no_assert]; exact ⟨by decide, by decide⟩

/-- **walk_refines.** (refinement to a specification) For every callback the walk is the left fold of that callback
over the pages found at `walkPositions` - a list that depends on the page statistics only - stopping at the first
non-zero return value, and returning -1 at the end.  The most-recently-used reordering of the hash chains performed
by every look-up does not influence it.  Hypothesis: no statistics window reaches the wildcard sub-page number
0x3F7F (otherwise `walk_order_counterexample_any`). -/
theorem walk_refines {σ : Type} (cb : Callback σ) (c : Cache) (s : σ) (pgno subno dir : Int) (hno : NoAny c)
    (hne : c.nCached ≠ 0) (hp : PgOk pgno) (hdir : dir = 1 ∨ dir = -1) :
    (walk cb walkFuel c s pgno subno dir).res = .ret (runPos cb c (walkPositions c pgno subno dir) s).1 ∧
    (walk cb walkFuel c s pgno subno dir).st = (runPos cb c (walkPositions c pgno subno dir) s).2 :=
  walk_factors cb c s pgno subno dir hno hne hp hdir

example : NoAny Cache.empty := fun _ => by show (0 : UInt16).toNat < 0x3F7F; decide

/-- **walk_order.** The positions are probed in strictly ascending (forward) resp. descending (backward)
(sweep, page number, sub-page number) order, beginning at the start position, wrapping once; every position after
the first lies inside the statistics window of a valid page number.  In particular no position is probed twice. -/
theorem walk_order (c : Cache) (pgno subno : Int) (hp : PgOk pgno) :
    (walkPositions c pgno subno 1).Pairwise LtF ∧ (walkPositions c pgno subno (-1)).Pairwise LtB ∧
    (∀ dir, dir = 1 ∨ dir = -1 → ∀ x ∈ (walkPositions c pgno subno dir).tail,
        PgOk x.1 ∧ inRange (c.stat x.1) x.2.1 = true) := by
  unfold walkPositions
  obtain ⟨f1, f2⟩ := positions_sorted_fwd c walkFuel pgno (startSub c pgno subno) false hp
  obtain ⟨b1, b2⟩ := positions_sorted_bwd c walkFuel pgno (startSub c pgno subno) false hp
  refine ⟨?_, ?_, ?_⟩
  · rw [List.pairwise_cons]; exact ⟨fun x hx => (f1 x hx).1, f2⟩
  · rw [List.pairwise_cons]; exact ⟨fun x hx => (b1 x hx).1, b2⟩
  · intro dir hdir x hx
    simp only [List.tail_cons] at hx
    rcases hdir with rfl | rfl
    · exact (f1 x hx).2
    · exact (b1 x hx).2

example : walkPositions Cache.empty 0x100 0 1 = [(0x100, 0, false)] := by decide +kernel

/-- **walk_complete.** Every position inside a statistics window - hence every cached page the statistics cover - is
probed in the second (wrapped) sweep, whatever the start position and direction; by `walk_order` exactly once. -/
theorem walk_complete (c : Cache) (pgno subno dir : Int) (hp : PgOk pgno) (hdir : dir = 1 ∨ dir = -1)
    (q t : Int) (hq : PgOk q) (hin : inRange (c.stat q) t = true) :
    (q, t, true) ∈ walkPositions c pgno subno dir := by
  unfold walkPositions
  apply List.mem_cons_of_mem
  rcases hdir with rfl | rfl
  · exact positions_complete_fwd c walkFuel pgno _ false hp (rankF_lt_fuel hp _ _) q t true hq hin (Or.inr ⟨rfl, rfl⟩)
  · exact positions_complete_bwd c walkFuel pgno _ false hp (rankB_lt_fuel hp _ _) q t true hq hin (Or.inr ⟨rfl, rfl⟩)

/-- **walk_complete_first_sweep.** Before wrapping, a forward walk probes every window position on later page
numbers, and the rest of the start page PROVIDED `start + 1` is not below the window (`AheadF`); mirror image
backward (`AheadB`).  The proviso is necessary: `start_page_skipped_counterexample`. -/
theorem walk_complete_first_sweep (c : Cache) (pgno subno : Int) (hp : PgOk pgno) (q t : Int) (hq : PgOk q)
    (hin : inRange (c.stat q) t = true) :
    (AheadF c pgno (startSub c pgno subno) false q t false → (q, t, false) ∈ walkPositions c pgno subno 1) ∧
    (AheadB c pgno (startSub c pgno subno) false q t false → (q, t, false) ∈ walkPositions c pgno subno (-1)) := by
  unfold walkPositions
  constructor
  · intro h; apply List.mem_cons_of_mem
    exact positions_complete_fwd c walkFuel pgno _ false hp (rankF_lt_fuel hp _ _) q t false hq hin h
  · intro h; apply List.mem_cons_of_mem
    exact positions_complete_bwd c walkFuel pgno _ false hp (rankB_lt_fuel hp _ _) q t false hq hin h

/-- **walk_complete_cached.** If the statistics cover the cached pages (`Covered`), every cached page is found at a
probed position of the wrapped sweep: the look-up there returns the first page of the chain with that number. -/
theorem walk_complete_cached (c : Cache) (hcov : Covered c) (pgno subno dir : Int) (hp : PgOk pgno)
    (hdir : dir = 1 ∨ dir = -1) (q : Nat) (hq : PgOk q) (e : Entry) (he : e ∈ (c.slots q).chain) :
    ((q : Int), (e.subno : Int), true) ∈ walkPositions c pgno subno dir := by
  apply walk_complete c pgno subno dir hp hdir q e.subno hq
  obtain ⟨h1, h2, h3⟩ := hcov q e he
  rw [inRange_iff]
  unfold Cache.stat
  simp only [Int.toNat_natCast]
  exact ⟨h1, by omega, by omega⟩

/-- **stats_invariant.** After every history of page stores (sub-codes as the decoder delivers them, <= 0x3F7F) the
statistics satisfy: `n_subpages` = number of cached pages of that number modulo 256, `subno_min <= subno_max`, every
cached sub-page number <= `subno_max` <= 0x3F7F.  (That `subno_min` is a lower bound, and that `n_subpages` is
non-zero when pages are cached, do NOT follow: `stats_min_counterexample`, `stats_count_counterexample`.) -/
theorem stats_invariant (ops : List PutOp) (h : ∀ o ∈ ops, o.subno ≤ 0x3F7F) : Inv (build ops) :=
  foldl_inv ops h Cache.empty empty_inv

example : Inv (build [⟨0x100, 0, 0, []⟩, ⟨0x100, 5, 0, []⟩]) := stats_invariant _ (by decide)

/-- **search_next_refines.** `vbi_search_next` = the status mapping applied to the fold of `search_page_fwd` /
`search_page_rev` over the pages found at the walk positions from the current start position. -/
theorem search_next_refines (exec : Exec) (c : Cache) (s : SearchSt) (d : Int) (hno : NoAny c) (hne : c.nCached ≠ 0)
    (hp : PgOk (prepare s d).startPgno) :
    (searchNext exec walkFuel c s d).res =
      statusOf (runPos (callbackOf exec d) c
        (walkPositions c (prepare s d).startPgno (prepare s d).startSubno (dirOf d)) (prepare s d)).1 :=
  searchNext_factors exec c s d hno hne hp

/-- **search_success_sound.** When a forward `vbi_search_next` reports SUCCESS, the page it returns was found at one of
the walk positions, is a level one page, and the matcher reported the occurrence [ms, me) in its text from the
cursor on; the new search context is `highlight` of exactly that occurrence. -/
theorem search_success_sound (exec : Exec) (c : Cache) (s : SearchSt) (d : Int) (hd : d > 0) (hno : NoAny c)
    (hne : c.nCached ≠ 0) (hp : PgOk (prepare s d).startPgno)
    (h : (searchNext exec walkFuel c s d).res = .ret SEARCH_SUCCESS) :
    ∃ p sub w e s0 ms me, (p, sub, w) ∈ walkPositions c (prepare s d).startPgno (prepare s d).startSubno 1 ∧
      lookup c p sub = some e ∧ e.func = FUNC_LOP ∧
      exec {} ((hayFwd e.text (cursorRow s0 p.toNat e) s0.col0).1.drop (hayFwd e.text (cursorRow s0 p.toNat e) s0.col0).2)
        = some (ms, me) ∧
      (searchNext exec walkFuel c s d).st =
        highlight { s0 with pgPgno := p.toNat, pgSubno := e.subno, hl := [] } p.toNat e
          (hayFwd e.text (cursorRow s0 p.toNat e) s0.col0).2 ms me :=
  searchNext_success_fwd exec c s d hd hno hne hp h

/-- **search_not_found_complete.** When the first forward call of a pass reports NOT_FOUND, the matcher was run on
the WHOLE text of every level one page found at a walk position of the first sweep, and at a position of the wrapped
sweep below the stop position - and found nothing. -/
theorem search_not_found_complete (exec : Exec) (c : Cache) (s : SearchSt) (d : Int) (hd : d > 0)
    (hfresh : s.dir = 0) (hno : NoAny c) (hne : c.nCached ≠ 0) (hp : PgOk s.stopPgno0)
    (h : (searchNext exec walkFuel c s d).res = .ret SEARCH_NOT_FOUND) :
    ∀ x ∈ walkPositions c s.stopPgno0 s.stopSubno0 1,
      (x.2.2 = false ∨ key x.1 x.2.1 < key s.stopPgno0 s.stopSubno0) →
      ∀ e, lookup c x.1 x.2.1 = some e → e.func = FUNC_LOP → exec {} (hayFwd e.text (-1) 0).1 = none :=
  searchNext_not_found_fresh_fwd exec c s d hd hfresh hno hne hp h

/-- **search_exact_not_found.** (the NOT_FOUND half of search_exact, forward, first call of a pass) If the statistics
cover the cached pages, no window reaches 0x3F7F, and the start position (P, S) satisfies the window condition of
`walk_complete_first_sweep` on its own page (`subno_min(P) <= S + 1`), then NOT_FOUND means that NO cached level one
page contains the pattern.  Each hypothesis is necessary: `stats_min_counterexample`, `stats_count_counterexample`,
`walk_order_counterexample_any`, `start_page_skipped_counterexample`. -/
theorem search_exact_not_found (exec : Exec) (c : Cache) (s : SearchSt) (d : Int) (hd : d > 0)
    (hfresh : s.dir = 0) (hno : NoAny c) (hcov : Covered c) (hne : c.nCached ≠ 0) (hp : PgOk s.stopPgno0)
    (hS : 0 ≤ s.stopSubno0 ∧ s.stopSubno0 < 0x3F7F)
    (hwin : ((c.stat s.stopPgno0).subMin.toNat : Int) ≤ s.stopSubno0 + 1)
    (h : (searchNext exec walkFuel c s d).res = .ret SEARCH_NOT_FOUND) :
    ∀ (p sub : Nat), PgOk p → ¬ Matches exec c p sub := by
  intro p sub hpp ⟨e, hl, hlop, hm⟩
  have hall := search_not_found_complete exec c s d hd hfresh hno hne hp h
  -- the page sits in its hash chain, hence inside the statistics window
  have hmem : e ∈ (c.slots p).chain := by
    unfold lookup at hl
    by_cases hv : validPgno (p : Int) = true
    · simp only [hv, if_true, Int.toNat_natCast] at hl
      exact List.mem_of_find?_eq_some hl
    · simp [hv] at hl
  obtain ⟨c1, c2, c3⟩ := hcov p e hmem
  have hin : inRange (c.stat p) e.subno = true := by
    rw [inRange_iff]; unfold Cache.stat; simp only [Int.toNat_natCast]; exact ⟨c1, by omega, by omega⟩
  have hmax := hno p
  have hb : e.subno < 0x3F7F := by
    have : (c.stat (p : Int)).subMax.toNat = (c.slots p).stat.subMax.toNat := by unfold Cache.stat; simp
    omega
  -- the look-up at (p, e.subno) returns a page with the same text? it returns `e` itself when sub = e.subno
  have hsub : (e.subno : Int) = sub ∨ (sub : Int) = ANY_SUBNO := by
    by_cases hs : (sub : Int) = ANY_SUBNO
    · right; exact hs
    · left; exact lookup_subno hl hs
  have hl' : lookup c p e.subno = some e := by
    rcases hsub with h1 | h1
    · rw [h1]; exact hl
    · -- wildcard: `e` is the head of the chain, the exact look-up of its own number finds it first
      rw [h1] at hl
      have := lookup_startSub c p ANY_SUBNO
      unfold startSub startSubOf at this
      rw [hl] at this
      exact this
  -- where the walk meets (p, e.subno)
  have hnone : exec {} (hayFwd e.text (-1) 0).1 = none := by
    by_cases hk : key p e.subno < key s.stopPgno0 s.stopSubno0
    · exact hall (p, e.subno, true) (walk_complete c _ _ 1 hp (Or.inl rfl) p e.subno hpp hin) (Or.inr hk) e hl' hlop
    · have hstart : startSub c s.stopPgno0 s.stopSubno0 = s.stopSubno0 := by
        unfold startSub startSubOf
        cases hls : lookup c s.stopPgno0 s.stopSubno0 with
        | none => simp only; rw [if_neg (by unfold ANY_SUBNO; omega)]
        | some e0 => simp only; exact lookup_subno hls (by unfold ANY_SUBNO; omega)
      by_cases heq : (p : Int) = s.stopPgno0 ∧ (e.subno : Int) = s.stopSubno0
      · refine hall (p, e.subno, false) ?_ (Or.inl rfl) e hl' hlop
        unfold walkPositions; rw [hstart, heq.1, heq.2]; exact List.mem_cons_self
      · refine hall (p, e.subno, false) ?_ (Or.inl rfl) e hl' hlop
        apply (walk_complete_first_sweep c _ _ hp p e.subno hpp hin).1
        rw [hstart]
        unfold AheadF
        left; refine ⟨rfl, ?_⟩
        unfold key at hk
        unfold PgOk at hp hpp
        by_cases hpl : s.stopPgno0 < (p : Int)
        · left; exact hpl
        · right; refine ⟨by omega, by omega, hwin⟩
  rw [hnone] at hm; simp at hm

/-- **highlight_real.** The cells `highlight` paints are exactly the cells of the haystack characters
[first + ms, first + me): `layout` lists, per haystack character (row separators included), the cells it occupies. -/
theorem highlight_real (s : SearchSt) (pgno : Nat) (e : Entry) (first ms me : Nat) :
    (highlight s pgno e first ms me).hl = paint ms me (-(first : Int)) (layout e.text) ∧
    (layout e.text).length = (hayFwd e.text (-1) 0).1.length :=
  ⟨highlight_cells s pgno e first ms me, layout_length e.text⟩

/-- **haystack_fits.** Both haystacks stay inside `ucs2_t haystack[25 * 41 + 1]`: at most 23 x 41 characters. -/
theorem haystack_fits (t : Text) (row col : Int) :
    (hayFwd t row col).1.length ≤ 23 * 41 ∧ (hayRev t row col).1.length ≤ 23 * 41 :=
  ⟨hayFwd_length t row col, hayRev_length t row col⟩

/-- **rev_matches_terminate.** The repeated `ure_exec` of `search_page_rev` ends when the matcher never returns an
empty match (`me = 0`); an empty match would repeat forever (`me` does not advance). -/
theorem rev_matches_terminate (exec : Exec) (hay : List Nat) (ne : Bool)
    (hpos : ∀ f t ms me, exec f t = some (ms, me) → 0 < me) :
    revMatches exec hay ne (hay.length + 2) 0 0 0 ≠ none :=
  revMatches_terminates exec hay ne hpos

/-! ## counterexamples (each is replayed on the C code, see corpus/C17 and NOTES/C17.md) -/

/-- **start_page_skipped_counterexample (D4).** Only page 102.0 is cached and it contains "ab" (the matcher finds
it at [85, 87) of the page text).  A backward search created at (102, ANY) - documented: 102 is the LAST page a
backward search visits - starts at (102, 0x3F7E); 0x3F7D is outside the window [0, 0], so the walk leaves the page
at once, never probes (102, 0) in its first sweep, and the stop test ends the second sweep before it: NOT_FOUND.
The same happens forward whenever `start + 1` is below the window of the start page. -/
theorem start_page_skipped_counterexample :
    (lookup cexD4 0x102 0).isSome ∧
    exAb {} (hayFwd abPage (-1) 0).1 = some (85, 87) ∧
    (cexD4Search.stopPgno1, cexD4Search.stopSubno1) = (0x102, 0x3F7E) ∧
    ((0x102, 0, false) ∉ walkPositions cexD4 0x102 0x3F7E (-1)) ∧
    (searchNext exAb walkFuel cexD4 cexD4Search (-1)).res = .ret SEARCH_NOT_FOUND :=
  cexD4_facts

/-- **stats_min_counterexample (D3).** Store page 899 with sub-code 0 (text "ab"), then with sub-code 5:
`subno_min` becomes 5 ("0 == subno_min" is read as "none yet"), page 899.0 stays cached outside the window, no walk
from any start position ever probes it after its first position, and a forward search for "ab" reports NOT_FOUND. -/
theorem stats_min_counterexample :
    ¬ Covered cexD3 ∧ (lookup cexD3 0x899 0).isSome ∧ (cexD3.slots 0x899).stat = ⟨2, 5, 5⟩ ∧
    (∀ pgno subno dir w, PgOk pgno → dir = 1 ∨ dir = -1 → (0x899, 0, w) ∉ (walkPositions cexD3 pgno subno dir).tail) ∧
    (searchNext exAb walkFuel cexD3 ((searchNew 0x8FF ANY_SUBNO 2).getD {}) 1).res = .ret SEARCH_NOT_FOUND :=
  cexD3_facts

/-- **stats_count_counterexample (D2).** 256 x (page 100 with sub-code 1, then with sub-code 0x100) leaves 256 cached
pages of number 100 with the 8-bit `n_subpages` wrapped to 0: no walk probes any position of page 100 again. -/
theorem stats_count_counterexample :
    (cexD2.slots 0x100).chain.length = 256 ∧ (cexD2.slots 0x100).stat.nSub = 0 ∧ ¬ Covered cexD2 ∧
    (∀ pgno subno dir t w, PgOk pgno → dir = 1 ∨ dir = -1 → (0x100, t, w) ∉ (walkPositions cexD2 pgno subno dir).tail) :=
  cexD2_facts

/-- **walk_order_counterexample_any (D5).** Hex page 1A2 cached with sub-codes 0x3F7E and 0x3F7F: the position
(1A2, 0x3F7F) is looked up with the wildcard mask (`VBI_ANY_SUBNO == subno`) and returns the most recently used page -
sub-page 0x3F7E a second time in the same sweep; sub-page 0x3F7F is not passed to the callback. -/
theorem walk_order_counterexample_any :
    ¬ NoAny cexD5 ∧ (cexD5.slots 0x1A2).chain.map (·.subno) = [0x3F7F, 0x3F7E] ∧
    cexD5Visits = [(0x1A2, 0x3F7E, false), (0x1A2, 0x3F7E, false)] :=
  cexD5_facts

/-- **matcher_quirk_counterexample (D1).** `ure_exec` as it runs a literal (`quirkLit`) misses "ab" in "aab"; a
leftmost matcher (`exactLit`) finds it at [1, 3). -/
theorem matcher_quirk_counterexample :
    quirkLit false [0x61, 0x62] {} [0x61, 0x61, 0x62] = none ∧
    exactLit false [0x61, 0x62] {} [0x61, 0x61, 0x62] = some (1, 3) := by decide

end Zvbi.Props.C17
