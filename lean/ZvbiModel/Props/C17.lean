import ZvbiModel.Search.Model
import ZvbiModel.Search.Matcher
import ZvbiModel.Search.LemmasCache
import ZvbiModel.Search.LemmasSearch
import ZvbiModel.Search.LemmasExact
import ZvbiModel.Search.LemmasFirst
import ZvbiModel.Search.LemmasMatcher
import ZvbiModel.Search.Spec
import ZvbiModel.Search.Witnesses
import ZvbiModel.Search.WitnessD3
import ZvbiModel.Search.WitnessD4
import ZvbiModel.Search.WitnessD7
import ZvbiModel.Search.WitnessD7Fixed
import ZvbiModel.Search.Current
/-!
# C17 - search finds exactly the pages containing the pattern, in page order, and ends

Theorems about `ZvbiModel/Search/Model.lean` (cache.c `_vbi_cache_foreach_page`, `_vbi_cache_put_page` statistics,
search.c).  The regular expression engine and the page formatter are parameters (`Exec`, `Entry.text`).
`walk`, `searchNext` model the CURRENT code: after F5a, F5b and the repairs of the findings C17-D1 (8b7ac93),
C17-D3 and C17-D2 at 256 pages (5e41e82), C17-D4 (ed2772e), C17-D5 (ce86777).  The counterexample theorems of the
earlier delivery are replaced by the positive statements that hold now; the hypotheses the repairs made unnecessary
(`NoAny`, the window condition on the start page, `Covered` as an assumption) are gone.  The one exclusion left is
C17-D2 in its 16 bit form, stated explicitly as `NoWrap`: fewer than 65536 pages cached under one page number.

Finding C17-D7 (sub-page number 0x3F7F read as VBI_ANY_SUBNO at the START of a pass) and its repair
fixes/C17-turn-3f7f.diff are two source shapes of two statements; every theorem below is stated for an arbitrary
`sh : Shape` and holds in both.  `Shape.current` is what translate/gen_search.py read from /repo on this run
(`current_shape`); `turn_on_3f7f_counterexample` is about `Shape.unrepaired`, `turn_on_3f7f_repaired` about
`Shape.repaired`; in the repaired shape `walk_refines` has no wildcard look-up and no `StartOk`, and the hypothesis
`S != VBI_ANY_SUBNO` of the search_exact theorems is void (`sh.startExact = true ∨ ...`).

Finding F17 / C17-D2 and its repair fixes/C10-put-replaces-all-versions.diff are two source shapes of
`_vbi_cache_put_page` (`putF fix`: `put` as found, `putR` repaired - a store under a single-version key deletes every
other cached page of the page number); which one /repo has is read by translate/gen_cache.py
(`Zvbi.Gen.Cache.putReplacesAllVersions`, `putCur` is what the driver runs: `current_store_shape`).  Every theorem about
reachable caches is stated for an arbitrary `fix` (`buildF fix ops`).  For `fix = false` the exclusion `NoWrap` stays a
hypothesis; for `fix = true` it is a theorem (`nowrap_repaired`), `walk_complete_full true` is proved
(`walk_complete_repaired`) and `search_exact_first_call_repaired` has no exclusion left.  `stats_count_256` (witness of
the growth) is about the shape as found, `stats_count_repaired` the same history on the repaired shape.
-/
namespace Zvbi.Props.C17
open Zvbi.Search

/-- **walk_terminates.** `_vbi_cache_foreach_page` returns for EVERY cache content (empty, hex pages, sub-page
numbers >= 0x100, inconsistent statistics - even `subno_min > subno_max`), every callback, every start position and
both directions: the fuel `walkFuel` = 2 sweeps x 0x800 page numbers x 0x10001 sub-page positions is never
exhausted. -/
theorem walk_terminates {σ : Type} (sh : Shape) (cb : Callback σ) (c : Cache) (s : σ) (pgno subno dir : Int)
    (hdir : dir = 1 ∨ dir = -1) : (walk sh cb walkFuel c s pgno subno dir).res ≠ .outOfFuel := by
  unfold walk
  by_cases h0 : c.nCached = 0
  · simp [h0]
  · simp only [h0, if_false]
    generalize getStart sh c pgno subno = g
    obtain ⟨cp, c1⟩ := g
    simp only
    by_cases hp : pgno < 0x100 ∨ pgno > 0x8FF
    · simp [hp]
    · simp only [hp, if_false]
      have hp' : PgOk pgno := by unfold PgOk; omega
      rcases hdir with rfl | rfl
      · exact loop_fwd_terminates cb _ _ _ _ _ _ _ hp' (rankF_lt_fuel hp' _ _)
      · exact loop_bwd_terminates cb _ _ _ _ _ _ _ hp' (rankB_lt_fuel hp' _ _)

example : (walk Shape.repaired (fun (s : Nat) _ _ _ => (0, s + 1)) walkFuel Cache.empty 0 0x100 0 1).res = .ret 0 := by rfl

/-- **walk_no_assert.** The only assertion on the path (`cache_network_page_stat`: page number in 0x100..0x8FF)
fires exactly when the cache is non-empty and the START page number is outside that range; the `--ps` / `++ps`
pointer walk itself never leaves the statistics array. -/
theorem walk_no_assert {σ : Type} (sh : Shape) (cb : Callback σ) (fuel : Nat) (c : Cache) (s : σ) (pgno subno dir : Int) :
    (walk sh cb fuel c s pgno subno dir).res = .assertFail ↔ (c.nCached ≠ 0 ∧ (pgno < 0x100 ∨ pgno > 0x8FF)) := by
  unfold walk
  by_cases h0 : c.nCached = 0
  · simp [h0]
  · simp only [h0, if_false]
    generalize getStart sh c pgno subno = g
    obtain ⟨cp, c1⟩ := g
    simp only
    by_cases hp : pgno < 0x100 ∨ pgno > 0x8FF
    · simp [hp, h0]
    · have hp' : (pgno < 0x100 ∨ pgno > 0x8FF) = False := by simpa using hp
      simp only [hp', if_false]
      constructor
      · intro h; exact absurd h (loop_no_assert cb dir fuel _ _ _ _ _ _)
      · intro h; exact h.2.elim

example : (walk Shape.unrepaired (fun (s : Nat) _ _ _ => (0, s)) 5 (put Cache.empty 0x100 0 0 []) 0 0x99 0 1).res = .assertFail := by
  rw [walk_no_assert]; exact ⟨by decide, by decide⟩

/-- **walk_refines.** (refinement to a specification, in BOTH source shapes)  For every cache, every callback and
every start position the walk is `walkRun`: the callback on the page the START look-up finds, then the left fold of the
callback over the pages the EXACT look-up finds at `positions` - a list that depends on the page statistics only -
stopping at the first non-zero return value, and returning -1 at the end.  The most-recently-used reordering of the
hash chains performed by every look-up does not influence it.  The page handed over at a position (p, s) has exactly
the sub-page number s, 0x3F7F included (C17-D5 repaired).
Unrepaired shape (C17-D7): the start look-up is `_vbi_cache_get_page` - sub-page number 0x3F7F is the wildcard there,
the walk continues from the sub-page number of the page found; the fold is the uniform `runPos` over `walkPositions`
when the start page number is not xFF or nothing is cached under it (`StartOk`, guaranteed by `_vbi_cache_put_page`).
Repaired shape (`sh.startExact`): the start look-up is exact too - no wildcard anywhere in the statement: the walk IS
`runPos` over `walkPositions`, which begin at the caller's (pgno, subno), with no further hypothesis. -/
theorem walk_refines {σ : Type} (sh : Shape) (cb : Callback σ) (c : Cache) (s : σ) (pgno subno dir : Int)
    (hne : c.nCached ≠ 0) (hp : PgOk pgno) (hdir : dir = 1 ∨ dir = -1) :
    (walk sh cb walkFuel c s pgno subno dir).res = .ret (walkRun sh cb c pgno subno dir s).1 ∧
    (walk sh cb walkFuel c s pgno subno dir).st = (walkRun sh cb c pgno subno dir s).2 ∧
    (StartOk sh c pgno → walkRun sh cb c pgno subno dir s = runPos cb c (walkPositions sh c pgno subno dir) s) ∧
    (sh.startExact = true →
      walkRun sh cb c pgno subno dir s = runPos cb c (walkPositions sh c pgno subno dir) s ∧
      walkPositions sh c pgno subno dir = (pgno, subno, false) :: positions c dir walkFuel pgno subno false) ∧
    (∀ p sub e, lookupX c p sub = some e → (e.subno : Int) = sub ∧ e ∈ (c.slots p.toNat).chain) := by
  obtain ⟨h1, h2⟩ := walk_factors sh cb c s pgno subno dir hne hp hdir
  refine ⟨h1, h2, walkRun_eq_runPos sh cb c pgno subno dir s hp, ?_, fun p sub e h => ⟨lookupX_subno h, lookupX_mem h⟩⟩
  intro hse
  refine ⟨walkRun_eq_runPos sh cb c pgno subno dir s hp (Or.inl hse), ?_⟩
  unfold walkPositions; rw [startSub_repaired sh hse]

example : StartOk Shape.unrepaired Cache.empty 0x1FF := Or.inr (Or.inr rfl)

/-- **walk_order.** The positions are probed in strictly ascending (forward) resp. descending (backward)
(sweep, page number, sub-page number) order, beginning at the start position, wrapping once; every position after
the first belongs to a valid page number with cached subpages and is `Landed`: inside the statistics window or - the
clamp added by ed2772e - the window's first sub-page number in walking direction; with `subno_min <= subno_max`
(`StatOk`, an invariant of all store histories: `stats_invariant`) that is inside the window too.  In particular no
position is probed twice. -/
theorem walk_order (sh : Shape) (c : Cache) (pgno subno : Int) (hp : PgOk pgno) :
    (walkPositions sh c pgno subno 1).Pairwise LtF ∧ (walkPositions sh c pgno subno (-1)).Pairwise LtB ∧
    (∀ dir, dir = 1 ∨ dir = -1 → ∀ x ∈ (walkPositions sh c pgno subno dir).tail,
        PgOk x.1 ∧ Landed (c.stat x.1) x.2.1 ∧ (StatOk c → inRange (c.stat x.1) x.2.1 = true)) := by
  unfold walkPositions
  obtain ⟨f1, f2⟩ := positions_sorted_fwd c walkFuel pgno (startSub sh c pgno subno) false hp
  obtain ⟨b1, b2⟩ := positions_sorted_bwd c walkFuel pgno (startSub sh c pgno subno) false hp
  refine ⟨?_, ?_, ?_⟩
  · rw [List.pairwise_cons]; exact ⟨fun x hx => (f1 x hx).1, f2⟩
  · rw [List.pairwise_cons]; exact ⟨fun x hx => (b1 x hx).1, b2⟩
  · intro dir hdir x hx
    simp only [List.tail_cons] at hx
    rcases hdir with rfl | rfl
    · exact ⟨(f1 x hx).2.1, (f1 x hx).2.2, fun hs => landed_inRange (hs x.1) (f1 x hx).2.2⟩
    · exact ⟨(b1 x hx).2.1, (b1 x hx).2.2, fun hs => landed_inRange (hs x.1) (b1 x hx).2.2⟩

example : walkPositions Shape.repaired Cache.empty 0x100 0 1 = [(0x100, 0, false)] := by decide +kernel

/-- **walk_complete.** Every position inside a statistics window - hence every cached page the statistics cover - is
probed in the second (wrapped) sweep, whatever the start position and direction; by `walk_order` exactly once. -/
theorem walk_complete (sh : Shape) (c : Cache) (pgno subno dir : Int) (hp : PgOk pgno) (hdir : dir = 1 ∨ dir = -1)
    (q t : Int) (hq : PgOk q) (hin : inRange (c.stat q) t = true) :
    (q, t, true) ∈ walkPositions sh c pgno subno dir := by
  unfold walkPositions
  apply List.mem_cons_of_mem
  rcases hdir with rfl | rfl
  · exact positions_complete_fwd c walkFuel pgno _ false hp (rankF_lt_fuel hp _ _) q t true hq hin (Or.inr ⟨rfl, rfl⟩)
  · exact positions_complete_bwd c walkFuel pgno _ false hp (rankB_lt_fuel hp _ _) q t true hq hin (Or.inr ⟨rfl, rfl⟩)

/-- **walk_complete_first_sweep.** (STRENGTHENED: the window proviso on the start page is gone - C17-D4 repaired)
Before wrapping, a forward walk probes every window position on later page numbers AND every window position of the
start page behind the start position; mirror image backward.  In particular the walk visits the start page: a
backward search created at (P, ANY) starts at (P, 0x3F7E) and reaches the cached subpages of P first. -/
theorem walk_complete_first_sweep (sh : Shape) (c : Cache) (pgno subno : Int) (hp : PgOk pgno) (q t : Int) (hq : PgOk q)
    (hin : inRange (c.stat q) t = true) :
    ((pgno < q ∨ (pgno = q ∧ startSub sh c pgno subno < t)) → (q, t, false) ∈ walkPositions sh c pgno subno 1) ∧
    ((q < pgno ∨ (pgno = q ∧ t < startSub sh c pgno subno)) → (q, t, false) ∈ walkPositions sh c pgno subno (-1)) := by
  unfold walkPositions
  constructor
  · intro h; apply List.mem_cons_of_mem
    exact positions_complete_fwd c walkFuel pgno _ false hp (rankF_lt_fuel hp _ _) q t false hq hin (Or.inl ⟨rfl, h⟩)
  · intro h; apply List.mem_cons_of_mem
    exact positions_complete_bwd c walkFuel pgno _ false hp (rankB_lt_fuel hp _ _) q t false hq hin (Or.inl ⟨rfl, h⟩)

/-- **stats_invariant.** (STRENGTHENED: lower bound and exact count - C17-D3 repaired; BOTH shapes of
`_vbi_cache_put_page`, `fix`)  After EVERY history of page stores (sub-codes as the decoder delivers them, <= 0x3F7F),
by induction: `n_subpages` = number of cached pages of that number modulo 65536, `subno_min <= subno_max <= 0x3F7F`,
nothing is cached under a page number xFF, and for every page number with fewer than 65536 cached pages
`subno_min <= every cached sub-page number <= subno_max` (sub-page 0 included) and `n_subpages != 0` when a page is
cached: the statistics cover the cached pages (`Covered`).  A history of fewer than 65536 stores satisfies `NoWrap`
outright; on the REPAIRED shape (`fix = true`, fixes/C10-put-replaces-all-versions.diff) EVERY history does - at most 256
pages are cached under one page number - so there the statistics cover the cached pages unconditionally. -/
theorem stats_invariant (fix : Bool) (ops : List PutOp) (h : ∀ o ∈ ops, o.subno ≤ 0x3F7F) :
    Inv (buildF fix ops) ∧ NoFF (buildF fix ops) ∧ (NoWrap (buildF fix ops) → Covered (buildF fix ops)) ∧
    (ops.length < 65536 → NoWrap (buildF fix ops)) ∧
    (fix = true → NoWrap (buildF fix ops) ∧ Covered (buildF fix ops) ∧
      ∀ p, ((buildF fix ops).slots p).chain.length ≤ 256) :=
  ⟨buildF_inv fix ops h, buildF_noFF fix ops, covered_of_inv (buildF_inv fix ops h), noWrapF_of_few fix ops,
   fun hf => by
     subst hf
     exact ⟨noWrap_repaired ops, covered_of_inv (buildF_inv true ops h) (noWrap_repaired ops),
       version_bound_repaired ops⟩⟩

example : Covered (buildF false [⟨0x100, 0, 0, []⟩, ⟨0x100, 5, 0, []⟩]) :=
  (stats_invariant false _ (by decide)).2.2.1 ((stats_invariant false _ (by decide)).2.2.2.1 (by decide))

example : Covered (buildF true [⟨0x100, 1, 0, []⟩, ⟨0x100, 0x100, 0, []⟩]) :=
  ((stats_invariant true _ (by decide)).2.2.2.2 rfl).2.1

/-- **nowrap_repaired.** (NEW; what becomes of the hypothesis `NoWrap` - finding C17-D2 - with
fixes/C10-put-replaces-all-versions.diff)  On the repaired shape of `_vbi_cache_put_page` the cached pages of one page
number have pairwise different keys (`subno % 256` for BCD page numbers, `subno % 16` for the others: `Distinct`, an
invariant of the store), so at most 256 are cached and the 16 bit counter `n_subpages` never wraps: `NoWrap` holds after
ANY history, no bound on sub-codes or on the length of the history needed.  For the shape as found it stays a hypothesis
(`stats_count_256`: the count grows by one per pair of stores). -/
theorem nowrap_repaired (ops : List PutOp) :
    Distinct (buildF true ops) ∧ (∀ p, ((buildF true ops).slots p).chain.length ≤ 256) ∧ NoWrap (buildF true ops) :=
  ⟨buildR_distinct ops, version_bound_repaired ops, noWrap_repaired ops⟩

example : ((buildF true [⟨0x100, 1, 0, []⟩, ⟨0x100, 0x100, 0, []⟩, ⟨0x100, 1, 0, []⟩, ⟨0x100, 0x100, 0, []⟩]).slots 0x100).chain.length = 1 := by
  decide +kernel

/-- **walk_complete_cached.** (STRENGTHENED: `Covered` is no longer assumed) After every history of page stores that
has not wrapped the 16 bit counter `n_subpages` (`NoWrap`: fewer than 65536 pages cached under each page number - the
explicit exclusion of C17-D2), every cached page is found at a probed position of the wrapped sweep, from every start
position, in both directions: the look-up there returns the first page of the chain with that number. -/
theorem walk_complete_cached (fix : Bool) (sh : Shape) (ops : List PutOp) (h : ∀ o ∈ ops, o.subno ≤ 0x3F7F) (hnw : NoWrap (buildF fix ops))
    (pgno subno dir : Int) (hp : PgOk pgno) (hdir : dir = 1 ∨ dir = -1) (q : Nat) (hq : PgOk q) (e : Entry)
    (he : e ∈ ((buildF fix ops).slots q).chain) :
    ((q : Int), (e.subno : Int), true) ∈ walkPositions sh (buildF fix ops) pgno subno dir := by
  apply walk_complete sh (buildF fix ops) pgno subno dir hp hdir q e.subno hq
  obtain ⟨h1, h2, h3⟩ := (stats_invariant fix ops h).2.2.1 hnw q e he
  rw [inRange_iff]
  unfold Cache.stat
  simp only [Int.toNat_natCast]
  exact ⟨h1, by omega, by omega⟩

example : (((0x100 : Nat) : Int), ((0 : Nat) : Int), true) ∈ walkPositions Shape.unrepaired (buildF false [⟨0x100, 0, 0, []⟩]) 0x555 7 (-1) :=
  walk_complete_cached false Shape.unrepaired [⟨0x100, 0, 0, []⟩] (by decide) (noWrapF_of_few false _ (by decide)) 0x555 7 (-1) ⟨by decide, by decide⟩
    (Or.inr rfl) 0x100 ⟨by decide, by decide⟩ ⟨0, 0, [], 0⟩ (by decide +kernel)

/-- **walk_complete_repaired.** (NEW: `walk_complete_full true`, the full-strength statement of Spec.lean, PROVED for the
repaired shape of `_vbi_cache_put_page`)  After EVERY history of page stores - no `NoWrap` hypothesis - every cached
page is found at a probed position of the wrapped sweep, from every start position, in both directions. -/
theorem walk_complete_repaired : walk_complete_full true := by
  intro sh ops pgno subno dir h hp hdir q e hq he
  exact walk_complete_cached true sh ops h (noWrap_repaired ops) pgno subno dir hp hdir q hq e he

example : (((0x100 : Nat) : Int), ((0x100 : Nat) : Int), true) ∈
    walkPositions Shape.repaired (buildF true [⟨0x100, 1, 0, []⟩, ⟨0x100, 0x100, 0, []⟩]) 0x555 7 1 :=
  walk_complete_repaired Shape.repaired _ 0x555 7 1 (by decide) ⟨by decide, by decide⟩ (Or.inl rfl) 0x100 ⟨0x100, 0, [], 0⟩
    ⟨by decide, by decide⟩ (by decide +kernel)

/-- **search_next_refines.** `vbi_search_next` = the status mapping applied to the fold of `search_page_fwd` /
`search_page_rev` over the pages found at the walk positions from the current start position.  (`NoAny` dropped.) -/
theorem search_next_refines (sh : Shape) (exec : Exec) (c : Cache) (s : SearchSt) (d : Int) (hne : c.nCached ≠ 0)
    (hp : PgOk (prepare sh s d).startPgno) (hok : StartOk sh c (prepare sh s d).startPgno) :
    (searchNext sh exec walkFuel c s d).res =
      statusOf (runPos (callbackOf sh exec d) c
        (walkPositions sh c (prepare sh s d).startPgno (prepare sh s d).startSubno (dirOf d)) (prepare sh s d)).1 :=
  searchNext_factors sh exec c s d hne hp hok

/-- **search_success_sound.** When a forward `vbi_search_next` reports SUCCESS (any call of a pass), the page it
returns was found at one of the walk positions, is a level one page, and the matcher reported the occurrence
[ms, me) in its text from the cursor on; the new search context is `highlight` of exactly that occurrence.
(`NoAny` dropped.) -/
theorem search_success_sound (sh : Shape) (exec : Exec) (c : Cache) (s : SearchSt) (d : Int) (hd : d > 0)
    (hne : c.nCached ≠ 0) (hp : PgOk (prepare sh s d).startPgno) (hok : StartOk sh c (prepare sh s d).startPgno)
    (h : (searchNext sh exec walkFuel c s d).res = .ret SEARCH_SUCCESS) :
    ∃ p sub w e s0 ms me, (p, sub, w) ∈ walkPositions sh c (prepare sh s d).startPgno (prepare sh s d).startSubno 1 ∧
      lookupX c p sub = some e ∧ e.func = FUNC_LOP ∧
      exec (fwdFlags sh (hayFwd e.text (cursorRow s0 p.toNat e) s0.col0).1 (hayFwd e.text (cursorRow s0 p.toNat e) s0.col0).2) ((hayFwd e.text (cursorRow s0 p.toNat e) s0.col0).1.drop (hayFwd e.text (cursorRow s0 p.toNat e) s0.col0).2)
        = some (ms, me) ∧
      (searchNext sh exec walkFuel c s d).st =
        highlight { s0 with pgPgno := p.toNat, pgSubno := e.subno, hl := [] } p.toNat e
          (hayFwd e.text (cursorRow s0 p.toNat e) s0.col0).2 ms me :=
  searchNext_success_fwd sh exec c s d hd hne hp hok h

/-- **search_not_found_complete.** When the first forward call of a pass reports NOT_FOUND, the matcher was run on
the WHOLE text of every level one page found at a walk position of the first sweep, and at a position of the wrapped
sweep below the stop position - and found nothing.  (Any cache; `NoAny` dropped.) -/
theorem search_not_found_complete (sh : Shape) (exec : Exec) (c : Cache) (s : SearchSt) (d : Int) (hd : d > 0)
    (hfresh : s.dir = 0) (hne : c.nCached ≠ 0) (hp : PgOk s.stopPgno0) (hok : StartOk sh c s.stopPgno0)
    (h : (searchNext sh exec walkFuel c s d).res = .ret SEARCH_NOT_FOUND) :
    ∀ x ∈ walkPositions sh c s.stopPgno0 s.stopSubno0 1,
      (x.2.2 = false ∨ key x.1 x.2.1 < key s.stopPgno0 s.stopSubno0) →
      ∀ e, lookupX c x.1 x.2.1 = some e → e.func = FUNC_LOP → exec {} (hayFwd e.text (-1) 0).1 = none :=
  searchNext_not_found_fresh_fwd sh exec c s d hd hfresh hne hp hok h

/-- **search_exact_not_found.** (the NOT_FOUND half of search_exact, forward, first call of a pass; STRENGTHENED: the
hypotheses `NoAny`, `Covered`, the window condition on the start page and `nCached != 0` are gone)  On every
reachable cache (any store history, D2 excluded by `NoWrap`), from every start position (P, S) with an exact
sub-page number: NOT_FOUND means that NO cached level one page contains the pattern. -/
theorem search_exact_not_found (fix : Bool) (sh : Shape) (exec : Exec) (ops : List PutOp) (hops : ∀ o ∈ ops, o.subno ≤ 0x3F7F)
    (hnw : NoWrap (buildF fix ops)) (s : SearchSt) (d : Int) (hd : d > 0) (hfresh : s.dir = 0) (hp : PgOk s.stopPgno0)
    (hS : 0 ≤ s.stopSubno0 ∧ s.stopSubno0 ≤ 0xFFFF ∧ (sh.startExact = true ∨ s.stopSubno0 ≠ ANY_SUBNO))
    (h : (searchNext sh exec walkFuel (buildF fix ops) s d).res = .ret SEARCH_NOT_FOUND) :
    ∀ (p sub : Nat), PgOk p → ¬ Matches exec (buildF fix ops) p sub :=
  searchNext_not_found_exact_fwd sh exec (buildF fix ops) s d hd hfresh (reachableF fix sh ops hops hnw _ hp).1 hp
    (reachableF fix sh ops hops hnw _ hp).2 hS h

/-- **search_exact_first_success.** (NEW: the SUCCESS half of search_exact - "first in order" - forward, first call of
a pass)  On every reachable cache (D2 excluded by `NoWrap`): when the first call of a pass from (P, S) reports SUCCESS,
the page it returns is a valid page number, is cached as a level one page whose text contains the pattern, and no
page containing the pattern comes before it in pass order (ascending (page, sub-page) from (P, S), wrapping once:
`passRank`). -/
theorem search_exact_first_success (fix : Bool) (sh : Shape) (exec : Exec) (ops : List PutOp) (hops : ∀ o ∈ ops, o.subno ≤ 0x3F7F)
    (hnw : NoWrap (buildF fix ops)) (s : SearchSt) (d : Int) (hd : d > 0) (hfresh : s.dir = 0) (hp : PgOk s.stopPgno0)
    (hS : 0 ≤ s.stopSubno0 ∧ s.stopSubno0 ≤ 0xFFFF ∧ (sh.startExact = true ∨ s.stopSubno0 ≠ ANY_SUBNO))
    (h : (searchNext sh exec walkFuel (buildF fix ops) s d).res = .ret SEARCH_SUCCESS) :
    PgOk (searchNext sh exec walkFuel (buildF fix ops) s d).st.pgPgno ∧
    Matches exec (buildF fix ops) (searchNext sh exec walkFuel (buildF fix ops) s d).st.pgPgno
      (searchNext sh exec walkFuel (buildF fix ops) s d).st.pgSubno ∧
    ∀ q t : Nat, PgOk q → Matches exec (buildF fix ops) q t →
      passRank s.stopPgno0 s.stopSubno0 (searchNext sh exec walkFuel (buildF fix ops) s d).st.pgPgno
        (searchNext sh exec walkFuel (buildF fix ops) s d).st.pgSubno ≤ passRank s.stopPgno0 s.stopSubno0 q t :=
  searchNext_first_success_fwd sh exec (buildF fix ops) s d hd hfresh (reachableF fix sh ops hops hnw _ hp).1 hp
    (reachableF fix sh ops hops hnw _ hp).2 hS h

/-- **search_exact_first_call.** (NEW: both directions)  On every reachable cache (D2 excluded by `NoWrap`), the first
forward call of a pass reports SUCCESS if and only if some cached level one page contains the pattern, NOT_FOUND if and
only if none does and something is cached at all, and CACHE_EMPTY otherwise.  Together with
`search_exact_first_success`: it returns the first matching page in pass order when there is one. -/
theorem search_exact_first_call (fix : Bool) (sh : Shape) (exec : Exec) (ops : List PutOp) (hops : ∀ o ∈ ops, o.subno ≤ 0x3F7F)
    (hnw : NoWrap (buildF fix ops)) (s : SearchSt) (d : Int) (hd : d > 0) (hfresh : s.dir = 0) (hp : PgOk s.stopPgno0)
    (hS : 0 ≤ s.stopSubno0 ∧ s.stopSubno0 ≤ 0xFFFF ∧ (sh.startExact = true ∨ s.stopSubno0 ≠ ANY_SUBNO)) :
    ((searchNext sh exec walkFuel (buildF fix ops) s d).res = .ret SEARCH_SUCCESS ↔
      ∃ p sub : Nat, PgOk p ∧ Matches exec (buildF fix ops) p sub) ∧
    ((searchNext sh exec walkFuel (buildF fix ops) s d).res = .ret SEARCH_NOT_FOUND ↔
      (buildF fix ops).nCached ≠ 0 ∧ ∀ p sub : Nat, PgOk p → ¬ Matches exec (buildF fix ops) p sub) ∧
    ((searchNext sh exec walkFuel (buildF fix ops) s d).res = .ret SEARCH_CACHE_EMPTY ↔ (buildF fix ops).nCached = 0) := by
  have hS1 := search_exact_first_success fix sh exec ops hops hnw s d hd hfresh hp hS
  have hN1 := search_exact_not_found fix sh exec ops hops hnw s d hd hfresh hp hS
  obtain ⟨f1, _⟩ := prepare_fresh_fwd sh (s := s) hd hfresh
  have hp' : PgOk (prepare sh s d).startPgno := by rw [f1]; exact hp
  have hok' : StartOk sh (buildF fix ops) (prepare sh s d).startPgno := by rw [f1]; exact (reachableF fix sh ops hops hnw _ hp).2
  -- a cached page makes the cache count non-zero
  have hcnt : ∀ p sub : Nat, Matches exec (buildF fix ops) p sub → (buildF fix ops).nCached ≠ 0 := by
    intro p sub ⟨e, hl, _, _⟩
    apply buildF_counted fix ops
    have hm := lookupX_mem hl
    exact ⟨_, List.ne_nil_of_mem hm⟩
  by_cases h0 : (buildF fix ops).nCached = 0
  · have he := searchNext_empty sh exec (buildF fix ops) s d h0
    refine ⟨?_, ?_, ?_⟩
    · constructor
      · intro h; rw [he] at h; exact absurd (Res.ret.inj h) (by decide)
      · intro ⟨p, sub, _, hm⟩; exact absurd h0 (hcnt p sub hm)
    · constructor
      · intro h; rw [he] at h; exact absurd (Res.ret.inj h) (by decide)
      · intro h; exact absurd h0 h.1
    · exact ⟨fun _ => h0, fun _ => he⟩
  · have hdich := searchNext_fwd_status sh exec (buildF fix ops) s d hd h0 hp' hok'
    refine ⟨?_, ?_, ?_⟩
    · constructor
      · intro h; exact ⟨_, _, (hS1 h).1, (hS1 h).2.1⟩
      · intro ⟨p, sub, hpp, hm⟩
        rcases hdich with h | h
        · exact h
        · exact absurd hm (hN1 h p sub hpp)
    · constructor
      · intro h; exact ⟨h0, hN1 h⟩
      · intro ⟨_, hnone⟩
        rcases hdich with h | h
        · exact absurd (hS1 h).2.1 (hnone _ _ (hS1 h).1)
        · exact h
    · constructor
      · intro h; rcases hdich with h' | h' <;> (rw [h'] at h; exact absurd (Res.ret.inj h) (by decide))
      · intro h; exact absurd h h0

/-- non-vacuity: a fresh search created by `vbi_search_new (0x100, VBI_ANY_SUBNO)` on a one-page cache meets every
hypothesis of the three search_exact theorems -/
example (fix : Bool) : ∃ (ops : List PutOp) (s : SearchSt), (∀ o ∈ ops, o.subno ≤ 0x3F7F) ∧ NoWrap (buildF fix ops) ∧ s.dir = 0 ∧
    PgOk s.stopPgno0 ∧ (0 ≤ s.stopSubno0 ∧ s.stopSubno0 ≤ 0xFFFF ∧ s.stopSubno0 ≠ ANY_SUBNO) ∧
    searchNew 0x100 ANY_SUBNO 2 = some s ∧ (buildF fix ops).nCached ≠ 0 :=
  ⟨[⟨0x100, 0, 0, []⟩], (searchNew 0x100 ANY_SUBNO 2).getD {}, by decide, noWrapF_of_few fix _ (by decide), by decide,
   ⟨by decide, by decide⟩, ⟨by decide, by decide, by decide⟩, by rfl, by cases fix <;> decide +kernel⟩

/-- **search_exact_first_call_repaired.** (NEW: `search_exact_first_call` on the repaired shape of
`_vbi_cache_put_page`, the exclusion of C17-D2 gone)  After EVERY history of page stores the first forward call of a pass
reports SUCCESS if and only if some cached level one page contains the pattern - and then returns the first one in pass
order -, NOT_FOUND if and only if none does and something is cached, CACHE_EMPTY otherwise. -/
theorem search_exact_first_call_repaired (sh : Shape) (exec : Exec) (ops : List PutOp) (hops : ∀ o ∈ ops, o.subno ≤ 0x3F7F)
    (s : SearchSt) (d : Int) (hd : d > 0) (hfresh : s.dir = 0) (hp : PgOk s.stopPgno0)
    (hS : 0 ≤ s.stopSubno0 ∧ s.stopSubno0 ≤ 0xFFFF ∧ (sh.startExact = true ∨ s.stopSubno0 ≠ ANY_SUBNO)) :
    (((searchNext sh exec walkFuel (buildF true ops) s d).res = .ret SEARCH_SUCCESS ↔
      ∃ p sub : Nat, PgOk p ∧ Matches exec (buildF true ops) p sub) ∧
    ((searchNext sh exec walkFuel (buildF true ops) s d).res = .ret SEARCH_NOT_FOUND ↔
      (buildF true ops).nCached ≠ 0 ∧ ∀ p sub : Nat, PgOk p → ¬ Matches exec (buildF true ops) p sub) ∧
    ((searchNext sh exec walkFuel (buildF true ops) s d).res = .ret SEARCH_CACHE_EMPTY ↔ (buildF true ops).nCached = 0)) ∧
    ((searchNext sh exec walkFuel (buildF true ops) s d).res = .ret SEARCH_SUCCESS →
      ∀ q t : Nat, PgOk q → Matches exec (buildF true ops) q t →
        passRank s.stopPgno0 s.stopSubno0 (searchNext sh exec walkFuel (buildF true ops) s d).st.pgPgno
          (searchNext sh exec walkFuel (buildF true ops) s d).st.pgSubno ≤ passRank s.stopPgno0 s.stopSubno0 q t) :=
  ⟨search_exact_first_call true sh exec ops hops (noWrap_repaired ops) s d hd hfresh hp hS,
   fun h => (search_exact_first_success true sh exec ops hops (noWrap_repaired ops) s d hd hfresh hp hS h).2.2⟩

/-- **highlight_real.** The cells `highlight` paints are exactly the cells of the haystack characters
[first + ms, first + me): `layout` lists, per haystack character (row separators included), the cells it occupies. -/
theorem highlight_real (s : SearchSt) (pgno : Nat) (e : Entry) (first ms me : Nat) :
    (highlight s pgno e first ms me).hl = paint ms me (-(first : Int)) (layout e.text) ∧
    (layout e.text).length = (hayFwd e.text (-1) 0).1.length :=
  ⟨highlight_cells s pgno e first ms me, layout_length e.text⟩

/-- **haystack_fits.** Both haystacks stay inside `ucs2_t haystack[25 * 41 + 1]`: at most 23 x 41 characters. -/
theorem haystack_fits (t : Text) (row col : Int) :
    (hayFwd t row col).1.length ≤ 23 * 41 ∧ (hayRev t row col).1.length ≤ 23 * 41 :=
  ⟨hayFwd_length t row col, hayRev_length t row col⟩

/-- **rev_matches_terminate.** The repeated `ure_exec` of `search_page_rev` ends for EVERY matcher and in both source
shapes of the flags: the next exec begins at `pos = (me > pos) ? me : pos + 1` (b5116c9; the model follows that statement
since round 6), so an empty match no longer repeats.  The former hypothesis "the matcher never returns an empty match" is
gone (strengthened). -/
theorem rev_matches_terminate (sh : Shape) (exec : Exec) (hay : List Nat) (ne : Bool) :
    revMatches sh exec hay ne (hay.length + 2) 0 0 0 0 ≠ none :=
  revMatches_terminates sh exec hay ne

example : revMatches Shape.repaired (fun _ _ => some (0, 0)) [1, 2] false 4 0 0 0 0 ≠ none := rev_matches_terminate _ _ _ _

/-- **matcher_exact.** (replaces `matcher_quirk_counterexample`, C17-D1 repaired by 8b7ac93)  The literal matcher the
model runs against the real `ure_exec` in the correspondence (`exactLit`) is the leftmost substring search on the case
folded text: it returns the first offset at which the pattern occurs, `none` exactly when it occurs nowhere.  On the
historical witness it finds "ab" in "aab" at [1, 3) - where the old `ure_exec` (`quirkLit`) found nothing. -/
theorem matcher_exact (cf : Bool) (pat : List Nat) (hne : pat ≠ []) (f : Flags) (text : List Nat) :
    (match exactLit cf pat f text with
     | some (ms, me) => ms < text.length ∧ me = ms + pat.length ∧
         OccursAt (pat.map (foldc cf)) (text.map (foldc cf)) ms ∧
         ∀ j, j < ms → ¬ OccursAt (pat.map (foldc cf)) (text.map (foldc cf)) j
     | none => ∀ j, j < text.length → ¬ OccursAt (pat.map (foldc cf)) (text.map (foldc cf)) j) ∧
    exactLit false [0x61, 0x62] {} [0x61, 0x61, 0x62] = some (1, 3) ∧
    quirkLit false [0x61, 0x62] {} [0x61, 0x61, 0x62] = none :=
  ⟨exactLit_spec cf pat hne f text, by decide, by decide⟩

/-! ## the historical failing inputs, now with the correct answers (each is replayed on the C code: corpus/C17) -/

/-- **start_page_visited (was start_page_skipped_counterexample, C17-D4 repaired by ed2772e).** Only page 102.0 is
cached and it contains "ab".  A backward search created at (102, ANY) starts at (102, 0x3F7E); the walk now stays on
page 102, probes (102, 0) as its second position of the FIRST sweep, hands the page to the callback, and
`vbi_search_next (dir = -1)` returns SUCCESS with page 102.0. -/
theorem start_page_visited :
    (cexD4Search.stopPgno1, cexD4Search.stopSubno1) = (0x102, 0x3F7E) ∧
    (walkPositions Shape.current cexD4 0x102 0x3F7E (-1)).take 2 = [(0x102, 0x3F7E, false), (0x102, 0, false)] ∧
    (walk Shape.current logTwo walkFuel cexD4 [] 0x102 0x3F7E (-1)).st.take 1 = [(0x102, 0, false)] ∧
    cexD4Out = (.ret SEARCH_SUCCESS, 0x102, 0) :=
  ⟨cexD4_facts.1, cexD4_facts.2.1, cexD4_facts.2.2, cexD4_search⟩

/-- **stats_min_zero_kept (was stats_min_counterexample, C17-D3 repaired by 5e41e82).** Store page 899 with sub-code 0
(text "ab"), then with sub-code 5: the window is [0, 5] (it was [5, 5]), a forward walk from 8FF hands 899.0 and then
899.5 to the callback, and a forward search for "ab" created at (8FF, ANY) returns SUCCESS with page 899.0. -/
theorem stats_min_zero_kept :
    (cexD3.slots 0x899).stat = ⟨2, 0, 5⟩ ∧
    (walk Shape.current logTwo walkFuel cexD3 [] 0x8FF 0 1).st = [(0x899, 0, true), (0x899, 5, true)] ∧
    cexD3Out = (.ret SEARCH_SUCCESS, 0x899, 0) :=
  ⟨cexD3_facts.1, cexD3_facts.2, cexD3_search⟩

/-- **stats_count_256 (was stats_count_counterexample, C17-D2 at 256 pages repaired by 5e41e82).** 256 x (page 100
with sub-code 1, then with sub-code 0x100) leaves 256 cached pages of number 100; `n_subpages` is 256 (it wrapped to 0
while it was 8 bits wide), the window is [1, 0x100] and contains the cached sub-page number.  The wrap now needs 65536
pages under one page number: `NoWrap`. -/
theorem stats_count_256 :
    (cexD2.slots 0x100).chain.length = 256 ∧ (cexD2.slots 0x100).stat = ⟨256, 1, 0x100⟩ ∧
    inRange (cexD2.stat 0x100) 0x100 = true :=
  cexD2_facts

/-- **stats_count_repaired.** The history of `stats_count_256` on the REPAIRED shape of `_vbi_cache_put_page`
(fixes/C10-put-replaces-all-versions.diff): every store with sub-code 0x100 (single-version key) deletes the page stored
with sub-code 1 as well; one page is cached at the end, `n_subpages` is 1, the window is [0x100, 0x100]. -/
theorem stats_count_repaired :
    (cexD2R.slots 0x100).chain.map (·.subno) = [0x100] ∧ (cexD2R.slots 0x100).stat = ⟨1, 0x100, 0x100⟩ ∧
    cexD2R.nCached = 1 :=
  cexD2R_facts

/-- **current_store_shape.** The store the driver runs against the real code (`putCur`) is one of the two shapes the
theorems cover, the one translate/gen_cache.py read from /repo's cache.c on this run. -/
theorem current_store_shape :
    (∀ c pgno subno func text tag, putCur c pgno subno func text tag =
      putF Zvbi.Gen.Cache.putReplacesAllVersions c pgno subno func text tag) ∧
    (∀ c pgno subno func text tag, putF false c pgno subno func text tag = put c pgno subno func text tag) ∧
    (∀ c pgno subno func text tag, putF true c pgno subno func text tag = putR c pgno subno func text tag) :=
  ⟨fun _ _ _ _ _ _ => rfl, fun _ _ _ _ _ _ => rfl, fun _ _ _ _ _ _ => rfl⟩

/-- **walk_exact_lookup_3f7f (was walk_order_counterexample_any, C17-D5 repaired by ce86777).** Hex page 1A2 cached
with sub-codes 0x3F7E and 0x3F7F: the position (1A2, 0x3F7F) is looked up exactly; the walk hands sub-page 0x3F7E and
then sub-page 0x3F7F to the callback (it handed 0x3F7E over twice). -/
theorem walk_exact_lookup_3f7f :
    (cexD5.slots 0x1A2).chain.map (·.subno) = [0x3F7F, 0x3F7E] ∧
    cexD5Visits = [(0x1A2, 0x3F7E, false), (0x1A2, 0x3F7F, false)] :=
  cexD5_facts

/-! ## finding C17-D7 in both source shapes (which one /repo has: `current_shape`) -/

/-- **current_shape.** The source shape translate/gen_search.py read from /repo on this run is one of the two the
model follows - never a half-applied repair (the translator refuses that, and this would not build); since round 6 a
third one: `Shape.anchored` = `Shape.repaired` + fixes/C17-line-anchors.diff (Props/C17Anchors.lean).  With
`Shape.unrepaired` the counterexample below is the behaviour of /repo (known finding C17-D7); with `Shape.repaired`
it is `turn_on_3f7f_repaired`, and the hypothesis `S != VBI_ANY_SUBNO` of the search_exact theorems is void. -/
theorem current_shape : Shape.current = Shape.unrepaired ∨ Shape.current = Shape.repaired ∨ Shape.current = Shape.anchored := by
  decide

/-- **turn_on_3f7f_counterexample (C17-D7, UNREPAIRED shape only).** "Each once per pass, in order" fails for a pass
that starts at a page whose sub-code is 0x3F7F.  (a) Hex page 11F is cached with sub-codes 0 and 0x3F7F, both contain
"ab" (the matcher finds it at [85, 87) of 11F.0).  A backward search created at (120, ANY) has returned 11F.3F7F;
`cexD7Turn` is the search context at that point.  Turning forward, `vbi_search_next` reads `start_subno == 0x3F7F` as
VBI_ANY_SUBNO and sets the forward stop position to (11F, 0); the pass reports NOT_FOUND without searching 11F.0.
(b) Page 80A cached with sub-codes 0x3F7F and 2, the latter most recently used: a backward walk from (80A, 0x3F7F) is
handed 80A.2 first (`_vbi_cache_get_page` takes 0x3F7F for the wildcard).  Repair: fixes/C17-turn-3f7f.diff. -/
theorem turn_on_3f7f_counterexample :
    ((prepare Shape.unrepaired cexD7Turn 1).stopPgno0, (prepare Shape.unrepaired cexD7Turn 1).stopSubno0) = (0x11F, 0) ∧
    ((lookupX cexD7 0x11F 0).map (·.text)) = some abPage ∧
    exAb {} (hayFwd abPage (-1) 0).1 = some (85, 87) ∧
    (searchNext Shape.unrepaired exAb walkFuel cexD7 cexD7Turn 1).res = .ret SEARCH_NOT_FOUND ∧
    (cexD7b.slots 0x80A).chain.map (·.subno) = [2, 0x3F7F] ∧
    (walk Shape.unrepaired logTwo walkFuel cexD7b [] 0x80A 0x3F7F (-1)).st.take 1 = [(0x80A, 2, false)] :=
  cexD7_unrepaired

/-- **turn_on_3f7f_repaired (C17-D7, REPAIRED shape).** In general: a direction change keeps the page returned last,
with its sub-page number whatever it is, as the stop position of both directions, and the walk starts at exactly the
position it is given.  On the witnesses: (a) the forward stop position after the turn on 11F.3F7F is (11F, 0x3F7F); the
walk hands 11F.3F7F and then (wrapped) 11F.0 to the callback; 11F.0 does not stop the pass (it does in the unrepaired
shape) and `vbi_search_next (+1)` returns SUCCESS with page 11F.0; (b) the backward walk from (80A, 0x3F7F) is handed
80A.3F7F, then 80A.2. -/
theorem turn_on_3f7f_repaired :
    (∀ (sh : Shape) (s : SearchSt) (d : Int), sh.turnKeeps = true → s.dir ≠ 0 → dirOf d ≠ s.dir →
      (prepare sh s d).stopPgno0 = s.startPgno ∧ (prepare sh s d).stopSubno0 = s.startSubno ∧
      (prepare sh s d).stopPgno1 = s.startPgno ∧ (prepare sh s d).stopSubno1 = s.startSubno) ∧
    (∀ (sh : Shape) (c : Cache) (p sub dir : Int), sh.startExact = true →
      (walkPositions sh c p sub dir).head? = some (p, sub, false)) ∧
    ((prepare Shape.repaired cexD7Turn 1).stopPgno0, (prepare Shape.repaired cexD7Turn 1).stopSubno0) = (0x11F, 0x3F7F) ∧
    (walk Shape.repaired logTwo walkFuel cexD7 [] 0x11F 0x3F7F 1).st = [(0x11F, 0x3F7F, false), (0x11F, 0, true)] ∧
    ((lookupX cexD7 0x11F 0).map (fun e => stopFwd (prepare Shape.repaired cexD7Turn 1) 0x11F e true)) = some false ∧
    ((lookupX cexD7 0x11F 0).map (fun e => stopFwd (prepare Shape.unrepaired cexD7Turn 1) 0x11F e true)) = some true ∧
    (walk Shape.repaired logTwo walkFuel cexD7b [] 0x80A 0x3F7F (-1)).st = [(0x80A, 0x3F7F, false), (0x80A, 2, false)] ∧
    ((searchNext Shape.repaired exAb walkFuel cexD7 cexD7Turn 1).res = .ret SEARCH_SUCCESS ∧
     (searchNext Shape.repaired exAb walkFuel cexD7 cexD7Turn 1).st.pgPgno = 0x11F ∧
     (searchNext Shape.repaired exAb walkFuel cexD7 cexD7Turn 1).st.pgSubno = 0) := by
  refine ⟨?_, ?_, cexD7_repaired.1, cexD7_repaired.2.1, cexD7_repaired.2.2.1, cexD7_repaired.2.2.2.1,
    cexD7_repaired.2.2.2.2, cexD7_repaired_search⟩
  · intro sh s d hk h0 hd
    unfold prepare
    simp [h0, hd, hk]
  · intro sh c p sub dir hse
    unfold walkPositions; rw [startSub_repaired sh hse]; rfl

end Zvbi.Props.C17
