import ZvbiModel.Idl.RiStream
import ZvbiModel.Props.C15Sender
/-!
# C15, third part - IDL format A streams with RI repeats, fault patterns per transmission

Property theorems only.  Helper lemmas: `Idl/RiStream.lean` (`TEv`, `wantT`, `expectedR_tevs`, `run_tevs`,
`senderEvs`).  The unit is the single transmission (original or repeat `j` of message number `c`), each one
received / dropped / corrupt, unrelated packets in between; the statement is the sender-side reading of "a gap in
the continuity sequence is reported with the data-lost flag on the next delivery": DATA_LOST on a delivery **iff**
it does not directly continue the previous delivery or a corrupt transmission that its announced repeat did not
repair intervened (`gapFlag`).
-/
namespace Zvbi.Props.C15
open Zvbi.Hamm Zvbi.Gen

section IdlRepeats
open Zvbi.Idl

/-- **Loss is flagged, for every fault pattern over originals and repeats.**  Any sequence of
    transmissions of ours - transmission number `j <= 14` (0 = original, else repeat `j`) of message
    number `c` (continuity index `c % 256`), any options per message but with an RI byte, bit 7 of RI
    ("a further repeat follows") set or not per transmission - each one received intact, dropped, or
    corrupt in its CRC region, with unrelated packets anywhere in between; no relation between the
    numbers is assumed (so every fault pattern of every sender schedule is covered).  From any
    demultiplexer state that corresponds to the sender-side state `(pend, last, aw)` the callbacks are
    exactly `wantT pend last aw evs`: handed over are the intact originals and the intact repeats whose
    number was announced by the corrupt transmission received just before (among the packets of ours
    that got through), with the exact user bytes and DEPENDENT as sent, and each delivery carries
    DATA_LOST iff `gapFlag`: an unrepaired corrupt transmission intervened since the previous delivery,
    or the message delivered before was not number `c - 1` (modulo 256).  In particular a packet lost
    without trace just before a corrupt original that is then repaired by its repeat IS reported (the
    expected continuity index survives the corrupt packet).  Induction over the transmissions
    (`expectedR_tevs`) on top of the packet-level refinement `run_refines_R`; uses
    `Gen.idlRiClearedOnRecovery = true`. -/
theorem idl_loss_flagged_repeats (channel : Nat) (spa : List Nat) (hch : channel < 16) (hspa : spa.length ≤ 6)
    (hspalt : ∀ n ∈ spa, n < 16) (evs : List TEv) (hok : TEvsOk channel spa evs)
    (s : St) (hsc : s.channel = channel) (hsa : s.address = Spec.spaVal spa)
    (pend : Bool) (last aw : Option Nat)
    (hfl : s.flags = if pend then 1 else 0) (hci : CiRel s.ci pend last) (haw : AwRelT s.ri aw) :
    (run s ((txsT channel spa evs).map Spec.Tx.bytes)).map (fun cb => (cb.flags, cb.bytes)) =
      wantT pend last aw evs :=
  run_tevs channel spa hch hspa hspalt evs hok s hsc hsa pend last aw hfl hci haw

/-- The same from a new demultiplexer: nothing pending, no previous delivery, no repeat awaited. -/
theorem idl_loss_flagged_repeats_new (channel : Nat) (spa : List Nat) (hch : channel < 16) (hspa : spa.length ≤ 6)
    (hspalt : ∀ n ∈ spa, n < 16) (fill : Nat) (s : St) (hnew : new channel (Spec.spaVal spa) fill = some s)
    (evs : List TEv) (hok : TEvsOk channel spa evs) :
    (run s ((txsT channel spa evs).map Spec.Tx.bytes)).map (fun cb => (cb.flags, cb.bytes)) =
      wantT false none none evs := by
  obtain ⟨h1, h2, h3, h4, h5⟩ := idl_new_state _ _ _ s hnew
  exact run_tevs channel spa hch hspa hspalt evs hok s h1 h2 false none none (by rw [h5]; rfl)
    (by rw [h3]; exact Or.inr rfl) (by rw [h4]; trivial)

/-- **A sender that numbers its messages consecutively and repeats them.**  Messages `c, c+1, ..`,
    message `i` sent as an original and any number (up to 14) of repeats numbered 1, 2, ..; per
    transmission the sender chooses the high nibble of RI (bit 7 = more repeats follow) and the
    channel decides received / dropped / corrupt; unrelated packets before any transmission.  A new
    demultiplexer calls back `wantT false none none (senderEvs c msgs)`. -/
theorem idl_sender_repeats_loss_flagged (channel : Nat) (spa : List Nat) (hch : channel < 16)
    (hspa : spa.length ≤ 6) (hspalt : ∀ n ∈ spa, n < 16) (fill : Nat) (s : St)
    (hnew : new channel (Spec.spaVal spa) fill = some s)
    (c : Nat) (msgs : List (Msg × List Slot)) (hok : SenderOk channel spa c msgs) :
    (run s ((txsT channel spa (senderEvs c msgs)).map Spec.Tx.bytes)).map (fun cb => (cb.flags, cb.bytes)) =
      wantT false none none (senderEvs c msgs) :=
  idl_loss_flagged_repeats_new channel spa hch hspa hspalt fill s hnew _ (senderEvs_ok channel spa msgs c hok)

/-- **The continuity gap survives a corrupt packet that announces its repeat** (the input class of the seeded
    change C15-f).  Message `c` is delivered; `g + 1` messages are lost without trace; the original of message
    `c + g + 2` arrives corrupt announcing a repeat (possibly after unrelated packets), its repeat 1 arrives intact:
    the repeat is handed over **with DATA_LOST** (unless the gap is a multiple of 256 messages), and the following message
    without. -/
theorem idl_gap_before_repaired_packet_flagged (channel : Nat) (spa : List Nat) (hch : channel < 16)
    (hspa : spa.length ≤ 6) (hspalt : ∀ n ∈ spa, n < 16) (fill : Nat) (s : St)
    (hnew : new channel (Spec.spaVal spa) fill = some s)
    (c g : Nat) (m0 m1 m1' m2 : Msg) (d : Spec.Pkt) (b : List Nat) (hg : (g + 1) % 256 ≠ 0)
    (hann : announces m1 0 = true)
    (hok : TEvsOk channel spa [.tx c m0 0 .received, .foreign b, .tx (c + g + 2) m1 0 (.corrupt d), .foreign b,
      .tx (c + g + 2) m1' 1 .received, .tx (c + g + 3) m2 0 .received]) :
    (run s ((txsT channel spa [.tx c m0 0 .received, .foreign b, .tx (c + g + 2) m1 0 (.corrupt d), .foreign b,
      .tx (c + g + 2) m1' 1 .received, .tx (c + g + 3) m2 0 .received]).map Spec.Tx.bytes)).map
      (fun cb => (cb.flags, cb.bytes)) = [(m0.dep, m0.data), (1 ||| m1'.dep, m1'.data), (m2.dep, m2.data)] := by
  rw [idl_loss_flagged_repeats_new channel spa hch hspa hspalt fill s hnew _ hok]
  have h1 : (c + 1) % 256 ≠ (c + g + 2) % 256 := by omega
  have h2 : (c + g + 2 + 1) % 256 = (c + g + 3) % 256 := by rw [Nat.add_assoc (c + g)]
  simp [wantT, gapFlag, hann, h1, h2]

/-- **Finding C15-R2: a message is handed over twice.**  The original of message `c` arrives intact (handed
    over), its repeat `j` arrives corrupt announcing a further repeat, repeat `j + 1` arrives intact: the demultiplexer
    identifies the awaited repeat by its number only and hands the message over a second time, with DATA_LOST,
    although nothing was lost and nothing else was sent ("delivers exactly the sent bytes, block by block in order"
    would demand one callback).  Holds for EVERY such message and corrupt packet; reproduced on the real code:
    `corpus/C15/r2-idl-duplicate-after-corrupt-repeat.ops`. -/
theorem idl_duplicate_after_corrupt_repeat_counterexample (channel : Nat) (spa : List Nat) (hch : channel < 16)
    (hspa : spa.length ≤ 6) (hspalt : ∀ n ∈ spa, n < 16) (fill : Nat) (s : St)
    (hnew : new channel (Spec.spaVal spa) fill = some s)
    (c j : Nat) (m mj m' : Msg) (d : Spec.Pkt) (hj : 1 ≤ j) (hann : announces mj j = true)
    (hok : TEvsOk channel spa [.tx c m 0 .received, .tx c mj j (.corrupt d), .tx c m' (j + 1) .received]) :
    (run s ((txsT channel spa [.tx c m 0 .received, .tx c mj j (.corrupt d), .tx c m' (j + 1) .received]).map
      Spec.Tx.bytes)).map (fun cb => (cb.flags, cb.bytes)) = [(m.dep, m.data), (1 ||| m'.dep, m'.data)] := by
  rw [idl_loss_flagged_repeats_new channel spa hch hspa hspalt fill s hnew _ hok]
  have h1 : (c + 1) % 256 ≠ c % 256 := by omega
  simp [wantT, gapFlag, hann, h1]

/-! ### non-vacuity -/

/-- `exMsg` with RI high nibble 0 (last transmission: no further repeat) -/
def exMsgLast (dep : Nat) : Msg := { exMsg dep with ri := 0 }

/-- message 5 received; message 6 lost without trace; original of message 7 corrupt (announces repeat 1), an
    unrelated packet, repeat 1 of message 7 received; message 8: original received, repeat 1 corrupt (announces
    repeat 2), repeat 2 received (C15-R2: handed over again); message 9 received but its original had been
    preceded by a corrupt last repeat of message 8 (announces nothing) -/
def exTEvs : List TEv :=
  [.tx 5 (exMsg 8) 0 .received, .tx 6 (exMsg 8) 0 .dropped, .tx 7 (exMsg 8) 0 (.corrupt exDamaged7), .foreign (List.replicate 42 0),
   .tx 7 (exMsg 8) 1 .received, .tx 8 (exMsg 8) 0 .received, .tx 8 (exMsg 8) 1 (.corrupt (exDamaged1 8)),
   .tx 8 (exMsg 8) 2 .received, .tx 8 (exMsgLast 8) 3 (.corrupt exDamagedLast), .tx 9 (exMsgLast 0) 0 .received]
where
  exDamaged7 : Spec.Pkt := { pk 3 [1, 2] 7 (exMsg 8) 0 with crcHi := (pk 3 [1, 2] 7 (exMsg 8) 0).crcHi ^^^ 1 }
  exDamagedLast : Spec.Pkt := { pk 3 [1, 2] 8 (exMsgLast 8) 3 with crcLo := (pk 3 [1, 2] 8 (exMsgLast 8) 3).crcLo ^^^ 0x40 }

example : TEvsOk 3 [1, 2] exTEvs := by
  have hm : ∀ c, c < 16 → (exMsg 8).Ok 2 c ∧ (exMsgLast 8).Ok 2 c ∧ (exMsgLast 0).Ok 2 c := by
    intro c hc
    refine ⟨⟨by decide, by decide, by decide, by decide, by decide, by decide, by decide, by decide, by decide, by decide, ?_⟩,
      ⟨by decide, by decide, by decide, by decide, by decide, by decide, by decide, by decide, by decide, by decide, ?_⟩,
      ⟨by decide, by decide, by decide, by decide, by decide, by decide, by decide, by decide, by decide, by decide, ?_⟩⟩ <;>
    (revert c; decide +kernel)
  have hc : ∀ (m : Msg) (j : Nat) (d : Spec.Pkt), shapeB d = true →
      (if d.haveCi then d.residual ≠ 0 else (d.residual &&& 0xFF) ≠ (d.residual >>> 8)) →
      d.haveRi = true → d.ri = m.ri + j → d.channel = 3 → Spec.spaVal d.spa = Spec.spaVal [1, 2] →
      CorruptOk 3 [1, 2] m j d := fun m j d h1 h2 h3 h4 h5 h6 => ⟨shape_of_shapeB d h1, h2, h3, h4, h5, h6⟩
  intro e he
  simp only [exTEvs, List.mem_cons, List.not_mem_nil, or_false] at he
  rcases he with rfl | rfl | rfl | rfl | rfl | rfl | rfl | rfl | rfl | rfl
  · exact ⟨(hm 5 (by decide)).1, by decide, by decide, trivial⟩
  · exact ⟨(hm 6 (by decide)).1, by decide, by decide, trivial⟩
  · exact ⟨(hm 7 (by decide)).1, by decide, by decide,
      hc _ _ _ (by decide +kernel) (by decide +kernel) (by decide +kernel) (by decide +kernel) (by decide +kernel) (by decide +kernel)⟩
  · show Spec.NotForUs 3 (Spec.spaVal [1, 2]) (List.replicate 42 0)
    have h : unham8 ((List.replicate 42 0).getD 1 0) = some 1 := by decide
    unfold Spec.NotForUs; rw [h]
    cases unham8 ((List.replicate 42 0).getD 0 0) with
    | none => trivial
    | some c => exact Or.inl (by decide)
  · exact ⟨(hm 7 (by decide)).1, by decide, by decide, trivial⟩
  · exact ⟨(hm 8 (by decide)).1, by decide, by decide, trivial⟩
  · exact ⟨(hm 8 (by decide)).1, by decide, by decide,
      hc _ _ _ (by decide +kernel) (by decide +kernel) (by decide +kernel) (by decide +kernel) (by decide +kernel) (by decide +kernel)⟩
  · exact ⟨(hm 8 (by decide)).1, by decide, by decide, trivial⟩
  · exact ⟨(hm 8 (by decide)).2.1, by decide, by decide,
      hc _ _ _ (by decide +kernel) (by decide +kernel) (by decide +kernel) (by decide +kernel) (by decide +kernel) (by decide +kernel)⟩
  · exact ⟨(hm 9 (by decide)).2.2, by decide, by decide, trivial⟩

/-- what the sender-side spec demands for it: message 5; message 7 with DATA_LOST (message 6 missing); message 8;
    message 8 again with DATA_LOST (C15-R2); message 9 with DATA_LOST (a corrupt packet announcing no repeat intervened) -/
example : (wantT false none none exTEvs).map (·.1) = [8, 9, 8, 9, 1] := by decide
/-- and the model of the C code run on the 42 byte packets agrees -/
example : (run { channel := 3, address := 0x21, ci := none, ri := none, flags := 0 }
    ((txsT 3 [1, 2] exTEvs).map Spec.Tx.bytes)).map (·.flags) = [8, 9, 8, 9, 1] := by
  decide +kernel

end IdlRepeats
end Zvbi.Props.C15
