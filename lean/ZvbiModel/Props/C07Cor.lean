import ZvbiModel.Demux.JoinC07
import ZvbiModel.Demux.JoinHeader
import ZvbiModel.Demux.JoinResync
import ZvbiModel.Demux.CorCompose
/-!
# C07 (joined with C06) - parser equivalence, the round trip from the multiplexer model, coroutine = feed

Property theorems only; helper lemmas: `Demux/Join*.lean`, `Demux/Cor*.lean`, `Mux/Join*.lean`.
`EnParse` (`Mux/Spec.lean`) is the reader written from EN 300 472 / EN 301 775 / ISO 13818-1;
`Demux.ofLine` turns one of its lines into the `vbi_sliced` libzvbi reports (Teletext B 3, VPS 4,
WSS 0x400 with the two reserved bits set, Caption 8); `Demux.Sep` says that the packets are frames the
demultiplexer can tell apart: each has 1..`frameCap cfg` lines (64 = all of `dx->sliced[64]` with fix
dvb-demux-full-frame, 63 before it) with defined, strictly ascending line numbers and
begins on a line not beyond the last line of the packet before ("a frame boundary is recognisable by
a non-increasing line number"); `Demux.Holds fs pts lines`: the frame buffer holds exactly `lines`
with `frame_pts = pts`, `new_frame` clear.
-/
namespace Zvbi.Props.C07Cor
open Zvbi.Demux

variable {cfg : SrcCfg}
open Zvbi.Mux.EnParse (Pes pesStream Op Sent run)

/-- **parser_equivalence (PES path): `EnParse.pesStream` vs the demultiplexer.**  For every byte
stream (bytes < 256) which the standards reader accepts as VBI PES packets `ps` that are separable
frames, for every partition of the stream into `vbi_dvb_demux_feed` calls and either shape of the
two repaired statements: no fault; the frames delivered are exactly the packets but the last, in
order, each with the PTS the reader decodes (ISO 13818-1 2.4.3.7) and the lines the reader sees
(service, line number from `line_offset`/`field_parity`, payload bits with the bit order of each
service); everything is consumed and the last packet's frame is held in the frame buffer. -/
theorem parser_equivalence (cfg : SrcCfg) (bs : Bytes) (ps : List Pes) (h : pesStream bs = some ps)
    (hb : ∀ b ∈ bs, b < 256) (hsep : Sep cfg (ps.map (·.lines))) (chunks : List Bytes) (hch : chunks.flatten = bs) :
    (pesFeeds cfg St.init chunks).err = none
    ∧ (pesFeeds cfg St.init chunks).frames = ps.dropLast.map outOf
    ∧ frames cfg bs = ps.dropLast.map outOf
    ∧ (pesFeeds cfg St.init chunks).st.pending = []
    ∧ ∀ hne : ps ≠ [], Holds (pesFeeds cfg St.init chunks).st.fs (ps.getLast hne).pts (ps.getLast hne).lines := by
  obtain ⟨fsEnd, har, hend⟩ := frames_of_pesStream (cfg := cfg) bs ps h hb hsep
  obtain ⟨he, _, href⟩ := pesFeeds_refines (cfg := cfg) chunks St.init Inv_init
  have e0 : St.init.pending ++ chunks.flatten = bs := by
    rw [hch]; simp [St.pending, St.init, Wrap.pend]
  have ec : St.init.core = Core.init := rfl
  rw [e0, ec, har] at href
  simp only [ARes.mk.injEq] at href
  obtain ⟨hcore, hpend, hframes, _⟩ := href
  have hfs : (pesFeeds cfg St.init chunks).st.fs = fsEnd := (congrArg Core.fs hcore).symm
  refine ⟨he, hframes.symm, by unfold frames; rw [har], hpend.symm, fun hne => by rw [hfs]; exact hend hne⟩

/-- non-vacuity: two hand-built EN 300 472 packets (`Demux/Spec.lean`), Teletext on line 7 twice -/
example : (pesStream (linePacket 3 7 0x55 ++ linePacket 4 7 0x66)).map (fun ps => ps.map fun p => (p.pts, p.lines.length))
    = some [(3, 1), (4, 1)] := by decide +kernel
example : ((frames SrcCfg.repaired (linePacket 3 7 0x55 ++ linePacket 4 7 0x66)).map fun f => (f.pts, f.lines.map (·.line)))
    = [(3, [7])] := by decide +kernel

/-- **mux_demux_roundtrip_model (join with C06), for frames of defined lines.**  The open statement
`C07.mux_demux_roundtrip_model_full` with "every line number defined" in place of "the first line
number defined" (see `mux_demux_roundtrip_undef_full` in Props/C06Join.lean for what stays open):
for every history of multiplexer operations from `vbi_dvb_pes_mux_new ()` whose accepted frames are
separable frames of defined lines, this model of the demultiplexer returns from the concatenated
output of C06's model of the multiplexer all accepted frames but the last, with PTS and lines, in
the vocabulary of Props/C07.lean (`deliveredAs`). -/
theorem mux_demux_roundtrip_model (cfg : SrcCfg) (ops : List Op) (hops : ∀ op ∈ ops, Zvbi.Mux.EnParse.Op.OK op)
    (hsep : Zvbi.Mux.Separable (run Zvbi.Mux.newPes ops).2.2) :
    Zvbi.Props.C07.deliveredAs (frames cfg (run Zvbi.Mux.newPes ops).2.1)
      = (run Zvbi.Mux.newPes ops).2.2.dropLast.map (fun s => (s.pts, s.lines)) := by
  obtain ⟨ps, hps, hcont⟩ := Zvbi.Mux.pes_history ops hops Zvbi.Mux.newPes Zvbi.Mux.cfgOK_default rfl
  have hbytes := Zvbi.Mux.run_bytes_lt ops hops Zvbi.Mux.newPes rfl
  have hasc := Zvbi.Mux.run_asc ops hops Zvbi.Mux.newPes
  have hlines : ps.map (·.lines) = (run Zvbi.Mux.newPes ops).2.2.map (·.lines) := by
    rw [← hcont, List.map_map]; rfl
  have hS : Sep cfg (ps.map (·.lines)) := by
    rw [hlines]
    cases hss : (run Zvbi.Mux.newPes ops).2.2 with
    | nil => trivial
    | cons s ss =>
      rw [hss] at hsep hasc
      exact Zvbi.Mux.sepFrom_of_separable ss s hasc hsep
  obtain ⟨fsEnd, har, _⟩ := frames_of_pesStream (cfg := cfg) _ ps hps hbytes hS
  have hf : frames cfg (run Zvbi.Mux.newPes ops).2.1 = (run Zvbi.Mux.newPes ops).2.2.dropLast.map Zvbi.Mux.received := by
    unfold frames
    rw [har, ← hcont, Zvbi.Mux.map_dropLast, List.map_map]; rfl
  rw [hf]
  apply deliveredAs_received
  intro s hs
  exact run_lines_canon ops Zvbi.Mux.newPes s (List.dropLast_subset _ hs)

/-- **resync on an intact stream after a discard or reset.**  A demultiplexer at a packet boundary
(`skip` 0, header lookahead) that is at a frame start - the state after `vbi_dvb_demux_reset` and
after every discarded frame (`C07.error_discards`) - whatever stale lines, line counters, frame PTS
and packet PTS it still holds: an intact stream of separable frames that follows is delivered
completely (all packets but the last, which is held), exactly as from a new demultiplexer.
(The part of `C07.resync_full` whose sender side is the standards reader / C06's multiplexer.) -/
theorem resync_from_frame_start (cfg : SrcCfg) (fs : FS) (hnf : fs.newFrame = true) (bs : Bytes) (ps : List Pes)
    (h : pesStream bs = some ps) (hb : ∀ b ∈ bs, b < 256) (hsep : Sep cfg (ps.map (·.lines))) :
    (arun cfg { skip := 0, lookahead := 48, fs := fs } bs).frames = ps.dropLast.map outOf
    ∧ (arun cfg { skip := 0, lookahead := 48, fs := fs } bs).frames = frames cfg bs
    ∧ (arun cfg { skip := 0, lookahead := 48, fs := fs } bs).stop = none := by
  obtain ⟨f0, h0, _⟩ := frames_of_pesStream (cfg := cfg) bs ps h hb hsep
  have hfr : frames cfg bs = ps.dropLast.map outOf := by unfold frames; rw [h0]
  by_cases hne : ps = []
  · subst hne
    have hbs : bs = [] := by
      obtain ⟨pks, _, h2, h3⟩ := pesStreamF_inv _ bs [] h
      have : pks = [] := by simpa using h3
      subst this; simpa using h2.symm
    subst hbs
    simp [arun, frames]
  · obtain ⟨fsEnd, har, _⟩ := frames_of_pesStream_from (cfg := cfg) fs hnf bs ps h hb hsep hne
    rw [har, hfr]
    exact ⟨rfl, rfl, rfl⟩

/-- non-vacuity: the context after the 70-unit packet (at a frame start since 7c6e61c, 64 stale lines in the
buffer) delivers the following intact frames like a new demultiplexer -/
example : Zvbi.Props.C07.afterOverflow.fs.newFrame = true ∧ Zvbi.Props.C07.afterOverflow.fs.frame.lines.length = 64
    ∧ Zvbi.Props.C07.afterOverflow.core.skip = 0 ∧ Zvbi.Props.C07.afterOverflow.core.lookahead = 48 := by decide +kernel

/-! ## The header stage and the `lookahead` encoding of the PES state

`demux_pes_packet` has no state variable: "a payload is in front of us" is `pes_wrap.lookahead > 48`,
and the start code scan / `valid_vbi_pes_packet_header` read `p[0] .. p[45]` of a window of which
`wrap_around` guarantees `lookahead` bytes.  Both are sound only because the header stage rejects
every `PES_packet_length < 178` (seeded change C07-c relaxes exactly that test). -/

/-- **the header stage rejects every PES_packet_length < 178.**  At a VBI start code `00 00 01 BD`
whose length field is below 178, one iteration of `demux_pes_packet` (callback or coroutine, any
context) skips the packet by its own length `6 + PES_packet_length`, keeps the lookahead at 48 and
leaves frame and PTS state untouched - however valid the rest of the header is. -/
theorem header_rejects_short (cb : Bool) (sk : Nat) (fs : FS) (hi lo : Nat) (rest : Bytes) (hlen : 42 ≤ rest.length)
    (hpl : (hi % 256) * 256 + lo % 256 < 178) :
    pesIter cb cfg sk 48 fs (0 :: 0 :: 1 :: 0xBD :: hi :: lo :: rest)
      = ((6 + ((hi % 256) * 256 + lo % 256), 48), fs, [], none) :=
  pesIter_short cb sk fs hi lo rest hlen hpl

/-- an accepted header sets the payload lookahead to `PES_packet_length - 40 >= 138` -/
theorem header_accept_lookahead (p : Nat) (fs fs' : FS) (h : Bytes) (sk la : Nat)
    (he : foundRes p fs h = ((sk, la), fs')) (hla : la ≠ 48) :
    178 ≤ packetLengthOf h ∧ la = packetLengthOf h - 40 ∧ sk = p + 46 ∧ validHeader fs h = some fs' :=
  foundRes_accept p fs fs' h sk la he hla

example : (foundRes 0 {} ((linePacket 3 7 0x55).take 46)).1 = (46, 138) ∧ packetLengthOf ((linePacket 3 7 0x55).take 46) = 178 := by
  decide +kernel

/-- **lookahead invariant.**  After every history of feed calls on whatever bytes, in whatever
pieces: `pes_wrap.lookahead` is exactly 48 (start code scan / header state: the 48 bytes the scan
and the header validation read are in the window) or a payload length between 138 and 65495
(payload state); so `lookahead > 48` encodes the payload state soundly and no state with a
lookahead below 48 is reachable. -/
theorem lookahead_invariant (chunks : List Bytes) :
    (pesFeeds cfg St.init chunks).st.pw.lookahead = 48
    ∨ (138 ≤ (pesFeeds cfg St.init chunks).st.pw.lookahead ∧ (pesFeeds cfg St.init chunks).st.pw.lookahead ≤ 65495) :=
  pesFeeds_la chunks

/-- ... and the same for one iteration from any context that satisfies it (callback or coroutine) -/
theorem lookahead_step (cb : Bool) (sk la : Nat) (fs : FS) (win : Bytes) (h : LaOK la) :
    LaOK (pesIter cb cfg sk la fs win).1.2 :=
  pesIter_la cb sk la fs win h

/-- non-vacuity: a runt packet with a fully valid VBI header and PES_packet_length 44 (the seeded
C07-c case) between two ordinary packets is skipped: both frames' packets are seen, the first frame is
delivered when the second begins, and the lookahead is 48 afterwards -/
example : let runt := (witPacket 9 []).take 50 |>.set 5 44
    ((pesFeeds SrcCfg.repaired St.init [linePacket 3 7 0x55 ++ runt ++ linePacket 4 7 0x66]).frames.map (·.pts),
     (pesFeeds SrcCfg.repaired St.init [linePacket 3 7 0x55 ++ runt ++ linePacket 4 7 0x66]).st.pw.lookahead)
      = ([3], 48) := by decide +kernel

/-! ## `vbi_dvb_demux_cor` = `vbi_dvb_demux_feed` (C07 `cor_equals_feed`)

Proved for the source as repaired by 776a0f0 (`corSkipsEmpty`: a frame without lines is not handed to
the coroutine caller) and 7c6e61c (`pesDiscards`: a data unit error discards the frame); both are
needed: `C07.cor_livelock_counterexample` and `cor_equals_feed_needs_discard`.  Proof: a second
refinement of `demux_pes_packet` with `callback == NULL` (`Demux/CorLoop.lean`) against the same
stream machine `arun`, where the restart of a packet from its first data unit after a hand-over is
shown to end, up to state that a frame start forgets, where the callback variant continues. -/

/-- **cor_equals_feed** - the open statement `C07.cor_equals_feed_full` for the repaired source: for
every context reached by feed calls on any bytes and every buffer, the caller loop
`while (left > 0) n = vbi_dvb_demux_cor (...)` (max_lines 64) ends within `2 * length + 4` calls
without fault and without stall, and returns exactly the frames that `vbi_dvb_demux_feed` hands to
its callback for the same buffer, except those without lines. -/
theorem cor_equals_feed (hse : cfg.corSkipsEmpty = true) (hpd : cfg.pesDiscards = true) :
    Zvbi.Props.C07.cor_equals_feed_full cfg :=
  fun chunks buf => pesCorDrain_eq_feed cfg hse hpd chunks buf

/-- the same from any context that satisfies the invariant of reachable contexts and holds at most 64 lines -/
theorem cor_equals_feed_from (hse : cfg.corSkipsEmpty = true) (hpd : cfg.pesDiscards = true)
    (s : St) (h : CorInv cfg s) (buf : Bytes) :
    (pesCorDrain (2 * buf.length + 4) cfg 0 s buf 0 64).err = none ∧
    (pesCorDrain (2 * buf.length + 4) cfg 0 s buf 0 64).stalled = false ∧
    (pesCorDrain (2 * buf.length + 4) cfg 0 s buf 0 64).frames
      = (pesFeed cfg s buf).frames.filter (fun f => !f.lines.isEmpty) :=
  pesCorDrain_eq_feed_from hse hpd s h buf

example : SrcCfg.repaired.corSkipsEmpty = true ∧ SrcCfg.repaired.pesDiscards = true := ⟨rfl, rfl⟩
/-- `livelockPacket` makes feed deliver a frame without lines, which the coroutine never returns; the
frame after it (two lines) is returned by both -/
example : (pesFeed SrcCfg.repaired St.init (livelockPacket ++ linePacket 3 7 0x55 ++ linePacket 4 7 0x66)).frames.map
      (fun f => (f.pts, f.lines.length)) = [(1, 0), (1, 2)] ∧
    (pesCorDrain (2 * (livelockPacket ++ linePacket 3 7 0x55 ++ linePacket 4 7 0x66).length + 4) SrcCfg.repaired 0 St.init
      (livelockPacket ++ linePacket 3 7 0x55 ++ linePacket 4 7 0x66) 0 64).frames.map
      (fun f => (f.pts, f.lines.length)) = [(1, 2)] := by decide +kernel

/-- **the discard of 7c6e61c is needed for cor_equals_feed.**  On a tree with the `continue` of 776a0f0
but with the dead `err < 0` test, five legal-looking packets (`corNoDiscardWitness`: line 7 | stuffing +
Teletext on line 3 (line number error) | Teletext, undefined line, second field | line 7 | line 7) come
back differently: the second frame has the PTS of packet 3 from the coroutine and of packet 2 from
feed.  (Both repairs are in /repo; this is why `hpd` is a hypothesis, not a defect of the current tree.) -/
theorem cor_equals_feed_needs_discard :
    let c : SrcCfg := { corSkipsEmpty := true, pesDiscards := false, lateOverflow := false, tsCompletesInHeader := false }
    let r := pesCorDrain (2 * corNoDiscardWitness.length + 4) c 0 St.init corNoDiscardWitness 0 64
    r.err = none ∧ r.stalled = false ∧
    r.frames.map (fun f => (f.pts, f.lines.map fun l => l.line)) = [(1, [7]), (3, [0, 7])] ∧
    ((pesFeed c St.init corNoDiscardWitness).frames.filter (fun f => !f.lines.isEmpty)).map
      (fun f => (f.pts, f.lines.map fun l => l.line)) = [(1, [7]), (2, [0, 7])] :=
  cor_ne_feed_without_discard

/-- **cor_equals_feed over successive buffers.**  After any history of feed calls, any sequence of
buffers drained one after the other through `vbi_dvb_demux_cor` (each by the caller loop, within
`2 * length + 4` calls) returns exactly the frames with lines that feeding the same buffers delivers -
also when a drain ends with a hand-over at the very end of its buffer, where the coroutine context
still sits at that packet's payload window, a state no feed call leaves.  Proof: the relation
"both contexts deliver the same frames with lines on every continuation" (`Demux.CorSim`) is kept by
each drain (`Demux.corDrain_step`). -/
theorem cor_equals_feed_composed (hse : cfg.corSkipsEmpty = true) (hpd : cfg.pesDiscards = true)
    (chunks bufs : List Bytes) :
    pesCorDrains cfg (pesFeeds cfg St.init chunks).st bufs
      = (pesFeeds cfg (pesFeeds cfg St.init chunks).st bufs).frames.filter (fun f => !f.lines.isEmpty) :=
  Zvbi.Demux.cor_equals_feed_composed cfg hse hpd chunks bufs

/-- an instance with two drained buffers, the first ending exactly where a frame was handed over -/
example : pesCorDrains SrcCfg.repaired St.init
      [linePacket 3 7 0x55 ++ linePacket 4 7 0x66, linePacket 5 7 0x77 ++ linePacket 6 7 0x11]
    = (pesFeeds SrcCfg.repaired St.init
        [linePacket 3 7 0x55 ++ linePacket 4 7 0x66, linePacket 5 7 0x77 ++ linePacket 6 7 0x11]).frames.filter
        (fun f => !f.lines.isEmpty) := by decide +kernel

/-- **the joined round trip through the coroutine interface of the demultiplexer.**  The whole output
of C06's multiplexer model for a history whose accepted frames are separable frames of defined lines,
drained through `vbi_dvb_demux_cor`, comes back as the accepted frames but the last (repaired source). -/
theorem mux_demux_roundtrip_cor (hse : cfg.corSkipsEmpty = true) (hpd : cfg.pesDiscards = true)
    (ops : List Op) (hops : ∀ op ∈ ops, Zvbi.Mux.EnParse.Op.OK op)
    (hsep : Zvbi.Mux.Separable (run Zvbi.Mux.newPes ops).2.2) :
    let out := (run Zvbi.Mux.newPes ops).2.1
    let r := pesCorDrain (2 * out.length + 4) cfg 0 St.init out 0 64
    r.err = none ∧ r.stalled = false ∧ r.frames = (run Zvbi.Mux.newPes ops).2.2.dropLast.map Zvbi.Mux.received := by
  intro out r
  obtain ⟨h1, h2, h3⟩ := pesCorDrain_eq_feed cfg hse hpd [] out
  refine ⟨h1, h2, ?_⟩
  show (pesCorDrain (2 * out.length + 4) cfg 0 (pesFeeds cfg St.init []).st out 0 64).frames = _
  rw [h3]
  -- the frames of feed
  obtain ⟨ps, hps, hcont⟩ := Zvbi.Mux.pes_history ops hops Zvbi.Mux.newPes Zvbi.Mux.cfgOK_default rfl
  have hbytes := Zvbi.Mux.run_bytes_lt ops hops Zvbi.Mux.newPes rfl
  have hasc := Zvbi.Mux.run_asc ops hops Zvbi.Mux.newPes
  have hlines : ps.map (·.lines) = (run Zvbi.Mux.newPes ops).2.2.map (·.lines) := by
    rw [← hcont, List.map_map]; rfl
  have hS : Sep cfg (ps.map (·.lines)) := by
    rw [hlines]
    cases hss : (run Zvbi.Mux.newPes ops).2.2 with
    | nil => trivial
    | cons s ss =>
      rw [hss] at hsep hasc
      exact Zvbi.Mux.sepFrom_of_separable ss s hasc hsep
  obtain ⟨fsEnd, har, _⟩ := frames_of_pesStream (cfg := cfg) _ ps hps hbytes hS
  obtain ⟨_, _, href⟩ := pesFeed_refines (cfg := cfg) St.init out Inv_init
  have e0 : St.init.pending ++ out = out := by simp [St.pending, St.init, Wrap.pend]
  have ec : St.init.core = Core.init := rfl
  rw [e0, ec, har] at href
  simp only [ARes.mk.injEq] at href
  have hf : (pesFeed cfg (pesFeeds cfg St.init []).st out).frames = (run Zvbi.Mux.newPes ops).2.2.dropLast.map Zvbi.Mux.received := by
    show (pesFeed cfg St.init out).frames = _
    rw [← href.2.2.1, ← hcont, Zvbi.Mux.map_dropLast, List.map_map]; rfl
  rw [hf]
  -- every frame has a line
  apply List.filter_eq_self.2
  intro f hfm
  rw [List.mem_map] at hfm
  obtain ⟨s, hs, rfl⟩ := hfm
  have hd : Zvbi.Mux.Defined s := Zvbi.Mux.separable_defined _ hsep s (List.dropLast_subset _ hs)
  simp only [Zvbi.Mux.received, Bool.not_eq_eq_eq_not, Bool.not_true]
  cases hl : s.lines with
  | nil => exact absurd hl hd.1
  | cons l ls => rfl

/-! ## Finding C07-full-frame: a frame that fills the sliced buffer exactly

Before fix dvb-demux-full-frame `line_address` reports VBI_ERR_SLICED_BUFFER_OVERFLOW before it tests for
a new frame, so a frame of exactly 64 lines (`dx->sliced[64]`) cannot be closed: the first unit of the
next frame gets the error, the 64 lines are discarded and that packet is skipped.  Reproduced on the real
code (`corpus/C07/full-frame-64.ops`), repair `fixes/dvb-demux-full-frame.diff` (overflow test moved
behind the new-frame tests; `cfg.lateOverflow`, read from the source by `translate/gen_demux.py`).
The counterexamples are stated for the shape without the fix explicitly (`SrcCfg.earlyOverflow`), the
positive statements for `cfg.lateOverflow = true`, so both build whatever the current tree looks like. -/

/-- 63 Teletext units with an undefined line, first field, in one packet: legal, fits `dx->sliced[64]` -/
def fullPacket63 : Bytes := witPacket 2 (List.replicate 63 (witTtxUnit 0xE0 0x40)).flatten
/-- four ordinary frames: Teletext on line 7, PTS 3..6 -/
def fourFrames : Bytes := linePacket 3 7 0x55 ++ linePacket 4 7 0x66 ++ linePacket 5 7 0x77 ++ linePacket 6 7 0x11

/-- **two intact frames lost after a legal 63-line packet** (source without fix dvb-demux-full-frame): of
the four ordinary frames 3, 4 and 5 are to be delivered (6 stays open); after `fullPacket63` only frame 5
is: frame 3 is merged with the 63 lines (no boundary recognisable), the 64-line frame is discarded when
frame 4 begins, and frame 4's packet is skipped. -/
theorem full_frame_lost_counterexample :
    ((frames SrcCfg.earlyOverflow (fullPacket63 ++ fourFrames)).map fun f => (f.pts, f.lines.length)) = [(5, 1)]
    ∧ ((frames SrcCfg.earlyOverflow fourFrames).map fun f => (f.pts, f.lines.length)) = [(3, 1), (4, 1), (5, 1)] := by
  decide +kernel

/-- the context `fullPacket63` leaves: at a packet boundary, 63 lines pending (the same in both shapes) -/
def after63 : St := (pesFeed SrcCfg.earlyOverflow St.init fullPacket63).st

example : after63 = (pesFeed SrcCfg.repaired St.init fullPacket63).st := by decide +kernel

/-- **`C07.resync_full` is false as written** (source without the fix): from the reachable context
`after63` (packet boundary) the intact stream `fourFrames` loses two frames, not at most one. -/
theorem resync_full_counterexample : ¬ Zvbi.Props.C07.resync_full SrcCfg.earlyOverflow := by
  intro h
  have h0 : after63.core.skip = 0 ∧ after63.core.lookahead = 48 := by decide +kernel
  obtain ⟨x, y, rest, h1, h2, _, hy⟩ := h after63.core fourFrames h0.1 h0.2
  have l1 : (arun SrcCfg.earlyOverflow after63.core fourFrames).frames.length = 1 := by decide +kernel
  have l2 : (frames SrcCfg.earlyOverflow fourFrames).length = 3 := by decide +kernel
  rw [h1, List.length_append] at l1
  rw [h2, List.length_append] at l2
  omega

/-- **full_frame_delivered** (fix dvb-demux-full-frame).  A demultiplexer at a packet boundary holding a
frame under assembly with whatever lines - in particular one that fills `dx->sliced[64]` exactly - and
any line counters and PTS: the next packet the standards reader accepts whose first line does not lie
beyond the frame's last line closes that frame: it is delivered complete, all its lines with its PTS, as
the first thing that happens, and the new frame holds the packet's lines with the packet's PTS.  (Before
the fix this needed fewer than 64 lines in the buffer: `full_frame_lost_counterexample`.) -/
theorem full_frame_delivered (hlo : cfg.lateOverflow = true) (fs : FS) (hnf : fs.newFrame = false)
    (pk rest : Bytes) (p : Pes) (hp : Zvbi.Mux.EnParse.parsePes pk = some p) (hb : ∀ b ∈ pk, b < 256)
    (hok : FrameLinesOK cfg p.lines) (hle : firstLine p.lines ≤ fs.frame.lastFrameLine) :
    ∃ fs', arun cfg { skip := 0, lookahead := 48, fs := fs } (pk ++ rest)
        = (arun cfg { skip := 0, lookahead := 48, fs := fs' } rest).pre [⟨fs.framePts, fs.frame.lines⟩]
      ∧ Holds fs' p.pts p.lines := by
  obtain ⟨hne, hasc, hlt⟩ := hok
  have hcap64 := frameCap_le cfg
  obtain ⟨us, hul, hstep, _⟩ := arun_packet (cfg := cfg) fs pk rest p hp hb
  obtain ⟨l, ls, hls⟩ := List.exists_cons_of_ne_nil hne
  rw [hls] at hul hasc hlt
  have hfl : firstLine p.lines = l.line := by simp [firstLine, hls]
  obtain ⟨fs', hpf, hh', _⟩ := pesPacketFrame_next (cfg := cfg) cfg.corSkipsEmpty
    { fs with packetPts := p.pts, frame := { fs.frame with nDu := 0 } } us l ls hnf rfl (Or.inl hlo) hul hasc (by omega)
    (by show l.line ≤ fs.frame.lastFrameLine; rw [← hfl]; exact hle)
  exact ⟨fs', hstep fs' _ hpf, by rw [hls]; exact hh'⟩

/-- non-vacuity, and the replay `corpus/C07/full-frame-64.ops` on the repaired model: the 64-line frame
(PTS 2: the 63 undefined-line units and the line of frame 3, which cannot be told apart from them) is
delivered complete when frame 4 begins, then frames 4 and 5 as sent (6 stays open) -/
example : ((frames SrcCfg.repaired (fullPacket63 ++ fourFrames)).map fun f => (f.pts, f.lines.length))
    = [(2, 64), (4, 1), (5, 1)] := by decide +kernel
example : SrcCfg.repaired.lateOverflow = true ∧ (arun SrcCfg.repaired after63.core (linePacket 3 7 0x55)).core.fs.frame.lines.length = 64
    ∧ (arun SrcCfg.repaired after63.core (linePacket 3 7 0x55)).core.fs.newFrame = false := by decide +kernel

/-- **resync on an intact stream, from a context at a packet boundary** - what `C07.resync_full` can
say in every shape of the source: a demultiplexer at a packet boundary (`skip` 0, header lookahead) in
whatever frame state - at a frame start or holding a stale frame with arbitrary lines, line counters and
PTS - reading an intact stream of separable frames (as the standards reader accepts it; C06's multiplexer
produces such streams): the frames delivered are those of a new demultiplexer on the same stream except
that at most ONE stale/merged frame comes first (`x`) and at most the FIRST frame is lost (`y`).  Either
the first packet closes the stale frame (nothing lost), or its lines cannot be told apart from the stale
ones and are delivered merged with them when the second packet begins, or (repaired source) they do not
fit and the overflow error discards both.  `ResyncRoom`: the stale lines and the first packet's lines
make a frame that can be held and closed (`frameCap`) - or the source has the full-frame fix and the
discard of 7c6e61c, then only the array bound is needed (`resync_intact`). -/
theorem resync_on_intact_stream (cfg : SrcCfg) (fs : FS) (bs : Bytes) (ps : List Pes) (h : pesStream bs = some ps)
    (hb : ∀ b ∈ bs, b < 256) (hsep : Sep cfg (ps.map (·.lines)))
    (hcap : ∀ p ∈ ps.head?, ResyncRoom cfg fs p.lines.length) :
    ∃ x y rest, (arun cfg { skip := 0, lookahead := 48, fs := fs } bs).frames = x ++ rest
      ∧ frames cfg bs = y ++ rest ∧ x.length ≤ 1 ∧ y.length ≤ 1
      ∧ (arun cfg { skip := 0, lookahead := 48, fs := fs } bs).stop = none := by
  obtain ⟨f0, h0, _⟩ := frames_of_pesStream (cfg := cfg) bs ps h hb hsep
  have hfr : frames cfg bs = ps.dropLast.map outOf := by unfold frames; rw [h0]
  by_cases hnf : fs.newFrame = true
  · obtain ⟨h1, h2, h3⟩ := resync_from_frame_start cfg fs hnf bs ps h hb hsep
    exact ⟨[], [], ps.dropLast.map outOf, by simpa using h1, by simpa using hfr, by simp, by simp, h3⟩
  · have hnf' : fs.newFrame = false := by simpa using hnf
    obtain ⟨pks, h1, h2, h3⟩ := pesStreamF_inv _ bs ps h
    subst h2; subst h3
    cases pks with
    | nil => exact ⟨[], [], [], by simp [arun], by simp [frames, arun], by simp, by simp, by simp [arun]⟩
    | cons x pks =>
      have hb' : ∀ y ∈ x :: pks, ∀ b ∈ y.1, b < 256 := by
        intro y hy b hbm
        apply hb
        rw [List.mem_flatten]
        exact ⟨y.1, List.mem_map.mpr ⟨y, hy, rfl⟩, hbm⟩
      obtain ⟨X, Y, rest, r1, r2, r3, r4, r5⟩ := arun_resync (cfg := cfg) fs hnf' x pks h1 hb'
        (by simpa [List.map_map, Function.comp_def] using hsep)
        (hcap x.2 (by simp))
      exact ⟨X, Y, rest, r1, by rw [hfr]; exact r2, r3, r4, r5⟩

/-- **resync, restated** (`C07.resync_full` quantifies over arbitrary continuations and is false in every
shape, see `resync_full_as_written_counterexample`): once the start code scan has reached a packet
boundary of an intact stream - whatever the damage before it left in the frame buffer (any lines up to
the 64 the array holds, any line counters, any PTS, frame start or not) - all frames of the stream are
delivered as sent except that at most the first one is lost, preceded by at most one stale/merged frame. -/
def resync_intact_full (cfg : SrcCfg) : Prop :=
  ∀ (fs : FS) (bs : Bytes) (ps : List Pes), fs.frame.lines.length ≤ 64 → pesStream bs = some ps →
    (∀ b ∈ bs, b < 256) → Sep cfg (ps.map (·.lines)) →
    ∃ x y rest, (arun cfg { skip := 0, lookahead := 48, fs := fs } bs).frames = x ++ rest
      ∧ frames cfg bs = y ++ rest ∧ x.length ≤ 1 ∧ y.length ≤ 1
      ∧ (arun cfg { skip := 0, lookahead := 48, fs := fs } bs).stop = none

/-- **resync_intact**: the restated recovery clause holds for the source with fix dvb-demux-full-frame and
the discard of 7c6e61c - no hypothesis on room in the frame buffer any more. -/
theorem resync_intact (hlo : cfg.lateOverflow = true) (hpd : cfg.pesDiscards = true) : resync_intact_full cfg :=
  fun fs bs ps h64 h hb hsep =>
    resync_on_intact_stream cfg fs bs ps h hb hsep (fun _ _ => Or.inr ⟨hlo, hpd, h64⟩)

/-- the four packets of `fourFrames` as the standards reader sees them -/
def fourPes : List Pes := (pesStream fourFrames).getD []

/-- ... and it fails without the full-frame fix: the reachable context `after63` (63 lines) loses two
frames of `fourFrames` -/
theorem resync_intact_counterexample : ¬ resync_intact_full SrcCfg.earlyOverflow := by
  intro h
  have hps : pesStream fourFrames = some fourPes := by decide +kernel
  have hb : ∀ b ∈ fourFrames, b < 256 := by
    have : fourFrames.all (fun b => decide (b < 256)) = true := by decide +kernel
    intro b hbm; simpa using List.all_eq_true.mp this b hbm
  have h63 : after63.fs.frame.lines.length ≤ 64 := by
    have : after63.fs.frame.lines.length = 63 := by decide +kernel
    omega
  have h' := h after63.fs fourFrames fourPes
  have h'' := h' h63 hps
  have h3 := h'' hb
  obtain ⟨x, y, rest, h1, h2, _, hy, _⟩ := h3 (by decide +kernel)
  have l1 : (arun SrcCfg.earlyOverflow { skip := 0, lookahead := 48, fs := after63.fs } fourFrames).frames.length = 1 := by
    decide +kernel
  have l2 : (frames SrcCfg.earlyOverflow fourFrames).length = 3 := by decide +kernel
  rw [h1, List.length_append] at l1
  rw [h2, List.length_append] at l2
  omega

/-- the context after `fullPacket63` and the packet of frame 3: 64 lines held, last defined line 7 -/
def core64 : Core := (arun SrcCfg.repaired after63.core (linePacket 3 7 0x55)).core
/-- an intact stream whose first frame (line 9) neither closes the frame held by `core64` nor fits into it -/
def fourFrames9 : Bytes := linePacket 4 9 0x66 ++ linePacket 5 7 0x77 ++ linePacket 6 7 0x11 ++ linePacket 7 7 0x22

/-- non-vacuity of `resync_intact` (third case: no boundary, no room): from `core64` the overflow error
discards the 64 stale lines and frame 4; frames 5 and 6 are delivered as sent, frame 4 is the one lost -/
example : core64.skip = 0 ∧ core64.lookahead = 48 ∧ core64.fs.frame.lines.length = 64 ∧ core64.fs.newFrame = false
    ∧ ((arun SrcCfg.repaired core64 fourFrames9).frames.map fun f => (f.pts, f.lines.length)) = [(5, 1), (6, 1)]
    ∧ ((frames SrcCfg.repaired fourFrames9).map fun f => (f.pts, f.lines.length)) = [(4, 1), (5, 1), (6, 1)] := by
  decide +kernel

/-- a packet with its PTS_DTS_flags cleared (not a legal VBI PES packet: EN 300 472 requires the PTS) -/
def noPts (p : Bytes) : Bytes := p.set 7 0
/-- three packets without PTS, then three intact ones -/
def noPtsStream : Bytes := noPts (linePacket 3 7 0x55) ++ noPts (linePacket 4 7 0x66) ++ noPts (linePacket 5 7 0x77)
  ++ linePacket 6 7 0x11 ++ linePacket 7 7 0x22 ++ linePacket 8 7 0x33

/-- a context at a packet boundary holding one stale Teletext line on line `n`, frame PTS 99 -/
def staleCore (n : Nat) : Core :=
  { skip := 0, lookahead := 48,
    fs := { frame := { lines := [(⟨3, n, []⟩ : Sliced)], lastFrameLine := n }, framePts := 99, packetPts := 0, newFrame := false } }

/-- non-vacuity (merged case): a context holding one stale line on line 5 with an old PTS; the stream's
first frame (line 7) is appended to it and comes out merged, the others as sent -/
example : ((arun SrcCfg.repaired (staleCore 5) fourFrames).frames.map fun f => (f.pts, f.lines.map (·.line))) = [(99, [5, 7]), (4, [7]), (5, [7])] := by
  decide +kernel
/-- non-vacuity (closing case): a stale line on line 9 is delivered first, then all frames as sent -/
example : ((arun SrcCfg.repaired (staleCore 9) fourFrames).frames.map fun f => (f.pts, f.lines.map (·.line))) = [(99, [9]), (3, [7]), (4, [7]), (5, [7])] := by
  decide +kernel

/-- **`C07.resync_full` as written is false in every shape of the source**, the repaired one included: it
quantifies over arbitrary continuations `L`, and packets without a PTS are accepted while a frame is
under assembly but skipped at a frame start (`valid_vbi_pes_packet_header`), so a context holding a stale
line delivers one frame per such packet (four extra frames here) where a new demultiplexer delivers none.
Not a defect - such packets are not intact VBI PES packets; it is why the recovery clause is restated
over intact streams (`resync_intact_full`). -/
theorem resync_full_as_written_counterexample : ¬ Zvbi.Props.C07.resync_full SrcCfg.repaired := by
  intro h
  obtain ⟨x, y, rest, h1, h2, hx, _⟩ := h (staleCore 9) noPtsStream rfl rfl
  have l1 : (arun SrcCfg.repaired (staleCore 9) noPtsStream).frames.length = 6 := by decide +kernel
  have l2 : (frames SrcCfg.repaired noPtsStream).length = 2 := by decide +kernel
  rw [h1, List.length_append] at l1
  rw [h2, List.length_append] at l2
  omega

end Zvbi.Props.C07Cor
