import ZvbiModel.Ttx.Flof1
import ZvbiModel.Ttx.Frame2
import ZvbiModel.Fmt.Model
import ZvbiModel.Props.C02
/-!
# Property C02, round 5: the FLOF links of packet X/27/0, from the transmitted nibbles to `pg->nav_link`

* `x27_links_filed` (packet.c `parse_27`): a packet X/27 with designation code 0 whose six links are sent as
  EN 300 706 9.6.1 prescribes (page units, page tens, S1, S2 + M1, S3, S4 + M2 + M3; every group Hamming 8/4 decoded
  to the nibble sent) leaves in the page in progress `link[i]` = (magazine of the packet XOR M3M2M1 with 0 -> 8,
  tens, units; sub-code S4S3S2S1) for i = 0..5 and `have_flof` = bit 3 of the link control byte; links 6..
  (designations 1-5), rows, numbers and flags of the page are untouched.
* `nav_link_flof` (teletext.c, navigation block of `vbi_format_vt_page`): which of those links a fetch reports in
  `pg->nav_link[0..5]`.
Byte level: `C02.flof_link_roundtrip` (Hamming 8/4 encode / decode of one link).
-/
namespace Zvbi.Props.C02Flof
open Zvbi.Ttx Zvbi.Hamm

/-- the fields of one link as transmitted -/
structure TxLink where
  pu : Nat
  pt : Nat
  s1 : Nat
  s2 : Nat
  s3 : Nat
  s4 : Nat
  mrel : Nat

def TxLink.ok (k : TxLink) : Prop := k.pu < 16 ∧ k.pt < 16 ∧ k.s1 < 16 ∧ k.s2 < 8 ∧ k.s3 < 16 ∧ k.s4 < 4 ∧ k.mrel < 8

/-- the six nibbles of the link in transmission order -/
def TxLink.nibbles (k : TxLink) : List Nat :=
  [k.pu, k.pt, k.s1, k.s2 ||| ((k.mrel &&& 1) <<< 3), k.s3,
   k.s4 ||| (((k.mrel >>> 1) &&& 1) <<< 2) ||| (((k.mrel >>> 2) &&& 1) <<< 3)]

/-- target page number: magazine relative to the packet's magazine `mag0` (0 = magazine 8) -/
def TxLink.pgno (k : TxLink) (mag0 : Nat) : Nat :=
  (if (mag0 ^^^ k.mrel == 0) = true then 8 else mag0 ^^^ k.mrel) * 256 + (k.pu ||| (k.pt <<< 4))
def TxLink.subno (k : TxLink) : Nat := k.s1 + 16 * k.s2 + 256 * k.s3 + 4096 * k.s4

/-- **x27_links_filed** (see the file header). `cv` = page in progress of magazine `mag0`, `v` = decoded view of the
packet: `v.g8 i` is the Hamming 8/4 value of payload byte `i`. -/
theorem x27_links_filed (cv : Page) (v : View) (mag0 ctl : Nat) (links : Nat → TxLink)
    (hfn : cv.function ≠ FN_DISCARD) (hlen : 6 ≤ cv.link.length)
    (hd : v.g8 0 = some 0) (hc : v.g8 37 = some ctl) (hok : ∀ i, i < 6 → (links i).ok)
    (hn : ∀ i, i < 6 → ∀ k, k < 6 → v.g8 (1 + 6 * i + k) = some ((links i).nibbles.getD k 0)) :
    (parse27 cv v mag0).2 = true
    ∧ (parse27 cv v mag0).1.haveFlof = ctl >>> 3
    ∧ (parse27 cv v mag0).1.link.length = cv.link.length
    ∧ (∀ i, i < 6 → ((parse27 cv v mag0).1.link.getD i Link.ff).pgno = ((links i).pgno mag0 : Int)
        ∧ ((parse27 cv v mag0).1.link.getD i Link.ff).subno = ((links i).subno : Int))
    ∧ (∀ j, 6 ≤ j → (parse27 cv v mag0).1.link.getD j Link.ff = cv.link.getD j Link.ff)
    ∧ (parse27 cv v mag0).1.raw = cv.raw ∧ (parse27 cv v mag0).1.pgno = cv.pgno
    ∧ (parse27 cv v mag0).1.subno = cv.subno ∧ (parse27 cv v mag0).1.flags = cv.flags := by
  obtain ⟨_, s2, s3, s4, s5⟩ := parse27_same cv v mag0
  have hl : ∀ i, i < 6 → unhamPageLink v (1 + 6 * i) mag0 = some ((links i).pgno mag0, (links i).subno) := by
    intro i hi
    obtain ⟨o1, o2, o3, o4, o5, o6, o7⟩ := hok i hi
    have g := hn i hi
    exact unhamPageLink_nibbles v (1 + 6 * i) mag0 _ _ _ _ _ _ _ o1 o2 o3 o4 o5 o6 o7
      (g 0 (by omega)) (g 1 (by omega)) (g 2 (by omega))
      (by rw [show 1 + 6 * i + 2 + 1 = 1 + 6 * i + 3 from by omega]; exact g 3 (by omega))
      (g 4 (by omega))
      (by rw [show 1 + 6 * i + 4 + 1 = 1 + 6 * i + 5 from by omega]; exact g 5 (by omega))
  obtain ⟨f1, f2, f3⟩ := links_fold v mag0 0 (fun i => (links i).pgno mag0) (fun i => (links i).subno) 6 cv.link hl
    (by omega)
  rw [parse27_des0 cv v mag0 ctl hfn hd hc] at s2 s3 s4 s5 ⊢
  simp only [] at s2 s3 s4 s5 ⊢
  refine ⟨trivial, trivial, f1, ?_, ?_, s5, s2, s3, s4⟩
  · intro i hi
    have := f2 i hi
    simp only [Nat.zero_mul, Nat.zero_add] at this
    exact ⟨this.1, this.2.1⟩
  · intro j hj
    exact f3 j (Or.inr (by omega))

/-- non-vacuity on the model: a page in progress of magazine 1 receives X/27/0 whose first link is 350/0001 sent
    with relative magazine 2 (1 XOR 3); `view` decodes the Hamming bytes -/
example :
    let p : Packet := Zvbi.Props.C02.addrBytes 1 27 ++ [ham8 0] ++
      (List.replicate 6 (Zvbi.Fmt.encLink 0 5 1 0 0 0 2)).flatten ++ [ham8 0xF, 0, 0]
    let r := parse27 { Page.zero with function := FN_LOP } (view Kind.x27a p) 1
    r.2 = true ∧ r.1.haveFlof = 1 ∧ ((r.1.link.getD 0 Link.ff).pgno, (r.1.link.getD 0 Link.ff).subno) = (0x350, 1) := by
  decide +kernel

/-! ## what a fetch reports in `pg->nav_link` -/
open Zvbi.Fmt in
/-- **nav_link_flof**: the navigation block of `vbi_format_vt_page` (25 rows, navigation on, no TOP) over the six
links `links` of the cached page.  With `have_flof`: if packet 24 was not received (`flof_navigation_bar`) the
keys red / green / yellow / blue report links 0..3 as filed; if it was (`flof_links`), key `k` reports link `k` when
its page number is not a "no page" xFF and its colour occurs in row 24, otherwise the caller's value stays; the
index key (`nav_link[5]`) is link 5 if it is a valid page 100..899, else the network's initial page; `nav_link[4]`
is never written.  Without `have_flof` keys 0..4 keep the caller's values and the index is the initial page. -/
theorem nav_link_flof (old links : List Fmt.Link) (has24 : Bool) (initial : Fmt.Link) (row24 : List Cell) :
    (∀ k, k < 4 → has24 = false → (navLinks old links true has24 initial row24).getD k ⟨0, 0⟩ = links.getD k ⟨0, 0⟩)
    ∧ (∀ k, k < 4 → has24 = true →
        (navLinks old links true has24 initial row24).getD k ⟨0, 0⟩ =
          if !noPage (links.getD k ⟨0, 0⟩).pgno && (row24.take 40).any (fun c => c.fg &&& 7 == [1, 2, 3, 6].getD k 0)
          then links.getD k ⟨0, 0⟩ else old.getD k ⟨0, 0⟩)
    ∧ (navLinks old links true has24 initial row24).getD 4 ⟨0, 0⟩ = old.getD 4 ⟨0, 0⟩
    ∧ (navLinks old links true has24 initial row24).getD 5 ⟨0, 0⟩ =
        (if decide ((links.getD 5 ⟨0, 0⟩).pgno ≥ 0x100) && decide ((links.getD 5 ⟨0, 0⟩).pgno ≤ 0x899)
            && !noPage (links.getD 5 ⟨0, 0⟩).pgno then links.getD 5 ⟨0, 0⟩ else initial)
    ∧ (∀ k, k < 5 → (navLinks old links false has24 initial row24).getD k ⟨0, 0⟩ = old.getD k ⟨0, 0⟩)
    ∧ (navLinks old links false has24 initial row24).getD 5 ⟨0, 0⟩ = initial := by
  refine ⟨?_, ?_, ?_, ?_, ?_, ?_⟩
  · intro k hk h24
    subst h24
    have : k = 0 ∨ k = 1 ∨ k = 2 ∨ k = 3 := by omega
    rcases this with rfl | rfl | rfl | rfl <;> simp [navLinks]
  · intro k hk h24
    subst h24
    have : k = 0 ∨ k = 1 ∨ k = 2 ∨ k = 3 := by omega
    rcases this with rfl | rfl | rfl | rfl <;> simp [navLinks]
  · simp [navLinks]
  · simp [navLinks]
  · intro k hk
    have : k = 0 ∨ k = 1 ∨ k = 2 ∨ k = 3 ∨ k = 4 := by omega
    rcases this with rfl | rfl | rfl | rfl | rfl <;> simp [navLinks]
  · simp [navLinks]

open Zvbi.Fmt in
example : (navLinks (List.replicate 6 ⟨0, 0⟩) [⟨0x350, 1⟩, ⟨0x1FF, 0⟩, ⟨0x200, 0⟩, ⟨0x300, 0⟩, ⟨0, 0⟩, ⟨0x8FF, 0⟩]
    true false ⟨0x100, 0x3F7F⟩ []) = [⟨0x350, 1⟩, ⟨0x1FF, 0⟩, ⟨0x200, 0⟩, ⟨0x300, 0⟩, ⟨0, 0⟩, ⟨0x100, 0x3F7F⟩] := by
  decide

end Zvbi.Props.C02Flof
