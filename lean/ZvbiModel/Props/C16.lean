import ZvbiModel.Export.Model
import ZvbiModel.Export.Page
import ZvbiModel.Export.Spec
import ZvbiModel.Export.Lemmas
import ZvbiModel.Export.LemmasRender
import ZvbiModel.Export.LemmasPrint
import ZvbiModel.Export.LemmasText
import ZvbiModel.Export.LemmasEq
/-!
# C16 - export and rendering are faithful, bounded and independent of the output target

Property theorems only (helper lemmas live in `Export/Lemmas*.lean`).  An export module is an
arbitrary list `ops` of calls into the write layer; `Spec.output ops` is the data it produces.
-/
namespace Zvbi.Props.C16
open Zvbi.Export Zvbi.Export.Spec

/-- Whatever the exporter does, whatever the target, buffer size, allocation limit and sink limit:
no store of the write layer ever lands at an index >= the capacity of the buffer it writes to, and
whenever the export call reports success, what reached the sink plus what is in the buffer is
exactly the exporter's output. -/
theorem write_layer_refines (cfg : Cfg) (env : Env) (t : Target) (buf : Bytes) (un : Bool) (ops : List Op) :
    (∀ s, (run cfg env (init t buf un) ops).fault ≠ some (.oob s)) ∧
    ((run cfg env (init t buf un) ops).success = true →
      (run cfg env (init t buf un) ops).offset ≤ (run cfg env (init t buf un) ops).buf.length ∧
      (run cfg env (init t buf un) ops).sink ++
        (run cfg env (init t buf un) ops).buf.take (run cfg env (init t buf un) ops).offset = output ops) := by
  have h := run_init cfg env t buf un ops
  exact ⟨h.1.noOob, fun hs => h.2 ((success_iff_healthy _).1 hs)⟩

example : (run currentCfg .unlimited (init .alloc [] false) [.putc 65, .printf [66, 67], .write [68]]).buf.take 4 = [65, 66, 67, 68] := by
  decide

/-- `vbi_export_mem` with a caller buffer of any size (or NULL), any exporter, any allocation
failures: the caller's buffer keeps its size (nothing is written at an index >= size), a
non-negative return value is exactly the number of bytes needed, and the buffer then holds the
first `min needed size` bytes of the output. -/
theorem mem_bounded (cfg : Cfg) (env : Env) (user : Option Bytes) (ops : List Op) :
    (exportMem cfg env user ops).user.length = (user.getD []).length ∧
    ∀ n, (exportMem cfg env user ops).ret = some n →
      n = (output ops).length ∧
      (exportMem cfg env user ops).user.take (min n (user.getD []).length) = (output ops).take (user.getD []).length := by
  have hI := run_init cfg env .mem (user.getD []) user.isNone ops
  have hcases := nonstream_cases hI.1 rfl
  unfold exportMem
  generalize run cfg env (init .mem (user.getD []) user.isNone) ops = st at *
  simp only
  by_cases hs : st.success = true
  · have hh := (success_iff_healthy st).1 hs
    obtain ⟨hle, hcont⟩ := hI.2 hh
    have hsink : st.sink = [] := hI.1.memSink (by rcases hcases with h | h <;> simp [h, isStream])
    rw [hsink, List.nil_append] at hcont
    have hlen : (output ops).length = st.offset := by rw [← hcont]; simp; omega
    simp only [hs, ite_true]
    by_cases ha : st.target = .alloc
    · simp only [ha, ite_true]
      have hu := hI.1.lenUser rfl ha
      refine ⟨?_, ?_⟩
      · simp; omega
      · intro n hn
        cases hn
        refine ⟨hlen.symm, ?_⟩
        rw [← hu]
        rw [List.take_append_of_le_length (by simp; omega)]
        rw [List.take_take, ← hcont, List.take_take]
        congr 1; omega
    · simp only [ha, ite_false]
      have hm : st.target = .mem := by rcases hcases with h | h; exact h; exact absurd h ha
      have hb := hI.1.lenMem hm
      refine ⟨hb, ?_⟩
      intro n hn
      cases hn
      refine ⟨hlen.symm, ?_⟩
      rw [← hb, ← hcont, List.take_take]
      congr 1; omega
  · have hs' : st.success = false := by simpa using hs
    simp only [hs', Bool.false_eq_true, ite_false]
    refine ⟨?_, by intro n hn; cases hn⟩
    by_cases ha : st.target = .alloc
    · simp only [ha, ite_true]; exact hI.1.lenUser rfl ha
    · simp only [ha, ite_false]
      have hm : st.target = .mem := by rcases hcases with h | h; exact h; exact absurd h ha
      exact hI.1.lenMem hm

example : (exportMem currentCfg .unlimited (some [9, 9]) [.write [1, 2, 3]]).ret = some 3 ∧
    (exportMem currentCfg .unlimited (some [9, 9]) [.write [1, 2, 3]]).user = [1, 2] := by decide

/-- Whenever an export call reports success - also under allocation failures and write errors -
the data it delivered is exactly the exporter's output: the allocated block, the stream
contents, the file contents. A failed `vbi_export_file` leaves no file. -/
theorem success_implies_exact (cfg : Cfg) (env : Env) (ops : List Op) :
    (∀ d, (exportAlloc cfg env ops).data = some d → d = output ops) ∧
    ((exportStdio cfg env ops).ok = true → (exportStdio cfg env ops).sink = some (output ops)) ∧
    ((exportFile cfg env ops).ok = true → (exportFile cfg env ops).sink = some (output ops)) ∧
    ((exportFile cfg env ops).ok = false → (exportFile cfg env ops).sink = none) := by
  refine ⟨?_, ?_, ?_, ?_⟩
  · have hI := run_init cfg env .alloc [] false ops
    have hcases := nonstream_cases hI.1 rfl
    unfold exportAlloc
    generalize run cfg env (init .alloc [] false) ops = st at *
    simp only
    intro d
    by_cases hs : st.success = true
    · have hh := (success_iff_healthy st).1 hs
      obtain ⟨hle, hcont⟩ := hI.2 hh
      have hsink : st.sink = [] := hI.1.memSink (by rcases hcases with h | h <;> simp [h, isStream])
      rw [hsink, List.nil_append] at hcont
      simp only [hs, ite_true]
      by_cases hz : st.offset = 0
      · simp only [hz, ite_true]
        rw [hz] at hcont
        split
        · intro h; cases h
        · split
          · intro h; cases h
          · intro h; cases h; simpa using hcont
      · simp only [hz, ite_false]
        intro h; cases h; exact hcont
    · have hs' : st.success = false := by simpa using hs
      simp only [hs', Bool.false_eq_true, ite_false]
      intro h; cases h
  · have hI := run_init cfg env .fp [] false ops
    unfold exportStdio
    generalize run cfg env (init .fp [] false) ops = st at *
    simp only
    by_cases hs : st.success = true
    · have hh := (success_iff_healthy st).1 hs
      simp only [hs, ite_true]
      intro hok
      have hw : (flush env st).werr = false := by simpa using hok
      have hst : isStream st.target = true := hI.1.tgtStream
      rw [flush_stream_ok hI.1 hI.2 hh hst hw]
    · have hs' : st.success = false := by simpa using hs
      simp only [hs', Bool.false_eq_true, ite_false]
      intro h; cases h
  · have hI := run_init cfg env .file [] false ops
    unfold exportFile
    generalize run cfg env (init .file [] false) ops = st at *
    simp only
    by_cases hs : st.success = true
    · have hh := (success_iff_healthy st).1 hs
      simp only [hs, ite_true]
      intro hok
      have hw : (flush env st).werr = false := by simpa using hok
      have hst : isStream st.target = true := hI.1.tgtStream
      simp only [hw, Bool.false_eq_true, ite_false]
      rw [flush_stream_ok hI.1 hI.2 hh hst hw]
    · have hs' : st.success = false := by simpa using hs
      simp only [hs', Bool.false_eq_true, ite_false]
      intro h; cases h
  · unfold exportFile
    generalize run cfg env (init .file [] false) ops = st
    simp only
    by_cases hs : st.success = true
    · simp only [hs, ite_true]
      intro hok
      have hw : (flush env st).werr = true := by simpa using hok
      simp [hw]
    · have hs' : st.success = false := by simpa using hs
      simp [hs']

example : (exportStdio currentCfg ⟨none, some 2⟩ [.write [1, 2, 3], .flush]).ok = false := by decide

/-- Without injected failures the four targets agree for every exporter and every caller buffer:
`vbi_export_mem` returns the size needed and fills the buffer with the first `size` bytes,
`vbi_export_alloc` (for a non-empty output), `vbi_export_stdio` and `vbi_export_file` deliver
exactly the same bytes `output ops`. -/
theorem targets_agree (cfg : Cfg) (user : Option Bytes) (ops : List Op) :
    (exportMem cfg .unlimited user ops).ret = some (output ops).length ∧
    (exportMem cfg .unlimited user ops).user.take (min (output ops).length (user.getD []).length)
        = (output ops).take (user.getD []).length ∧
    (output ops ≠ [] → (exportAlloc cfg .unlimited ops).data = some (output ops)) ∧
    ((exportStdio cfg .unlimited ops).ok = true ∧ (exportStdio cfg .unlimited ops).sink = some (output ops)) ∧
    ((exportFile cfg .unlimited ops).ok = true ∧ (exportFile cfg .unlimited ops).sink = some (output ops)) := by
  have hu : Unl Env.unlimited := ⟨rfl, rfl⟩
  have key : ∀ (t : Target) (buf : Bytes) (un : Bool), (run cfg .unlimited (init t buf un) ops).success = true := fun t buf un =>
    (success_iff_healthy _).2 (run_nf hu ops (init t buf un) [] (init_inv t buf un).1 (init_inv t buf un).2)
  have hmem : (exportMem cfg .unlimited user ops).ret = some (output ops).length := by
    have h1 := key .mem (user.getD []) user.isNone
    have hb := (mem_bounded cfg .unlimited user ops).2
    have : ∃ n, (exportMem cfg .unlimited user ops).ret = some n := by
      unfold exportMem; simp only [h1, ite_true]; split <;> exact ⟨_, rfl⟩
    obtain ⟨n, hn⟩ := this
    rw [hn, (hb n hn).1]
  refine ⟨hmem, ?_, ?_, ?_, ?_⟩
  · have := ((mem_bounded cfg .unlimited user ops).2 _ hmem).2
    exact this
  · intro hne
    have h1 := key .alloc [] false
    have hI := run_init cfg .unlimited .alloc [] false ops
    have hcases := nonstream_cases hI.1 rfl
    have hex := (success_implies_exact cfg .unlimited ops).1
    unfold exportAlloc at hex ⊢
    generalize run cfg Env.unlimited (init .alloc [] false) ops = st at *
    simp only [h1, ite_true] at hex ⊢
    have hh := (success_iff_healthy st).1 h1
    obtain ⟨hle, hcont⟩ := hI.2 hh
    have hsink : st.sink = [] := hI.1.memSink (by rcases hcases with h | h <;> simp [h, isStream])
    rw [hsink, List.nil_append] at hcont
    have hz : ¬ st.offset = 0 := by
      intro hz; rw [hz] at hcont; simp at hcont; exact hne hcont
    simp only [hz, ite_false]
    rw [hcont]
  · have h1 := key .fp [] false
    have hex := (success_implies_exact cfg .unlimited ops).2.1
    have hI := run_init cfg .unlimited .fp [] false ops
    have hok : (exportStdio cfg .unlimited ops).ok = true := by
      unfold exportStdio
      simp only [h1, ite_true]
      have := flush_nf (env := Env.unlimited) hu hI.1 hI.2 ((success_iff_healthy _).1 h1)
      simp [this.1]
    exact ⟨hok, hex hok⟩
  · have h1 := key .file [] false
    have hex := (success_implies_exact cfg .unlimited ops).2.2.1
    have hI := run_init cfg .unlimited .file [] false ops
    have hok : (exportFile cfg .unlimited ops).ok = true := by
      unfold exportFile
      simp only [h1, ite_true]
      have := flush_nf (env := Env.unlimited) hu hI.1 hI.2 ((success_iff_healthy _).1 h1)
      simp [this.1]
    exact ⟨hok, hex hok⟩

example : (exportFile currentCfg .unlimited [.putc 65, .printf [66], .flush, .direct 4 [67]]).sink = some [65, 66, 67] := by decide

/-! ## observations under injected failures (outside the property: C16 does not quantify over allocation failure) -/

/-- F26 (observation, NOT a violation of C16): when `realloc` fails during the MEM -> ALLOC switch the
buffer is left with capacity 0 and offset 2; the next `vbi_export_putc` runs into
`assert (offset <= capacity)` (process abort) instead of the export returning -1.
Input: 4-byte caller buffer, allocation limit 3 (replayed by hand: corpus/C16/not-run/F26-oom-assert.ops). -/
theorem oom_assert_counterexample :
    (exportMem { wideClip := false, nullGuard := false } ⟨some 3, some 1000⟩ (some [0xAA, 0xAA, 0xAA, 0xAA])
      [.putc 65, .putc 66, .write [67, 68, 69, 70, 71], .putc 72]).st.fault
      = some (.assertFail "export.c:975 offset <= capacity") := by decide

/-- Without allocation failures and write errors no assertion of the write layer can fail and no
exporter is cut short, for every exporter, target and caller buffer. -/
theorem no_fault_without_injected_failures (cfg : Cfg) (t : Target) (buf : Bytes) (un : Bool) (ops : List Op) :
    (run cfg .unlimited (init t buf un) ops).fault = none ∧
    (run cfg .unlimited (init t buf un) ops).werr = false ∧
    (run cfg .unlimited (init t buf un) ops).aborted = false := by
  have h := run_nf (cfg := cfg) (env := Env.unlimited) ⟨rfl, rfl⟩ ops (init t buf un) [] (init_inv t buf un).1 (init_inv t buf un).2
  exact ⟨h.2.2, h.1, h.2.1⟩

example : (run currentCfg .unlimited (init .mem [1, 2] false) [.printf [65, 66, 67]]).target = .alloc := by decide

/-- F12 (repaired in /repo, b4ce916): before the repair `vbi_export_mem (e, NULL, 0, pg)`, the documented
size query, called `memcpy` with a NULL pointer (undefined behaviour). -/
theorem mem_null_query_counterexample :
    (exportMem { wideClip := false, nullGuard := false } .unlimited none [.write [65, 66, 67]]).st.ub = true := by decide

/-- With the F12 repair no call of `memcpy` gets a NULL pointer, for every exporter, buffer (also NULL),
allocation limit and sink limit; `no_null_memcpy` states it for the tree as it is now
(`Generated/ExportCfg.lean`, probed on the compiled code). -/
theorem no_null_memcpy_repaired (cfg : Cfg) (hg : cfg.nullGuard = true) (env : Env) (user : Option Bytes) (ops : List Op) :
    (exportMem cfg env user ops).st.ub = false ∧ (exportAlloc cfg env ops).st.ub = false ∧
    (exportStdio cfg env ops).st.ub = false ∧ (exportFile cfg env ops).st.ub = false := by
  have key : ∀ t buf un, (run cfg env (init t buf un) ops).ub = false := fun t buf un => by
    rw [run_ub hg]; rfl
  refine ⟨?_, ?_, ?_, ?_⟩
  · unfold exportMem
    simp only
    split
    · split
      · simp [key, hg]
      · exact key _ _ _
    · exact key _ _ _
  · unfold exportAlloc
    simp only
    split
    · split
      · split
        · exact key _ _ _
        · split <;> exact key _ _ _
      · exact key _ _ _
    · exact key _ _ _
  · unfold exportStdio
    simp only
    split
    · rw [flush_ub]; exact key _ _ _
    · exact key _ _ _
  · unfold exportFile
    simp only
    split
    · rw [flush_ub]; exact key _ _ _
    · exact key _ _ _

theorem no_null_memcpy (env : Env) (user : Option Bytes) (ops : List Op) :
    (exportMem currentCfg env user ops).st.ub = false ∧ (exportAlloc currentCfg env ops).st.ub = false ∧
    (exportStdio currentCfg env ops).st.ub = false ∧ (exportFile currentCfg env ops).st.ub = false :=
  no_null_memcpy_repaired currentCfg (by decide) env user ops

example : (exportMem currentCfg .unlimited none [.write [65, 66, 67]]).ret = some 3 := by decide

/-! ## vbi_print_page_region, table mode -/

/-- The function never reports more bytes than the stated buffer size, and the '\n' between rows is never
stored outside the buffer: the only possible out-of-bounds access is a read of `pg->text[]` for a page
whose `rows * columns` exceeds the array (for every page, region, size, converter and repair state). -/
theorem print_region_bounded (cfg : Cfg) (conv : Nat → Option Bytes) (pg : Page) (size column row width height : Int) :
    (∀ out, printRegion cfg conv pg size column row width height = .ok (some out) → (out.length : Int) ≤ size) ∧
    (∀ f, printRegion cfg conv pg size column row width height = .error f →
       regionCells pg column.toNat row.toNat width.toNat height.toNat = .error f) := by
  unfold printRegion
  simp only
  refine ⟨?_, ?_⟩
  · intro out h
    split at h
    · cases h
    · next hcond =>
      have hs : 0 ≤ size := by
        by_cases hh : size < 0
        · exact absurd (Or.inl hh) hcond
        · omega
      cases hc : regionCells pg column.toNat row.toNat width.toNat height.toNat with
      | error f => simp [hc] at h
      | ok cells =>
        simp only [hc] at h
        have := printRows_len _ [] out (by simp) h
        omega
  · intro f h
    split at h
    · cases h
    · cases hc : regionCells pg column.toNat row.toNat width.toNat height.toNat with
      | error f' => simp only [hc] at h; cases h; rfl
      | ok cells =>
        simp only [hc] at h
        exact absurd h (printRows_no_fault _ _ _)

/-- Exactness: when the table-mode text of the region (each character converted, not representable
ones replaced by a space, rows joined by '\n') fits into the buffer, the function stores exactly
that text and returns its length (`AtFits`: side condition on the '@' heuristic, see Spec). -/
theorem print_region_exact (cfg : Cfg) (conv : Nat → Option Bytes) (pg : Page) (size col row w h : Nat)
    (cells : List (List (Nat × Cell))) (e : Bytes) (hA : AtFits cfg conv)
    (hcol : col + w ≤ pg.columns) (hrow : row + h ≤ pg.rows)
    (hc : regionCells pg col row w h = .ok cells)
    (ht : tableText cfg conv (cells.map (·.map (·.2))) = some e) (hfit : e.length ≤ size) :
    printRegion cfg conv pg size col row w h = .ok (some e) := by
  unfold printRegion
  simp only
  have hcond : ¬ ((size : Int) < 0 ∨ (col : Int) < 0 ∨ (col : Int) + w - 1 ≥ pg.columns ∨ (row : Int) < 0 ∨ (row : Int) + h - 1 ≥ pg.rows) := by
    omega
  simp only [hcond, ite_false, Int.toNat_natCast, hc]
  have := printRows_exact (cfg := cfg) (conv := conv) (size := size) hA (cells.map (·.map (·.2))) [] e ht (by simpa using hfit)
  simpa using this

/-- F27a: without the repair a buffer that is too small does not make the function fail (as documented):
a multi-byte character that does not fit is silently replaced by a space: "A" + U+20AC in a UTF-8 like
encoding with 3 bytes of room gives the 2 bytes "A " (`print_region_exact_small_buffer_stmt` is false). -/
theorem print_region_small_buffer_counterexample :
    ¬ print_region_exact_small_buffer_stmt { wideClip := true, nullGuard := true, printE2big := false } := by
  intro h
  have := h (fun u => if u = 0x20AC then some [0xE2, 0x82, 0xAC] else some [u]) 3
    [[{ unicode := 0x41, size := 0 }, { unicode := 0x20AC, size := 0 }]] [0x41, 0x20] rfl
  exact absurd this (by decide)

/-- With the F27a repair (`E2BIG` is an error) the statement holds at full strength: whatever the
function returns as success is exactly the table text of the region, for every converter, size and
page; hence a buffer smaller than the text makes it fail. -/
theorem print_region_exact_repaired (cfg : Cfg) (hE : cfg.printE2big = true) : print_region_exact_small_buffer_stmt cfg := by
  intro conv size rows out h
  obtain ⟨e, he, ho⟩ := printRows_sound hE rows [] out h
  rw [he, ho]; simp

/-- For the tree as it is now (F27a repaired in /repo, 1b80cb3): whatever `vbi_print_page_region` returns as
success is exactly the table text of the region; a buffer that is too small makes it fail. -/
theorem print_region_sound : print_region_exact_small_buffer_stmt currentCfg :=
  print_region_exact_repaired currentCfg (by decide)

example : printRows currentCfg (fun u => some [u]) 10 [[{ unicode := 0x41, size := 0 }], [{ unicode := 0x42, size := 6 }]] [] = .ok (some [0x41, 0x0A, 0x20]) := by
  rfl

/-- F27b: without the repair a character whose encoding merely starts with byte 0x40 (U+0140 in
UCS-2LE) is printed as a space; with the repair it is kept. -/
theorem print_at_sign_counterexample :
    printUnicode { wideClip := true, nullGuard := true } (fun u => some [u % 256, u / 256]) 0x140 10 = some [0x20, 0] ∧
    printUnicode { wideClip := true, nullGuard := true, atOneByte := true } (fun u => some [u % 256, u / 256]) 0x140 10 = some [0x40, 1] := by
  decide

/-! ## region rendering -/

/-- A pixel format other than RGBA32_LE / PAL8 draws nothing. -/
theorem unsupported_format_draws_nothing (cfg : Cfg) (pg : Page) (stride : Option Nat) (col row w h : Nat) (rv fl : Bool) :
    drawVt cfg pg 0 stride col row w h rv fl = .ok [] ∧ drawCc pg 0 stride col row w h = .ok [] := by
  simp [drawVt, drawCc]

/-- Every byte `vbi_draw_vt_page_region` writes lies inside the region's pixel rectangle (and hence
inside a canvas of the documented size `rowstride * height * 10`), for every page, region, pixel size,
row stride that is a multiple of the pixel size, reveal / flash setting - PROVIDED the F14 repair is
present (`cfg.wideClip`) or no double-width / double-size character stands in the last column of the
region.  Without that hypothesis the statement is false, see `render_in_rectangle_counterexample`. -/
theorem render_in_rectangle_partial (cfg : Cfg) (pg : Page) (ct S col row w h : Nat) (reveal flashOn : Bool)
    (cells : List (List (Nat × Cell))) (runs : List Run)
    (hct : 0 < ct) (hd : ct ∣ S) (hc : regionCells pg col row w h = .ok cells)
    (hsafe : cfg.wideClip = true ∨ NoWideLast cells)
    (hr : drawVt cfg pg ct (some S) col row w h reveal flashOn = .ok runs) :
    ∀ run ∈ runs, ∀ a, Run.covers run a →
      InRect S (h * 10) (w * 12 * ct) a ∧ (w * 12 * ct ≤ S → a < S * (h * 10)) := by
  unfold drawVt at hr
  have hct' : ¬ ct = 0 := by omega
  simp only [hct', ite_false, hc, Option.getD_some] at hr
  cases hr
  obtain ⟨hlen, hrows⟩ := regionCells_shape hc
  intro run hm a ha
  have := vtRuns_inRect (cfg := cfg) (drcs := pg.drcs) (reveal := reveal) (flashOn := flashOn) (w := w) (h := h)
    hct hd cells 0 (by omega) hrows hsafe run hm a ha
  exact ⟨this, fun hS => inRect_lt_canvas this hS⟩

/-- With the F14 repair in the tree the rectangle property holds at full strength. -/
theorem render_in_rectangle_repaired (cfg : Cfg) (hfix : cfg.wideClip = true) : render_in_rectangle_stmt cfg := by
  intro drcs S ct reveal flashOn w cells hct hd hrows run hm a ha
  exact vtRuns_inRect (h := cells.length) hct hd cells 0 (by omega) hrows (Or.inl hfix) run hm a ha

/-- `render_in_rectangle` for the tree as it is now (F14 repaired in /repo, 77b0065; the flag in
`Generated/ExportCfg.lean` is measured on the compiled code on every run): every byte written by
`vbi_draw_vt_page_region` lies inside the region rectangle, for every page, region, stride (multiple of
the pixel size), supported format, reveal / flash setting.  If the repair is ever lost this proof fails. -/
theorem render_in_rectangle : render_in_rectangle_stmt currentCfg :=
  render_in_rectangle_repaired currentCfg (by decide)

/-- F14: on the code as it was before the repair (no clipping) the full statement is false: a DOUBLE_WIDTH character in the
last (second) column of a 2 x 1 region, PAL8, row stride 24 = the rectangle width: `draw_char` writes
bytes 12..35 of each line, 12 past the rectangle, and on the last line past the canvas (index 240 of a
240-byte canvas). -/
theorem render_in_rectangle_counterexample : ¬ render_in_rectangle_stmt { wideClip := false, nullGuard := false } := by
  intro h
  have hin := h [] 24 1 true true 2
    [[(0, { unicode := 0x41, size := 0 }), (1, { unicode := 0x42, size := 1 })]] (by decide) ⟨24, rfl⟩ (by decide)
    { start := 9 * 24 + 12, len := 24, cell := 1, dy := 9, kind := 0, size := 1 } (by decide) 240 ⟨by decide, by decide⟩
  obtain ⟨line, b, h1, h2, h3⟩ := hin
  simp at h1 h2
  omega

/-- The caption renderer (all characters single size) always stays inside the rectangle. -/
theorem render_cc_in_rectangle (pg : Page) (ct S col row w h : Nat) (cells : List (List (Nat × Cell))) (runs : List Run)
    (hct : 0 < ct) (hd : ct ∣ S) (hc : regionCells pg col row w h = .ok cells)
    (hr : drawCc pg ct (some S) col row w h = .ok runs) :
    ∀ run ∈ runs, ∀ a, Run.covers run a → InRect S (h * 26) (w * 16 * ct) a := by
  unfold drawCc at hr
  have hct' : ¬ ct = 0 := by omega
  simp only [hct', ite_false, hc, Option.getD_some] at hr
  cases hr
  obtain ⟨hlen, hrows⟩ := regionCells_shape hc
  intro run hm a ha
  exact ccRuns_inRect (w := w) (h := h) hct hd cells 0 (by omega) hrows run hm a ha

example : (vtRuns { wideClip := true, nullGuard := true } [] 24 1 true true 0
    [[(0, { unicode := 0x41, size := 0 }), (1, { unicode := 0x42, size := 1 })]]).length = 20 := by decide

/-- `region_equals_full`: for a region that does not cut a double-width / double-size character (no
OVER_TOP / OVER_BOTTOM cell in its first column, no wide character in its last column) every byte of the
region rectangle ends up with the same value - same source character, same line of the cell, same kind and
size, same byte of the glyph row, last write wins - as the corresponding byte of the full-page rendering;
for every page, region, pixel size, stride (multiple of the pixel size, >= the rectangle width), reveal /
flash setting, in every configuration with the F14 repair. -/
theorem region_equals_full_repaired (cfg : Cfg) (hfix : cfg.wideClip = true) : region_equals_full_stmt cfg :=
  region_equals_full_core cfg hfix

/-- `region_equals_full` for the tree as it is now. -/
theorem region_equals_full : region_equals_full_stmt currentCfg := region_equals_full_core currentCfg (by decide)

/-- Pixel for pixel: with the glyph bitmaps / pens as an arbitrary function `glyph` of the `vbi_char`, what
was drawn and where inside the character, the region canvas holds on the whole rectangle the values the
full-page canvas holds at the corresponding place (and is untouched where the full page is untouched). -/
theorem region_pixels_equal_full (glyph : Cell → Nat → Nat → Nat → Nat → Nat)
    (pg : Page) (ct S col row w h : Nat) (reveal flashOn : Bool) (cells : List (List (Nat × Cell))) (rr fr : List Run)
    (hct : 0 < ct) (hd : ct ∣ S) (hS : w * 12 * ct ≤ S) (hcol : col + w ≤ pg.columns) (hrow : row + h ≤ pg.rows)
    (hc : regionCells pg col row w h = .ok cells) (hnc : NotCut cells)
    (hrr : drawVt currentCfg pg ct (some S) col row w h reveal flashOn = .ok rr)
    (hfr : drawVt currentCfg pg ct none 0 0 pg.columns pg.rows reveal flashOn = .ok fr)
    (line b : Nat) (hl : line < h * 10) (hb : b < w * 12 * ct) :
    renderedAt glyph pg rr (line * S + b) =
      renderedAt glyph pg fr ((row * 10 + line) * (pg.columns * 12 * ct) + col * 12 * ct + b) := by
  unfold renderedAt
  rw [region_equals_full pg ct S col row w h reveal flashOn cells rr fr hct hd hS hcol hrow hc hnc hrr hfr line b hl hb]

example : finalAt (vtRuns currentCfg [] 24 1 true true 0
    [[(0, { unicode := 0x41, size := 1 }), (1, { unicode := 0x41, size := 4 })]]) 13 = some (0, 0, 0, 1, 13) := by decide

/-- What a character draws does not depend on where the region starts: the runs of a cell drawn at canvas
origin `o + d` are the runs drawn at origin `o`, shifted by `d`. -/
theorem region_runs_translate (S ct cw ch o d idx kind s : Nat) :
    cellRuns S ct cw ch (o + d) idx kind s = (cellRuns S ct cw ch o idx kind s).map (fun r => { r with start := r.start + d }) := by
  unfold cellRuns
  rw [List.map_map]
  apply List.map_congr_left
  intro dy _
  simp only [Function.comp]
  congr 1
  omega

example : (cellRuns 48 4 12 10 100 7 0 0).head? = some { start := 100, len := 48, cell := 7, dy := 0, kind := 0, size := 0 } := by decide

/-! ## the text export module (exp-txt.c), an exporter over the write layer -/

/-- `text_export_exact`, no terminal codes (`control=0`): for every page whose characters (or else the space)
convert to 1..32 bytes - all fixed-width encodings and UTF-8 - the module runs to the end and its output is
exactly the page's characters row by row, each row closed by a line feed: printable characters as they
are, block graphics replaced by the `gfx_chr` option, anything else by a space, characters not
representable in the target encoding by a space; and all four targets deliver these bytes. -/
theorem text_export_exact (cfg : Cfg) (conv : Nat → Option Bytes) (gfx : Nat) (pg : Page)
    (cells : List (List (Nat × Cell))) (e : Bytes) (hA : AtFits cfg conv) (hF : ConvFits cfg conv 32)
    (hc : regionCells pg 0 0 pg.columns pg.rows = .ok cells) (hne : cells ≠ [])
    (ht : plainText cfg conv gfx (cells.map (·.map (·.2))) = some e) :
    ∃ ops, textOps cfg conv 0 gfx pg = .ok (ops, true) ∧ output ops = e ∧
      (∀ user, (exportMem cfg .unlimited user ops).ret = some e.length) ∧
      (e ≠ [] → (exportAlloc cfg .unlimited ops).data = some e) ∧
      (exportStdio cfg .unlimited ops).sink = some e ∧ (exportFile cfg .unlimited ops).sink = some e := by
  obtain ⟨ops, hops, hout⟩ := textRowsOps_plain (gfx := gfx) (cm := pg.colorMap) hA hF (cells.map (·.map (·.2))) cellOnes e
    (by simpa using hne) ht
  refine ⟨ops, by simp [textOps, hc, hops], hout, ?_, ?_, ?_, ?_⟩
  · intro user; have := (targets_agree cfg user ops).1; rw [hout] at this; exact this
  · have := (targets_agree cfg none ops).2.2.1; rw [hout] at this; exact this
  · have := (targets_agree cfg none ops).2.2.2.1.2; rw [hout] at this; exact this
  · have := (targets_agree cfg none ops).2.2.2.2.2; rw [hout] at this; exact this

/-- `text_export_exact` with terminal codes (`control=1` ANSI, `control=2` VT200): the output is, row by row, for
every cell that is not skipped (OVER_TOP / OVER_BOTTOM after a size change) its control sequence followed by its
character (same substitutions as above), rows separated by a line feed, closed by ESC [ m LF; the control
sequence `ctlSeq` (at most 21 bytes, so that every character of up to 11 bytes fits the 32-byte buffer) is the
model's transcription of print_char and is tied to the code by the correspondence check only. -/
theorem text_export_control_exact (cfg : Cfg) (conv : Nat → Option Bytes) (term gfx : Nat) (pg : Page)
    (cells : List (List (Nat × Cell))) (e : Bytes) (hterm : 0 < term) (hA : AtFits cfg conv) (hF : ConvFits cfg conv 11)
    (hc : regionCells pg 0 0 pg.columns pg.rows = .ok cells) (hne : cells ≠ [])
    (ht : ctlText cfg conv term gfx pg.colorMap cellOnes (cells.map (·.map (·.2))) = some e) :
    ∃ ops, textOps cfg conv term gfx pg = .ok (ops, true) ∧ output ops = e ∧
      (∀ user, (exportMem cfg .unlimited user ops).ret = some e.length) ∧
      (exportStdio cfg .unlimited ops).sink = some e ∧ (exportFile cfg .unlimited ops).sink = some e := by
  obtain ⟨ops, hops, hout⟩ := textRowsOps_ctl (gfx := gfx) (cm := pg.colorMap) hterm hA hF (cells.map (·.map (·.2))) cellOnes e
    (by simpa using hne) ht
  refine ⟨ops, by simp [textOps, hc, hops], hout, ?_, ?_, ?_⟩
  · intro user; have := (targets_agree cfg user ops).1; rw [hout] at this; exact this
  · have := (targets_agree cfg none ops).2.2.2.1.2; rw [hout] at this; exact this
  · have := (targets_agree cfg none ops).2.2.2.2.2; rw [hout] at this; exact this

/-- every control sequence is short and made of bytes: no overflow of the module's 32-byte buffer -/
theorem text_control_sequence_bounded (term : Nat) (cm : List Nat) (old this : Cell) (ctl : Bytes)
    (h : ctlSeq term cm old this = .ok (some ctl)) : ctl.length ≤ 21 ∧ ∀ b ∈ ctl, b < 256 :=
  ⟨ctlSeq_len h, ctlSeq_bytes h⟩

example : (textOps currentCfg (fun u => if u < 256 then some [u] else none) 0 35
    { rows := 1, columns := 2, text := [{ unicode := 0x41, size := 0 }, { unicode := 0xEE21, size := 0 }], drcs := [] }).toOption
    = some ([.putc 0x41, .putc 35, .putc 0x0A], true) := by rfl

end Zvbi.Props.C16
