import ZvbiModel.Rawdec.Lemmas5
import ZvbiModel.Rawdec.LemmasSlice
/-!
# C04 - raw VBI decoding recovers every standard signal bit-exactly, on the right line

Property theorems about the model of `src/raw_decoder.c` / `src/sampling_par.c` (`Rawdec/Model.lean`) and of the bit
slicers (`Rawdec/SliceModel.lean`).  A *history* is any list of `add_services`, `remove_services`, `reset` and
`decode` calls on one decoder; a `decode` op carries an arbitrary *slicer oracle* (what `slice()` returns for every
row, job and threshold), i.e. an arbitrary raw image.  `fx : Fixes` selects the released or the repaired
`remove_services`; `Fixes.repo` is what /repo contains.

Proved for ALL histories, sampling parameters, images: the bookkeeping (`pattern_inv`, `no_index_error`), what one
`decode` call returns (`one_record_per_line`, `nothing_beyond_count`, `line_numbers_correct_ascending`,
`right_service_only`, `blank_no_output`), the move-to-front (`decode_preserves_jobs`), the payload stage of the slicers
under the eye-open hypothesis (`slice_exact_under_open_eye`, `slice_exact_msb_octets`).
NOT proved (sampled by the oracle of checks/C04.py): io-sim's waveform satisfies the eye-open hypothesis.
Full-strength statements that are FALSE on the released code are kept as `def ..._full : Prop` next to a proved
counterexample.
-/
namespace Zvbi.Props.C04
open Zvbi.Rawdec Zvbi.Generated.ServiceTable

/-- **pattern_inv.** After ANY history on ANY sampling parameters (released or repaired `remove_services`):
    at most 8 jobs; the pattern, once allocated, has one row per scan line, every row has exactly 8 ways, keeps a
    free (non-positive) way - so the unbounded scans `for (pat = pattern;; ++pat)` of `decode_pattern` and
    `for (way = 0; pattern[way] > 0; ++way)` of `add_job_to_pattern` stop inside the row - and every job number in
    it refers to a live job (`<= n_jobs`); the last way holds a job only while way 0 is free. -/
theorem pattern_inv (fx : Fixes) (ti : Nat → Nat) (sp : SPar) (ops : List Op) :
    let s := run fx ti sp ops
    s.jobs.length ≤ 8 ∧
    ∀ p, s.pattern = some p → p.length = sp.scanLines ∧
      ∀ row ∈ p, row.length = 8 ∧ (∃ x ∈ row, x ≤ 0) ∧ (∀ x ∈ row, x ≤ (s.jobs.length : Int)) ∧
        (row.getD 7 0 ≤ 0 ∨ row.getD 0 0 ≤ 0) := by
  obtain ⟨h, hsp⟩ := run_inv fx ti sp ops
  refine ⟨h.jobsLe, ?_⟩
  intro p hp
  have := h.pat p hp
  rw [hsp] at this
  exact ⟨this.1, fun row hr => ⟨(this.2 row hr).len, (this.2 row hr).free, (this.2 row hr).bound, (this.2 row hr).lof⟩⟩

example : (run Fixes.none (fun _ => 0) ⟨625, 1, 13500000, 720, 132, 7, 17, 320, 17, false, true⟩
    [.add 0x7 0, .remove 0x4, .add 0x400 0]).jobs.length = 3 := by decide

/-- **no_index_error.** No history reaches an out-of-range index into `pattern[]` / `jobs[]` or the failing
    `assert (pattern < pattern_end)`: the only error value the model can take is the assertion behind
    `vbi3_bit_slicer_set_params` returning FALSE, which C05 (`rows_tight_never_rejects`) excludes for every table
    row, known pixel format and admitted rate. -/
theorem no_index_error (fx : Fixes) (ti : Nat → Nat) (sp : SPar) (ops : List Op) (e : String)
    (h : (run fx ti sp ops).err = some e) : e = "assert bit_slicer_set_params" := by
  have := (run_inv fx ti sp ops).1.noIdx
  rw [h] at this
  rcases this with h1 | h1
  · cases h1
  · simpa [slicerAssert] using h1

example : (run Fixes.none (fun _ => 0) ⟨625, 1, 13500000, 720, 132, 7, 17, 320, 17, false, true⟩
    [.add 0x7 0, .remove 0x4]).err = none := by decide

/-- **remove_keeps_rows_valid.** `remove_job_from_pattern` (released and repaired) on a valid row of a decoder with
    `n` jobs, for any job number `1 <= jn <= n`: the row stays 8 ways long, keeps a free way, and every remaining
    job number refers to one of the `n - 1` remaining jobs (numbers above `jn` moved down with `rd->jobs[]`). -/
theorem remove_keeps_rows_valid (n : Nat) (row : PRow) (km : Bool) (jn : Int) (h : RowOK n row) (h1 : 0 < jn)
    (h2 : jn ≤ (n : Int)) : RowOK (n - 1) (removeRow km jn row) :=
  removeRow_ok km jn h h1 h2

example : removeRow false 1 [1, 2, 3, 0, 0, 0, 0, -128] = [1, 2, 0, 0, 0, 0, -128, 0] := by decide

/-- **decode_preserves_jobs.** `decode_pattern` on any valid row, for ANY slicer behaviour (any image), any
    `readjust` phase: it returns without leaving the row, the row stays valid, and the multiset of jobs on the line is
    unchanged (`count` of every positive job number) - the matched job is moved to way 0 by a swap, nothing is lost.
    (A decoder whose two move-to-front statements are exchanged loses the job of way 0: then
    `count` of that job drops to 0 and this theorem fails.) -/
theorem decode_preserves_jobs (sp : SPar) (readjust : Nat) (sl : Nat → Job → Option (List Nat) × Nat) (i : Nat)
    (row : PRow) (jobs : List Job) (h : RowOK jobs.length row) :
    ∃ row' jobs' rec, decodePattern sp readjust sl i row jobs = .ok (row', jobs', rec) ∧
      RowOK jobs.length row' ∧ ∀ x, 0 < x → row'.count x = row.count x := by
  obtain ⟨row', jobs', rec, he, hok, _, hcnt, _, _⟩ :=
    decodeWays_spec sp readjust sl i row.length 0 row jobs (by rw [h.len]) h (by intro q hq; omega)
  exact ⟨row', jobs', rec, he, hok, hcnt⟩

/-- non-vacuity: job 2 matches on a line whose way list is [1, 2]: afterwards [2, 1] -/
example : (decodePattern ⟨625, 1, 13500000, 720, 132, 7, 17, 320, 17, false, true⟩ 1
    (fun j job => if j = 1 then (some [1, 2], job.thresh) else (none, job.thresh)) 9
    [1, 2, 0, 0, 0, 0, 0, -128] [⟨3, 2, 0⟩, ⟨4, 5, 0⟩]).toOption.map (·.1) = some [2, 1, 0, 0, 0, 0, 0, -128] := by
  decide

/-- **nothing_beyond_count.** One call of `vbi3_raw_decoder_decode` from any reachable state, for any image and any
    `max_lines`: the records are stored in `sliced[0], sliced[1], ..., sliced[n-1]` in this order, nothing else is
    written, and the returned count `n` is `<= max_lines`. -/
theorem nothing_beyond_count (fx : Fixes) (ti : Nat → Nat) (sp : SPar) (ops : List Op) (maxLines : Nat) (sl : Slicer) :
    let r := decodeFrame (run fx ti sp ops) maxLines sl
    r.2.2.map (·.1) = List.range r.2.1.length ∧ r.2.1.length ≤ maxLines := by
  have := decodeFrame_spec (run fx ti sp ops) maxLines sl (run_inv fx ti sp ops).1
  exact ⟨this.2.2.2.1, this.2.2.2.2.1⟩

/-- **one_record_per_line.** ... every record belongs to a different row of the image, rows strictly ascending,
    all inside the image; there are exactly as many records as writes. -/
theorem one_record_per_line (fx : Fixes) (ti : Nat → Nat) (sp : SPar) (ops : List Op) (maxLines : Nat) (sl : Slicer) :
    let r := decodeFrame (run fx ti sp ops) maxLines sl
    r.2.2.length = r.2.1.length ∧ List.Pairwise (fun x y => x.2 < y.2) r.2.2 ∧ ∀ w ∈ r.2.2, w.2 < sp.scanLines := by
  have := decodeFrame_spec (run fx ti sp ops) maxLines sl (run_inv fx ti sp ops).1
  have hsp := (run_inv fx ti sp ops).2
  refine ⟨this.2.2.2.2.2.1, this.2.2.2.2.2.2.1, ?_⟩
  intro w hw
  have := this.2.2.2.2.2.2.2.1 w hw
  rw [hsp] at this
  exact this

/-- `sliced->line` as a function of the row is strictly increasing when the field order and both start lines are
    known and field 2 starts after field 1 ends (which `_vbi_sampling_par_valid_log` enforces, `valid_fields_ordered`) -/
theorem lineOf_strictMono (sp : SPar) (hs : sp.synchronous = true) (h0 : sp.start0 ≠ 0) (h1 : sp.start1 ≠ 0)
    (hord : sp.start0 + sp.count0 ≤ sp.start1) (i j : Nat) (hij : i < j) : lineOf sp i < lineOf sp j := by
  unfold lineOf
  simp only [hs, h0, h1, ne_eq, not_false_eq_true, and_self, if_true]
  split <;> split <;> omega

/-- **line_numbers_correct_ascending.** The `line` of the k-th record is the ITU-R line number of the row it was
    found on (`start[0] + row` resp. `start[1] + row - count[0]`, 0 when the field order or start line is unknown);
    with known field order and start lines the line numbers are strictly ascending. -/
theorem line_numbers_correct_ascending (fx : Fixes) (ti : Nat → Nat) (sp : SPar) (ops : List Op) (maxLines : Nat) (sl : Slicer) :
    let r := decodeFrame (run fx ti sp ops) maxLines sl
    r.2.1.map (·.line) = r.2.2.map (fun w => lineOf sp w.2) ∧
    (sp.synchronous = true → sp.start0 ≠ 0 → sp.start1 ≠ 0 → sp.start0 + sp.count0 ≤ sp.start1 →
      List.Pairwise (· < ·) (r.2.1.map (·.line))) := by
  have hspec := decodeFrame_spec (run fx ti sp ops) maxLines sl (run_inv fx ti sp ops).1
  have hsp := (run_inv fx ti sp ops).2
  have hl := hspec.2.2.2.2.2.2.2.2.1
  rw [hsp] at hl
  refine ⟨hl, ?_⟩
  intro hs h0 h1 hord
  rw [hl, List.pairwise_map]
  exact hspec.2.2.2.2.2.2.1.imp (fun {a b} hab => lineOf_strictMono sp hs h0 h1 hord a.2 b.2 hab)

/-- what `_vbi_sampling_par_valid_log` guarantees about the two fields (625 and 525 line systems; C `int` ranges) -/
theorem valid_fields_ordered (sp : SPar) (hv : sp.valid = true) (h0 : sp.start0 ≠ 0) (h1 : sp.start1 ≠ 0)
    (hc : sp.count0 < 2147483648) : sp.start0 + sp.count0 ≤ sp.start1 := by
  unfold SPar.valid at hv
  simp only [videostdOfScanning, videostd525, videostd625, rangeCheck, Zvbi.Slicer.U32] at hv
  by_cases h5 : sp.scanning = 525
  · simp [h5, h0, h1] at hv
    have hd := of_decide_eq_true hv.1.2.1.1.2
    have hg := hv.1.2.1.2
    have hs := hv.1.2.2.1.1
    omega
  · by_cases h6 : sp.scanning = 625
    · simp [h6, h0, h1] at hv
      have hd := of_decide_eq_true hv.1.2.1.1.2
      have hg := hv.1.2.1.2
      have hs := hv.1.2.2.1.1
      omega
    · simp [h5, h6] at hv

/-- **right_service_only.** The `id` of every record is the id set of a job that is live in the decoder when the
    frame is decoded - never anything else.  (That live jobs are exactly the services reported by
    `add_services`/`remove_services` is `ids_within_services_full` below: true for the repaired
    `remove_services`, FALSE for the released one.) -/
theorem right_service_only (fx : Fixes) (ti : Nat → Nat) (sp : SPar) (ops : List Op) (maxLines : Nat) (sl : Slicer) :
    ∀ r ∈ (decodeFrame (run fx ti sp ops) maxLines sl).2.1, r.id ∈ (run fx ti sp ops).jobs.map (·.id) :=
  (decodeFrame_spec (run fx ti sp ops) maxLines sl (run_inv fx ti sp ops).1).2.2.2.2.2.2.2.2.2.1

/-- **blank_no_output.** If no slicer finds a signal on any row (a blank image), no record is returned. -/
theorem blank_no_output (fx : Fixes) (ti : Nat → Nat) (sp : SPar) (ops : List Op) (maxLines : Nat) (sl : Slicer)
    (hblank : ∀ i j job, (sl i j job).1 = none) : (decodeFrame (run fx ti sp ops) maxLines sl).2.1 = [] :=
  (decodeFrame_spec (run fx ti sp ops) maxLines sl (run_inv fx ti sp ops).1).2.2.2.2.2.2.2.2.2.2 hblank

/-- non-vacuity of the frame theorems: Teletext B + VPS on lines 7-23 / 320-336, a frame with VPS on row 9 (line 16)
    and Teletext on row 20 (line 323) yields exactly these two records, in this order, with these line numbers -/
example : (decodeFrame (run Fixes.none (fun _ => 0) ⟨625, 1, 13500000, 720, 132, 7, 17, 320, 17, false, true⟩ [.add 0x7 0]) 34
    (nominalSlicer [(4, 9, [1, 2]), (3, 20, [5])])).2.1 = [⟨4, 16, [1, 2]⟩, ⟨3, 323, [5]⟩] := by decide

/-! ## the slicers -/

/-- **slice_exact_under_open_eye** (core slicer `bit_slicer_<fmt>`, octet mode LSB first: all Teletext systems,
    Caption 625/525).  If the clock run-in search on the sample sequence `g` stops in iteration `k` with threshold
    `tr`, the FRC bits sampled at `phase_shift + j*step` equal the framing code, and the eye is open for payload `w`
    - the interpolated level at every payload sampling instant `phase_shift + (frc_bits + j)*step` is on the side of
    `tr` that bit `j` of `w` (LSB first) demands - then `slice()` returns exactly `w`. -/
theorem slice_exact_under_open_eye (bs : BS) (hend : bs.endian = 1) (thresh : Nat) (g : Nat → Nat) (k tr th' : Nat)
    (hcri : coreSearch bs g bs.criSamples 0 thresh {} = some (k, tr, th'))
    (w : List Nat) (hlen : w.length = bs.payload) (hbytes : ∀ x ∈ w, x < 256)
    (hfrc : frcValue bs (coreSampler g k tr) = bs.frc)
    (heye : ∀ j, j < 8 * bs.payload → coreSampler g k tr (payloadPos bs j) = bitAt 1 (8 * bs.payload) w j) :
    coreSlice bs thresh g = (some w, th') := by
  unfold coreSlice
  rw [hcri]
  simp only []
  unfold payloadStage
  simp only [hfrc, ne_eq, not_true_eq_false, if_false, hend]
  congr 2
  apply List.ext_getElem
  · simp [hlen]
  · intro m h1 h2
    simp only [List.getElem_map, List.getElem_range]
    have hm : m < w.length := h2
    have hx := hbytes w[m] (List.getElem_mem hm)
    have hs := sumLsb_eq bs (coreSampler g k tr) m w[m] hx (by
      intro kk hkk
      have := heye (8 * m + kk) (by rw [← hlen]; omega)
      rw [this]
      unfold bitAt
      simp only [show (1 : Nat) % 2 = 1 from rfl, if_true]
      rw [show (8 * m + kk) / 8 = m from by omega, show (8 * m + kk) % 8 = kk from by omega]
      rw [List.getD_eq_getElem?_getD, List.getElem?_eq_getElem hm]
      rfl)
    rw [hs]
    exact Nat.mod_eq_of_lt hx

/-- **slice_exact_msb_octets** (all three slicers, octet mode MSB first: VPS).  The payload stage shared by
    `bit_slicer_<fmt>`, `low_pass_bit_slicer_Y8` and the legacy `bit_slicer_tmpl` returns exactly `w` when the FRC
    matches and every sampled payload bit is the corresponding bit of `w`, MSB first - whatever the accumulator `c`
    held when the loop started. -/
theorem slice_exact_msb_octets (v : Variant) (bs : BS) (hend : bs.endian = 0) (smp : Sampler)
    (w : List Nat) (hlen : w.length = bs.payload) (hbytes : ∀ x ∈ w, x < 256)
    (hfrc : frcValue bs smp = bs.frc)
    (heye : ∀ j, j < 8 * bs.payload → smp (payloadPos bs j) = bitAt 0 (8 * bs.payload) w j) :
    payloadStage v bs smp = some w := by
  unfold payloadStage
  simp only [hfrc, ne_eq, not_true_eq_false, if_false, hend]
  congr 1
  rw [← hlen]
  apply octets_msb bs smp w 0 _ hbytes
  intro i hi kk hkk
  have := heye (8 * i + kk) (by rw [← hlen]; omega)
  rw [Nat.zero_add, this]
  unfold bitAt
  simp only [show (0 : Nat) % 2 = 1 ↔ False from by decide, if_false, show ¬ ((0 : Nat) ≥ 2) from by decide, false_and]
  rw [show (8 * i + kk) / 8 = i from by omega, show (8 * i + kk) % 8 = kk from by omega]

/-- non-vacuity: a 1-byte MSB-first payload 0xA5 sampled bit by bit -/
example : payloadStage .core ⟨0, 0, 0, 1, 4, 9, 0, 0, 0, 256, 1, 0⟩
    (fun pos => (0xA5 : Nat).testBit (7 - pos / 256)) = some [0xA5] := by decide

/-! ## statements that are false on the released `remove_services` (F61, F62, F63) -/

/-- the three jobs Teletext B, VPS, Caption 625 on a 625 line decoder -/
def s3 (fx : Fixes) (ops : List Op) : State :=
  run fx (fun _ => 0) ⟨625, 1, 13500000, 720, 132, 7, 17, 320, 17, false, true⟩ (.add 0x1f 0 :: ops)

/-- FULL statement (open on the released code): after `remove_services (sv)` no live job carries a bit of `sv`
    and every live job's id lies inside the reported services. -/
def ids_within_services_full (fx : Fixes) : Prop :=
  ∀ (ti : Nat → Nat) (sp : SPar) (ops : List Op) (sv : Nat),
    ∀ job ∈ (run fx ti sp (ops ++ [.remove sv])).jobs, job.id &&& sv = 0

/-- F61: the released `remove_services` only looks at `rd->jobs[0]`: removing VPS (job 2 of 3) leaves the VPS job
    alive while `rd->services` no longer lists it -/
theorem ids_counterexample : ¬ ids_within_services_full Fixes.none := by
  intro h
  have := h (fun _ => 0) ⟨625, 1, 13500000, 720, 132, 7, 17, 320, 17, false, true⟩ [.add 0x1f 0] 0x4
  revert this
  decide +kernel

/-- ... the repaired loop removes it -/
example : (s3 Fixes.all [.remove 0x4]).jobs.map (·.id) = [3, 0x18] ∧ (s3 Fixes.all [.remove 0x4]).services = 0x1b := by decide
example : (s3 Fixes.none [.remove 0x4]).jobs.map (·.id) = [3, 4, 0x18] ∧ (s3 Fixes.none [.remove 0x4]).services = 0x1b := by decide

/-- FULL statement (open): every service reported by the decoder has a live job -/
def services_have_jobs_full (fx : Fixes) : Prop :=
  ∀ (ti : Nat → Nat) (sp : SPar) (ops : List Op),
    (run fx ti sp ops).services = ((run fx ti sp ops).jobs.map (·.id)).foldl (· ||| ·) 0

/-- F63: removing Caption 625 field 1 (0x8) deletes the merged caption job but leaves 0x10 in `rd->services`: field 2
    is reported as decoded, is not decoded, and cannot be added again.  (Caption must be the first job for the released
    loop to see it at all.) -/
theorem services_counterexample : ¬ services_have_jobs_full Fixes.none := by
  intro h
  have := h (fun _ => 0) ⟨625, 1, 13500000, 720, 132, 7, 17, 320, 17, false, true⟩ [.add 0x18 0, .remove 0x8]
  revert this
  decide +kernel

example : (run Fixes.all (fun _ => 0) ⟨625, 1, 13500000, 720, 132, 7, 17, 320, 17, false, true⟩
    [.add 0x18 0, .remove 0x8]).services = 0 := by decide

/-- a row is *armed* when the decoder looks at it in every frame: its jobs come first and the `not blank` marker
    sits in the last way -/
def armed (row : PRow) : Bool := decide (row.getD 0 0 > 0) && decide (row.getD 7 0 < 0) || row.all (· ≤ 0)

/-- FULL statement (open): every row of every reachable pattern is armed (so a line with a requested service is
    examined in every frame, not once in 16) -/
def armed_reachable_full (fx : Fixes) : Prop :=
  ∀ (ti : Nat → Nat) (sp : SPar) (ops : List Op) (p : Pattern), (run fx ti sp ops).pattern = some p →
    ∀ row ∈ p, armed row = true

/-- F62: `remove_job_from_pattern` copies the marker -128 like a job number: after removing Teletext (job 1) the
    marker of line 16 (VPS, now job 1) sits in way 6; one frame without VPS later the line is predicted blank and VPS
    is looked for only once in 16 frames -/
theorem armed_counterexample : ¬ armed_reachable_full Fixes.none := by
  intro h
  have := h (fun _ => 0) ⟨625, 1, 13500000, 720, 132, 7, 17, 320, 17, false, true⟩
    [.add 0x7 0, .remove 0x3, .decode 34 (nominalSlicer [])]
  revert this
  decide +kernel

/-- the consequence, on the model of the released code: VPS transmitted on line 16 in the next frame is NOT returned -/
example : (decodeFrame (run Fixes.none (fun _ => 0) ⟨625, 1, 13500000, 720, 132, 7, 17, 320, 17, false, true⟩
    [.add 0x7 0, .remove 0x3, .decode 34 (nominalSlicer [])]) 34 (nominalSlicer [(4, 9, [1])])).2.1 = [] := by decide +kernel

/-- ... and on the repaired code it is -/
example : (decodeFrame (run Fixes.all (fun _ => 0) ⟨625, 1, 13500000, 720, 132, 7, 17, 320, 17, false, true⟩
    [.add 0x7 0, .remove 0x3, .decode 34 (nominalSlicer [])]) 34 (nominalSlicer [(4, 9, [1])])).2.1 = [⟨4, 16, [1]⟩] := by decide +kernel

/-- the C code asserts `par->first[f] <= par->last[f]` in `lines_containing_data`; it holds for the generated table -/
theorem table_first_le_last : ∀ r ∈ serviceTable, r.first0 ≤ r.last0 ∧ r.first1 ≤ r.last1 := by decide

end Zvbi.Props.C04
