import ZvbiModel.Enh.Lemmas
import ZvbiModel.Props.C01Ttx
/-!
# C01 - the service decoder survives every input: proved safety obligations

C01 is a conjunction over the whole decoder.  This file holds the obligations that are *logic* and have been
proved on models tied to the current source; the per-component obligations (caption cursor invariant, XDS
buffer bounds, cache invariants / teardown, page-walk termination, Teletext index bounds) live in the
component property files and are listed in DESIGN.md section 7 "C01".  Everything else is covered by the
sanitizer-instrumented correspondence runs only (see evidence/C01.json `partial_note`).
-/
namespace Zvbi.Props.C01
open Zvbi.Enh Zvbi.Generated.Enh

/-- The facts the termination proof uses are present in the current source text of `teletext.c enhance()`:
the priority test textually precedes the recursive call and the call passes `new_type`. -/
theorem enhance_guard_in_source : guardPrecedesCall = true ∧ callPassesNewType = true := by decide

/-- **Object invocation cannot recurse without bound.**  Whatever the broadcast object definitions contain -
including objects that invoke themselves or each other in cycles (`objs` is arbitrary) - and whatever triplets
the page carries, `enhance()` started at object type `type ≤ 3` nests at most `4 - type` activations deep:
local enhancement data (type 0) at most 4, a default passive object (type 3) exactly 1. -/
theorem enhance_recursion_bounded (objs : Objects) (type : Nat) (trips : List Trip)
    (h : type ≤ maxObjectType) :
    (enhance objs (maxObjectType + 1 - type) type trips).isSome :=
  enhance_isSome objs _ type trips (by omega) (by omega)

/-- The two top-level entry points: page enhancement (`LOCAL_ENHANCEMENT_DATA`) and default object invocation
(type taken from a 2-bit MOT field, hence `≤ 3`). -/
theorem enhance_page_terminates (objs : Objects) (trips : List Trip) :
    (enhance objs 4 localEnhancementData trips).isSome :=
  enhance_recursion_bounded objs localEnhancementData trips (by decide)

/-- The bound is tight and the hypothesis is not vacuous: one object that invokes itself three times with
rising priority reaches nesting depth 4, and the model still terminates on it. -/
def cyclic : Objects := fun _ => [.invoke 0x11 0, .invoke 0x12 0, .invoke 0x13 0]
example : depth cyclic 10 0 (cyclic 0) = 4 := by simp [depth, cyclic, skipInvocation, typeMask]
example : (enhance cyclic 4 0 (cyclic 0)).isSome = true := by simp [enhance, cyclic, skipInvocation, typeMask]
example : enhance cyclic 3 0 (cyclic 0) = none := by simp [enhance, cyclic, skipInvocation, typeMask]

/-- **Teletext decoder: no out-of-range index and no failing assertion, for every packet history, on the
current tree.**  `Ttx.run` marks every array access outside its (generated) extent and every
`cache_network_page_stat` assertion as `Aux.fault site`; this is `C01Ttx.no_fault_reachable` with its
hypothesis discharged by the flag that `translate/gen_ttx.py` reads from packet.c (the proof is `rfl` on that
flag, so it stops building when the last-PTU repair F58 - or, through the per-site lemmas, F18 / F22 / F23 or an
array extent - is lost). -/
theorem teletext_no_fault_reachable (on : Bool) (ps : List Zvbi.Ttx.Packet) (site : String) :
    Zvbi.Ttx.Event.aux (Zvbi.Ttx.Aux.fault site) ∉ (Zvbi.Ttx.run (Zvbi.Ttx.init.enable on) ps).2 :=
  Zvbi.Props.C01Ttx.no_fault_reachable rfl on ps site

end Zvbi.Props.C01
