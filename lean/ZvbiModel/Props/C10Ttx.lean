import ZvbiModel.Cache.LemmasTtx
import ZvbiModel.Cache.LemmasFix
import ZvbiModel.Cache.LemmasAbsR
/-!
# C10 x C03/C02: the page list of the Teletext decoder model is the abstract map of the cache.c model

The decoder model (`Zvbi.Ttx`, property C03) keeps the cached pages of the current network as a most recently
used list: `Ttx.cacheGet` / `Ttx.cachePut` (reached through `Net.get` / `Net.put`; every look-up emits
`Aux.touch`, every store `Event.put`).  The cache.c model (`Zvbi.Cache`, property C10) refines to the abstract
store `AStore` (`refines_map_get`, `refines_map_put` in Props/C10.lean).  The theorems below close the gap:

* `ttx_get_is_map`, `ttx_put_is_map`: read through `tstore nid enc` (one `Entry` per page, `enc` abstracts the
  content, `nid` is the network the decoder holds) the decoder's list evolves by exactly the abstract
  `alookup` / `atouch` / `aput` - same key rule (`Ttx.putKey = Cache.putKey`), same wildcard rule
  (`VBI_ANY_SUBNO` => mask 0), same move-to-front.
* `sim_get`, `sim_put`: simulation, for BOTH source shapes of `_vbi_cache_put_page` (`fix`: as found with finding F17,
  repaired by fixes/C10-put-replaces-all-versions.diff; `Ttx.cachePut` follows `putReplacesAllVersions` like `stepCur`).  If the entries of network `nid` retrievable in a cache.c state are the
  decoder's list (`Sim`), then after a look-up / store performed on both sides they still are, and both
  sides hand out the same page (as `Entry`).  Hence a C02 / C03 statement about the page a decoder look-up
  returns is a statement about what `_vbi_cache_get_page` of the cache.c model returns.
-/
namespace Zvbi.Props.C10Ttx
open Zvbi.Cache Zvbi.Gen.Cache

/-- The decoder's look-up is the abstract look-up + touch. -/
theorem ttx_get_is_map (nid : Nat) (enc : Ttx.Page → Nat) (c : List Ttx.Page) (pgno subno mask : Nat)
    (hv : validPgno pgno = true) :
    ((Ttx.cacheGet c pgno subno mask).map (fun r => tentry nid enc r.1)
        = alookup (tstore nid enc c) nid pgno subno (if subno = anySubno then 0 else mask))
    ∧ tstore nid enc (match Ttx.cacheGet c pgno subno mask with | some r => r.2 | none => c)
        = atouch (tstore nid enc c) nid pgno subno (if subno = anySubno then 0 else mask) :=
  tcacheGet_abs nid enc c pgno subno mask hv

/-- The decoder's key rule is the one of the cache.c model. -/
theorem ttx_key_rule (pt pgno subno : Nat) (h : pgno < 4294967296) : Ttx.putKey pt pgno subno = putKey pt pgno subno :=
  tputKey_eq pt pgno subno h

/-- The decoder's store is the abstract store operation, in BOTH source shapes of `_vbi_cache_put_page` (`fix`):
    as found (`fix = false`) `aput` - the version found under the key is replaced -, with
    fixes/C10-put-replaces-all-versions.diff (`fix = true`) `aputR` - under a single-version key (`mask = 0`) EVERY version of
    the page number is replaced.  `Ttx.cachePut`, what the decoder model (C03 / C02 / C01) runs, is the shape
    translate/gen_cache.py read from the current source (`putReplacesAllVersions`). -/
theorem ttx_put_is_map (fix : Bool) (nid : Nat) (enc : Ttx.Page → Nat) (c : List Ttx.Page) (pt : Nat) (p : Ttx.Page)
    (hp : p.pgno < 4294967296) (c' : List Ttx.Page) :
    (Ttx.cachePutF fix c pt p = some c' →
      tstore nid enc c' = aputF fix (tstore nid enc c) (tentry nid enc (tstored pt p)) (putKey pt p.pgno p.subno).2) ∧
    (Ttx.cachePut c pt p = some c' →
      tstore nid enc c' = aputF putReplacesAllVersions (tstore nid enc c) (tentry nid enc (tstored pt p))
        (putKey pt p.pgno p.subno).2) ∧
    (∀ a e mask, aputF false a e mask = aput a e mask) ∧ (∀ a e mask, aputF true a e mask = aputR a e mask) :=
  ⟨fun hres => (tcachePutF_abs fix nid enc c pt p hp hres).2, fun hres => (tcachePut_abs nid enc c pt p hp hres).2,
   fun _ _ _ => rfl, fun _ _ _ => rfl⟩

/-- non-vacuity, and the difference between the shapes: page 100 is cached with sub-codes 1 and 2; a store with
    sub-code 0x100 (single-version key) replaces the most recently used one as found, both when repaired -/
example :
    (Ttx.cachePutF false [{ Ttx.Page.zero with pgno := 0x100, subno := 1 }, { Ttx.Page.zero with pgno := 0x100, subno := 2 }] 0
      { Ttx.Page.zero with pgno := 0x100, subno := 0x100 }).map (fun l => l.map (·.subno)) = some [0x100, 2] ∧
    (Ttx.cachePutF true [{ Ttx.Page.zero with pgno := 0x100, subno := 1 }, { Ttx.Page.zero with pgno := 0x100, subno := 2 }] 0
      { Ttx.Page.zero with pgno := 0x100, subno := 0x100 }).map (fun l => l.map (·.subno)) = some [0x100] := by
  constructor <;> decide +kernel

/-- the retrievable versions of network `nid` in a cache.c state are the decoder's page list -/
def Sim (nid : Nat) (enc : Ttx.Page → Nat) (c : List Ttx.Page) (s : State) : Prop :=
  s.abs.filter (fun e => decide (e.net = nid)) = tstore nid enc c

/-- Look-up on both sides: same answer, still in simulation (for every reachable cache.c state, both source shapes). -/
theorem sim_get (fix : Bool) (ops : List Op) (nid : Nat) (enc : Ttx.Page → Nat) (c : List Ttx.Page)
    (hsim : Sim nid enc c (runF fix init ops)) (pgno subno mask : Nat) (hv : validPgno pgno = true) :
    (((runF fix init ops).getPage nid pgno subno mask).2.map Page.entry
        = (Ttx.cacheGet c pgno subno mask).map (fun r => tentry nid enc r.1))
    ∧ Sim nid enc (match Ttx.cacheGet c pgno subno mask with | some r => r.2 | none => c)
        ((runF fix init ops).getPage nid pgno subno mask).1 := by
  obtain ⟨g1, g2⟩ := getPage_abs (good_runF fix good_init ops).1 nid pgno subno mask hv
  obtain ⟨t1, t2⟩ := tcacheGet_abs nid enc c pgno subno mask hv
  unfold Sim at hsim ⊢
  constructor
  · rw [g1, t1, ← hsim, alookup_filter]
  · rw [g2, atouch_filter, hsim]; exact t2.symm

/-- Store on both sides, BOTH source shapes of `_vbi_cache_put_page` (`fix`; memory not short, the decoder's page type
    is the one in the cache statistics, the stored content token is `enc` of the stored page): same page handed out,
    still in simulation.  The decoder model's store of shape `fix` (`Ttx.cachePutF fix`; `Ttx.cachePut` is the one of the
    current source) against the cache.c model of the same shape (`runF fix`, `putPageF fix`).  Repaired shape: through
    `putPageR_abs` (Cache/LemmasAbsR.lean), the list form of the store refinement. -/
theorem sim_put (fix : Bool) (ops : List Op) (nid : Nat) (enc : Ttx.Page → Nat) (c : List Ttx.Page)
    (hsim : Sim nid enc c (runF fix init ops)) (cn : Net) (hf : (runF fix init ops).findNet nid = some cn)
    (p : Ttx.Page) (hrange : 0x100 ≤ p.pgno ∧ p.pgno ≤ 0x8FF)
    (a : PutArg) (ha : a = ⟨p.pgno, p.subno, p.function, p.x26, p.x28, enc (tstored (cn.getStat p.pgno).ptype p)⟩)
    (hroom : (runF fix init ops).memUsed + pageSize a.func a.x26 a.x28 ≤ (runF fix init ops).memLimit)
    (c' : List Ttx.Page) (hc : Ttx.cachePutF fix c (cn.getStat p.pgno).ptype p = some c')
    (s' : State) (r : Option Page) (hres : (runF fix init ops).putPageF fix nid a = .ok (s', r)) :
    r.map Page.entry = some (tentry nid enc (tstored (cn.getStat p.pgno).ptype p)) ∧ Sim nid enc c' s' := by
  have hp : p.pgno < 4294967296 := by omega
  obtain ⟨hlow, t⟩ := tcachePutF_abs fix nid enc c (cn.getStat p.pgno).ptype p hp hc
  have hlow' : a.pgno &&& 0xFF ≠ 0xFF := by rw [ha]; exact hlow
  have hrange' : 0x100 ≤ a.pgno ∧ a.pgno ≤ 0x8FF := by rw [ha]; exact hrange
  obtain ⟨g1, g2⟩ := putPageF_abs fix (good_runF fix good_init ops).1 hf a hlow' hrange' hroom hres
  have he : putEntry nid a (putKey (cn.getStat a.pgno).ptype a.pgno a.subno).1
      = tentry nid enc (tstored (cn.getStat p.pgno).ptype p) := by
    rw [ha, tstored_eq]
    exact putEntry_tentry nid enc p (putKey (cn.getStat p.pgno).ptype p.pgno p.subno) _ rfl
  have hk : (putKey (cn.getStat a.pgno).ptype a.pgno a.subno).2 = (putKey (cn.getStat p.pgno).ptype p.pgno p.subno).2 := by
    rw [ha]
  unfold Sim at hsim ⊢
  constructor
  · rw [g2, he]
  · rw [g1, he, hk]
    have hnet : (tentry nid enc (tstored (cn.getStat p.pgno).ptype p)).net = nid := rfl
    have := aputF_filter fix (runF fix init ops).abs (tentry nid enc (tstored (cn.getStat p.pgno).ptype p))
      (putKey (cn.getStat p.pgno).ptype p.pgno p.subno).2
    rw [hnet] at this
    rw [this, hsim, t]

/-- the decoder model as it runs (`Ttx.cachePut`, the shape translate/gen_cache.py read from the current source) against
    the cache.c model of the current source (`stepCur` histories = `runF putReplacesAllVersions`) -/
theorem sim_put_current (ops : List Op) (nid : Nat) (enc : Ttx.Page → Nat) (c : List Ttx.Page)
    (hsim : Sim nid enc c (runF putReplacesAllVersions init ops)) (cn : Net)
    (hf : (runF putReplacesAllVersions init ops).findNet nid = some cn)
    (p : Ttx.Page) (hrange : 0x100 ≤ p.pgno ∧ p.pgno ≤ 0x8FF)
    (a : PutArg) (ha : a = ⟨p.pgno, p.subno, p.function, p.x26, p.x28, enc (tstored (cn.getStat p.pgno).ptype p)⟩)
    (hroom : (runF putReplacesAllVersions init ops).memUsed + pageSize a.func a.x26 a.x28
      ≤ (runF putReplacesAllVersions init ops).memLimit)
    (c' : List Ttx.Page) (hc : Ttx.cachePut c (cn.getStat p.pgno).ptype p = some c')
    (s' : State) (r : Option Page) (hres : (runF putReplacesAllVersions init ops).putPageF putReplacesAllVersions nid a = .ok (s', r)) :
    r.map Page.entry = some (tentry nid enc (tstored (cn.getStat p.pgno).ptype p)) ∧ Sim nid enc c' s' :=
  sim_put putReplacesAllVersions ops nid enc c hsim cn hf p hrange a ha hroom c' hc s' r hres

/-- non-vacuity: an empty decoder list simulates a cache in which network 0 has no page -/
example (fix : Bool) : Sim 0 (fun _ => 0) [] (runF fix init [.addNet]) := by unfold Sim; rfl

end Zvbi.Props.C10Ttx
