import ZvbiModel.Slicer.BitsTable
import ZvbiModel.Slicer.BitsWindow
import ZvbiModel.Rawdec.SvcLines
import ZvbiModel.Rawdec.SvcJobs
import ZvbiModel.Rawdec.Spec
import ZvbiModel.Props.C04
/-!
# C04, round 2 - bit-exact slicing in every mode, the search window, line numbers per field, service bookkeeping

Continues `Props/C04.lean` (same models: `Rawdec/Model.lean`, `Rawdec/SliceModel.lean`, `Slicer/Model.lean`).
* the payload stage of all three slicers is exact in all four `endian` modes, for every payload length and payload
  (`payload_stage_exact_all_modes`), with the two side conditions stated and discharged for every row of the
  regenerated service table (`table_rows_meet_side_conditions`), lifted to the three slicer entry points;
* the CRI search window admits exactly the positions at which data and look-ahead fit the line (`cri_window_exact`);
* ITU-R line number / field / memory line of every row for every accepted sampling parameter set;
* `rd->services`, the job list and what `remove_services` leaves, for ALL histories of the repaired code.
-/
namespace Zvbi.Props.C04Bits
open Zvbi.Rawdec Zvbi.Generated.ServiceTable
open Zvbi.Slicer (U32)

/-! ## 1. the slicers return exactly the transmitted bits -/

/-- **payload_stage_exact_all_modes.** All three slicers (`bit_slicer_<fmt>`, `low_pass_bit_slicer_Y8`, legacy
    `bit_slicer_tmpl`), all four modes (`endian` 0 octets MSB first, 1 octets LSB first, 2 bits MSB first, 3 bits LSB
    first), every payload length, every payload `w` in canonical form (`Canon`): if the FRC bits match and the decision
    at every payload sampling instant is the transmitted bit (`bitAt`: wire order), the bytes written to `buffer` are
    exactly `w`.  Side conditions: a bit mode is used with `payload % 8 ≠ 0` only (what `set_params` does); for
    `endian == 3` of `bit_slicer_<fmt>` the accumulator starts at `bs->frc`, which must be `< 256`. -/
theorem payload_stage_exact_all_modes (v : Variant) (bs : BS) (smp : Sampler) (w : List Nat)
    (hend : bs.endian ≤ 3) (hcanon : Canon bs w)
    (hbit : 2 ≤ bs.endian → bs.payload % 8 ≠ 0)
    (hc0 : v = .core → bs.endian = 3 → bs.frc < 256)
    (hfrc : frcValue bs smp = bs.frc)
    (heye : ∀ j, j < nBits bs → smp (payloadPos bs j) = bitAt bs.endian (nBits bs) w j) :
    payloadStage v bs smp = some w :=
  payloadStage_exact v bs smp w hend hcanon hbit hc0 hfrc heye

/-- non-vacuity: WSS-like payload, 14 bits LSB first, `0x2A5 = [0xA5, 0x02]`, sampled bit by bit, all three slicers -/
example : ∀ v : Variant, payloadStage v ⟨0, 0, 0, 1, 4, 9, 0, 0, 0, 256, 14, 3⟩
    (fun pos => (0x2A5 : Nat).testBit (pos / 256)) = some [0xA5, 0x02] := by intro v; cases v <;> decide
/-- ... and MSB first: the last byte holds the 6 remaining bits right-aligned -/
example : ∀ v : Variant, payloadStage v ⟨0, 0, 0, 1, 4, 9, 0, 0, 0, 256, 14, 2⟩
    (fun pos => (0x2A5 : Nat).testBit (13 - pos / 256)) = some [0x0A, 0x25] := by intro v; cases v <;> decide

/-- **frc_ge_256_counterexample.** The side condition `frc < 256` of `endian == 3` is needed: with a 9 bit FRC
    `0x100` and a 9 bit all-zero payload the first byte `bit_slicer_<fmt>` stores is 1 - bit 8 of the FRC, shifted
    down by `c >> 1`.  (No table row has more than 8 FRC bits: `table_rows_meet_side_conditions`.) -/
theorem frc_ge_256_counterexample :
    payloadStage .core ⟨0, 0, 0, 1, 4, 9, 256, 9, 0, 256, 9, 3⟩ (fun pos => decide (pos = 0)) = some [1, 0] ∧
    payloadStage .lowpass ⟨0, 0, 0, 1, 4, 9, 256, 9, 0, 256, 9, 3⟩ (fun pos => decide (pos = 0)) = some [0, 0] := by
  decide

/-- **table_rows_meet_side_conditions.** For EVERY row of the regenerated `_vbi_service_table`, every pixel format,
    sampling rate and line length: the slicer `add_services` configures (`set_params` accepted) has `endian ≤ 3`, uses a
    bit mode only for a payload that is not a whole number of octets, has `frc < 256`, and samples exactly
    `par->payload` bits.  Same for the legacy `vbi_bit_slicer_init`. -/
theorem table_rows_meet_side_conditions (r : Row) (hr : r ∈ serviceTable) :
    (∀ (gf : GreenFmt) (fmt : Zvbi.Slicer.Fmt) (rate spl : Nat) (tight : Bool) (c : Zvbi.Slicer.Cfg),
      Zvbi.Slicer.setParams tight (Zvbi.Slicer.rowParams r fmt rate spl) = .ok c →
      (bsOfRow r gf c rate).endian ≤ 3 ∧ (2 ≤ (bsOfRow r gf c rate).endian → (bsOfRow r gf c rate).payload % 8 ≠ 0) ∧
      (bsOfRow r gf c rate).frc < 256 ∧ nBits (bsOfRow r gf c rate) = r.payload) ∧
    (∀ (tight : Bool) (p : Zvbi.Slicer.LParams) (rate : Nat), p.frcBits = r.frcBits →
      (legacyBsOfRow r (Zvbi.Slicer.legacyInit tight p) rate).endian ≤ 3 ∧
      (2 ≤ (legacyBsOfRow r (Zvbi.Slicer.legacyInit tight p) rate).endian →
        (legacyBsOfRow r (Zvbi.Slicer.legacyInit tight p) rate).payload % 8 ≠ 0) ∧
      (legacyBsOfRow r (Zvbi.Slicer.legacyInit tight p) rate).frc < 256 ∧
      nBits (legacyBsOfRow r (Zvbi.Slicer.legacyInit tight p) rate) = p.payloadBits) :=
  ⟨fun gf fmt rate spl tight c h => bsOfRow_side r hr gf fmt rate spl tight c h,
   fun tight p rate hfb => legacyBsOfRow_side r hr tight p rate hfb⟩

example : serviceTable.length = 18 := by decide

/-- **slice_exact_table_row** (`vbi3_bit_slicer_slice` as `decode_pattern` calls it, either slicer function).  For a
    job configured from ANY table row, any pixel format, rate, line length: if the CRI search on the sample sequence
    `g` stops in iteration `k` with threshold `tr`, the FRC matches and the eye is open for payload `w` at every one of
    the `par->payload` sampling instants, `slice()` returns exactly `w` and leaves the threshold of the search. -/
theorem slice_exact_table_row (r : Row) (hr : r ∈ serviceTable) (gf : GreenFmt) (fmt : Zvbi.Slicer.Fmt) (rate spl : Nat)
    (c : Zvbi.Slicer.Cfg) (hcfg : Zvbi.Slicer.setParams slicerTight (Zvbi.Slicer.rowParams r fmt rate spl) = .ok c)
    (thresh : Nat) (g : Nat → Nat) (k tr th' : Nat) (w : List Nat) (hcanon : Canon (bsOfRow r gf c rate) w) :
    let bs := bsOfRow r gf c rate
    (coreSearch bs g bs.criSamples 0 thresh {} = some (k, tr, th') →
      frcValue bs (coreSampler g k tr) = bs.frc →
      (∀ j, j < r.payload → coreSampler g k tr (payloadPos bs j) = bitAt bs.endian r.payload w j) →
      coreSlice bs thresh g = (some w, th')) ∧
    (lpSearch bs g bs.criSamples 0 thresh (lpSum g 0 % U32) { c := U32 - 1 } = some (k, tr, th') →
      frcValue bs (lpSampler g k tr) = bs.frc →
      (∀ j, j < r.payload → lpSampler g k tr (payloadPos bs j) = bitAt bs.endian r.payload w j) →
      lowpassSlice bs thresh g = (some w, th')) := by
  intro bs
  obtain ⟨s1, s2, s3, s4⟩ := bsOfRow_side r hr gf fmt rate spl slicerTight c hcfg
  constructor
  · intro hcri hfrc heye
    unfold coreSlice
    rw [hcri]
    simp only []
    rw [payloadStage_exact .core bs _ w s1 hcanon s2 (fun _ _ => s3) hfrc (by rw [s4]; exact heye)]
  · intro hcri hfrc heye
    unfold lowpassSlice
    rw [hcri]
    simp only []
    rw [payloadStage_exact .lowpass bs _ w s1 hcanon s2 (fun h => by cases h) hfrc (by rw [s4]; exact heye)]

/-- **legacy_slice_exact** (`vbi_bit_slice`, src/decoder.c), any configuration meeting the side conditions (every table
    row does), released or repaired 15/16 bit threshold update. -/
theorem legacy_slice_exact (fixed : Bool) (bs : BS) (shift thresh : Nat) (g : Nat → Nat) (k tr th' : Nat) (w : List Nat)
    (hend : bs.endian ≤ 3) (hcanon : Canon bs w) (hbit : 2 ≤ bs.endian → bs.payload % 8 ≠ 0)
    (hcri : legacySearch bs fixed shift g bs.criSamples 0 thresh {} = some (k, tr, th'))
    (hfrc : frcValue bs (coreSampler g k tr) = bs.frc)
    (heye : ∀ j, j < nBits bs → coreSampler g k tr (payloadPos bs j) = bitAt bs.endian (nBits bs) w j) :
    legacySlice fixed bs shift thresh g = (some w, th') := by
  unfold legacySlice
  rw [hcri]
  simp only []
  rw [payloadStage_exact .legacy bs _ w hend hcanon hbit (fun h => by cases h) hfrc heye]

/-! ## 2. the CRI search window is complete -/

/-- **cri_window_exact.** `vbi3_bit_slicer_set_params` (with the look-ahead block, as /repo has it) admits search
    iteration `k` - the CRI found `k` samples after `sample_offset` - EXACTLY when the data still fit
    (`offset + k + data_samples < samples_per_line`, zvbi's own `cri_end`) and the furthest sample the payload loops
    touch is inside the line (`offset + k + look_ahead < samples_per_line`), `look_ahead` counted in samples: last
    bit's sample `+ 1` (interpolation) resp. `+ 16` (low-pass window), for EVERY pixel format.  `→` is the safety bound
    of C05, `←` the completeness: no admissible position is lost (a look-ahead scaled by bytes per pixel loses 15, 30
    or 45 positions with 2, 3, 4 byte pixels).  `hnw`: the 32 bit sum `cri_samples + data_samples` does not wrap. -/
theorem cri_window_exact (p : Zvbi.Slicer.Params) (c : Zvbi.Slicer.Cfg) (h : Zvbi.Slicer.setParams true p = .ok c)
    (hend : p.criEnd = U32 - 1) (hnw : Zvbi.Slicer.criSamples0 p + Zvbi.Slicer.dataSamples p < U32) (k : Nat) :
    k < c.criSamples ↔
      (p.offset + k + Zvbi.Slicer.dataSamples p < p.spl ∧
       p.offset + k + Zvbi.Slicer.lookAhead c.kind c.phaseShift c.step c.nBits < p.spl) :=
  Zvbi.Slicer.setParams_window p c h hend hnw k

/-- non-vacuity: Caption 625 (table row 8), RGBA32, 27 MHz, 1400 samples: low-pass slicer, look-ahead 959 + 16 samples,
    1400 - 975 = 425 positions admitted - not 425 - 45 -/
example : (serviceTable[8]?.bind (fun r =>
      (Zvbi.Slicer.setParams true (Zvbi.Slicer.rowParams r ⟨4, 1, 1, true⟩ 27000000 1400)).toOption)).map
    (fun c => (c.kind, c.criSamples, Zvbi.Slicer.lookAhead c.kind c.phaseShift c.step c.nBits)) =
    some (Zvbi.Slicer.Kind.lowpass, 425, 975) := by decide +kernel

/-- **legacy_window_exact.** The same for `vbi_bit_slicer_init` (interpolating slicer: look-ahead = last bit's sample + 1). -/
theorem legacy_window_exact (p : Zvbi.Slicer.LParams) (hraw : p.rawSamples < U32) (k : Nat) :
    k < (Zvbi.Slicer.legacyInit true p).iterations ↔
      (k + p.rate * (p.payloadBits + p.frcBits) / p.bitRate < p.rawSamples ∧
       k + (Zvbi.Slicer.lastBitSample (Zvbi.Slicer.legacyInit true p).phaseShift (Zvbi.Slicer.legacyInit true p).step
              (Zvbi.Slicer.legacyInit true p).nBits + 1) < p.rawSamples) :=
  Zvbi.Slicer.legacyInit_window p hraw k

/-! ## 3. line number, field and memory line of every row -/

/-- **row_geometry.** For EVERY sampling parameter set `_vbi_sampling_par_valid_log` accepts (625 or 525 lines, any
    start[2] / count[2] - known or unknown -, sequential or interlaced storage, synchronous or not; C `int` ranges) and
    every row `i` of the image:
    * the pointer `vbi3_raw_decoder_decode` hands to the slicer (C05: `lineOffset`) is the start of memory line
      `memLine`, inside the image; sequential storage: memory line `i`; interlaced: `2 * index + field`, i.e. even memory
      lines are the first field, odd ones the second, in this order;
    * `sliced->line` = `start[field] + index in field` when the field order and that field's start line are known, else 0;
    * a known line number lies in the field's range of the line system (first field 1..262 / 1..311, second field
      263..525 / 312..625): never a line of the other field. -/
theorem row_geometry (sp : SPar) (hv : sp.valid = true) (hc0 : sp.count0 < 2147483648) (hc1 : sp.count1 < 2147483648)
    (hs0 : sp.start0 < 2147483648) (hs1 : sp.start1 < 2147483648) (i : Nat) (hi : i < sp.scanLines) :
    Zvbi.Slicer.lineOffset (toSp sp) i = memLine sp i * sp.bpl ∧ memLine sp i < sp.scanLines ∧
    (sp.interlaced = true → memLine sp i % 2 = fieldOf sp i ∧ memLine sp i / 2 = idxInField sp i) ∧
    (sp.interlaced = false → memLine sp i = i) ∧
    idxInField sp i < sp.count (fieldOf sp i) ∧
    lineOf sp i = (if sp.synchronous = true ∧ sp.start (fieldOf sp i) ≠ 0 then sp.start (fieldOf sp i) + idxInField sp i else 0) ∧
    (sp.synchronous = true → sp.start (fieldOf sp i) ≠ 0 →
      fieldLo sp.scanning (fieldOf sp i) ≤ lineOf sp i ∧ lineOf sp i < fieldHi sp.scanning (fieldOf sp i) + 1 ∧
      fieldHi sp.scanning 0 < fieldLo sp.scanning 1) := by
  obtain ⟨hscan, _, _, hr0, hr1, hil⟩ := valid_spec sp hv hc0 hc1 hs0 hs1
  have hidx : idxInField sp i < sp.count (fieldOf sp i) := by
    unfold idxInField fieldOf SPar.count SPar.scanLines at *
    by_cases h : i < sp.count0 <;> simp [h] <;> omega
  refine ⟨lineOffset_memLine sp i, ?_, ?_, ?_, hidx, lineOf_field sp i, ?_⟩
  · unfold memLine
    cases hI : sp.interlaced
    · simpa using hi
    · have := hil hI
      unfold idxInField fieldOf SPar.count SPar.scanLines at *
      by_cases h : i < sp.count0 <;> simp [h] at hidx ⊢ <;> omega
  · intro hI
    unfold memLine
    simp only [hI, if_true]
    have : fieldOf sp i < 2 := by unfold fieldOf; split <;> omega
    omega
  · intro hI
    unfold memLine
    simp [hI]
  · intro hsy hst
    rw [lineOf_field]
    simp only [hsy, hst, ne_eq, not_false_eq_true, and_self, if_true]
    unfold fieldOf SPar.start SPar.count at *
    by_cases h : i < sp.count0
    · simp only [h, if_true] at hst hidx ⊢
      have := hr0 hst
      rcases hscan with h5 | h6
      · simp [fieldLo, fieldHi, h5] at this ⊢; omega
      · simp [fieldLo, fieldHi, h6] at this ⊢; omega
    · simp only [h, if_false, show ¬ ((1 : Nat) = 0) from by omega] at hst hidx ⊢
      have := hr1 hst
      rcases hscan with h5 | h6
      · simp [fieldLo, fieldHi, h5] at this ⊢; omega
      · simp [fieldLo, fieldHi, h6] at this ⊢; omega

/-- **memory_lines_distinct.** Different rows are stored in different memory lines (both storage orders). -/
theorem memory_lines_distinct (sp : SPar) (hil : sp.interlaced = true → sp.count0 = sp.count1) (i j : Nat)
    (hi : i < sp.scanLines) (hj : j < sp.scanLines) (h : memLine sp i = memLine sp j) : i = j := by
  unfold memLine idxInField fieldOf SPar.scanLines at *
  cases hI : sp.interlaced
  · simpa [hI] using h
  · simp only [hI, if_true] at h
    by_cases h1 : i < sp.count0 <;> by_cases h2 : j < sp.count0 <;> simp [h1, h2] at h <;> omega

/-- **lines_ascending_valid.** One call of `vbi3_raw_decoder_decode` with accepted sampling parameters, known field
    order and both start lines known: the line numbers of the returned records are strictly ascending - no further
    hypothesis (that the second field starts behind the first follows from the accepted ranges). -/
theorem lines_ascending_valid (fx : Fixes) (ti : Nat → Nat) (sp : SPar) (ops : List Op) (maxLines : Nat) (sl : Slicer)
    (hv : sp.valid = true) (hc0 : sp.count0 < 2147483648) (hsy : sp.synchronous = true) (h0 : sp.start0 ≠ 0) (h1 : sp.start1 ≠ 0) :
    List.Pairwise (· < ·) ((decodeFrame (run fx ti sp ops) maxLines sl).2.1.map (·.line)) :=
  (Zvbi.Props.C04.line_numbers_correct_ascending fx ti sp ops maxLines sl).2 hsy h0 h1
    (Zvbi.Props.C04.valid_fields_ordered sp hv h0 h1 hc0)

/-- non-vacuity: interlaced storage, rows 0..3 with count 2 + 2: memory lines 0, 2, 1, 3; ITU-R lines 21, 22, 284, 285 -/
example : (List.range 4).map (fun i => (memLine ⟨525, 1, 27000000, 1440, 0, 21, 2, 284, 2, true, true⟩ i,
    lineOf ⟨525, 1, 27000000, 1440, 0, 21, 2, 284, 2, true, true⟩ i)) = [(0, 21), (2, 22), (1, 284), (3, 285)] := by decide

/-! ## 4. services and jobs over all histories (repaired `remove_services`) -/

/-- **services_have_jobs.** The full statement of Props/C04.lean (false on the released code), for the repaired
    `vbi3_raw_decoder_remove_services`: after ANY history of add / remove / reset / decode calls, with any sampling
    parameters and images, `rd->services` is exactly the union of the ids of the live jobs. -/
theorem services_have_jobs : Zvbi.Props.C04.services_have_jobs_full Fixes.all := by
  intro ti sp ops
  have h := (run_jok Fixes.all rfl rfl ti sp ops).svc
  rw [foldl_or_eq]
  exact h

/-- **job_ids_disjoint_at_most_7.** After any history: at most 7 jobs (the merge classes of one video standard - so the
    `MAX_JOBS` (8) break of `add_services` is unreachable with the real table), every job id is non-empty, fits 32
    bits, and no two jobs share a service bit. -/
theorem job_ids_disjoint_at_most_7 (fx : Fixes) (hja : fx.jobAdvance = true) (hm : fx.merged = true) (ti : Nat → Nat)
    (sp : SPar) (ops : List Op) :
    (run fx ti sp ops).jobs.length ≤ 7 ∧ (∀ job ∈ (run fx ti sp ops).jobs, job.id ≠ 0 ∧ job.id < U32) ∧
    ((run fx ti sp ops).jobs.map (·.id)).Pairwise (fun a b => a &&& b = 0) := by
  have h := run_jok fx hja hm ti sp ops
  refine ⟨by simpa [State.ids] using h.length_le, ?_, h.pd⟩
  intro job hjob
  have hU := h.inU job.id (List.mem_map.mpr ⟨job, hjob, rfl⟩)
  exact ⟨fun h0 => T_zero_notin (h0 ▸ hU), T_U_lt _ hU⟩

/-- non-vacuity: 7 jobs on ONE line exist with the real table (625 lines, lines 7-11 sampled, strict 0: VPS, WSS and
    Caption are looked for on every line) - the bound is attained, and way 8 still holds the marker -/
example : (run Fixes.all (fun _ => 0) ⟨625, 1, 13500000, 720, 132, 7, 5, 320, 5, false, true⟩ [.add 0xffffffff 0]).jobs.length = 7 ∧
    ((run Fixes.all (fun _ => 0) ⟨625, 1, 13500000, 720, 132, 7, 5, 320, 5, false, true⟩ [.add 0xffffffff 0]).pattern.map (·.head?))
      = some (some [1, 2, 3, 4, 5, 6, 7, -128]) := by decide +kernel

/-- **ids_within_services.** Repaired code, any history that did not run into the `set_params` assertion (a process
    abort in C; `no_index_error`): after `remove_services (sv)` no live job carries a bit of `sv`. -/
theorem ids_within_services (fx : Fixes) (hja : fx.jobAdvance = true) (hm : fx.merged = true) (ti : Nat → Nat)
    (sp : SPar) (ops : List Op) (sv : Nat) (herr : (run fx ti sp ops).err = none) :
    ∀ job ∈ (run fx ti sp (ops ++ [.remove sv])).jobs, job.id &&& sv = 0 := by
  intro job hjob
  have hrun : run fx ti sp (ops ++ [.remove sv]) = removeServices fx (run fx ti sp ops) sv := by
    unfold run; rw [List.foldl_append]; rfl
  rw [hrun] at hjob
  exact (removeServices_jok fx hja hm _ sv (run_jok fx hja hm ti sp ops) herr).2 job.id
    (List.mem_map.mpr ⟨job, hjob, rfl⟩)

example : (Zvbi.Props.C04.s3 Fixes.all [.remove 0x4]).jobs.map (·.id) = [3, 0x18] := by decide

/-- **record_ids_within_services.** Every record returned by `decode` after any history of the repaired code carries a
    non-empty id that lies inside `rd->services` - never a service that is not (or no longer) requested. -/
theorem record_ids_within_services (fx : Fixes) (hja : fx.jobAdvance = true) (hm : fx.merged = true) (ti : Nat → Nat)
    (sp : SPar) (ops : List Op) (maxLines : Nat) (sl : Slicer) :
    ∀ r ∈ (decodeFrame (run fx ti sp ops) maxLines sl).2.1,
      r.id ≠ 0 ∧ r.id &&& (run fx ti sp ops).services = r.id := by
  intro r hr
  have hmem := Zvbi.Props.C04.right_service_only fx ti sp ops maxLines sl r hr
  have h := run_jok fx hja hm ti sp ops
  refine ⟨fun h0 => T_zero_notin (h0 ▸ h.inU r.id hmem), ?_⟩
  rw [h.svc]
  exact mem_sub_orAll hmem

/-- what /repo contains is the repaired `remove_services` (regenerated `Generated/RawdecFacts.lean`): the three theorems
    above apply to it.  Stops compiling when the repair is reverted. -/
theorem repo_is_repaired : Fixes.repo.jobAdvance = true ∧ Fixes.repo.merged = true ∧ Fixes.repo.marker = true := by decide

/-! ## open -/

/-- FULL statement (open for the repaired code): `add_services` never drops a service that
    `_vbi_sampling_par_check_services_log` accepts - neither the `MAX_JOBS` break nor "Out of decoder pattern space"
    (`add_job_to_pattern` returning FALSE) is reachable with the real table. -/
def add_accepts_all_full (fx : Fixes) : Prop :=
  ∀ (ti : Nat → Nat) (sp : SPar) (ops : List Op) (sv : Nat) (strict : Int),
    (run fx ti sp (ops ++ [.add sv strict])).err = none →
    (run fx ti sp (ops ++ [.add sv strict])).services =
      (run fx ti sp ops).services ||| checkServices sp (maskServices (run fx ti sp ops) sv) strict

/-- **add_accepts_all_partial.** Proved half: the `MAX_JOBS` break is unreachable - whenever `add_services` looks for a
    job slot there are at most 7 jobs, so the index it finds is `≤ 7 < MAX_JOBS`.  Missing for the full statement: every
    row keeps its positive entries pairwise distinct over all histories (then 7 jobs leave a free way next to the marker
    way and `free <= 1` cannot occur). -/
theorem add_accepts_all_partial (fx : Fixes) (hja : fx.jobAdvance = true) (hm : fx.merged = true) (ti : Nat → Nat)
    (sp : SPar) (ops : List Op) (p : Job → Bool) :
    ((run fx ti sp ops).jobs.findIdx? p).getD (run fx ti sp ops).jobs.length < maxJobs := by
  have h1 := findIdx_le p (run fx ti sp ops).jobs
  have h2 := (job_ids_disjoint_at_most_7 fx hja hm ti sp ops).1
  have : maxJobs = 8 := rfl
  omega

end Zvbi.Props.C04Bits
