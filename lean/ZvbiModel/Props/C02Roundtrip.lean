import ZvbiModel.Ttx.Roundtrip7
import ZvbiModel.Props.C02
/-!
# Property C02, main statement `page_roundtrip`: a transmitted Teletext page is fetched as sent

Packet level (C03's model `Ttx.step`), parallel mode, one magazine stream.  Packets are given by what
the decoder reads out of them (`IsHeader`: the ten Hamming 8/4 bytes decode - possibly after single-bit
correction - to these values; `IsPacket`: address), so the theorems cover every received packet that
decodes, not only the sender's encoding; `C02.headerPacket` is an instance (`headerPacket_isHeader`).

Hypotheses and why packet.c / cache.c need each of them:
* `s.mask`: without a TTX_PAGE handler `vbi_decode_teletext` ignores packets 0..29.
* `s.chswcd = 0`: while the channel-switch countdown runs `store_lop` returns without storing, and
  `vbi_decode` empties the cache when it expires.
* `decimalPage`, `TextPage`: only a page whose function is LOP is treated as text; a hex page number,
  a cached earlier version with another function, or a page type announced by MIP / BTT that maps to
  POP / DRCS / data / discard gives the page another function (header branch, lines 2431-2516).
* header bytes Hamming-decodable (`IsHeader`): an uncorrectable page number desynchronises all
  magazines, an uncorrectable sub-code / control byte discards the page (C03 `bad_header_*`).
* rows 1..25 with 40 odd-parity bytes (`GoodRow`): `lop_parity_check` keeps the previous row otherwise.
* C11 = 0 (`fl &&& 0x10 = 0`): with magazine-serial set the terminated page is chosen differently.
* terminating header: same magazine, page number decodes, different from the page's.
* no `Event.chsw`: the rolling-header test (`same_header`) did not mistake the network for another one;
  `consistent_header_no_reset` shows that a consistent header (`HeaderAgrees`) never triggers it.
* `lopRaw.length = 26`: shape of `raw_page.lop_raw` (all states the model reaches have it).
-/
namespace Zvbi.Props.C02Roundtrip
open Zvbi.Ttx Zvbi.Hamm Zvbi.Fmt Zvbi.Fmt.L1Spec

/-- what is proved about the terminating header: another decimal text page of the magazine (`text`),
    or a time-filling header, page number FF (`filler`) -/
inductive Terminator (sR : St) (m page : Nat) (hq : Packet) : Prop
  | text (u : Tx) (hu : IsHeader hq u.m u.page u.s12 u.s34 u.fl) (hm : u.m = m) (hne : u.page ≠ page)
      (hdec : decimalPage u.page)
      (htext : TextPage (terminatePage (tick sR) m u.pgno u.page).1.net u.pgno u.page
        (u.prev (terminatePage (tick sR) m u.pgno u.page).1)) : Terminator sR m page hq
  | filler (hm : m < 8) (ha : a16 hq 0 = some m) (hp : a16 hq 2 = some 0xFF) : Terminator sR m page hq

/-- **single_page_roundtrip**.  From ANY decoder state with a TTX_PAGE handler and no channel-switch
countdown: header of page P (any magazine, any decimal page number, any sub-code and control bits with
C11 = 0, erase flag set or not), then any list of row packets 1..25 of that magazine (any subset, any
order, repeats allowed) with odd-parity bytes, then a terminating header of the same magazine with another
page number.  `s1` is the state after P's header closed whatever page was in progress before, `t.prev s1`
the version of P cached then (arbitrary, or none; not looked at when the erase flag C4 is set).  Unless the
decoder signalled a channel switch: the cache then holds, first in its chain for P's page number, an entry
`q` = text page with P's page number, national option and flags whose rows are
`mergeRows (rows of the previous version, else blanks; row 0 = P's header) (rows received)`, filed under
the sub-code chosen by cache.c's key rule; a wildcard sub-code look-up returns it, so does a look-up with
its own sub-code; and the TTX_PAGE events of the whole sequence are those of closing the earlier page
followed by exactly one, carrying P's page number and sub-code. -/
theorem single_page_roundtrip (s : St) (hlen : s.raw.length = 8) (hmask : s.mask = true) (hcd : s.chswcd = 0)
    (t : Tx) (hdr : Packet) (hh : IsHeader hdr t.m t.page t.s12 t.s34 t.fl) (hdec : decimalPage t.page)
    (hsmall : t.s12 < 256 ∧ t.s34 < 256 ∧ t.fl < 256) (hpar : t.fl &&& 0x10 = 0)
    (s1 : St) (ev1 : List Event) (ht : terminatePage (tick s) t.m t.pgno t.page = (s1, ev1))
    (htext : TextPage s1.net t.pgno t.page (t.prev s1)) (hL : (s1.rp t.m).lopRaw.length = 26)
    (rp : List RowPkt) (hrp : ∀ x ∈ rp, IsPacket x.2 t.m x.1 ∧ 1 ≤ x.1 ∧ x.1 ≤ 25 ∧ GoodRow (payload x.2))
    (hq : Packet) (hterm : Terminator (run s (hdr :: rp.map (·.2))).1 t.m t.page hq)
    (hnosw : Event.chsw ∉ (run s (hdr :: rp.map (·.2) ++ [hq])).2) :
    ∃ q pt, Fetched q t s1 hdr (rowsOf rp) pt
      ∧ (pt = PT_CLOCK → (s1.net.getStat t.pgno).pageType = PT_CLOCK)
      ∧ (∀ subno mask, subno = q.subno ∨ subno = ANY_SUBNO →
          (cacheGet (run s (hdr :: rp.map (·.2) ++ [hq])).1.net.cache t.pgno subno mask).map (·.1) = some q)
      ∧ ttxPages (run s (hdr :: rp.map (·.2) ++ [hq])).2 = ttxPages ev1 ++ [(t.pgno, t.subno)] := by
  have hrp' : ∀ x ∈ rp, IsPacket x.2 t.m x.1 ∧ 1 ≤ x.1 ∧ x.1 ≤ 25 := fun x hx => ⟨(hrp x hx).1, (hrp x hx).2.1, (hrp x hx).2.2.1⟩
  obtain ⟨ha, hev, hch, hmask1, hcd1⟩ := page_assembled s hcd hmask t hdr hh hdec s1 ev1 ht hlen htext rp hrp'
  have hrows : ∀ r ∈ rowsOf rp, 1 ≤ r.1 ∧ r.1 ≤ 25 ∧ GoodRow r.2 := by
    intro r hr
    unfold rowsOf at hr
    rw [List.mem_map] at hr
    obtain ⟨x, hx, rfl⟩ := hr
    exact ⟨(hrp x hx).2.1, (hrp x hx).2.2.1, (hrp x hx).2.2.2⟩
  rw [show hdr :: rp.map (·.2) ++ [hq] = (hdr :: rp.map (·.2)) ++ [hq] from rfl, run_append] at hnosw ⊢
  generalize hsR : (run s (hdr :: rp.map (·.2))).1 = sR at *
  generalize hevR : (run s (hdr :: rp.map (·.2))).2 = evR at *
  simp only [run_cons, run_nil, List.append_nil] at hnosw ⊢
  have hcdR : sR.chswcd = 0 := by rw [ha.cd]; exact hcd1
  have hmaskR : sR.mask = true := by rw [ha.mask]; exact hmask1
  have hvp := (pgno_facts t.m t.page hh.mag hdec).1
  rw [step_eq_decode sR hq hcdR] at hnosw ⊢
  simp only [] at hnosw ⊢
  have hstat : sR.net.stat = s1.net.stat := by
    rw [ha.net]; unfold lookupPrev Net.get
    repeat' split
    all_goals rfl
  cases hterm with
  | text u hu hum hune hudec hutext =>
    obtain ⟨um, upage, us12, us34, ufl⟩ := u
    simp only [] at hu hum hune hudec
    subst hum
    obtain ⟨ho, he, hc⟩ := decode_header_text (tick sR) hq t.m upage us12 us34 ufl hu hudec hmaskR
      (terminatePage (tick sR) t.m (mag8Of t.m * 256 + upage) upage).1
      (terminatePage (tick sR) t.m (mag8Of t.m * 256 + upage) upage).2 rfl
      ((terminatePage_glob (tick sR) t.m (mag8Of t.m * 256 + upage) upage).len.trans ha.len) hutext
    have hn : Event.chsw ∉ (terminatePage (tick sR) t.m (mag8Of t.m * 256 + upage) upage).2 := by
      intro h; apply hnosw; rw [List.mem_append]; right; exact hc.mpr h
    obtain ⟨q, rest, pt, h1, h2, h3, h4⟩ := page_stored sR s1 t hdr (rowsOf rp) ha hmask1 hcd1 hh.mag hdec hsmall hpar hL
      hrows (mag8Of t.m * 256 + upage) upage hune hn
    refine ⟨q, pt, h2, ?_, ?_, ?_⟩
    · intro hpt; have := h3 hpt; unfold Net.getStat at this ⊢; rw [hstat] at this; exact this
    · intro subno mask hs
      apply cacheGet_of_find _ _ _ _ _ hvp
      rw [ho.net]
      have hpq : mag8Of t.m * 256 + upage ≠ mag8Of t.m * 256 + t.page := by omega
      rw [lookupPrev_find _ (mag8Of t.m * 256 + upage) _ _ (mag8Of t.m * 256 + t.page) _ _ hpq, h1,
        show mag8Of t.m * 256 + t.page = q.pgno from h2.pgno.symm]
      exact find_head q rest subno mask hs
    · rw [ttxPages_append, hev, he, h4]
  | filler hm8 haQ hpQ =>
    have h0 : t.m >>> 3 = 0 := (addr_split t.m hm8 0 (by omega)).2
    have h7 : t.m &&& 7 = t.m := (addr_split t.m hm8 0 (by omega)).1
    have hrej : hdrRejected 0xFF ((view Kind.hdr hq).g16i 2) ((view Kind.hdr hq).g16i 4) ((view Kind.hdr hq).g16i 6) = true := by
      unfold hdrRejected; simp
    have hd := decode_hdr_rejected (tick sR) hq t.m 0xFF haQ h0 hmaskR hpQ hrej
    simp only [h7] at hd
    rw [hd] at hnosw ⊢
    simp only [] at hnosw ⊢
    have hn : Event.chsw ∉ (terminatePage (tick sR) t.m (mag8Of t.m * 256 + 0xFF) 0xFF).2 := by
      intro h; apply hnosw; rw [List.mem_append]; right; exact h
    have hne : (0xFF : Nat) ≠ t.page := by have := hdec.1; omega
    obtain ⟨q, rest, pt, h1, h2, h3, h4⟩ := page_stored sR s1 t hdr (rowsOf rp) ha hmask1 hcd1 hh.mag hdec hsmall hpar hL
      hrows (mag8Of t.m * 256 + 0xFF) 0xFF hne hn
    refine ⟨q, pt, h2, ?_, ?_, ?_⟩
    · intro hpt; have := h3 hpt; unfold Net.getStat at this ⊢; rw [hstat] at this; exact this
    · intro subno mask hs
      apply cacheGet_of_find _ _ _ _ _ hvp
      have : (hdrAbandon (terminatePage (tick sR) t.m (mag8Of t.m * 256 + 0xFF) 0xFF).1 t.m
          (mag8Of t.m * 256 + 0xFF)).net = (terminatePage (tick sR) t.m (mag8Of t.m * 256 + 0xFF) 0xFF).1.net := rfl
      rw [show (if (t.m == 0) = true then 8 else t.m) = mag8Of t.m from rfl, this, h1,
        show mag8Of t.m * 256 + t.page = q.pgno from h2.pgno.symm]
      exact find_head q rest subno mask hs
    · rw [ttxPages_append, hev]
      rw [show (if (t.m == 0) = true then 8 else t.m) = mag8Of t.m from rfl, h4]


/-- **page_roundtrip_parallel** (one magazine stream): under the hypotheses of `single_page_roundtrip`,
`vbi_fetch_vt_page` (model `C02.fetch`: cache look-up, LOP check, Level 1 formatting) of P's page number with
the wildcard sub-code - or with the sub-code the page was filed under - succeeds right after the terminating
header and shows, in every cell of rows 0..24, `L1Spec` (EN 300 706 12.2, libzvbi's held-mosaic reading) of
the merged rows: characters through the designated national subset, colours, flash, conceal, size, opacity. -/
theorem page_roundtrip_parallel (s : St) (hlen : s.raw.length = 8) (hmask : s.mask = true) (hcd : s.chswcd = 0)
    (t : Tx) (hdr : Packet) (hh : IsHeader hdr t.m t.page t.s12 t.s34 t.fl) (hdec : decimalPage t.page)
    (hsmall : t.s12 < 256 ∧ t.s34 < 256 ∧ t.fl < 256) (hpar : t.fl &&& 0x10 = 0)
    (s1 : St) (ev1 : List Event) (ht : terminatePage (tick s) t.m t.pgno t.page = (s1, ev1))
    (htext : TextPage s1.net t.pgno t.page (t.prev s1)) (hL : (s1.rp t.m).lopRaw.length = 26)
    (rp : List RowPkt) (hrp : ∀ x ∈ rp, IsPacket x.2 t.m x.1 ∧ 1 ≤ x.1 ∧ x.1 ≤ 25 ∧ GoodRow (payload x.2))
    (hq : Packet) (hterm : Terminator (run s (hdr :: rp.map (·.2))).1 t.m t.page hq)
    (hnosw : Event.chsw ∉ (run s (hdr :: rp.map (·.2) ++ [hq])).2) (region : Nat) :
    ∃ q pt, Fetched q t s1 hdr (rowsOf rp) pt ∧
      ∀ subno, subno = q.subno ∨ subno = ANY_SUBNO →
        ∃ cells, C02.fetch (run s (hdr :: rp.map (·.2) ++ [hq])).1 region t.pgno subno = some (t.pgno, q.subno, cells)
          ∧ ∀ row col, row < 25 → col < 40 →
              cellAt cells row col = L1Spec.cell .lib (C02.pageInOf region q) row col := by
  obtain ⟨q, pt, hf, _, hget, _⟩ := single_page_roundtrip s hlen hmask hcd t hdr hh hdec hsmall hpar s1 ev1 ht htext hL
    rp hrp hq hterm hnosw
  refine ⟨q, pt, hf, ?_⟩
  intro subno hs
  have hg := hget subno 0xFFFFFFFF hs
  refine ⟨format (C02.pageInOf region q), ?_, fun row col hr hc => format_cellAt _ row col hr hc⟩
  unfold C02.fetch C02.fetchCache C02.cacheOf
  cases hc : cacheGet (run s (hdr :: rp.map (·.2) ++ [hq])).1.net.cache t.pgno subno 0xFFFFFFFF with
  | none => rw [hc] at hg; cases hg
  | some r =>
    obtain ⟨q', c'⟩ := r
    rw [hc] at hg
    simp only [Option.map_some, Option.some.injEq] at hg
    subst hg
    simp only [hf.fn, true_or, if_true, hf.pgno]

/-- the rows a fetch shows for a row that was received (shape hypotheses of the previous version):
    with 26 rows in the base, row `n` of the merged page is the LAST packet `n` received -/
theorem merged_row_received (base : List (List Nat)) (rows : List (Nat × List Nat)) (n : Nat) (hn : n < base.length)
    (h : rows.any (fun r => r.1 == n) = true) :
    ∃ x, (mergeRows base rows)[n]? = some x ∧ (n, x) ∈ rows := by
  rw [mergeRows_getElem?, if_pos hn]
  have hsome : (lastRowFrom base[n]? rows n).isSome = true := by
    rw [lastRowFrom_none_isSome, h]; simp
  obtain ⟨x, hx⟩ := Option.isSome_iff_exists.mp hsome
  refine ⟨x, hx, ?_⟩
  rw [lastRowFrom_indep rows n _ none h] at hx
  rcases lastRowFrom_mem rows n none x hx with h' | h'
  · cases h'
  · exact h'

/-- ... and a row that was not received keeps the previous content (or the blank of an erased page) -/
theorem merged_row_kept (base : List (List Nat)) (rows : List (Nat × List Nat)) (n : Nat)
    (h : rows.any (fun r => r.1 == n) = false) : (mergeRows base rows)[n]? = base[n]? := by
  rw [mergeRows_getElem?, lastRowFrom_absent _ _ _ h]
  by_cases hn : n < base.length
  · rw [if_pos hn]
  · rw [if_neg hn]; simp at hn ⊢; omega

/-- (ii) `consistent_header`: a header that agrees with the decoder's reference header outside the page
number (`HeaderAgrees`: first occurrence of the page number at column `off`, all other compared columns
8..31 equal and odd parity) makes `same_header` return TRUE, so `store_lop` cannot take the
channel-switch branch. -/
theorem consistent_header_same (pgno : Nat) (cur ref : List Nat) (off : Nat) (h : HeaderAgrees pgno cur ref off) :
    sameHeader pgno cur ref = (1, off) := sameHeader_agrees pgno cur ref off h

/-! ### non-vacuity: a concrete three-row page through the decoder model -/

/-- header of page (magazine 1, `page`), sub-code 0, no control bits, blank header text -/
def exHdr (page : Nat) : Packet :=
  C02.addrBytes 1 0 ++ [ham8 (page &&& 15), ham8 (page >>> 4), ham8 0, ham8 0, ham8 0, ham8 0, ham8 0, ham8 0]
    ++ List.replicate 32 0x20
def exRow (k b : Nat) : Packet := C02.addrBytes 1 k ++ List.replicate 40 b
/-- page 123: rows 1, 3, 2 (in this order), terminated by the header of page 124 -/
def exStream : List Packet := [exHdr 0x23, exRow 1 0xC1, exRow 3 0xC2, exRow 2 0x43, exHdr 0x24]

/-- the hypotheses of `single_page_roundtrip` are met by these packets ... -/
example : IsHeader (exHdr 0x23) 1 0x23 0 0 0 ∧ decimalPage 0x23 ∧ IsPacket (exRow 3 0xC2) 1 3
    ∧ GoodRow (payload (exRow 3 0xC2)) ∧ IsHeader (exHdr 0x24) 1 0x24 0 0 0 := by
  refine ⟨⟨by decide, by decide +kernel, by decide +kernel, by decide +kernel, by decide +kernel, by decide +kernel⟩,
    ⟨by decide, by decide⟩, ⟨by decide, by decide, by decide +kernel⟩, ?_, ⟨by decide, by decide +kernel, by decide +kernel,
    by decide +kernel, by decide +kernel, by decide +kernel⟩⟩
  intro b hb
  have : payload (exRow 3 0xC2) = List.replicate 40 0xC2 := by decide +kernel
  rw [this] at hb
  rw [List.eq_of_mem_replicate hb]
  decide +kernel

/-- ... and from a fresh decoder the conclusion is what the model computes: page 123 is fetched with rows
1 and 2 as sent, the row never sent blank, function LOP, and exactly one TTX_PAGE event (123, 0). -/
example : (cacheGet (run (init.enable true) exStream).1.net.cache 0x123 ANY_SUBNO 0).map
      (fun r => (r.1.function, r.1.raw.getD 1 [], r.1.raw.getD 2 [], r.1.raw.getD 4 []))
    = some (FN_LOP, List.replicate 40 0xC1, List.replicate 40 0x43, blankRow)
  ∧ ttxPages (run (init.enable true) exStream).2 = [(0x123, 0)] := by decide +kernel

example : mergeRows [[0], [1], [2]] [(1, [7]), (2, [8]), (1, [9])] = [[0], [9], [8]] := by decide

/-! `interleaved_page_roundtrip` (packets of OTHER magazines interleaved anywhere between P's header and the terminating
header) is proved in `Props/C02Interleave.lean`: `magazine_isolation` is FALSE without exceptions on the model and on
packet.c - (E1) a foreign header with an uncorrectable page number and (E2) a foreign X/26 on a page with function
(G)DRCS/BTT/AIT/MPT/MPT-EX call `vbi_teletext_desync` for all magazines, (E3) a foreign page whose header fails the
rolling-header test empties the cache, (E4) a foreign header carrying C11 sends the next termination to the wrong slot -
so the theorem is stated for foreign packets that are `Ttx.Benign` (exactly E1-E4 excluded, each proved real there). -/

/-- Serial mode (C11 set): the page is terminated by the next header of ANY magazine with another page number
(commit 53b7b09: also when the page carries the erase flag).  Same conclusion as `single_page_roundtrip`; the
terminating header may belong to another magazine.  PROVED: `Props/C02Serial.lean`, `page_roundtrip_serial`. -/
def page_roundtrip_serial_full : Prop :=
  ∀ (s : St) (t : Tx) (hdr hq : Packet) (rp : List RowPkt) (s1 : St) (ev1 : List Event) (u : Tx),
    s.raw.length = 8 → s.mask = true → s.chswcd = 0 →
    IsHeader hdr t.m t.page t.s12 t.s34 t.fl → decimalPage t.page →
    (t.s12 < 256 ∧ t.s34 < 256 ∧ t.fl < 256) → t.fl &&& 0x10 = 0x10 →
    terminatePage (tick s) t.m t.pgno t.page = (s1, ev1) →
    TextPage s1.net t.pgno t.page (t.prev s1) → (s1.rp t.m).lopRaw.length = 26 →
    (∀ x ∈ rp, IsPacket x.2 t.m x.1 ∧ 1 ≤ x.1 ∧ x.1 ≤ 25 ∧ GoodRow (payload x.2)) →
    IsHeader hq u.m u.page u.s12 u.s34 u.fl → u.pgno ≠ t.pgno →
    Event.chsw ∉ (run s (hdr :: rp.map (·.2) ++ [hq])).2 →
    ∃ q rest pt, (terminatePage (tick (run s (hdr :: rp.map (·.2))).1) u.m u.pgno u.page).1.net.cache = q :: rest
      ∧ Fetched q t s1 hdr (rowsOf rp) pt

end Zvbi.Props.C02Roundtrip
