import ZvbiModel.Xds.SepRound3
import ZvbiModel.Xds.DecLemmas2
/-!
# C09, round 3: frame routing, the sender's view of an interruption, the parity-error branch, and the
# service decoder `xds_decoder` as a whole (`Dec`)

Property theorems only; lemmas are in `ZvbiModel/Xds/SepRound3.lean`, `DecLemmas.lean`, `DecLemmas2.lean`.
Models: `Frame.feedFrame` = `vbi_xds_demux_feed_frame` (xds_demux.c), `Sep.*` = caption.c separator
(Model.lean), `Dec.step` = one call of `xds_decoder` (Dec.lean; complete: every packet type, every
field, every event), `Dec.sysRun` = line 284 of `vbi_decode_caption` with `xds_decoder` behind it.
The four constants `Dec.capLangClearedFirst`, `Dec.aspectAlwaysCurrent`, `Dec.flushSendsOldAspect`,
`Dec.flushAspectAnyClass` describe the control flow of the current tree; `translate/gen_xdsdec.py` reads
them from src/caption.c on every run (`Generated/XdsDecFlags.lean`), every theorem below holds for either
value of each.
-/
namespace Zvbi.Props.C09Sep
open Zvbi.Xds Zvbi.Hamm Zvbi.Gen.Xds

/-! ## vbi_xds_demux_feed_frame -/

/-- feed_frame_routes_field2_only: for every frame (any number of lines, any ids, line numbers and
    bytes) and every demultiplexer state, `vbi_xds_demux_feed_frame` is `vbi_xds_demux_feed` over
    exactly the lines whose id is `VBI_SLICED_CAPTION_525_F2` or `VBI_SLICED_CAPTION_525` and whose line
    number is 284 or 0, in frame order, stopping behind the first pair that is refused: same final
    state, same deliveries, and the return value is FALSE iff a pair was refused. -/
theorem feed_frame_routes_field2_only (rk : Bool) (s : Demux.State) (fr : List Frame.Sliced) :
    Frame.feedFrame rk s fr = Frame.feedUntilRefused rk s (Frame.field2 fr) :=
  Frame.feedFrame_eq rk fr s

/-- what is routed: never a line tagged field 1 (`VBI_SLICED_CAPTION_525_F1`), never another service or
    a set of ids, never another line number -/
theorem feed_frame_selects (sl : Frame.Sliced) :
    Frame.selected sl = true ↔ (sl.id = Frame.id525 ∨ sl.id = Frame.idF2) ∧ (sl.line = 284 ∨ sl.line = 0) := by
  simp [Frame.selected]

example : Frame.field2 [⟨0x20, 0, (0x94, 0x20)⟩, ⟨0x40, 284, (0x01, 0x83)⟩, ⟨0x42, 284, (1, 1)⟩, ⟨0x60, 21, (2, 2)⟩,
    ⟨0x60, 0, (0xC1, 0xC2)⟩] = [(0x01, 0x83), (0xC1, 0xC2)] := by decide

/-- return value semantics: if every field-2 pair of the frame has correct parity the call returns TRUE
    and is `Demux.run` over those pairs; otherwise it returns FALSE, having fed the pairs up to and
    including the first unreadable one and none behind it. -/
theorem feed_frame_return_value (rk : Bool) (s : Demux.State) (fr : List Frame.Sliced) :
    ((∀ b ∈ Frame.field2 fr, (unpar8 b.1).isSome ∧ (unpar8 b.2).isSome) →
      Frame.feedFrame rk s fr = ((Demux.run rk s (Frame.field2 fr)).1, true, (Demux.run rk s (Frame.field2 fr)).2)) ∧
    (∀ pre bad post, Frame.field2 fr = pre ++ bad :: post →
      (∀ b ∈ pre, (unpar8 b.1).isSome ∧ (unpar8 b.2).isSome) →
      ((unpar8 bad.1).isSome && (unpar8 bad.2).isSome) = false →
      (Frame.feedFrame rk s fr).1 = (Demux.run rk s (pre ++ [bad])).1 ∧ (Frame.feedFrame rk s fr).2.1 = false ∧
      (Frame.feedFrame rk s fr).2.2 = (Demux.run rk s (pre ++ [bad])).2) := by
  constructor
  · intro h; rw [Frame.feedFrame_eq]; exact Frame.feedUntilRefused_readable rk _ s h
  · intro pre bad post e h1 h2; rw [Frame.feedFrame_eq, e]; exact Frame.feedUntilRefused_refused rk pre bad post s h1 h2

/-- a frame with field-1 caption, a field-2 start pair, a teletext line: the title packet of the
    following frames is delivered, the field-1 bytes are not fed -/
example : (Frame.feedFrame true Demux.init [⟨0x20, 21, (0x94, 0x2C)⟩, ⟨0x40, 284, (0x01, 0x83)⟩, ⟨0x2, 7, (0, 0)⟩]).1.curr
    = some 3 ∧
    (Frame.feedFrame true (Frame.feedFrame true (Frame.feedFrame true Demux.init [⟨0x20, 0, (0xC1, 0xC2)⟩, ⟨0x40, 284, (0x01, 0x83)⟩]).1
      [⟨0x20, 0, (0x94, 0x2C)⟩, ⟨0x60, 0, (0xC1, 0xC2)⟩]).1 [⟨0x40, 0, (0x8F, 0xEA)⟩]).2.2.map (·.pkt)
    = [some ⟨0, 3, [0x41, 0x42]⟩] := by decide +kernel

/-! ## caption.c: interleaving as the sender writes it, the parity-error branch -/

/-- sep_interleaving_independent, sender's form (caption.c, either control flow, every reachable state):
    a packet with class < 4, type < 0x18 is interrupted any number of times; each interruption is any
    sequence of items a conforming encoder can insert - NUL pairs, caption runs (control code
    0x10..0x1F and text), pieces of other XDS packets (start or continue pair of another buffer other
    than the network name 2/1, payload pairs, with or without their end pair) - that starts with a
    caption run or a packet piece; after each interruption the packet is re-opened by its continue pair.
    Then it is handed to `xds_decoder` exactly as if sent in one piece: once, intact, iff its sum is 0.
    The conditions `Sep.ForeignBlock` asks for (no end pair in caption context ...) follow from the
    item grammar (`Sep.foreignBlock_of_items`), they are not hypotheses here. -/
theorem sep_interleaving_independent_sender (ec : Bool) (hist : List (Nat × Nat)) (p : Packet) (hv : p.Valid)
    (hacc : Sep.accepted p.cls p.sub) (ck : Nat) (hck : ck < 128)
    (chunk0 : List Pair) (segs : List ((Sep.Item × List Sep.Item) × List Pair))
    (hch : chunksOf chunk0 (segs.map fun sg => ((sg.1.1 :: sg.1.2).flatMap Sep.Item.pairs, sg.2)) = pairsOf p.payload)
    (hitems : ∀ sg ∈ segs, sg.1.1 ≠ Sep.Item.nul ∧ (∀ it ∈ sg.1.1 :: sg.1.2, it.ok (Sep.slotOf p.cls p.sub)) ∧
      ∀ q ∈ (sg.1.1 :: sg.1.2).flatMap Sep.Item.pairs, q.1 < 128 ∧ q.2 < 128) :
    Sep.forSlot (Sep.slotOf p.cls p.sub)
      (Sep.run ec (Sep.run ec Sep.init hist).1
        ((interleaved7 p ck chunk0 (segs.map fun sg => ((sg.1.1 :: sg.1.2).flatMap Sep.Item.pairs, sg.2))).map parPair)).2 =
      if (bodySum p + ck) % 128 = 0 then [p.toPkt] else [] := by
  have hb : ∀ sg ∈ segs.map (fun sg => ((sg.1.1 :: sg.1.2).flatMap Sep.Item.pairs, sg.2)),
      Sep.ForeignBlock (Sep.slotOf p.cls p.sub) sg.1 := by
    intro sg hsg
    simp only [List.mem_map] at hsg
    obtain ⟨sg0, h0, rfl⟩ := hsg
    obtain ⟨a, b, c⟩ := hitems sg0 h0
    exact Sep.foreignBlock_of_items _ sg0.1.1 sg0.1.2 a b c
  have hs := (Sep.inv_run ec hist (Sep.inv_init ec)).1
  have hw := Demux.wire7_lt p hv ck hck
  have hpay : ∀ q ∈ pairsOf p.payload, q.1 < 128 ∧ q.2 < 128 := by
    intro q hq; apply hw; simp [wire7, hq]
  have hlt : ∀ q ∈ interleaved7 p ck chunk0 (segs.map fun sg => ((sg.1.1 :: sg.1.2).flatMap Sep.Item.pairs, sg.2)),
      q.1 < 128 ∧ q.2 < 128 := by
    intro q hq
    simp only [interleaved7, List.mem_cons, List.mem_append, List.mem_flatMap, List.not_mem_nil, or_false,
      List.cons_append] at hq
    rcases hq with rfl | (hq | ⟨sg, hsg, hq⟩) | rfl
    · apply hw; simp [wire7]
    · apply hpay; rw [← hch]; simp [chunksOf, hq]
    · rcases hq with hq | rfl | hq
      · exact (hb sg hsg).2.2 q hq
      · have := hv.cls_lt; have := hv.sub_lt; simp only [contPair]; omega
      · apply hpay; rw [← hch]; simp only [chunksOf, List.mem_append, List.mem_flatMap]
        exact Or.inr ⟨sg, hsg, hq⟩
    · apply hw; simp [wire7]
  rw [Sep.run_map_parPair ec _ _ hlt]
  exact Sep.deliver_interleaved7 ec hs p hv hacc ck chunk0 _ hch hb

/-- the delivery of the packet does not depend on *what* was merged in between: two transmissions that
    cut the packet at the same places but fill the gaps with different conforming material deliver the
    same thing for this packet's (class, type), in every reachable state -/
theorem sep_interleaving_fill_irrelevant (ec : Bool) (hist : List (Nat × Nat)) (p : Packet) (hv : p.Valid)
    (hacc : Sep.accepted p.cls p.sub) (ck : Nat) (hck : ck < 128) (chunk0 : List Pair)
    (segsA segsB : List (List Pair × List Pair)) (hsame : segsA.map (·.2) = segsB.map (·.2))
    (hch : chunksOf chunk0 segsA = pairsOf p.payload)
    (hA : ∀ sg ∈ segsA, Sep.ForeignBlock (Sep.slotOf p.cls p.sub) sg.1)
    (hB : ∀ sg ∈ segsB, Sep.ForeignBlock (Sep.slotOf p.cls p.sub) sg.1) :
    Sep.forSlot (Sep.slotOf p.cls p.sub)
      (Sep.run ec (Sep.run ec Sep.init hist).1 ((interleaved7 p ck chunk0 segsA).map parPair)).2 =
    Sep.forSlot (Sep.slotOf p.cls p.sub)
      (Sep.run ec (Sep.run ec Sep.init hist).1 ((interleaved7 p ck chunk0 segsB).map parPair)).2 := by
  have hchB : chunksOf chunk0 segsB = pairsOf p.payload := by
    rw [← hch]
    simp only [chunksOf]
    have e : ∀ l : List (List Pair × List Pair), l.flatMap (·.2) = (l.map (·.2)).flatten := by
      intro l; induction l with
      | nil => rfl
      | cons a l ih => simp [ih]
    rw [e, e, hsame]
  have key : ∀ segs, chunksOf chunk0 segs = pairsOf p.payload →
      (∀ sg ∈ segs, Sep.ForeignBlock (Sep.slotOf p.cls p.sub) sg.1) →
      Sep.forSlot (Sep.slotOf p.cls p.sub)
        (Sep.run ec (Sep.run ec Sep.init hist).1 ((interleaved7 p ck chunk0 segs).map parPair)).2 =
        if (bodySum p + ck) % 128 = 0 then [p.toPkt] else [] := by
    intro segs h1 h2
    have hs := (Sep.inv_run ec hist (Sep.inv_init ec)).1
    have hw := Demux.wire7_lt p hv ck hck
    have hpay : ∀ q ∈ pairsOf p.payload, q.1 < 128 ∧ q.2 < 128 := by
      intro q hq; apply hw; simp [wire7, hq]
    have hlt : ∀ q ∈ interleaved7 p ck chunk0 segs, q.1 < 128 ∧ q.2 < 128 := by
      intro q hq
      simp only [interleaved7, List.mem_cons, List.mem_append, List.mem_flatMap, List.not_mem_nil, or_false,
        List.cons_append] at hq
      rcases hq with rfl | (hq | ⟨sg, hsg, hq⟩) | rfl
      · apply hw; simp [wire7]
      · apply hpay; rw [← h1]; simp [chunksOf, hq]
      · rcases hq with hq | rfl | hq
        · exact (h2 sg hsg).2.2 q hq
        · have := hv.cls_lt; have := hv.sub_lt; simp only [contPair]; omega
        · apply hpay; rw [← h1]; simp only [chunksOf, List.mem_append, List.mem_flatMap]
          exact Or.inr ⟨sg, hsg, hq⟩
      · apply hw; simp [wire7]
    rw [Sep.run_map_parPair ec _ _ hlt]
    exact Sep.deliver_interleaved7 ec hs p hv hacc ck chunk0 segs h1 h2
  rw [key segsA hch hA, key segsB hchB hB]

/-- the item grammar is inhabited by what a real encoder sends: a caption run, a complete packet 0/2,
    a NUL pair - and these items satisfy `Item.ok` for the title packet's buffer -/
example : ∀ it ∈ [Sep.Item.caption (0x14, 0x2C) [(0x54, 0x56)], Sep.Item.packet (1, 2) [(0x58, 0x59)] (some 0x3C), Sep.Item.nul],
    it.ok (Sep.slotOf 0 3) := by
  intro it hit
  simp only [List.mem_cons, List.not_mem_nil, or_false] at hit
  rcases hit with rfl | rfl | rfl
  · exact ⟨by decide, by decide, by intro q hq; simp at hq; subst hq; decide⟩
  · refine ⟨by decide, by decide, by decide, by decide, by intro q hq; simp at hq; subst hq; decide⟩
  · trivial

/-- sep_parity_error_not_delivered, what exactly happens (caption.c since commit 34b85fe): while an XDS
    packet is being received (XDS mode on), a pair that reaches the parity check with a damaged byte
    drops the current packet - its buffer is emptied (`count = 0, chksum = 0`), no packet is current
    afterwards, every other buffer and the network state are untouched, nothing is delivered, no error
    site.  (That nothing is delivered later either is `C09.sep_parity_error_not_delivered`.) -/
theorem sep_parity_error_drops_current (s : Sep.State) (hx : s.xds = true) (bad : Nat × Nat) (hbad : Sep.Damaged bad) :
    (Sep.step true s bad).1.slots = resetAt s.slots s.curr ∧ (Sep.step true s bad).1.curr = none ∧
    (Sep.step true s bad).1.net = s.net ∧ (Sep.step true s bad).2 = {} :=
  Sep.damaged_drops_current hx bad hbad

example : (Sep.run true Sep.init [(0x01, 0x83), (0xC1, 0xC2)]).1.xds = true ∧
    ((Sep.run true Sep.init [(0x01, 0x83), (0xC1, 0xC2), (0x43, 0x36)]).1.slots.getD 3 (Slot.zero 32)).count = 0 := by
  decide +kernel

/-! ## xds_decoder (`Dec`) -/

/-- never_oob for the service decoder, all histories: for every sequence of byte pairs on line 284 of a
    fresh decoder (either separator control flow), no call of `xds_decoder` reports an error site: its
    `assert (length > 0 && length <= 32)` holds and every index into `title[64]`, `description[8][33]`,
    `type_id[33]`, `name[64]`, `call[40]` is inside its array. -/
theorem dec_never_oob_all_histories (ec : Bool) (hist : List (Nat × Nat)) :
    ∀ o ∈ (Dec.sysRun ec (Sep.init, Dec.init) hist).2, o.2.err = none :=
  (Dec.sysRun_wf ec hist (Sep.inv_init ec) Dec.wf_init).2.2

example : (Dec.sysRun true (Sep.init, Dec.init) [(0x01, 0x83), (0xC1, 0xC2), (0x8F, 0xEA)]).2.map (·.2.err) =
    [none, none, none] := by decide +kernel

/-- every index is in range for every packet length 0..32, every class and type, every content, in every
    state whose arrays have their C extents (all reachable states: `Dec.sysRun_wf`): the only error a
    call can report is the length assertion, and only for length 0. -/
theorem dec_index_in_range_every_length (v : Dec.Info) (hv : Dec.Wf v) (p : Pkt) (nx : Nat) (h32 : p.data.length ≤ 32) :
    (Dec.step v p nx).2.err = none ∨ (p.data.length = 0 ∧ (Dec.step v p nx).2.err = some "dec.assert.length") := by
  by_cases h0 : p.data.length = 0
  · right; rw [Dec.step_assert v p nx (Or.inl h0)]; exact ⟨h0, rfl⟩
  · left; exact (Dec.step_wf hv p nx (by omega) h32).2

example : Dec.Wf Dec.init := Dec.wf_init

/-- prog_info_equals_packets, the text fields (any reachable state, any packet of 1..32 bytes): after a
    programme name, programme description, network name or call letters packet the array of its own
    field holds exactly the packet's text (`xds_strfu`: leading blanks dropped) as C string. -/
theorem dec_text_fields_equal_packet (v : Dec.Info) (hv : Dec.Wf v) (d : List Nat) (nx : Nat) (h1 : 1 ≤ d.length)
    (h32 : d.length ≤ 32) :
    (∀ cls, cls ≤ 1 → 2 ≤ d.length → Dec.cstr ((Dec.step v ⟨cls, 3, d⟩ nx).1.pi cls).title = Dec.text d) ∧
    (∀ cls t, cls ≤ 1 → 0x10 ≤ t ∧ t ≤ 0x17 →
      Dec.cstr (((Dec.step v ⟨cls, t, d⟩ nx).1.pi cls).description.getD (t &&& 7) []) = Dec.text d) ∧
    Dec.cstr (Dec.step v ⟨2, 1, d⟩ nx).1.net.name = Dec.text d ∧
    Dec.cstr (Dec.step v ⟨2, 2, d⟩ nx).1.net.call = Dec.text d := by
  have hn : ¬(d.length = 0 ∨ d.length > 32) := by omega
  refine ⟨?_, ?_, ?_, ?_⟩
  · intro cls hc h2
    simp only [Dec.step, hn, if_false, hc, if_true]
    exact Dec.feed_title hv cls d nx h2 h32
  · intro cls t hc ht
    simp only [Dec.step, hn, if_false, hc, if_true]
    exact Dec.feed_description hv cls t d nx ht h32
  · simp only [Dec.step, hn, if_false, show ¬((2 : Nat) ≤ 1) by omega, if_true]
    exact Dec.netFeed_name hv d nx h32
  · simp only [Dec.step, hn, if_false, show ¬((2 : Nat) ≤ 1) by omega, if_true]
    exact Dec.netFeed_call hv d nx h32

example : Dec.text [0x20, 0x20, 0x41, 0x10, 0x42] = [0x41, 0x20, 0x42] ∧
    Dec.cstr ((Dec.step Dec.init ⟨0, 3, [0x20, 0x41, 0x42]⟩ 0).1.pi 0).title = [0x41, 0x42] := by decide +kernel

/-- "an event is raised exactly on the repeat of unchanged content": the epilogue of the current / future
    branch sends PROG_INFO - with the stored information of that class - exactly when the packet changed
    nothing and the bit of its type is pending in `info_cycle`, and then clears all pending bits; a change
    sets the bit and sends nothing.  Instance for the simplest field, CGMS-A (type 8), in any state: a
    value different from the stored one raises nothing the first time, exactly one PROG_INFO carrying it
    the second time, nothing the third time. -/
theorem dec_announce_on_repeat (v : Dec.Info) (cls b nx : Nat) (hne : (v.pi cls).cgms ≠ ((b &&& 63 : Nat) : Int)) :
    let p : Pkt := ⟨cls, 8, [b]⟩
    let v1 := (Dec.feed v cls 8 [b] nx).1
    let v2 := (Dec.feed v1 cls 8 [b] nx).1
    (Dec.feed v cls 8 [b] nx).2.evs = [] ∧
    (∃ e, (Dec.feed v1 cls 8 [b] nx).2.evs = [Dec.Ev.progInfo cls e] ∧ e.cgms = ((b &&& 63 : Nat) : Int)) ∧
    (Dec.feed v2 cls 8 [b] nx).2.evs = [] ∧ (v2.pi cls).cgms = ((b &&& 63 : Nat) : Int) ∧ p.sub = 8 := by
  intro p v1 v2
  have hneq : ((v.pi cls).cgms != ((b &&& 63 : Nat) : Int)) = true := by simpa using hne
  have e1 : v1 = (Dec.fin (v.setPi cls { v.pi cls with cgms := ((b &&& 63 : Nat) : Int) }) cls 8 true [] none).1 := by
    simp only [v1, Dec.feed_cgms, hneq]
  have c1 : (v1.pi cls).cgms = ((b &&& 63 : Nat) : Int) := by rw [e1]; simp
  have y1 : v1.cyc cls = 8 :: v.cyc cls := by rw [e1, Dec.fin_cyc]; simp
  have n1 : ((v1.pi cls).cgms != ((b &&& 63 : Nat) : Int)) = false := by simp [c1]
  have e2 : v2 = (Dec.fin (v1.setPi cls { v1.pi cls with cgms := ((b &&& 63 : Nat) : Int) }) cls 8 false [] none).1 := by
    simp only [v2, Dec.feed_cgms, n1]
  have c2 : (v2.pi cls).cgms = ((b &&& 63 : Nat) : Int) := by rw [e2]; simp
  have y2 : v2.cyc cls = [] := by rw [e2, Dec.fin_cyc]; simp [y1]
  have n2 : ((v2.pi cls).cgms != ((b &&& 63 : Nat) : Int)) = false := by simp [c2]
  refine ⟨?_, ?_, ?_, c2, rfl⟩
  · rw [Dec.feed_cgms, Dec.fin_events, hneq]; simp
  · rw [Dec.feed_cgms, Dec.fin_events, n1]
    refine ⟨(v1.setPi cls { v1.pi cls with cgms := ((b &&& 63 : Nat) : Int) }).pi cls, ?_, ?_⟩
    · simp [y1]
    · simp
  · rw [Dec.feed_cgms, Dec.fin_events, n2]; simp [y2]

example : ((Dec.init.pi 0).cgms ≠ ((0x41 &&& 63 : Nat) : Int)) := by decide

/-- "no field is written by a packet of another type" (every state, every packet):
    * a packet of class current / future never touches the network information; of the *other* class's
      programme information and pending bits it touches nothing unless it is an aspect ratio packet
      (type 9, see the counterexample below); inside its own class a type other than programme id (1)
      and programme name (3) - the two documented flushes - leaves the fields of all other types alone;
    * a packet of class channel never touches the caption channel languages, and touches programme
      information, pending bits and `aspect_source` only through `vbi_chsw_reset`, which only the repeat
      of a changed network name (type 1) can trigger;
    * classes 3.. change nothing at all. -/
theorem dec_no_foreign_write (v : Dec.Info) (cls typ : Nat) (d : List Nat) (nx : Nat) :
    (Dec.feed v cls typ d nx).1.net = v.net ∧
    (cls ≤ 1 → typ ≠ 9 → (Dec.feed v cls typ d nx).1.pi (1 - cls) = v.pi (1 - cls) ∧
      (Dec.feed v cls typ d nx).1.cyc (1 - cls) = v.cyc (1 - cls)) ∧
    (typ ≠ 1 → typ ≠ 3 →
      let a := v.pi cls
      let b := (Dec.feed v cls typ d nx).1.pi cls
      b.month = a.month ∧ b.day = a.day ∧ b.hour = a.hour ∧ b.min = a.min ∧ b.tapeDelayed = a.tapeDelayed ∧
      b.title = a.title ∧
      (typ ≠ 2 → b.lengthHour = a.lengthHour ∧ b.lengthMin = a.lengthMin ∧ b.elapsedHour = a.elapsedHour ∧
        b.elapsedMin = a.elapsedMin ∧ b.elapsedSec = a.elapsedSec) ∧
      (typ ≠ 4 → b.typeEia = a.typeEia ∧ b.typeId = a.typeId) ∧
      (typ ≠ 5 → b.ratingAuth = a.ratingAuth ∧ b.ratingId = a.ratingId ∧ b.ratingDlsv = a.ratingDlsv) ∧
      (typ ≠ 6 → b.audioMode = a.audioMode ∧ b.audioLang = a.audioLang) ∧
      (typ ≠ 7 → b.capServices = a.capServices ∧ b.capLang = a.capLang) ∧
      (typ ≠ 8 → b.cgms = a.cgms) ∧
      (typ ≠ 9 → b.aspect = a.aspect) ∧
      (¬(0x10 ≤ typ ∧ typ ≤ 0x17) → b.description = a.description)) ∧
    ((Dec.netFeed v typ d nx).2.chsw = true → typ = 1) ∧
    ((Dec.netFeed v typ d nx).2.chsw = false →
      (Dec.netFeed v typ d nx).1.pi0 = v.pi0 ∧ (Dec.netFeed v typ d nx).1.pi1 = v.pi1 ∧
      (Dec.netFeed v typ d nx).1.cyc0 = v.cyc0 ∧ (Dec.netFeed v typ d nx).1.cyc1 = v.cyc1 ∧
      (Dec.netFeed v typ d nx).1.aspSrc = v.aspSrc) ∧
    (Dec.netFeed v typ d nx).1.chLang = v.chLang ∧
    (∀ c, 3 ≤ c → (Dec.step v ⟨c, typ, d⟩ nx).1 = v) := by
  refine ⟨Dec.feed_net v cls typ d nx, fun hc h9 => Dec.feed_other_class v cls typ d nx hc h9,
    fun h1 h3 => Dec.feed_same_class v cls typ d nx h1 h3, (Dec.netFeed_frame v typ d nx).1,
    (Dec.netFeed_frame v typ d nx).2.1, (Dec.netFeed_frame v typ d nx).2.2, ?_⟩
  intro c hc
  unfold Dec.step
  split
  · rfl
  · simp [show ¬(c ≤ 1) by omega, show ¬(c = 2) by omega]

/-! ### where the current tree departs from "equals the delivered packets, announced after the repeat"
Each statement is decided on a concrete packet sequence and written so that it holds for either value
of the control-flow constant: the first alternative is what the current tree does (replays in
corpus/C09/80..82, repairs in fixes/C09-*.diff), the second what the repaired code does. -/

/-- caption services packet (CC1, English) three times -/
def witnessCapsvc : List (Pkt × Nat) := [(⟨0, 7, [0x48]⟩, 0), (⟨0, 7, [0x48]⟩, 0), (⟨0, 7, [0x48]⟩, 0)]

/-- prog_info_capsvc_never_announced_counterexample: on the current tree a caption services packet that
    names a language is never announced by its repeat (the stored languages are cleared before the
    comparison, so it always counts as changed and bit 7 stays pending); with the comparison done first
    the second occurrence raises PROG_INFO. -/
theorem prog_info_capsvc_never_announced_counterexample :
    (Dec.run Dec.init witnessCapsvc).2.map (fun o => o.evs.length) =
      (if Dec.capLangClearedFirst then [0, 0, 0] else [0, 1, 0]) ∧
    (Dec.run Dec.init witnessCapsvc).1.cyc0 = (if Dec.capLangClearedFirst then [7, 7, 7] else []) := by
  decide +kernel

/-- flush_prog_info and ASPECT, every state, both source shapes: the only ASPECT event a programme id
    (type 1) or programme name (type 3) packet can raise is the one of `flush_prog_info`.  It is raised
    only if a known aspect ratio of that programme was erased, and - `flushAspectAnyClass = false`, the
    repaired shape - only for the current programme (class 0): never for the future one, which is not on
    screen.  It carries the stored value, unknown (`flushSendsOldAspect = false`, repaired), resp. the
    value that was just erased (`true`, the shape before fixes/C09-flush-aspect.diff). -/
theorem dec_flush_aspect_event (v : Dec.Info) (cls typ : Nat) (d : List Nat) (nx : Nat) (ht : typ = 1 ∨ typ = 3)
    (a : Dec.Aspect) (ha : Dec.Ev.aspect a ∈ (Dec.feed v cls typ d nx).2.evs) :
    (v.pi cls).aspect ≠ {} ∧ (Dec.flushAspectAnyClass = true ∨ cls = 0) ∧
    a = (if Dec.flushSendsOldAspect then (v.pi cls).aspect else {}) :=
  Dec.feed_flush_events v cls typ d nx ht a ha

/-- and `flush_prog_info` itself: exactly that event, and the stored aspect ratio is unknown afterwards -/
theorem dec_flush_events (v : Dec.Info) (cls : Nat) :
    (Dec.flush v cls).2 =
      (if (v.pi cls).aspect ≠ {} ∧ (Dec.flushAspectAnyClass = true ∨ cls = 0) then
        [Dec.Ev.aspect (if Dec.flushSendsOldAspect then (v.pi cls).aspect else {})] else []) ∧
    ((Dec.flush v cls).1.pi cls).aspect = {} :=
  Dec.flush_events v cls

/-- aspect ratio (twice), then a programme id -/
def witnessFlush : List (Pkt × Nat) :=
  [(⟨0, 9, [0x45, 0x46, 0x41]⟩, 0), (⟨0, 9, [0x45, 0x46, 0x41]⟩, 0), (⟨0, 1, [0x45, 0x46, 0x47, 0x43]⟩, 0)]

/-- the same for the future programme -/
def witnessFlushFuture : List (Pkt × Nat) :=
  [(⟨1, 9, [0x45, 0x46, 0x41]⟩, 0), (⟨1, 9, [0x45, 0x46, 0x41]⟩, 0), (⟨1, 1, [0x45, 0x46, 0x47, 0x43]⟩, 0)]

/-- prog_info_flush_announces_erased_aspect_counterexample (corpus/C09/81, 83): the programme id flushes
    the programme information; before the repair the ASPECT event carries the aspect ratio that was just
    erased instead of the value now stored (unknown), and - once the future programme has an aspect ratio
    of its own (201beae) - it is also raised when the *future* programme is flushed; repaired: the stored
    value, and nothing for the future programme.  Decided on both streams, stated for every combination
    of the constants. -/
theorem prog_info_flush_announces_erased_aspect_counterexample :
    ((Dec.run Dec.init witnessFlush).2.getD 2 {}).evs =
      [Dec.Ev.aspect (if Dec.flushSendsOldAspect then { first := 27, last := 256, ratio := 2 } else {})] ∧
    (Dec.run Dec.init witnessFlush).1.pi0.aspect = {} ∧
    ((Dec.run Dec.init witnessFlushFuture).2.getD 2 {}).evs =
      (if Dec.aspectAlwaysCurrent then []
       else if Dec.flushAspectAnyClass then
         [Dec.Ev.aspect (if Dec.flushSendsOldAspect then { first := 27, last := 256, ratio := 2 } else {})]
       else []) ∧
    (Dec.run Dec.init witnessFlushFuture).1.pi1.aspect = {} := by
  decide +kernel

/-- an aspect ratio packet of the *future* class -/
def witnessFuture : List (Pkt × Nat) := [(⟨1, 9, [0x55, 0x4A, 0x41]⟩, 0)]

/-- prog_info_future_aspect_overwrites_current_counterexample ("no field is written by a packet of another
    class" is false for type 9 on the current tree): the future-class packet is stored into the *current*
    programme's aspect ratio and announced as ASPECT, the future programme's stays unknown; repaired, it
    goes to the future programme and sends nothing. -/
theorem prog_info_future_aspect_overwrites_current_counterexample :
    ((Dec.run Dec.init witnessFuture).1.pi0.aspect, (Dec.run Dec.init witnessFuture).1.pi1.aspect,
      (Dec.run Dec.init witnessFuture).2.map (fun o => o.evs.length)) =
      (if Dec.aspectAlwaysCurrent then (({ first := 43, last := 252, ratio := 2 } : Dec.Aspect), ({} : Dec.Aspect), [1])
       else (({} : Dec.Aspect), ({ first := 43, last := 252, ratio := 2 } : Dec.Aspect), [0])) := by
  decide +kernel

/-! ### open -/

/-- prog_info_equals_packets at full strength, NOT proved: for every history of delivered packets, every
    field group `g` of `Dec.Info` (programme id, length, name, type, rating, audio, caption services,
    CGMS-A, aspect, description lines - per class; network name, call letters, tape delay) equals the
    decoding of the last accepted packet of `g`'s (class, type) after the last flush that reaches `g`, and
    is "unknown" if there is none.  What is proved instead (`_partial`): the per-call facts from which this
    follows by induction over the history - own text fields equal the packet (`dec_text_fields_equal_packet`),
    nothing else is written (`dec_no_foreign_write`), announcements (`dec_announce_on_repeat`,
    `Dec.fin_events`), index safety over all histories (`dec_never_oob_all_histories`) - and, for the
    numeric fields, the correspondence run plus the field-by-field oracle of checks/C09.py. -/
def prog_info_equals_packets_full : Prop :=
  ∀ (hist : List (Pkt × Nat)) (cls : Nat), cls ≤ 1 →
    ∀ (c : Nat) (pre post : List (Pkt × Nat)), hist = pre ++ (⟨cls, 8, [c]⟩, 0) :: post →
      (∀ q ∈ post, ¬(q.1.cls = cls ∧ (q.1.sub = 8 ∨ q.1.sub = 1 ∨ q.1.sub = 3)) ∧ ¬(q.1.cls = 2 ∧ q.1.sub = 1)) →
      ((Dec.run Dec.init hist).1.pi cls).cgms = ((c &&& 63 : Nat) : Int)

/-- prog_info_equals_packets_partial: the instance of the full statement for one more call - whatever the
    state, after a CGMS-A packet the field holds its value, and a following packet of another type of the
    same class that is neither programme id nor programme name leaves it there. -/
theorem prog_info_equals_packets_partial (v : Dec.Info) (cls c typ : Nat) (d : List Nat) (nx : Nat)
    (h8 : typ ≠ 8) (h1 : typ ≠ 1) (h3 : typ ≠ 3) :
    (((Dec.feed (Dec.feed v cls 8 [c] 0).1 cls typ d nx).1).pi cls).cgms = ((c &&& 63 : Nat) : Int) := by
  have := (Dec.feed_same_class (Dec.feed v cls 8 [c] 0).1 cls typ d nx h1 h3).2.2.2.2.2.2.2.2.2.2.2.1 h8
  rw [this, Dec.feed_cgms]; simp

end Zvbi.Props.C09Sep
