import ZvbiModel.Mux.TsJoin
import ZvbiModel.Mux.CorHistory
import ZvbiModel.Props.C06Join
/-!
# C06 / C07 joined, TS mode - `mux_demux_roundtrip_ts`

Property theorems only.  Models: `Mux/Model.lean` (src/dvb_mux.c, TS packetiser of `vbi_dvb_mux_feed`),
`Demux/Ts.lean` (src/dvb_demux.c `demux_ts_packet`, `ts_pes_packet_complete`); helper lemmas:
`Demux/TsJoin{Packet,Stream,Pes,All}.lean`, `Mux/TsJoin.lean`.

The round trip through `_vbi_dvb_ts_demux_new (pid)`: TS mode, every history of accepted / rejected frames
and configuration changes from ANY continuity counter, the output cut into 188-byte packets, packets the
demultiplexer has to pass over (`Foreign`: another PID - null packets included -, or the same PID with an
adaptation field only) interleaved at arbitrary packet boundaries, the resulting byte stream cut into feed
calls in ANY way.  Excluded frames are those of `Props/C06Join.lean` (`Separable`).  The source shape needs
fix dvb-demux-ts-first-packet (F30, in /repo since 9cc9384): `cfg.tsCompletesInHeader = true`; without it the
first frame is lost when its PES packet is one TS packet (`ts_roundtrip_needs_f30_fix`).

Which starts occur, and all are covered: a new demultiplexer searches for the sync byte with 197 bytes of
look-ahead, finds it at offset 0 of the first packet (own or foreign; confirmed by the sync byte of the second
packet), and does not know the continuity counter (`ts_continuity = -1`); the first packet of the PID it sees is
the first TS packet of the first accepted frame's PES packet: payload_unit_start_indicator 1, counter `m.cc mod 16` -
0 after `vbi_dvb_ts_mux_new`, any of the 16 values after `vbi_dvb_mux_reset` or an earlier history (`m.cc`
is universally quantified; `C07.ts_unknown_counter_accepts_any`).  Later packets carry payload_unit_start exactly
at PES packet starts and counters consecutive modulo 16 (`C06.ts_continuity`), across frames, rejected frames and
configuration changes.
-/
namespace Zvbi.Props.C06Ts
open Zvbi.Mux Zvbi.Mux.EnParse
open Zvbi.Demux (SrcCfg TsSt FrameOut tsFeed tsFeedAll Merge Foreign TsPkt V mkAt Holds outOf Sep)
open Zvbi.Props.C06Join (exLine exOps)

/-- **ts_foreign_pid_ignored.**  An intact TS packet (188 bytes, sync byte) without transport_error_indicator
whose PID is not the demultiplexer's - whatever its payload_unit_start, scrambling bits, adaptation field,
continuity counter and payload are (sync bytes and PES start codes in the payload included) - read in sync at a TS
packet boundary delivers nothing and changes nothing: frame under assembly, PES bytes collected, bytes to go,
expected counter are kept; the demultiplexer is at the next packet boundary. -/
theorem ts_foreign_pid_ignored (cfg : SrcCfg) (pid : Nat) (v : V) (p : Bytes) (hp : TsPkt p)
    (htei : p.getD 1 0 &&& 0x80 = 0) (hpid : (p.getD 1 0 * 256 + p.getD 2 0) &&& 0x1FFF ≠ pid) :
    Foreign pid p ∧ tsFeed cfg (mkAt pid v []) p = { st := mkAt pid v [], frames := [] } := by
  have hf := Zvbi.Demux.foreign_of_pid pid p hp htei hpid
  have := Zvbi.Demux.feed_at (cfg := cfg) pid v v p [] 0 hp.1 hp.2 (by omega) (.skip v p hf.2)
  exact ⟨hf, by simpa using this⟩

/-- a null packet (PID 0x1FFF, payload_unit_start set, "scrambled", adaptation field + payload) full of sync bytes -/
def nullPkt : Bytes := [0x47, 0x5F, 0xFF, 0xFC] ++ List.replicate 184 0x47
theorem nullPkt_tsPkt : TsPkt nullPkt := ⟨by rw [nullPkt, List.length_append, List.length_replicate]; rfl, rfl⟩
example : Foreign 0x123 nullPkt := Zvbi.Demux.foreign_of_pid 0x123 nullPkt nullPkt_tsPkt (by decide) (by decide)

/-- **mux_demux_roundtrip_ts.**  For every multiplexer in a reachable configuration in TS mode
(`vbi_dvb_ts_mux_new (pid)`: PID 0x10..0x1FFE; ANY continuity counter `m.cc`), every history `ops` of frames
(accepted or rejected; well-formed `vbi_sliced`, no raw line requests) and configuration changes whose accepted
frames are `Separable`, the output cut into its 188-byte packets `pkts`, EVERY interleaving `xs` of `pkts` with
`Foreign` packets, EVERY partition `chunks` of the resulting stream into `vbi_dvb_demux_feed` calls (single
bytes, empty buffers included), a demultiplexer for the same PID whose source has fix dvb-demux-ts-first-packet:
it delivers exactly the accepted frames but the last - from the FIRST frame on -, in order, one callback each,
with PTS mod 2^33 and the lines in order with service id, line number and payload bits; when the stream has at
least two TS packets it ends in sync at a TS packet boundary, waiting for a PES packet start, holding the last
frame complete with its PTS.  (No call faults: `C07.ts_garbage_safe`, for all inputs.) -/
theorem mux_demux_roundtrip_ts (cfg : SrcCfg) (hflag : cfg.tsCompletesInHeader = true) (m : Mux) (hc : CfgOK m.cfg)
    (hp : m.cfg.pid ≠ 0) (hp2 : m.cfg.pid < 0x2000)
    (ops : List Op) (hops : ∀ op ∈ ops, Op.OK op) (hsep : Separable (run m ops).2.2)
    (pkts : List Bytes) (h188 : ∀ p ∈ pkts, p.length = 188) (hfl : pkts.flatten = (run m ops).2.1)
    (xs : List Bytes) (hm : Merge m.cfg.pid pkts xs)
    (chunks : List Bytes) (hch : chunks.flatten = xs.flatten) :
    (tsFeedAll cfg (TsSt.init m.cfg.pid) chunks).2 = (run m ops).2.2.dropLast.map received
    ∧ (2 ≤ xs.length → ∃ v', (tsFeedAll cfg (TsSt.init m.cfg.pid) chunks).1 = mkAt m.cfg.pid v' [] ∧ v'.todo = 0
        ∧ ∀ hne : (run m ops).2.2 ≠ [],
            Holds v'.fs ((run m ops).2.2.getLast hne).pts ((run m ops).2.2.getLast hne).lines) := by
  obtain ⟨pks, hparse, hbytes, hout, hcont⟩ := ts_history_packets ops hops m hc hp
  have hasc := run_asc ops hops m
  have hlines : pks.map (fun x => x.2.lines) = (run m ops).2.2.map (·.lines) := by
    rw [← hcont, List.map_map]; rfl
  have hS : Sep cfg (pks.map fun x => x.2.lines) := by
    rw [hlines]
    cases hss : (run m ops).2.2 with
    | nil => trivial
    | cons s ss =>
      rw [hss] at hsep hasc
      exact sepFrom_of_separable ss s hasc hsep
  have hpk : pkts = Zvbi.Demux.tsAll m.cfg.pid m.cc (pks.map Prod.fst) :=
    flatten_188_inj _ _ h188 (fun x hx => (Zvbi.Demux.tsAll_tsPkt m.cfg.pid pks m.cc hparse x hx).1) (by rw [hfl, hout])
  rw [hpk] at hm
  obtain ⟨hfr, hst⟩ := Zvbi.Demux.ts_stream_frames (cfg := cfg) hflag m.cfg.pid hp2 pks m.cc xs hparse hbytes hS hm
  have hall := Zvbi.Demux.tsFeedAll_flatten (cfg := cfg) chunks (TsSt.init m.cfg.pid) (Zvbi.Demux.TsInv_init _)
  rw [hch] at hall
  have hsnd : (pks.map Prod.snd).map Pes.content = (run m ops).2.2 := by rw [← hcont, List.map_map]; rfl
  refine ⟨?_, ?_⟩
  · rw [hall]
    show (tsFeed cfg (TsSt.init m.cfg.pid) xs.flatten).frames = _
    have e : ∀ l : List Pes, l.dropLast.map outOf = (l.map Pes.content).dropLast.map received := by
      intro l; rw [map_dropLast, List.map_map]; rfl
    rw [hfr, e, hsnd]
  · intro h2
    obtain ⟨v', h1, h0, hh⟩ := hst h2
    refine ⟨v', by rw [hall]; exact h1, h0, ?_⟩
    intro hne
    have hpne : pks.map Prod.snd ≠ [] := by
      intro h; apply hne; rw [← hsnd, h]; rfl
    have hl := hh hpne
    have hlast : Pes.content ((pks.map Prod.snd).getLast hpne) = (run m ops).2.2.getLast hne := by
      have : ((pks.map Prod.snd).map Pes.content).getLast (by simpa using hpne) = (run m ops).2.2.getLast hne := by
        simp only [hsnd]
      rw [← this]; simp only [List.getLast_map]
    rw [← hlast]
    exact hl

/-- the same for a multiplexer as `vbi_dvb_ts_mux_new (pid)` returns it (counter 0) -/
theorem mux_demux_roundtrip_ts_new (cfg : SrcCfg) (hflag : cfg.tsCompletesInHeader = true) (pid : Nat) (m : Mux)
    (hnew : newTs pid = some m) (ops : List Op) (hops : ∀ op ∈ ops, Op.OK op) (hsep : Separable (run m ops).2.2)
    (pkts : List Bytes) (h188 : ∀ p ∈ pkts, p.length = 188) (hfl : pkts.flatten = (run m ops).2.1)
    (xs : List Bytes) (hm : Merge pid pkts xs) (chunks : List Bytes) (hch : chunks.flatten = xs.flatten) :
    (tsFeedAll cfg (TsSt.init pid) chunks).2 = (run m ops).2.2.dropLast.map received := by
  have hc := cfgOK_newTs pid m hnew
  unfold newTs at hnew
  split at hnew
  · cases hnew
  · rename_i hpid
    simp only [Option.some.injEq] at hnew
    subst hnew
    exact (mux_demux_roundtrip_ts cfg hflag _ hc (by show pid ≠ 0; omega) (by show pid < 0x2000; omega) ops hops hsep pkts h188 hfl xs hm
      chunks hch).1


/-! non-vacuity: a TS multiplexer, the history `exOps` of `Props/C06Join.lean` (five frames, one configuration change) -/

/-- `vbi_dvb_ts_mux_new (0x123)` -/
def exMux : Mux := { cfg := { pid := 0x123 } }
/-- the same after a history that left the counter at 14 (e.g. `vbi_dvb_mux_reset` from 15) -/
def exMux14 : Mux := { cfg := { pid := 0x123 }, cc := 14 }
/-- an adaptation-field-only packet of the multiplexer's own PID -/
def afPkt : Bytes := [0x47, 0x01, 0x23, 0x27] ++ List.replicate 184 0xBD
theorem afPkt_foreign : Foreign 0x123 afPkt := ⟨⟨by rw [afPkt, List.length_append, List.length_replicate]; rfl, rfl⟩, by decide⟩
theorem nullPkt_foreign : Foreign 0x123 nullPkt :=
  Zvbi.Demux.foreign_of_pid 0x123 nullPkt nullPkt_tsPkt (by decide) (by decide)

def exOut (m : Mux) : Bytes := (run m exOps).2.1
def exPkts (m : Mux) : List Bytes := chop188 (exOut m).length (exOut m)

example : newTs 0x123 = some exMux := rfl
example : ∀ op ∈ exOps, Op.OK op := by decide +kernel
example : Separable (run exMux exOps).2.2 ∧ (run exMux exOps).2.2.length = 5 := by decide +kernel
example : (exPkts exMux).length = 5 ∧ (∀ p ∈ exPkts exMux, p.length = 188) ∧ (exPkts exMux).flatten = exOut exMux := by
  decide +kernel

/-- the theorem instantiated: foreign packets before, between and after the multiplexer's packets, the stream cut
after byte 100, after byte 101 (a one-byte buffer) and an empty buffer: the first four frames come back -/
example : let xs := [nullPkt] ++ ((exPkts exMux).take 2 ++ ([nullPkt, afPkt] ++ ((exPkts exMux).drop 2 ++ [afPkt])))
    (tsFeedAll SrcCfg.repaired (TsSt.init 0x123) [xs.flatten.take 100, (xs.flatten.drop 100).take 1, [], xs.flatten.drop 101]).2
      = (run exMux exOps).2.2.dropLast.map received := by
  intro xs
  have hm : Merge 0x123 (exPkts exMux) xs := by
    have h1 : Merge 0x123 [] [nullPkt] := Merge.ofForeign _ (by intro f hf; simp at hf; subst hf; exact nullPkt_foreign)
    have h2 : Merge 0x123 [] [nullPkt, afPkt] := Merge.ofForeign _ (by
      intro f hf; simp at hf; rcases hf with rfl | rfl
      · exact nullPkt_foreign
      · exact afPkt_foreign)
    have h3 : Merge 0x123 [] [afPkt] := Merge.ofForeign _ (by intro f hf; simp at hf; subst hf; exact afPkt_foreign)
    have := Merge.append h1 (Merge.append (Merge.refl 0x123 ((exPkts exMux).take 2))
      (Merge.append h2 (Merge.append (Merge.refl 0x123 ((exPkts exMux).drop 2)) h3)))
    have e : [] ++ ((exPkts exMux).take 2 ++ ([] ++ ((exPkts exMux).drop 2 ++ []))) = exPkts exMux := by
      rw [List.nil_append, List.nil_append, List.append_nil, List.take_append_drop]
    rw [e] at this
    exact this
  exact (mux_demux_roundtrip_ts SrcCfg.repaired rfl exMux (cfgOK_newTs 0x123 exMux rfl) (by decide) (by decide) exOps
    (by decide +kernel) (by decide +kernel) (exPkts exMux) (by decide +kernel) (by decide +kernel) xs hm _
    (by simp only [List.flatten_cons, List.flatten_nil, List.append_nil, List.nil_append]
        have e : ∀ L : Bytes, L.drop 101 = (L.drop 100).drop 1 := fun L => by rw [List.drop_drop]
        rw [e, List.take_append_drop, List.take_append_drop])).1

/-- ... and evaluated in the kernel, also from continuity counter 14 (15, 0, 1, 2 follow): PTS (mod 2^33), service ids,
line numbers of what the TS demultiplexer model delivers for the plain stream fed whole -/
example : ((tsFeed SrcCfg.repaired (TsSt.init 0x123) (exOut exMux14)).frames.map
      (fun f => (f.pts, f.lines.map fun l => (l.id, l.line))))
    = [(5, [(3, 7), (4, 16), (0x400, 23)]), (6, [(3, 7), (3, 320)]), (7, [(3, 9)]), (8, [(3, 8), (8, 21)])] := by
  decide +kernel

/-- **why the F30 repair is a hypothesis**: in the source shape without fix dvb-demux-ts-first-packet the statement is
false - the first frame of `exOps` (its PES packet is one TS packet) is never delivered -/
theorem ts_roundtrip_needs_f30_fix :
    ((tsFeed { SrcCfg.repaired with tsCompletesInHeader := false } (TsSt.init 0x123) (exOut exMux)).frames.map (·.pts))
      = [6, 7, 8]
    ∧ ((run exMux exOps).2.2.dropLast.map received).map (·.pts) = [5, 6, 7, 8] := by decide +kernel

/-- **the round trip for the coroutine interface of the multiplexer in TS mode**: the stream an application produces
with `vbi_dvb_mux_cor` (any output buffer sizes per frame) from a new TS multiplexer, foreign packets interleaved, cut
into demultiplexer feed calls in any way, comes back as the accepted frames -/
theorem cor_mux_demux_roundtrip_ts (cfg : SrcCfg) (hflag : cfg.tsCompletesInHeader = true) (pid : Nat) (m : Mux)
    (hnew : newTs pid = some m) (fuel : Nat) (hfuel : 66928 ≤ fuel) (ops : List (Op × List Nat))
    (hops : ∀ op ∈ ops, CorOpOK op) (hsep : Separable (run m (ops.map Prod.fst)).2.2)
    (pkts : List Bytes) (h188 : ∀ p ∈ pkts, p.length = 188) (hfl : pkts.flatten = (corRun fuel m ops).2)
    (xs : List Bytes) (hm : Merge pid pkts xs) (chunks : List Bytes) (hch : chunks.flatten = xs.flatten) :
    (tsFeedAll cfg (TsSt.init pid) chunks).2 = (run m (ops.map Prod.fst)).2.2.dropLast.map received := by
  have hc := cfgOK_newTs pid m hnew
  have hidle : Idle m := by
    unfold newTs at hnew
    split at hnew
    · cases hnew
    · simp only [Option.some.injEq] at hnew; subst hnew; exact Nat.le_refl 0
  have h := (cor_history_equals_feed fuel hfuel ops hops m m hidle rfl rfl hc).1
  have hops' : ∀ op ∈ ops.map Prod.fst, Op.OK op := by
    intro op hop
    rw [List.mem_map] at hop
    obtain ⟨x, hx, rfl⟩ := hop
    have := hops x hx
    obtain ⟨o, sizes⟩ := x
    cases o with
    | frame lines mask pts => exact ⟨this.2.1, this.2.2.1⟩
    | dataId d => trivial
    | size a b => trivial
  exact mux_demux_roundtrip_ts_new cfg hflag pid m hnew (ops.map Prod.fst) hops' hsep pkts h188 (by rw [hfl, h]) xs hm chunks hch

example : ((corRun 66928 exMux [(.frame corExLines 0xFFFFFFFF 5, [1, 7, 50]), (.frame corExLines 3 7, [188, 5])]).2.length) = 376 := by
  decide +kernel

end Zvbi.Props.C06Ts
