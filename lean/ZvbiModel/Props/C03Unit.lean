import ZvbiModel.Ttx.X28Refuse
import ZvbiModel.Props.C03
/-!
# C03, round 6 - packets X/28 and M/29 with an uncorrectable protected unit change nothing

`parse_28_29` protects its payload with Hamming 8/4 (designation) and Hamming 24/18 (13 triplets).  The
formats X/28/0, X/28/4, M/29/0, M/29/4 (character sets, side panels, 16 CLUT entries, default screen / row
colour, CLUT remapping), X/28/1, M/29/1 (DRCS CLUT) and X/28/3 (DRCS download modes) read a bit stream laid
over the triplets, so one uncorrectable triplet shifts nothing but poisons whatever is read from it: the
C code decodes ALL 13 triplets first (`err |= triplets[i] = vbi_unham24p (p)`) and returns before the
first write when `err < 0`.  The theorems state that consequence for the whole step: a packet of one of these
formats with ANY uncorrectable unit (designation byte, or any of the 13 triplets - including triplets the
format does not consume) is the packet that was never received.

This is the statement the seeded change C03-g breaks (a validation helper that skips the last used
triplet); on the C code it is judged by the twin cases `unit2` of checks/C03.py (double error in unit k
vs. the packet removed, for every unit k).
-/
namespace Zvbi.Props.C03Unit
open Zvbi.Ttx Zvbi.Ttx.Spec Zvbi.Hamm Zvbi.Gen

/-- X/28/0 for magazine 1: character sets 5 / 6, CLUT entries 0x123.., screen colour 7, row colour 9 -/
def x28Good : Packet :=
  [0x02, 0xfd, 0x15, 0x8a, 0xa8, 0xb0, 0x08, 0xc0, 0x11, 0x8d, 0xa4, 0x22, 0x4e, 0x04, 0x93, 0x84, 0x27, 0x02, 0xdb,
   0xc4, 0x14, 0x0f, 0x2a, 0xe2, 0x52, 0x04, 0x16, 0x85, 0xad, 0xc2, 0xdf, 0xc4, 0x97, 0x87, 0xb0, 0x22, 0x69, 0x04,
   0x99, 0x8f, 0xa7, 0xba]

/-- the same packet with two bit errors inside its LAST triplet (bytes 39, 40) and none elsewhere -/
def x28Bad : Packet := (x28Good.set 39 0x8e).set 40 0xaf

/-- M/29/4 for magazine 1 with two bit errors in the FIRST triplet (byte 3) -/
def m29Bad : Packet :=
  [0xc7, 0xfd, 0x64, 0xc8, 0xa8, 0xb0, 0x08, 0xc0, 0x11, 0x8d, 0xa4, 0x22, 0x4e, 0x04, 0x93, 0x84, 0x27, 0x02, 0xdb,
   0xc4, 0x14, 0x0f, 0x2a, 0xe2, 0x52, 0x04, 0x16, 0x85, 0xad, 0xc2, 0xdf, 0xc4, 0x97, 0x87, 0xb0, 0x22, 0x69, 0x04,
   0x99, 0x8f, 0xa7, 0xba]

/-- a header of page 100 (magazine 1), so that the slot holds a Level one page -/
def hdr100 : Packet := [0x02, 0x15, 0x15, 0x15, 0x15, 0x15, 0x15, 0x15, 0x15, 0x15] ++ List.replicate 32 0x20

/-- **An X/28 or M/29 packet with an uncorrectable triplet is the packet that was not received.**
    Any decoder state `s` (handler registered or not, any page function in the slot), any packet (any 42
    bytes) whose address decodes to packet 28 or 29 of some magazine and whose designation byte decodes to
    one of the formats that read the triplets (`X28UsesTriplets`: X/28/0, X/28/4, M/29/0, M/29/4, X/28/1,
    M/29/1, X/28/3 - every format of `parse_28_29` that writes anything), any triplet position `j` of the 13:
    if triplet `j` is uncorrectable (`vbi_unham24p < 0`, two bit errors), then `vbi_decode_teletext` leaves
    the decoder state as it was and sends no event, and the whole step through `vbi_decode` is the step of a
    frame without this line (`frameTick`).  No character set, panel width, CLUT entry, screen / row colour,
    DRCS CLUT entry, DRCS mode, `x28_designations` bit or page function is written.  For designation 1 the
    statement needs repair F25 (`ttxFixF25`, regenerated from packet.c; `rfl` on the current tree): the code
    as found used the triplets of X/28/1, M/29/1 without looking at `err`. -/
theorem uncorrectable_unit_packet_refused (s : St) (p : Packet) (pmag d j : Nat)
    (ha : a16 p 0 = some pmag) (hp : pmag >>> 3 = 28 ∨ pmag >>> 3 = 29)
    (hd : a8 p 2 = some d) (hfmt : X28UsesTriplets (pmag >>> 3) d) (h25 : ttxFixF25 = true ∨ d ≠ 1)
    (hj : j < 13) (hbad : a24 p (3 + 3 * j) = none) :
    (decodeTeletext s p).st = s ∧ (decodeTeletext s p).ev = [] ∧
    (s.mask = true → ¬ (pmag >>> 3 = 28 ∧ (s.rp (pmag &&& 7)).page.function = FN_DISCARD) →
       (decodeTeletext s p).ret = false) ∧
    step s p = frameTick s := by
  have key : ∀ s : St, (decodeTeletext s p).st = s ∧ (decodeTeletext s p).ev = [] ∧
      (s.mask = true → ¬ (pmag >>> 3 = 28 ∧ (s.rp (pmag &&& 7)).page.function = FN_DISCARD) →
        (decodeTeletext s p).ret = false) := by
    intro s
    by_cases hparsed : s.mask = false ∨ (pmag >>> 3 = 28 ∧ (s.rp (pmag &&& 7)).page.function = FN_DISCARD)
    · rw [decode_2829_not_parsed s p pmag ha hp hparsed]
      refine ⟨rfl, rfl, ?_⟩
      intro hm hnd
      rcases hparsed with h | h
      · rw [h] at hm; exact absurd hm (by simp)
      · exact absurd h hnd
    · have hm : s.mask = true := by
        cases hmk : s.mask with
        | true => rfl
        | false => exact absurd (Or.inl hmk) hparsed
      have hnd : ¬ (pmag >>> 3 = 28 ∧ (s.rp (pmag &&& 7)).page.function = FN_DISCARD) :=
        fun h => hparsed (Or.inr h)
      have hdec : decodeTeletext s p = ⟨s, [], false⟩ := by
        unfold decodeTeletext
        rw [ha]
        simp only []
        rw [kindOf_2829 s pmag _ hm hp hnd, process_2829 s pmag _ hm hp hnd]
        simp only []
        rw [parse2829_nop s _ _ _ _ false
          (x28Decide_bad_triplet _ (pmag >>> 3) d p j hd hfmt h25 hj hbad)]
        rfl
      rw [hdec]
      exact ⟨rfl, rfl, fun _ _ => rfl⟩
  refine ⟨(key s).1, (key s).2.1, (key s).2.2, ?_⟩
  unfold step
  have k := key (frameTick s).1
  cases hft : frameTick s with
  | mk s1 e0 =>
    rw [hft] at k
    simp only []
    rw [k.1, k.2.1]
    simp

/-- non-vacuity: the hypotheses are met by an X/28/0 packet damaged in its last triplet only (the shape of
    seeded change C03-g) and by an M/29/4 packet damaged in its first triplet; the flag of repair F25 is on in
    the current tree -/
example : a16 x28Bad 0 = some (1 + 28 * 8) ∧ a8 x28Bad 2 = some 0 ∧ a24 x28Bad (3 + 3 * 12) = none ∧
    (∀ j, j < 12 → (a24 x28Bad (3 + 3 * j)).isSome = true) ∧ X28UsesTriplets 28 0 ∧
    a16 m29Bad 0 = some (1 + 29 * 8) ∧ a8 m29Bad 2 = some 4 ∧ a24 m29Bad (3 + 3 * 0) = none ∧
    X28UsesTriplets 29 4 ∧ ttxFixF25 = true := by
  decide +kernel

/-- ... and the statement is about something: on a decoder that holds page 100 the intact packet does change the
    state (it installs the extension and marks designation 0), the damaged one does not. -/
example :
    let s := (run (init.enable true) [hdr100]).1
    ((decodeTeletext s x28Good).st.rp 1).page.x28 = 1 ∧
    ((decodeTeletext s x28Good).st.rp 1).page.ext.defScreen = 7 ∧
    ((decodeTeletext s x28Good).st.rp 1).page.ext.defRow = 9 ∧
    (s.rp 1).page.x28 = 0 ∧ (s.rp 1).page.function = FN_LOP ∧
    ((decodeTeletext s x28Bad).st.rp 1).page.x28 = 0 := by
  decide +kernel

/-- **The designation byte.**  A packet 28 / 29 whose designation byte is uncorrectable is refused whatever
    follows: same state, no event, the step is the step of a frame without this line. -/
theorem uncorrectable_designation_packet_refused (s : St) (p : Packet) (pmag : Nat)
    (ha : a16 p 0 = some pmag) (hp : pmag >>> 3 = 28 ∨ pmag >>> 3 = 29) (hd : a8 p 2 = none) :
    (decodeTeletext s p).st = s ∧ (decodeTeletext s p).ev = [] ∧ step s p = frameTick s := by
  have key : ∀ s : St, (decodeTeletext s p).st = s ∧ (decodeTeletext s p).ev = [] := by
    intro s
    by_cases hparsed : s.mask = false ∨ (pmag >>> 3 = 28 ∧ (s.rp (pmag &&& 7)).page.function = FN_DISCARD)
    · rw [decode_2829_not_parsed s p pmag ha hp hparsed]
      exact ⟨rfl, rfl⟩
    · have hm : s.mask = true := by
        cases hmk : s.mask with
        | true => rfl
        | false => exact absurd (Or.inl hmk) hparsed
      have hnd : ¬ (pmag >>> 3 = 28 ∧ (s.rp (pmag &&& 7)).page.function = FN_DISCARD) :=
        fun h => hparsed (Or.inr h)
      have hdec : decodeTeletext s p = ⟨s, [], false⟩ := by
        unfold decodeTeletext
        rw [ha]
        simp only []
        rw [kindOf_2829 s pmag _ hm hp hnd, process_2829 s pmag _ hm hp hnd]
        simp only []
        rw [parse2829_nop s _ _ _ _ false (x28Decide_bad_designation _ (pmag >>> 3) p hd)]
        rfl
      rw [hdec]
      exact ⟨rfl, rfl⟩
  refine ⟨(key s).1, (key s).2, ?_⟩
  unfold step
  have k := key (frameTick s).1
  cases hft : frameTick s with
  | mk s1 e0 =>
    rw [hft] at k
    simp only []
    rw [k.1, k.2]
    simp

example : a16 (x28Good.set 2 0x16) 0 = some (1 + 28 * 8) ∧ a8 (x28Good.set 2 0x16) 2 = none := by decide +kernel

/-- **Formats `parse_28_29` does not implement** (designation 2, 5 .. 15, M/29/3): the packet has no effect
    at all, whatever its triplets are - so an error in them cannot show either. -/
theorem unused_format_packet_ignored (s : St) (p : Packet) (pmag d : Nat)
    (ha : a16 p 0 = some pmag) (hp : pmag >>> 3 = 28 ∨ pmag >>> 3 = 29)
    (hd : a8 p 2 = some d) (hfmt : ¬ X28UsesTriplets (pmag >>> 3) d) :
    (decodeTeletext s p).st = s ∧ (decodeTeletext s p).ev = [] ∧ step s p = frameTick s := by
  have key : ∀ s : St, (decodeTeletext s p).st = s ∧ (decodeTeletext s p).ev = [] := by
    intro s
    by_cases hparsed : s.mask = false ∨ (pmag >>> 3 = 28 ∧ (s.rp (pmag &&& 7)).page.function = FN_DISCARD)
    · rw [decode_2829_not_parsed s p pmag ha hp hparsed]
      exact ⟨rfl, rfl⟩
    · have hm : s.mask = true := by
        cases hmk : s.mask with
        | true => rfl
        | false => exact absurd (Or.inl hmk) hparsed
      have hnd : ¬ (pmag >>> 3 = 28 ∧ (s.rp (pmag &&& 7)).page.function = FN_DISCARD) :=
        fun h => hparsed (Or.inr h)
      have hdec : decodeTeletext s p = ⟨s, [], true⟩ := by
        unfold decodeTeletext
        rw [ha]
        simp only []
        rw [kindOf_2829 s pmag _ hm hp hnd, process_2829 s pmag _ hm hp hnd]
        simp only []
        rw [parse2829_nop s _ _ _ _ true (x28Decide_unused_format _ (pmag >>> 3) d p hd hfmt hp)]
        rfl
      rw [hdec]
      exact ⟨rfl, rfl⟩
  refine ⟨(key s).1, (key s).2, ?_⟩
  unfold step
  have k := key (frameTick s).1
  cases hft : frameTick s with
  | mk s1 e0 =>
    rw [hft] at k
    simp only []
    rw [k.1, k.2]
    simp

example : a8 (x28Good.set 2 0x49) 2 = some 2 ∧ ¬ X28UsesTriplets 28 2 ∧ ¬ X28UsesTriplets 29 3 ∧
    X28UsesTriplets 28 3 := by decide +kernel

end Zvbi.Props.C03Unit
